/-
Lexing of SPELLED literals, part 5 (C14, lexer side): the spelling functions of Spec/Spell.lean are `TokSpelling`s —
  `tokSpelling_spellNumber`        every `spellNumber r n seps`, `2 ≤ r ≤ 36` (any separators)
  `tokSpelling_quoteCharList`      `quoteCharList q body`, `body` without `"`, `q ≥ 1`, `q ≠ 2`, `body ≠ []` unless `q = 1`
  `tokSpelling_quoteByteList`      `quoteByteList q body`, `body` without `'`, same side conditions
  `tokSpelling_spellBytesNumeric`  `spellBytesNumeric q bs`, `q ≥ 3`, `bs ≠ []`  (or `q = 1`)
  `tokSpelling_spellSymbol`        `spellSymbol name`, `name` of identifier characters, not starting with `:`
and the Rust character tables satisfy `CharClass.Lit` (`rustTables_lit`).
-/
import Garnish.Lemmas.LexSpell4
import Garnish.Lemmas.Literals
set_option linter.unusedSimpArgs false
set_option linter.unusedVariables false
namespace Garnish.Model.Lexer
open Garnish.Model Garnish.Model.Parser Garnish.Spec Garnish.Spec.Spell Garnish.Lemmas.Literals

/-! ## numbers -/

theorem mem_insertSepsFrom (seps : List Nat) : ∀ (ds : List Char) (i : Nat) (x : Char),
    x ∈ insertSepsFrom seps i ds → x = '_' ∨ x ∈ ds
  | [], i, x, h => by simp [insertSepsFrom] at h
  | d :: ds, i, x, h => by
    simp only [insertSepsFrom, List.mem_cons, List.mem_append, List.mem_replicate] at h
    rcases h with h | h | h
    · exact Or.inr (by simp [h])
    · exact Or.inl h.2
    · rcases mem_insertSepsFrom seps ds (i + 1) x h with h | h
      · exact Or.inl h
      · exact Or.inr (by simp [h])

/-- a number spelling is an ASCII digit followed by `_`, digits and lower-case letters -/
theorem spellNumber_shape (r n : Nat) (seps : List Nat) (hr2 : 2 ≤ r) (hr36 : r ≤ 36) :
    ∃ d rest, d < 10 ∧ spellNumber r n seps = digitChar d :: rest ∧
      ∀ x ∈ rest, x = '_' ∨ ∃ e, e < 36 ∧ x = digitChar e := by
  have hdig : ∀ (R : Nat), 0 < R → R ≤ 36 → ∀ m, ∀ c ∈ spellNat R m, ∃ e, e < 36 ∧ c = digitChar e := fun R h0 h36 m =>
    spellNat_chars R m h0 (fun c => ∃ e, e < 36 ∧ c = digitChar e) (fun e he => ⟨e, by omega, rfl⟩)
  unfold spellNumber
  split
  · rename_i h10
    obtain ⟨d, ds, hd, e⟩ := spellNat_eq_cons 10 n (by omega)
    refine ⟨d, _, hd, by rw [e]; rfl, ?_⟩
    intro x hx
    simp only [List.mem_append, List.mem_replicate] at hx
    rcases hx with hx | hx
    · exact Or.inl hx.2
    · rcases mem_insertSepsFrom seps ds _ x hx with h | h
      · exact Or.inl h
      · exact Or.inr (hdig 10 (by omega) (by omega) n x (by rw [e]; simp [h]))
  · refine ⟨0, _, by omega, rfl, ?_⟩
    intro x hx
    simp only [List.mem_append, List.mem_cons] at hx
    rcases hx with hx | hx | hx
    · exact Or.inr (hdig 10 (by omega) (by omega) r x hx)
    · exact Or.inl hx
    · rcases mem_insertSepsFrom seps _ _ x hx with h | h
      · exact Or.inl h
      · exact Or.inr (hdig r (by omega) hr36 n x h)

theorem tokSpelling_spellNumber (cc : CharClass) (hcc : cc.Lit) (r n : Nat) (seps : List Nat) (hr2 : 2 ≤ r)
    (hr36 : r ≤ 36) : TokSpelling cc (spellNumber r n seps) .number := by
  obtain ⟨d, rest, hd, e, hrest⟩ := spellNumber_shape r n seps hr2 hr36
  rw [e]
  refine tokSpelling_number cc hcc d hd rest ?_
  intro x hx
  rcases hrest x hx with h | ⟨k, hk, h⟩
  · subst h; simp
  · subst h
    have := hcc.digitA k hk
    cases h1 : cc.isNumeric (digitChar k) <;> simp_all

/-! ## char lists and byte lists -/

theorem tokSpelling_quoteCharList (cc : CharClass) (hcc : cc.Lit) (q : Nat) (body : List Char) (hq1 : 1 ≤ q) (hq2 : q ≠ 2)
    (hbody : '"' ∉ body) (hnon : body ≠ [] ∨ q = 1) : TokSpelling cc (quoteCharList q body) .charList := by
  obtain ⟨k, rfl⟩ : ∃ k, q = k + 1 := ⟨q - 1, by omega⟩
  unfold quoteCharList
  exact tokSpelling_quoted cc '"' .startCharList .charList .charList hcc.toSane (by unfold IsBlank; decide) (by decide)
    (by decide) (starts_quote cc hcc) (by decide) (by decide)
    (fun σ cs p0 p sq eq h => step_of_arm cc σ '"' (arm_startCharList_quote cc _ (h.lexed _)))
    (fun σ x cs p0 p sq eq h hx hl => step_of_arm cc σ x (arm_startCharList_body cc _ x (h.lexed _) hx hl))
    (fun σ x cs p0 p sq eq h hx => step_of_arm cc σ x (arm_charList_body cc _ x (h.lexed _) hx))
    (fun σ cs p0 p sq eq h hne => step_of_arm cc σ '"' (arm_charList_quote cc _ (h.lexed _) hne))
    (fun σ cs p0 p sq eq h he => close_charList cc σ h he (by decide))
    (ending_emptyCharList cc hcc.toSaneBlank .charList) k body hbody (by omega) (by rcases hnon with h | h; exact Or.inl h; exact Or.inr (by omega))

theorem tokSpelling_quoteByteList (cc : CharClass) (hcc : cc.Lit) (q : Nat) (body : List Char) (hq1 : 1 ≤ q) (hq2 : q ≠ 2)
    (hbody : '\'' ∉ body) (hnon : body ≠ [] ∨ q = 1) : TokSpelling cc (quoteByteList q body) .byteList := by
  obtain ⟨k, rfl⟩ : ∃ k, q = k + 1 := ⟨q - 1, by omega⟩
  unfold quoteByteList
  exact tokSpelling_quoted cc '\'' .startByteList .byteList .byteList hcc.toSane (by unfold IsBlank; decide) (by decide)
    (by decide) (starts_apos cc hcc) (by decide) (by decide)
    (fun σ cs p0 p sq eq h => step_of_arm cc σ '\'' (arm_startByteList_quote cc _ (h.lexed _)))
    (fun σ x cs p0 p sq eq h hx hl => step_of_arm cc σ x (arm_startByteList_body cc _ x (h.lexed _) hx hl))
    (fun σ x cs p0 p sq eq h hx => step_of_arm cc σ x (arm_byteList_body cc _ x (h.lexed _) hx))
    (fun σ cs p0 p sq eq h hne => step_of_arm cc σ '\'' (arm_byteList_quote cc _ (h.lexed _) hne))
    (fun σ cs p0 p sq eq h he => close_byteList cc σ h he (by decide))
    (ending_emptyByteList cc hcc.toSaneBlank .byteList) k body hbody (by omega) (by rcases hnon with h | h; exact Or.inl h; exact Or.inr (by omega))

/-- the char-list spelling with every quote written `\u{22}` -/
theorem tokSpelling_escapeCharsU (cc : CharClass) (hcc : cc.Lit) (q : Nat) (cs : List Char) (hq1 : 1 ≤ q) (hq2 : q ≠ 2)
    (hnon : cs ≠ [] ∨ q = 1) : TokSpelling cc (quoteCharList q (escapeCharsU q cs)) .charList := by
  refine tokSpelling_quoteCharList cc hcc q _ hq1 hq2 (escapeCharsU_no_quote q cs) ?_
  rcases hnon with h | h
  · left
    cases cs with
    | nil => exact absurd rfl h
    | cons c r =>
      have hc : escapeCharU q c ≠ [] := by
        unfold escapeCharU escapeUnicode escapeChar
        repeat' split
        all_goals simp
      intro e
      simp only [escapeCharsU, List.flatMap_cons, List.append_eq_nil_iff] at e
      exact hc e.1
  · exact Or.inr h

theorem mem_joinSpaces : ∀ (l : List (List Char)) (x : Char), x ∈ joinSpaces l → x = ' ' ∨ ∃ w ∈ l, x ∈ w
  | [], x, h => by simp [joinSpaces] at h
  | [w], x, h => Or.inr ⟨w, by simp, by simpa [joinSpaces] using h⟩
  | w :: y :: rest, x, h => by
    simp only [joinSpaces, List.mem_append, List.mem_cons] at h
    rcases h with h | h | h
    · exact Or.inr ⟨w, by simp, h⟩
    · exact Or.inl h
    · rcases mem_joinSpaces (y :: rest) x h with h | ⟨w', hw', hx⟩
      · exact Or.inl h
      · exact Or.inr ⟨w', List.mem_cons_of_mem _ hw', hx⟩

theorem joinSpaces_ne_nil : ∀ (l : List (List Char)), l ≠ [] → (∀ w ∈ l, w ≠ []) → joinSpaces l ≠ []
  | [], h, _ => absurd rfl h
  | [w], _, hw => by simpa [joinSpaces] using hw w (by simp)
  | w :: y :: rest, _, hw => by simp [joinSpaces]

theorem apos_not_digit : ∀ d, d < 36 → digitChar d ≠ '\'' := by decide

/-- the numeric byte-list form: decimal numbers separated by single spaces between `q` quotes -/
theorem tokSpelling_spellBytesNumeric (cc : CharClass) (hcc : cc.Lit) (q : Nat) (bs : List Nat) (hq1 : 1 ≤ q) (hq2 : q ≠ 2)
    (hnon : bs ≠ [] ∨ q = 1) : TokSpelling cc (spellBytesNumeric q bs) .byteList := by
  unfold spellBytesNumeric spellBytesNumericWith
  refine tokSpelling_quoteByteList cc hcc q _ hq1 hq2 ?_ ?_
  · intro hm
    rcases mem_joinSpaces _ _ hm with h | ⟨w, hw, hx⟩
    · exact absurd h (by decide)
    · obtain ⟨b, _, rfl⟩ := List.mem_map.mp hw
      obtain ⟨e, he, hc⟩ := spellNat_chars 10 b (by omega) (fun c => ∃ e, e < 36 ∧ c = digitChar e)
        (fun e he => ⟨e, by omega, rfl⟩) _ hx
      exact apos_not_digit e he hc.symm
  · rcases hnon with h | h
    · left
      refine joinSpaces_ne_nil _ (by simpa using h) ?_
      intro w hw
      obtain ⟨b, _, rfl⟩ := List.mem_map.mp hw
      exact spellNat_ne_nil 10 b
    · exact Or.inr h

/-! ## symbols -/

theorem tokSpelling_spellSymbol (cc : CharClass) (hcc : cc.Lit) (name : List Char) (hn : name.head? ≠ some ':')
    (hid : ∀ x ∈ name, isIdentifierChar cc x = true) : TokSpelling cc (spellSymbol name) .symbol :=
  tokSpelling_symbol cc hcc name hn hid

/-! ## the Rust tables -/

theorem rustTables_lit : rustTables.Lit :=
  { rustTables_sane2.toSane with
    spaceA := by decide +kernel
    tabA := by decide +kernel
    spaceN := by decide +kernel
    tabN := by decide +kernel
    digitN := by decide +kernel
    digitA := by decide +kernel
    quoteN := by decide +kernel
    quoteA := by decide +kernel
    aposN := by decide +kernel
    aposA := by decide +kernel
    colonN := by decide +kernel }

end Garnish.Model.Lexer
