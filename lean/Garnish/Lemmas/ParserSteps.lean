/-
What `parse_token` and one `step` of the parser model do, read off a successful run (`.. = .ok ..`), in the situations
of the operator fragment:
  * `parseToken_stop` / `parseToken_root`: the new operator stops below node `x` / passes the whole spine,
  * `parseToken_atom`: a value directly after an operator node,
  * `parseToken_first`: the very first token (no `last_left`),
  * `step_binop_spec`, `step_atom_spec`: the state after a binary-operator / value token in terms of `parseToken`.
-/
import Garnish.Lemmas.ParserInv

namespace Garnish.Model.Parser
open Garnish Garnish.Gen

def setParent (v : Option Nat) (nd : ParseNode) : ParseNode := { nd with parent := v }
def setRight (v : Option Nat) (nd : ParseNode) : ParseNode := { nd with right := v }

theorem modifyNode?_get {a a' : Array ParseNode} {i : Nat} {f : ParseNode → ParseNode}
    (h : modifyNode? a i f = some a') (j : Nat) : a'[j]? = if j = i then (a[j]?).map f else a[j]? := by
  unfold modifyNode? at h
  split at h
  · rename_i hi
    injection h with h; subst h
    by_cases hj : j = i
    · subst hj; simp [hi]
    · have : i ≠ j := fun e => hj e.symm
      simp [hj, Array.getElem?_set, this]
  · cases h

theorem modifyNode?_none {a : Array ParseNode} {i : Nat} {f : ParseNode → ParseNode} (h : a.size ≤ i) :
    modifyNode? a i f = none := by
  unfold modifyNode?
  split
  · omega
  · rfl

/-- the very first token: nothing to walk -/
theorem parseToken_first {id : Nat} {d : Definition} {right : Option Nat} {nodes nodes' : Array ParseNode}
    {ug : Option Nat} {rtl : Bool} {info : Info} (h : parseToken id d none right nodes ug rtl = .ok (nodes', info)) :
    nodes' = nodes ∧ info = ⟨d, none, none, right⟩ := by
  unfold parseToken at h
  split at h
  · cases h
  · unfold walkLoop at h
    simp only [Outcome.bind, beq_self_eq_true, if_true] at h
    injection h with h; injection h with e1 e2
    exact ⟨e1.symm, e2.symm⟩

/-- the new operator passes the whole right spine and becomes the root: only the old root is re-parented -/
theorem parseToken_root {id q rt : Nat} {d : Definition} {left right : Option Nat} {nodes nodes' : Array ParseNode}
    {ug : Option Nat} {rtl : Bool} {info : Info} (hq : priority d = some q)
    (hw : walkLoop nodes q ug rtl (nodes.size + 1) 0 left left = .ok (some rt, none))
    (h : parseToken id d left right nodes ug rtl = .ok (nodes', info)) :
    info = ⟨d, none, some rt, right⟩ ∧ ∀ j, nodes'[j]? = if j = rt then (nodes[j]?).map (setParent (some id)) else nodes[j]? := by
  unfold parseToken at h
  simp only [hq] at h
  obtain ⟨⟨tl, par⟩, hw', h⟩ := bind_ok h
  rw [hw] at hw'
  injection hw' with hw'; injection hw' with e1 e2; subst e1; subst e2
  have hne : ((none : Option Nat) == some rt) = false := rfl
  simp only [hne, Bool.false_eq_true, if_false] at h
  obtain ⟨nodes1, h1, h⟩ := bind_ok h
  split at h1
  · cases h1
  · rename_i nodes1' hm
    injection h1 with h1; subst h1
    injection h with h; injection h with e1 e2
    subst e1
    exact ⟨e2.symm, fun j => modifyNode?_get hm j⟩

/-- the new operator stops below `x`, whose right subtree (root `tlv`) becomes its left operand -/
theorem parseToken_stop {id q tlv x : Nat} {d : Definition} {left right : Option Nat} {nodes nodes' : Array ParseNode}
    {ug : Option Nat} {rtl : Bool} {info : Info} {nx : ParseNode} (hq : priority d = some q)
    (hw : walkLoop nodes q ug rtl (nodes.size + 1) 0 left left = .ok (some tlv, some x)) (hne : tlv ≠ x)
    (hx : nodes[x]? = some nx) (hxr : nx.right = some tlv)
    (h : parseToken id d left right nodes ug rtl = .ok (nodes', info)) :
    info = ⟨d, some x, some tlv, right⟩ ∧
      ∀ j, nodes'[j]? = if j = tlv then (nodes[j]?).map (setParent (some id))
                        else if j = x then (nodes[j]?).map (setRight (some id)) else nodes[j]? := by
  unfold parseToken at h
  simp only [hq] at h
  obtain ⟨⟨tl, par⟩, hw', h⟩ := bind_ok h
  rw [hw] at hw'
  injection hw' with hw'; injection hw' with e1 e2; subst e1; subst e2
  have hne' : ((some x : Option Nat) == some tlv) = false := by
    rw [beq_eq_false_iff_ne]; intro e; injection e with e; exact hne e.symm
  simp only [hne', Bool.false_eq_true, if_false] at h
  obtain ⟨nodes1, h1, h⟩ := bind_ok h
  split at h1
  · cases h1
  · rename_i nodesA hm1
    injection h1 with h1; subst h1
    have g1 := modifyNode?_get hm1
    have hx1 : nodesA[x]? = some nx := by rw [g1 x, if_neg (fun e => hne e.symm)]; exact hx
    simp only [hx1] at h
    split at h
    · cases h
    · rename_i nodes2 hm2
      have g2 := modifyNode?_get hm2
      simp only [hxr] at h
      have fin : ∀ j, nodes2[j]? = if j = tlv then (nodes[j]?).map (setParent (some id))
          else if j = x then (nodes[j]?).map (setRight (some id)) else nodes[j]? := by
        intro j
        rw [g2 j, g1 j]
        by_cases h1 : j = tlv
        · subst h1; simp [hne]; rfl
        · by_cases h2 : j = x
          · subst h2; simp [h1]; rfl
          · simp [h1, h2]
      split at h
      · injection h with h; injection h with e1 e2
        subst e1
        exact ⟨e2.symm, fin⟩
      · rename_i nodes3 hm3
        have g3 := modifyNode?_get hm3
        injection h with h; injection h with e1 e2
        subst e1
        refine ⟨e2.symm, ?_⟩
        intro j
        rw [g3 j]
        by_cases h1 : j = tlv
        · subst h1
          rw [fin j]
          simp only [if_true, Option.map_map]
          congr 1
        · simp only [h1, if_false]; rw [fin j]; simp [h1]

/-- a value directly after the operator node `m` (whose `right` already points to the value's id) -/
theorem parseToken_atom {m qo : Nat} {d : Definition} {right : Option Nat} {nodes nodes' : Array ParseNode}
    {rtl : Bool} {info : Info} {on : ParseNode} (hq : priority d = some 10) (hm : nodes[m]? = some on)
    (hqo : priority on.definition = some qo) (hlt : 10 < qo) (hor : on.right = some nodes.size)
    (h : parseToken nodes.size d (some m) right nodes none rtl = .ok (nodes', info)) :
    info = ⟨d, some m, none, right⟩ ∧ ∀ j : Nat, nodes'[j]? = nodes[j]? := by
  unfold parseToken at h
  have hw : walkLoop nodes 10 none rtl (nodes.size + 1) 0 (some m) (some m) = .ok (some m, some m) := by
    unfold walkLoop
    simp [hm, hqo, hlt]
  simp only [hq] at h
  obtain ⟨⟨tl, par⟩, hw', h⟩ := bind_ok h
  rw [hw] at hw'
  injection hw' with hw'; injection hw' with e1 e2; subst e1; subst e2
  simp only [beq_self_eq_true, if_true, Outcome.bind, hm] at h
  split at h
  · cases h
  · rename_i nodes2 hm2
    have g2 := modifyNode?_get hm2
    simp only [hor] at h
    have hsz := modifyNode?_size hm2
    rw [modifyNode?_none (by omega)] at h
    injection h with h; injection h with e1 e2
    subst e1
    refine ⟨e2.symm, ?_⟩
    intro j
    rw [g2 j]
    by_cases hj : j = m
    · subst hj
      simp only [if_true, hm, Option.map_some]
      congr 1
      cases on
      simp_all
    · simp [hj]

/-- the definition `pushNode` stores: an Identifier whose parent is an Access node becomes a Property -/
def renameDef (d : Definition) (parent : Option Nat) (nodes : Array ParseNode) : Definition :=
  match d with
  | .identifier =>
    match parent.bind (fun p => nodes[p]?) with
    | none => d
    | some p => if p.definition == .access then .property else d
  | d => d

/-- the fields of the state after a successful step on a binary-operator token -/
theorem step_binop_spec (st st1 : PState) (o : PToken) (ho : isBinopTok o = true) (hnl : st.nextLastLeft = none)
    (hcg : st.currentGroup = none) (hadj : adjustLastLeft st none = .ok st) (h : step st o false = .ok st1) :
    ∃ nodes' info,
      parseToken st.nodes.size (getDefinition o.type).1 st.lastLeft (some (st.nodes.size + 1)) st.nodes none
        ((getDefinition o.type).2 == .binaryRightToLeft) = .ok (nodes', info) ∧
      st1.nodes = nodes'.push ⟨(getDefinition o.type).1, (getDefinition o.type).2, info.parent, info.left, info.right, o⟩ ∧
      st1.lastLeft = some st.nodes.size ∧ st1.checkForList = false ∧ st1.nextLastLeft = none ∧
      st1.groupStack = st.groupStack ∧ st1.currentGroup = none ∧ st1.previousSecondDef = (getDefinition o.type).2 := by
  unfold step at h
  have hu : underGroupOf st = .ok none := by simp [underGroupOf, hcg]
  simp only [hu, hadj, Outcome.bind] at h
  unfold isBinopTok at ho
  obtain ⟨f1, f2, _, _⟩ := binop_def_facts o.type ho
  generalize getDefinition o.type = ds at h ho f1 f2 ⊢
  obtain ⟨d, so⟩ := ds
  simp only at h ho f1 f2 ⊢
  split at h
  · cases h
  · have hso : so = .binaryLeftToRight ∨ so = .binaryRightToLeft := by
      simpa [Bool.or_eq_true, beq_iff_eq] using ho
    have hdisp : ∀ (stx : PState) (ar : Option Nat),
        dispatch stx st.nodes.size o d so ar none =
          parseTokenSt { stx with nextParent := some st.nodes.size } st.nodes.size d stx.lastLeft ar none
            (so == .binaryRightToLeft) := by
      intro stx ar
      rcases hso with hso | hso <;> subst hso <;> rfl
    rw [hdisp] at h
    simp only [parseTokenSt] at h
    obtain ⟨⟨stp, info⟩, hd, h⟩ := bind_ok h
    obtain ⟨⟨nodes', info'⟩, hpt, hd⟩ := bind_ok hd
    injection hd with hd; injection hd with e1 e2; subst e1; subst e2
    obtain ⟨hsz, hdef⟩ := parseToken_size_def hpt
    simp only [pushNode, hdef, f1, if_true, hnl] at h
    injection h with h; subst h
    refine ⟨nodes', info', by simpa using hpt, ?_, ?_, rfl, rfl, rfl, hcg, rfl⟩
    · have hmatch : (match d with
          | Definition.identifier =>
            match info'.parent.bind fun p => nodes'[p]? with
            | none => d
            | some p => if (p.definition == Definition.access) = true then Definition.property else d
          | d => d) = d := by
        cases d <;> first | rfl | exact absurd rfl f2
      simp [hmatch]
    · dsimp only
      rw [if_neg]
      simp [Array.size_push]

/-- the fields of the state after a successful step on a value / identifier token (list flag clear) -/
theorem step_atom_spec (st st1 : PState) (a : PToken) (il : Bool)
    (hs : (getDefinition a.type).2 = .value ∨ (getDefinition a.type).2 = .identifier)
    (hd : ((getDefinition a.type).1 != Definition.drop) = true)
    (hc : st.checkForList = false) (hnl : st.nextLastLeft = none)
    (hcg : st.currentGroup = none) (hadj : adjustLastLeft st none = .ok st) (h : step st a il = .ok st1) :
    ∃ nodes' info,
      parseToken st.nodes.size (getDefinition a.type).1 st.lastLeft none st.nodes none false = .ok (nodes', info) ∧
      st1.nodes = nodes'.push ⟨renameDef (getDefinition a.type).1 info.parent nodes', (getDefinition a.type).2,
        info.parent, info.left, info.right, a⟩ ∧
      st1.lastLeft = some st.nodes.size ∧ st1.checkForList = false ∧ st1.nextLastLeft = none ∧
      st1.groupStack = st.groupStack ∧ st1.currentGroup = none ∧ st1.previousSecondDef = (getDefinition a.type).2 := by
  unfold step at h
  have hu : underGroupOf st = .ok none := by simp [underGroupOf, hcg]
  simp only [hu, hadj, Outcome.bind] at h
  generalize getDefinition a.type = ds at h hs hd ⊢
  obtain ⟨d, sa⟩ := ds
  simp only at h hs hd ⊢
  split at h
  · cases h
  · have hdisp : ∀ (stx : PState) (ar : Option Nat), stx.checkForList = false →
        dispatch stx st.nodes.size a d sa ar none = parseTokenSt stx st.nodes.size d stx.lastLeft none none false := by
      intro stx ar hcx
      rcases hs with hs | hs <;> subst hs <;>
        simp [dispatch, parseValueLike, hcx, parseTokenLeftToRight]
    have hc' : ({ st with previousSecondDef := sa } : PState).checkForList = false := hc
    rw [hdisp _ _ hc'] at h
    simp only [parseTokenSt] at h
    obtain ⟨⟨stp, info⟩, hd', h⟩ := bind_ok h
    obtain ⟨⟨nodes', info'⟩, hpt, hd'⟩ := bind_ok hd'
    injection hd' with hd'; injection hd' with e1 e2; subst e1; subst e2
    obtain ⟨hsz, hdef⟩ := parseToken_size_def hpt
    simp only [pushNode, hdef, hd, if_true, hnl] at h
    injection h with h; subst h
    refine ⟨nodes', info', by simpa using hpt, ?_, ?_, rfl, rfl, rfl, hcg, rfl⟩
    · rfl
    · dsimp only
      rw [if_neg]
      simp [Array.size_push]

end Garnish.Model.Parser
