/-
Brackets, part 13: side-effect blocks `[ body ]`.  The opening token goes through `parse_token` with priority 5 and
makes the SideEffect node `next_parent` / the current group (`step_sideOpen`); the body is an expression of the frame
below that node (`side_body`); programs `[ body ]` and `v [ body ]` (`parse_block`, `parse_value_block`): the subtree
under the SideEffect node is the tree of the body.
-/
import Garnish.Lemmas.ParserB12

namespace Garnish.Spec
open Garnish Garnish.Gen Garnish.Model.Parser

theorem parseToken_empty {ug : Option Nat} {d : Definition} {q : Nat} {right : Option Nat} {rtl : Bool}
    (hq : priority d = some q) :
    parseToken 0 d none right #[] ug rtl = .ok (#[], ⟨d, none, none, right⟩) := by
  unfold parseToken
  rw [hq]
  unfold walkLoop
  simp [Outcome.bind]

/-- the state after `[` -/
def stepSE (st : PState) (o : PToken) (nodes' : Array ParseNode) (info : Info) : PState :=
  { st with nodes := nodes'.push ⟨.sideEffect, .startSideEffect, info.parent, info.left, info.right, o⟩,
            nextParent := some st.nodes.size, lastLeft := some st.nodes.size, checkForList := false,
            currentGroup := some st.groupStack.size,
            groupStack := st.groupStack.push (st.nodes.size, st.checkForList),
            previousSecondDef := .startSideEffect, lastToken := o }

/-- **the opening token of a side-effect block** (not the last token) -/
theorem step_sideOpen (st : PState) (ug : Option Nat) (o : PToken) (ho : o.type = .startSideEffect)
    (hug : underGroupOf st = .ok ug) (hadj : adjustLastLeft st ug = .ok st) (hnnl : st.nextLastLeft = none)
    (hcomp : checkComposition st.previousSecondDef .startSideEffect st.checkForList = true)
    {nodes' : Array ParseNode} {info : Info}
    (hpt : parseToken st.nodes.size .sideEffect st.lastLeft (some (st.nodes.size + 1)) st.nodes ug false =
      .ok (nodes', info)) :
    step st o false = .ok (stepSE st o nodes' info) := by
  obtain ⟨hsz, hdef⟩ := parseToken_size_def hpt
  unfold step stepSE
  simp only [hug, hadj, Outcome.bind]
  rw [ho]
  simp only [getDefinition, hcomp, Bool.not_true, Bool.false_eq_true, if_false, dispatch, armStartSideEffect,
    parseTokenLeftToRight, parseTokenSt, hpt, Outcome.bind, pushNode, hdef, hnnl]
  simp [Array.size_push]

theorem openB_stepSE (st : PState) (o : PToken) (nodes' : Array ParseNode) (info : Info)
    (hsz : nodes'.size = st.nodes.size) (hir : info.right = some (st.nodes.size + 1)) (hnnl : st.nextLastLeft = none)
    (hprios : AllPrio nodes') :
    OpenB (stepSE st o nodes' info) (some st.nodes.size) ∧
      FrameStart (stepSE st o nodes' info) (some st.nodes.size) (some st.nodes.size) (st.nodes.size + 1) ∧
      AllPrio (stepSE st o nodes' info).nodes ∧ CGOK (stepSE st o nodes' info) := by
  have hn : (stepSE st o nodes' info).nodes[st.nodes.size]? =
      some ⟨.sideEffect, .startSideEffect, info.parent, info.left, info.right, o⟩ := by
    simp only [stepSE]; rw [Array.getElem?_push, if_pos hsz.symm]
  have hs : (stepSE st o nodes' info).nodes.size = st.nodes.size + 1 := by simp [stepSE, hsz]
  refine ⟨⟨rfl, hnnl, ?_, rfl, ?_, Or.inr ?_, Or.inr (Or.inr (Or.inr (Or.inr (Or.inr (Or.inl rfl)))))⟩, ?_, ?_, ?_⟩
  · simp [underGroupOf, stepSE]
  · exact adjust_noop _ _ (Or.inr ⟨_, _, rfl, hn, Or.inr rfl⟩)
  · refine ⟨⟨.sideEffect, .startSideEffect, info.parent, info.left, info.right, o⟩, 5, by omega, ?_, ?_, rfl, ?_, rfl,
      Or.inr ⟨rfl, ?_⟩⟩
    · rw [hs]; rfl
    · rw [hs, Nat.add_sub_cancel]; exact hn
    · rw [hs]; exact hir
    · rw [hs]; rfl
  · exact .bracket _ ⟨.sideEffect, .startSideEffect, info.parent, info.left, info.right, o⟩ 5 hs rfl hn rfl rfl hir
  · intro i nd hi
    simp only [stepSE, Array.getElem?_push] at hi
    split at hi
    · injection hi with hi; subst hi; exact ⟨5, rfl⟩
    · exact hprios i nd hi
  · unfold CGOK
    simp [stepSE]

/-- **the body of a side-effect block**, from the state after `[` to the state after `]` -/
theorem side_body (stp : PState) (o c : PToken) (nodes' : Array ParseNode) (info : Info) (body : Ex)
    (wsA wsB : List PToken) (hsz : nodes'.size = stp.nodes.size) (hir : info.right = some (stp.nodes.size + 1))
    (hnnl : stp.nextLastLeft = none) (hprios : AllPrio nodes') (hc : c.type = .endSideEffect)
    {F : Fl} (hbody : body.ok F false = true) (hwA : ∀ w ∈ wsA, isTriviaTok w = true) (hwB : ∀ w ∈ wsB, isTriviaTok w = true)
    (pos : Nat) (hnum : NumberedFrom pos body.toks) (rest : List PToken) :
    ∃ (st2 : PState) (E : Tree) (re : Nat) (S : ParseNode),
      loop (stepSE stp o nodes' info) (wsA ++ (body.toks ++ (wsB ++ [c])) ++ rest) = loop st2 rest ∧
      (∀ j, j < stp.nodes.size → st2.nodes[j]? = nodes'[j]?) ∧
      st2.nodes[stp.nodes.size]? = some S ∧ S.definition = .sideEffect ∧ S.parent = info.parent ∧ S.left = info.left ∧
      S.right = some re ∧ S.lexToken = o ∧
      IsTreeAt st2.nodes (some stp.nodes.size) (some re) E ∧
      SortedIn (stp.nodes.size + 1) st2.nodes.size E.inorder ∧
      stp.nodes.size + 1 < st2.nodes.size ∧ AllPrio st2.nodes ∧
      st2.groupStack = stp.groupStack ∧ st2.previousSecondDef = .endSideEffect ∧
      st2.checkForList = stp.checkForList ∧ st2.lastLeft = some stp.nodes.size ∧ st2.nextLastLeft = none ∧
      st2.currentGroup = (if stp.groupStack.isEmpty then none else some (stp.groupStack.size - 1)) ∧
      refLoop Table.gen Frame.top [] pos body.toks = .ok (toRG (dfOf st2.nodes) E) := by
  obtain ⟨hOO, hfs, hpriosO, hcgO⟩ := openB_stepSE stp o nodes' info hsz hir hnnl hprios
  have hgO : (stepSE stp o nodes' info).nodes[stp.nodes.size]? =
      some ⟨.sideEffect, .startSideEffect, info.parent, info.left, info.right, o⟩ := by
    simp only [stepSE]; rw [Array.getElem?_push, if_pos hsz.symm]
  obtain ⟨sO', hloopA, hOO', hnO', hnpO', hllO', hgsO', hcgO', hprevO'⟩ :=
    trivia_runB_prev wsA (stepSE stp o nodes' info) (some stp.nodes.size) (body.toks ++ (wsB ++ [c]) ++ rest) hOO
      (by simp [stepSE]) hwA
  have hspO : StartPrev sO' := by
    rcases hprevO' with h | h | h
    · exact Or.inr (Or.inr (Or.inl (by rw [h]; rfl)))
    · exact Or.inr (Or.inr (Or.inr (Or.inl h)))
    · exact Or.inr (Or.inr (Or.inr (Or.inr (Or.inl h))))
  have hfs' : FrameStart sO' (some stp.nodes.size) (some stp.nodes.size) (stp.nodes.size + 1) := by
    cases hfs with
    | bracket g G pg h1 h2 h3 h4 h5 h6 =>
      exact .bracket _ G pg (by rw [hnO']; exact h1) (by rw [hnpO']; exact h2) (by rw [hnO']; exact h3) h4 h5 h6
  obtain ⟨stE, E, re, cbE, hloopE, hinvE, hgsE, hcgE, ho1E, ho2E, hrdE, hcntE, hrefE⟩ :=
    (ex_ok body false hbody).1 sO' _ _ _ hOO' hfs' (by rw [hnO']; exact hpriosO)
      (by unfold CGOK at hcgO ⊢; rw [hcgO', hgsO']; exact hcgO)
      ⟨_, by rw [hnO']; exact hgO, rfl⟩ hspO pos hnum ((wsB ++ [c]) ++ rest)
  obtain ⟨stE', hloopB, hinvE', hnE', hgsE', hcgE'⟩ := trivia_runU wsB stE ([c] ++ rest) hinvE hwB
  have hgE : ∃ G', stE.nodes[stp.nodes.size]? = some G' ∧ G'.right = some re ∧
      G'.definition = .sideEffect ∧ G'.parent = info.parent ∧ G'.left = info.left ∧ G'.lexToken = o := by
    cases hfr : hinvE.n.frame with
    | bracket g re' G' pg hG' _ _ hGr =>
      refine ⟨G', hG', hGr, ?_⟩
      have := ho2E stp.nodes.size (by omega)
      rw [hG', hnO', hgO] at this
      simp only [Option.map_some, Option.some.injEq] at this
      obtain ⟨e1, e2, e3, e4, _⟩ := setRight_none_eq this
      exact ⟨e1, e2, e3, e4⟩
  obtain ⟨G', hG', hGr', hGd', hGp', hGl', hGt'⟩ := hgE
  have hback : stE'.groupStack.back? = some (stp.nodes.size, stp.checkForList) := by
    rw [hgsE', hgsE, hgsO']
    simp [stepSE]
  have hclose := step_closeU hinvE' G' (by rw [hnE']; exact hG') stp.checkForList hback c
    (by rw [hGd']; exact Or.inr (Or.inr ⟨rfl, hc⟩)) rest.isEmpty
  have hsd : (getDefinition c.type).2 = .endSideEffect := by rw [hc]; rfl
  have hS2 : (stepC stE' stp.nodes.size stp.checkForList c).nodes[stp.nodes.size]? = some G' := by
    show stE'.nodes[_]? = _
    rw [hnE']; exact hG'
  refine ⟨stepC stE' stp.nodes.size stp.checkForList c, E, re, G', ?_, ?_, hS2, hGd', hGp', hGl', hGr', hGt', ?_, ?_, ?_,
    ?_, ?_, hsd, rfl, rfl, hinvE'.nnl, ?_, ?_⟩
  · have e2 : wsA ++ (body.toks ++ (wsB ++ [c])) ++ rest = wsA ++ (body.toks ++ (wsB ++ [c]) ++ rest) := by simp
    have e3 : body.toks ++ (wsB ++ [c]) ++ rest = body.toks ++ ((wsB ++ [c]) ++ rest) := by simp
    have e4 : (wsB ++ [c]) ++ rest = wsB ++ ([c] ++ rest) := by simp
    rw [e2, hloopA, e3, hloopE, e4, hloopB]
    simp only [List.cons_append, List.nil_append, loop, hclose, Outcome.bind]
  · intro j hj
    show stE'.nodes[j]? = _
    rw [hnE', ho1E j (by omega), hnO']
    simp only [stepSE, Array.getElem?_push]
    rw [if_neg (by omega)]
  · show IsTreeAt stE'.nodes _ _ _
    rw [hnE']; exact hinvE.n.tree
  · show SortedIn _ stE'.nodes.size E.inorder
    rw [hnE']; exact hinvE.n.inord
  · show _ < stE'.nodes.size
    rw [hnE']; exact hinvE.n.pos
  · show AllPrio stE'.nodes
    rw [hnE']; exact hinvE.n.prios
  · show stE'.groupStack.pop = stp.groupStack
    rw [hgsE', hgsE, hgsO']
    simp [stepSE]
  · show (if stE'.groupStack.pop.isEmpty then none else some (stE'.groupStack.pop.size - 1)) = _
    have : stE'.groupStack.pop = stp.groupStack := by
      rw [hgsE', hgsE, hgsO']
      simp [stepSE]
    rw [this]
  · show _ = Outcome.ok (toRG (dfOf stE'.nodes) E)
    rw [hnE']
    have := hrefE Frame.top [] [] rfl rfl rfl
    simp only [List.append_nil] at this
    rw [this]
    unfold refLoop
    cases body.endsSuffix <;> simp

/-- the end of the parse, general form -/
theorem finish_gen {st : PState} {T : Tree} {rt : Nat}
    (hcomp : checkComposition st.previousSecondDef .none st.checkForList = true) (hgs : st.groupStack = #[])
    (htree : IsTreeAt st.nodes none (some rt) T) (hnd : T.inorder.Nodup) (h0 : 0 ∈ T.inorder) (hpos : 0 < st.nodes.size) :
    ∃ r, finish st = .ok r ∧ toTree r = some T ∧ r.nodes = st.nodes := by
  have hsome : ∃ nd0, st.nodes[0]? = some nd0 := by
    cases hnd0 : st.nodes[0]? with
    | none => rw [Array.getElem?_eq_none_iff] at hnd0; omega
    | some nd => exact ⟨nd, rfl⟩
  obtain ⟨nd0, hnd0⟩ := hsome
  have hne : st.nodes.isEmpty = false := by
    cases hsz : st.nodes.isEmpty with
    | false => rfl
    | true =>
      have h2 : st.nodes = #[] := by simpa using hsz
      rw [h2] at hpos; simp at hpos
  refine ⟨{ root := rt, nodes := st.nodes }, ?_, ?_, rfl⟩
  · unfold finish
    rw [hcomp, hgs]
    simp only [Bool.not_true, Bool.false_eq_true, if_false, hne,
      show (#[] : Array (Nat × Bool)).isEmpty = true from rfl, hnd0, rootLoop_ok htree hnd 0 nd0 h0 hnd0,
      Outcome.bind]
  · rw [toTree_some_iff]
    refine ⟨?_, hnd⟩
    simp only [rootLink, hne, Bool.false_eq_true, if_false]
    exact htree

theorem getLast_of_eq_append {l init : List PToken} {t : PToken} (hne : l ≠ []) (h : l = init ++ [t]) :
    l.getLast hne = t := by subst h; simp

theorem comp_endSE (c : Bool) : checkComposition .endSideEffect .none c = true := by cases c <;> rfl

theorem nodup_cons_sorted (a b c : Nat) (l : List Nat) (h : a < b) (hl : SortedIn b c l) : (a :: l).Nodup := by
  rw [List.nodup_cons]
  refine ⟨?_, hl.nodup⟩
  intro hm
  have := (hl.2 a hm).1
  omega

/-- **`[ body ]`**: the model of `parse` accepts; the result is the SideEffect node with the tree of the body below it -/
theorem parse_block (o c : PToken) (wsA wsB : List PToken) (body : Ex) (ho : o.type = .startSideEffect)
    (hc : c.type = .endSideEffect) {F : Fl} (hbody : body.ok F false = true) (hwA : ∀ w ∈ wsA, isTriviaTok w = true)
    (hwB : ∀ w ∈ wsB, isTriviaTok w = true)
    (hnum : NumberedFrom 0 (o :: (wsA ++ (body.toks ++ (wsB ++ [c]))))) :
    ∃ r t, parse (o :: (wsA ++ (body.toks ++ (wsB ++ [c])))) = .ok r ∧ toTree r = some (.node .nil 0 o.col t) ∧
      dfOf r.nodes 0 = .sideEffect ∧
      refLoop Table.gen Frame.top [] (1 + wsA.length) body.toks = .ok (toRG (dfOf r.nodes) t) := by
  have hne : o :: (wsA ++ (body.toks ++ (wsB ++ [c]))) ≠ [] := by simp
  have hhead : isTrimmable ((o :: (wsA ++ (body.toks ++ (wsB ++ [c])))).head hne) = false := by
    simp only [List.head_cons, isTrimmable, ho]; rfl
  have hlast : isTrimmable ((o :: (wsA ++ (body.toks ++ (wsB ++ [c])))).getLast hne) = false := by
    have e : o :: (wsA ++ (body.toks ++ (wsB ++ [c]))) = (o :: (wsA ++ (body.toks ++ wsB))) ++ [c] := by simp
    rw [getLast_of_eq_append hne e]; simp only [isTrimmable, hc]; rfl
  obtain ⟨htrim, _, _⟩ := trim_id _ hne hhead hlast
  have hnumB : NumberedFrom (1 + wsA.length) body.toks := by
    have h1 : NumberedFrom (0 + 1) (wsA ++ (body.toks ++ (wsB ++ [c]))) := hnum.2
    have h2 := numbered_append wsA _ _ h1
    have h3 := numbered_prefix body.toks _ _ h2
    rw [Nat.zero_add] at h3; exact h3
  have hpt : parseToken PState.init.nodes.size .sideEffect PState.init.lastLeft (some (PState.init.nodes.size + 1))
      PState.init.nodes none false = .ok (#[], ⟨.sideEffect, none, none, some 1⟩) :=
    parseToken_empty (q := 5) rfl
  have hstep := step_sideOpen PState.init none o ho rfl rfl rfl rfl hpt
  obtain ⟨st2, E, re, S, hloop, _, hS, hSd, hSp, hSl, hSr, hSt, htreeE, hinE, hszE, _, hgs2, hprev2, _, _, _, _, href⟩ :=
    side_body PState.init o c #[] ⟨.sideEffect, none, none, some 1⟩ body wsA wsB rfl rfl rfl
      (by intro i nd h; simp at h) hc hbody hwA hwB _ hnumB []
  have hsz0 : PState.init.nodes.size = 0 := rfl
  rw [hsz0] at hS htreeE hinE hszE
  simp only [Nat.zero_add] at hinE hszE
  have htree : IsTreeAt st2.nodes none (some 0) (.node .nil 0 o.col E) := by
    refine isTreeAt_node S hS hSp (by rw [hSl]; exact .nil _) (by rw [hSr]; exact htreeE) (by simp [tokPos, hSt])
  have hnd : (Tree.node .nil 0 o.col E).inorder.Nodup := by
    simp only [Tree.inorder, List.nil_append]
    exact nodup_cons_sorted 0 1 _ _ (by omega) hinE
  obtain ⟨r, hr, ht, hn⟩ := finish_gen (st := st2) (by rw [hprev2]; exact comp_endSE _) hgs2 htree hnd
    (by simp [Tree.inorder]) (by omega)
  refine ⟨r, E, ?_, ht, by rw [hn]; simp [dfOf, hS, hSd], by rw [hn]; exact href⟩
  unfold parse
  rw [htrim]
  simp only [Outcome.bind, List.isEmpty_cons, Bool.false_eq_true, if_false, loop]
  have he : (wsA ++ (body.toks ++ (wsB ++ [c]))).isEmpty = false := by
    cases wsA <;> simp [body.toks_ne]
  rw [he, hstep]
  simp only [Outcome.bind]
  have := hloop
  simp only [List.append_nil, loop] at this
  rw [this]
  exact hr

end Garnish.Spec
