/-
C04, builder half — part 4: value arms, lists, `handle_parse_node`, the loops, `build`.
-/
import Garnish.Lemmas.BuildAttr3
namespace Garnish.Lemmas.BuildAttr
open Garnish Garnish.Gen Garnish.Model.Parser Garnish.Model.Literals Garnish.Model.Build Garnish.Lemmas.Build
open Garnish.Lemmas.BuildTotal (assign assign_get assign_size getElem?_putNode size_putNode)

variable {F : Type}

section handlers
variable {tree : Array ParseNode} {m0 ni : Nat} {ctx : Ctx F} {pn : ParseNode}

/-- an `add_fn` closure leaves the metadata alone (it only adds constants) -/
def AddMeta (addFn : AddFn F) (pn : ParseNode) : Prop :=
  ∀ d, Sat (fun r => r.1.metadata = d.metadata) (addFn d pn)

theorem handleValueLike_attr (h : AInv tree m0 (some ni) ctx) {addFn : AddFn F} (hadd : AddMeta addFn pn) (ins : Instruction) :
    Sat (AInv tree m0 none) (handleValueLike addFn ins ctx ni pn) := by
  unfold handleValueLike
  refine sat_bind (getNode_sat_eq ctx.nodes ni) (fun node hnode => ?_)
  have hpni := h.pni ni node hnode
  cases hst : node.state with
  | uninitialized =>
    dsimp only
    cases hr : pn.right with
    | none =>
      cases hl : pn.left with
      | none =>
        simp only [bind_ok, hpni]
        exact attr_step h [(ni, _)] [] rfl (by mem_tac) (by mem_tac) (by simp) (by asgp_tac) (by asgc_tac h, hnode)
          (by asgd_tac) (fun _ _ => Or.inl (by simp))
      | some l =>
        simp only [bind_ok]
        refine sat_bind (setNodeIdx_sat_eq _ _ _ _) (fun N1 h1 => ?_)
        subst h1
        simp only [hpni]
        exact attr_step h [(ni, _), (l, _)] [] rfl (by mem_tac) (by mem_tac) (by simp) (by asgp_tac) (by asgc_tac h, hnode)
          (by asgd_tac) (fun _ _ => Or.inl (by simp))
    | some r =>
      cases hl : pn.left with
      | none =>
        simp only [bind_assoc, bind_ok]
        refine sat_bind (setNodeIdx_sat_eq _ _ _ _) (fun N1 h1 => ?_)
        subst h1
        simp only [hpni]
        exact attr_step h [(ni, _), (r, _)] [] rfl (by mem_tac) (by mem_tac) (by simp) (by asgp_tac) (by asgc_tac h, hnode)
          (by asgd_tac) (fun _ _ => Or.inl (by simp))
      | some l =>
        simp only [bind_assoc, bind_ok]
        refine sat_bind (setNodeIdx_sat_eq _ _ _ _) (fun N1 h1 => ?_)
        subst h1
        refine sat_bind (setNodeIdx_sat_eq _ _ _ _) (fun N2 h2 => ?_)
        subst h2
        simp only [hpni]
        exact attr_step h [(ni, _), (r, _), (l, _)] [] rfl (by mem_tac) (by mem_tac) (by simp) (by asgp_tac)
          (by asgc_tac h, hnode) (by asgd_tac) (fun _ _ => Or.inl (by simp))
  | initialized =>
    dsimp only
    refine sat_bind (hadd ctx.data) (fun res hres => ?_)
    obtain ⟨data, o⟩ := res
    dsimp only at hres ⊢
    exact attr_emit h [some ni] rfl rfl rfl (by simp [pushInstr, hres]) (by simp)

theorem handleValuePrimitive_attr (h : AInv tree m0 (some ni) ctx)
    {addFn : BState F → ParseNode → Outcome (BState F × Nat)} (hadd : ∀ d, Sat (fun r => r.1.metadata = d.metadata) (addFn d pn)) :
    Sat (AInv tree m0 none) (handleValuePrimitive addFn ctx ni pn) := by
  unfold handleValuePrimitive
  refine handleValueLike_attr h (fun d => ?_) _
  refine sat_bind (hadd d) (fun r hr => ?_)
  exact hr

theorem handleList_attr (h : AInv tree m0 (some ni) ctx) (hpn : tree[ni]? = some pn) (hne : emits pn.definition = false) :
    Sat (AInv tree m0 none) (handleList ctx ni pn) := by
  unfold handleList
  refine sat_bind (getNode_sat_eq ctx.nodes ni) (fun node hnode => ?_)
  have hpni := h.pni ni node hnode
  cases hst : node.state with
  | uninitialized =>
    dsimp only
    cases hlp : node.listParent with
    | none =>
      dsimp only
      cases hr : pn.right with
      | none =>
        cases hl : pn.left with
        | none =>
          simp only [bind_ok, hpni]
          exact attr_step h [(ni, _)] [] rfl (by mem_tac) (by mem_tac) (by simp) (by asgp_tac) (by asgc_tac h, hnode)
            (by asgd_tac) (fun _ _ => Or.inl (by simp))
        | some l =>
          simp only [bind_ok]
          refine sat_bind (setNodeIdx_sat_eq _ _ _ _) (fun N1 h1 => ?_)
          subst h1
          simp only [hpni]
          exact attr_step h [(ni, _), (l, _)] [] rfl (by mem_tac) (by mem_tac) (by simp) (by asgp_tac) (by asgc_tac h, hnode)
            (by asgd_tac) (fun _ _ => Or.inl (by simp))
      | some r =>
        cases hl : pn.left with
        | none =>
          simp only [bind_assoc, bind_ok]
          refine sat_bind (setNodeIdx_sat_eq _ _ _ _) (fun N1 h1 => ?_)
          subst h1
          simp only [hpni]
          exact attr_step h [(ni, _), (r, _)] [] rfl (by mem_tac) (by mem_tac) (by simp) (by asgp_tac) (by asgc_tac h, hnode)
            (by asgd_tac) (fun _ _ => Or.inl (by simp))
        | some l =>
          simp only [bind_assoc, bind_ok]
          refine sat_bind (setNodeIdx_sat_eq _ _ _ _) (fun N1 h1 => ?_)
          subst h1
          refine sat_bind (setNodeIdx_sat_eq _ _ _ _) (fun N2 h2 => ?_)
          subst h2
          simp only [hpni]
          exact attr_step h [(ni, _), (r, _), (l, _)] [] rfl (by mem_tac) (by mem_tac) (by simp) (by asgp_tac)
            (by asgc_tac h, hnode) (by asgd_tac) (fun _ _ => Or.inl (by simp))
    | some pd =>
      obtain ⟨par, d⟩ := pd
      dsimp only
      rcases Classical.em ((d == pn.definition) = true) with hb | hb
      · rw [if_pos hb]
        dsimp only
        cases hr : pn.right with
        | none =>
          cases hl : pn.left with
          | none =>
            simp only [bind_ok, hpni]
            exact attr_step h [(ni, _)] [] rfl (by mem_tac) (by mem_tac) (by simp) (by asgp_tac) (by asgc_tac h, hnode)
              (by asgd_tac) (fun _ _ => Or.inl (by simp))
          | some l =>
            simp only [bind_ok]
            refine sat_bind (setNodeIdx_sat_eq _ _ _ _) (fun N1 h1 => ?_)
            subst h1
            simp only [hpni]
            exact attr_step h [(ni, _), (l, _)] [] rfl (by mem_tac) (by mem_tac) (by simp) (by asgp_tac) (by asgc_tac h, hnode)
              (by asgd_tac) (fun _ _ => Or.inl (by simp))
        | some r =>
          cases hl : pn.left with
          | none =>
            simp only [bind_assoc, bind_ok]
            refine sat_bind (setNodeIdx_sat_eq _ _ _ _) (fun N1 h1 => ?_)
            subst h1
            simp only [hpni]
            exact attr_step h [(ni, _), (r, _)] [] rfl (by mem_tac) (by mem_tac) (by simp) (by asgp_tac) (by asgc_tac h, hnode)
              (by asgd_tac) (fun _ _ => Or.inl (by simp))
          | some l =>
            simp only [bind_assoc, bind_ok]
            refine sat_bind (setNodeIdx_sat_eq _ _ _ _) (fun N1 h1 => ?_)
            subst h1
            refine sat_bind (setNodeIdx_sat_eq _ _ _ _) (fun N2 h2 => ?_)
            subst h2
            simp only [hpni]
            exact attr_step h [(ni, _), (r, _), (l, _)] [] rfl (by mem_tac) (by mem_tac) (by simp) (by asgp_tac)
              (by asgc_tac h, hnode) (by asgd_tac) (fun _ _ => Or.inl (by simp))
      · rw [if_neg hb]
        dsimp only
        cases hr : pn.right with
        | none =>
          cases hl : pn.left with
          | none =>
            simp only [bind_ok, hpni]
            exact attr_step h [(ni, _)] [] rfl (by mem_tac) (by mem_tac) (by simp) (by asgp_tac) (by asgc_tac h, hnode)
              (by asgd_tac) (fun _ _ => Or.inl (by simp))
          | some l =>
            simp only [bind_ok]
            refine sat_bind (setNodeIdx_sat_eq _ _ _ _) (fun N1 h1 => ?_)
            subst h1
            simp only [hpni]
            exact attr_step h [(ni, _), (l, _)] [] rfl (by mem_tac) (by mem_tac) (by simp) (by asgp_tac) (by asgc_tac h, hnode)
              (by asgd_tac) (fun _ _ => Or.inl (by simp))
        | some r =>
          cases hl : pn.left with
          | none =>
            simp only [bind_assoc, bind_ok]
            refine sat_bind (setNodeIdx_sat_eq _ _ _ _) (fun N1 h1 => ?_)
            subst h1
            simp only [hpni]
            exact attr_step h [(ni, _), (r, _)] [] rfl (by mem_tac) (by mem_tac) (by simp) (by asgp_tac) (by asgc_tac h, hnode)
              (by asgd_tac) (fun _ _ => Or.inl (by simp))
          | some l =>
            simp only [bind_assoc, bind_ok]
            refine sat_bind (setNodeIdx_sat_eq _ _ _ _) (fun N1 h1 => ?_)
            subst h1
            refine sat_bind (setNodeIdx_sat_eq _ _ _ _) (fun N2 h2 => ?_)
            subst h2
            simp only [hpni]
            exact attr_step h [(ni, _), (r, _), (l, _)] [] rfl (by mem_tac) (by mem_tac) (by simp) (by asgp_tac)
              (by asgc_tac h, hnode) (by asgd_tac) (fun _ _ => Or.inl (by simp))
  | initialized =>
    dsimp only
    have key0 : Sat (AInv tree m0 none) (Outcome.ok ctx) :=
      attr_step h [] [] rfl (by mem_tac) (by mem_tac) (by simp) (fun q hq => by cases hq) (fun q hq => by cases hq)
        (fun q hq => by cases hq) (hni_silent hpn hne)
    have key : Sat (AInv tree m0 none) (Outcome.bind (getNode ctx.nodes ni) fun node =>
        Outcome.ok { ctx with
          nodes := putNode ctx.nodes ni { node with childCount := node.childCount + 1 },
          data := pushInstr ctx.data .makeList (some node.childCount) (some node.parseNodeIndex) }) := by
      refine sat_bind (getNode_sat_eq ctx.nodes ni) (fun node2 hnode2 => ?_)
      refine attr_step h [(ni, _)] [some node2.parseNodeIndex] rfl (by mem_tac) (by mem_tac) (by simp [pushInstr])
        (fun q hq => ?_) (fun q hq cp hcp => ?_) (fun q hq => ?_) (hni_silent hpn hne)
      · simp only [List.mem_cons, List.mem_nil_iff, or_false] at hq
        subst hq; exact h.pni ni node2 hnode2
      · simp only [List.mem_cons, List.mem_nil_iff, or_false] at hq
        subst hq; exact h.cpOk ni node2 cp hnode2 hcp
      · simp only [List.mem_cons, List.mem_nil_iff, or_false] at hq
        subst hq; exact Or.inl rfl
    repeat' (first | exact key0 | exact key | split)

/-! the `add_fn` closures -/

theorem addUnit_meta (pn : ParseNode) (d : BState F) : Sat (fun r => r.1.metadata = d.metadata) (addUnit d pn) := rfl
theorem addFalse_meta (pn : ParseNode) (d : BState F) : Sat (fun r => r.1.metadata = d.metadata) (addFalse d pn) := rfl
theorem addTrue_meta (pn : ParseNode) (d : BState F) : Sat (fun r => r.1.metadata = d.metadata) (addTrue d pn) := rfl
theorem parseAddSymbolText_meta (pn : ParseNode) : AddMeta (parseAddSymbolText : AddFn F) pn := fun _ => rfl
theorem noOperand_meta (pn : ParseNode) :
    AddMeta (fun (data : BState F) (_ : ParseNode) => Outcome.ok (data, (none : Option Nat))) pn := fun _ => rfl

variable (parseFloat : List Char → Option F)

theorem parseAddNumber_meta (pn : ParseNode) (d : BState F) :
    Sat (fun r => r.1.metadata = d.metadata) (parseAddNumber parseFloat d pn) := by
  unfold parseAddNumber
  exact sat_bind sat_true (fun _ _ => rfl)
theorem parseAddCharList_meta (pn : ParseNode) (d : BState F) :
    Sat (fun r => r.1.metadata = d.metadata) (parseAddCharList parseFloat d pn) := by
  unfold parseAddCharList
  exact sat_bind sat_true (fun _ _ => rfl)
theorem parseAddByteList_meta (pn : ParseNode) (d : BState F) :
    Sat (fun r => r.1.metadata = d.metadata) (parseAddByteList parseFloat d pn) := by
  unfold parseAddByteList
  exact sat_bind sat_true (fun _ _ => rfl)
theorem parseAddSymbolLiteral_meta (pn : ParseNode) (d : BState F) :
    Sat (fun r => r.1.metadata = d.metadata) (parseAddSymbolLiteral d pn) := by
  unfold parseAddSymbolLiteral
  split
  · exact sat_panic
  · rfl

theorem handleParseNode_attr (h : AInv tree m0 (some ni) ctx) (hpn : tree[ni]? = some pn) (crj : Nat) :
    Sat (AInv tree m0 none) (handleParseNode parseFloat ctx crj ni pn) := by
  unfold handleParseNode
  split
  · exact handleValuePrimitive_attr h (addUnit_meta pn)
  · exact handleValuePrimitive_attr h (addFalse_meta pn)
  · exact handleValuePrimitive_attr h (addTrue_meta pn)
  · exact handleValuePrimitive_attr h (parseAddNumber_meta parseFloat pn)
  · exact handleValuePrimitive_attr h (parseAddCharList_meta parseFloat pn)
  · exact handleValuePrimitive_attr h (parseAddByteList_meta parseFloat pn)
  · exact handleValuePrimitive_attr h (parseAddSymbolLiteral_meta pn)
  · exact handleValueLike_attr h (noOperand_meta pn) _
  · exact handleValueLike_attr h (parseAddSymbolText_meta pn) _
  · exact handleValueLike_attr h (parseAddSymbolText_meta pn) _
  · exact handleValueLike_attr h (noOperand_meta pn) _
  · exact handleUnaryPrefix_attr h _
  · exact handleUnaryPrefix_attr h _
  · exact handleUnaryPrefix_attr h _
  · exact handleUnaryPrefix_attr h _
  · exact handleUnaryPrefix_attr h _
  · exact handleUnaryPrefix_attr h _
  · exact handleUnaryPrefix_attr h _
  · exact handleUnarySuffix_attr h _
  · exact handleUnarySuffix_attr h _
  · exact handleUnarySuffix_attr h _
  · exact handleBinaryOperationWithPush_attr h _ false
  · exact handleBinaryOperationWithPush_attr h _ false
  · exact handleBinaryOperationWithPush_attr h _ false
  · exact handleBinaryOperationWithPush_attr h _ false
  · exact handleBinaryOperationWithPush_attr h _ false
  · exact handleBinaryOperationWithPush_attr h _ false
  · exact handleBinaryOperationWithPush_attr h _ false
  · exact handleBinaryOperationWithPush_attr h _ false
  · exact handleBinaryOperationWithPush_attr h _ false
  · exact handleBinaryOperationWithPush_attr h _ false
  · exact handleBinaryOperationWithPush_attr h _ false
  · exact handleBinaryOperationWithPush_attr h _ false
  · exact handleBinaryOperationWithPush_attr h _ false
  · exact handleBinaryOperationWithPush_attr h _ false
  · exact handleBinaryOperationWithPush_attr h _ false
  · exact handleBinaryOperationWithPush_attr h _ false
  · exact handleBinaryOperationWithPush_attr h _ false
  · exact handleBinaryOperationWithPush_attr h _ false
  · exact handleBinaryOperationWithPush_attr h _ false
  · exact handleBinaryOperationWithPush_attr h _ false
  · exact handleBinaryOperationWithPush_attr h _ false
  · exact handleBinaryOperationWithPush_attr h _ false
  · exact handleBinaryOperationWithPush_attr h _ false
  · exact handleBinaryOperationWithPush_attr h _ false
  · exact handleBinaryOperationWithPush_attr h _ false
  · exact handleBinaryOperationWithPush_attr h _ false
  · exact handleBinaryOperationWithPush_attr h _ false
  · exact handleBinaryOperationWithPush_attr h _ false
  · exact handleBinaryOperationWithPush_attr h _ false
  · exact handleBinaryOperationWithPush_attr h _ true
  · exact handleBinaryOperationWithPush_attr h _ true
  · rename_i heq; exact handleList_attr h hpn (by rw [heq]; rfl)
  · rename_i heq; exact handleList_attr h hpn (by rw [heq]; rfl)
  · exact handleLogicalBinary_attr h _
  · exact handleLogicalBinary_attr h _
  · rename_i heq; exact handleGroup_attr h hpn (by rw [heq]; rfl)
  · exact handleSideEffect_attr h
  · exact handleNestedExpression_attr h crj
  · exact handleJumpIf_attr h _
  · exact handleJumpIf_attr h _
  · rename_i heq; exact handleElseJump_attr h hpn (by rw [heq]; rfl)
  · exact handleReapply_attr h
  · exact handleSubexpression_attr h
  · exact handleSubexpression_attr h
  · exact handleUnaryFixApply_attr h _
  · exact handleUnaryFixApply_attr h _
  · exact handleInfixApply_attr h
  · exact sat_buildErr

end handlers

end Garnish.Lemmas.BuildAttr
