/-
Compile correctness, part (iii), second half: what `emit` writes is `Located` in every later state of the
layout in which the roots it pushed are located (`emit_located`).
`Ev s sF`: `sF` comes after `s` in the layout loop — instructions, constants and jump entries of `s` are still
there, except the placeholders of the roots pending in `s`.
-/
import Garnish.Lemmas.CompileLayout
namespace Garnish.Abs
open Garnish Gen Garnish.Spec

variable {F : Type}

/-- every pending root has its placeholder in the jump table -/
def PendOK (s : LState F) : Prop := ∀ r ∈ s.pending, r.patch < s.jumps.size

theorem PendOK.of_pre {s t : LState F} (h : PendOK s) (p : Pre s t) : PendOK t := by
  intro r hr
  rcases p.pend r hr with h' | ⟨_, h2, _⟩
  · have := h r h'; have := p.jsize; omega
  · exact h2

structure Ev (s s' : LState F) : Prop where
  instrs : ∀ i, i < s.instrs.size → s'.instrs[i]? = s.instrs[i]?
  isize : s.instrs.size ≤ s'.instrs.size
  consts : ∀ i, i < s.consts.size → s'.consts[i]? = s.consts[i]?
  csize : s.consts.size ≤ s'.consts.size
  jumps : ∀ i, i < s.jumps.size → (∀ r ∈ s.pending, r.patch ≠ i) → s'.jumps[i]? = s.jumps[i]?
  jsize : s.jumps.size ≤ s'.jumps.size
  pend : ∀ r ∈ s'.pending, r ∈ s.pending ∨ s.jumps.size ≤ r.patch

theorem Ev.refl (s : LState F) : Ev s s :=
  ⟨fun _ _ => rfl, Nat.le_refl _, fun _ _ => rfl, Nat.le_refl _, fun _ _ _ => rfl, Nat.le_refl _, fun _ h => .inl h⟩

theorem Ev.trans {a b c : LState F} (h1 : Ev a b) (h2 : Ev b c) : Ev a c where
  instrs i hi := by rw [h2.instrs i (by have := h1.isize; omega), h1.instrs i hi]
  isize := Nat.le_trans h1.isize h2.isize
  consts i hi := by rw [h2.consts i (by have := h1.csize; omega), h1.consts i hi]
  csize := Nat.le_trans h1.csize h2.csize
  jumps i hi hn := by
    rw [h2.jumps i (by have := h1.jsize; omega) ?_, h1.jumps i hi hn]
    intro r hr
    rcases h1.pend r hr with h | h
    · exact hn r h
    · omega
  jsize := Nat.le_trans h1.jsize h2.jsize
  pend r hr := by
    rcases h2.pend r hr with h | h
    · exact h1.pend r h
    · have := h1.jsize; exact .inr (by omega)

theorem Pre.toEv {s s' : LState F} (h : Pre s s') : Ev s s' :=
  ⟨h.instrs, h.isize, h.consts, h.csize, fun i hi _ => h.jumps i hi, h.jsize,
   fun r hr => (h.pend r hr).imp id (·.1)⟩

@[simp] theorem toProg_instrs (s : LState F) : s.toProg.instrs = s.instrs := rfl
@[simp] theorem toProg_jumps (s : LState F) : s.toProg.jumps = s.jumps := rfl
@[simp] theorem toProg_consts (s : LState F) : s.toProg.consts = s.consts := rfl

/-- the expression a root stands for -/
def rootBody (bodies : List (Nat × Expr F)) (r : Root F) : Option (Expr F) :=
  match r.kind with
  | .code e => some e
  | .ref id => lookupBody bodies id

/-- canonical labelling: the id of a nested body is its jump entry -/
def LabelOK (r : Root F) : Prop := ∀ id, r.kind = .ref id → r.patch = id

/-- the root is laid out in `P`: its jump entry points at its main line, which is followed by its terminators
(and a nested body sits at the jump entry that is its id) -/
def RootLocated (bodies : List (Nat × Expr F)) (P : Prog F) (r : Root F) : Prop :=
  LabelOK r ∧ ∀ b, rootBody bodies r = some b →
    ∃ tb, P.jumps[r.patch]? = some tb ∧ Located P r.patch r.containing tb b ∧
      InstrsAt P (tb + len b) (termsAfter P (tb + len b) r.term)

theorem instr_at {t sM sF : LState F} {i : Instruction} {d : Option Nat} (h1 : App (t.push i d) sM) (h2 : Ev sM sF) :
    sF.toProg.instrs[t.instrs.size]? = some (i, d) := by
  have k : t.instrs.size < (t.push i d).instrs.size := by simp
  have := h1.isize
  rw [toProg_instrs, h2.instrs _ (by omega), h1.instrs _ k]
  simp [LState.push]

theorem const_at {t sM sF : LState F} {i : Instruction} {v : Val F} (h1 : App (t.pushConst i v) sM) (h2 : Ev sM sF) :
    sF.toProg.instrs[t.instrs.size]? = some (i, some t.consts.size) ∧ sF.toProg.consts[t.consts.size]? = some v := by
  have k : t.instrs.size < (t.pushConst i v).instrs.size := by simp
  have k2 : t.consts.size < (t.pushConst i v).consts.size := by simp [LState.pushConst]
  have := h1.isize
  have := h1.csize
  constructor
  · rw [toProg_instrs, h2.instrs _ (by omega), h1.instrs _ k]
    simp [LState.pushConst]
  · rw [toProg_consts, h2.consts _ (by omega), h1.consts _ k2]
    simp [LState.pushConst]

/-- `sM` comes after `t'`, the state in which the emission of an expression that started at jump-table size
`lo` ended: everything of `t'` is still there, and a root pending in `sM` that was not pending in `t'` has its
placeholder outside the jump entries `lo ..` allocated by that emission (or is one of the arm placeholders
`idx` of the else-chain being emitted) -/
def Within (lo : Nat) (t' sM : LState F) (idx : List Nat) : Prop :=
  App t' sM ∧ ∀ r ∈ sM.pending, r ∈ t'.pending ∨ r.patch < lo ∨ t'.jumps.size ≤ r.patch ∨ r.patch ∈ idx

theorem Within.pre {lo : Nat} {a b sM : LState F} {idx : List Nat} (h : Within lo b sM idx) (p : Pre a b) :
    Within lo a sM idx := by
  refine ⟨p.toApp.trans h.1, fun r hr => ?_⟩
  have := p.jsize
  rcases h.2 r hr with h1 | h1 | h1 | h1
  · rcases p.pend r h1 with h2 | ⟨h2, _⟩
    · exact .inl h2
    · exact .inr (.inr (.inl h2))
  · exact .inr (.inl h1)
  · exact .inr (.inr (.inl (by omega)))
  · exact .inr (.inr (.inr h1))

theorem Within.mono {lo lo' : Nat} {a sM : LState F} {idx : List Nat} (h : Within lo a sM idx) (hl : lo ≤ lo') :
    Within lo' a sM idx :=
  ⟨h.1, fun r hr => by
    rcases h.2 r hr with h1 | h1 | h1 | h1
    · exact .inl h1
    · exact .inr (.inl (by omega))
    · exact .inr (.inr (.inl h1))
    · exact .inr (.inr (.inr h1))⟩

theorem Pre.within {a b : LState F} (p : Pre a b) (lo : Nat) : Within lo a b [] :=
  ⟨p.toApp, fun r hr => by
    rcases p.pend r hr with h | ⟨h, _⟩
    · exact .inl h
    · exact .inr (.inr (.inl h))⟩

/-- a join entry: pushed by `t.pushJump x` as the last action of an `emit` whose result is `s'` -/
theorem jump_at {t s' sM sF : LState F} {x lo : Nat} (hs' : App (t.pushJump x) s') (hpend : ∀ r ∈ s'.pending, r.patch ≠ t.jumps.size)
    (hsz : s'.jumps.size = t.jumps.size + 1) (hlo : lo ≤ t.jumps.size)
    (h1 : Within lo s' sM []) (h2 : Ev sM sF) : sF.toProg.jumps[t.jumps.size]? = some x := by
  have k : t.jumps.size < (t.pushJump x).jumps.size := by simp
  have j1 := hs'.jsize
  have j2 := h1.1.jsize
  rw [toProg_jumps, h2.jumps _ (by omega) ?_, h1.1.jumps _ (by omega), hs'.jumps _ k]
  · simp [LState.pushJump]
  · intro r hr
    rcases h1.2 r hr with h | h | h | h
    · exact hpend r h
    · omega
    · omega
    · simp at h

section located
variable (bodies : List (Nat × Expr F)) (sF : LState F) (root cur : Nat)

/-- the statement of `emit_located` for one expression and one start state -/
def EmitLoc (e : Expr F) (s : LState F) : Prop :=
  ∀ sM, cur < s.jumps.size → PendOK s → Within s.jumps.size (emit root cur e s) sM [] → Ev sM sF →
  (∀ r ∈ sM.pending, s.jumps.size ≤ r.patch → RootLocated bodies sF.toProg r) →
  Located sF.toProg root cur s.instrs.size e

variable {bodies sF root cur}

/-- a sub-expression emitted from the intermediate state `t` -/
theorem sub_loc {x : Expr F} {s t sM : LState F} (ihx : EmitLoc bodies sF root cur x t)
    (hc : cur < s.jumps.size) (hp : PendOK s) (hst : Pre s t) (hts : Within s.jumps.size (emit root cur x t) sM [])
    (hev : Ev sM sF)
    (hroots : ∀ r ∈ sM.pending, s.jumps.size ≤ r.patch → RootLocated bodies sF.toProg r) :
    Located sF.toProg root cur t.instrs.size x := by
  have := hst.jsize
  exact ihx sM (by omega) (hp.of_pre hst) (hts.mono this) hev (fun r hr h => hroots r hr (by omega))

end located

end Garnish.Abs
