/-
Correctness of the proper-tree checker of Garnish/Spec/Tree.lean (for ALL parse results, no bound).
-/
import Garnish.Spec.Tree

namespace Garnish.Spec
open Garnish Garnish.Gen Garnish.Model.Parser

/-! ### basic facts -/

theorem Tree.depth_le_size : ∀ t : Tree, t.depth ≤ t.size
  | .nil => Nat.le_refl _
  | .node l _ _ r => by
    have hl := Tree.depth_le_size l
    have hr := Tree.depth_le_size r
    simp only [Tree.depth, Tree.size]
    omega

theorem Tree.length_inorder : ∀ t : Tree, t.inorder.length = t.size
  | .nil => rfl
  | .node l _ _ r => by
    simp only [Tree.inorder, Tree.size, List.length_append, List.length_cons, Tree.length_inorder l, Tree.length_inorder r]
    omega

theorem Tree.length_inorderToks : ∀ t : Tree, t.inorderToks.length = t.size
  | .nil => rfl
  | .node l _ _ r => by
    simp only [Tree.inorderToks, Tree.size, List.length_append, List.length_cons, Tree.length_inorderToks l,
      Tree.length_inorderToks r]
    omega

/-- every index of a tree that follows the links of `nodes` is in range -/
theorem IsTreeAt.inorder_lt {nodes : Array ParseNode} {p link : Option Nat} {t : Tree} (h : IsTreeAt nodes p link t) :
    ∀ i ∈ t.inorder, i < nodes.size := by
  induction h with
  | nil p => intro i hi; simp [Tree.inorder] at hi
  | node p i n l r hn hp _ _ ihl ihr =>
    intro j hj
    simp only [Tree.inorder, List.mem_append, List.mem_cons] at hj
    rcases hj with hj | hj | hj
    · exact ihl j hj
    · subst hj
      have := Array.getElem?_eq_some_iff.mp hn
      exact this.1
    · exact ihr j hj

/-- the tree that follows a link is unique -/
theorem IsTreeAt.unique {nodes : Array ParseNode} {p link : Option Nat} {t t' : Tree}
    (h : IsTreeAt nodes p link t) (h' : IsTreeAt nodes p link t') : t = t' := by
  induction h generalizing t' with
  | nil p => cases h'; rfl
  | node p i n l r hn hp _ _ ihl ihr =>
    cases h' with
    | node _ _ n' l' r' hn' hp' hl' hr' =>
      have : n = n' := by rw [hn] at hn'; exact Option.some.inj hn'
      subst this
      rw [ihl hl', ihr hr']

/-- a proper tree over `nodes` has at most `nodes.size` nodes (pigeonhole) -/
theorem IsTreeAt.size_le {nodes : Array ParseNode} {p link : Option Nat} {t : Tree} (h : IsTreeAt nodes p link t)
    (hnd : t.inorder.Nodup) : t.size ≤ nodes.size := by
  have hsub : t.inorder ⊆ List.range nodes.size := by
    intro i hi
    exact List.mem_range.mpr (h.inorder_lt i hi)
  have := hnd.length_le_of_subset hsub
  rw [Tree.length_inorder, List.length_range] at this
  exact this

/-! ### `buildTree` is sound and complete -/

theorem buildTree_sound (nodes : Array ParseNode) :
    ∀ (fuel : Nat) (p link : Option Nat) (v : List Nat) (t : Tree) (v' : List Nat),
      buildTree nodes fuel p link v = some (t, v') →
      IsTreeAt nodes p link t ∧ t.inorder.Nodup ∧ (∀ x ∈ t.inorder, x ∉ v) ∧ (∀ x, x ∈ v' ↔ x ∈ v ∨ x ∈ t.inorder) := by
  intro fuel
  induction fuel with
  | zero =>
    intro p link v t v' h
    cases link with
    | none =>
      simp only [buildTree, Option.some.injEq, Prod.mk.injEq] at h
      obtain ⟨rfl, rfl⟩ := h
      exact ⟨.nil p, by simp [Tree.inorder], by simp [Tree.inorder], by simp [Tree.inorder]⟩
    | some i => simp [buildTree] at h
  | succ fuel ih =>
    intro p link v t v' h
    cases link with
    | none =>
      simp only [buildTree, Option.some.injEq, Prod.mk.injEq] at h
      obtain ⟨rfl, rfl⟩ := h
      exact ⟨.nil p, by simp [Tree.inorder], by simp [Tree.inorder], by simp [Tree.inorder]⟩
    | some i =>
      simp only [buildTree] at h
      cases hn : nodes[i]? with
      | none => simp [hn] at h
      | some n =>
        simp only [hn] at h
        cases hp : (n.parent != p) with
        | true => rw [hp] at h; simp at h
        | false =>
          rw [hp] at h
          simp only [Bool.false_eq_true, if_false] at h
          cases hv : v.contains i with
          | true => rw [hv] at h; simp at h
          | false =>
            rw [hv] at h
            simp only [Bool.false_eq_true, if_false] at h
            cases h1 : buildTree nodes fuel (some i) n.left (i :: v) with
            | none => simp [h1] at h
            | some res1 =>
              obtain ⟨l, v1⟩ := res1
              simp only [h1] at h
              cases h2 : buildTree nodes fuel (some i) n.right v1 with
              | none => simp [h2] at h
              | some res2 =>
                obtain ⟨r, v2⟩ := res2
                simp only [h2, Option.some.injEq, Prod.mk.injEq] at h
                obtain ⟨rfl, rfl⟩ := h
                obtain ⟨tl, ndl, disjl, meml⟩ := ih _ _ _ _ _ h1
                obtain ⟨tr, ndr, disjr, memr⟩ := ih _ _ _ _ _ h2
                have hpar : n.parent = p := by
                  simpa using hp
                have hiv : i ∉ v := by
                  simpa using hv
                refine ⟨.node p i n l r hn hpar tl tr, ?_, ?_, ?_⟩
                · -- Nodup (l.inorder ++ i :: r.inorder)
                  simp only [Tree.inorder]
                  rw [List.nodup_append]
                  refine ⟨ndl, ?_, ?_⟩
                  · rw [List.nodup_cons]
                    refine ⟨?_, ndr⟩
                    intro hir
                    exact disjr i hir ((meml i).mpr (Or.inl (List.mem_cons_self ..)))
                  · intro a ha b hb hab
                    subst hab
                    rcases List.mem_cons.mp hb with hb | hb
                    · subst hb
                      exact disjl a ha (List.mem_cons_self ..)
                    · exact disjr a hb ((meml a).mpr (Or.inr ha))
                · intro x hx hxv
                  simp only [Tree.inorder, List.mem_append, List.mem_cons] at hx
                  rcases hx with hx | hx | hx
                  · exact disjl x hx (List.mem_cons_of_mem _ hxv)
                  · subst hx; exact hiv hxv
                  · exact disjr x hx ((meml x).mpr (Or.inl (List.mem_cons_of_mem _ hxv)))
                · intro x
                  simp only [Tree.inorder, List.mem_append, List.mem_cons]
                  rw [memr x, meml x]
                  simp only [List.mem_cons]
                  constructor
                  · rintro ((( h | h) | h) | h)
                    · exact Or.inr (Or.inr (Or.inl h))
                    · exact Or.inl h
                    · exact Or.inr (Or.inl h)
                    · exact Or.inr (Or.inr (Or.inr h))
                  · rintro (h | h | h | h)
                    · exact Or.inl (Or.inl (Or.inr h))
                    · exact Or.inl (Or.inr h)
                    · exact Or.inl (Or.inl (Or.inl h))
                    · exact Or.inr h

theorem buildTree_complete (nodes : Array ParseNode) {p link : Option Nat} {t : Tree} (h : IsTreeAt nodes p link t) :
    ∀ (fuel : Nat) (v : List Nat), t.depth ≤ fuel → t.inorder.Nodup → (∀ x ∈ t.inorder, x ∉ v) →
      ∃ v', buildTree nodes fuel p link v = some (t, v') := by
  induction h with
  | nil p =>
    intro fuel v _ _ _
    cases fuel <;> exact ⟨v, by simp [buildTree]⟩
  | node p i n l r hn hp hl hr ihl ihr =>
    intro fuel v hd hnd hdis
    cases fuel with
    | zero => simp [Tree.depth] at hd
    | succ fuel =>
      simp only [Tree.depth] at hd
      simp only [Tree.inorder] at hnd hdis
      rw [List.nodup_append] at hnd
      obtain ⟨ndl, ndir, hlr⟩ := hnd
      rw [List.nodup_cons] at ndir
      obtain ⟨hir, ndr⟩ := ndir
      have hil : i ∉ l.inorder := fun hi => hlr i hi i (List.mem_cons_self ..) rfl
      have hiv : i ∉ v := hdis i (by simp)
      obtain ⟨v1, h1⟩ := ihl fuel (i :: v) (by omega) ndl (by
        intro x hx hxv
        rcases List.mem_cons.mp hxv with hxi | hxv
        · subst hxi; exact hil hx
        · exact hdis x (by simp [hx]) hxv)
      obtain ⟨_, _, _, mem1⟩ := buildTree_sound nodes _ _ _ _ _ _ h1
      obtain ⟨v2, h2⟩ := ihr fuel v1 (by omega) ndr (by
        intro x hx hxv
        rcases (mem1 x).mp hxv with hxv | hxl
        · rcases List.mem_cons.mp hxv with hxi | hxv
          · subst hxi; exact hir hx
          · exact hdis x (by simp [hx]) hxv
        · exact hlr x hxl x (List.mem_cons_of_mem _ hx) rfl)
      refine ⟨v2, ?_⟩
      have hp' : (n.parent != p) = false := by simp [hp]
      have hv' : v.contains i = false := by simpa using hiv
      simp only [buildTree, hn, hp', hv', h1, h2, Bool.false_eq_true, if_false]

/-! ### `toTree` / `properTree` -/

theorem toTree_some_iff (r : ParseResult) (t : Tree) :
    toTree r = some t ↔ IsTreeAt r.nodes none (rootLink r) t ∧ t.inorder.Nodup := by
  constructor
  · intro h
    unfold toTree at h
    cases hb : buildTree r.nodes r.nodes.size none (rootLink r) [] with
    | none => simp [hb] at h
    | some res =>
      obtain ⟨t', v'⟩ := res
      simp only [hb, Option.some.injEq] at h
      subst h
      obtain ⟨ht, hnd, _, _⟩ := buildTree_sound _ _ _ _ _ _ _ hb
      exact ⟨ht, hnd⟩
  · rintro ⟨ht, hnd⟩
    have hdepth : t.depth ≤ r.nodes.size := Nat.le_trans (Tree.depth_le_size t) (ht.size_le hnd)
    obtain ⟨v', hb⟩ := buildTree_complete r.nodes ht r.nodes.size [] hdepth hnd (by simp)
    simp [toTree, hb]

theorem properTree_sound (r : ParseResult) (h : properTree r = true) : ProperTree r := by
  unfold properTree at h
  cases ht : toTree r with
  | none => simp [ht] at h
  | some t => exact ⟨t, (toTree_some_iff r t).mp ht⟩

theorem properTree_complete (r : ParseResult) (h : ProperTree r) : properTree r = true := by
  obtain ⟨t, ht⟩ := h
  have := (toTree_some_iff r t).mpr ht
  simp [properTree, this]

theorem properTree_iff (r : ParseResult) : properTree r = true ↔ ProperTree r :=
  ⟨properTree_sound r, properTree_complete r⟩

/-! ### the in-order walk visits exactly the reachable nodes, each once -/

theorem IsTreeAt.root_mem {nodes : Array ParseNode} {p : Option Nat} {i : Nat} {t : Tree}
    (h : IsTreeAt nodes p (some i) t) : i ∈ t.inorder := by
  cases h with
  | node _ _ n l r => simp [Tree.inorder]

/-- the index set of a tree is closed under following `left` / `right` links -/
theorem IsTreeAt.child_mem {nodes : Array ParseNode} {p link : Option Nat} {t : Tree} (h : IsTreeAt nodes p link t)
    {j i : Nat} {n : ParseNode} (hj : j ∈ t.inorder) (hn : nodes[j]? = some n) (hc : n.left = some i ∨ n.right = some i) :
    i ∈ t.inorder := by
  induction h with
  | nil p => simp [Tree.inorder] at hj
  | node p i0 n0 l r hn0 hp hl hr ihl ihr =>
    simp only [Tree.inorder, List.mem_append, List.mem_cons] at hj ⊢
    rcases hj with hj | hj | hj
    · exact Or.inl (ihl hj)
    · subst hj
      have : n = n0 := by rw [hn] at hn0; exact Option.some.inj hn0
      subst this
      rcases hc with hc | hc
      · rw [hc] at hl; exact Or.inl hl.root_mem
      · rw [hc] at hr; exact Or.inr (Or.inr hr.root_mem)
    · exact Or.inr (Or.inr (ihr hj))

theorem IsTreeAt.reachable {r : ParseResult} {p link : Option Nat} {t : Tree} (h : IsTreeAt r.nodes p link t)
    (hlink : ∀ j, link = some j → Reachable r j) : ∀ i ∈ t.inorder, Reachable r i := by
  induction h with
  | nil p => intro i hi; simp [Tree.inorder] at hi
  | node p i0 n l rr hn hp hl hr ihl ihr =>
    have h0 : Reachable r i0 := hlink i0 rfl
    intro i hi
    simp only [Tree.inorder, List.mem_append, List.mem_cons] at hi
    rcases hi with hi | hi | hi
    · exact ihl (fun j hj => Reachable.left i0 j n h0 hn hj) i hi
    · subst hi; exact h0
    · exact ihr (fun j hj => Reachable.right i0 j n h0 hn hj) i hi

theorem inorder_visits_all (r : ParseResult) (t : Tree) (h : toTree r = some t) :
    t.inorder.Nodup ∧ ∀ i, i ∈ t.inorder ↔ Reachable r i := by
  obtain ⟨ht, hnd⟩ := (toTree_some_iff r t).mp h
  refine ⟨hnd, fun i => ⟨ht.reachable (fun j hj => Reachable.root j hj) i, ?_⟩⟩
  intro hr
  induction hr with
  | root i hi => rw [hi] at ht; exact ht.root_mem
  | left j i n _ hn hl ih => exact ht.child_mem ih hn (Or.inl hl)
  | right j i n _ hn hl ih => exact ht.child_mem ih hn (Or.inr hl)

/-! ### source order -/

theorem strictlyIncreasing_iff : ∀ l : List Nat, strictlyIncreasing l = true ↔ l.Pairwise (· < ·)
  | [] => by simp [strictlyIncreasing]
  | [a] => by simp [strictlyIncreasing]
  | a :: b :: rest => by
    have ih := strictlyIncreasing_iff (b :: rest)
    simp only [strictlyIncreasing, Bool.and_eq_true, decide_eq_true_eq, ih]
    constructor
    · rintro ⟨hab, hp⟩
      rw [List.pairwise_cons]
      refine ⟨?_, hp⟩
      intro x hx
      rcases List.mem_cons.mp hx with hx | hx
      · subst hx; exact hab
      · exact Nat.lt_trans hab ((List.pairwise_cons.mp hp).1 x hx)
    · intro hp
      rw [List.pairwise_cons] at hp
      exact ⟨hp.1 b (List.mem_cons_self ..), hp.2⟩

/-- the checker `inorderSorted` decides "the in-order walk meets the tokens in strictly increasing source position" -/
theorem inorderSorted_iff (t : Tree) : inorderSorted t = true ↔ t.inorderToks.Pairwise (· < ·) :=
  strictlyIncreasing_iff _

end Garnish.Spec
