/-
Step-level lemmas of the operator fragment, generalised to an arbitrary `under_group` (`underGroupOf st = .ok ug`):
copies of `parseToken_atom(_ok)`, `step_binop_spec/ok/nextParent`, `step_atom_spec/ok`, `step_suffix_ok/spec`,
`step_prefix_eq` (which are stated for `current_group = None`), for use inside brackets.
-/
import Garnish.Lemmas.ParserSuffix5

namespace Garnish.Spec
open Garnish Garnish.Gen Garnish.Model.Parser

/-- a value directly after the operator node `m` (whose `right` already points to the value's id) -/
theorem parseToken_atomG {ug : Option Nat} {m qo : Nat} {d : Definition} {right : Option Nat} {nodes nodes' : Array ParseNode}
    {rtl : Bool} {info : Info} {on : ParseNode} (hq : priority d = some 10) (hm : nodes[m]? = some on)
    (hqo : priority on.definition = some qo) (hlt : 10 < qo) (hor : on.right = some nodes.size)
    (h : parseToken nodes.size d (some m) right nodes ug rtl = .ok (nodes', info)) :
    info = ⟨d, some m, none, right⟩ ∧ ∀ j : Nat, nodes'[j]? = nodes[j]? := by
  unfold parseToken at h
  have hw : walkLoop nodes 10 ug rtl (nodes.size + 1) 0 (some m) (some m) = .ok (some m, some m) := by
    unfold walkLoop
    simp [hm, hqo, hlt]
  simp only [hq] at h
  obtain ⟨⟨tl, par⟩, hw', h⟩ := bind_ok h
  rw [hw] at hw'
  injection hw' with hw'; injection hw' with e1 e2; subst e1; subst e2
  simp only [beq_self_eq_true, if_true, Outcome.bind, hm] at h
  split at h
  · cases h
  · rename_i nodes2 hm2
    have g2 := modifyNode?_get hm2
    simp only [hor] at h
    have hsz := modifyNode?_size hm2
    rw [modifyNode?_none (by omega)] at h
    injection h with h; injection h with e1 e2
    subst e1
    refine ⟨e2.symm, ?_⟩
    intro j
    rw [g2 j]
    by_cases hj : j = m
    · subst hj
      simp only [if_true, hm, Option.map_some]
      congr 1
      cases on
      simp_all
    · simp [hj]

theorem parseToken_atom_okG {ug : Option Nat} {m qo : Nat} {d : Definition} {right : Option Nat} {nodes : Array ParseNode}
    {rtl : Bool} {on : ParseNode} (hq : priority d = some 10) (hm : nodes[m]? = some on)
    (hqo : priority on.definition = some qo) (hlt : 10 < qo) (hor : on.right = some nodes.size) :
    ∃ nodes' info, parseToken nodes.size d (some m) right nodes ug rtl = .ok (nodes', info) := by
  have hms : m < nodes.size := (Array.getElem?_eq_some_iff.mp hm).1
  obtain ⟨n2, h2⟩ := modifyNode?_isSome (fun p => { p with right := some nodes.size }) hms
  have s2 := modifyNode?_size h2
  have hw : walkLoop nodes 10 ug rtl (nodes.size + 1) 0 (some m) (some m) = .ok (some m, some m) := by
    unfold walkLoop
    simp [hm, hqo, hlt]
  unfold parseToken
  rw [hq]
  simp only [hw, Outcome.bind, beq_self_eq_true, if_true, hm, h2, hor]
  rw [modifyNode?_none (by omega)]
  exact ⟨_, _, rfl⟩

/-- the fields of the state after a successful step on a binary-operator token -/
theorem step_binop_specG (st st1 : PState) (o : PToken) (ho : isBinopTok o = true) (hnl : st.nextLastLeft = none)
    {ug : Option Nat} (hug : underGroupOf st = .ok ug) (hadj : adjustLastLeft st ug = .ok st) (h : step st o false = .ok st1) :
    ∃ nodes' info,
      parseToken st.nodes.size (getDefinition o.type).1 st.lastLeft (some (st.nodes.size + 1)) st.nodes ug
        ((getDefinition o.type).2 == .binaryRightToLeft) = .ok (nodes', info) ∧
      st1.nodes = nodes'.push ⟨(getDefinition o.type).1, (getDefinition o.type).2, info.parent, info.left, info.right, o⟩ ∧
      st1.lastLeft = some st.nodes.size ∧ st1.checkForList = false ∧ st1.nextLastLeft = none ∧
      st1.groupStack = st.groupStack ∧ st1.currentGroup = st.currentGroup ∧ st1.previousSecondDef = (getDefinition o.type).2 := by
  unfold step at h
  simp only [hug, hadj, Outcome.bind] at h
  unfold isBinopTok at ho
  obtain ⟨f1, f2, _, _⟩ := binop_def_facts o.type ho
  generalize getDefinition o.type = ds at h ho f1 f2 ⊢
  obtain ⟨d, so⟩ := ds
  simp only at h ho f1 f2 ⊢
  split at h
  · cases h
  · have hso : so = .binaryLeftToRight ∨ so = .binaryRightToLeft := by
      simpa [Bool.or_eq_true, beq_iff_eq] using ho
    have hdisp : ∀ (stx : PState) (ar : Option Nat),
        dispatch stx st.nodes.size o d so ar ug =
          parseTokenSt { stx with nextParent := some st.nodes.size } st.nodes.size d stx.lastLeft ar ug
            (so == .binaryRightToLeft) := by
      intro stx ar
      rcases hso with hso | hso <;> subst hso <;> rfl
    rw [hdisp] at h
    simp only [parseTokenSt] at h
    obtain ⟨⟨stp, info⟩, hd, h⟩ := bind_ok h
    obtain ⟨⟨nodes', info'⟩, hpt, hd⟩ := bind_ok hd
    injection hd with hd; injection hd with e1 e2; subst e1; subst e2
    obtain ⟨hsz, hdef⟩ := parseToken_size_def hpt
    simp only [pushNode, hdef, f1, if_true, hnl] at h
    injection h with h; subst h
    refine ⟨nodes', info', by simpa using hpt, ?_, ?_, rfl, rfl, rfl, rfl, rfl⟩
    · have hmatch : (match d with
          | Definition.identifier =>
            match info'.parent.bind fun p => nodes'[p]? with
            | none => d
            | some p => if (p.definition == Definition.access) = true then Definition.property else d
          | d => d) = d := by
        cases d <;> first | rfl | exact absurd rfl f2
      simp [hmatch]
    · dsimp only
      rw [if_neg]
      simp [Array.size_push]

/-- a binary-operator step succeeds as soon as its `parse_token` does -/
theorem step_binop_okG (st : PState) (o : PToken) (ho : isBinopTok o = true) {ug : Option Nat} (hug : underGroupOf st = .ok ug)
    (hadj : adjustLastLeft st ug = .ok st)
    (hcomp : checkComposition st.previousSecondDef (getDefinition o.type).2 st.checkForList = true)
    (hpt : ∃ nodes' info, parseToken st.nodes.size (getDefinition o.type).1 st.lastLeft (some (st.nodes.size + 1)) st.nodes ug
        ((getDefinition o.type).2 == .binaryRightToLeft) = .ok (nodes', info)) :
    ∃ st1, step st o false = .ok st1 := by
  obtain ⟨nodes', info, hpt⟩ := hpt
  unfold step
  simp only [hug, hadj, Outcome.bind]
  unfold isBinopTok at ho
  generalize getDefinition o.type = ds at ho hcomp hpt ⊢
  obtain ⟨d, so⟩ := ds
  simp only at ho hcomp hpt ⊢
  have hso : so = .binaryLeftToRight ∨ so = .binaryRightToLeft := by
    simpa [Bool.or_eq_true, beq_iff_eq] using ho
  simp only [hcomp, Bool.not_true, Bool.false_eq_true, if_false]
  rcases hso with hso | hso
  · subst hso
    have e : (SecDef.binaryLeftToRight == SecDef.binaryRightToLeft) = false := rfl
    rw [e] at hpt
    simp only [dispatch, parseTokenLeftToRight, parseTokenSt, hpt, Outcome.bind]
    exact ⟨_, rfl⟩
  · subst hso
    have e : (SecDef.binaryRightToLeft == SecDef.binaryRightToLeft) = true := rfl
    rw [e] at hpt
    simp only [dispatch, parseTokenRightToLeft, parseTokenSt, hpt, Outcome.bind]
    exact ⟨_, rfl⟩

theorem step_binop_nextParentG (st st1 : PState) (o : PToken) (ho : isBinopTok o = true) (hnl : st.nextLastLeft = none)
    {ug : Option Nat} (hug : underGroupOf st = .ok ug) (hadj : adjustLastLeft st ug = .ok st) (h : step st o false = .ok st1) :
    st1.nextParent = some st.nodes.size := by
  unfold step at h
  simp only [hug, hadj, Outcome.bind] at h
  unfold isBinopTok at ho
  obtain ⟨f1, f2, _, _⟩ := binop_def_facts o.type ho
  generalize getDefinition o.type = ds at h ho f1 f2 ⊢
  obtain ⟨d, so⟩ := ds
  simp only at h ho f1 f2 ⊢
  split at h
  · cases h
  · have hso : so = .binaryLeftToRight ∨ so = .binaryRightToLeft := by
      simpa [Bool.or_eq_true, beq_iff_eq] using ho
    have hdisp : ∀ (stx : PState) (ar : Option Nat),
        dispatch stx st.nodes.size o d so ar ug =
          parseTokenSt { stx with nextParent := some st.nodes.size } st.nodes.size d stx.lastLeft ar ug
            (so == .binaryRightToLeft) := by
      intro stx ar
      rcases hso with hso | hso <;> subst hso <;> rfl
    rw [hdisp] at h
    simp only [parseTokenSt] at h
    obtain ⟨⟨stp, info⟩, hd, h⟩ := bind_ok h
    obtain ⟨⟨nodes', info'⟩, hpt, hd⟩ := bind_ok hd
    injection hd with hd; injection hd with e1 e2; subst e1; subst e2
    obtain ⟨hsz, hdef⟩ := parseToken_size_def hpt
    simp only [pushNode, hdef, f1, if_true, hnl] at h
    injection h with h; subst h
    rfl

/-- the fields of the state after a successful step on a value / identifier token (list flag clear) -/
theorem step_atom_specG (st st1 : PState) (a : PToken) (il : Bool)
    (hs : (getDefinition a.type).2 = .value ∨ (getDefinition a.type).2 = .identifier)
    (hd : ((getDefinition a.type).1 != Definition.drop) = true)
    (hc : st.checkForList = false) (hnl : st.nextLastLeft = none)
    {ug : Option Nat} (hug : underGroupOf st = .ok ug) (hadj : adjustLastLeft st ug = .ok st) (h : step st a il = .ok st1) :
    ∃ nodes' info,
      parseToken st.nodes.size (getDefinition a.type).1 st.lastLeft none st.nodes ug false = .ok (nodes', info) ∧
      st1.nodes = nodes'.push ⟨renameDef (getDefinition a.type).1 info.parent nodes', (getDefinition a.type).2,
        info.parent, info.left, info.right, a⟩ ∧
      st1.lastLeft = some st.nodes.size ∧ st1.checkForList = false ∧ st1.nextLastLeft = none ∧
      st1.groupStack = st.groupStack ∧ st1.currentGroup = st.currentGroup ∧ st1.previousSecondDef = (getDefinition a.type).2 := by
  unfold step at h
  simp only [hug, hadj, Outcome.bind] at h
  generalize getDefinition a.type = ds at h hs hd ⊢
  obtain ⟨d, sa⟩ := ds
  simp only at h hs hd ⊢
  split at h
  · cases h
  · have hdisp : ∀ (stx : PState) (ar : Option Nat), stx.checkForList = false →
        dispatch stx st.nodes.size a d sa ar ug = parseTokenSt stx st.nodes.size d stx.lastLeft none ug false := by
      intro stx ar hcx
      rcases hs with hs | hs <;> subst hs <;>
        simp [dispatch, parseValueLike, hcx, parseTokenLeftToRight]
    have hc' : ({ st with previousSecondDef := sa } : PState).checkForList = false := hc
    rw [hdisp _ _ hc'] at h
    simp only [parseTokenSt] at h
    obtain ⟨⟨stp, info⟩, hd', h⟩ := bind_ok h
    obtain ⟨⟨nodes', info'⟩, hpt, hd'⟩ := bind_ok hd'
    injection hd' with hd'; injection hd' with e1 e2; subst e1; subst e2
    obtain ⟨hsz, hdef⟩ := parseToken_size_def hpt
    simp only [pushNode, hdef, hd, if_true, hnl] at h
    injection h with h; subst h
    refine ⟨nodes', info', by simpa using hpt, ?_, ?_, rfl, rfl, rfl, rfl, rfl⟩
    · rfl
    · dsimp only
      rw [if_neg]
      simp [Array.size_push]

/-- a value step (list flag clear) succeeds as soon as its `parse_token` does -/
theorem step_atom_okG (st : PState) (a : PToken) (il : Bool)
    (hs : (getDefinition a.type).2 = .value ∨ (getDefinition a.type).2 = .identifier)
    (hc : st.checkForList = false) {ug : Option Nat} (hug : underGroupOf st = .ok ug) (hadj : adjustLastLeft st ug = .ok st)
    (hcomp : checkComposition st.previousSecondDef (getDefinition a.type).2 false = true)
    (hpt : ∃ nodes' info, parseToken st.nodes.size (getDefinition a.type).1 st.lastLeft none st.nodes ug false =
        .ok (nodes', info)) :
    ∃ st1, step st a il = .ok st1 := by
  obtain ⟨nodes', info, hpt⟩ := hpt
  unfold step
  simp only [hug, hadj, Outcome.bind]
  generalize getDefinition a.type = ds at hs hcomp hpt ⊢
  obtain ⟨d, sa⟩ := ds
  simp only at hs hcomp hpt ⊢
  simp only [hc, hcomp, Bool.not_true, Bool.false_eq_true, if_false]
  rcases hs with hs | hs <;> subst hs <;>
  · simp only [dispatch, parseValueLike, hc, Bool.false_eq_true, if_false, parseTokenLeftToRight, parseTokenSt, hpt]
    exact ⟨_, rfl⟩

/-- a suffix-operator step succeeds as soon as its `parse_token` does -/
theorem step_suffix_okG (st : PState) (s : PToken) (il : Bool) (hs : isSuffixTok s = true) {ug : Option Nat} (hug : underGroupOf st = .ok ug)
    (hadj : adjustLastLeft st ug = .ok st)
    (hcomp : checkComposition st.previousSecondDef .unarySuffix st.checkForList = true)
    (hpt : ∃ nodes' info, parseToken st.nodes.size (getDefinition s.type).1 st.lastLeft none st.nodes ug false =
        .ok (nodes', info)) :
    ∃ st1, step st s il = .ok st1 := by
  obtain ⟨nodes', info, hpt⟩ := hpt
  have hsd : (getDefinition s.type).2 = .unarySuffix := by unfold isSuffixTok at hs; simpa using hs
  unfold step
  simp only [hug, hadj, Outcome.bind]
  generalize getDefinition s.type = ds at hsd hpt ⊢
  obtain ⟨d, sd⟩ := ds
  simp only at hsd hpt ⊢
  subst hsd
  simp only [hcomp, Bool.not_true, Bool.false_eq_true, if_false, dispatch, parseTokenLeftToRight, parseTokenSt, hpt]
  exact ⟨_, rfl⟩

/-- the fields of the state after a successful step on a suffix-operator token -/
theorem step_suffix_specG (st st1 : PState) (s : PToken) (il : Bool) (hs : isSuffixTok s = true)
    (hnl : st.nextLastLeft = none) {ug : Option Nat} (hug : underGroupOf st = .ok ug) (hadj : adjustLastLeft st ug = .ok st)
    (h : step st s il = .ok st1) :
    ∃ nodes' info,
      parseToken st.nodes.size (getDefinition s.type).1 st.lastLeft none st.nodes ug false = .ok (nodes', info) ∧
      st1.nodes = nodes'.push ⟨(getDefinition s.type).1, .unarySuffix, info.parent, info.left, info.right, s⟩ ∧
      st1.lastLeft = some st.nodes.size ∧ st1.checkForList = false ∧ st1.nextLastLeft = none ∧
      st1.groupStack = st.groupStack ∧ st1.currentGroup = st.currentGroup ∧ st1.previousSecondDef = .unarySuffix := by
  have hsd : (getDefinition s.type).2 = .unarySuffix := by unfold isSuffixTok at hs; simpa using hs
  obtain ⟨_, _, _, f1, f2, _, _, _⟩ := suffix_def_facts s.type hsd
  unfold step at h
  simp only [hug, hadj, Outcome.bind] at h
  generalize getDefinition s.type = ds at h hsd f1 f2 ⊢
  obtain ⟨d, sd⟩ := ds
  simp only at h hsd f1 f2 ⊢
  subst hsd
  split at h
  · cases h
  · simp only [dispatch, parseTokenLeftToRight, parseTokenSt] at h
    obtain ⟨⟨stp, info⟩, hd, h⟩ := bind_ok h
    obtain ⟨⟨nodes', info'⟩, hpt, hd⟩ := bind_ok hd
    injection hd with hd; injection hd with e1 e2; subst e1; subst e2
    obtain ⟨hsz, hdef⟩ := parseToken_size_def hpt
    simp only [pushNode, hdef, f1, if_true, hnl] at h
    injection h with h; subst h
    refine ⟨nodes', info', by simpa using hpt, ?_, ?_, rfl, rfl, rfl, rfl, rfl⟩
    · have hmatch : (match d with
          | Definition.identifier =>
            match info'.parent.bind fun p => nodes'[p]? with
            | none => d
            | some p => if (p.definition == Definition.access) = true then Definition.property else d
          | d => d) = d := by
        cases d <;> first | rfl | exact absurd rfl f2
      simp [hmatch]
    · dsimp only
      rw [if_neg]
      simp [Array.size_push]

/-- **a prefix-operator token in operand position** (list flag clear, not the last token): it is pushed as the right child
    of `next_parent` with a dangling `right`, and becomes `next_parent` / `last_left` -/
theorem step_prefix_eqG (st : PState) (p : PToken) (hp : isPrefixTok p = true) (hc : st.checkForList = false)
    (hnl : st.nextLastLeft = none) {ug : Option Nat} (hug : underGroupOf st = .ok ug) (hadj : adjustLastLeft st ug = .ok st)
    (hcomp : checkComposition st.previousSecondDef .unaryPrefix false = true) :
    step st p false = .ok (stepP st p) := by
  unfold isPrefixTok at hp
  have hs : (getDefinition p.type).2 = .unaryPrefix := by simpa using hp
  obtain ⟨q, _, _, f1, f2, _, _, _⟩ := prefix_def_facts p.type hs
  unfold step stepP
  simp only [hug, hadj, Outcome.bind]
  generalize getDefinition p.type = ds at hs f1 f2 ⊢
  obtain ⟨d, s⟩ := ds
  simp only at hs f1 f2 ⊢
  subst hs
  have hmatch : ∀ (par : Option Nat) (nodes : Array ParseNode), (match d with
      | Definition.identifier =>
        match par.bind fun p => nodes[p]? with
        | none => d
        | some p => if (p.definition == Definition.access) = true then Definition.property else d
      | d => d) = d := by
    intro par nodes; cases d <;> first | rfl | exact absurd rfl f2
  simp only [hc, hcomp, Bool.not_true, Bool.false_eq_true, if_false, dispatch, armUnaryPrefix, pushNode, f1, if_true,
    hnl, hmatch]
  congr 1
  simp [Array.size_push]

end Garnish.Spec
