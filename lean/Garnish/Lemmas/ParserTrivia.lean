/-
Trivia (Whitespace / Annotation / LineAnnotation tokens) around binary operators is invisible to the parser model:
  * `loop_trivia_then_atom`: any run of trivia tokens between an operator-like node and the value token that follows;
  * `loop_trivia_then_binop`: any run of trivia tokens between a value node and the binary operator that follows
    (whitespace there sets the list flag, which the operator's `parse_token` clears again).
Both are equalities of `loop` results for an arbitrary continuation, for any state that satisfies the stated conditions.
-/
import Garnish.Lemmas.ParserSteps

namespace Garnish.Model.Parser
open Garnish Garnish.Gen

theorem trivia_secdef {w : PToken} (hw : isTriviaTok w = true) :
    (getDefinition w.type).2 = .whitespace ∨ (getDefinition w.type).2 = .annotation := by
  unfold isTriviaTok at hw
  simp only [Bool.or_eq_true, beq_iff_eq] at hw
  rcases hw with (h | h) | h <;> rw [h] <;> simp [getDefinition]

theorem loop_underGroup_err {st : PState} {t : PToken} {rest : List PToken} {e : ErrClass}
    (hu : underGroupOf st = .err e) : loop st (t :: rest) = .err e := by
  simp only [loop]; unfold step; rw [hu]; rfl

/-! ### after an operator-like node -/

/-- any run of trivia between an operator-like node and a value token -/
theorem loop_trivia_then_atom (a : PToken) (post : List PToken) (ha : isAtomTok a = true) :
    ∀ (ws : List PToken) (st : PState), (∀ w ∈ ws, isTriviaTok w = true) → TrivOK st → st.checkForList = false →
      st.nextLastLeft = none → underGroupOf st = .ok none →
      checkComposition st.previousSecondDef (getDefinition a.type).2 false = true →
      loop st (ws ++ a :: post) = loop st (a :: post) := by
  intro ws
  induction ws with
  | nil => intro st _ _ _ _ _ _; rfl
  | cons w ws ih =>
    intro st hws ht hc hnl hcg hcomp
    have hw : isTriviaTok w = true := hws w (List.mem_cons_self ..)
    have hsa : (getDefinition a.type).2 = .value ∨ (getDefinition a.type).2 = .identifier := by
      unfold isAtomTok at ha
      simp only [Bool.and_eq_true, Bool.or_eq_true, beq_iff_eq] at ha
      exact ha.1
    have hcw : checkComposition (getDefinition w.type).2 (getDefinition a.type).2 false = true := by
      rcases trivia_secdef hw with h | h <;> rcases hsa with h' | h' <;> rw [h, h'] <;> rfl
    simp only [List.cons_append, loop]
    have he : (ws ++ a :: post).isEmpty = false := by cases ws <;> rfl
    rw [he, step_trivia st w false hw ht hnl, hcg]
    simp only [Outcome.bind]
    rw [ih { st with previousSecondDef := (getDefinition w.type).2, lastToken := w }
      (fun x hx => hws x (List.mem_cons_of_mem _ hx)) ht hc hnl hcg hcw]
    simp only [loop]
    rw [step_atom_indep st _ w a _ ha ht hc (by rw [hcw, hcomp])]
    rfl

/-! ### after a value node -/

/-- `last_left` is a value node (value-like, hence not a side effect) -/
def AtomOK (st : PState) : Prop :=
  ∃ i n, st.lastLeft = some i ∧ st.nodes[i]? = some n ∧ n.definition.isValueLike = true ∧
    (n.definition == Definition.sideEffect) = false

theorem adjustLastLeft_atomOK {st : PState} (h : AtomOK st) (ug : Option Nat) : adjustLastLeft st ug = .ok st := by
  obtain ⟨i, n, hl, hn, _, hs⟩ := h
  unfold adjustLastLeft
  simp [hl, hn, hs]

/-- a trivia token after a value node: whitespace sets the list flag, nothing else changes but
    `previous_second_def` and `last_token` -/
theorem step_trivia_atom (st : PState) (w : PToken) (il : Bool) (hw : isTriviaTok w = true) (ht : AtomOK st)
    (hnl : st.nextLastLeft = none) :
    step st w il = Outcome.bind (underGroupOf st) fun _ =>
      .ok { st with checkForList := (if w.type == .whitespace then true else st.checkForList),
                    previousSecondDef := (getDefinition w.type).2, lastToken := w } := by
  have hadj := adjustLastLeft_atomOK ht
  obtain ⟨i, n, hl, hn, hv, _⟩ := ht
  unfold step
  cases hu : underGroupOf st with
  | err e => rfl
  | panic s => rfl
  | fuelOut => rfl
  | ok ug =>
    simp only [Outcome.bind, hadj]
    unfold isTriviaTok at hw
    have hcases : w.type = .whitespace ∨ w.type = .annotation ∨ w.type = .lineAnnotation := by
      simp only [Bool.or_eq_true, beq_iff_eq] at hw
      rcases hw with (h | h) | h
      · exact Or.inl h
      · exact Or.inr (Or.inl h)
      · exact Or.inr (Or.inr h)
    rcases hcases with h | h | h
    · rw [h]
      simp only [getDefinition, (checkComposition_trivia _ _).1, Bool.not_true, Bool.false_eq_true, if_false, dispatch,
        setupSpaceListCheck, hl, hn, hv, Bool.true_or, if_true, Outcome.bind, pushNode, bne_self_eq_false]
      simp [hl, hnl]
    · rw [h]
      simp only [getDefinition, (checkComposition_trivia _ _).2, Bool.not_true, Bool.false_eq_true, if_false, dispatch,
        Outcome.bind, pushNode, bne_self_eq_false]
      simp [hl, hnl]
    · rw [h]
      simp only [getDefinition, (checkComposition_trivia _ _).2, Bool.not_true, Bool.false_eq_true, if_false, dispatch,
        Outcome.bind, pushNode, bne_self_eq_false]
      simp [hl, hnl]

/-- **a binary-operator token does not look at `check_for_list` or `last_token`**, and at `previous_second_def` only
    through the composition check -/
theorem step_binop_indep (st : PState) (c : Bool) (s : SecDef) (w o : PToken) (il : Bool) (ho : isBinopTok o = true)
    (ht : AtomOK st)
    (hcomp : checkComposition s (getDefinition o.type).2 c =
      checkComposition st.previousSecondDef (getDefinition o.type).2 st.checkForList) :
    step { st with checkForList := c, previousSecondDef := s, lastToken := w } o il = step st o il := by
  have ht2 : AtomOK { st with checkForList := c, previousSecondDef := s, lastToken := w } := ht
  unfold step
  have hu : underGroupOf { st with checkForList := c, previousSecondDef := s, lastToken := w } = underGroupOf st := rfl
  rw [hu]
  cases underGroupOf st with
  | err e => rfl
  | panic s => rfl
  | fuelOut => rfl
  | ok ug =>
    simp only [Outcome.bind, adjustLastLeft_atomOK ht, adjustLastLeft_atomOK ht2]
    unfold isBinopTok at ho
    generalize getDefinition o.type = ds at ho hcomp
    obtain ⟨d, so⟩ := ds
    simp only at ho hcomp ⊢
    rw [hcomp]
    split
    · rfl
    · have hso : so = .binaryLeftToRight ∨ so = .binaryRightToLeft := by
        simpa [Bool.or_eq_true, beq_iff_eq] using ho
      rcases hso with hso | hso <;> subst hso <;>
      · simp only [dispatch, parseTokenLeftToRight, parseTokenRightToLeft, parseTokenSt]
        cases parseToken st.nodes.size d st.lastLeft (if il = true then none else some (st.nodes.size + 1)) st.nodes ug _ with
        | err e => rfl
        | panic s => rfl
        | fuelOut => rfl
        | ok res =>
          obtain ⟨nodes', info⟩ := res
          simp only [Outcome.bind, pushNode]
          cases hdrop : (info.definition != Definition.drop) <;> cases hnl : st.nextLastLeft <;> simp [hnl]

theorem composition_trivia_binop (sw so : SecDef) (c : Bool) (hw : sw = .whitespace ∨ sw = .annotation)
    (ho : so = .binaryLeftToRight ∨ so = .binaryRightToLeft) : checkComposition sw so c = true := by
  rcases hw with rfl | rfl <;> rcases ho with rfl | rfl <;> cases c <;> rfl

/-- any run of trivia between a value node and a binary operator -/
theorem loop_trivia_then_binop (o : PToken) (post : List PToken) (ho : isBinopTok o = true) :
    ∀ (ws : List PToken) (st : PState), (∀ w ∈ ws, isTriviaTok w = true) → AtomOK st → st.nextLastLeft = none →
      underGroupOf st = .ok none →
      checkComposition st.previousSecondDef (getDefinition o.type).2 st.checkForList = true →
      loop st (ws ++ o :: post) = loop st (o :: post) := by
  intro ws
  induction ws with
  | nil => intro st _ _ _ _ _; rfl
  | cons w ws ih =>
    intro st hws ht hnl hcg hcomp
    have hw : isTriviaTok w = true := hws w (List.mem_cons_self ..)
    have hso : (getDefinition o.type).2 = .binaryLeftToRight ∨ (getDefinition o.type).2 = .binaryRightToLeft := by
      unfold isBinopTok at ho; simpa [Bool.or_eq_true, beq_iff_eq] using ho
    simp only [List.cons_append, loop]
    have he : (ws ++ o :: post).isEmpty = false := by cases ws <;> rfl
    rw [he, step_trivia_atom st w false hw ht hnl, hcg]
    simp only [Outcome.bind]
    have hcw : ∀ c, checkComposition (getDefinition w.type).2 (getDefinition o.type).2 c = true :=
      fun c => composition_trivia_binop _ _ c (trivia_secdef hw) hso
    rw [ih { st with checkForList := (if w.type == .whitespace then true else st.checkForList),
                     previousSecondDef := (getDefinition w.type).2, lastToken := w }
      (fun x hx => hws x (List.mem_cons_of_mem _ hx)) ht hnl hcg (hcw _)]
    simp only [loop]
    rw [step_binop_indep st _ _ w o _ ho ht (by rw [hcw, hcomp])]
    rfl

end Garnish.Model.Parser
