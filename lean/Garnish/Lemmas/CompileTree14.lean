/-
The tie between the two builder models (14): lists — the spine of `List` / `CommaList` nodes, the items counted at the top.
-/
import Garnish.Lemmas.CompileTree13
namespace Garnish.Abs.Tree
open Garnish Garnish.Gen Garnish.Spec Garnish.Abs Garnish.Model.Parser Garnish.Model.Literals Garnish.Model.Build

variable {F : Type}

theorem emitList_append (root cur : Nat) : ∀ (xs ys : List (Expr F)) (s : LState F),
    emitList root cur (xs ++ ys) s = emitList root cur ys (emitList root cur xs s)
  | [], ys, s => by simp [emitList]
  | x :: xs, ys, s => by simp only [List.cons_append, emitList]; exact emitList_append root cur xs ys _

variable (pf : List Char → Option F) (tree : Array ParseNode) (bodies : List (Nat × Expr F))

/-- a part of a list of definition `d` — an item, or an inner node of the spine — scheduled with the list node `top` as
its list parent: its items are emitted in order and counted at `top` -/
def SimPart (d : Definition) (lo hi c : Nat) (items : List (Expr F)) : Prop :=
  ∀ (crj root cur top : Nat) (data : BState F) (nodes : Nodes) (RS S : Array Nat) (s : LState F) (tb : BuildNode),
    nodes.size = tree.size → nodes[c]? = some (some (mkNode c cur (some (top, d)) Ex.none)) →
    (top < lo ∨ hi ≤ top) → nodes[top]? = some (some tb) → DataEq data s → cur < s.jumps.size →
    ∃ (k : Nat) (data' : BState F) (nodes' : Nodes) (RS' : Array Nat) (newR : List (RRec F)),
      Steps pf tree crj k ⟨data, nodes, RS, S.push c⟩ ⟨data', nodes', RS', S⟩ ∧ k + wsum newR ≤ 2 * (hi - lo) ∧
      DataEq data' (emitList root cur items s) ∧
      RS'.toList = RS.toList ++ (newR.map (·.idx)).reverse ∧
      (emitList root cur items s).pending = newR.map (·.root) ++ s.pending ∧
      Done pf tree bodies (Ival lo hi) (some (top, d)) tb items.length nodes nodes' newR

variable {pf tree bodies}

/-- an item that is not itself a `d`-list node -/
theorem SimPart.item {d : Definition} {lo hi c : Nat} {a : Expr F} (hnd : NotDef tree c d) (ih : SimT pf tree bodies lo hi c a) :
    SimPart pf tree bodies d lo hi c [a] := by
  intro crj root cur top data nodes RS S s tb hsz hc htop htb hdat hcur
  have pre : Pre tree nodes lo hi c cur (some (top, d)) Ex.none tb :=
    ⟨hsz, hc, fun par d' h => by cases h; exact ⟨htop, htb, hnd⟩, fun ⟨_, h⟩ => by cases h⟩
  obtain ⟨k, data', nodes', RS', newR, st, hk, hd, hrs, hp, done, _⟩ := ih crj root cur data nodes RS S s _ Ex.none tb pre hdat hcur
  exact ⟨k, data', nodes', RS', newR, st, hk, by simpa [emitList] using hd, hrs, by simpa [emitList] using hp, done⟩

theorem handleList_of_def {crj i : Nat} {pn : ParseNode} (hd : pn.definition = .list ∨ pn.definition = .commaList) (ctx : Ctx F) :
    handleParseNode pf ctx crj i pn = handleList ctx i pn := by
  rcases hd with hd | hd <;> simp only [handleParseNode, hd]

/-- the two parts below a node of the spine, both scheduled with `top` as list parent: left part, then right item -/
theorem items_children {d : Definition} {lo hi m l r : Nat} {itemsL : List (Expr F)} {b : Expr F}
    (hli : lo ≤ l ∧ l < m) (hri : m + 1 ≤ r ∧ r < hi)
    (ihl : SimPart pf tree bodies d lo m l itemsL) (ihr : SimPart pf tree bodies d (m + 1) hi r [b])
    (crj root cur top : Nat) (data : BState F) (A : Nodes) (RS S' : Array Nat) (s : LState F) (tb : BuildNode)
    (hsz : A.size = tree.size) (hAl : A[l]? = some (some (mkNode l cur (some (top, d)) Ex.none)))
    (hAr : A[r]? = some (some (mkNode r cur (some (top, d)) Ex.none)))
    (htop : (top < lo ∨ hi ≤ top) ∨ top = m) (htb : A[top]? = some (some tb)) (hdat : DataEq data s) (hcur : cur < s.jumps.size) :
    ∃ (k : Nat) (data' : BState F) (C : Nodes) (RS' : Array Nat) (newR : List (RRec F)),
      Steps pf tree crj k ⟨data, A, RS, (S'.push r).push l⟩ ⟨data', C, RS', S'⟩ ∧ k + wsum newR ≤ 2 * ((m - lo) + (hi - (m + 1))) ∧
      DataEq data' (emitList root cur (itemsL ++ [b]) s) ∧
      RS'.toList = RS.toList ++ (newR.map (·.idx)).reverse ∧
      (emitList root cur (itemsL ++ [b]) s).pending = newR.map (·.root) ++ s.pending ∧
      Done pf tree bodies (fun x => Ival lo m x ∨ Ival (m + 1) hi x) (some (top, d)) tb (itemsL.length + 1) A C newR := by
  have ht1 : top < lo ∨ m ≤ top := by omega
  have ht2 : top < m + 1 ∨ hi ≤ top := by omega
  obtain ⟨k1, data1, B, RS1, R1, stB, hk1, hd1, hrs1, hp1, done1⟩ :=
    ihl crj root cur top data A RS (S'.push r) s tb hsz hAl ht1 htb hdat hcur
  have hj1 : cur < (emitList root cur itemsL s).jumps.size := by
    have := (emitList_pre root cur itemsL s hcur).1.jsize; omega
  have hBr : B[r]? = some (some (mkNode r cur (some (top, d)) Ex.none)) := by
    rw [done1.frame r (by simp only [Ival]; omega) (fun par d' h => by cases h; omega)]; exact hAr
  obtain ⟨k2, data2, C, RS2, R2, stC, hk2, hd2, hrs2, hp2, done2⟩ :=
    ihr crj root cur top data1 B RS1 S' _ _ (by rw [done1.size, hsz]) hBr ht2 (done1.parent top d rfl) hd1 hj1
  refine ⟨k1 + k2, data2, C, RS2, R2 ++ R1, stB.trans stC, (by simp only [wsum_nil, wsum_append, wsum_cons] at *; omega), ?_, ?_, ?_, ?_⟩
  · rw [emitList_append]; exact hd2
  · rw [hrs2, hrs1]; simp
  · rw [emitList_append, hp2, hp1]; simp
  · exact done1.transP done2 (fun y h1 h2 => by simp only [Ival] at h1 h2; omega)
      ⟨by simp only [Ival]; omega, by simp only [Ival]; omega⟩

/-- an inner node of the spine -/
theorem SimPart.spine {d : Definition} {lo hi m l r : Nat} {itemsL : List (Expr F)} {b : Expr F} {pn : ParseNode}
    (hpn : tree[m]? = some pn) (hd : pn.definition = d) (hdl : d = .list ∨ d = .commaList)
    (hl : pn.left = some l) (hr : pn.right = some r) (hli : lo ≤ l ∧ l < m) (hri : m + 1 ≤ r ∧ r < hi)
    (hlt : l < tree.size) (hrt : r < tree.size)
    (ihl : SimPart pf tree bodies d lo m l itemsL) (ihr : SimPart pf tree bodies d (m + 1) hi r [b]) :
    SimPart pf tree bodies d lo hi m (itemsL ++ [b]) := by
  intro crj root cur top data nodes RS S s tb hsz hm htop htb hdat hcur
  have hmlt : m < nodes.size := lt_of_get hm
  have hllt : l < nodes.size := by rw [hsz]; exact hlt
  have hrlt : r < nodes.size := by rw [hsz]; exact hrt
  have hh : ∀ ctx : Ctx F, handleParseNode pf ctx crj m pn = handleList ctx m pn :=
    fun ctx => handleList_of_def (by rw [hd]; exact hdl) ctx
  -- first visit: the node does not count, its children get `top` as list parent
  generalize hb1 : ({ mkNode m cur (some (top, d)) Ex.none with state := .initialized, contributesToList := false } : BuildNode) = b1
  obtain ⟨e1, e2, e3, e4, e5⟩ := three_puts b1 (mkNode l cur (some (top, d)) Ex.none) (mkNode r cur (some (top, d)) Ex.none)
    hmlt hllt hrlt (by omega) (by omega) (by omega : l ≠ r)
  generalize hA : putNode (putNode (putNode nodes m b1) r (mkNode r cur (some (top, d)) Ex.none)) l
    (mkNode l cur (some (top, d)) Ex.none) = A at e1 e2 e3 e4 e5
  have hhF : handleParseNode pf ⟨data, nodes, RS, S⟩ crj m pn = .ok ⟨data, A, RS, ((S.push m).push r).push l⟩ := by
    rw [hh]
    simp only [handleList, getNode, hm, Outcome.bind, hl, hr]
    rw [show (mkNode m cur (some (top, d)) Ex.none).state = .uninitialized from rfl,
      show (mkNode m cur (some (top, d)) Ex.none).listParent = some (top, d) from rfl]
    simp only [hd, beq_self_eq_true, if_true]
    rw [setNodeIdx_ok (by simpa using hrlt)]
    simp only []
    rw [setNodeIdx_ok (by simpa using hllt), ← hA, ← hb1]
    rfl
  have st1 : Steps pf tree crj 1 ⟨data, nodes, RS, S.push m⟩ ⟨data, A, RS, ((S.push m).push r).push l⟩ :=
    Steps.one hpn hhF (afterHandle_id e2 (.inl (by rw [← hb1])))
  have hAtop : A[top]? = some (some tb) := by rw [e5 top (by omega) (by omega) (by omega)]; exact htb
  obtain ⟨k, data', C, RS', newR, stC, hk, hd', hrs, hp, done⟩ :=
    items_children hli hri ihl ihr crj root cur top data A RS (S.push m) s tb (by rw [e1, hsz]) e3 e4 (.inl htop) hAtop hdat hcur
  -- second visit: nothing
  have hCm : C[m]? = some (some b1) := by
    rw [done.frame m (fun h => by simp only [Ival] at h; omega) (fun par d' h => by cases h; omega)]; exact e2
  have hhZ : handleParseNode pf ⟨data', C, RS', S⟩ crj m pn = .ok ⟨data', C, RS', S⟩ := by
    rw [hh]
    simp only [handleList, getNode, hCm, Outcome.bind]
    rw [← hb1]
    simp only [mkNode, hd, beq_self_eq_true, if_true]
  have st2 : Steps pf tree crj 1 ⟨data', C, RS', S.push m⟩ ⟨data', C, RS', S⟩ :=
    Steps.one hpn hhZ (afterHandle_id hCm (.inl (by rw [← hb1])))
  refine ⟨1 + k + 1, data', C, RS', newR, (st1.trans stC).trans st2, (by omega), hd', hrs, hp, ?_⟩
  have := (done.wrapP (m := m) (N := nodes) e1 (fun x h1 h2 => ?_) ⟨_, e2⟩ (fun h => by simp only [Ival] at h; omega)
    (by omega)).cong (ival_split lo hi m ⟨by omega, by omega⟩)
  · simpa using this
  · exact e5 x h1 (fun e => h2 (.inl (by subst e; exact hli))) (fun e => h2 (.inr (by subst e; exact hri)))

/-- **the list node at the top of the spine**: schedules its parts with itself as list parent, and at its second visit
emits `MakeList` with the number of items that have counted themselves -/
theorem sim_list {d : Definition} {lo hi i l r : Nat} {itemsL : List (Expr F)} {b : Expr F} {pn : ParseNode}
    (hpn : tree[i]? = some pn) (hd : pn.definition = d) (hdl : d = .list ∨ d = .commaList)
    (hl : pn.left = some l) (hr : pn.right = some r) (hli : lo ≤ l ∧ l < i) (hri : i + 1 ≤ r ∧ r < hi)
    (hlt : l < tree.size) (hrt : r < tree.size)
    (ihl : SimPart pf tree bodies d lo i l itemsL) (ihr : SimPart pf tree bodies d (i + 1) hi r [b]) :
    SimT pf tree bodies lo hi i (.list (itemsL ++ [b])) := by
  intro crj root cur data nodes RS S s lp cp pbn pre hdat hcur
  have hilt : i < nodes.size := lt_of_get pre.node
  have hllt : l < nodes.size := by rw [pre.size]; exact hlt
  have hrlt : r < nodes.size := by rw [pre.size]; exact hrt
  have hne : ∀ par d', lp = some (par, d') → par ≠ i ∧ par ≠ l ∧ par ≠ r := fun par d' h => by
    have := (pre.par par d' h).1; exact ⟨by omega, by omega, by omega⟩
  have hh : ∀ ctx : Ctx F, handleParseNode pf ctx crj i pn = handleList ctx i pn :=
    fun ctx => handleList_of_def (by rw [hd]; exact hdl) ctx
  -- the outer list parent (if any) is a list of another kind
  have hsame : ∀ par d', lp = some (par, d') → (d' == pn.definition) = false := fun par d' h => by
    have := (pre.par par d' h).2.2 pn hpn
    simp only [beq_eq_false_iff_ne]
    exact fun e => this e.symm
  -- first visit
  obtain ⟨e1, e2, e3, e4, e5⟩ := three_puts (visited (mkNode i cur lp cp)) (mkNode l cur (some (i, d)) Ex.none)
    (mkNode r cur (some (i, d)) Ex.none) hilt hllt hrlt (by omega) (by omega) (by omega : l ≠ r)
  generalize hH : putNode (putNode (putNode nodes i (visited (mkNode i cur lp cp))) r (mkNode r cur (some (i, d)) Ex.none)) l
    (mkNode l cur (some (i, d)) Ex.none) = nodesH at e1 e2 e3 e4 e5
  have hhF : handleParseNode pf ⟨data, nodes, RS, S⟩ crj i pn = .ok ⟨data, nodesH, RS, ((S.push i).push r).push l⟩ := by
    rw [hh]
    simp only [handleList, getNode, pre.node, Outcome.bind, hl, hr]
    cases hlp : lp with
    | none =>
      simp only [mkNode, BuildNode.new]
      rw [setNodeIdx_ok (by simpa using hrlt)]
      simp only []
      rw [setNodeIdx_ok (by simpa using hllt), ← hH, hd, hlp]
      rfl
    | some pd =>
      obtain ⟨par, d'⟩ := pd
      have hs := hsame par d' hlp
      simp only [mkNode, BuildNode.new, hs, Bool.false_eq_true, if_false]
      rw [setNodeIdx_ok (by simpa using hrlt)]
      simp only []
      rw [setNodeIdx_ok (by simpa using hllt), ← hH, hd, hlp]
      rfl
  have st1 := first_visit (pf := pf) (crj := crj) (data := data) (RS := RS) (S := S) pre ⟨by omega, by omega⟩ hpn hhF e2
    (fun par d' h => e5 par (hne par d' h).1 (hne par d' h).2.1 (hne par d' h).2.2)
  generalize hA : counted nodesH i (visited (mkNode i cur lp cp)) lp pbn = A at st1
  have hAi : A[i]? = some (some (node1 i cur lp cp)) := by rw [← hA]; exact counted_node e2 (fun p d' h => (hne p d' h).1)
  have hAo : ∀ y, y ≠ i → (∀ par d', lp = some (par, d') → y ≠ par) → A[y]? = nodesH[y]? := fun y h1 h2 => by
    rw [← hA]; exact counted_other h1 h2
  have hAsz : A.size = nodes.size := by rw [← hA, counted_size, e1]
  -- the parts
  obtain ⟨k, data', C, RS', newR, stC, hk, hd', hrs, hp, done⟩ :=
    items_children hli hri ihl ihr crj root cur i data A RS (S.push i) s (node1 i cur lp cp) (by rw [hAsz, pre.size])
      (by rw [hAo l (by omega) (fun p d' h => Ne.symm (hne p d' h).2.1), e3])
      (by rw [hAo r (by omega) (fun p d' h => Ne.symm (hne p d' h).2.2), e4]) (.inr rfl) hAi hdat hcur
  -- second visit: `MakeList`
  have hCi := done.parent i d rfl
  have hCsz : C.size = nodes.size := by rw [done.size, hAsz]
  generalize hbz : ({ node1 i cur lp cp with childCount := (node1 i cur lp cp).childCount + (itemsL.length + 1) } : BuildNode) = bz at hCi
  have hhZ : handleParseNode pf ⟨data', C, RS', S⟩ crj i pn =
      .ok ⟨pushInstr data' .makeList (some (itemsL.length + 1)) (some i), putNode C i { bz with childCount := bz.childCount + 1 }, RS', S⟩ := by
    rw [hh]
    simp only [handleList, getNode, hCi, Outcome.bind]
    rw [← hbz]
    cases hlp : lp with
    | none => simp only [node1, mkNode, BuildNode.new, Bool.false_eq_true, if_false, Nat.zero_add]
    | some pd =>
      obtain ⟨par, d'⟩ := pd
      simp only [node1, mkNode, BuildNode.new, hsame par d' hlp, Bool.false_eq_true, if_false, Nat.zero_add]
  generalize hZ : putNode C i { bz with childCount := bz.childCount + 1 } = Z at hhZ
  have hZi : Z[i]? = some (some { bz with childCount := bz.childCount + 1 }) := by
    rw [← hZ, get_putNode_same (by rw [hCsz]; exact hilt)]
  have st2 := second_visit (lp := lp) (crj := crj) hpn hhZ hZi (by rw [← hbz]; rfl) (by rw [← hbz]; rfl)
  refine ⟨1 + k + 1, _, Z, RS', newR, (st1.trans stC).trans st2, by omega, ?_, hrs, ?_, ?_,
    ⟨_, hZi, by rw [← hbz]; rfl⟩⟩
  · simp only [emit]
    have := hd'.push .makeList (some (itemsL.length + 1)) (some i)
    simpa using this
  · simp only [emit]; exact hp
  · have hZo : ∀ y, y ≠ i → Z[y]? = C[y]? := fun y h => by rw [← hZ, get_putNode_ne (Ne.symm h)]
    refine ⟨by rw [← hZ]; simp [hCsz], fun x hx hpx => ?_, fun par d' h => ?_, fun q hq => ?_, fun x hx => ?_, done.disj⟩
    · have h1 : x ≠ i := fun e => hx (by subst e; exact ⟨by omega, by omega⟩)
      have h2 : x ≠ l := fun e => hx (by subst e; exact ⟨by omega, by omega⟩)
      have h3 : x ≠ r := fun e => hx (by subst e; exact ⟨by omega, by omega⟩)
      rw [hZo x h1, done.frame x (fun h => hx (by simp only [Ival] at h ⊢; omega)) (fun _ _ h => by cases h; exact h1),
        hAo x h1 hpx, e5 x h1 h2 h3]
    · subst h
      have := (pre.par par d' rfl).1
      rw [hZo par (hne par d' rfl).1, done.frame par (fun h => by simp only [Ival] at h; omega)
        (fun _ _ h => by cases h; exact (hne par d' rfl).1), ← hA]
      refine counted_parent ?_
      rw [e5 par (hne par d' rfl).1 (hne par d' rfl).2.1 (hne par d' rfl).2.2]
      exact (pre.par par d' rfl).2.1
    · obtain ⟨a, b', c', d', e'⟩ := done.roots q hq
      refine ⟨fun x h1 h2 => by have := a x h1 h2; simp only [Ival] at this ⊢; omega, b', c', ?_, e'⟩
      rw [hZo q.idx (by have := a _ b' c'; simp only [Ival] at this; omega)]
      exact d'
    · by_cases hxi : x = i
      · subst hxi; exact .inl ⟨_, hZi⟩
      · rcases done.cover x (by simp only [Ival] at hx ⊢; omega) with ⟨b', hb'⟩ | h
        · exact .inl ⟨b', by rw [hZo x hxi]; exact hb'⟩
        · exact .inr h

end Garnish.Abs.Tree
