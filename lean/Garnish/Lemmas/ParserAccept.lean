/-
Acceptance: in the situations of the operator fragment `parse_token` and `step` do return `.ok`
(every index they touch is in range, every priority lookup succeeds, the capped walks end), and so does the root walk of
`finish` on a node array that represents a tree.
-/
import Garnish.Lemmas.ParserFrag5

namespace Garnish.Model.Parser
open Garnish Garnish.Gen

theorem modifyNode?_isSome {a : Array ParseNode} {i : Nat} (f : ParseNode → ParseNode) (h : i < a.size) :
    ∃ a', modifyNode? a i f = some a' := by
  unfold modifyNode?
  simp [h]

theorem parseToken_first_ok {id q : Nat} {d : Definition} {right : Option Nat} {nodes : Array ParseNode}
    {ug : Option Nat} {rtl : Bool} (hq : priority d = some q) :
    ∃ nodes' info, parseToken id d none right nodes ug rtl = .ok (nodes', info) := by
  unfold parseToken
  rw [hq]
  unfold walkLoop
  exact ⟨_, _, rfl⟩

theorem parseToken_root_ok {id q rt : Nat} {d : Definition} {left right : Option Nat} {nodes : Array ParseNode}
    {ug : Option Nat} {rtl : Bool} (hq : priority d = some q)
    (hw : walkLoop nodes q ug rtl (nodes.size + 1) 0 left left = .ok (some rt, none)) (hrt : rt < nodes.size) :
    ∃ nodes' info, parseToken id d left right nodes ug rtl = .ok (nodes', info) := by
  obtain ⟨n1, h1⟩ := modifyNode?_isSome (fun node => { node with parent := some id }) hrt
  unfold parseToken
  rw [hq]
  simp only [hw, Outcome.bind]
  have hne : ((none : Option Nat) == some rt) = false := rfl
  simp only [hne, Bool.false_eq_true, if_false, h1]
  exact ⟨_, _, rfl⟩

theorem parseToken_stop_ok {id q tlv x : Nat} {d : Definition} {left right : Option Nat} {nodes : Array ParseNode}
    {ug : Option Nat} {rtl : Bool} {nx : ParseNode} (hq : priority d = some q)
    (hw : walkLoop nodes q ug rtl (nodes.size + 1) 0 left left = .ok (some tlv, some x)) (hne : tlv ≠ x)
    (hx : nodes[x]? = some nx) (hxr : nx.right = some tlv) (htl : tlv < nodes.size) :
    ∃ nodes' info, parseToken id d left right nodes ug rtl = .ok (nodes', info) := by
  have hxs : x < nodes.size := (Array.getElem?_eq_some_iff.mp hx).1
  obtain ⟨n1, h1⟩ := modifyNode?_isSome (fun node => { node with parent := some id }) htl
  have s1 := modifyNode?_size h1
  have g1 := modifyNode?_get h1
  have hx1 : n1[x]? = some nx := by rw [g1 x, if_neg (fun e => hne e.symm)]; exact hx
  obtain ⟨n2, h2⟩ := modifyNode?_isSome (a := n1) (i := x) (fun p => { p with right := some id }) (by omega)
  have s2 := modifyNode?_size h2
  obtain ⟨n3, h3⟩ := modifyNode?_isSome (a := n2) (i := tlv) (fun node => { node with parent := some id }) (by omega)
  unfold parseToken
  rw [hq]
  simp only [hw, Outcome.bind]
  have hne' : ((some x : Option Nat) == some tlv) = false := by
    rw [beq_eq_false_iff_ne]; intro e; injection e with e; exact hne e.symm
  simp only [hne', Bool.false_eq_true, if_false, h1, hx1, h2, hxr, h3]
  exact ⟨_, _, rfl⟩

theorem parseToken_atom_ok {m qo : Nat} {d : Definition} {right : Option Nat} {nodes : Array ParseNode}
    {rtl : Bool} {on : ParseNode} (hq : priority d = some 10) (hm : nodes[m]? = some on)
    (hqo : priority on.definition = some qo) (hlt : 10 < qo) (hor : on.right = some nodes.size) :
    ∃ nodes' info, parseToken nodes.size d (some m) right nodes none rtl = .ok (nodes', info) := by
  have hms : m < nodes.size := (Array.getElem?_eq_some_iff.mp hm).1
  obtain ⟨n2, h2⟩ := modifyNode?_isSome (fun p => { p with right := some nodes.size }) hms
  have s2 := modifyNode?_size h2
  have hw : walkLoop nodes 10 none rtl (nodes.size + 1) 0 (some m) (some m) = .ok (some m, some m) := by
    unfold walkLoop
    simp [hm, hqo, hlt]
  unfold parseToken
  rw [hq]
  simp only [hw, Outcome.bind, beq_self_eq_true, if_true, hm, h2, hor]
  rw [modifyNode?_none (by omega)]
  exact ⟨_, _, rfl⟩

/-- a binary-operator step succeeds as soon as its `parse_token` does -/
theorem step_binop_ok (st : PState) (o : PToken) (ho : isBinopTok o = true) (hcg : st.currentGroup = none)
    (hadj : adjustLastLeft st none = .ok st)
    (hcomp : checkComposition st.previousSecondDef (getDefinition o.type).2 st.checkForList = true)
    (hpt : ∃ nodes' info, parseToken st.nodes.size (getDefinition o.type).1 st.lastLeft (some (st.nodes.size + 1)) st.nodes none
        ((getDefinition o.type).2 == .binaryRightToLeft) = .ok (nodes', info)) :
    ∃ st1, step st o false = .ok st1 := by
  obtain ⟨nodes', info, hpt⟩ := hpt
  unfold step
  have hu : underGroupOf st = .ok none := by simp [underGroupOf, hcg]
  simp only [hu, hadj, Outcome.bind]
  unfold isBinopTok at ho
  generalize getDefinition o.type = ds at ho hcomp hpt ⊢
  obtain ⟨d, so⟩ := ds
  simp only at ho hcomp hpt ⊢
  have hso : so = .binaryLeftToRight ∨ so = .binaryRightToLeft := by
    simpa [Bool.or_eq_true, beq_iff_eq] using ho
  simp only [hcomp, Bool.not_true, Bool.false_eq_true, if_false]
  rcases hso with hso | hso
  · subst hso
    have e : (SecDef.binaryLeftToRight == SecDef.binaryRightToLeft) = false := rfl
    rw [e] at hpt
    simp only [dispatch, parseTokenLeftToRight, parseTokenSt, hpt, Outcome.bind]
    exact ⟨_, rfl⟩
  · subst hso
    have e : (SecDef.binaryRightToLeft == SecDef.binaryRightToLeft) = true := rfl
    rw [e] at hpt
    simp only [dispatch, parseTokenRightToLeft, parseTokenSt, hpt, Outcome.bind]
    exact ⟨_, rfl⟩

/-- a value step (list flag clear) succeeds as soon as its `parse_token` does -/
theorem step_atom_ok (st : PState) (a : PToken) (il : Bool)
    (hs : (getDefinition a.type).2 = .value ∨ (getDefinition a.type).2 = .identifier)
    (hc : st.checkForList = false) (hcg : st.currentGroup = none) (hadj : adjustLastLeft st none = .ok st)
    (hcomp : checkComposition st.previousSecondDef (getDefinition a.type).2 false = true)
    (hpt : ∃ nodes' info, parseToken st.nodes.size (getDefinition a.type).1 st.lastLeft none st.nodes none false =
        .ok (nodes', info)) :
    ∃ st1, step st a il = .ok st1 := by
  obtain ⟨nodes', info, hpt⟩ := hpt
  unfold step
  have hu : underGroupOf st = .ok none := by simp [underGroupOf, hcg]
  simp only [hu, hadj, Outcome.bind]
  generalize getDefinition a.type = ds at hs hcomp hpt ⊢
  obtain ⟨d, sa⟩ := ds
  simp only at hs hcomp hpt ⊢
  simp only [hc, hcomp, Bool.not_true, Bool.false_eq_true, if_false]
  rcases hs with hs | hs <;> subst hs <;>
  · simp only [dispatch, parseValueLike, hc, Bool.false_eq_true, if_false, parseTokenLeftToRight, parseTokenSt, hpt]
    exact ⟨_, rfl⟩

end Garnish.Model.Parser

namespace Garnish.Spec
open Garnish Garnish.Gen Garnish.Model.Parser

/-- climbing from a node of the tree reaches the root within `depth` steps, so the capped root walk of `finish` succeeds -/
theorem rootLoop_climb {nodes : Array ParseNode} {p link : Option Nat} {t : Tree} (h : IsTreeAt nodes p link t) :
    ∀ i ni, link = some i → nodes[i]? = some ni → ∀ x nx, x ∈ t.inorder → nodes[x]? = some nx →
      ∃ d, d + 1 ≤ t.depth ∧ ∀ fuel count, d ≤ fuel → count + d ≤ nodes.size →
        rootLoop nodes fuel count x nx = rootLoop nodes (fuel - d) (count + d) i ni := by
  induction h with
  | nil p => intro i ni hi; cases hi
  | node p i nd l r hn hpar hl hr ihl ihr =>
    intro i' ni hi' hni x nx hx hnx
    injection hi' with hi'; subst hi'
    rw [hn] at hni; injection hni with hni; subst hni
    simp only [Tree.inorder, List.mem_append, List.mem_cons] at hx
    have climb : ∀ (sub : Tree) (ci : Nat), IsTreeAt nodes (some i) (some ci) sub → sub.depth ≤ max l.depth r.depth →
        (∀ cn, nodes[ci]? = some cn → ∃ d, d + 1 ≤ sub.depth ∧ ∀ fuel count, d ≤ fuel → count + d ≤ nodes.size →
          rootLoop nodes fuel count x nx = rootLoop nodes (fuel - d) (count + d) ci cn) →
        ∃ d, d + 1 ≤ (Tree.node l i (tokPos nd) r).depth ∧ ∀ fuel count, d ≤ fuel → count + d ≤ nodes.size →
          rootLoop nodes fuel count x nx = rootLoop nodes (fuel - d) (count + d) i nd := by
      intro sub ci hsub hdep hrec
      cases hsub with
      | node _ _ cn sl sr hcn hcp _ _ =>
        obtain ⟨d, hd, hclimb⟩ := hrec cn hcn
        refine ⟨d + 1, by simp only [Tree.depth]; omega, ?_⟩
        intro fuel count hf hc
        rw [hclimb fuel count (by omega) (by omega)]
        have hfd : fuel - d = (fuel - d - 1) + 1 := by omega
        rw [hfd]
        conv => lhs; unfold rootLoop
        simp only [hcp, hn]
        have hle : ¬ (count + d + 1 > nodes.size) := by omega
        simp only [hle, if_false]
        have e1 : fuel - d - 1 = fuel - (d + 1) := by omega
        have e2 : count + d + 1 = count + (d + 1) := by omega
        rw [e1, e2]
    rcases hx with hx | hx | hx
    · cases hll : nd.left with
      | none => rw [hll] at hl; cases hl; simp [Tree.inorder] at hx
      | some li =>
        rw [hll] at hl
        exact climb l li hl (Nat.le_max_left _ _) (fun cn hcn => ihl li cn hll hcn x nx hx hnx)
    · subst hx
      rw [hn] at hnx; injection hnx with hnx; subst hnx
      exact ⟨0, by simp [Tree.depth], fun fuel count _ _ => by simp⟩
    · cases hrl : nd.right with
      | none => rw [hrl] at hr; cases hr; simp [Tree.inorder] at hx
      | some ri =>
        rw [hrl] at hr
        exact climb r ri hr (Nat.le_max_right _ _) (fun cn hcn => ihr ri cn hrl hcn x nx hx hnx)

theorem rootLoop_ok {nodes : Array ParseNode} {rt : Nat} {t : Tree} (h : IsTreeAt nodes none (some rt) t)
    (hnd : t.inorder.Nodup) (x : Nat) (nx : ParseNode) (hx : x ∈ t.inorder) (hnx : nodes[x]? = some nx) :
    rootLoop nodes (nodes.size + 1) 0 x nx = .ok rt := by
  cases h with
  | node _ _ nrt l r hn hp hl hr =>
    have h' : IsTreeAt nodes none (some rt) (.node l rt (tokPos nrt) r) := .node none rt nrt l r hn hp hl hr
    obtain ⟨d, hd, hclimb⟩ := rootLoop_climb h' rt nrt rfl hn x nx hx hnx
    have hsz : (Tree.node l rt (tokPos nrt) r).depth ≤ nodes.size :=
      Nat.le_trans (Tree.depth_le_size _) (h'.size_le hnd)
    rw [hclimb (nodes.size + 1) 0 (by omega) (by omega)]
    have : nodes.size + 1 - d = (nodes.size - d) + 1 := by omega
    rw [this]
    unfold rootLoop
    simp [hp]

/-- the final checks of `parse` succeed on a state that satisfies the invariant -/
theorem finish_ok {stF : PState} {TF : Tree} {rtF : Nat} (hinvF : FragInv stF TF rtF) : ∃ r, finish stF = .ok r := by
  have hnd : TF.inorder.Nodup := by rw [hinvF.inord]; exact List.nodup_range
  have h0mem : 0 ∈ TF.inorder := by rw [hinvF.inord]; exact List.mem_range.mpr hinvF.pos
  have hsome : ∃ nd0, stF.nodes[0]? = some nd0 := by
    cases hnd0 : stF.nodes[0]? with
    | none => rw [Array.getElem?_eq_none_iff] at hnd0; have := hinvF.pos; omega
    | some nd => exact ⟨nd, rfl⟩
  obtain ⟨nd0, hnd0⟩ := hsome
  have hne : stF.nodes.isEmpty = false := by
    have := hinvF.pos
    cases hsz : stF.nodes.isEmpty with
    | false => rfl
    | true =>
      have h2 : stF.nodes = #[] := by simpa using hsz
      rw [h2] at this; simp at this
  unfold finish
  rw [hinvF.cfl, composition_final _ hinvF.prev, hinvF.gs]
  simp only [Bool.not_true, Bool.false_eq_true, if_false, hne,
    show (#[] : Array (Nat × Bool)).isEmpty = true from rfl, hnd0, rootLoop_ok hinvF.tree hnd 0 nd0 h0mem hnd0,
    Outcome.bind]
  exact ⟨_, rfl⟩

end Garnish.Spec
