/-
C04, builder half — sibling order, part 6: the two-visit handlers keep the order invariant.
-/
import Garnish.Lemmas.BuildOrder5
import Garnish.Lemmas.BuildAttr4
namespace Garnish.Lemmas.BuildOrder
open Garnish Garnish.Gen Garnish.Model.Parser Garnish.Model.Literals Garnish.Model.Build Garnish.Lemmas.Build
open Garnish.Lemmas.BuildTotal
open Garnish.Lemmas.BuildAttr (getNode_sat_eq setNodeIdx_sat_eq AddMeta)

variable {F : Type} {root : Nat} {tree : Array ParseNode} {G : Nat → Prop} {m0 : Nat}

theorem notB {d : Definition} {P : Prop} (hnb : isB d = false) : isB d = true → P := fun h => by rw [hnb] at h; cases h

/-- `Above` on explicit lists -/
macro "above_tac" : tactic => `(tactic| (
  first
    | exact ⟨[], _, rfl, by simp⟩
    | exact ⟨[_], _, rfl, by simp⟩
    | exact ⟨[_, _], _, rfl, by simp⟩))

/-- `∀ m ∈ [..], m = none ∨ m = some ni` on explicit lists -/
macro "hl_tac" : tactic => `(tactic| (
  intro m hm
  simp only [List.mem_cons, List.mem_nil_iff, or_false] at hm
  first
    | (rcases hm with e | e <;> subst e <;> first | exact Or.inl rfl | exact Or.inr rfl)
    | (subst hm; first | exact Or.inl rfl | exact Or.inr rfl)))

/-- every assigned node other than the visited one is `Uninitialized` -/
macro "asgu_tac" : tactic => `(tactic| (
  intro q hq
  simp only [List.mem_cons, List.mem_nil_iff, or_false] at hq
  first
    | (rcases hq with h | h | h <;> subst h <;> first | exact Or.inl rfl | exact Or.inr rfl)
    | (rcases hq with h | h <;> subst h <;> first | exact Or.inl rfl | exact Or.inr rfl)
    | (subst hq; first | exact Or.inl rfl | exact Or.inr rfl)))

macro "asgall_one" : tactic => `(tactic| (
  first
    | exact ⟨_, List.mem_cons_self⟩
    | exact ⟨_, List.mem_cons_of_mem _ List.mem_cons_self⟩
    | exact ⟨_, List.mem_cons_of_mem _ (List.mem_cons_of_mem _ List.mem_cons_self)⟩))

/-- every scheduled child is assigned -/
macro "asgall_tac" : tactic => `(tactic| (
  intro c hc
  simp only [List.mem_cons, List.mem_nil_iff, or_false] at hc
  first
    | (rcases hc with h | h <;> subst h <;> asgall_one)
    | (subst hc; asgall_one)
    | (cases hc)))

section pre
variable {ph : Nat → Phase} {ctx : Ctx F} {ni : Nat} {pn : ParseNode}

/-- the inline-node obligations of a first visit that schedules both operands -/
theorem PreO.hB_two (p : PreO root tree G m0 ph ctx ni pn) {l r : Nat} (hl : pn.left = some l) (hr : pn.right = some r)
    (sw : Bool) (hsw : sw = true ↔ inlineBinary pn.definition = some true) (L : List (Option Nat)) (hL : ∀ m, m ∈ L → m = none) :
    (∀ c, BChild tree ni c → c ∈ [r, l] ∧ Above (if sw then [ni, l, r] else [ni, r, l]) c ni) ∧
    (∀ a b, Ordered tree ni a b → Above (if sw then [ni, l, r] else [ni, r, l]) a b) ∧ (∀ m, m ∈ L → m = none) := by
  refine ⟨fun c hc => ?_, fun a b hab => ?_, hL⟩
  · obtain ⟨pn', h1, _, h3⟩ := hc
    rw [p.pre.hpn] at h1; cases h1
    rcases h3 with h3 | h3
    · rw [hl] at h3; cases h3
      refine ⟨by simp, ?_⟩
      cases sw
      · exact ⟨[], _, rfl, by simp⟩
      · exact ⟨[], _, rfl, by simp⟩
    · rw [hr] at h3; cases h3
      refine ⟨by simp, ?_⟩
      cases sw
      · exact ⟨[], _, rfl, by simp⟩
      · exact ⟨[], _, rfl, by simp⟩
  · obtain ⟨pn', h1, _, h3⟩ := hab
    rw [p.pre.hpn] at h1; cases h1
    rcases h3 with ⟨h4, h5, h6⟩ | ⟨h4, h5, h6⟩
    · rw [hr] at h5; cases h5
      rw [hl] at h6; cases h6
      have : sw = true := hsw.2 h4
      subst this
      exact ⟨[ni], _, rfl, by simp⟩
    · rw [hl] at h5; cases h5
      rw [hr] at h6; cases h6
      have : sw = false := by
        cases sw
        · rfl
        · exact absurd (hsw.1 rfl) h4
      subst this
      exact ⟨[ni], _, rfl, by simp⟩

/-- the inline-node obligations of a first visit of a node with at most one operand -/
theorem PreO.hB_le_one (p : PreO root tree G m0 ph ctx ni pn) (cs : List Nat) (hlr : pn.left = none ∨ pn.right = none)
    (hcs : ∀ c, pn.left = some c ∨ pn.right = some c → c ∈ cs) (suf : List Nat) (hsuf : suf = ni :: cs)
    (L : List (Option Nat)) (hL : ∀ m, m ∈ L → m = none) :
    (∀ c, BChild tree ni c → c ∈ cs ∧ Above suf c ni) ∧
    (∀ a b, Ordered tree ni a b → Above suf a b) ∧ (∀ m, m ∈ L → m = none) := by
  subst hsuf
  refine ⟨fun c hc => ?_, fun a b hab => ?_, hL⟩
  · obtain ⟨pn', h1, _, h3⟩ := hc
    rw [p.pre.hpn] at h1; cases h1
    exact ⟨hcs c h3, [], _, rfl, hcs c h3⟩
  · obtain ⟨pn', h1, _, h3⟩ := hab
    rw [p.pre.hpn] at h1; cases h1
    rcases h3 with ⟨_, h5, h6⟩ | ⟨_, h5, h6⟩ <;> rcases hlr with h | h
    · rw [h] at h6; cases h6
    · rw [h] at h5; cases h5
    · rw [h] at h5; cases h5
    · rw [h] at h6; cases h6

theorem handleUnaryPrefix_ord (p : PreO root tree G m0 ph ctx ni pn)
    (hd : pn.definition ≠ .group ∧ pn.definition ≠ .nestedExpression) (hnl : isLate pn.definition = false)
    (hnb : isB pn.definition = false) (ins : Instruction) :
    Sat (PostO root tree G m0 ph) (handleUnaryPrefix ins ctx ni pn) := by
  unfold handleUnaryPrefix
  refine sat_bind (getNode_sat_eq ctx.nodes ni) (fun node hnode => ?_)
  have hpni := p.pre.pni hnode
  cases hst : node.state with
  | uninitialized =>
    dsimp only
    cases hr : pn.right with
    | none => exact sat_buildErr
    | some r =>
      dsimp only
      have hrlt := p.pre.child_lt (p.pre.childR hr)
      simp only [setNodeIdx_eq, size_putNode, hrlt, bind_ok, sat_ok, hpni]
      exact p.firstVisit hnode hst hd [r] [ni, r] [(ni, _), (r, _)] [] (by simp) (fun m hm => by cases hm) (by simp) rfl rfl
        (by list_tac) (by list_tac) (by simp) (by simp) (by list_tac)
        (by child_tac p.pre, hnl) (by asgp_tac) (by asg_tac) ⟨_, List.mem_cons_self⟩ (by asgu_tac) (by asgall_tac) (notB hnb)
  | initialized =>
    dsimp only
    exact p.lastVisit [] [some ni] (by simp [pushInstr, hpni]) (by hl_tac) rfl rfl rfl (fun q hq => by cases hq)
      (fun q hq => by cases hq) (notB hnb)

theorem handleUnarySuffix_ord (p : PreO root tree G m0 ph ctx ni pn)
    (hd : pn.definition ≠ .group ∧ pn.definition ≠ .nestedExpression) (hnl : isLate pn.definition = false)
    (hnb : isB pn.definition = false) (ins : Instruction) :
    Sat (PostO root tree G m0 ph) (handleUnarySuffix ins ctx ni pn) := by
  unfold handleUnarySuffix
  refine sat_bind (getNode_sat_eq ctx.nodes ni) (fun node hnode => ?_)
  have hpni := p.pre.pni hnode
  cases hst : node.state with
  | uninitialized =>
    dsimp only
    cases hl : pn.left with
    | none => exact sat_buildErr
    | some l =>
      dsimp only
      have hllt := p.pre.child_lt (p.pre.childL hl)
      simp only [setNodeIdx_eq, size_putNode, hllt, bind_ok, sat_ok, hpni]
      exact p.firstVisit hnode hst hd [l] [ni, l] [(ni, _), (l, _)] [] (by simp) (fun m hm => by cases hm) (by simp) rfl rfl
        (by list_tac) (by list_tac) (by simp) (by simp) (by list_tac)
        (by child_tac p.pre, hnl) (by asgp_tac) (by asg_tac) ⟨_, List.mem_cons_self⟩ (by asgu_tac) (by asgall_tac)
        (notB hnb)
  | initialized =>
    dsimp only
    exact p.lastVisit [] [some ni] (by simp [pushInstr, hpni]) (by hl_tac) rfl rfl rfl (fun q hq => by cases hq)
      (fun q hq => by cases hq) (notB hnb)

theorem handleBinaryOperationWithPush_ord (p : PreO root tree G m0 ph ctx ni pn)
    (hd : pn.definition ≠ .group ∧ pn.definition ≠ .nestedExpression) (hnl : isLate pn.definition = false)
    (ins : Instruction) (lr : Bool) (hib : inlineBinary pn.definition = some lr) :
    Sat (PostO root tree G m0 ph) (handleBinaryOperationWithPush ins lr ctx ni pn) := by
  unfold handleBinaryOperationWithPush
  refine sat_bind (getNode_sat_eq ctx.nodes ni) (fun node hnode => ?_)
  have hpni := p.pre.pni hnode
  cases hst : node.state with
  | uninitialized =>
    dsimp only
    cases hr : pn.right with
    | none => exact sat_buildErr
    | some r =>
      cases hl : pn.left with
      | none => exact sat_buildErr
      | some l =>
        dsimp only
        have hrlt := p.pre.child_lt (p.pre.childR hr)
        have hllt := p.pre.child_lt (p.pre.childL hl)
        have hne := p.pre.lr_ne hl hr
        simp only [setNodeIdx_eq, size_putNode, hrlt, hllt, bind_ok, sat_ok, hpni]
        have hsw : lr = true ↔ inlineBinary pn.definition = some true := by rw [hib]; simp
        have hB := fun (_ : isB pn.definition = true) => p.hB_two hl hr lr hsw [] (fun m hm => by cases hm)
        cases lr
        ·
          exact p.firstVisit hnode hst hd [r, l] [ni, r, l] [(ni, _), (r, _), (l, _)] [] (by simp) (fun m hm => by cases hm) (by simp) rfl rfl
            (by list_tac) (by list_tac) (by list_tac) (by simp) (by list_tac)
            (by child_tac p.pre, hnl) (by asgp_tac) (by asg_tac) ⟨_, List.mem_cons_self⟩ (by asgu_tac) (by asgall_tac)
            hB
        ·
          exact p.firstVisit hnode hst hd [r, l] [ni, l, r] [(ni, _), (r, _), (l, _)] [] (by simp) (fun m hm => by cases hm) (by simp) rfl rfl
            (by list_tac) (by list_tac) (by list_tac) (by simp) (by list_tac)
            (by child_tac p.pre, hnl) (by asgp_tac) (by asg_tac) ⟨_, List.mem_cons_self⟩ (by asgu_tac) (by asgall_tac)
            hB
  | initialized =>
    dsimp only
    exact p.lastVisit [] [some ni] (by simp [pushInstr, hpni]) (by hl_tac) rfl rfl rfl (fun q hq => by cases hq)
      (fun q hq => by cases hq) (fun _ => p.p2 hnode hst)

theorem handleReapply_ord (p : PreO root tree G m0 ph ctx ni pn)
    (hd : pn.definition ≠ .group ∧ pn.definition ≠ .nestedExpression) (hnl : isLate pn.definition = false)
    (hnb : isB pn.definition = false) :
    Sat (PostO root tree G m0 ph) (handleReapply ctx ni pn) := by
  unfold handleReapply
  refine sat_bind (getNode_sat_eq ctx.nodes ni) (fun node hnode => ?_)
  have hpni := p.pre.pni hnode
  cases hst : node.state with
  | uninitialized =>
    dsimp only
    cases hr : pn.right with
    | none => exact sat_buildErr
    | some r =>
      dsimp only
      have hrlt := p.pre.child_lt (p.pre.childR hr)
      simp only [setNodeIdx_eq, size_putNode, hrlt, bind_ok, sat_ok, hpni]
      exact p.firstVisit hnode hst hd [r] [ni, r] [(ni, _), (r, _)] [] (by simp) (fun m hm => by cases hm) (by simp) rfl rfl
        (by list_tac) (by list_tac) (by simp) (by simp) (by list_tac)
        (by child_tac p.pre, hnl) (by asgp_tac) (by asg_tac) ⟨_, List.mem_cons_self⟩ (by asgu_tac) (by asgall_tac)
        (notB hnb)
  | initialized =>
    dsimp only
    exact p.lastVisit [] [some ni, some ni] (by simp [pushInstr]) (by hl_tac) rfl rfl rfl (fun q hq => by cases hq)
      (fun q hq => by cases hq) (notB hnb)

theorem handleSubexpression_ord (p : PreO root tree G m0 ph ctx ni pn)
    (hd : pn.definition ≠ .group ∧ pn.definition ≠ .nestedExpression) (hnl : isLate pn.definition = false)
    (hnb : isB pn.definition = false) :
    Sat (PostO root tree G m0 ph) (handleSubexpression ctx ni pn) := by
  unfold handleSubexpression
  refine sat_bind (getNode_sat_eq ctx.nodes ni) (fun node hnode => ?_)
  have hpni := p.pre.pni hnode
  cases hst : node.state with
  | uninitialized =>
    dsimp only
    cases hr : pn.right with
    | none => exact sat_buildErr
    | some r =>
      cases hl : pn.left with
      | none => exact sat_buildErr
      | some l =>
        dsimp only
        have hrlt := p.pre.child_lt (p.pre.childR hr)
        have hllt := p.pre.child_lt (p.pre.childL hl)
        have hne := p.pre.lr_ne hl hr
        simp only [setNodeIdx_eq, size_putNode, hrlt, hllt, bind_ok, sat_ok, hpni]
        exact p.firstVisit hnode hst hd [r, l] [r, ni, l] [(ni, _), (r, _), (l, _)] [] (by simp) (fun m hm => by cases hm) (by simp) rfl rfl
          (by list_tac) (by list_tac) (by list_tac) (by simp) (by list_tac)
          (by child_tac p.pre, hnl) (by asgp_tac) (by asg_tac) ⟨_, List.mem_cons_self⟩ (by asgu_tac) (by asgall_tac)
          (notB hnb)
  | initialized =>
    dsimp only
    exact p.lastVisit [] [some ni] (by simp [pushInstr]) (by hl_tac) rfl rfl rfl (fun q hq => by cases hq)
      (fun q hq => by cases hq) (notB hnb)

theorem handleInfixApply_ord (p : PreO root tree G m0 ph ctx ni pn)
    (hd : pn.definition ≠ .group ∧ pn.definition ≠ .nestedExpression) (hnl : isLate pn.definition = false)
    (hib : inlineBinary pn.definition = some false) :
    Sat (PostO root tree G m0 ph) (handleInfixApply ctx ni pn) := by
  unfold handleInfixApply
  refine sat_bind (getNode_sat_eq ctx.nodes ni) (fun node hnode => ?_)
  have hpni := p.pre.pni hnode
  cases hst : node.state with
  | uninitialized =>
    dsimp only
    cases hr : pn.right with
    | none => exact sat_buildErr
    | some r =>
      cases hl : pn.left with
      | none => exact sat_buildErr
      | some l =>
        dsimp only
        have hrlt := p.pre.child_lt (p.pre.childR hr)
        have hllt := p.pre.child_lt (p.pre.childL hl)
        have hne := p.pre.lr_ne hl hr
        simp only [setNodeIdx_eq, size_putNode, hrlt, hllt, bind_ok, sat_ok, hpni]
        have hsw : false = true ↔ inlineBinary pn.definition = some true := by rw [hib]; simp
        have hB := fun (_ : isB pn.definition = true) => p.hB_two hl hr false hsw [none] (by intro m hm; simpa using hm)
        exact p.firstVisit hnode hst hd [r, l] [ni, r, l] [(ni, _), (r, _), (l, _)] [none] (by simp [pushInstr, parseAddSymbol, addConst]) (by hl_tac) (by simp) rfl rfl
          (by list_tac) (by list_tac) (by list_tac) (by simp) (by list_tac)
          (by child_tac p.pre, hnl) (by asgp_tac) (by asg_tac) ⟨_, List.mem_cons_self⟩ (by asgu_tac) (by asgall_tac)
          hB
  | initialized =>
    dsimp only
    exact p.lastVisit [] [none, some ni] (by simp [pushInstr]) (by hl_tac) rfl rfl rfl (fun q hq => by cases hq)
      (fun q hq => by cases hq) (fun _ => p.p2 hnode hst)

theorem handleSideEffect_ord (p : PreO root tree G m0 ph ctx ni pn)
    (hd : pn.definition ≠ .group ∧ pn.definition ≠ .nestedExpression) (hnl : isLate pn.definition = false)
    (hnb : isB pn.definition = false) :
    Sat (PostO root tree G m0 ph) (handleSideEffect ctx ni pn) := by
  unfold handleSideEffect
  refine sat_bind (getNode_sat_eq ctx.nodes ni) (fun node hnode => ?_)
  have hpni := p.pre.pni hnode
  cases hst : node.state with
  | uninitialized =>
    dsimp only
    cases hr : pn.right with
    | none =>
      dsimp only
      simp only [sat_ok, hpni]
      exact p.firstVisit hnode hst hd [] [ni] [(ni, _)] [some ni] (by simp [pushInstr]) (by hl_tac) (by simp) rfl rfl
        (by list_tac) (by list_tac) (by simp) (by simp) (fun c hc => by cases hc)
        (fun c hc => by cases hc) (by asgp_tac) (by asg_tac) ⟨_, List.mem_cons_self⟩ (by asgu_tac) (fun c hc => by cases hc)
        (notB hnb)
    | some r =>
      dsimp only
      have hrlt := p.pre.child_lt (p.pre.childR hr)
      simp only [setNodeIdx_eq, size_putNode, hrlt, bind_ok, sat_ok, hpni]
      exact p.firstVisit hnode hst hd [r] [ni, r] [(ni, _), (r, _)] [some ni] (by simp [pushInstr]) (by hl_tac) (by simp) rfl rfl
        (by list_tac) (by list_tac) (by simp) (by simp) (by list_tac)
        (by child_tac p.pre, hnl) (by asgp_tac) (by asg_tac) ⟨_, List.mem_cons_self⟩ (by asgu_tac) (by asgall_tac)
        (notB hnb)
  | initialized =>
    dsimp only
    exact p.lastVisit [] [some ni] (by simp [pushInstr]) (by hl_tac) rfl rfl rfl (fun q hq => by cases hq)
      (fun q hq => by cases hq) (notB hnb)

theorem handleUnaryFixApply_ord (p : PreO root tree G m0 ph ctx ni pn)
    (hd : pn.definition ≠ .group ∧ pn.definition ≠ .nestedExpression) (hnl : isLate pn.definition = false)
    (hnb : isB pn.definition = false) {child : Option Nat} (hchild : child = pn.left ∨ child = pn.right) :
    Sat (PostO root tree G m0 ph) (handleUnaryFixApply child ctx ni pn) := by
  unfold handleUnaryFixApply
  refine sat_bind (getNode_sat_eq ctx.nodes ni) (fun node hnode => ?_)
  have hpni := p.pre.pni hnode
  cases hst : node.state with
  | uninitialized =>
    dsimp only
    cases hc : child with
    | none => exact sat_buildErr
    | some c =>
      dsimp only
      have hic : IsChild tree ni c := by
        rcases hchild with h | h
        · exact p.pre.childL (by rw [← h]; exact hc)
        · exact p.pre.childR (by rw [← h]; exact hc)
      have hclt := p.pre.child_lt hic
      simp only [setNodeIdx_eq, size_putNode, hclt, bind_ok, sat_ok, hpni]
      exact p.firstVisit hnode hst hd [c] [ni, c] [(ni, _), (c, _)] [none] (by simp [pushInstr, parseAddSymbol, addConst]) (by hl_tac) (by simp) rfl rfl
        (by list_tac) (by list_tac) (by simp) (by simp) (by list_tac)
        (fun x hx => by
          have : x = c := by simpa using hx
          subst this; exact ⟨hic, p.pre.notLate hnl _⟩) (by asgp_tac) (by asg_tac) ⟨_, List.mem_cons_self⟩ (by asgu_tac) (by asgall_tac)
        (notB hnb)
  | initialized =>
    dsimp only
    exact p.lastVisit [] [some ni] (by simp [pushInstr]) (by hl_tac) rfl rfl rfl (fun q hq => by cases hq)
      (fun q hq => by cases hq) (notB hnb)

end pre

end Garnish.Lemmas.BuildOrder
