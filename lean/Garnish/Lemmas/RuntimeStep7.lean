/-
Lemmas for the step simulation, part 7: `apply_internal` against Abs/Machine `applyStep`, arm by arm (`Apply`,
`EmptyApply`): the `.out` arms through `pushOut`, the `External` arm through `HostRefines.apply`, entering an
expression (`Entered`) through the `.enter` arm.
-/
import Garnish.Lemmas.RuntimeStep6
import Garnish.Model.Runtime.StepDomain
set_option linter.unusedSimpArgs false
set_option linter.unusedVariables false
namespace Garnish.Lemmas.Runtime
open Garnish Gen Garnish.Abs Garnish.Model.Equality Garnish.Model.Runtime Garnish.Props.RuntimeRefine

variable {F σ : Type} {S : RStore F σ} {P : Prog F} {host : Host F} (fo : FloatOps F)

theorem typeOf_inv_expr {v : Val F} (h : v.typeOf = .expression) : ∃ j, v = .expr j := by
  cases v <;> simp [Val.typeOf] at h; exact ⟨_, rfl⟩
theorem typeOf_inv_ext {v : Val F} (h : v.typeOf = .external) : ∃ n, v = .ext n := by
  cases v <;> simp [Val.typeOf] at h; exact ⟨_, rfl⟩
theorem typeOf_inv_part {v : Val F} (h : v.typeOf = .partial_) : ∃ f x, v = .part f x := by
  cases v <;> simp [Val.typeOf] at h; exact ⟨_, _, rfl⟩
theorem typeOf_inv_range {v : Val F} (h : v.typeOf = .range) : ∃ a b, v = .range a b := by
  cases v <;> simp [Val.typeOf] at h; exact ⟨_, _, rfl⟩
theorem typeOf_inv_slice {v : Val F} (h : v.typeOf = .slice) : ∃ a b, v = .slice a b := by
  cases v <;> simp [Val.typeOf] at h; exact ⟨_, _, rfl⟩
theorem typeOf_inv_sym {v : Val F} (h : v.typeOf = .symbol) : ∃ y, v = .sym y := by
  cases v <;> simp [Val.typeOf] at h; exact ⟨_, rfl⟩
theorem typeOf_inv_symList {v : Val F} (h : v.typeOf = .symbolList) : ∃ ps, v = .symList ps := by
  cases v <;> simp [Val.typeOf] at h; exact ⟨_, rfl⟩

/-- which type pairs select which arm -/
theorem applyArm_inv (tl tr : Ty) :
    (applyArm tl tr = .expression → tl = .expression) ∧ (applyArm tl tr = .external → tl = .external) ∧
    (applyArm tl tr = .partial_ → tl = .partial_) ∧ (applyArm tl tr = .narrow → tl = .range ∧ tr = .range) ∧
    (applyArm tl tr = .sliceNarrow → tl = .slice ∧ tr = .range) ∧
    (applyArm tl tr = .accInt → tr = .number) ∧ (applyArm tl tr = .accSym → tr = .symbol) ∧
    (applyArm tl tr = .path → tl = .list ∧ tr = .symbolList) := by
  cases tl <;> cases tr <;> simp [applyArm]

/-- the machine state `applyStep` produces for an `.out` outcome, as `seqR`/`pushOut` -/
theorem applyStep_out (m0 : MState F) (instr : Instruction) (ur : Bool) (vl vr : Val F) (o : OpOut F)
    (h : applyKind fo instr ur vl vr = .out o) :
    applyStep fo host P m0 instr ur vl vr = seqR m0 (pushOut host m0 o) := by
  unfold applyStep seqR
  rw [h]
  simp only []
  cases hx : pushOut host m0 o <;> rfl

theorem accOut_not_defer (a : Acc F) (op : Instruction) (x y : Val F) : accOut a ≠ .defer op x y := by
  cases a <;> intro h <;> cases h

/-- entering an expression simulates the `.enter` arm of `applyStep` -/
theorem enter_sim {s : σ} {m0 : MState F} (hpc : S.cursor s = m0.pc) {rest : List Nat}
    (hrest : DecodesList (S.view s) rest m0.regs) (hvals : DecodesList (S.view s) (S.vals s) m0.vals)
    (hfr : FramesRel (S.view s) (S.frames s) m0.frames)
    (hprog : (∀ i, S.instruction s i = P.instrs[i]?) ∧ (∀ j, S.jumpTable s j = P.jumps[j]?) ∧
      S.instrLen s = P.instrs.size)
    {instr : Instruction} {ur : Bool} {vl vr input : Val F} {j : Nat} {res : Outcome (Option Nat × σ)}
    (hk : applyKind fo instr ur vl vr = .enter j input) (hent : Entered S s res rest j input) :
    HandlerSim S P s res (applyStep fo host P m0 instr ur vl vr) := by
  unfold applyStep
  rw [hk]
  simp only []
  unfold Entered at hent
  rw [hprog.2.1] at hent
  cases hj : P.jumps[j]? with
  | none => simp [jumpTarget, hj]; trivial
  | some t =>
    rw [hj] at hent
    obtain ⟨ia, s1, h1, dia, e1⟩ := hent
    have : jumpTarget P j = .ok t := by simp [jumpTarget, hj]
    rw [this]
    refine ⟨some t, s1, h1, rfl, e1.keeps.cur, ?_, e1.keeps.dec⟩
    exact ⟨e1.regs ▸ decodesList_keeps e1.keeps hrest,
      e1.vals ▸ .cons dia (decodesList_keeps e1.keeps hvals),
      e1.frames ▸ .cons (by simp [hpc]) (decodesList_keeps e1.keeps hrest) (framesRel_keeps e1.keeps hfr),
      fun i => by rw [e1.keeps.instr]; exact hprog.1 i,
      fun j => by rw [e1.keeps.jump]; exact hprog.2.1 j,
      by rw [e1.keeps.ilen]; exact hprog.2.2⟩

/-- `apply_internal` against Abs/Machine `applyStep`, from a state whose two top registers are the operands -/
theorem applyInternal_sim (L : StoreLaws S) (HR : HostRefines S host) (fuel : Nat) (instr : Instruction) (ur : Bool)
    {s : σ} {m0 : MState F} (hpc : S.cursor s = m0.pc)
    {r l : Nat} {rest : List Nat} {vr vl : Val F} (hregs : S.regs s = r :: l :: rest)
    (dl : Decodes (S.view s) l vl) (dr : Decodes (S.view s) r vr)
    (hrest : DecodesList (S.view s) rest m0.regs) (hvals : DecodesList (S.view s) (S.vals s) m0.vals)
    (hfr : FramesRel (S.view s) (S.frames s) m0.frames)
    (hprog : (∀ i, S.instruction s i = P.instrs[i]?) ∧ (∀ j, S.jumpTable s j = P.jumps[j]?) ∧
      S.instrLen s = P.instrs.size)
    (hdom : ApplyDomain fo fuel vl vr) :
    HandlerSim S P s (applyInternal fo S fuel instr ur s) (applyStep fo host P m0 instr ur vl vr) := by
  have outArm : ∀ o, applyKind fo instr ur vl vr = .out o →
      RefinesOut S s (applyInternal fo S fuel instr ur s) (some (S.cursor s + 1)) rest l r o →
      (∀ op a b, o = .defer op a b → a = vl ∧ b = vr) →
      HandlerSim S P s (applyInternal fo S fuel instr ur s) (applyStep fo host P m0 instr ur vl vr) := by
    intro o hk href hdef
    rw [applyStep_out fo m0 instr ur vl vr o hk]
    exact handlerSim_of_refines (m := m0) HR hpc hrest hvals hfr hprog (by simp [hpc]) href
      (fun op a b ho => by obtain ⟨rfl, rfl⟩ := hdef op a b ho; exact ⟨dl, Or.inl dr⟩)
  obtain ⟨iexp, iext, ipart, inar, isn, iint, isym, ipath⟩ := applyArm_inv vl.typeOf vr.typeOf
  unfold ApplyDomain at hdom
  cases harm : applyArm vl.typeOf vr.typeOf <;> rw [harm] at hdom
  case defer =>
    obtain ⟨hk, href⟩ := C08_refine_apply_defer fo L fuel instr ur hregs dl dr harm
    exact outArm _ hk href (fun op a b h => by cases h; exact ⟨rfl, rfl⟩)
  case merge =>
    obtain ⟨v, hk, href⟩ := C17_refine_apply_merge fo L fuel instr ur hregs dl dr harm
    exact outArm _ hk href (fun op a b h => by cases h)
  case mkSlice =>
    obtain ⟨hk, href⟩ := C17_refine_apply_mk_slice fo L fuel instr ur hregs dl dr harm
    exact outArm _ hk href (fun op a b h => by cases h)
  case narrow =>
    obtain ⟨h1, h2⟩ := inar harm
    obtain ⟨os, oe, rfl⟩ := typeOf_inv_range h1
    obtain ⟨bs, be, rfl⟩ := typeOf_inv_range h2
    have href := apply_narrow_spec fo L fuel instr ur hregs dl dr
    refine outArm _ (by simp only [applyKind]; cases Abs.narrowRange fo (.range os oe) (.range bs be) <;> rfl) href ?_
    intro op a b h
    cases hx : Abs.narrowRange fo (.range os oe) (.range bs be) <;> rw [hx] at h <;> cases h
  case sliceNarrow =>
    obtain ⟨h1, h2⟩ := isn harm
    obtain ⟨v, sr, rfl⟩ := typeOf_inv_slice h1
    obtain ⟨bs, be, rfl⟩ := typeOf_inv_range h2
    obtain ⟨os, oe, rfl⟩ := hdom v sr rfl
    have href := apply_sliceNarrow_spec fo L fuel instr ur hregs dl dr
    refine outArm _ (by simp only [applyKind]; cases Abs.narrowRange fo (.range os oe) (.range bs be) <;> rfl) href ?_
    intro op a b h
    cases hx : Abs.narrowRange fo (.range os oe) (.range bs be) <;> rw [hx] at h <;> cases h
  case accInt =>
    obtain ⟨hd, i, rfl⟩ := hdom
    obtain ⟨hk, href⟩ := C17_refine_apply_access_integer fo L fuel instr ur hregs dl dr harm hd
    exact outArm _ hk href (fun op a b h => absurd h (accOut_not_defer _ op a b))
  case accSym =>
    obtain ⟨y, rfl⟩ := typeOf_inv_sym (isym harm)
    obtain ⟨hk, href⟩ := C17_refine_apply_access_symbol fo L fuel instr ur hregs dl dr harm hdom
    exact outArm _ hk href (fun op a b h => absurd h (accOut_not_defer _ op a b))
  case path =>
    obtain ⟨h1, h2⟩ := ipath harm
    obtain ⟨items, rfl⟩ := typeOf_list h1
    obtain ⟨ps, rfl⟩ := typeOf_inv_symList h2
    obtain ⟨hk, href⟩ := C17_refine_apply_path fo L fuel instr ur hregs dl dr (hdom items ps rfl rfl)
    exact outArm _ hk href (fun op a b h => absurd h (accOut_not_defer _ op a b))
  case external =>
    obtain ⟨n, rfl⟩ := typeOf_inv_ext (iext harm)
    obtain ⟨hk, s0, e0, hprot⟩ := C17_refine_apply_external fo L fuel instr ur hregs dl dr
    have hrest0 := decodesList_keeps e0.keeps hrest
    have hvals0 := decodesList_keeps e0.keeps hvals
    have hfr0 := framesRel_keeps e0.keeps hfr
    have ha := HR.apply n r vr s0 (e0.dec dr)
    unfold HostAnswer at ha
    unfold ApplyProtocol at hprot
    unfold applyStep
    rw [hk]
    simp only []
    cases hh : host.apply n vr with
    | some v =>
      rw [hh] at ha
      obtain ⟨a, s1, h1, d1, he⟩ := ha
      rw [h1] at hprot
      simp only [] at hprot ⊢
      refine ⟨some (S.cursor s + 1), s1, hprot, by simp [hpc], he.keeps.cur.trans e0.keeps.cur, ?_,
        (e0.keeps.trans he.keeps).dec⟩
      exact ⟨he.regs ▸ e0.regs ▸ .cons d1 (decodesList_keeps he.keeps hrest0),
        he.vals ▸ e0.vals ▸ decodesList_keeps he.keeps hvals0,
        he.frames ▸ e0.frames ▸ framesRel_keeps he.keeps hfr0,
        fun i => by rw [he.keeps.instr, e0.keeps.instr]; exact hprog.1 i,
        fun j => by rw [he.keeps.jump, e0.keeps.jump]; exact hprog.2.1 j,
        by rw [he.keeps.ilen, e0.keeps.ilen]; exact hprog.2.2⟩
    | none =>
      rw [hh] at ha
      obtain ⟨s1, h1, he⟩ := ha
      rw [h1] at hprot
      simp only [] at hprot ⊢
      obtain ⟨u, s2, h2, d2, e2⟩ := hprot
      have k12 := he.keeps.trans e2.keeps
      refine ⟨some (S.cursor s + 1), s2, h2, by simp [hpc],
        e2.keeps.cur.trans (he.keeps.cur.trans e0.keeps.cur), ?_, (e0.keeps.trans k12).dec⟩
      exact ⟨e2.regs ▸ he.regs ▸ e0.regs ▸ .cons d2 (decodesList_keeps k12 hrest0),
        e2.vals ▸ he.vals ▸ e0.vals ▸ decodesList_keeps k12 hvals0,
        e2.frames ▸ he.frames ▸ e0.frames ▸ framesRel_keeps k12 hfr0,
        fun i => by rw [e2.keeps.instr, he.keeps.instr, e0.keeps.instr]; exact hprog.1 i,
        fun j => by rw [e2.keeps.jump, he.keeps.jump, e0.keeps.jump]; exact hprog.2.1 j,
        by rw [e2.keeps.ilen, he.keeps.ilen, e0.keeps.ilen]; exact hprog.2.2⟩
  case expression =>
    obtain ⟨j, rfl⟩ := typeOf_inv_expr (iexp harm)
    obtain ⟨hk, hent⟩ := C17_refine_apply_expression fo L fuel instr ur hregs dl dr
    exact enter_sim fo hpc hrest hvals hfr hprog hk hent
  case partial_ =>
    obtain ⟨f, x, rfl⟩ := typeOf_inv_part (ipart harm)
    by_cases hfe : f.typeOf = .expression
    · obtain ⟨j, rfl⟩ := typeOf_inv_expr hfe
      obtain ⟨hk, hent⟩ := C17_refine_apply_partial_expression fo L fuel instr ur hregs dl dr
      exact enter_sim fo hpc hrest hvals hfr hprog hk hent
    · obtain ⟨hk, href⟩ := C17_refine_apply_partial_other fo L fuel instr ur hregs dl dr hfe
      exact outArm _ hk href (fun op a b h => by cases h)

/-- `Apply` -/
theorem stepSim_apply (L : StoreLaws S) (HR : HostRefines S host) (fuel : Nat) (H : OtherHandlers σ)
    {s : σ} {m : MState F} (hsim : Sim S P s m) {operand : Option Nat}
    (hfetch : P.instrs[m.pc]? = some (.apply, operand)) {vr vl : Val F} {rs : List (Val F)}
    (hregs : m.regs = vr :: vl :: rs) (hdom : ApplyDomain fo fuel vl vr) :
    StepSim fo host S P fuel H s m := by
  obtain ⟨hpc, hd⟩ := hsim
  have hdr := hd.regs
  rw [hregs] at hdr
  obtain ⟨r, as1, e1, dr, t1⟩ := decodesList_cons_inv hdr
  obtain ⟨l, rest, e2, dl, t2⟩ := decodesList_cons_inv t1
  subst e2
  refine stepSim_of fo L fuel H ⟨hpc, hd⟩ hfetch
    (r := applyStep fo host P { m with regs := rs } .apply true vl vr)
    (by unfold Abs.step; rw [hfetch]; simp only [hregs]) ?_
  exact applyInternal_sim fo L HR fuel .apply true (m0 := { m with regs := rs }) hpc e1 dl dr t2 hd.vals hd.frames
    ⟨hd.instrs, hd.jumps, hd.ilen⟩ hdom

/-- `EmptyApply`: the left operand applied to a fresh unit -/
theorem stepSim_emptyApply (L : StoreLaws S) (HR : HostRefines S host) (fuel : Nat) (H : OtherHandlers σ)
    {s : σ} {m : MState F} (hsim : Sim S P s m) {operand : Option Nat}
    (hfetch : P.instrs[m.pc]? = some (.emptyApply, operand)) {vl : Val F} {rs : List (Val F)}
    (hregs : m.regs = vl :: rs) (hdom : ApplyDomain fo fuel vl .unit) :
    StepSim fo host S P fuel H s m := by
  obtain ⟨hpc, hd⟩ := hsim
  have hdr := hd.regs
  rw [hregs] at hdr
  obtain ⟨l, rest, e1, dl, t1⟩ := decodesList_cons_inv hdr
  obtain ⟨u, s1, du, eu, heq⟩ := C17_refine_empty_apply fo L fuel s
  rw [e1] at eu
  refine stepSim_of fo L fuel H ⟨hpc, hd⟩ hfetch
    (r := applyStep fo host P { m with regs := rs } .emptyApply false vl .unit)
    (by unfold Abs.step; rw [hfetch]; simp only [hregs]) ?_
  have hs1 := applyInternal_sim fo L HR fuel .emptyApply false (m0 := { m with regs := rs })
    (s := s1) (by rw [eu.keeps.cur]; exact hpc) eu.regs (eu.dec dl) du (Sim.tail eu t1)
    (eu.vals ▸ Sim.tail eu hd.vals) (eu.frames ▸ framesRel_keeps eu.keeps hd.frames)
    ⟨fun i => by rw [eu.keeps.instr]; exact hd.instrs i, fun j => by rw [eu.keeps.jump]; exact hd.jumps j,
      by rw [eu.keeps.ilen]; exact hd.ilen⟩ hdom
  show HandlerSim S P s (emptyApply fo S fuel s) _
  rw [heq]
  cases hr : applyStep fo host P { m with regs := rs } .emptyApply false vl .unit with
  | error e => trivial
  | ok p =>
    rw [hr] at hs1
    obtain ⟨md, n⟩ := p
    obtain ⟨next, s2, h2, hn, hc, hd2, hk2⟩ := hs1
    exact ⟨next, s2, h2, by rw [← eu.keeps.cur]; exact hn, hc.trans eu.keeps.cur, hd2,
      fun a v h => hk2 a v (eu.dec h)⟩

end Garnish.Lemmas.Runtime
