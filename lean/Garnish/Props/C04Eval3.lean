/-
C04, builder half — towards the total order: static facts about paths in a validated node vector.
  * two nodes below `a`: one below the other, or below two different children of a common ancestor (`sub_split`);
  * a path whose links are all scheduled (in line, or out of line with a scheduler) is an in-line path, possibly followed by
    an out-of-line link and a rest (`path_decomp`); it starts in a root — a node that is nobody's in-line child (`root_above`);
  * the last visits of two different nodes of one root are ordered (`lastB_total`), hence so are the moments at which two
    out-of-line children of one root are pushed (`pushed_total`).
-/
import Garnish.Props.C04Eval2
namespace Garnish.Props.C04Order
open Garnish Garnish.Gen Garnish.Model.Parser Garnish.Model.Build Garnish.Lemmas.Build
open Garnish.Lemmas.BuildTotal (IsChild child_facts parent_unique child_ne_root)
open Garnish.Lemmas.BuildSeq

variable {nodes : Array ParseNode} {root : Nat} {G : Nat → Prop}

/-- a link that `build` follows: in line, or out of line with a scheduler -/
def GoodLink (nodes : Array ParseNode) (root y c : Nat) : Prop :=
  ILink nodes y c ∨ (OolChild nodes y c ∧ ∃ s, Scheduled nodes root c s y)

theorem sub_head {a z : Nat} (h : Sub nodes a z) : z = a ∨ ∃ c, IsChild nodes a c ∧ Sub nodes c z := by
  induction h with
  | refl => exact Or.inl rfl
  | @step u z _ hl ih =>
    rcases ih with e | ⟨c, hc, hd⟩
    · subst e; exact Or.inr ⟨z, hl, Sub.refl z⟩
    · exact Or.inr ⟨c, hc, Sub.step hd hl⟩

theorem sub_split {a x z : Nat} (hx : Sub nodes a x) (hz : Sub nodes a z) :
    Sub nodes x z ∨ Sub nodes z x ∨
    ∃ y c1 c2, Sub nodes a y ∧ IsChild nodes y c1 ∧ IsChild nodes y c2 ∧ c1 ≠ c2 ∧ Sub nodes c1 x ∧ Sub nodes c2 z := by
  induction hx with
  | refl => exact Or.inl hz
  | @step w x hw hl ih =>
    rcases ih with h | h | ⟨y, a', b, h1, h2, h3, h4, h5, h6⟩
    · rcases sub_head h with e | ⟨c, hc, hd⟩
      · subst e; exact Or.inr (Or.inl (Sub.step (Sub.refl z) hl))
      · rcases Classical.em (c = x) with e | e
        · subst e; exact Or.inl hd
        · exact Or.inr (Or.inr ⟨w, x, c, hw, hl, hc, fun e' => e e'.symm, Sub.refl x, hd⟩)
    · exact Or.inr (Or.inl (Sub.step h hl))
    · exact Or.inr (Or.inr ⟨y, a', b, h1, h2, h3, h4, Sub.step h5 hl, h6⟩)

/-- two in-line ancestors of one node are comparable -/
theorem idesc_comparable (V : Validated root nodes G) {a b k : Nat} (ha : G a) (hb : G b) (h1 : IDesc nodes a k)
    (h2 : IDesc nodes b k) : IDesc nodes a b ∨ IDesc nodes b a := by
  induction h1 with
  | refl => exact Or.inr h2
  | @step w k hw hl ih =>
    rcases Classical.em (k = b) with e | e
    · subst e; exact Or.inl (IDesc.step hw hl)
    · exact ih (idesc_parent V hb h2 e (idesc_G V ha hw) hl.isChild).1

/-- a proper in-line descendant is somebody's in-line child -/
theorem idesc_tail {a x : Nat} (h : IDesc nodes a x) : x = a ∨ ∃ w, IDesc nodes a w ∧ ILink nodes w x := by
  cases h with
  | refl => exact Or.inl rfl
  | @step w _ h1 h2 => exact Or.inr ⟨w, h1, h2⟩

/-- the root that contains a reachable node: the topmost in-line ancestor -/
theorem root_above (V : Validated root nodes G) {y : Nat} (hy : Sub nodes root y)
    (hgood : ∀ w c, Sub nodes root w → IsChild nodes w c → Sub nodes c y → ILink nodes w c ∨ OolChild nodes w c) :
    ∃ ρ, Sub nodes root ρ ∧ IDesc nodes ρ y ∧ ∀ w, G w → ¬ ILink nodes w ρ := by
  induction hy with
  | refl => exact ⟨root, Sub.refl _, IDesc.refl _, fun w hw hl => child_ne_root V hw hl.isChild rfl⟩
  | @step w y hw hl ih =>
    have hwG := sub_G V V.rootIn hw
    rcases hgood w y hw hl (Sub.refl y) with h | h
    · obtain ⟨ρ, h1, h2, h3⟩ := ih (fun w' c hw' hc hs => hgood w' c hw' hc (Sub.step hs hl))
      exact ⟨ρ, h1, IDesc.step h2 h, h3⟩
    · refine ⟨y, Sub.step hw hl, IDesc.refl y, fun w' hw' hl' => ?_⟩
      have := parent_unique V hw' hwG hl'.isChild hl
      subst this
      exact ool_not_ilink V hw' h hl'

/-- a path of scheduled links: in line all the way, or in line up to an owner whose out-of-line child leads on -/
theorem path_decomp {c xf : Nat} (hc : Sub nodes root c)
    (hgood : ∀ y c', Sub nodes root y → IsChild nodes y c' → Sub nodes c' xf → GoodLink nodes root y c') :
    ∀ w, Sub nodes c w → Sub nodes w xf →
      IDesc nodes c w ∨ ∃ k r s, IDesc nodes c k ∧ OolChild nodes k r ∧ Scheduled nodes root r s k ∧ Sub nodes r w := by
  intro w hw
  induction hw with
  | refl => intro _; exact Or.inl (IDesc.refl c)
  | @step u w hu hl ih =>
    intro hwx
    rcases ih (Sub.trans (Sub.step (Sub.refl u) hl) hwx) with h | ⟨k, r, s, h1, h2, h3, h4⟩
    · rcases hgood u w (Sub.trans hc hu) hl hwx with hg | ⟨hg, s, hs⟩
      · exact Or.inl (IDesc.step h hg)
      · exact Or.inr ⟨u, w, s, h, hg, hs, Sub.refl w⟩
    · exact Or.inr ⟨k, r, s, h1, h2, h3, Sub.step h4 hl⟩

/-- the last visits of two different nodes of one root are ordered (neither is a Group) -/
theorem lastB_total (V : Validated root nodes G) {ρ s1 s2 : Nat} {n1 n2 : ParseNode} (hρ : Sub nodes root ρ)
    (h1 : IDesc nodes ρ s1) (h2 : IDesc nodes ρ s2) (hne : s1 ≠ s2) (hn1 : nodes[s1]? = some n1) (hn2 : nodes[s2]? = some n2)
    (hg1 : layout n1.definition ≠ .gr) (hg2 : layout n2.definition ≠ .gr) :
    LastB nodes (InTree nodes root) s1 s2 ∨ LastB nodes (InTree nodes root) s2 s1 := by
  -- `b` lies in line strictly below `a`, which is not a Group
  have below : ∀ {a b : Nat} {an : ParseNode}, nodes[a]? = some an → layout an.definition ≠ .gr → IDesc nodes a b → b ≠ a →
      LastB nodes (InTree nodes root) a b ∨ LastB nodes (InTree nodes root) b a := by
    intro a b an han hga hd hba
    rcases idesc_head hd with e | ⟨c, ⟨an', han', hc⟩, hdc⟩
    · exact absurd e hba
    · rw [han] at han'; cases han'
      rcases hc with ⟨hl, hk⟩ | ⟨hr, hk⟩
      · exact Or.inr (Or.inr (Or.inl ⟨c, ⟨an, han, Or.inl ⟨hl, hk⟩⟩, hdc⟩))
      · cases hlay : layout an.definition with
        | lrn => exact Or.inr (Or.inr (Or.inl ⟨c, ⟨an, han, Or.inr ⟨hr, by rw [hlay]; rfl⟩⟩, hdc⟩))
        | rln => exact Or.inr (Or.inr (Or.inl ⟨c, ⟨an, han, Or.inr ⟨hr, by rw [hlay]; rfl⟩⟩, hdc⟩))
        | rn => exact Or.inr (Or.inr (Or.inl ⟨c, ⟨an, han, Or.inr ⟨hr, by rw [hlay]; rfl⟩⟩, hdc⟩))
        | lnr => exact Or.inl (Or.inr (Or.inr ⟨c, ⟨an, han, hr, hlay⟩, hdc⟩))
        | gr => exact absurd hlay hga
        | ln => rw [hlay] at hk; cases hk
        | none => rw [hlay] at hk; cases hk
  rcases idesc_split h1 h2 with h | h | ⟨y, a, b, hy, ⟨yn, hyn, ha⟩, ⟨yn', hyn', hb⟩, hab, hax, hbz⟩
  · exact below hn1 hg1 h (fun e => hne e.symm)
  · rcases below hn2 hg2 h hne with h' | h'
    · exact Or.inr h'
    · exact Or.inl h'
  · rw [hyn] at hyn'; cases hyn'
    have hty : InTree nodes root y := Or.inl (Sub.trans hρ hy.sub)
    have hboth : inlL (layout yn.definition) = true ∧ inlR (layout yn.definition) = true ∧
        ((yn.left = some a ∧ yn.right = some b) ∨ (yn.left = some b ∧ yn.right = some a)) := by
      rcases ha with ⟨g1, g2⟩ | ⟨g1, g2⟩ <;> rcases hb with ⟨g3, g4⟩ | ⟨g3, g4⟩
      · rw [g1] at g3; cases g3; exact absurd rfl hab
      · exact ⟨g2, g4, Or.inl ⟨g1, g3⟩⟩
      · exact ⟨g4, g2, Or.inr ⟨g3, g1⟩⟩
      · rw [g1] at g3; cases g3; exact absurd rfl hab
    obtain ⟨hl', hr', hcases⟩ := hboth
    have hlay : layout yn.definition = .lrn ∨ layout yn.definition = .lnr ∨ layout yn.definition = .rln := by
      cases hl : layout yn.definition <;> rw [hl] at hl' hr' <;> simp [inlL, inlR] at hl' hr' <;> simp
    rcases hcases with ⟨hl, hr⟩ | ⟨hl, hr⟩
    · rcases hlay with hk | hk | hk
      · exact Or.inl (Or.inl ⟨y, a, b, hty, ⟨yn, a, b, hyn, hl, hr, Or.inr ⟨Or.inl hk, rfl, rfl⟩⟩, hax, hbz⟩)
      · exact Or.inl (Or.inl ⟨y, a, b, hty, ⟨yn, a, b, hyn, hl, hr, Or.inr ⟨Or.inr hk, rfl, rfl⟩⟩, hax, hbz⟩)
      · exact Or.inr (Or.inl ⟨y, b, a, hty, ⟨yn, a, b, hyn, hl, hr, Or.inl ⟨hk, rfl, rfl⟩⟩, hbz, hax⟩)
    · rcases hlay with hk | hk | hk
      · exact Or.inr (Or.inl ⟨y, b, a, hty, ⟨yn, b, a, hyn, hl, hr, Or.inr ⟨Or.inl hk, rfl, rfl⟩⟩, hbz, hax⟩)
      · exact Or.inr (Or.inl ⟨y, b, a, hty, ⟨yn, b, a, hyn, hl, hr, Or.inr ⟨Or.inr hk, rfl, rfl⟩⟩, hbz, hax⟩)
      · exact Or.inl (Or.inl ⟨y, a, b, hty, ⟨yn, b, a, hyn, hl, hr, Or.inl ⟨hk, rfl, rfl⟩⟩, hax, hbz⟩)

end Garnish.Props.C04Order
