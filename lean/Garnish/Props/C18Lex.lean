/-
Property C18, lexer half: "adding or removing spaces and tabs around tokens where some whitespace or none is already
allowed, adding trailing whitespace to a line, inserting annotations or comment lines between tokens … leaves the
parse tree (up to trivia) and result unchanged".
On the lexer model (Garnish.Model.Lexer = the repaired lexer). Proved here: the two facts every such statement
rests on — (i) the lexer never reads its position counters (all states except the Float state, see below), so
shifting the rest of the input by inserted/removed characters changes only token positions; (ii) inside a run of
spaces/tabs further spaces/tabs emit nothing and only extend the one pending Whitespace token. The end-to-end
statements (a), (b), (c) are recorded as `def … : Prop` (not proved).
-/
import Garnish.Lemmas.LexerC18
namespace Garnish.Props.C18Lex
open Garnish Garnish.Model.Lexer

/-- (i) `process_char` on two lexers that differ only in the position counters gives results that differ only in the
position counters, and emits tokens with the same type and text. Hypothesis: the state is not `Float` (the Float arm
reads `text_column` for the `text_column - 1` of the float split; with `1 ≤ text_column` on both sides — which
`Inv` guarantees — the same holds, but that case is not proved). -/
theorem C18_lex_positions_irrelevant (cc : CharClass) (a b : Lexer) (ch : Char) (h : PosEq a b)
    (hnf : a.state ≠ .float) : OutResEq (processChar cc a ch) (processChar cc b ch) :=
  processChar_congr cc ch h hnf

/-- (i) for `start_token`, as an equation -/
theorem C18_lex_start_token_positions (cc : CharClass) (σ : Lexer) (ch : Char) (r c tr tc n : Nat) :
    startToken cc (setPos σ r c tr tc n) ch = setPos (startToken cc σ ch) r c r c n :=
  startToken_setPos cc σ ch r c tr tc n

/-- (ii) inside a run of spaces/tabs (`WsA`: state Spaces, no newline yet) any further run `ws` of spaces/tabs is
consumed without emitting a token; the lexer stays in the same situation with the pending whitespace extended -/
theorem C18_lex_blank_run (cc : CharClass) (ws : List Char) (σ : Lexer) (cs : List Char) (toks : List LexerToken)
    (h : WsA σ cs) (hws : ∀ c ∈ ws, c = ' ' ∨ c = '\t') :
    ∃ σ1, runChars cc ws σ toks = .ok (σ1, toks) ∧ WsA σ1 (cs ++ ws) :=
  runA cc ws σ cs toks h hws

/-- same type; same text unless the token is trivia (Whitespace / Subexpression) -/
def TokSim (t t' : LexerToken) : Prop :=
  t.tokenType = t'.tokenType ∧ (t.text = t'.text ∨ t.tokenType = .whitespace ∨ t.tokenType = .subexpression)

/-- the two token lists have the same length and agree token by token in type and text (positions may differ) -/
def SameTypesAndTexts (l l' : List LexerToken) : Prop :=
  l.map (fun t => (t.tokenType, t.text)) = l'.map (fun t => (t.tokenType, t.text))

/-- (a) full statement, NOT proved: changing the amount of horizontal whitespace between two tokens (where there
already is some) changes only that Whitespace token's text and the positions of the following tokens -/
def C18_lex_more_space_statement : Prop :=
  ∀ (cc : CharClass) (a w w' b : List Char) (ta tb : List LexerToken) (ws : LexerToken), cc.Sane2 →
    w ≠ [] → w' ≠ [] → (∀ c ∈ w, c = ' ' ∨ c = '\t') → (∀ c ∈ w', c = ' ' ∨ c = '\t') →
    lex cc (a ++ w ++ b) = .ok (ta ++ [ws] ++ tb) → (ta.map (·.text)).flatten = a → ws.text = w →
    ws.tokenType = .whitespace →
    ∃ ws' tb', lex cc (a ++ w' ++ b) = .ok (ta ++ [ws'] ++ tb') ∧ ws'.text = w' ∧ ws'.tokenType = .whitespace ∧
      SameTypesAndTexts tb tb'

/-- (b) full statement, NOT proved: trailing spaces/tabs add exactly one Whitespace token -/
def C18_lex_trailing_space_statement : Prop :=
  ∀ (cc : CharClass) (s w : List Char) (toks : List LexerToken) (last : LexerToken), cc.Sane2 →
    w ≠ [] → (∀ c ∈ w, c = ' ' ∨ c = '\t') → lex cc s = .ok (toks ++ [last]) →
    last.tokenType ≠ .whitespace → last.tokenType ≠ .subexpression → last.tokenType ≠ .lineAnnotation →
    ∃ t, lex cc (s ++ w) = .ok (toks ++ [last, t]) ∧ t.tokenType = .whitespace ∧ t.text = w

/-- (c) full statement, NOT proved: an annotation `@word` followed by a space, inserted after whitespace, adds an
Annotation token and a Whitespace token and leaves the other tokens' types and texts unchanged -/
def C18_lex_insert_annotation_statement : Prop :=
  ∀ (cc : CharClass) (a b word : List Char) (ta tb : List LexerToken), cc.Sane2 →
    (∀ c ∈ word, cc.isAlphanumeric c = true ∨ c = '_') → a.getLast? = some ' ' →
    lex cc (a ++ b) = .ok (ta ++ tb) → (ta.map (·.text)).flatten = a →
    ∃ t1 t2 tb', lex cc (a ++ ('@' :: word) ++ [' '] ++ b) = .ok (ta ++ [t1, t2] ++ tb') ∧
      t1.tokenType = .annotation ∧ t1.text = '@' :: word ∧ t2.tokenType = .whitespace ∧ t2.text = [' '] ∧
      SameTypesAndTexts tb tb'

end Garnish.Props.C18Lex
