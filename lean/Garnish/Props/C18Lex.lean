/-
Property C18, lexer half: "adding or removing spaces and tabs around tokens where some whitespace or none is already
allowed, adding trailing whitespace to a line, inserting annotations or comment lines between tokens … leaves the
parse tree (up to trivia) and result unchanged".
On the lexer model (Garnish.Model.Lexer = the repaired lexer). Proved here: the two facts every such statement
rests on — (i) the lexer never reads its position counters (all states except the Float state, see below), so
shifting the rest of the input by inserted/removed characters changes only token positions; (ii) inside a run of
spaces/tabs further spaces/tabs emit nothing and only extend the one pending Whitespace token. The end-to-end
statements (a), (b), (c) are recorded as `def … : Prop` (not proved).
-/
import Garnish.Lemmas.LexerC18Ws
namespace Garnish.Props.C18Lex
open Garnish Garnish.Model.Lexer

/-- (i) `process_char` on two lexers that differ only in the position counters gives results that differ only in the
position counters, and emits tokens with the same type and text. Hypothesis: the state is not `Float` (the Float arm
reads `text_column` for the `text_column - 1` of the float split; with `1 ≤ text_column` on both sides — which
`Inv` guarantees — the same holds, but that case is not proved). -/
theorem C18_lex_positions_irrelevant (cc : CharClass) (a b : Lexer) (ch : Char) (h : PosEq a b)
    (hnf : a.state ≠ .float) : OutResEq (processChar cc a ch) (processChar cc b ch) :=
  processChar_congr cc ch h hnf

/-- (i) for `start_token`, as an equation -/
theorem C18_lex_start_token_positions (cc : CharClass) (σ : Lexer) (ch : Char) (r c tr tc n : Nat) :
    startToken cc (setPos σ r c tr tc n) ch = setPos (startToken cc σ ch) r c r c n :=
  startToken_setPos cc σ ch r c tr tc n

/-- (ii) inside a run of spaces/tabs (`WsA`: state Spaces, no newline yet) any further run `ws` of spaces/tabs is
consumed without emitting a token; the lexer stays in the same situation with the pending whitespace extended -/
theorem C18_lex_blank_run (cc : CharClass) (ws : List Char) (σ : Lexer) (cs : List Char) (toks : List LexerToken)
    (h : WsA σ cs) (hws : ∀ c ∈ ws, c = ' ' ∨ c = '\t') :
    ∃ σ1, runChars cc ws σ toks = .ok (σ1, toks) ∧ WsA σ1 (cs ++ ws) :=
  runA cc ws σ cs toks h hws

/-- same type; same text unless the token is trivia (Whitespace / Subexpression) -/
def TokSim (t t' : LexerToken) : Prop :=
  t.tokenType = t'.tokenType ∧ (t.text = t'.text ∨ t.tokenType = .whitespace ∨ t.tokenType = .subexpression)

/-- the two token lists have the same length and agree token by token in type and text (positions may differ) -/
def SameTypesAndTexts (l l' : List LexerToken) : Prop :=
  l.map (fun t => (t.tokenType, t.text)) = l'.map (fun t => (t.tokenType, t.text))

/-- (a) full statement, NOT proved: changing the amount of horizontal whitespace between two tokens (where there
already is some) changes only that Whitespace token's text and the positions of the following tokens -/
def C18_lex_more_space_statement : Prop :=
  ∀ (cc : CharClass) (a w w' b : List Char) (ta tb : List LexerToken) (ws : LexerToken), cc.Sane2 →
    w ≠ [] → w' ≠ [] → (∀ c ∈ w, c = ' ' ∨ c = '\t') → (∀ c ∈ w', c = ' ' ∨ c = '\t') →
    lex cc (a ++ w ++ b) = .ok (ta ++ [ws] ++ tb) → (ta.map (·.text)).flatten = a → ws.text = w →
    ws.tokenType = .whitespace →
    ∃ ws' tb', lex cc (a ++ w' ++ b) = .ok (ta ++ [ws'] ++ tb') ∧ ws'.text = w' ∧ ws'.tokenType = .whitespace ∧
      SameTypesAndTexts tb tb'

/-- (b) full statement, NOT proved: trailing spaces/tabs add exactly one Whitespace token -/
def C18_lex_trailing_space_statement : Prop :=
  ∀ (cc : CharClass) (s w : List Char) (toks : List LexerToken) (last : LexerToken), cc.Sane2 →
    w ≠ [] → (∀ c ∈ w, c = ' ' ∨ c = '\t') → lex cc s = .ok (toks ++ [last]) →
    last.tokenType ≠ .whitespace → last.tokenType ≠ .subexpression → last.tokenType ≠ .lineAnnotation →
    ∃ t, lex cc (s ++ w) = .ok (toks ++ [last, t]) ∧ t.tokenType = .whitespace ∧ t.text = w

/-- (c) full statement, NOT proved: an annotation `@word` followed by a space, inserted after whitespace, adds an
Annotation token and a Whitespace token and leaves the other tokens' types and texts unchanged -/
def C18_lex_insert_annotation_statement : Prop :=
  ∀ (cc : CharClass) (a b word : List Char) (ta tb : List LexerToken), cc.Sane2 →
    (∀ c ∈ word, cc.isAlphanumeric c = true ∨ c = '_') → a.getLast? = some ' ' →
    lex cc (a ++ b) = .ok (ta ++ tb) → (ta.map (·.text)).flatten = a →
    ∃ t1 t2 tb', lex cc (a ++ ('@' :: word) ++ [' '] ++ b) = .ok (ta ++ [t1, t2] ++ tb') ∧
      t1.tokenType = .annotation ∧ t1.text = '@' :: word ∧ t2.tokenType = .whitespace ∧ t2.text = [' '] ∧
      SameTypesAndTexts tb tb'

/-! ### position-insensitivity of the whole lexer, and the local whitespace edit -/

/-- (i), all states: `process_char` does not depend on the position counters; in the Float state `Inv`
(`1 ≤ text_column`, an invariant of every reachable state: `processChar_ok`) is used on both sides -/
theorem C18_lex_positions_irrelevant_all (cc : CharClass) (a b : Lexer) (ch : Char) (h : PosEq a b) (ha : Inv a)
    (hb : Inv b) : OutResEq (processChar cc a ch) (processChar cc b ch) :=
  processChar_congr_inv cc ch h ha hb

/-- (i), loop level: two runs of the lexer on the same remaining input, from states that agree up to the position
counters, both fail or both succeed with token lists `l0 ++ rest`, `l0' ++ rest'` whose new parts agree token by token
in type and text. Hypotheses: `cc.Sane`, `Inv` on both start states. -/
theorem C18_lex_positions_irrelevant_loop (cc : CharClass) (hcc : cc.Sane) (l0 l0' : List LexerToken)
    (input : List Char) (a b : Lexer) (h : PosEq a b) (ha : Inv a) (hb : Inv b) :
    OutSameExt l0 l0' (lexLoop cc input a l0) (lexLoop cc input b l0') := by
  have := lexLoop_congr cc hcc l0 l0' input a b [] [] h ha hb (SameTT.refl [])
  simpa using this

/-- C18, lexer half: inserting or removing spaces/tabs inside an existing Whitespace token (no newline) changes only
that token's text. `p` is a prefix of the input after which the lexer is inside a Whitespace token with text `cs` so far
(`InWhitespace`, e.g. `p` ends with a space that follows a complete token); `r`, `r'` are runs of spaces/tabs (either may
be empty); `b` is the rest of the input. Then `lex (p ++ r ++ b)` and `lex (p ++ r' ++ b)` both fail, or they succeed with
`toks ++ t :: rest` and `toks ++ t' :: rest'`: the same tokens `toks` before, ONE whitespace token each (`t`, `t'`, same
type, texts `cs ++ r ++ z'` and `cs ++ r' ++ z'` for the same continuation `z'`), and `rest`, `rest'` of equal length
with pairwise equal types and texts — only rows/columns differ, and those are determined by `C13_positions`. -/
theorem C18_lex_whitespace_local (cc : CharClass) (hcc : cc.Sane) (p r r' b cs : List Char) (σ : Lexer)
    (toks : List LexerToken) (hrun : runChars cc p (Lexer.init theTree) [] = .ok (σ, toks)) (h : InWhitespace σ cs)
    (hr : ∀ c ∈ r, c = ' ' ∨ c = '\t') (hr' : ∀ c ∈ r', c = ' ' ∨ c = '\t') :
    WsOut toks (cs ++ r) (cs ++ r') (lexFull cc (p ++ (r ++ b))) (lexFull cc (p ++ (r' ++ b))) :=
  lexFull_whitespace_local cc hcc p r r' b cs σ toks hrun h hr hr'

/-- non-vacuity: after `a ` the lexer (Rust tables) is inside a Whitespace token with text `" "` … -/
example : (match runChars rustTables ['a', ' '] (Lexer.init theTree) [] with
    | .ok (σ, _) => inWhitespaceB σ [' ']
    | _ => false) = true := by decide +kernel

/-- … and `a b+1` / `a \t  b+1` lex to the same tokens up to the whitespace token's text and the columns after it -/
example :
    (match lex rustTables ['a', ' ', 'b', '+', '1'], lex rustTables ['a', ' ', '\t', ' ', ' ', 'b', '+', '1'] with
     | .ok l, .ok l' => (l.map fun t => (t.tokenType, t.text, t.column), l'.map fun t => (t.tokenType, t.text, t.column))
     | _, _ => ([], [])) =
    ([(.identifier, ['a'], 0), (.whitespace, [' '], 1), (.identifier, ['b'], 2), (.plusSign, ['+'], 3), (.number, ['1'], 4)],
     [(.identifier, ['a'], 0), (.whitespace, [' ', '\t', ' ', ' '], 1), (.identifier, ['b'], 5), (.plusSign, ['+'], 6),
      (.number, ['1'], 7)]) := by decide +kernel

/-! ### inserting whitespace where there was none is NOT neutral for the lexer (finding) -/

/-- "none → some" form of (a): if `a ++ b` lexes to `ta ++ tb` with `ta` spelling `a` (the lexer already separates the two
parts), then `a ++ " " ++ b` lexes to `ta ++ [ws] ++ tb'` with `tb'` of the same types and texts as `tb` -/
def C18_lex_insert_space_statement : Prop :=
  ∀ (a b : List Char) (ta tb : List LexerToken), lex rustTables (a ++ b) = .ok (ta ++ tb) →
    (ta.map (·.text)).flatten = a →
    ∃ ws tb', lex rustTables (a ++ [' '] ++ b) = .ok (ta ++ [ws] ++ tb') ∧ ws.tokenType = .whitespace ∧
      SameTypesAndTexts tb tb'

/-- token types and texts of a successful lex (`[]` on failure) -/
def typesTexts (r : Outcome (List LexerToken)) : List (Gen.TokenType × List Char) :=
  match r with
  | .ok l => l.map fun t => (t.tokenType, t.text)
  | _ => []

/-- the counterexample: `a.5` lexes to Identifier `a`, Period `.`, Number `5` (after an identifier a period is an
access, `can_float = false`), but `a .5` lexes to Identifier `a`, Whitespace, Number `.5` — the Whitespace token resets
`can_float`, so the same characters `.5` after the inserted space form ONE float token. The lexer separates `a` from
`.5` in both inputs, yet the tokens after the boundary differ. -/
theorem C18_lex_insert_space_counterexample :
    typesTexts (lex rustTables ['a', '.', '5']) = [(.identifier, ['a']), (.period, ['.']), (.number, ['5'])] ∧
    typesTexts (lex rustTables ['a', ' ', '.', '5']) = [(.identifier, ['a']), (.whitespace, [' ']), (.number, ['.', '5'])] := by
  decide +kernel

/-- hence the "none → some" statement is false for the lexer as it is (model = patched lexer, 0 disagreements on the
LEX suite): whitespace is not neutral before a `.digit` that follows an identifier, a value, a literal, a period or a
number. A lexer-level fix would be to let Whitespace keep `can_float` unchanged (`blocksFloat`/`can_float` computed from
the last non-trivia token). -/
theorem C18_lex_insert_space_false : ¬C18_lex_insert_space_statement := by
  intro h
  obtain ⟨c1, c2⟩ := C18_lex_insert_space_counterexample
  generalize hr : lex rustTables ['a', '.', '5'] = r at c1
  generalize hr' : lex rustTables ['a', ' ', '.', '5'] = r' at c2
  cases r with
  | ok l =>
    simp only [typesTexts] at c1
    cases l with
    | nil => simp at c1
    | cons t1 rest =>
      simp only [List.map_cons, List.cons.injEq, Prod.mk.injEq] at c1
      obtain ⟨⟨_, hx1⟩, hrest⟩ := c1
      obtain ⟨ws, tb', h2, _, hsame⟩ := h ['a'] ['.', '5'] [t1] rest (by simpa using hr) (by simp [hx1])
      have h2' : lex rustTables ['a', ' ', '.', '5'] = .ok ([t1] ++ [ws] ++ tb') := by simpa using h2
      rw [h2'] at hr'
      subst hr'
      have hlen := congrArg List.length c2
      have hs := congrArg List.length hsame
      have hr3 := congrArg List.length hrest
      simp [typesTexts, SameTypesAndTexts] at hlen hs hr3
      omega
  | err e => simp [typesTexts] at c1
  | panic m => simp [typesTexts] at c1
  | fuelOut => simp [typesTexts] at c1

end Garnish.Props.C18Lex
