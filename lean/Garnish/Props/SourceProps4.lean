/-
The WFProgram exclusions of `C01_compile_correct`, justified by witnesses (see the head of Props/SourceProps3.lean), and the
non-vacuity examples of Props/SourceProps2/3.lean: source strings, every hypothesis by evaluation.
-/
import Garnish.Props.SourceProps3
namespace Garnish.Props.SourceProps
open Garnish Garnish.Gen Garnish.Spec Garnish.Spec.Spell Garnish.Abs Garnish.Abs.Tree Garnish.Abs.Source Garnish.Model
open Garnish.Model.Parser Garnish.Model.Lexer Garnish.Model.Literals Garnish.Model.Build Garnish.Props.C01Build
open Garnish.Props.C01Source Garnish.Props.C02Numbered Garnish.Props.C01Text Garnish.Props.C01Blocks Garnish.Lemmas

variable {F : Type} (fo : FloatOps F) (host : Host F)

/-- a run that stops stops in one way only: if `k` steps end in the non-running result `r`, every run that halts halts in `r` -/
theorem C01_halt_unique {P : Prog F} : ∀ (k : Nat) (s0 : MState F) (r : StepRes F) (j : Nat),
    run fo host P k s0 = (r, j) → (∀ s', r ≠ .running s') →
    ∀ (n : Nat) (s'' : MState F), run fo host P n s0 = (.halted s'', n) → r = .halted s''
  | 0, s0, r, j, h, hr, _, _, _ => by
    simp only [run, Prod.mk.injEq] at h
    exact absurd h.1.symm (hr s0)
  | k + 1, s0, r, j, h, hr, n, s'', hn => by
    cases n with
    | zero => simp [run] at hn
    | succ n' =>
      simp only [run] at h hn
      cases hs : step fo host P s0 with
      | running s1 =>
        rw [hs] at h hn
        simp only [Prod.mk.injEq] at h hn
        exact C01_halt_unique k s1 r (run fo host P k s1).2 (Prod.ext h.1 rfl) hr n' s''
          (Prod.ext hn.1 (by have := hn.2; omega))
      | halted s1 =>
        rw [hs] at h hn
        simp only [Prod.mk.injEq] at h hn
        rw [← h.1]; exact hn.1
      | err e =>
        rw [hs] at hn
        simp only [Prod.mk.injEq] at hn
        exact absurd hn.1 (by simp)

def i32 (n : Int) : Expr F := .lit (.num (.int n))
def single (m : Expr F) : Program F := ⟨m, [(0, m)]⟩
def start (P : Prog F) (input : Val F) : MState F :=
  { pc := P.jumps[0]?.getD 0, regs := [], vals := [input], frames := [], trace := [] }

/-- `$ ?> 1 |> $ ?> 2`: an else-chain whose last arm is conditional -/
def devChain : Program F := single (.chain [(true, .input, i32 1), (true, .input, i32 2)] none)

/-- **(F1) the else-chain without a final arm deviates**: on input `$!` no arm matches; the source means `$` (= `$!`), the
compiled program executes `EndExpression` with an empty operand stack and ends in an error — it never halts. The shape is
excluded by `wfE` (and admitted by `WFProgramC` under the condition that some arm matches) -/
theorem C01_else_chain_no_final_arm_deviates :
    wfE (devChain (F := F)).main = false ∧
    evalProgram fo host 5 devChain .fls = .ok (.fls, ⟨.fls, []⟩) ∧
    (∃ e, run fo host (compile devChain) 5 (start (compile devChain) .fls) = (.err e, 5)) ∧
    ¬ ∃ n s, run fo host (compile (devChain (F := F))) n (start (compile devChain) .fls) = (.halted s, n) := by
  have hrun : run fo host (compile devChain) 5 (start (compile (devChain (F := F))) .fls) = (.err .state, 5) := by kernel_rfl
  refine ⟨rfl, by simp [evalProgram, evalBody, evalF, evalChain, devChain, single, i32, Val.truthy], ⟨_, hrun⟩, ?_⟩
  rintro ⟨n, s, h⟩
  have := C01_halt_unique fo host 5 _ _ _ hrun (by intro s' h'; cases h') n s h
  cases this

/-- `$ ?> (1, ^~ $!) |> 7`: a restart in operand position at top level -/
def devOperand : Program F := single (.chain [(true, .input, .list [i32 1, .reapply (.lit .fls)])] (some (i32 7)))

/-- **top-level `^~` in operand position deviates**: on input `$?` the source means `7` and the compiled program halts with
`7` (state: pc, regs, vals, frames, trace) — but the operand `1` that was pending at the restart is still on the operand
stack: `regs = []` fails. Excluded by `tail` -/
theorem C01_toplevel_operand_restart_deviates :
    tailR (devOperand (F := F)).main = false ∧
    evalProgram fo host 9 devOperand .tru = .ok (.num (.int 7), ⟨.fls, []⟩) ∧
    run fo host (compile devOperand) 10 (start (compile (devOperand (F := F))) .tru) =
      (.halted ⟨(compile (devOperand (F := F))).instrs.size, [.num (.int 1)], [.num (.int 7)], [], []⟩, 10) ∧
    ¬ ∃ n s, run fo host (compile (devOperand (F := F))) n (start (compile devOperand) .tru) = (.halted s, n) ∧ s.regs = [] := by
  have hrun : run fo host (compile devOperand) 10 (start (compile (devOperand (F := F))) .tru) =
      (.halted ⟨(compile (devOperand (F := F))).instrs.size, [.num (.int 1)], [.num (.int 7)], [], []⟩, 10) := by kernel_rfl
  refine ⟨by kernel_rfl, by kernel_rfl, hrun, ?_⟩
  rintro ⟨n, s, h, hregs⟩
  have := C01_halt_unique fo host 10 _ _ _ hrun (by intro s' h'; cases h') n s h
  have hs := StepRes.halted.inj this
  rw [← hs] at hregs
  exact absurd hregs (by simp)

/-- `$ ?> 10 [^~ $!] |> 5`: a restart out of a side-effect block -/
def devBlock : Program F := single (.chain [(true, .input, .sideAfter (i32 10) (.reapply (.lit .fls)))] (some (i32 5)))

/-- **`^~` out of a side-effect block deviates**: the source means `5`; the compiled program halts with `5` on top of the
input-value stack, the block's copy of `$` still below it (and the pending operand `10` on the operand stack): `vals = [v]`
fails. Excluded by `wfE` (clause `noR` of `sideAfter`) -/
theorem C01_restart_out_of_block_deviates :
    wfE (devBlock (F := F)).main = false ∧
    evalProgram fo host 9 devBlock .tru = .ok (.num (.int 5), ⟨.fls, []⟩) ∧
    run fo host (compile devBlock) 11 (start (compile (devBlock (F := F))) .tru) =
      (.halted ⟨(compile (devBlock (F := F))).instrs.size, [.num (.int 10)], [.num (.int 5), .tru], [], []⟩, 11) ∧
    ¬ ∃ n s, run fo host (compile (devBlock (F := F))) n (start (compile devBlock) .tru) = (.halted s, n) ∧
      s.vals = [.num (.int 5)] := by
  have hrun : run fo host (compile devBlock) 11 (start (compile (devBlock (F := F))) .tru) =
      (.halted ⟨(compile (devBlock (F := F))).instrs.size, [.num (.int 10)], [.num (.int 5), .tru], [], []⟩, 11) := by kernel_rfl
  refine ⟨by kernel_rfl, by kernel_rfl, hrun, ?_⟩
  rintro ⟨n, s, h, hv⟩
  have := C01_halt_unique fo host 11 _ _ _ hrun (by intro s' h'; cases h') n s h
  have hs := StepRes.halted.inj this
  rw [← hs] at hv
  exact absurd hv (by simp)

end Garnish.Props.SourceProps
