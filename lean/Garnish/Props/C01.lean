/-
C01 — compiled programs compute what the source means.
The reference evaluator `Spec.evalF` (Spec/Eval.lean) is the meaning of a program; the abstract machine
`Abs.step` (Abs/Machine.lean) is the value-level model of `execute_current_instruction`.
This file: the per-construct execution lemmas of the machine that the compile-correctness proof is built
from (each is also what the corresponding evalF clause says), for all values, stacks and hosts.
`C01_compile_correct` (all programs) is stated below as a `def … : Prop`; the part proved so far is
listed in the theorems; the PROG suite compares the real pipeline with `evalF` program by program.
-/
import Garnish.Spec.Eval
namespace Garnish.Props.C01
open Garnish Gen Garnish.Abs Garnish.Spec

variable {F : Type} (fo : FloatOps F) (host : Host F)

/-- a literal: `Put k` pushes the constant -/
theorem C01_put (P : Prog F) (s : MState F) (k : Nat) (v : Val F)
    (hi : P.instrs[s.pc]? = some (.put, some k)) (hc : P.consts[k]? = some v) :
    step fo host P s = seqNext P s (.ok { s with regs := v :: s.regs }) := by
  simp [step, hi, hc]

/-- `$`: `PutValue` pushes the current input value (unit when there is none) -/
theorem C01_putValue (P : Prog F) (s : MState F) (d : Option Nat) (hi : P.instrs[s.pc]? = some (.putValue, d)) :
    step fo host P s = seqNext P s (.ok { s with regs := (s.vals.head?.getD .unit) :: s.regs }) := by
  simp only [step, hi]
  cases h : s.vals <;> simp

/-- a binary operator whose operands were pushed left then right: exactly what `evalF (.binary …)` does
after evaluating the operands — `settle` there is `pushOut` here -/
theorem C01_binary (P : Prog F) (s : MState F) (op : Instruction) (d : Option Nat) (l r : Val F) (rs : List (Val F))
    (o : OpOut F) (hi : P.instrs[s.pc]? = some (op, d)) (hr : s.regs = r :: l :: rs)
    (hu : unaryOp fo op r = none) (hb : binaryOp fo op l r = some o)
    (hop : op ≠ .apply ∧ op ≠ .makePair ∧ op ≠ .applyType) :
    step fo host P s = seqNext P s (pushOut host { s with regs := rs } o) := by
  obtain ⟨h1, h2, h3⟩ := hop
  unfold step
  simp only [hi, hr]
  cases op <;> first
    | (exfalso; exact h1 rfl) | (exfalso; exact h2 rfl) | (exfalso; exact h3 rfl)
    | (simp [binaryOp] at hb; done) | (simp [unaryOp] at hu; done) | (simp only [hu, hb]; done)

/-- what `settle` does in the evaluator is what `pushOut` does in the machine -/
theorem C01_settle_is_pushOut (s : MState F) (st : St F) (o : OpOut F) (v : Val F) (st' : St F)
    (htr : st.trace = s.trace) (h : settle host st o = .ok (v, st')) :
    pushOut host s o = .ok { s with regs := v :: s.regs, trace := st'.trace } := by
  cases o with
  | val x => simp [settle] at h; obtain ⟨rfl, rfl⟩ := h; simp [pushOut, htr]
  | defer op l r =>
    simp only [settle] at h
    simp only [pushOut]
    cases hd : host.defer op l r <;> simp [hd] at h ⊢ <;> obtain ⟨rfl, rfl⟩ := h <;> simp [htr]
  | err e => simp [settle] at h

/-- pair: the builder pushes right then left, `MakePair` pops the left one first -/
theorem C01_makePair (P : Prog F) (s : MState F) (d : Option Nat) (l r : Val F) (rs : List (Val F))
    (hi : P.instrs[s.pc]? = some (.makePair, d)) (hr : s.regs = l :: r :: rs) :
    step fo host P s = seqNext P s (.ok { s with regs := .pair l r :: rs }) := by
  simp [step, hi, hr]

/-- a list of `n` items pushed in order -/
theorem C01_makeList (P : Prog F) (s : MState F) (n : Nat) (hi : P.instrs[s.pc]? = some (.makeList, some n))
    (hn : n ≤ s.regs.length) :
    step fo host P s = seqNext P s (.ok { s with regs := .list (s.regs.take n).reverse :: s.regs.drop n }) := by
  have : ¬ n > s.regs.length := by omega
  simp [step, hi, this]

/-- `a ; b`: the left result becomes the input value -/
theorem C01_updateValue (P : Prog F) (s : MState F) (d : Option Nat) (r v : Val F) (rs vs : List (Val F))
    (hi : P.instrs[s.pc]? = some (.updateValue, d)) (hr : s.regs = r :: rs) (hv : s.vals = v :: vs) :
    step fo host P s = seqNext P s (.ok { s with regs := rs, vals := r :: vs }) := by
  simp [step, hi, hr, hv]

/-- identifier: looked up in the current input value, then offered to the host once, then unit —
the machine's `resolveStep` is the evaluator's `resolveVal` -/
theorem C01_resolve_agrees (s : MState F) (st : St F) (sym : Nat) (cur : Val F) (vs : List (Val F))
    (hv : s.vals = cur :: vs) (hin : st.inp = cur) (htr : st.trace = s.trace) :
    (match resolveVal fo host st sym with
     | .ok (v, st') => resolveStep fo host s (.sym sym) = .ok { s with regs := v :: s.regs, trace := st'.trace }
     | .err e => resolveStep fo host s (.sym sym) = .error e
     | .fuelOut => False) := by
  simp only [resolveVal, resolveStep, hv, hin]
  cases hg : getAccess fo (.sym sym) cur with
  | some v => simp [htr]
  | none => cases hh : host.resolve sym <;> simp [hh, htr]
  | unsupported => cases hh : host.resolve sym <;> simp [hh, htr]
  | err e => cases e <;> simp <;> (cases hh : host.resolve sym <;> simp [hh, htr])

/-- apply of an expression value: a frame with the return point and the caller's operands, the
argument as the new input value, control at the body's entry -/
theorem C01_apply_expression (P : Prog F) (s : MState F) (d : Option Nat) (j t : Nat) (x : Val F) (rs : List (Val F))
    (hi : P.instrs[s.pc]? = some (.apply, d)) (hr : s.regs = x :: .expr j :: rs) (hj : P.jumps[j]? = some t) :
    step fo host P s = finish P (.ok ({ s with regs := rs, vals := x :: s.vals, frames := ⟨s.pc + 1, rs⟩ :: s.frames }, t)) := by
  simp [step, hi, hr, applyStep, applyKind, jumpTarget, hj, bind, Except.bind]

/-- end of a called expression: the result replaces whatever the body left, the argument is popped,
control returns after the call -/
theorem C01_endExpression_return (P : Prog F) (s : MState F) (d : Option Nat) (r : Val F) (rs : List (Val F))
    (fr : Frame F) (frs : List (Frame F))
    (hi : P.instrs[s.pc]? = some (.endExpression, d)) (hr : s.regs = r :: rs) (hf : s.frames = fr :: frs) :
    step fo host P s = finish P (.ok ({ s with regs := r :: fr.saved, vals := s.vals.tail, frames := frs }, fr.ret)) := by
  simp [step, hi, hr, hf]

/-- end of the program: the result becomes the current value and execution stops -/
theorem C01_endExpression_halt (P : Prog F) (s : MState F) (d : Option Nat) (r v : Val F) (rs vs : List (Val F))
    (hi : P.instrs[s.pc]? = some (.endExpression, d)) (hr : s.regs = r :: rs) (hf : s.frames = []) (hv : s.vals = v :: vs) :
    step fo host P s = .halted { s with regs := rs, vals := r :: vs, pc := P.instrs.size } := by
  simp [step, hi, hr, hf, hv]

/-- `^~`: the input value is replaced, not pushed; no frame is created; control goes to the entry -/
theorem C01_reapply (P : Prog F) (s : MState F) (j t : Nat) (v w : Val F) (rs vs : List (Val F))
    (hi : P.instrs[s.pc]? = some (.reapply, some j)) (hr : s.regs = v :: rs) (hv : s.vals = w :: vs) (hj : P.jumps[j]? = some t) :
    step fo host P s = finish P (.ok ({ s with regs := rs, vals := v :: vs }, t)) := by
  simp [step, hi, hr, hv, jumpTarget, hj]

/-- The full statement (not yet proved): for every program of the core language, every input and every
host, if the reference evaluator assigns value `v` with host-call trace `tr`, then the machine loaded with
the compiled program halts with current value `v`, the same trace, no pending operands, the input-value
stack at its initial depth and no frames. `compile` is the structured builder model. -/
def C01_compile_correct_statement (compile : Program F → Prog F) : Prop :=
  ∀ (p : Program F) (input : Val F) (fuel : Nat) (v : Val F) (st : St F),
    evalProgram fo host fuel p input = .ok (v, st) →
    ∃ n s, run fo host (compile p) n { pc := (compile p).jumps[0]?.getD 0, regs := [], vals := [input], frames := [], trace := [] }
            = (.halted s, n) ∧ s.vals = [v] ∧ s.regs = [] ∧ s.frames = [] ∧ s.trace = st.trace

/-! ### non-vacuity: the evaluator computes on a concrete program -/
example : (match evalProgram (F := F) fo Host.declining 10
    { main := .binary .makePair (.lit (.num (.int 1))) .input, bodies := [] } (.num (.int 5)) with
    | .ok (v, _) => v.typeOf == .pair | _ => false) = true := by
  simp [evalProgram, evalBody, evalF, binaryOp, settle, Val.typeOf]

end Garnish.Props.C01
