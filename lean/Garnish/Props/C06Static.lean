/-
C06 — evaluation is stack-balanced on every path: the static half.

`absDepth P entry` is an abstract interpreter over the instruction stream: it assigns to every reachable
instruction the operand depth relative to the base of the current frame, following both edges of conditional
jumps and of `And`/`Or`, treating a call (`Apply`, `EmptyApply`) by its net effect and starting every expression
body (the program's entry and the target of every `Expression` constant) at depth 0. It answers `some d` only
when the assignment is consistent: every instruction finds the operands it pops, the depth at a join is the same
on all incoming edges, and the depth is exactly 1 at every `EndExpression`.

The answer is validated by `checkDepth` (a local consistency check per instruction), so soundness does not
depend on the work-list search: `absDepth_sound` — if `absDepth P entry = some d` then along every execution of
`Abs.step` from the entry (operands empty, no frames) in which the expressions entered are expression bodies
known to the analysis, the frame-relative operand depth at `pc` is `d[pc]`, is never negative, and is 1 at every
`EndExpression`; in particular no instruction ever finds too few operands.
-/
import Garnish.Abs.Machine
namespace Garnish.Props.C06
open Garnish Gen Garnish.Abs

variable {F : Type}

/-- instructions of the generic operator arm of `step` that pop one operand and push one -/
def isUnaryOp : Instruction → Bool
  | .opposite | .absoluteValue | .bitwiseNot | .not | .tis | .typeOf | .accessLeftInternal
  | .accessRightInternal | .accessLengthInternal => true
  | _ => false

/-- instructions of the generic operator arm of `step` that pop two operands and push one -/
def isBinaryOp : Instruction → Bool
  | .add | .subtract | .multiply | .divide | .integerDivide | .power | .remainder
  | .bitwiseAnd | .bitwiseOr | .bitwiseXor | .bitwiseShiftLeft | .bitwiseShiftRight
  | .xor | .typeEqual | .equal | .notEqual | .lessThan | .lessThanOrEqual | .greaterThan | .greaterThanOrEqual
  | .access | .makeRange | .makeStartExclusiveRange | .makeEndExclusiveRange | .makeExclusiveRange
  | .concat | .partialApply => true
  | _ => false

/-- successors of the instruction at `pc` entered with relative depth `k`, with the depth they are entered with;
`none`: the instruction cannot execute at this depth (too few operands, missing operand, `EndExpression` at a
depth other than 1) -/
def edges (P : Prog F) (pc : Nat) (k : Nat) : Option (List (Nat × Nat)) :=
  match P.instrs[pc]? with
  | none => some []
  | some (i, o) =>
    let needs (n : Nat) (r : List (Nat × Nat)) : Option (List (Nat × Nat)) := if n ≤ k then some r else none
    let target : Option Nat := o.bind (fun j => P.jumps[j]?)
    match i with
    | .put | .putValue | .resolve => some [(pc + 1, k + 1)]
    | .invalid | .startSideEffect => some [(pc + 1, k)]
    | .pushValue | .updateValue | .endSideEffect => needs 1 [(pc + 1, k - 1)]
    | .jumpTo => target.map (fun t => [(t, k)])
    | .jumpIfTrue | .jumpIfFalse => target.bind (fun t => needs 1 [(t, k - 1), (pc + 1, k - 1)])
    | .and | .or => target.bind (fun t => needs 1 [(t, k - 1), (pc + 1, k)])
    | .reapply => target.bind (fun t => needs 1 [(t, k - 1)])
    | .endExpression => if k = 1 then some [] else none
    | .apply => needs 2 [(pc + 1, k - 1)]
    | .emptyApply => needs 1 [(pc + 1, k)]
    | .makePair => needs 2 [(pc + 1, k - 1)]
    | .makeList => o.bind (fun n => needs n [(pc + 1, k - n + 1)])
    | .applyType => some []                     -- the machine stops with an error: no successor
    | op =>
      if isUnaryOp op then needs 1 [(pc + 1, k)]
      else if isBinaryOp op then needs 2 [(pc + 1, k - 1)]
      else none

/-- entries of expression bodies: the targets of the `Expression` constants -/
def exprEntries (P : Prog F) : List Nat :=
  P.consts.toList.filterMap (fun v => match v with
    | .expr j => P.jumps[j]?
    | _ => none)

/-- local consistency of an assignment -/
def checkAt (P : Prog F) (d : Array (Option Nat)) (pc : Nat) : Bool :=
  match d[pc]? with
  | some (some k) =>
    match edges P pc k with
    | none => false
    | some es => es.all (fun e => decide (P.instrs.size ≤ e.1) || d[e.1]? == some (some e.2))
  | _ => true

def checkDepth (P : Prog F) (entries : List Nat) (d : Array (Option Nat)) : Bool :=
  d.size == P.instrs.size &&
  entries.all (fun t => decide (P.instrs.size ≤ t) || d[t]? == some (some 0)) &&
  (List.range P.instrs.size).all (checkAt P d)

/-- work-list search; `Except.error pc` = the program counter at which an inconsistency was found -/
def infer (P : Prog F) : Nat → List (Nat × Nat) → Array (Option Nat) → Except Nat (Array (Option Nat))
  | 0, [], d => .ok d
  | 0, (pc, _) :: _, _ => .error pc
  | _ + 1, [], d => .ok d
  | fuel + 1, (pc, k) :: work, d =>
    if P.instrs.size ≤ pc then infer P fuel work d else
    match d[pc]? with
    | some (some k') => if k = k' then infer P fuel work d else .error pc
    | _ =>
      match edges P pc k with
      | none => .error pc
      | some es => infer P fuel (es ++ work) (d.setIfInBounds pc (some k))

def absDepthE (P : Prog F) (entry : Nat) : Except Nat (Array (Option Nat)) :=
  let entries := entry :: exprEntries P
  match infer P (3 * P.instrs.size + entries.length + 1) (entries.map (fun t => (t, 0)))
      (Array.replicate P.instrs.size none) with
  | .error pc => .error pc
  | .ok d => if checkDepth P entries d then .ok d else .error P.instrs.size

/-- the abstract depth of every reachable instruction, if the program is balanced -/
def absDepth (P : Prog F) (entry : Nat) : Option (Array (Option Nat)) :=
  match absDepthE P entry with
  | .ok d => some d
  | .error _ => none

theorem absDepth_checked {P : Prog F} {entry : Nat} {d : Array (Option Nat)} (h : absDepth P entry = some d) :
    checkDepth P (entry :: exprEntries P) d = true := by
  simp only [absDepth, absDepthE] at h
  split at h
  · rename_i d' hd
    split at hd
    · simp at hd
    · split at hd
      · rename_i hc
        simp only [Except.ok.injEq] at hd
        simp only [Option.some.injEq] at h
        subst hd; subst h
        exact hc
      · simp at hd
  · simp at h

/-! ### arity of `step` -/

variable {fo : FloatOps F} {host : Host F}

theorem pushOut_len {s s' : MState F} {o : OpOut F} (h : pushOut host s o = .ok s') :
    s'.regs.length = s.regs.length + 1 ∧ s'.frames = s.frames ∧ s'.pc = s.pc := by
  cases o with
  | val v => simp [pushOut] at h; subst h; simp
  | defer op l r =>
    simp only [pushOut] at h
    cases hd : host.defer op l r <;> simp [hd] at h <;> subst h <;> simp
  | err e => simp [pushOut] at h

def Plain (P : Prog F) (s s' : MState F) (b : Nat) (es : List (Nat × Nat)) : Prop :=
  s'.pc < P.instrs.size ∧ s'.frames = s.frames ∧ ∃ e ∈ es, s'.pc = e.1 ∧ s'.regs.length = b + e.2

theorem finish_running {P : Prog F} {s1 s' : MState F} {n : Nat} (h : finish P (.ok (s1, n)) = .running s') :
    s' = { s1 with pc := n } := by
  simp only [finish] at h
  split at h <;> simp at h
  exact h.symm

theorem finish_running_lt {P : Prog F} {s1 s' : MState F} {n : Nat} (h : finish P (.ok (s1, n)) = .running s') :
    n < P.instrs.size := by
  simp only [finish] at h
  split at h <;> simp at h
  omega

theorem seq_running {P : Prog F} {s s1 s' : MState F} (h : seqNext P s (.ok s1) = .running s') :
    s' = { s1 with pc := s.pc + 1 } := finish_running h

/-- the generic operator arm of `step` -/
def genericArm (fo : FloatOps F) (host : Host F) (P : Prog F) (s : MState F) (op : Instruction) : StepRes F :=
  match s.regs with
  | [] => StepRes.err ErrClass.state
  | top :: rest =>
    match unaryOp fo op top with
    | some o => seqNext P s (pushOut host { s with regs := rest } o)
    | none =>
      match rest with
      | [] => StepRes.err ErrClass.state
      | l :: rs =>
        match binaryOp fo op l top with
        | some o => seqNext P s (pushOut host { s with regs := rs } o)
        | none => StepRes.err ErrClass.implementation

theorem step_generic {P : Prog F} {s : MState F} {op : Instruction} {o : Option Nat}
    (hi : P.instrs[s.pc]? = some (op, o)) (hg : (isUnaryOp op || isBinaryOp op) = true) :
    step fo host P s = genericArm fo host P s op := by
  unfold step
  simp only [hi]
  cases op <;> first | rfl | (simp [isUnaryOp, isBinaryOp] at hg)

theorem edges_generic {P : Prog F} {pc k : Nat} {op : Instruction} {o : Option Nat}
    (hi : P.instrs[pc]? = some (op, o)) (hg : (isUnaryOp op || isBinaryOp op) = true) :
    edges P pc k = (if isUnaryOp op then (if 1 ≤ k then some [(pc + 1, k)] else none)
      else (if 2 ≤ k then some [(pc + 1, k - 1)] else none)) := by
  unfold edges
  simp only [hi]
  cases op <;> first | rfl | (simp [isUnaryOp, isBinaryOp] at hg)

theorem generic_plain {P : Prog F} {s s' : MState F} {op : Instruction} {k b : Nat}
    (hk : s.regs.length = b + k)
    (hs : genericArm fo host P s op = .running s')
    (hu : isUnaryOp op = true → ∀ v, (unaryOp fo op v).isSome)
    (hb : isUnaryOp op = false → ∀ v, unaryOp fo op v = none) :
    (isUnaryOp op = true → 1 ≤ k → Plain P s s' b [(s.pc + 1, k)]) ∧
    (isUnaryOp op = false → 2 ≤ k → Plain P s s' b [(s.pc + 1, k - 1)]) := by
  constructor
  · intro h1 hk1
    unfold genericArm at hs
    rcases hr : s.regs with _ | ⟨top, rest⟩
    · simp [hr] at hk; omega
    · simp only [hr] at hs
      have := hu h1 top
      cases hu' : unaryOp fo op top with
      | none => simp [hu'] at this
      | some o =>
        simp only [hu'] at hs
        cases hp : pushOut host { s with regs := rest } o with
        | error e => simp [hp, seqNext] at hs
        | ok s1 =>
          rw [hp] at hs
          have hlt := finish_running_lt hs
          have := seq_running hs
          obtain ⟨l1, l2, _⟩ := pushOut_len hp
          subst this
          simp [hr] at hk
          exact ⟨hlt, l2, _, List.mem_singleton.2 rfl, rfl, by simp at l1 ⊢; omega⟩
  · intro h1 hk2
    unfold genericArm at hs
    rcases hr : s.regs with _ | ⟨top, _ | ⟨l, rs⟩⟩
    · simp [hr] at hk; omega
    · simp [hr] at hk; omega
    · simp only [hr, hb h1 top] at hs
      cases hb' : binaryOp fo op l top with
      | none => simp [hb'] at hs
      | some o =>
        simp only [hb'] at hs
        cases hp : pushOut host { s with regs := rs } o with
        | error e => simp [hp, seqNext] at hs
        | ok s1 =>
          rw [hp] at hs
          have hlt := finish_running_lt hs
          have := seq_running hs
          obtain ⟨l1, l2, _⟩ := pushOut_len hp
          subst this
          simp [hr] at hk
          exact ⟨hlt, l2, _, List.mem_singleton.2 rfl, rfl, by simp at l1 ⊢; omega⟩

theorem needs_some {n k : Nat} {r es : List (Nat × Nat)} (h : (if n ≤ k then some r else none) = some es) :
    n ≤ k ∧ es = r := by
  split at h
  · simp only [Option.some.injEq] at h; exact ⟨by assumption, h.symm⟩
  · cases h

theorem plain_fin {P : Prog F} {s s1 s' : MState F} {t b k' : Nat} {es : List (Nat × Nat)}
    (hs : finish P (.ok (s1, t)) = .running s') (hf : s1.frames = s.frames) (hl : s1.regs.length = b + k')
    (hm : (t, k') ∈ es) : Plain P s s' b es := by
  have hlt := finish_running_lt hs
  have := finish_running hs
  subst this
  exact ⟨hlt, hf, _, hm, rfl, hl⟩

theorem plain_seq {P : Prog F} {s s1 s' : MState F} {b k' : Nat} {es : List (Nat × Nat)}
    (hs : seqNext P s (.ok s1) = .running s') (hf : s1.frames = s.frames) (hl : s1.regs.length = b + k')
    (hm : (s.pc + 1, k') ∈ es) : Plain P s s' b es := plain_fin hs hf hl hm

theorem unary_table {op : Instruction} : (isUnaryOp op = true → ∀ v : Val F, (unaryOp fo op v).isSome) ∧
    (isUnaryOp op = false → ∀ v : Val F, unaryOp fo op v = none) := by
  cases op <;> simp [isUnaryOp, unaryOp, numOpOf]

/-- `step_arity`: every instruction other than a call or a return keeps the frames and moves along one of its
edges, consuming and producing exactly the operands of its fixed arity -/
theorem step_arity {P : Prog F} {s s' : MState F} {i : Instruction} {o : Option Nat} {k b : Nat} {es : List (Nat × Nat)}
    (hi : P.instrs[s.pc]? = some (i, o)) (hk : s.regs.length = b + k) (he : edges P s.pc k = some es)
    (hs : step fo host P s = .running s') (h1 : i ≠ .apply) (h2 : i ≠ .emptyApply) (h3 : i ≠ .endExpression) :
    Plain P s s' b es := by
  by_cases hg : (isUnaryOp i || isBinaryOp i) = true
  · rw [step_generic hi hg] at hs
    rw [edges_generic hi hg] at he
    have hgp := generic_plain (fo := fo) (host := host) hk hs unary_table.1 unary_table.2
    cases hu : isUnaryOp i
    · simp only [hu, Bool.false_eq_true, if_false] at he
      obtain ⟨hk1, rfl⟩ := needs_some he
      exact hgp.2 hu hk1
    · simp only [hu, if_true] at he
      obtain ⟨hk1, rfl⟩ := needs_some he
      exact hgp.1 hu hk1
  unfold edges at he
  simp only [hi] at he
  unfold step at hs
  simp only [hi] at hs
  cases i <;> simp only [] at he hs
  case apply => exact absurd rfl h1
  case emptyApply => exact absurd rfl h2
  case endExpression => exact absurd rfl h3
  case applyType => simp at hs
  case invalid =>
    simp only [Option.some.injEq] at he; subst he
    exact plain_seq hs rfl (by simpa using hk) (List.mem_singleton.2 rfl)
  case put =>
    simp only [Option.some.injEq] at he; subst he
    cases o with
    | none => simp at hs
    | some c =>
      simp only at hs
      split at hs
      · exact plain_seq hs rfl (by simp [hk]; omega) (List.mem_singleton.2 rfl)
      · simp at hs
  case putValue =>
    simp only [Option.some.injEq] at he; subst he
    split at hs <;> exact plain_seq hs rfl (by simp [hk]; omega) (List.mem_singleton.2 rfl)
  case resolve =>
    simp only [Option.some.injEq] at he; subst he
    cases o with
    | none => simp at hs
    | some c =>
      simp only at hs
      split at hs
      · simp at hs
      · rename_i key _
        cases hr : resolveStep fo host s key with
        | error e => simp [hr, seqNext] at hs
        | ok s1 =>
          rw [hr] at hs
          have hrl : s1.regs.length = s.regs.length + 1 ∧ s1.frames = s.frames := by
            simp only [resolveStep] at hr
            split at hr
            · simp at hr
            · simp at hr; subst hr; simp
            · split at hr
              · split at hr <;> simp at hr <;> subst hr <;> simp
              · simp at hr; subst hr; simp
          exact plain_seq hs hrl.2 (by rw [hrl.1, hk]; omega) (List.mem_singleton.2 rfl)
  case startSideEffect =>
    simp only [Option.some.injEq] at he; subst he
    split at hs <;> exact plain_seq hs rfl (by simpa using hk) (List.mem_singleton.2 rfl)
  case pushValue =>
    obtain ⟨hk1, rfl⟩ := needs_some he
    split at hs
    · simp at hs
    · rename_i r rs hr
      exact plain_seq hs rfl (by simp [hr] at hk; simp; omega) (List.mem_singleton.2 rfl)
  case updateValue =>
    obtain ⟨hk1, rfl⟩ := needs_some he
    split at hs
    · simp at hs
    · rename_i r rs hr
      split at hs
      · simp at hs
      · exact plain_seq hs rfl (by simp [hr] at hk; simp; omega) (List.mem_singleton.2 rfl)
  case endSideEffect =>
    obtain ⟨hk1, rfl⟩ := needs_some he
    split at hs
    · simp at hs
    · split at hs
      · simp at hs
      · rename_i r rs hr
        exact plain_seq hs rfl (by simp [hr] at hk; simp; omega) (List.mem_singleton.2 rfl)
  case jumpTo =>
    cases o with
    | none => simp at hs
    | some j =>
      simp only [Option.bind, Option.map] at he
      simp only [jumpTarget] at hs
      cases hj : P.jumps[j]? with
      | none => simp [hj, Except.map, finish] at hs
      | some t =>
        simp only [hj, Option.some.injEq] at he; subst he
        simp only [hj, Except.map] at hs
        exact plain_fin hs rfl hk (List.mem_singleton.2 rfl)
  case reapply =>
    cases o with
    | none => simp at hs
    | some j =>
      simp only [Option.bind] at he
      simp only [jumpTarget] at hs
      cases hj : P.jumps[j]? with
      | none => simp [hj] at he
      | some t =>
        simp only [hj] at he
        obtain ⟨hk1, rfl⟩ := needs_some he
        split at hs
        · simp at hs
        · rename_i v rs hr
          simp only [hj] at hs
          split at hs
          · simp at hs
          · exact plain_fin hs rfl (by simp [hr] at hk; simp; omega) (List.mem_singleton.2 rfl)
  case jumpIfTrue =>
    cases o with
    | none => simp at hs
    | some j =>
      simp only [Option.bind] at he
      simp only [jumpTarget] at hs
      cases hj : P.jumps[j]? with
      | none => simp [hj] at he
      | some t =>
        simp only [hj] at he
        obtain ⟨hk1, rfl⟩ := needs_some he
        simp only [hj] at hs
        split at hs
        · simp at hs
        · rename_i dv rs hr
          have hl : rs.length = b + (k - 1) := by simp [hr] at hk; omega
          cases hd : dv.truthy <;> simp only [hd] at hs
          · exact plain_fin hs rfl hl (by simp)
          · exact plain_fin hs rfl hl (by simp)
  case jumpIfFalse =>
    cases o with
    | none => simp at hs
    | some j =>
      simp only [Option.bind] at he
      simp only [jumpTarget] at hs
      cases hj : P.jumps[j]? with
      | none => simp [hj] at he
      | some t =>
        simp only [hj] at he
        obtain ⟨hk1, rfl⟩ := needs_some he
        simp only [hj] at hs
        split at hs
        · simp at hs
        · rename_i dv rs hr
          have hl : rs.length = b + (k - 1) := by simp [hr] at hk; omega
          cases hd : dv.truthy <;> simp only [hd] at hs
          · exact plain_fin hs rfl hl (by simp)
          · exact plain_fin hs rfl hl (by simp)
  case and =>
    cases o with
    | none => simp at hs
    | some j =>
      simp only [Option.bind] at he
      simp only [jumpTarget] at hs
      cases hj : P.jumps[j]? with
      | none => simp [hj] at he
      | some t =>
        simp only [hj] at he
        obtain ⟨hk1, rfl⟩ := needs_some he
        split at hs
        · simp at hs
        · rename_i dv rs hr
          simp only [hj, Except.map] at hs
          split at hs
          · exact plain_fin (k' := k - 1) hs rfl (by simp [hr] at hk; simp; omega) (by simp)
          · exact plain_seq hs rfl (by simp [hr] at hk; simp; omega) (by simp)
  case or =>
    cases o with
    | none => simp at hs
    | some j =>
      simp only [Option.bind] at he
      simp only [jumpTarget] at hs
      cases hj : P.jumps[j]? with
      | none => simp [hj] at he
      | some t =>
        simp only [hj] at he
        obtain ⟨hk1, rfl⟩ := needs_some he
        split at hs
        · simp at hs
        · rename_i dv rs hr
          simp only [hj, Except.map] at hs
          split at hs
          · exact plain_seq hs rfl (by simp [hr] at hk; simp; omega) (by simp)
          · exact plain_fin (k' := k - 1) hs rfl (by simp [hr] at hk; simp; omega) (by simp)
  case makePair =>
    obtain ⟨hk1, rfl⟩ := needs_some he
    split at hs
    · rename_i l r rs hr
      exact plain_seq hs rfl (by simp [hr] at hk; simp; omega) (List.mem_singleton.2 rfl)
    · simp at hs
  case makeList =>
    cases o with
    | none => simp at hs
    | some n =>
      simp only [Option.bind] at he
      obtain ⟨hk1, rfl⟩ := needs_some he
      simp only at hs
      split at hs
      · simp at hs
      · rename_i hn
        exact plain_seq hs rfl (by simp [List.length_drop]; omega) (List.mem_singleton.2 rfl)
  all_goals (simp [isUnaryOp, isBinaryOp] at hg)

/-! ### the invariant and its preservation -/

def base : List (Frame F) → Nat
  | [] => 0
  | fr :: _ => fr.saved.length

/-- every frame's return point expects the caller's operands plus the result of the call -/
def FramesOK (P : Prog F) (d : Array (Option Nat)) : List (Frame F) → Prop
  | [] => True
  | fr :: rest => base rest ≤ fr.saved.length ∧
      (P.instrs.size ≤ fr.ret ∨ d[fr.ret]? = some (some (fr.saved.length - base rest + 1))) ∧ FramesOK P d rest

/-- the frame-relative operand depth at `pc` is the abstract depth (in particular it is not negative) -/
def Good (P : Prog F) (d : Array (Option Nat)) (s : MState F) : Prop :=
  base s.frames ≤ s.regs.length ∧ d[s.pc]? = some (some (s.regs.length - base s.frames)) ∧ FramesOK P d s.frames

theorem check_at {P : Prog F} {entries : List Nat} {d : Array (Option Nat)} (hc : checkDepth P entries d = true)
    {pc k : Nat} (hd : d[pc]? = some (some k)) :
    ∃ es, edges P pc k = some es ∧ ∀ e ∈ es, P.instrs.size ≤ e.1 ∨ d[e.1]? = some (some e.2) := by
  simp only [checkDepth, Bool.and_eq_true, beq_iff_eq, List.all_eq_true, List.mem_range] at hc
  obtain ⟨⟨hsz, _⟩, hall⟩ := hc
  have hpc : pc < P.instrs.size := by
    rw [← hsz]
    exact (Array.getElem?_eq_some_iff.mp hd).1
  have := hall pc hpc
  simp only [checkAt, hd] at this
  split at this
  · simp at this
  · rename_i es he
    refine ⟨es, he, fun e hm => ?_⟩
    have := List.all_eq_true.1 this e hm
    simpa using this

theorem check_entry {P : Prog F} {entries : List Nat} {d : Array (Option Nat)} (hc : checkDepth P entries d = true)
    {t : Nat} (ht : t ∈ entries) : P.instrs.size ≤ t ∨ d[t]? = some (some 0) := by
  simp only [checkDepth, Bool.and_eq_true, beq_iff_eq, List.all_eq_true] at hc
  have := hc.1.2 t ht
  simpa using this

/-- one step of the machine preserves the invariant, provided a call enters an expression body known to the
analysis (an entry in `entries`) -/
theorem good_step {P : Prog F} {entries : List Nat} {d : Array (Option Nat)} (hc : checkDepth P entries d = true)
    {s s' : MState F} (hg : Good P d s) (hs : step fo host P s = .running s')
    (henter : s'.frames.length = s.frames.length + 1 → s'.pc ∈ entries) : Good P d s' := by
  obtain ⟨hb, hd, hf⟩ := hg
  obtain ⟨es, he, hes⟩ := check_at hc hd
  have hk : s.regs.length = base s.frames + (s.regs.length - base s.frames) := by omega
  cases hi : P.instrs[s.pc]? with
  | none => simp [step, hi] at hs
  | some io =>
    obtain ⟨i, o⟩ := io
    by_cases h1 : i = .apply
    · subst h1
      simp only [edges, hi] at he
      obtain ⟨hk2, rfl⟩ := needs_some he
      rcases hr : s.regs with _ | ⟨r, _ | ⟨l, rs⟩⟩
      · simp [hr] at hk2
      · simp [hr] at hk2; omega
      · simp only [step, hi, hr] at hs
        simp only [hr, List.length_cons] at hb hd hk2 hk
        have hedge := hes (s.pc + 1, s.regs.length - base s.frames - 1) (by simp [hr])
        simp only [hr, List.length_cons] at hedge
        simp only [applyStep] at hs
        cases hkind : applyKind fo .apply true l r with
        | enter j input =>
          simp only [hkind, jumpTarget] at hs
          cases hj : P.jumps[j]? with
          | none => simp [hj, finish, bind, Except.bind] at hs
          | some t =>
            simp only [hj, bind, Except.bind] at hs
            have hlt := finish_running_lt hs
            have := finish_running hs
            subst this
            have hin : t ∈ entries := henter (by simp)
            rcases check_entry hc hin with h0 | h0
            · omega
            · refine ⟨by simp [base], by simpa [base] using h0, ?_, ?_, hf⟩
              · show base s.frames ≤ rs.length
                omega
              · show P.instrs.size ≤ s.pc + 1 ∨ d[s.pc + 1]? = some (some (rs.length - base s.frames + 1))
                rcases hedge with h | h
                · exact .inl h
                · right; rw [h]; congr 2; omega
        | external n arg =>
          simp only [hkind] at hs
          split at hs <;> (
            have hlt := finish_running_lt hs
            have := finish_running hs
            subst this
            rcases hedge with h | h
            · omega
            · refine ⟨?_, ?_, hf⟩
              · show base s.frames ≤ (_ :: rs).length
                simp only [List.length_cons]; omega
              · show d[s.pc + 1]? = some (some ((_ :: rs).length - base s.frames))
                rw [h]; simp only [List.length_cons]; congr 2; omega)
        | out oo =>
          simp only [hkind] at hs
          cases hp : pushOut host { s with regs := rs } oo with
          | error e => simp [hp, finish, bind, Except.bind] at hs
          | ok s1 =>
            simp only [hp, bind, Except.bind] at hs
            have hlt := finish_running_lt hs
            have := finish_running hs
            subst this
            obtain ⟨l1, l2, _⟩ := pushOut_len hp
            simp only at l1 l2
            rcases hedge with h | h
            · omega
            · refine ⟨?_, ?_, ?_⟩
              · show base s1.frames ≤ s1.regs.length
                rw [l1, l2]; omega
              · show d[s.pc + 1]? = some (some (s1.regs.length - base s1.frames))
                rw [h, l1, l2]; congr 2; omega
              · show FramesOK P d s1.frames
                rw [l2]; exact hf
    · by_cases h2 : i = .emptyApply
      · subst h2
        simp only [edges, hi] at he
        obtain ⟨hk2, rfl⟩ := needs_some he
        rcases hr : s.regs with _ | ⟨l, rs⟩
        · simp [hr] at hk2
        · simp only [step, hi, hr] at hs
          simp only [hr, List.length_cons] at hb hd hk2 hk
          have hedge := hes (s.pc + 1, s.regs.length - base s.frames) (by simp [hr])
          simp only [hr, List.length_cons] at hedge
          simp only [applyStep] at hs
          cases hkind : applyKind fo .emptyApply false l .unit with
          | enter j input =>
            simp only [hkind, jumpTarget] at hs
            cases hj : P.jumps[j]? with
            | none => simp [hj, finish, bind, Except.bind] at hs
            | some t =>
              simp only [hj, bind, Except.bind] at hs
              have hlt := finish_running_lt hs
              have := finish_running hs
              subst this
              have hin : t ∈ entries := henter (by simp)
              rcases check_entry hc hin with h0 | h0
              · omega
              · refine ⟨by simp [base], by simpa [base] using h0, ?_, ?_, hf⟩
                · show base s.frames ≤ rs.length
                  omega
                · show P.instrs.size ≤ s.pc + 1 ∨ d[s.pc + 1]? = some (some (rs.length - base s.frames + 1))
                  rcases hedge with h | h
                  · exact .inl h
                  · right; rw [h]; congr 2; omega
          | external n arg =>
            simp only [hkind] at hs
            split at hs <;> (
              have hlt := finish_running_lt hs
              have := finish_running hs
              subst this
              rcases hedge with h | h
              · omega
              · refine ⟨?_, ?_, hf⟩
                · show base s.frames ≤ (_ :: rs).length
                  simp only [List.length_cons]; omega
                · show d[s.pc + 1]? = some (some ((_ :: rs).length - base s.frames))
                  rw [h]; simp only [List.length_cons])
          | out oo =>
            simp only [hkind] at hs
            cases hp : pushOut host { s with regs := rs } oo with
            | error e => simp [hp, finish, bind, Except.bind] at hs
            | ok s1 =>
              simp only [hp, bind, Except.bind] at hs
              have hlt := finish_running_lt hs
              have := finish_running hs
              subst this
              obtain ⟨l1, l2, _⟩ := pushOut_len hp
              simp only at l1 l2
              rcases hedge with h | h
              · omega
              · refine ⟨?_, ?_, ?_⟩
                · show base s1.frames ≤ s1.regs.length
                  rw [l1, l2]; omega
                · show d[s.pc + 1]? = some (some (s1.regs.length - base s1.frames))
                  rw [h, l1, l2]
                · show FramesOK P d s1.frames
                  rw [l2]; exact hf
      · by_cases h3 : i = .endExpression
        · subst h3
          simp only [step, hi] at hs
          rcases hr : s.regs with _ | ⟨r, rs⟩
          · simp [hr] at hs
          · simp only [hr] at hs
            rcases hfr : s.frames with _ | ⟨fr, frs⟩
            · simp only [hfr] at hs
              split at hs <;> simp at hs
            · simp only [hfr] at hs
              have hlt := finish_running_lt hs
              have := finish_running hs
              subst this
              simp only [hfr, FramesOK] at hf
              obtain ⟨f1, f2, f3⟩ := hf
              rcases f2 with h | h
              · omega
              · refine ⟨?_, ?_, f3⟩
                · show base frs ≤ (r :: fr.saved).length
                  simp only [List.length_cons]; omega
                · show d[fr.ret]? = some (some ((r :: fr.saved).length - base frs))
                  rw [h]; simp only [List.length_cons]; congr 2; omega
        · have hp := step_arity (fo := fo) (host := host) hi hk he hs h1 h2 h3
          obtain ⟨hlt, pf, e, hm, hpc, hl⟩ := hp
          rcases hes e hm with h | h
          · omega
          · exact ⟨by rw [pf, hl]; omega, by rw [hpc, h, pf, hl]; congr 2; omega, by rw [pf]; exact hf⟩

/-! ### soundness -/

/-- executions of the machine in which every call enters an expression body known to the analysis -/
inductive ReachK (fo : FloatOps F) (host : Host F) (P : Prog F) (entries : List Nat) : MState F → MState F → Prop where
  | refl (s : MState F) : ReachK fo host P entries s s
  | snoc {s s' s'' : MState F} : ReachK fo host P entries s s' → step fo host P s' = .running s'' →
      (s''.frames.length = s'.frames.length + 1 → s''.pc ∈ entries) → ReachK fo host P entries s s''

/-- **absDepth_sound**: if the analysis returns an assignment `d`, then in every state reached from the entry (no
operands, no frames) the operand depth relative to the current frame is `d[pc]` — a natural number, so never
negative — and every frame's return point is consistent with it -/
theorem absDepth_sound {P : Prog F} {entry : Nat} {d : Array (Option Nat)} (h : absDepth P entry = some d)
    (hentry : entry < P.instrs.size) (vals : List (Val F)) (tr : List (HostCall F)) {s : MState F}
    (hr : ReachK fo host P (entry :: exprEntries P) ⟨entry, [], vals, [], tr⟩ s) : Good P d s := by
  have hc := absDepth_checked h
  induction hr with
  | refl =>
    rcases check_entry hc (List.mem_cons_self) with h0 | h0
    · omega
    · exact ⟨Nat.le_refl _, by simpa [base] using h0, trivial⟩
  | snoc _ hs hen ih => exact good_step hc ih hs hen

/-- … in particular the depth is exactly 1 at every `EndExpression` that is reached, and every reached
instruction finds the operands of its arity (`edges` is defined at the abstract depth) -/
theorem absDepth_endExpression_one {P : Prog F} {entry : Nat} {d : Array (Option Nat)} (h : absDepth P entry = some d)
    (hentry : entry < P.instrs.size) (vals : List (Val F)) (tr : List (HostCall F)) {s : MState F}
    (hr : ReachK fo host P (entry :: exprEntries P) ⟨entry, [], vals, [], tr⟩ s)
    {o : Option Nat} (hi : P.instrs[s.pc]? = some (.endExpression, o)) :
    s.regs.length = base s.frames + 1 := by
  obtain ⟨hb, hd, _⟩ := absDepth_sound (fo := fo) (host := host) h hentry vals tr hr
  obtain ⟨es, he, _⟩ := check_at (absDepth_checked h) hd
  simp only [edges, hi] at he
  split at he
  · omega
  · cases he

theorem absDepth_operands_present {P : Prog F} {entry : Nat} {d : Array (Option Nat)} (h : absDepth P entry = some d)
    (hentry : entry < P.instrs.size) (vals : List (Val F)) (tr : List (HostCall F)) {s : MState F}
    (hr : ReachK fo host P (entry :: exprEntries P) ⟨entry, [], vals, [], tr⟩ s) :
    ∃ es, edges P s.pc (s.regs.length - base s.frames) = some es := by
  obtain ⟨_, hd, _⟩ := absDepth_sound (fo := fo) (host := host) h hentry vals tr hr
  obtain ⟨es, he, _⟩ := check_at (absDepth_checked h) hd
  exact ⟨es, he⟩

/-- The completeness statement for compiled code, as a predicate on a compiler and a well-formedness condition.
It is PROVED for `Abs.compile` and `WFBalanced` in Props/C01Compile.lean (`C06.C06_compile_balanced`, with
`C06_compile_balanced_sound`): every compiled program whose bodies are well formed and contain `^~` in tail positions
only — in every body, not just the top-level one — is balanced. Operand-position `^~` (`{ 1 + (^~ 2) }`) is rejected by
the analysis by design: the depth at the body's entry then differs by path (DESIGN §6 C06 "Decision recorded here");
an else-chain without a final arm is rejected with depth 0 at `EndExpression` (finding #6). -/
def C06_compile_balanced_statement {Prg : Type} (compile : Prg → Prog F) (WF : Prg → Prop) : Prop :=
  ∀ p, WF p → ∃ d, absDepth (compile p) ((compile p).jumps[0]?.getD 0) = some d

end Garnish.Props.C06
