/-
C18, "wrapping a complete operand in parentheses": decidable syntactic conditions.

`WrapOK` (Lemmas/RefWrap2) states through the reference parser`s own run that `mid` is a complete operand.  Here: conditions
on the token lists alone, for the two common shapes of `mid`:
  * `wrapValueOK pre v post`   — `mid = [v]`, a value token (number, identifier, symbol, char list, …): `v` is not an
                                 Identifier whose last non-trivia predecessor is `.` (the Property position: witness
                                 `C18_wrap_property_differs`); the first operator after it walks over it (`NextPasses`,
                                 always true for a value).  No condition about space lists is needed: `a x` and `a (x)` are
                                 both lists.
  * `wrapGroupOK inner`        — `mid = ( inner )` with balanced `inner` (double parentheses): no further condition.
`C18_refParse_wrapValue` / `C18_refParse_wrapGroup`: if the reference parser accepts the original list, both lists have the
same reference tree up to positions and `( )` nodes — for ALL token lists.  `C18_parse_wrapValue_syntactic` /
`C18_parse_wrapGroup_syntactic`: the real algorithm on `frag9`, with decidable hypotheses only.
-/
import Garnish.Lemmas.RefWrap3d
import Garnish.Props.C01Source
import Garnish.Props.C18Parse
namespace Garnish.Props.C18Wrap
open Garnish Garnish.Gen Garnish.Spec Garnish.Model.Parser Garnish.Props.C02Parse Garnish.Props.C18Parse

/-- **a value token in parentheses, reference parser, every token list** -/
theorem C18_refParse_wrapValue {pre post : List PToken} {v o c : PToken} {T : RTree}
    (hs : wrapValueOK pre v post = true) (ho : o.type = .startGroup) (hc : c.type = .endGroup)
    (hn : NoTrim (pre ++ ([v] ++ post))) (hn' : NoTrim (pre ++ o :: ([v] ++ c :: post)))
    (href : refParse Table.gen (pre ++ ([v] ++ post)) = .ok T) :
    OutcomeEq TreeEqGroups (refParse Table.gen (pre ++ ([v] ++ post))) (refParse Table.gen (pre ++ o :: ([v] ++ c :: post))) := by
  rw [refParse_noTrim Table.gen hn] at href
  obtain ⟨f, stack, f1, M, M0, hw⟩ := wrapOK_value href hs
  exact C18_refParse_wrapOperand hw ho hc hn hn'

/-- **a value token in parentheses, the real algorithm on `frag9`**: decidable hypotheses only -/
theorem C18_parse_wrapValue_syntactic {pre post b : List PToken} {v o c : PToken}
    (hs : wrapValueOK pre v post = true) (ho : o.type = .startGroup) (hc : c.type = .endGroup)
    (hb : SameTypes (pre ++ o :: ([v] ++ c :: post)) b) (fa : frag9 (pre ++ ([v] ++ post)) = true) (fb : frag9 b = true)
    (na : NumberedFrom 0 (pre ++ ([v] ++ post))) (nb : NumberedFrom 0 b) :
    ∃ r t r' t', parse (pre ++ ([v] ++ post)) = .ok r ∧ toTree r = some t ∧ parse b = .ok r' ∧ toTree r' = some t' ∧
      TreeEqGroups (treeToRG r t) (treeToRG r' t') := by
  obtain ⟨r, t, _, _, h3⟩ := C02_parse_correct_fragment_optional _ fa na
  rw [refParse_noTrim Table.gen (frag9_noTrim fa)] at h3
  obtain ⟨f, stack, f1, M, M0, hw⟩ := wrapOK_value h3 hs
  exact C18_parse_wrapOperand hw ho hc hb fa fb na nb

/-! ### non-vacuity -/

/-- `a + b` ↦ `a + (b)`, and `- x` ↦ `- (x)` -/
def exV : List PToken := [tk .identifier "a" 0, tk .plusSign "+" 1, tk .identifier "b" 2]
def exV' : List PToken :=
  [tk .identifier "a" 0, tk .plusSign "+" 1, tk .startGroup "(" 2, tk .identifier "b" 3, tk .endGroup ")" 4]

theorem exV_cond : wrapValueOK [tk .identifier "a" 0, tk .plusSign "+" 1] (tk .identifier "b" 2) [] = true := by decide

theorem exV_parse : ∃ r t r' t', parse exV = .ok r ∧ toTree r = some t ∧ parse exV' = .ok r' ∧ toTree r' = some t' ∧
    TreeEqGroups (treeToRG r t) (treeToRG r' t') :=
  C18_parse_wrapValue_syntactic (pre := [tk .identifier "a" 0, tk .plusSign "+" 1]) (post := [])
    (o := tk .startGroup "(" 2) (c := tk .endGroup ")" 3) exV_cond rfl rfl rfl (by decide) (by decide)
    (by simp [NumberedFrom, tk]) (by simp [exV', NumberedFrom, tk])

/-- the guard: an Identifier after `.` (cf. `C18_wrap_property_differs`) -/
theorem exV_guard : wrapValueOK [tk .identifier "a" 0, tk .period "." 1] (tk .identifier "b" 2) [] = false := by decide

/-! ### double parentheses -/

/-- **a balanced `( … )` group in parentheses, reference parser, every token list** -/
theorem C18_refParse_wrapGroup {pre post inner : List PToken} {o1 c1 o c : PToken} {T : RTree}
    (hbal : balancedFrom 0 inner = true) (ho1 : o1.type = .startGroup) (hc1 : c1.type = .endGroup)
    (ho : o.type = .startGroup) (hc : c.type = .endGroup)
    (hn : NoTrim (pre ++ ((o1 :: (inner ++ [c1])) ++ post)))
    (hn' : NoTrim (pre ++ o :: ((o1 :: (inner ++ [c1])) ++ c :: post)))
    (href : refParse Table.gen (pre ++ ((o1 :: (inner ++ [c1])) ++ post)) = .ok T) :
    OutcomeEq TreeEqGroups (refParse Table.gen (pre ++ ((o1 :: (inner ++ [c1])) ++ post)))
      (refParse Table.gen (pre ++ o :: ((o1 :: (inner ++ [c1])) ++ c :: post))) := by
  rw [refParse_noTrim Table.gen hn] at href
  obtain ⟨f, stack, f1, M, M0, hw⟩ := wrapOK_group ho1 hc1 hbal href
  exact C18_refParse_wrapOperand hw ho hc hn hn'

/-- **double parentheses, the real algorithm on `frag9`**: decidable hypotheses only -/
theorem C18_parse_wrapGroup_syntactic {pre post inner b : List PToken} {o1 c1 o c : PToken}
    (hbal : balancedFrom 0 inner = true) (ho1 : o1.type = .startGroup) (hc1 : c1.type = .endGroup)
    (ho : o.type = .startGroup) (hc : c.type = .endGroup)
    (hb : SameTypes (pre ++ o :: ((o1 :: (inner ++ [c1])) ++ c :: post)) b)
    (fa : frag9 (pre ++ ((o1 :: (inner ++ [c1])) ++ post)) = true) (fb : frag9 b = true)
    (na : NumberedFrom 0 (pre ++ ((o1 :: (inner ++ [c1])) ++ post))) (nb : NumberedFrom 0 b) :
    ∃ r t r' t', parse (pre ++ ((o1 :: (inner ++ [c1])) ++ post)) = .ok r ∧ toTree r = some t ∧ parse b = .ok r' ∧
      toTree r' = some t' ∧ TreeEqGroups (treeToRG r t) (treeToRG r' t') := by
  obtain ⟨r, t, _, _, h3⟩ := C02_parse_correct_fragment_optional _ fa na
  rw [refParse_noTrim Table.gen (frag9_noTrim fa)] at h3
  obtain ⟨f, stack, f1, M, M0, hw⟩ := wrapOK_group ho1 hc1 hbal h3
  exact C18_parse_wrapOperand hw ho hc hb fa fb na nb

/-- `(x)` ↦ `((x))` and `a * (b + c)` ↦ `a * ((b + c))` -/
def exG : List PToken := [tk .startGroup "(" 0, tk .identifier "x" 1, tk .endGroup ")" 2]
def exG' : List PToken :=
  [tk .startGroup "(" 0, tk .startGroup "(" 1, tk .identifier "x" 2, tk .endGroup ")" 3, tk .endGroup ")" 4]

theorem exG_parse : ∃ r t r' t', parse exG = .ok r ∧ toTree r = some t ∧ parse exG' = .ok r' ∧ toTree r' = some t' ∧
    TreeEqGroups (treeToRG r t) (treeToRG r' t') :=
  C18_parse_wrapGroup_syntactic (pre := []) (post := []) (inner := [tk .identifier "x" 1]) (o1 := tk .startGroup "(" 0)
    (c1 := tk .endGroup ")" 2) (o := tk .startGroup "(" 0) (c := tk .endGroup ")" 3) (by decide) rfl rfl rfl rfl rfl
    (by decide) (by decide) (by simp [NumberedFrom, tk]) (by simp [exG', NumberedFrom, tk])

def exG2 : List PToken :=
  [tk .identifier "a" 0, tk .multiplicationSign "*" 1, tk .startGroup "(" 2, tk .identifier "b" 3, tk .plusSign "+" 4,
   tk .identifier "c" 5, tk .endGroup ")" 6]
def exG2' : List PToken :=
  [tk .identifier "a" 0, tk .multiplicationSign "*" 1, tk .startGroup "(" 2, tk .startGroup "(" 3, tk .identifier "b" 4,
   tk .plusSign "+" 5, tk .identifier "c" 6, tk .endGroup ")" 7, tk .endGroup ")" 8]

theorem exG2_parse : ∃ r t r' t', parse exG2 = .ok r ∧ toTree r = some t ∧ parse exG2' = .ok r' ∧ toTree r' = some t' ∧
    TreeEqGroups (treeToRG r t) (treeToRG r' t') :=
  C18_parse_wrapGroup_syntactic (pre := [tk .identifier "a" 0, tk .multiplicationSign "*" 1]) (post := [])
    (inner := [tk .identifier "b" 3, tk .plusSign "+" 4, tk .identifier "c" 5]) (o1 := tk .startGroup "(" 2)
    (c1 := tk .endGroup ")" 6) (o := tk .startGroup "(" 2) (c := tk .endGroup ")" 7) (by decide) rfl rfl rfl rfl rfl
    (by decide) (by decide) (by simp [NumberedFrom, tk]) (by simp [exG2', NumberedFrom, tk])

/-! ### the result half: parentheses are NOT transparent for the elaboration in general

`Abs.Source.go` reads a `( )` node as its content with the list items / conditional arms RESET (`plain`): a group ends a
comma list, a space list and a `?> … |> …` chain.  So two trees that are equal up to `( )` nodes (`TreeEqGroups`) may
elaborate to different programs — and do, for a licensed wrap of a "complete operand" in the sense of `WrapOK`: in
`a, b, c` the tokens `a, b` are the left operand of the second comma, `(a, b), c` has the same tree up to the group node,
but the first is the list of three items and the second a list whose first item is a list. -/

open Garnish.Abs Garnish.Abs.Source Garnish.Props.C01Source Garnish.Props.C01Build

def exL : List PToken :=
  [tk .number "1" 0, tk .comma "," 1, tk .number "2" 2, tk .comma "," 3, tk .number "3" 4]
def exL' : List PToken :=
  [tk .startGroup "(" 0, tk .number "1" 1, tk .comma "," 2, tk .number "2" 3, tk .endGroup ")" 4, tk .comma "," 5,
   tk .number "3" 6]

/-- **witness for the result half**: same tree up to the group node, different programs (`[1, 2, 3]` vs `[[1, 2], 3]`) -/
theorem C18_wrap_list_prefix_result_differs :
    ∃ T T' p p', refParse Table.gen exL = .ok T ∧ refParse Table.gen exL' = .ok T' ∧ TreeEqGroups T T' ∧
      elaborate noFloat exL T = some p ∧ elaborate noFloat exL' T' = some p' ∧
      p.main = .list [int 1, int 2, int 3] ∧ p'.main = .list [.list [int 1, int 2], int 3] :=
  ⟨_, _, _, _, rfl, rfl, by unfold TreeEqGroups; decide, rfl, rfl, rfl, rfl⟩

/-- … and the rewrite IS a wrap of a complete operand in the sense of `WrapOK` (all run conditions hold) -/
theorem exL_wrapOK : WrapOK [] [tk .number "1" 0, tk .comma "," 1, tk .number "2" 2] [tk .comma "," 3, tk .number "3" 4]
    Frame.top [] Frame.top
    (.node (.node .nil .number 0 .nil) .commaList 1 (.node .nil .number 2 .nil))
    (.node (.node .nil .number 1 .nil) .commaList 2 (.node .nil .number 3 .nil)) where
  runPre := rfl
  before := rfl
  openB := rfl
  head := rfl
  runMid := rfl
  alone := rfl
  same := rfl
  ends := ⟨[tk .number "1" 0, tk .comma "," 1], tk .number "2" 2, rfl, rfl⟩
  acc := Or.inl rfl
  next := rfl

end Garnish.Props.C18Wrap
