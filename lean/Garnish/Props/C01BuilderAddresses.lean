/-
The addresses the REAL builder emits into a fresh `SimpleGarnishData` (observed on the crate: lex → parse → build into
`SimpleGarnishData::new()`, instruction operands and data list printed; probe /tmp/rtprobe3) against the relocations of
the model builder's 0-based program:
* `$ ?> 1 |> 2`     real: `PutValue; JumpIfTrue 1; Put 3; EndExpression; Put 4; JumpTo 2`, jumps `[0,4,3]`,
                    data `[Unit, False, True, 2, 1]`                      = `reloc` of the built program
* `{ $ + 1 } <~ 5`  real: `Put 3; Put 4; Apply; EndExpression; PutValue; Put 5; Add; EndExpression`, jumps `[0,4]`,
                    data `[Unit, False, True, Expression 1, 5, 1]`        = `reloc` of the built program
* `1 + 1`           real: `Put 3; Put 3; Add; EndExpression`, data `[Unit, False, True, 1]` — the two equal literals
                    share ONE cell (`cache_add`); the model builder keeps two constants: `reloc` is NOT the real program
                    (`reloc_wrong_on_equal_literals`), `relocBy` with the non-injective map `0, 1 ↦ 3` is
* `$ ?> () |> 1`    real: `…; Put 3; …; Put 0; …`, data `[Unit, False, True, 1]` — a `()` literal is the preallocated
                    cell 0: again not `reloc`, but `relocBy` with `0 ↦ 3, 1 ↦ 0`
So in general the real program is `relocBy ρ C` for the address map `ρ` the data object produced while the builder ran
(`C` its data list), and `run_relocBy` (Lemmas/RuntimeRelocBy.lean) applies whenever `ConstsAgree ρ C P`; `reloc` is the
special case without equal constants and without `()` / `$!` / `$?` literals. That the Rust builder's `ρ` satisfies
`ConstsAgree` in general (= `add_*` returns an address holding the value: `HitSound` + the preallocated cells) is not
proved here — it is the `loadBuilt` link.
-/
import Garnish.Lemmas.RuntimeRelocBy
import Garnish.Props.C01TextStore
namespace Garnish.Props.C01TextStore
open Garnish Garnish.Gen Garnish.Abs Garnish.Abs.Tree Garnish.Model Garnish.Model.Build Garnish.Props.C01Build Garnish.Props.C01Text
open Garnish.Lemmas.Runtime.On

/-- the program the models of lexer, parser and builder make of a source text -/
def builtProg (s : String) : Option (Prog Float) :=
  match buildText noFloat asciiCC s.toList with
  | .ok (d, _) => some (progOf d)
  | _ => none

/-- instructions, jump table and constants of a program, for comparison with an observation -/
def observe (P : Prog Float) : List (Instruction × Option Nat) × List Nat × Nat := (P.instrs.toList, P.jumps.toList, P.consts.size)

set_option maxRecDepth 8000

/-- `$ ?> 1 |> 2`: the real builder's operands (3 and 4) and data list are `reloc`'s -/
theorem real_cond_is_reloc :
    (builtProg "$ ?> 1 |> 2").map (fun P => ((reloc P).instrs.toList, (reloc P).jumps.toList)) =
      some ([(.putValue, none), (.jumpIfTrue, some 1), (.put, some 3), (.endExpression, none), (.put, some 4),
        (.jumpTo, some 2)], [0, 4, 3]) ∧
    (builtProg "$ ?> 1 |> 2").map (fun P => (reloc P).consts.toList.map Val.typeOf) =
      some [.unit, .false, .true, .number, .number] ∧
    (builtProg "$ ?> 1 |> 2").bind (fun P => (reloc P).consts[3]?) = some (.num (.int 2)) ∧
    (builtProg "$ ?> 1 |> 2").bind (fun P => (reloc P).consts[4]?) = some (.num (.int 1)) := by
  refine ⟨by rfl, by rfl, by rfl, by rfl⟩

/-- `{ $ + 1 } <~ 5`: likewise (3, 4, 5; `Expression 1`, `5`, `1`) -/
theorem real_nested_is_reloc :
    (builtProg "{ $ + 1 } <~ 5").map (fun P => ((reloc P).instrs.toList, (reloc P).jumps.toList)) =
      some ([(.put, some 3), (.put, some 4), (.apply, none), (.endExpression, none), (.putValue, none),
        (.put, some 5), (.add, none), (.endExpression, none)], [0, 4]) ∧
    (builtProg "{ $ + 1 } <~ 5").bind (fun P => (reloc P).consts[3]?) = some (.expr 1) ∧
    (builtProg "{ $ + 1 } <~ 5").bind (fun P => (reloc P).consts[4]?) = some (.num (.int 5)) ∧
    (builtProg "{ $ + 1 } <~ 5").bind (fun P => (reloc P).consts[5]?) = some (.num (.int 1)) := by
  refine ⟨by rfl, by rfl, by rfl, by rfl⟩

/-- the real data list for `1 + 1` and for `$ ?> () |> 1` -/
def realDataOne : Array (Val Float) := #[.unit, .fls, .tru, .num (.int 1)]

/-- `1 + 1`: the real builder emits `Put 3; Put 3` over FOUR cells; `reloc` gives `Put 3; Put 4` over five -/
theorem reloc_wrong_on_equal_literals :
    (builtProg "1 + 1").map (fun P => ((reloc P).instrs.toList, (reloc P).consts.size)) =
      some ([(.put, some 3), (.put, some 4), (.add, none), (.endExpression, none)], 5) := by rfl

/-- … and the real program is `relocBy` along the non-injective map the cache produced -/
theorem real_equal_literals_is_relocBy :
    (builtProg "1 + 1").map (fun P => (relocBy (fun k => if k < 2 then 3 else k + 4) realDataOne P).instrs.toList) =
      some [(.put, some 3), (.put, some 3), (.add, none), (.endExpression, none)] ∧
    ∀ P, builtProg "1 + 1" = some P → ConstsAgree (fun k => if k < 2 then 3 else k + 4) realDataOne P := by
  refine ⟨by rfl, fun P hP k => ?_⟩
  have hc : (builtProg "1 + 1").map (fun P => P.consts.toList) = some [.num (.int 1), .num (.int 1)] := by rfl
  rw [hP] at hc
  simp only [Option.map, Option.some.injEq] at hc
  have hk : P.consts[k]? = [Val.num (.int 1), .num (.int 1)][k]? := by rw [← hc]; simp
  rw [hk]
  match k with
  | 0 => rfl
  | 1 => rfl
  | k + 2 =>
    have : ¬ (k + 2 < 2) := by omega
    simp only [this, if_false, realDataOne]
    simp

/-- `$ ?> () |> 1`: the `()` literal is the preallocated cell 0 -/
theorem real_unit_literal_is_relocBy :
    (builtProg "$ ?> () |> 1").map (fun P =>
        (relocBy (fun k => if k = 0 then 3 else if k = 1 then 0 else k + 4) realDataOne P).instrs.toList) =
      some [(.putValue, none), (.jumpIfTrue, some 1), (.put, some 3), (.endExpression, none), (.put, some 0),
        (.jumpTo, some 2)] := by rfl

end Garnish.Props.C01TextStore
