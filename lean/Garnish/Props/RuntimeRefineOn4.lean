/-
C01 over the relativised contract, coverage group 4 = THE WHOLE INSTRUCTION SET with `fullHandlers`: `Access`,
`Resolve`, `Equal`, `NotEqual`, `TypeOf`, `TypeEqual`, `AccessLeftInternal`, `AccessRightInternal`,
`AccessLengthInternal`; for `ApplyType` the value-level machine answers `unsupported` and nothing is claimed (as in
`C01_refine_step_full`). `C01_refine_step_on_full` is `C01_refine_step_full` over `StoreLawsOn` + `HostRefinesI`, with
`Inv` kept; `C01_refine_run_on_full`, `C01_text_to_simple_store_full` follow.
Side conditions of the new instructions (`MachOKOn4`): `MDeepN`; `AccessOK` / the `Resolve` domain / `EqualDomain` /
`LengthDomain` as in `StepOKF`; plus `LookupOn` for a look-up of `key` in `cur`: no `custom` node in a concatenation
that is iterated, a symbol key into a LIST needs `ListSymOn` (else excluded), the value found is not `custom`;
`Access` merge arm: no number operand (Simple's `merge_to_symbol_list` answers `Err`); left / right internal: the
component pushed is not `custom`.
-/
import Garnish.Props.RuntimeRefineOn3
import Garnish.Lemmas.RuntimeOnG4
namespace Garnish.Props.RuntimeRefine
open Garnish Gen Garnish.Abs Garnish.Model.Equality Garnish.Model.Runtime Garnish.Lemmas.Runtime
open Garnish.Lemmas.Runtime.On

variable {F σ : Type} {S : RStore F σ} {Inv : σ → Prop} {Rd : σ → Nat → Prop} {P : Prog F} {host : Host F}
  (fo : FloatOps F)

/-- ONE STEP for the whole instruction set over the relativised contract -/
theorem C01_refine_step_on_full (L : StoreLawsOn S Inv Rd) (HR : HostRefinesI S Inv host) (fuel : Nat)
    (cast : RM σ (Option Nat)) {s : σ} {m : MState F} (hsim : Sim S P s m) (hi : Inv s) (hl : Loaded S P s)
    {instr : Instruction} {operand : Option Nat} (hfetch : P.instrs[m.pc]? = some (instr, operand))
    (hok : MachOKOn4 fo S Inv P fuel m instr operand) :
    StepSimOn fo host S Inv P fuel (fullHandlers fo S fuel cast) s m :=
  refine_step_on4 fo L HR fuel cast hsim hi hl hfetch hok

/-- MULTI-STEP for the whole instruction set over the relativised contract -/
theorem C01_refine_run_on_full (L : StoreLawsOn S Inv Rd) (HR : HostRefinesI S Inv host) (fuel : Nat)
    (cast : RM σ (Option Nat)) (n : Nat) {s : σ} {m : MState F} (hsim : Sim S P s m) (hi : Inv s)
    (hl : Loaded S P s) (hok : RunOKG fo (MachOKOn4 fo S Inv P fuel) host P n m) {m' : MState F} {k : Nat}
    (hrun : Abs.run fo host P n m = (.halted m', k)) :
    ∃ s', executeLoop fo S fuel (fullHandlers fo S fuel cast) n s = .ok ((.end_, k), s') ∧
      SimD S P s' m'.regs m'.vals m'.frames ∧ DecKept S s s' ∧ Inv s' :=
  executeLoop_spec_gen fo (MachOKOn4 fo S Inv P fuel) fuel _
    (fun s m instr operand hs hi hl hf hk => refine_step_on4 fo L HR fuel cast hs hi hl hf hk) n s m hsim hi hl hok m' k
    hrun

/-- with the trivial invariant the host contract is the old one: together with `StoreLawsRun.toOn` every store that
meets the unrelativised contract (the reference store) is an instance of the theorems above -/
theorem C01_hostRefines_toI (HR : HostRefines S host) : HostRefinesI S (fun _ => True) host := by
  have conv : ∀ (call : RM σ Bool) (s : σ) (ans : Option (Val F)), HostAnswer S call s ans →
      HostAnswerI S (fun _ => True) call s ans := by
    intro call s ans h
    cases ans with
    | some v => obtain ⟨a, s1, h1, d1, he⟩ := h; exact ⟨a, s1, h1, d1, ⟨he, trivial⟩⟩
    | none => obtain ⟨s1, h1, he⟩ := h; exact ⟨s1, h1, ⟨he, trivial⟩⟩
  exact ⟨fun op l r vl vr s _ hl hr => conv _ _ _ (HR.defer op l r vl vr s hl hr),
    fun op a v s _ ha => conv _ _ _ (HR.deferUnary op a v s ha), fun y s _ => conv _ _ _ (HR.resolve y s),
    fun n r vr s _ hr => conv _ _ _ (HR.apply n r vr s hr)⟩

end Garnish.Props.RuntimeRefine

namespace Garnish.Props.C01TextStore
open Garnish Garnish.Gen Garnish.Spec Garnish.Abs Garnish.Abs.Tree Garnish.Abs.Source Garnish.Model Garnish.Model.Parser
open Garnish.Model.Lexer Garnish.Model.Literals Garnish.Model.Build Garnish.Props.C01Build Garnish.Props.C01Source
open Garnish.Props.C02Numbered Garnish.Props.C01Text
open Garnish.Model.Equality Garnish.Model.Runtime Garnish.Lemmas.Runtime Garnish.Props.RuntimeRefine
open Garnish.Lemmas.Runtime.On Garnish.Lemmas.Runtime.Simple

variable {F : Type} (pf : List Char → Option F) (cc : CharClass)

/-- **characters → `SimpleGarnishData`**, the whole instruction set -/
theorem C01_text_to_simple_store_full {hit : List (SimCell F) → SimCell F → Option Nat} (hs : HitSound hit)
    (hh : SimHost F) (fo : FloatOps F) (host : Host F) (HR : HostRefinesI (simpleRStore hit hh) SInv host)
    (loopFuel : Nat) (cast : RM (SimState F) (Option Nat)) (s : List Char) (toks : List LexerToken)
    (hlex : lex cc s = .ok toks) (hf : frag9' (toP toks) = true) (rt : RTree)
    (href : refParse Table.gen (toP toks) = .ok rt) (p : Program F) (hel : elaborate pf (toP toks) rt = some p)
    (hwf : C01.WFProgram p) (input : Val F) (fuel : Nat) (v : Val F) (st : St F)
    (h : evalProgram fo host fuel p input = .ok (v, st)) :
    ∃ d entry n, buildText pf cc s = .ok (d, entry) ∧
      ((progOf d).consts.toList.all isLeafS = true → isLeafS input = true →
        RunOKG fo (MachOKOn4 fo (simpleRStore hit hh) SInv (reloc (progOf d)) loopFuel) host (reloc (progOf d)) n
          { pc := (progOf d).jumps[entry]?.getD 0, regs := [], vals := [input], frames := [], trace := [] } →
        ∃ s' a, executeLoop fo (simpleRStore hit hh) loopFuel (fullHandlers fo (simpleRStore hit hh) loopFuel cast) n
            (loadSimple (reloc (progOf d)) ((progOf d).jumps[entry]?.getD 0) input) = .ok ((.end_, n), s') ∧
          s'.values = [a] ∧ Decodes (simView s'.cells) a v ∧ (simpleRStore hit hh).regs s' = [] ∧
          (simpleRStore hit hh).frames s' = [] ∧ SInv s') :=
  C01_text_to_simple_store_of pf cc hh fo host loopFuel (fullHandlers fo (simpleRStore hit hh) loopFuel cast)
    (fun P => MachOKOn4 fo (simpleRStore hit hh) SInv P loopFuel)
    (fun P s m instr operand hsim hi hl hf hk =>
      refine_step_on4 fo (C01_simpleStore_lawsOn hs) HR loopFuel cast hsim hi hl hf hk)
    s toks hlex hf rt href p hel hwf input fuel v st h

end Garnish.Props.C01TextStore
