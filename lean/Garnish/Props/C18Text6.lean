/-
Property C18, TEXT level, part 6: the result corollary for a blank inserted after an operator token WITHOUT any hypothesis
about the rewritten text.

The fragment hypothesis of `C01_text_correct` is only used through the syntax tree (`Spec.Ex`) that the recogniser's
soundness provides; `ExFrag` states that directly ("the token list is the token list of a well-formed syntax tree without
a trailing blank line before `}`", possibly followed by trivia and a comma), `C01_text_correct_ex` is `C01_text_correct` from
`ExFrag`, and `ExFrag` is closed under type-preserving maps (`exFrag_map`) and under inserting a trivia token after a
`Good` token (`exFrag_insert`, from `Spec.ex_insert`). The operator must be `goodTy`: a binary / optional-binary operator
or an opening bracket — after a prefix operator or between an operand and a suffix operator the fragment has no trivia slot.
-/
import Garnish.Lemmas.ExInsert2
import Garnish.Lemmas.ParseSupport2
import Garnish.Props.C18Text5
set_option linter.unusedVariables false
namespace Garnish.Props.C18Text6
open Garnish Garnish.Gen Garnish.Spec Garnish.Model Garnish.Model.Lexer Garnish.Model.Parser
open Garnish.Abs Garnish.Abs.Source Garnish.Props.C02Parse Garnish.Props.C18Parse Garnish.Props.C18Text
open Garnish.Props.C18Text4 Garnish.Props.C18Text5
open Garnish.Abs.Tree Garnish.Model.Literals Garnish.Model.Build Garnish.Props.C01Build Garnish.Props.C01Source
open Garnish.Props.C02Numbered

/-- the token list of a well-formed syntax tree (all features) without a trailing blank line before `}`, possibly followed
by trivia and a comma: what `frag9'` recognises (`exFrag_of_frag9'`) -/
def ExFrag (toks : List PToken) : Prop :=
  (∃ e : Spec.Ex, e.ok ⟨true, true, true⟩ false = true ∧ e.garb = 0 ∧ e.toks = toks) ∨
  (∃ (e : Spec.Ex) (ws1 : List PToken) (k : PToken), e.ok ⟨true, true, true⟩ false = true ∧ e.garb = 0 ∧
    (∀ w ∈ ws1, isTriviaTok w = true) ∧ isCommaTok k = true ∧ toks = e.toks ++ (ws1 ++ [k]))

theorem exFrag_of_frag9' {toks : List PToken} (h : frag9' toks = true) : ExFrag toks := by
  unfold frag9' frag9N at h
  rcases Bool.or_eq_true _ _ |>.mp h with h | h
  · obtain ⟨e, hok, he, hg⟩ := fragFN_sound h
    exact Or.inl ⟨e, hok, hg, he⟩
  · obtain ⟨e, ws1, k, hok, hg, hw, hk, he⟩ := fragTCN_sound h
    exact Or.inr ⟨e, ws1, k, hok, hg, hw, hk, he⟩

theorem exFrag_map {a : List PToken} (h : ExFrag a) {f : PToken → PToken} (hf : ∀ t, (f t).type = t.type) :
    ExFrag (a.map f) := by
  rcases h with ⟨e, hok, hg, he⟩ | ⟨e, ws1, k, hok, hg, hw, hk, he⟩
  · exact Or.inl ⟨e.map f, by rw [Ex.ok_map hf]; exact hok, by rw [Ex.garb_map]; exact hg, by rw [Ex.toks_map, he]⟩
  · refine Or.inr ⟨e.map f, ws1.map f, f k, by rw [Ex.ok_map hf]; exact hok, by rw [Ex.garb_map]; exact hg, ?_, ?_, ?_⟩
    · intro x hx
      obtain ⟨y, hy, rfl⟩ := List.mem_map.mp hx
      rw [tp_trivia hf]; exact hw y hy
    · rw [tp_comma hf]; exact hk
    · rw [he, Ex.toks_map]; simp

theorem exFrag_insert {pre post : List PToken} {p w : PToken} (h : ExFrag (pre ++ p :: post)) (hpost : post ≠ [])
    (hg : Good p) (hw : isTriviaTok w = true) : ExFrag (pre ++ p :: w :: post) := by
  rcases h with ⟨e, hok, hgb, he⟩ | ⟨e, ws1, k, hok, hgb, hws, hk, he⟩
  · obtain ⟨e', hl, ht⟩ := ex_insert hw e _ _ hok pre p post he hpost hg
    exact Or.inl ⟨e', hl.1 _ _ hok, by rw [hl.2.1]; exact hgb, ht⟩
  · rcases split_app he.symm with ⟨post1, h1, h2⟩ | ⟨pre2, h1, h2⟩
    · subst h2
      by_cases hp1 : post1 = []
      · subst hp1
        refine Or.inr ⟨e, w :: ws1, k, hok, hgb, ?_, hk, by simp [h1]⟩
        intro x hx
        rcases List.mem_cons.mp hx with rfl | hx
        · exact hw
        · exact hws x hx
      · obtain ⟨e', hl, ht⟩ := ex_insert hw e _ _ hok pre p post1 h1 hp1 hg
        exact Or.inr ⟨e', ws1, k, hl.1 _ _ hok, by rw [hl.2.1]; exact hgb, hws, hk, by simp [ht]⟩
    · subst h1
      obtain ⟨post1, h3, h4⟩ := tail_ws_c h2 hpost
      subst h3 h4
      refine Or.inr ⟨e, pre2 ++ p :: w :: post1, k, hok, hgb, ?_, hk, by simp⟩
      intro x hx
      simp only [List.mem_append, List.mem_cons] at hx
      rcases hx with hx | rfl | rfl | hx
      · exact hws x (by simp [hx])
      · exact hws x (by simp)
      · exact hw
      · exact hws x (by simp [hx])

variable {F : Type} (pf : List Char → Option F)

/-- **`C01_text_correct` from the syntax tree instead of the recogniser** -/
theorem C01_text_correct_ex (cc : CharClass) (fo : FloatOps F) (host : Host F) (s : List Char) (toks : List LexerToken)
    (hlex : lex cc s = .ok toks) (hf : ExFrag (toP toks)) (rt : RTree)
    (href : refParse Table.gen (toP toks) = .ok rt) (p : Program F) (hel : elaborate pf (toP toks) rt = some p)
    (hwf : C01.WFProgram p) (input : Val F) (fuel : Nat) (v : Val F) (st : St F)
    (h : evalProgram fo host fuel p input = .ok (v, st)) :
    ∃ d entry, C01Text.buildText pf cc s = .ok (d, entry) ∧
      ∃ n m, run fo host (progOf d) n
          { pc := (progOf d).jumps[entry]?.getD 0, regs := [], vals := [input], frames := [], trace := [] } = (.halted m, n) ∧
        m.vals = [v] ∧ m.regs = [] ∧ m.frames = [] ∧ m.trace = st.trace := by
  have hnum : NumberedFrom 0 (toP toks) := Lexer.toP_numbered toks
  have key : ∃ r t, parse (toP toks) = .ok r ∧ toTree r = some t ∧
      refParse Table.gen (toP toks) = .ok (toRG (dfOf r.nodes) t) ∧ t.inorder = List.range r.nodes.size := by
    rcases hf with ⟨e, hok, hg, he⟩ | ⟨e, ws1, k, hok, hg, hw, hk, he⟩
    · rw [← he] at hnum ⊢
      obtain ⟨r, t, h1, h2, h3⟩ := parse_ex e hok hnum
      obtain ⟨r', t', g1, g2, g3, g4⟩ := parse_ex_numbered e hok hnum
      rw [h1] at g1; cases g1
      rw [h2] at g2; cases g2
      exact ⟨r, t, h1, h2, h3, sortedIn_full g3 (by rw [hg] at g4; exact g4)⟩
    · rw [he] at hnum ⊢
      obtain ⟨r, t, h1, h2, h3⟩ := parse_ex_comma e hok ws1 k hw hk hnum
      obtain ⟨r', t', g1, g2, g3, g4⟩ := parse_ex_comma_numbered e hok ws1 k hw hk hnum
      rw [h1] at g1; cases g1
      rw [h2] at g2; cases g2
      exact ⟨r, t, h1, h2, h3, sortedIn_full g3 (by rw [hg] at g4; exact g4)⟩
  obtain ⟨r, t, h1, h2, h3, h4⟩ := key
  rw [href] at h3
  cases h3
  have hwn : WellNumbered (toP toks) r t :=
    ⟨h4, C02_parse_linked _ hnum r h1, C02_parse_brackets _ hnum r t h1 h2⟩
  obtain ⟨d, entry, hd, hrun⟩ := C01_parse_correct pf fo host (toP toks) r t p input fuel v st h2 hwn hel hwf h
  exact ⟨d, entry, by simp only [C01Text.buildText, hlex, Outcome.bind, h1, hd], hrun⟩

/-! ### the padded token list is in the fragment -/

/-- positions behind `n` move up by one -/
def bump (n : Nat) (x : PToken) : PToken := if x.col ≤ n then x else { x with col := x.col + 1 }

theorem bump_type (n : Nat) (x : PToken) : (bump n x).type = x.type := by
  unfold bump; split <;> rfl

theorem map_bump_low (n : Nat) : ∀ (l : List LexerToken) (k : Nat), k + l.length ≤ n + 1 →
    (toPFrom k l).map (bump n) = toPFrom k l
  | [], _, _ => rfl
  | x :: l, k, h => by
    simp only [List.length_cons] at h
    simp only [toPFrom, List.map_cons, map_bump_low n l (k + 1) (by omega)]
    congr 1
    unfold bump
    rw [if_pos (by simp; omega)]

theorem map_bump_high (n : Nat) : ∀ (l : List LexerToken) (k : Nat), n < k →
    (toPFrom k l).map (bump n) = toPFrom (k + 1) l
  | [], _, _ => rfl
  | x :: l, k, h => by
    simp only [toPFrom, List.map_cons, map_bump_high n l (k + 1) (by omega)]
    congr 1
    unfold bump
    rw [if_neg (by simp; omega)]

theorem exFrag_pad (toks B B' : List LexerToken) (t w : LexerToken) (hgood : goodTy t.tokenType = true)
    (hw : w.tokenType = .whitespace) (hs : SameTT B B') (hB : B ≠ []) (h : ExFrag (toP (toks ++ t :: B))) :
    ExFrag (toP (toks ++ t :: w :: B')) := by
  have hm := exFrag_map h (bump_type toks.length)
  have e1 : (toP (toks ++ t :: B)).map (bump toks.length) =
      toP toks ++ { text := t.text, type := t.tokenType, row := 0, col := 0 + toks.length } ::
        toPFrom (0 + toks.length + 1 + 1) B' := by
    rw [toP_split, List.map_append, toP, map_bump_low _ _ _ (by omega)]
    simp only [toPFrom, List.map_cons, map_bump_high _ _ _ (by omega : toks.length < 0 + toks.length + 1),
      toPFrom_congr _ B B' hs]
    congr 2
    unfold bump
    rw [if_pos (by simp)]
  rw [e1] at hm
  have hB' : B' ≠ [] := by
    intro e
    have := congrArg List.length hs
    simp [e] at this
    exact hB this
  have := exFrag_insert (w := { text := w.text, type := w.tokenType, row := 0, col := 0 + toks.length + 1 }) hm
    (toPFrom_ne_nil hB') hgood (by simp [isTriviaTok, hw])
  have e2 : toP (toks ++ t :: w :: B') = toP toks ++ { text := t.text, type := t.tokenType, row := 0, col := 0 + toks.length } ::
      { text := w.text, type := w.tokenType, row := 0, col := 0 + toks.length + 1 } :: toPFrom (0 + toks.length + 1 + 1) B' := by
    rw [toP_split]; rfl
  rw [e2]
  exact this

/-- **a blank after a binary operator / opening bracket, result**: hypotheses about the ORIGINAL text only — both texts are
built into objects on which the machine halts with the same value and trace -/
theorem C18_text_padOperator_result'' (cc : CharClass) (hcc : cc.SaneBlank)
    (hcc2 : cc.Sane2) (fo : FloatOps F) (host : Host F) (s s' : List Char) (toks : List LexerToken) (t : LexerToken)
    (h : TextPadOperatorAt cc s s' toks t) (hgood : goodTy t.tokenType = true)
    (hop : opLikeBefore { text := t.text, type := t.tokenType, row := 0, col := 0 } = true)
    (T : List LexerToken) (hl : lex cc s = .ok T) (hf : frag9' (toP T) = true)
    (rt : RTree) (href : refParse Table.gen (toP T) = .ok rt) (p : Program F) (hel : elaborate pf (toP T) rt = some p)
    (hwf : C01.WFProgram p) (input : Val F) (fuel : Nat) (v : Val F) (st : St F)
    (he : evalProgram fo host fuel p input = .ok (v, st)) :
    ∀ src ∈ [s, s'], ∃ d entry, C01Text.buildText pf cc src = .ok (d, entry) ∧
      ∃ n m, run fo host (progOf d) n
          { pc := (progOf d).jumps[entry]?.getD 0, regs := [], vals := [input], frames := [], trace := [] } = (.halted m, n) ∧
        m.vals = [v] ∧ m.regs = [] ∧ m.frames = [] ∧ m.trace = st.trace := by
  have hn : NoTrim (toP T) := frag9_noTrim (frag9'_sub hf)
  obtain ⟨T', w, B, B', hl', e1, e2, hw, hs, hB⟩ := C18_text_padOperator_lex' cc hcc hcc2 s s' toks t h T hl
  obtain ⟨T'', hl'', hn', heq⟩ := C18_text_padOperator_refParse' cc hcc hcc2 s s' toks t h hop T hl hn
  rw [hl'] at hl''
  cases hl''
  rw [href] at heq
  obtain ⟨rt', href', herase⟩ := ok_of_outcomeEq heq
  subst e1 e2
  have hel' : elaborate pf (toP (toks ++ t :: w :: B')) rt' = some p := by
    rw [C18_text_padOperator_elaborate pf toks B B' t w hw hs rt rt' href href' herase hn hn']; exact hel
  have hfrag : ExFrag (toP (toks ++ t :: w :: B')) := exFrag_pad toks B B' t w hgood hw hs hB (exFrag_of_frag9' hf)
  intro src hsrc
  simp only [List.mem_cons, List.not_mem_nil, or_false] at hsrc
  rcases hsrc with rfl | rfl
  · exact C01Text.C01_text_correct pf cc fo host _ _ hl hf rt href p hel hwf input fuel v st he
  · exact C01_text_correct_ex pf cc fo host _ _ hl' hfrag rt' href' p hel' hwf input fuel v st he

end Garnish.Props.C18Text6
