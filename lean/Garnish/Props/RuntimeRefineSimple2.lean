/-
`SimpleGarnishData` against `StoreLaws`, the negative half: the clauses of the contract that Simple does NOT meet as
stated (each with the state that shows it), why the cache must confirm its hits, and a run of the positive laws
(`SimpleLaws`, Props/RuntimeRefineSimple.lean) from `SimpleGarnishData::new()`.
-/
import Garnish.Props.RuntimeRefineSimple
namespace Garnish.Props.RuntimeRefine
open Garnish Gen Garnish.Model.Equality Garnish.Model.Runtime Garnish.Lemmas.Runtime.Simple

variable {F : Type} {hit : List (SimCell F) → SimCell F → Option Nat} {h : SimHost F}

/-- `push_register(a)` with `a` not a data address, then `pop_register`: `Err("Register address … has no data")` -/
theorem C01_simple_pop_dangling (st : SimState F) {a : Nat} (ha : st.cells.length ≤ a) :
    ∃ st', (simpleRStore hit h).pushRegister a st = .ok ((), st') ∧
      (simpleRStore hit h).popRegister st' = .err .data := pop_dangling_errs st ha

/-- `push_frame(j)`, then `pop_register`: `Err("Popped StackFrame from registers …")`, whatever registers the caller
left — the contract (and the reference store, and the abstract machine) pops the caller's top register -/
theorem C01_simple_pop_under_frame (st : SimState F) (j : Nat) :
    ∃ st', (simpleRStore hit h).pushFrame j st = .ok ((), st') ∧
      (simpleRStore hit h).popRegister st' = .err .data := pop_under_frame_errs j

/-- `pop_frame` with no frame left (the outermost `EndExpression`): `None`, and every register is gone -/
theorem C01_simple_popFrame_drains {st : SimState F} (hinv : SInv st) (hf : (simpleRStore hit h).frames st = []) :
    (simpleRStore hit h).popFrame st = .ok (none, { st with register := [] }) := popFrame_drains hinv hf

/-- hence `StoreLaws.popFrameNil` fails in a state reachable from `new()` (one register, no frame) -/
theorem C01_simple_popFrameNil_fails :
    ∃ st : SimState F, SInv st ∧ (simpleRStore hit h).frames st = [] ∧
      ¬ ∃ st', (simpleRStore hit h).popFrame st = .ok (none, st') ∧
        Eff (simpleRStore hit h) st st' ((simpleRStore hit h).regs st) ((simpleRStore hit h).vals st) :=
  popFrameNil_fails

/-- `SimpleGarnishData` does not satisfy `StoreLaws` as stated — for any cache decision and any host -/
theorem C01_simpleStore_not_laws : ¬ StoreLaws (simpleRStore hit h) := by
  intro L
  obtain ⟨s1, hp, he⟩ := L.pushRegister 3 (SimState.init : SimState F)
  obtain ⟨s2, hp', herr⟩ := pop_dangling_errs (hit := hit) (h := h) (SimState.init : SimState F) (a := 3)
    (Nat.le_refl _)
  rw [hp] at hp'
  cases hp'
  obtain ⟨s3, hpop, _⟩ := L.popRegisterCons s1 3 _ he.regs
  rw [herr] at hpop
  cases hpop

/-- `merge_to_symbol_list` with a number operand: `Err("Cannot create symbol list from types …")`, where the contract
(`StoreLaws.mergeSome` with `Abs.mergeSymList`) asks for a symbol list with a number part -/
theorem C06_simple_merge_number_errs {st : SimState F} {l r : Nat} {n : Number F}
    (hl : Decodes ((simpleRStore hit h).view st) l (.num n)) :
    (simpleRStore hit h).mergeToSymbolList l r st = .err .data := merge_number_left_errs hl

/-- why `cache_add` must confirm a hit by comparison: a hit on an address that does not hold the number breaks
`StoreLaws.addNumber` at that state (before the fix: two numbers with colliding hashes) -/
theorem C15_unsound_hit_breaks {st : SimState F} {n : Number F} {a : Nat} (hh : hit st.cells (.num n) = some a)
    (hbad : st.cells[a]? ≠ some (.num n)) :
    ¬ Adds (simpleRStore hit h) ((simpleRStore hit h).addNumber n) st (.num n) := by
  rintro ⟨b, s', hadd, hd, _⟩
  have : (simpleRStore hit h).addNumber n st = .ok (a, st) := by
    show SimState.cacheAdd hit (.num n) st = _
    simp only [SimState.cacheAdd, hh]
  rw [this] at hadd
  cases hadd
  exact hbad (num_inv hd)

/-- a cache that never hits is sound (so is one that compares: `HitSound` is what the comparison establishes) -/
theorem C15_hitSound_never : HitSound (fun (_ : List (SimCell F)) _ => none) := by
  intro _ _ _ hh; cases hh

/-! ### non-vacuity: from `new()`: a number, a symbol, their pair, on the registers, a frame, back -/

example (hs : HitSound hit) : ∃ st3 st4 st5 st6 p,
    Decodes ((simpleRStore hit h).view st3) p (.pair (.sym 3) (.num (.int 7))) ∧
    (simpleRStore hit h).pushRegister p st3 = .ok ((), st4) ∧ (simpleRStore hit h).regs st4 = [p] ∧
    (simpleRStore hit h).pushFrame 9 st4 = .ok ((), st5) ∧ (simpleRStore hit h).regs st5 = [p] ∧
    (simpleRStore hit h).frames st5 = [(9, [p])] ∧
    (simpleRStore hit h).popFrame st5 = .ok (some 9, st6) ∧ (simpleRStore hit h).regs st6 = [p] ∧
    (simpleRStore hit h).frames st6 = [] ∧ SInv st6 := by
  have L := C01_simpleStore_laws_core (h := h) hs
  obtain ⟨a, st1, _, d1, e1, i1, _⟩ := L.addNumber (.int 7) _ C01_simpleStore_init
  obtain ⟨b, st2, _, d2, e2, i2, _⟩ := L.addSymbol 3 _ i1
  obtain ⟨p, st3, _, d3, e3, i3, _⟩ := L.addPair b a _ _ _ i2 d2 (e2.keeps.dec _ _ d1)
  obtain ⟨hlt, hnf⟩ := L.readable _ _ _ d3 (by intro hc; cases hc)
  obtain ⟨st4, h4, e4, i4, _⟩ := L.pushRegister p _ i3 hlt hnf
  obtain ⟨st5, h5, e5, i5⟩ := L.pushFrame 9 _ i4
  have r4 : (simpleRStore hit h).regs st4 = [p] := by rw [e4.regs, e3.regs, e2.regs, e1.regs]; rfl
  have f4 : (simpleRStore hit h).frames st4 = [] := by rw [e4.frames, e3.frames, e2.frames, e1.frames]; rfl
  have f5 : (simpleRStore hit h).frames st5 = [(9, [p])] := by rw [e5.frames, r4, f4]
  obtain ⟨st6, h6, e6, i6⟩ := L.popFrameCons _ _ _ _ i5 f5
  exact ⟨st3, st4, st5, st6, p, d3, h4, r4, h5, by rw [e5.regs, r4], f5, h6, e6.regs, e6.frames, i6⟩

end Garnish.Props.RuntimeRefine
