/-
`ProgramLoaded` (Props/C01TextStore.lean) for the model of `SimpleGarnishData` (Model/Runtime/SimpleStore.lean): the
state `loadSimple P pc input` — the constants of the built program at their own addresses, then the input value, the
instruction and jump tables, the cursor — has the program loaded and satisfies the invariant `SInv` of
Props/RuntimeRefineSimple.lean, provided the constants are leaves Simple can hold (a symbol list has symbol parts
only) and the first three are Unit, False, True (the builder works on a `SimpleGarnishData`, which preallocates them).
Since `simpleRStore` meets the store contract only in the relativised form `SimpleLaws` (`C01_simpleStore_not_laws`),
`C01_text_to_store` does not apply to it as it stands; this file discharges its LOADING hypothesis only.
-/
import Garnish.Props.C01TextStore
import Garnish.Props.RuntimeRefineSimple
namespace Garnish.Props.C01TextStore
open Garnish Garnish.Gen Garnish.Abs
open Garnish.Model.Equality Garnish.Model.Runtime Garnish.Lemmas.Runtime Garnish.Lemmas.Runtime.Simple
open Garnish.Props.RuntimeRefine

variable {F : Type}

def symOf : SymPart F → Nat
  | .sym s => s
  | .num _ => 0

/-- the cell of a constant -/
def simCellOfVal : Val F → SimCell F
  | .unit => .unit | .tru => .tru | .fls => .fls | .num n => .num n | .char c => .char c | .byte b => .byte b
  | .sym y => .sym y | .expr j => .expr j | .ext n => .ext n | .type t => .type t | .chars cs => .chars cs
  | .bytes bs => .bytes bs | .symList ps => .symList (ps.map symOf) | _ => .custom

/-- a leaf Simple can hold -/
def isLeafS : Val F → Bool
  | .pair _ _ | .list _ | .concat _ _ | .range _ _ | .slice _ _ | .part _ _ => false
  | .symList ps => ps.all (fun p => match p with | .sym _ => true | .num _ => false)
  | _ => true

theorem symOf_map : ∀ (ps : List (SymPart F)), ps.all (fun p => match p with | .sym _ => true | .num _ => false) = true →
    (ps.map symOf).map SymPart.sym = ps
  | [], _ => rfl
  | p :: ps, hp => by
    rw [List.all_cons, Bool.and_eq_true] at hp
    rw [List.map_cons, List.map_cons, symOf_map ps hp.2]
    cases p with
    | sym s => rfl
    | num n => cases hp.1

theorem simLeaf_decodes {cells : List (SimCell F)} {k : Nat} {v : Val F} (hc : cells[k]? = some (simCellOfVal v))
    (hl : isLeafS v = true) : Decodes (simView cells) k v := by
  cases v <;> try (cases hl; done)
  case unit => exact dec_unit hc
  case tru => exact dec_tru hc
  case fls => exact dec_fls hc
  case num n => exact dec_num hc
  case char c => exact dec_char hc
  case byte b => exact dec_byte hc
  case sym y => exact dec_sym hc
  case type t => exact dec_type hc
  case expr j => exact .expr (by simp only [simView, hc, simCellOfVal, SimCell.ty]) (by simp only [simView, hc, simCellOfVal])
  case ext n => exact .ext (by simp only [simView, hc, simCellOfVal, SimCell.ty]) (by simp only [simView, hc, simCellOfVal])
  case chars cs =>
    exact .chars (by simp only [simView, hc, simCellOfVal, SimCell.ty]) (by simp only [simView, hc, simCellOfVal])
  case bytes bs =>
    exact .bytes (by simp only [simView, hc, simCellOfVal, SimCell.ty]) (by simp only [simView, hc, simCellOfVal])
  case symList ps =>
    have := dec_symList (F := F) hc
    rw [symOf_map ps hl] at this; exact this
  case custom => exact .custom (by simp only [simView, hc, simCellOfVal, SimCell.ty])

/-- `SimpleGarnishData` with `P` loaded: the constants at their own addresses, then the input value -/
def loadSimple (P : Prog F) (pc : Nat) (input : Val F) : SimState F :=
  { cells := P.consts.toList.map simCellOfVal ++ [simCellOfVal input], register := [], values := [P.consts.size],
    currentList := none, instrs := P.instrs.toList, jumps := P.jumps.toList, cursor := pc, trace := [] }

theorem C01_loadSimple_loaded (hit : List (SimCell F) → SimCell F → Option Nat) (h : SimHost F) (P : Prog F) (pc : Nat)
    (input : Val F) (hc : P.consts.toList.all isLeafS = true) (hi : isLeafS input = true) :
    ProgramLoaded (simpleRStore hit h) P pc (loadSimple P pc input) input where
  cursor := rfl
  regs := rfl
  frames := rfl
  vals := ⟨P.consts.size, rfl, by
    show Decodes (simView (P.consts.toList.map simCellOfVal ++ [simCellOfVal input])) P.consts.size input
    exact simLeaf_decodes (by simp) hi⟩
  instrs i := by show P.instrs.toList[i]? = P.instrs[i]?; simp
  jumps j := by show P.jumps.toList[j]? = P.jumps[j]?; simp
  ilen := by show P.instrs.toList.length = P.instrs.size; simp
  consts k v hk := by
    show Decodes (simView (P.consts.toList.map simCellOfVal ++ [simCellOfVal input])) k v
    have hlt : k < P.consts.size := by
      apply Nat.lt_of_not_le; intro hle
      rw [Array.getElem?_eq_none hle] at hk; cases hk
    have hv : P.consts.toList[k]? = some v := by simpa using hk
    refine simLeaf_decodes ?_ ?_
    · rw [List.getElem?_append_left (by simpa using hlt), List.getElem?_map, hv]; rfl
    · exact (List.all_eq_true.mp hc) v (List.mem_of_getElem? hv)

/-- the loaded state satisfies the invariant of the relativised contract -/
theorem C01_loadSimple_inv (P : Prog F) (pc : Nat) (input : Val F) (h0 : P.consts[0]? = some .unit)
    (h1 : P.consts[1]? = some .fls) (h2 : P.consts[2]? = some .tru) : SInv (loadSimple P pc input) := by
  have key : ∀ (k : Nat) (v : Val F), P.consts[k]? = some v →
      (P.consts.toList.map simCellOfVal ++ [simCellOfVal input])[k]? = some (simCellOfVal v) := by
    intro k v hk
    have hlt : k < P.consts.size := by
      apply Nat.lt_of_not_le; intro hle
      rw [Array.getElem?_eq_none hle] at hk; cases hk
    have hv : P.consts.toList[k]? = some v := by simpa using hk
    rw [List.getElem?_append_left (by simpa using hlt), List.getElem?_map, hv]; rfl
  exact ⟨⟨key 0 _ h0, key 1 _ h1, key 2 _ h2⟩, fun _ hb => by cases hb⟩

end Garnish.Props.C01TextStore
