/-
`ListPopLawOn (basicRStore nc) BInvL`: the list law in the shape of the runtime's `make_list` on BasicGarnishData —
`start_list(len)` keeps the register chain, the add loop reads register `rest.length + j` (unchanged by the adds:
`addToList_exp` keeps the frame and every old cell) and adds it, `len` × `pop_register` move the head
(`popsRM_basic`), `end_list` converts the block (`endList_reg`).  Corollaries: the `MakeList` step and the run of the
real Basic store without the list-law hypothesis.
-/
import Garnish.Props.RuntimeRefineOnL
set_option linter.unusedSimpArgs false
set_option linter.unusedVariables false
namespace Garnish.Props.RuntimeRefine
open Garnish Gen Garnish.Abs Garnish.Model.Equality Garnish.Model.Runtime Garnish.Model.Runtime.Basic Garnish.BasicOpt
open Garnish.Lemmas.Runtime Garnish.Lemmas.Runtime.Basic Garnish.Lemmas.Runtime.On Garnish.Lemmas.Runtime.OnL
open Garnish.Props.C19StoreOn Garnish.Props.C19ListOn Garnish.Props.C19StoreOnL Garnish.Props.C19MakeList

variable {F σ : Type}

theorem popRegisters_eq_popsRM (S : RStore F σ) : ∀ n : Nat, popRegisters S n = popsRM S n
  | 0 => rfl
  | n + 1 => by
    show (do let _ ← S.popRegister; popRegisters S n : RM σ Unit) = RM.bind S.popRegister (fun _ => popsRM S n)
    rw [popRegisters_eq_popsRM S n]; rfl

/-- the add loop of `make_list` on the Basic store is the fold of the heap model's `add_to_list` -/
theorem makeListAdd_basic (nc : NumCode F) {base : Array Cell} {items R : List Nat} (cr : Option Nat)
    (hcr : ∀ a, cr = some a → a < base.size) (hR : regsOf base cr = R) (off : Nat)
    (hoff : ∀ j, R.reverse[off + j]? = items[j]?) :
    ∀ (r : List Nat) (j : Nat) (cur : BState) (s' : Store), items.drop j = r →
      (∀ p, cur.store.cells[p]? = expCell base items j p) → cur.store.currentRegister = cr →
      (∀ a ∈ r, a < base.size) →
      r.foldlM (fun s a => Store.addToList s base.size a) cur.store = .ok s' →
      ∃ bl, makeListAdd (basicRStore nc) r.length (off + j) base.size cur =
        .ok (base.size, { cur with store := s', building := bl })
  | [], j, cur, s', _, _, _, _, h => by
    simp only [List.foldlM, BasicOpt.pure_eq_ok] at h
    subst h
    exact ⟨cur.building, rfl⟩
  | a :: r, j, cur, s', hdrop, hinv, hc, hlt, h => by
    simp only [List.foldlM_cons, BasicOpt.bind_eq_ok] at h
    obtain ⟨c1, h1, h2⟩ := h
    have hj : items[j]? = some a := by
      have := congrArg (fun l => l[0]?) hdrop
      simpa using this
    have hdrop' : items.drop (j + 1) = r := by
      have := congrArg List.tail hdrop
      simpa using this
    obtain ⟨g1, f1⟩ := addToList_exp hinv hj (hlt a (by simp)) h1
    have hsub : Sub base cur.store.cells := by
      intro p c hpc
      rw [hinv p, expCell_base (cell_lt hpc)]; exact hpc
    have hget : getRegister (basicRStore nc) (off + j) cur = .ok (some a, cur) := by
      show Outcome.ok ((regsOf cur.store.cells cur.store.currentRegister).reverse[off + j]?, cur) = _
      rw [hc, regsOf_sub hsub hcr, hR, hoff j, hj]
    have hstep : (basicRStore nc).addToList base.size a cur =
        .ok (base.size, { cur with store := c1, building := cur.building.map (fun b => (base.size, b.2 ++ [a])) }) := by
      show (match cur.store.addToList base.size a with | .ok s' => _ | .err e => _ | .panic m => _ | .fuelOut => _) = _
      rw [h1]
    obtain ⟨bl, ih⟩ := makeListAdd_basic nc cr hcr hR off hoff r (j + 1)
      { cur with store := c1, building := cur.building.map (fun b => (base.size, b.2 ++ [a])) } s' hdrop' g1
      (f1.2.2.2.2.1.trans hc) (fun x hx => hlt x (by simp [hx])) h2
    refine ⟨bl, ?_⟩
    show makeListAdd (basicRStore nc) (r.length + 1) (off + j) base.size cur = _
    rw [makeListAdd, bind_ok hget]
    simp only []
    rw [bind_ok (pure_apply _ cur), bind_ok hstep]
    exact ih

/-- **basic_listPopLaw** -/
theorem basic_listPopLaw (nc : NumCode F) : ListPopLawOn (basicRStore nc) BInvL := by
  intro top rest tvs st hI hregs hdp hdl
  obtain ⟨hinv, hlay⟩ := hI
  have hregs' : regsOf st.store.cells st.store.currentRegister = top ++ rest := hregs
  have hd : DecodesList ((basicRStore nc).view st) top.reverse tvs.reverse := decodesList_reverse hdl
  have hd' : DecodesList (basicView nc.dec st.store.cells) top.reverse tvs.reverse := hd
  have hnode : ∀ a ∈ top.reverse, isNode st.store.cells a = true := by
    intro a ha
    obtain ⟨v, hv⟩ := decodesList_mem hd' a ha
    exact (decodes_node hinv.wfq hv).2
  have hlt : ∀ a ∈ top.reverse, a < st.store.cells.size := fun a ha => node_lt (hnode a ha)
  have hpair : ∀ a ∈ top.reverse, ∀ l r, st.store.cells[a]? = some (Cell.pair l r) → l < st.store.cells.size := by
    intro a ha l r hc
    have hsh : shape st.store.cells a = some ⟨.pair 0 0, [], [l, r]⟩ := shape_of_solo hc rfl
    have := hinv.wfq.kid_lt hsh (by simp [svAt, hc, isSV]) (k := l) (by simp)
    have := hlt a ha
    omega
  obtain ⟨s4, li, hok, hlay'⟩ := buildList_total hinv.fits hlay hlt hpair
  obtain ⟨_, hdec, he, hb⟩ := basic_buildList_law nc hinv hd hok
  obtain ⟨_, hcells4, hf4⟩ := buildList_spec hlt hok
  have hsub4 : Sub st.store.cells s4.cells := by rw [hcells4]; exact sub_append _ _
  have hsplit := hok
  simp only [Store.buildList, BasicOpt.bind_eq_ok] at hsplit
  obtain ⟨⟨s1, li1⟩, hstart, s2, hfold, hend⟩ := hsplit
  obtain ⟨hli1, hc1, f1⟩ := startList_spec hstart
  subst hli1
  obtain ⟨hinv2, f2⟩ := addAll_exp top.reverse 0 s1 s2 (by simp) (startList_exp hstart) hlt hfold
  have hsub1 : Sub st.store.cells s1.cells := by rw [hc1]; exact sub_append _ _
  have hsub2 : Sub st.store.cells s2.cells := by
    intro p c hc
    rw [hinv2 p, expCell_base (cell_lt hc)]; exact hc
  have hreg2 : s2.currentRegister = st.store.currentRegister := (f1.trans f2).2.2.2.2.1
  have hcrlt : ∀ a, st.store.currentRegister = some a → a < st.store.cells.size :=
    fun a ha => isRegCell_lt (hinv.regHead a ha)
  obtain ⟨o', hh, htyped, hregsk⟩ :=
    headAfter_total hinv.wfq hinv.regPrev top.length st.store.currentRegister hinv.regHead
  have hh2 : headAfter s2.cells top.length s2.currentRegister = some o' := by
    rw [hreg2]; exact headAfter_sub hsub2 top.length _ _ hh
  have h1 : (basicRStore nc).startList top.reverse.length st =
      .ok (st.store.cells.size, { st with store := s1, building := some (st.store.cells.size, []) }) := by
    show (match st.store.startList top.reverse.length with
      | .ok (s', i) => _ | .err e => _ | .panic m => _ | .fuelOut => _) = _
    rw [hstart]
  have hr1 : (basicRStore nc).regs { st with store := s1, building := some (st.store.cells.size, []) } = top ++ rest := by
    show regsOf s1.cells s1.currentRegister = _
    rw [f1.2.2.2.2.1, regsOf_sub hsub1 hcrlt, hregs']
  obtain ⟨bl, h2⟩ := makeListAdd_basic nc (base := st.store.cells) (items := top.reverse) (R := top ++ rest)
    st.store.currentRegister hcrlt hregs' rest.length
    (by intro j; rw [List.reverse_append, List.getElem?_append_right (by simp)]; simp)
    top.reverse 0 { st with store := s1, building := some (st.store.cells.size, []) } s2 (by simp)
    (startList_exp hstart) f1.2.2.2.2.1 hlt hfold
  have h3 := popsRM_basic nc top.length { st with store := s2, building := bl } o' hh2
  rw [← popRegisters_eq_popsRM] at h3
  have hend' := endList_reg o' hend
  have h4 : (basicRStore nc).endList st.store.cells.size
      { st with store := { s2 with currentRegister := o' }, building := bl } =
      .ok (li, { st with store := { s4 with currentRegister := o' }, building := none }) := by
    show (match Store.endList { s2 with currentRegister := o' } st.store.cells.size with
      | .ok (s', i) => _ | .err e => _ | .panic m => _ | .fuelOut => _) = _
    rw [hend']
  have hotlt : ∀ a, o' = some a → a < st.store.cells.size := fun a ha => isRegCell_lt (htyped a ha)
  rw [List.length_reverse] at h1 h2
  refine ⟨_, _, _, _, _, li, { st with store := { s4 with currentRegister := o' }, building := none },
    h1, hr1, h2, h3, h4, hdec,
    ⟨⟨he.keeps.dec, rfl, rfl, rfl, rfl⟩, ?_, he.vals, rfl, he.frames⟩, ⟨?_, hb.fits, ?_, hb.regPrev, hb.frameSaved,
      ⟨hb.ftyped.head, hb.ftyped.prev, hb.ftyped.reg⟩⟩, hlay'⟩
  · show regsOf s4.cells o' = _
    rw [regsOf_sub hsub4 hotlt, hregsk, hregs']; simp
  · exact hb.wfq.withHeads o' _ _ (regCell_node (fun a ha => isRegCell_sub hsub4 (htyped a ha))) hb.wfq.val hb.wfq.frm
  · intro a ha
    exact isRegCell_sub hsub4 (htyped a ha)

variable (fo : FloatOps F) {P : Prog F} {host : Host F}

/-- the contract `StoreLawsOnL` holds of BasicGarnishData -/
theorem C01_basic_storeLawsOnL (nc : NumCode F) : StoreLawsOnL (basicRStore nc) BInvL BReadable :=
  basic_storeLawsOnL nc (basic_listPopLaw nc)

/-- the `MakeList` step of the real Basic store, no list-law hypothesis -/
theorem C01_refine_step_on_basic_makeList' (nc : NumCode F) (fuel : Nat)
    (H : OtherHandlers BState) {s : BState} {m : MState F} (hsim : Sim (basicRStore nc) P s m) (hi : BInvL s)
    {operand : Option Nat} (hfetch : P.instrs[m.pc]? = some (.makeList, operand))
    (hok : ∀ n, operand = some n → MDeepN m n) : StepSimOn fo host (basicRStore nc) BInvL P fuel H s m :=
  C01_refine_step_on_basic_makeList fo nc (basic_listPopLaw nc) fuel H hsim hi hfetch hok

/-- the run on BasicGarnishData, no list-law hypothesis -/
theorem C01_refine_run_on_basic' (nc : NumCode F)
    (HR : HostRefinesI (basicRStore nc) BInvL host) (fuel : Nat) (cast : RM BState (Option Nat)) (n : Nat)
    {s : BState} {m : MState F} (hsim : Sim (basicRStore nc) P s m) (hi : BInvL s)
    (hl : Loaded (basicRStore nc) P s)
    (hok : RunOKG fo (MachOKOnL fo (basicRStore nc) BInvL P fuel) host P n m) {m' : MState F} {k : Nat}
    (hrun : Abs.run fo host P n m = (.halted m', k)) :
    ∃ s', executeLoop fo (basicRStore nc) fuel (fullHandlers fo (basicRStore nc) fuel cast) n s = .ok ((.end_, k), s') ∧
      SimD (basicRStore nc) P s' m'.regs m'.vals m'.frames ∧ DecKept (basicRStore nc) s s' ∧ BInvL s' :=
  C01_refine_run_on_basic fo nc (basic_listPopLaw nc) HR fuel cast n hsim hi hl hok hrun

end Garnish.Props.RuntimeRefine
