/-
Runtime refinement, part 3c (C16 / C06 anchor): `make_list` (runtime/src/runtime/list.rs, Model/Runtime/MakeList.lean).

The data object's list builder is specified once in `StoreLaws` through a ghost "list under construction"
(`S.building`): `start_list` opens it empty, `add_to_list` appends one item, `end_list` returns the address of a list
of exactly the added items in the order they were added; popping registers does not disturb it.
`C16_refine_make_list`: with `len` registers `top` on the stack (top at the head) denoting `tvs`, the handler pops
exactly those, pushes ONE address denoting `.list tvs.reverse` — the items in register order, bottom-most first,
which is Abs/Machine `.makeList`: `.list (regs.take n).reverse :: regs.drop n` — and touches nothing else.
`C16_refine_make_list_short`: with fewer registers, the state error before anything is touched.
-/
import Garnish.Lemmas.RuntimeMakeList
import Garnish.Lemmas.RuntimeRefStore
set_option linter.unusedSimpArgs false
set_option linter.unusedVariables false
namespace Garnish.Props.RuntimeRefine
open Garnish Gen Garnish.Abs Garnish.Model.Equality Garnish.Model.Runtime Garnish.Lemmas.Runtime

variable {F σ : Type} {S : RStore F σ}

theorem C16_refine_make_list (L : StoreLaws S) {s : σ} (top rest : List Nat) (tvs : List (Val F))
    (hregs : S.regs s = top ++ rest) (hd : DecodesList (S.view s) top tvs) :
    Pushed S s (makeList S top.length s) none rest (.list tvs.reverse) := makeList_spec L top rest tvs hregs hd

/-- the same, in the words of Abs/Machine: `n ≤ regs.length`, the new list holds `(regs.take n).reverse` -/
theorem C16_refine_make_list_machine (L : StoreLaws S) {s : σ} (n : Nat) (vs : List (Val F))
    (hn : n ≤ (S.regs s).length) (hd : DecodesList (S.view s) ((S.regs s).take n) vs) :
    Pushed S s (makeList S n s) none ((S.regs s).drop n) (.list vs.reverse) := by
  have h := makeList_spec L ((S.regs s).take n) ((S.regs s).drop n) vs (List.take_append_drop n _).symm hd
  rwa [List.length_take, Nat.min_eq_left hn] at h

theorem C16_refine_make_list_short {s : σ} {len : Nat} (h : len > (S.regs s).length) :
    makeList S len s = .err .state := makeList_short h

/-- the add loop alone: after it the construction holds the top registers bottom-most first -/
theorem C16_refine_make_list_add (L : StoreLaws S) (top rest : List Nat) (t : Nat) (s : σ)
    (hregs : S.regs s = top ++ rest) (hb : S.building s = some (t, [])) :
    ∃ t' s', makeListAdd S top.length rest.length t s = .ok (t', s') ∧ Eff S s s' (top ++ rest) (S.vals s) ∧
      S.building s' = some (t', top.reverse) := by
  have := makeListAdd_spec L top rest top.length 0 t s (by omega) hregs (by rw [hb]; rfl)
  simpa using this

/-! ### non-vacuity -/

/-- `0: 10   1: 20   2: 30` -/
def mlCells : List (RCell F) := [.num (.int 10), .num (.int 20), .num (.int 30)]

/-- registers `[2, 1, 0, 9]` (30 on top): `make_list 3` builds `[10, 20, 30]` — theorem instantiated … -/
example : Pushed (refStore (fun _ => none)) (RefState.init (mlCells (F := F)) [2, 1, 0, 9])
    (makeList (refStore (fun _ => none)) 3 (RefState.init mlCells [2, 1, 0, 9])) none [9]
    (.list [.num (.int 10), .num (.int 20), .num (.int 30)]) :=
  C16_refine_make_list (refStore_laws (fun _ => none)) [2, 1, 0] [9]
    [.num (.int 30), .num (.int 20), .num (.int 10)] rfl
    (.cons (.num rfl rfl) (.cons (.num rfl rfl) (.cons (.num rfl rfl) .nil)))

/-- registers, the items of the cell at address 3 and the construction state after a run (kernel-evaluable) -/
def mlResult (res : Outcome (Option Nat × RefState Unit)) :
    Option (Option Nat × List Nat × Option (List Nat) × Option (Nat × List Nat)) :=
  match res with
  | .ok (r, s') => some (r, s'.regs, (refView s'.cells).listItems 3, s'.building)
  | _ => none

/-- … and the model run: one new list cell with the item addresses bottom-most first, one register, the
construction closed -/
example : mlResult (makeList (refStore (fun _ => none)) 3 (RefState.init mlCells [2, 1, 0, 9]))
    = some (none, [3, 9], some [0, 1, 2], none) := by decide +kernel

/-- too few registers -/
example : makeList (refStore (fun _ => none)) 5 (RefState.init (mlCells (F := F)) [2, 1, 0, 9]) = .err .state := rfl

end Garnish.Props.RuntimeRefine
