/-
The relativised step theorem on BasicGarnishData (`basicRStore nc`, invariant `BInvL`, `BReadable`).
`basic_shadow_laws`: the shadow of the Basic store whose `add_to_list` only extends the ghost field `building` and
whose `end_list` issues the announced-length sequence `makeListRM` on the items collected there has the FULL contract
`StoreLawsOn` — from `basicStore_lawsOnL_noList` and `basic_makeList_law` (optimize-agent).  Hence
`C01_refine_step_on_basic`: for every covered instruction the REAL Basic store simulates the machine step;
`C01_refine_step_on_basic_makeList`: the `MakeList` step from the list law `ListPopLawOn (basicRStore nc) BInvL`
(hypothesis; `basic_makeListPop_law` gives the composite sequence, the per-call trace is not yet derived).
-/
import Garnish.Lemmas.RuntimeOnL2
import Garnish.Props.C19MakeList
namespace Garnish.Props.RuntimeRefine
open Garnish Gen Garnish.Abs Garnish.Model.Equality Garnish.Model.Runtime Garnish.Model.Runtime.Basic Garnish.BasicOpt
open Garnish.Lemmas.Runtime Garnish.Lemmas.Runtime.Basic Garnish.Lemmas.Runtime.On Garnish.Lemmas.Runtime.OnL
open Garnish.Props.C19StoreOn Garnish.Props.C19ListOn Garnish.Props.C19StoreOnL

variable {F : Type}

/-- idealised `add_to_list`: only the ghost field records the item -/
def ghostAdd : Nat → Nat → RM BState Nat := fun t a st =>
  .ok (t, { st with building := st.building.map (fun b => (b.1, b.2 ++ [a])) })

/-- idealised `end_list`: the announced-length sequence on the items recorded -/
def ghostEnd (nc : NumCode F) : Nat → RM BState Nat := fun _ st =>
  match st.building with
  | some (_, items) => makeListRM (basicRStore nc) items st
  | none => .err .state

theorem binvL_ghost {st : BState} (hi : BInvL st) (b : Option (Nat × List Nat)) : BInvL { st with building := b } :=
  ⟨⟨hi.1.wfq, hi.1.fits, hi.1.regHead, hi.1.regPrev, hi.1.frameSaved, hi.1.ftyped⟩, hi.2⟩

/-- **basic_shadow_laws** -/
theorem basic_shadow_laws (nc : NumCode F) :
    StoreLawsOn (shadow (basicRStore nc) ghostAdd (ghostEnd nc)) BInvL BReadable := by
  refine storeLawsOn_shadow _ _ (basicStore_lawsOnL_noList nc) ?_ ?_
  · intro t items a st hi hb
    have hb' : st.building = some (t, items) := hb
    refine ⟨t, { st with building := st.building.map (fun b => (b.1, b.2 ++ [a])) }, rfl,
      ⟨⟨fun _ _ h => h, rfl, rfl, rfl, rfl⟩, rfl, rfl, rfl, rfl⟩, ?_, binvL_ghost hi _⟩
    show st.building.map _ = _
    rw [hb']; rfl
  · intro t items vs st hi hb hd
    have hb' : st.building = some (t, items) := hb
    have h := basic_makeList_law nc items vs st hi hd
    unfold AddsOn at h ⊢
    have : ghostEnd nc t st = makeListRM (basicRStore nc) items st := by
      unfold ghostEnd; rw [hb']
    rw [this]; exact h

variable (fo : FloatOps F) {P : Prog F} {host : Host F}

/-- **C01_refine_step_on_basic**: one step of the real Basic store, every covered instruction -/
theorem C01_refine_step_on_basic (nc : NumCode F) (HR : HostRefinesI (basicRStore nc) BInvL host) (fuel : Nat)
    (cast : RM BState (Option Nat)) {s : BState} {m : MState F} (hsim : Sim (basicRStore nc) P s m) (hi : BInvL s)
    (hl : Loaded (basicRStore nc) P s) {instr : Instruction} {operand : Option Nat}
    (hfetch : P.instrs[m.pc]? = some (instr, operand)) (hc : shadowCovered instr = true)
    (hok : MachOKOn4 fo (basicRStore nc) BInvL P fuel m instr operand) :
    StepSimOn fo host (basicRStore nc) BInvL P fuel (fullHandlers fo (basicRStore nc) fuel cast) s m :=
  refine_step_on_shadow fo (basic_shadow_laws nc) HR fuel cast hsim hi hl hfetch hc hok

/-- the `MakeList` step of the real Basic store from the list law in `make_list`'s shape -/
theorem C01_refine_step_on_basic_makeList (nc : NumCode F) (LP : ListPopLawOn (basicRStore nc) BInvL) (fuel : Nat)
    (H : OtherHandlers BState) {s : BState} {m : MState F} (hsim : Sim (basicRStore nc) P s m) (hi : BInvL s)
    {operand : Option Nat} (hfetch : P.instrs[m.pc]? = some (.makeList, operand))
    (hok : ∀ n, operand = some n → MDeepN m n) : StepSimOn fo host (basicRStore nc) BInvL P fuel H s m :=
  refine_step_makeListL fo (basicStore_lawsOnL_noList nc) LP fuel H hsim hi hfetch hok

/-- the contract on the Basic store, given the list law -/
theorem basic_storeLawsOnL (nc : NumCode F) (LP : ListPopLawOn (basicRStore nc) BInvL) :
    StoreLawsOnL (basicRStore nc) BInvL BReadable :=
  ⟨basicStore_lawsOnL_noList nc, ⟨ghostAdd, ghostEnd nc, basic_shadow_laws nc⟩, LP⟩

end Garnish.Props.RuntimeRefine
