/-
`BasicGarnishData` and the relativised store contract `StoreLawsOn` (Model/Runtime/StoreOn.lean).

`basicStore_lawsOn_noList`: every clause of `StoreLawsOn (basicRStore nc) BInv BReadable` EXCEPT `addToList` and
`endList` — the structure `StoreLawsOnNoList` is `StoreLawsOn` without these two fields, copied clause by clause.
The two clauses are FALSE of BasicGarnishData as stated (`basic_addToList_clause_false`): `start_list(n)` announces
the length, `add_to_list` answers `Err` once `n` items are there and `end_list` answers `Err` before that.  What
holds instead is the law of the whole protocol — `start_list(n)`, exactly `n` × `add_to_list`, `end_list` —
`basic_buildList_law` (when the protocol answers `Ok`; its totality under `Fits` is not proved).
`StoreLawsOnNoList.toOn`: the two clauses are all that separates `basicStore_lawsOn_noList` from `StoreLawsOn`; with a
length parameter in the contract (`building : σ → Option (Nat × Nat × List Nat)`: token, announced length, items;
`addToList` with the premise `items.length < n`, `endList` with `items.length = n`) they become provable.

`BInv` (Lemmas/BasicLaws.lean): `WFq` + `Fits` + typed register chain + typed frame chain; `BReadable st a` = `a` is a
readable address (`isNode`).  The loader bridge (`C01_text_to_basic_store`) needs `StoreLawsOn` as a whole and is not
instantiated: it waits for the list clauses.  Note for the loader: `BState.init` has an EMPTY data block — Basic
preallocates nothing (no Unit / False / True cells), so the builder's constant addresses need no relocation by 3.
-/
import Garnish.Lemmas.BasicLaws11
import Garnish.Model.Runtime.StoreOn
namespace Garnish.Props.C19StoreOn
open Garnish Gen Garnish.Model.Equality Garnish.Model.Runtime Garnish.Model.Runtime.Basic Garnish.BasicOpt
open Garnish.Lemmas.Runtime.Basic

variable {F σ : Type}

/-- `StoreLawsOn` without the clauses `addToList` and `endList` -/
structure StoreLawsOnNoList (S : RStore F σ) (Inv : σ → Prop) (Readable : σ → Nat → Prop) : Prop where
  rangeTyped : ∀ s a p, (S.view s).range a = some p → (S.view s).typeOf a = some .range
  listIdx : ∀ s, Indexes (S.listLen s) (S.listItem s) (S.view s).listItems
  charIdx : ∀ s, Indexes (S.charLen s) (S.charItem s) (S.view s).chars
  byteIdx : ∀ s, Indexes (S.byteLen s) (S.byteItem s) (S.view s).bytes
  symIdx : ∀ s, Indexes (S.symLen s) (S.symItem s) (S.view s).symList
  addUnit : ∀ s, Inv s → AddsOn S Inv S.addUnit s .unit
  addTrue : ∀ s, Inv s → AddsOn S Inv S.addTrue s .tru
  addFalse : ∀ s, Inv s → AddsOn S Inv S.addFalse s .fls
  addNumber : ∀ n s, Inv s → AddsOn S Inv (S.addNumber n) s (.num n)
  addType : ∀ t s, Inv s → AddsOn S Inv (S.addType t) s (.type t)
  addChar : ∀ c s, Inv s → AddsOn S Inv (S.addChar c) s (.char c)
  addByte : ∀ b s, Inv s → AddsOn S Inv (S.addByte b) s (.byte b)
  addSymbol : ∀ y s, Inv s → AddsOn S Inv (S.addSymbol y) s (.sym y)
  addPair : ∀ l r vl vr s, Inv s → Decodes (S.view s) l vl → Decodes (S.view s) r vr →
    AddsOn S Inv (S.addPair (l, r)) s (.pair vl vr)
  addConcatenation : ∀ l r vl vr s, Inv s → Decodes (S.view s) l vl → Decodes (S.view s) r vr →
    (∀ x y, vl ≠ .slice x y) → (∀ x y, vr ≠ .slice x y) → AddsOn S Inv (S.addConcatenation l r) s (.concat vl vr)
  addRange : ∀ l r vl vr s, Inv s → Decodes (S.view s) l vl → Decodes (S.view s) r vr →
    AddsOn S Inv (S.addRange l r) s (.range vl vr)
  addSlice : ∀ l r vl vr s, Inv s → Decodes (S.view s) l vl → Decodes (S.view s) r vr →
    AddsOn S Inv (S.addSlice l r) s (.slice vl vr)
  addPartial : ∀ l r vl vr s, Inv s → Decodes (S.view s) l vl → Decodes (S.view s) r vr →
    AddsOn S Inv (S.addPartial l r) s (.part vl vr)
  mergeSome : ∀ l r vl vr v s, Inv s → Decodes (S.view s) l vl → Decodes (S.view s) r vr →
    Abs.mergeSymList vl vr = some v → (∀ n, vl ≠ .num n) → (∀ n, vr ≠ .num n) →
    AddsOn S Inv (S.mergeToSymbolList l r) s v
  startList : ∀ n s, Inv s → ∃ t s', S.startList n s = .ok (t, s') ∧ Eff S s s' (S.regs s) (S.vals s) ∧
    S.building s' = some (t, []) ∧ Inv s'
  popRegisterBuilding : ∀ s o s', S.popRegister s = .ok (o, s') → S.building s' = S.building s
  readable : ∀ s a v, Inv s → Decodes (S.view s) a v → v ≠ .custom → Readable s a
  pushRegister : ∀ a s, Inv s → Readable s a →
    ∃ s', S.pushRegister a s = .ok ((), s') ∧ Eff S s s' (a :: S.regs s) (S.vals s) ∧ Inv s'
  popRegisterNil : ∀ s, Inv s → S.regs s = [] → S.frames s = [] →
    ∃ s', S.popRegister s = .ok (none, s') ∧ Eff S s s' [] (S.vals s) ∧ Inv s'
  popRegisterCons : ∀ s a rest, Inv s → S.regs s = a :: rest → Deep S s rest →
    ∃ s', S.popRegister s = .ok (some a, s') ∧ Eff S s s' rest (S.vals s) ∧ Inv s'
  pushValueStack : ∀ a s, Inv s → Readable s a →
    ∃ s', S.pushValueStack a s = .ok ((), s') ∧ Eff S s s' (S.regs s) (a :: S.vals s) ∧ Inv s'
  popValueStackNil : ∀ s, Inv s → S.vals s = [] →
    ∃ s', S.popValueStack s = .ok (none, s') ∧ Eff S s s' (S.regs s) [] ∧ Inv s'
  popValueStackCons : ∀ s a rest, Inv s → S.vals s = a :: rest →
    ∃ s', S.popValueStack s = .ok (some a, s') ∧ Eff S s s' (S.regs s) rest ∧ Inv s'
  setCurrentNil : ∀ r s, Inv s → S.vals s = [] →
    ∃ s', S.setCurrentValue r s = .ok (false, s') ∧ Eff S s s' (S.regs s) [] ∧ Inv s'
  setCurrentCons : ∀ r s a rest, Inv s → Readable s r → S.vals s = a :: rest →
    ∃ s', S.setCurrentValue r s = .ok (true, s') ∧ Eff S s s' (S.regs s) (r :: rest) ∧ Inv s'
  pushFrame : ∀ j s, Inv s → ∃ s', S.pushFrame j s = .ok ((), s') ∧
    FEff S s s' (S.regs s) (S.vals s) ((j, S.regs s) :: S.frames s) ∧ Inv s'
  /-- `pop_frame` with no frame: `None`; the registers stay or are all gone -/
  popFrameNil : ∀ s, Inv s → S.frames s = [] →
    ∃ s' R, S.popFrame s = .ok (none, s') ∧ Eff S s s' R (S.vals s) ∧ (R = S.regs s ∨ R = []) ∧ Inv s'
  popFrameCons : ∀ s ret saved fs, Inv s → S.frames s = (ret, saved) :: fs →
    ∃ s', S.popFrame s = .ok (some ret, s') ∧ FEff S s s' saved (S.vals s) fs ∧ Inv s'
  setCursor : ∀ n s, ∃ s', S.setInstructionCursor n s = .ok ((), s') ∧ S.cursor s' = n ∧
    (∀ a v, Decodes (S.view s) a v → Decodes (S.view s') a v) ∧ S.jumpTable s' = S.jumpTable s ∧
    S.instrLen s' = S.instrLen s ∧ S.instruction s' = S.instruction s ∧ S.dataLen s' = S.dataLen s ∧
    S.regs s' = S.regs s ∧ S.vals s' = S.vals s ∧ S.trace s' = S.trace s ∧ S.frames s' = S.frames s ∧
    (Inv s → Inv s')
  deferOp : ∀ op l r, Records S (S.deferOp op l r) (.defer op l r)
  resolve : ∀ y, Records S (S.resolve y) (.resolve y)
  apply : ∀ e a, Records S (S.apply e a) (.apply e a)
  dataBound : ∀ s a v, Decodes (S.view s) a v → a < S.dataLen s

/-- the two list clauses are all that is missing -/
theorem StoreLawsOnNoList.toOn {S : RStore F σ} {Inv : σ → Prop} {Readable : σ → Nat → Prop}
    (L : StoreLawsOnNoList S Inv Readable)
    (hadd : ∀ t items a s, Inv s → S.building s = some (t, items) →
      ∃ t' s', S.addToList t a s = .ok (t', s') ∧ Eff S s s' (S.regs s) (S.vals s) ∧
        S.building s' = some (t', items ++ [a]) ∧ Inv s')
    (hend : ∀ t items vs s, Inv s → S.building s = some (t, items) → DecodesList (S.view s) items vs →
      Garnish.Model.Runtime.AddsOn S Inv (S.endList t) s (.list vs)) : StoreLawsOn S Inv Readable :=
  { L with addToList := hadd, endList := hend }

/-- what may be pushed on a stack of `BasicGarnishData`: a readable address -/
def BReadable (st : BState) (a : Nat) : Prop := isNode st.store.cells a = true

/-- **basicStore_lawsOn_noList** -/
theorem basicStore_lawsOn_noList (nc : NumCode F) : StoreLawsOnNoList (basicRStore nc) BInv BReadable where
  rangeTyped := fun st a p h => rangeTyped_law nc st a p h
  listIdx := fun st => list_indexes _
  charIdx := fun st => seq_indexes _
  byteIdx := fun st => seq_indexes _
  symIdx := fun st => seq_indexes _
  addUnit := fun _ h => addUnit_law nc h
  addTrue := fun _ h => addTrue_law nc h
  addFalse := fun _ h => addFalse_law nc h
  addNumber := fun n _ h => addNumber_law nc h n
  addType := fun t _ h => addType_law nc h t
  addChar := fun c _ h => addChar_law nc h c
  addByte := fun b _ h => addByte_law nc h b
  addSymbol := fun y _ h => addSymbol_law nc h y
  addPair := fun _ _ _ _ _ h hl hr => addPair_law nc h hl hr
  addConcatenation := fun _ _ _ _ _ h hl hr _ _ => addConcatenation_law nc h hl hr
  addRange := fun _ _ _ _ _ h hl hr => addRange_law nc h hl hr
  addSlice := fun _ _ _ _ _ h hl hr => addSlice_law nc h hl hr
  addPartial := fun _ _ _ _ _ h hl hr => addPartial_law nc h hl hr
  mergeSome := fun _ _ _ _ _ _ h hl hr hm h1 h2 => mergeSome_law nc h hl hr hm h1 h2
  startList := fun n _ h => startList_law nc h n
  popRegisterBuilding := fun st o st' h => by
    change liftPop (fun s => s.popRegister) st = .ok (o, st') at h
    unfold liftPop at h
    split at h
    · simp only [Outcome.ok.injEq, Prod.mk.injEq] at h
      rw [← h.2]; rfl
    all_goals cases h
  readable := fun _ _ _ h hd _ => (decodes_node h.wfq hd).2
  pushRegister := fun _ _ h ha => pushRegister_law nc h ha
  popRegisterNil := fun _ h hn _ => (popRegister_law nc h).1 hn
  popRegisterCons := fun _ a rest h hc _ => (popRegister_law nc h).2 a rest hc
  pushValueStack := fun _ _ h ha => pushValue_law nc h ha
  popValueStackNil := fun _ h hn => (popValue_law nc h).1 hn
  popValueStackCons := fun _ a rest h hc => (popValue_law nc h).2 a rest hc
  setCurrentNil := fun r _ h hv => (setCurrent_law nc h r).1 hv
  setCurrentCons := fun r _ a rest h hr hv => (setCurrent_law nc h r).2 a rest hr hv
  pushFrame := fun j _ h => pushFrame_law nc h j
  popFrameNil := fun _ h hn => by
    obtain ⟨st', h1, h2, h3⟩ := (popFrame_law nc h).1 hn
    exact ⟨st', _, h1, h2, Or.inl rfl, h3⟩
  popFrameCons := fun _ ret saved fs h hf => (popFrame_law nc h).2 ret saved fs hf
  setCursor := fun n st => setCursor_law nc n st
  deferOp := fun op l r => records_law nc _
  resolve := fun y => records_law nc _
  apply := fun e a => records_law nc _
  dataBound := fun st a v hd => by
    have ht := Garnish.Lemmas.EqualityRefine.decodes_typeOf hd
    change (basicView nc.dec st.store.cells).typeOf a = _ at ht
    rw [bv_typeOf] at ht
    cases hc : st.store.cells[a]? with
    | none => simp [hc] at ht
    | some c => exact Garnish.BasicOpt.cell_lt hc

/-- `StoreLawsOn.addToList` is false of `BasicGarnishData` -/
theorem basic_addToList_clause_false (nc : NumCode F) :
    ¬ (∀ t items a st, BInv st → (basicRStore nc).building st = some (t, items) →
        ∃ t' st', (basicRStore nc).addToList t a st = .ok (t', st') ∧
          Eff (basicRStore nc) st st' ((basicRStore nc).regs st) ((basicRStore nc).vals st) ∧
          (basicRStore nc).building st' = some (t', items ++ [a]) ∧ BInv st') :=
  addToList_clause_false nc

/-- hence `StoreLawsOn (basicRStore nc) BInv BReadable` itself does not hold -/
theorem basic_not_lawsOn (nc : NumCode F) : ¬ StoreLawsOn (basicRStore nc) BInv BReadable :=
  fun L => basic_addToList_clause_false nc L.addToList

/-- **the Basic list law**: the whole protocol with exactly the announced number of items -/
theorem basic_buildList_law (nc : NumCode F) {st : BState} (hinv : BInv st) {items : List Nat} {vs : List (Val F)}
    (hd : DecodesList ((basicRStore nc).view st) items vs) {s' : Store} {li : Nat}
    (h : st.store.buildList items = .ok (s', li)) :
    li = st.store.cells.size ∧ Decodes (basicView nc.dec s'.cells) li (.list vs) ∧
      Eff (basicRStore nc) st { st with store := s' } ((basicRStore nc).regs st) ((basicRStore nc).vals st) ∧
      BInv { st with store := s' } :=
  buildList_law nc hinv hd h

end Garnish.Props.C19StoreOn
