/-
Runtime refinement, part 3 (C17 / C16 / C08 anchors): resolve.rs, access.rs and the look-up functions of list.rs
(Model/Runtime/{Resolve,List,Concatenation}.lean) against Abs/Machine `resolveStep` and Abs/Ops `getAccess`,
`accessInt`, `accessSym`, `access`.

* `C17_refine_resolve(_no_input)`: the key is looked up in the current input value first; found ↦ pushed, host not
  asked; otherwise a symbol key is offered to the host exactly once with that symbol (`ResolveProtocol`,
  `C17_refine_resolve_once`), unit iff it declines; a non-symbol key gives unit without a host call.
* `C16_refine_get_access_addr` / `_access_with_integer` / `_access_with_symbol` / `_index_*`: the look-ups return
  the address of (or freshly add) exactly the item Abs/Ops names — lists keep their order, the first pair keyed by
  the symbol is found.
* `C08_refine_access`: the `access` handler refines Abs/Ops `access` (merge / look-up / defer protocol; a look-up
  that answers `UnsupportedOpTypes` is offered to the host like any undefined combination).

Domain (`AccessDomain`, Model/Runtime/Refines.lean): the looked-into value is not a slice (Abs/Ops does not model
look-ups in slices); its sequences — the flattened items of a concatenation included — are no longer than
`i32::MAX`; a number key is an INTEGER (the item getters' contract says nothing about fractional indexes, and on a
concatenation the code compares with the mixed `==`, see the recorded disagreement) and comparable with a range's
length (`RangeOrdered`: fails only for NaN). Look-ups into a concatenation run the register work-list
`iterate_concatenation_mut` (Props/RuntimeRefineConcat.lean): `accessFuel v ≤ fuel` is the fuel bound.
-/
import Garnish.Lemmas.RuntimeAccessHandler
import Garnish.Lemmas.RuntimeRefStore
set_option linter.unusedSimpArgs false
set_option linter.unusedVariables false
namespace Garnish.Props.RuntimeRefine
open Garnish Gen Garnish.Abs Garnish.Model.Equality Garnish.Model.Runtime Garnish.Lemmas.Runtime

variable {F σ : Type} {S : RStore F σ} (fo : FloatOps F)

/-- the second half of `resolve` from a state that kept everything of `s` -/
theorem resolveContext_spec (L : StoreLaws S) {s s0 : σ} {data : Nat} {key : Val F}
    (e0 : Eff S s s0 (S.regs s) (S.vals s)) (hk : Decodes (S.view s0) data key) :
    ResolveContext S s (resolveContext S data s0) none key := by
  refine ⟨s0, e0, ?_⟩
  rw [resolveContext, bind_ok (getDataType_of hk)]
  cases key
  case sym sy =>
    simp only [Val.typeOf]
    rw [bind_apply, bind_ok (getSymbol_of hk)]
    unfold ResolveProtocol
    cases hr : S.resolve sy s0 with
    | ok p =>
      obtain ⟨b, s1⟩ := p
      cases b with
      | true => rfl
      | false =>
        simp only [Bool.false_eq_true, if_false]
        obtain ⟨a, s2, h2, d2, e2⟩ := pushUnit_spec L s1
        exact ⟨a, s2, by rw [bind_ok h2]; rfl, d2, e2⟩
    | err e => rfl
    | panic p => rfl
    | fuelOut => rfl
  all_goals
    simp only [Val.typeOf, Bool.false_eq_true, if_false]
    obtain ⟨a, s2, h2, d2, e2⟩ := pushUnit_spec L s0
    exact ⟨a, s2, by rw [bind_ok (pure_apply false s0)]; simp only [Bool.false_eq_true, if_false]; rw [bind_ok h2]; rfl, d2, e2⟩

/-- `resolve` with no input value: straight to the context -/
theorem C17_refine_resolve_no_input (L : StoreLaws S) (fuel : Nat) {s : σ} {data : Nat} {key : Val F}
    (hv : S.vals s = []) (hk : Decodes (S.view s) data key) :
    ResolveContext S s (Model.Runtime.resolve fo S fuel data s) none key := by
  have hg : getCurrentValue S s = .ok (none, s) := by
    show Outcome.ok ((S.vals s).head?, s) = _
    rw [hv]; rfl
  rw [Model.Runtime.resolve, bind_ok hg]
  exact resolveContext_spec L (Eff.refl S s) hk

/-- `resolve` (C17): the key is looked up in the current input value first (`get_access_addr`, Abs/Ops
`getAccess`). Found ↦ the value's address is pushed and the host is NOT asked. Not found, or the input value
cannot be looked into with this kind of key ↦ the context: a symbol key is offered to the host exactly once with
that symbol (`ResolveProtocol`), unit is pushed iff it declines; any other key gives unit without a host call.
Another error of the lookup is the instruction's error. -/
theorem C17_refine_resolve (L : StoreLaws S) (fuel : Nat) {s : σ} {data c : Nat} {vs : List Nat} {key cur : Val F}
    (hv : S.vals s = c :: vs) (hk : Decodes (S.view s) data key) (hc : Decodes (S.view s) c cur)
    (hd : AccessDomain cur) (hkey : ∀ n, key = .num n → (∃ i, n = .int i) ∧ RangeOrdered fo n cur)
    (hf : accessFuel cur ≤ fuel) :
    match getAccess fo key cur with
    | .some v => Pushed S s (Model.Runtime.resolve fo S fuel data s) none (S.regs s) v
    | .none => ResolveContext S s (Model.Runtime.resolve fo S fuel data s) none key
    | .unsupported => ResolveContext S s (Model.Runtime.resolve fo S fuel data s) none key
    | .err e => e ≠ .unsupported → Model.Runtime.resolve fo S fuel data s = .err e := by
  have hg : getCurrentValue S s = .ok (some c, s) := by
    show Outcome.ok ((S.vals s).head?, s) = _
    rw [hv]; rfl
  have ha := getAccessAddr_spec fo L fuel hk hc hd hkey hf
  rw [Model.Runtime.resolve, bind_ok hg]
  simp only []
  cases hga : getAccess fo key cur with
  | some v =>
    rw [hga] at ha
    obtain ⟨x, s1, h1, d1, e1⟩ := ha
    obtain ⟨s2, h2, e2⟩ := L.pushRegister x s1
    rw [e1.regs, e1.vals] at e2
    simp only [h1]
    exact ⟨x, s2, by rw [bind_ok h2]; rfl, e2.dec d1, e1.trans e2⟩
  | none =>
    rw [hga] at ha
    obtain ⟨s1, h1, e1⟩ := ha
    simp only [h1]
    exact resolveContext_spec L e1 (e1.dec hk)
  | unsupported =>
    rw [hga] at ha
    simp only [AccOut] at ha
    simp only [ha, beq_self_eq_true, if_true]
    exact resolveContext_spec L (Eff.refl S s) hk
  | err e =>
    rw [hga] at ha
    simp only [AccOut] at ha
    intro hne
    have : (e == ErrClass.unsupported) = false := by simpa using hne
    simp only [ha, this, Bool.false_eq_true, if_false]

/-- "exactly once, with the symbol": after `resolve` has gone to the context with a symbol key the trace is the
old trace plus the one call `resolve sy` -/
theorem C17_refine_resolve_once (L : StoreLaws S) {α : Type} {s0 : σ} {res : Outcome (α × σ)} {next : α} {sy : Nat}
    (h : ResolveProtocol S s0 res next sy) {x : α} {s' : σ} (hres : res = .ok (x, s')) :
    S.trace s' = .resolve sy :: S.trace s0 := by
  unfold ResolveProtocol at h
  cases hd : S.resolve sy s0 with
  | ok p =>
    obtain ⟨b, s1⟩ := p
    rw [hd] at h
    have ht := L.resolve sy s0 b s1 hd
    cases b with
    | true => simp only [] at h; rw [h] at hres; cases hres; exact ht
    | false =>
      simp only [] at h
      obtain ⟨a, s2, h2, _, e2⟩ := h
      rw [h2] at hres; cases hres
      rw [e2.trace, ht]
  | err e => rw [hd] at h; simp only [] at h; rw [h] at hres; cases hres
  | panic p => rw [hd] at h; simp only [] at h; rw [h] at hres; cases hres
  | fuelOut => rw [hd] at h; simp only [] at h; rw [h] at hres; cases hres

/-- and when the key is found in the input value the host trace is untouched -/
theorem C17_refine_resolve_found_no_call {s : σ} {res : Outcome (Option Nat × σ)} {v : Val F} {rest : List Nat}
    (h : Pushed S s res none rest v) : ∃ s', res = .ok (none, s') ∧ S.trace s' = S.trace s := by
  obtain ⟨_, s', h1, _, e⟩ := h
  exact ⟨s', h1, e.trace⟩

/-! ### list.rs -/

/-- `get_access_addr` refines Abs/Ops `getAccess` -/
theorem C16_refine_get_access_addr (L : StoreLaws S) (fuel : Nat) {s : σ} {ka a : Nat} {key v : Val F}
    (hk : Decodes (S.view s) ka key) (h : Decodes (S.view s) a v) (hd : AccessDomain v)
    (hkey : ∀ n, key = .num n → (∃ i, n = .int i) ∧ RangeOrdered fo n v) (hf : accessFuel v ≤ fuel) :
    AccOut S s (getAccessAddr fo S fuel ka a s) (getAccess fo key v) := getAccessAddr_spec fo L fuel hk h hd hkey hf

/-- `access_with_integer` refines Abs/Ops `accessInt` -/
theorem C16_refine_access_with_integer (L : StoreLaws S) (fuel : Nat) {s : σ} {a : Nat} {v : Val F} (i : Int)
    (h : Decodes (S.view s) a v) (hd : AccessDomain v) (hro : RangeOrdered fo (.int i) v)
    (hf : accessFuel v ≤ fuel) :
    AccOut S s (accessWithInteger fo S fuel (.int i) a s) (accessInt fo (.int i) v) :=
  accessWithInteger_spec fo L fuel i h hd hro hf

/-- `access_with_symbol` refines Abs/Ops `accessSym`: the first item keyed by the symbol, or nothing -/
theorem C16_refine_access_with_symbol (L : StoreLaws S) (fuel : Nat) {s : σ} {a : Nat} {v : Val F} (sym : Nat)
    (h : Decodes (S.view s) a v) (hd : AccessDomain v) (hf : accessFuel v ≤ fuel) :
    AccOut S s (accessWithSymbol fo S fuel sym a s) (accessSym sym v) := accessWithSymbol_spec fo L fuel sym h hd hf

/-- `index_list`: the `i`-th item's own address (order kept), nothing outside `0..len` -/
theorem C16_refine_index_list (L : StoreLaws S) {s : σ} {a : Nat} {vs : List (Val F)} (i : Int)
    (h : Decodes (S.view s) a (.list vs)) (hlen : vs.length ≤ 2147483647) :
    AccOut S s (indexList fo S a (.int i) s) (accessInt fo (.int i) (.list vs)) := indexList_spec fo L i h hlen

/-- `index_char_list` / `index_byte_list` / `index_symbol_list`: a freshly added char / byte / symbol-or-number -/
theorem C16_refine_index_char_list (L : StoreLaws S) {s : σ} {a : Nat} {cs : List Nat} (i : Int)
    (h : Decodes (S.view s) a (.chars cs)) (hlen : cs.length ≤ 2147483647) :
    AccOut S s (indexCharList fo S a (.int i) s) (accessInt fo (.int i) (.chars cs)) :=
  indexCharList_spec fo L i h hlen

theorem C16_refine_index_byte_list (L : StoreLaws S) {s : σ} {a : Nat} {cs : List Nat} (i : Int)
    (h : Decodes (S.view s) a (.bytes cs)) (hlen : cs.length ≤ 2147483647) :
    AccOut S s (indexByteList fo S a (.int i) s) (accessInt fo (.int i) (.bytes cs)) :=
  indexByteList_spec fo L i h hlen

theorem C16_refine_index_symbol_list (L : StoreLaws S) {s : σ} {a : Nat} {ps : List (SymPart F)} (i : Int)
    (h : Decodes (S.view s) a (.symList ps)) (hlen : ps.length ≤ 2147483647) :
    AccOut S s (indexSymbolList fo S a (.int i) s) (accessInt fo (.int i) (.symList ps)) :=
  indexSymbolList_spec fo L i h hlen

/-! ### access.rs -/

/-- the `access` handler refines Abs/Ops `access` -/
theorem C08_refine_access (L : StoreLaws S) (fuel : Nat) {s : σ} {r l : Nat} {vr vl : Val F} {rest : List Nat}
    (hregs : S.regs s = r :: l :: rest) (hl : Decodes (S.view s) l vl) (hr : Decodes (S.view s) r vr)
    (hd : accessArm vl.typeOf vr.typeOf = .get → AccessDomain vl ∧ accessFuel vl ≤ fuel ∧
      ∀ n, vr = .num n → (∃ i, n = .int i) ∧ RangeOrdered fo n vl) :
    RefinesOut S s (Model.Runtime.access fo S fuel s) none rest l r (Abs.access fo vl vr) :=
  access_spec fo L fuel hregs hl hr hd

/-- outside the look-up arm (every pair that is not (pair|list|text|bytes|range|concatenation|slice) × (number|symbol))
no domain condition is needed -/
theorem C08_refine_access_undefined (L : StoreLaws S) (fuel : Nat) {s : σ} {r l : Nat} {vr vl : Val F}
    {rest : List Nat} (hregs : S.regs s = r :: l :: rest) (hl : Decodes (S.view s) l vl)
    (hr : Decodes (S.view s) r vr) (harm : accessArm vl.typeOf vr.typeOf ≠ .get) :
    RefinesOut S s (Model.Runtime.access fo S fuel s) none rest l r (Abs.access fo vl vr) :=
  access_spec fo L fuel hregs hl hr (fun h => absurd h harm)

/-! ### non-vacuity -/

/-- `0: :k (symbol 7)   1: 40   2: :k = 40   3: 50   4: [2, 3]   5: 1 (index)   6: :z (symbol 8)   7: "ab"` -/
def accCells : List (RCell F) :=
  [.sym 7, .num (.int 40), .pair 0 1, .num (.int 50), .list [2, 3], .num (.int 1), .sym 8, .chars [97, 98]]

def accList : Val F := .list [.pair (.sym 7) (.num (.int 40)), .num (.int 50)]

theorem accList_dec : Decodes (refView (accCells (F := F))) 4 accList :=
  .list rfl rfl (.cons (.pair rfl rfl (.sym rfl rfl) (.num rfl rfl)) (.cons (.num rfl rfl) .nil))

/-- `resolve :k` with the list as input value: the theorem applies (found: `40`, the host is not asked) … -/
example : Pushed (refStore (fun _ => none)) { RefState.init (accCells (F := F)) [9] with vals := [4] }
    (Model.Runtime.resolve fo (refStore (fun _ => none)) 5 0 { RefState.init accCells [9] with vals := [4] })
    none [9] (.num (.int 40)) := by
  have h := C17_refine_resolve fo (refStore_laws (fun _ => none)) 5
    (s := { RefState.init (accCells (F := F)) [9] with vals := [4] }) (data := 0) (key := .sym 7) rfl
    (.sym rfl rfl) accList_dec (by simp [accList, AccessDomain]) (by intro n h; cases h) (Nat.zero_le _)
  have e : getAccess fo (.sym 7) (accList (F := F)) = .some (.num (.int 40)) := by
    simp [getAccess, accessSym, accList, lookupSym]
  rw [e] at h; exact h

/-- … and the model run: the value's own address is pushed, no host call -/
example : ∃ s', Model.Runtime.resolve fo (refStore (fun _ => none)) 5 0
      { RefState.init (accCells (F := F)) [9] with vals := [4] } = .ok (none, s') ∧
    s'.regs = [1, 9] ∧ s'.trace = [] := ⟨_, rfl, rfl, rfl⟩

/-- `resolve :z`: not in the input value ↦ the host is asked once with symbol 8; it declines ↦ unit -/
example : ∃ s', Model.Runtime.resolve fo (refStore (fun _ => none)) 5 6
      { RefState.init (accCells (F := F)) [9] with vals := [4] } = .ok (none, s') ∧
    s'.regs = [8, 9] ∧ s'.cells = accCells ++ [.unit] ∧ s'.trace = [.resolve 8] := ⟨_, rfl, rfl, rfl, rfl⟩

/-- `[…] . 1` and `"ab" . :k` (undefined: offered to the host as `Access`) -/
example : ∃ s', Model.Runtime.access fo (refStore (fun _ => none)) 5 (RefState.init (accCells (F := F)) [5, 4, 9])
      = .ok (none, s') ∧ s'.regs = [3, 9] ∧ s'.trace = [] := ⟨_, rfl, rfl, rfl⟩
example : ∃ s', Model.Runtime.access fo (refStore (fun _ => none)) 5 (RefState.init (accCells (F := F)) [0, 7, 9])
      = .ok (none, s') ∧ s'.regs = [8, 9] ∧ s'.trace = [.defer .access (.charList, 7) (.symbol, 0)] :=
  ⟨_, rfl, rfl, rfl⟩

end Garnish.Props.RuntimeRefine
