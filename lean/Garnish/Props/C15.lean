/-
C15 — a value added through the data interface reads back unchanged for as long as the data object lives.

BasicGarnishData: `Garnish.Store.BasicHeap` models the six-block heap as the code is written (one growth step, unchecked
write). The theorems below say: under the layout invariant `Inv` and growth settings that make progress
(`AllProgress`: additive step ≥ 1; multiplicative factor ≥ 2 from a non-zero size) a push never panics, keeps the
invariant, and the heap refines six independent tables (`Garnish.Spec.Tables6`) over ANY history; hence every
index handed out reads back the same cell after any later history. `no_progress_*` are concrete histories showing
what the code does when a policy makes no progress (silent overwrite of the neighbouring block, or a panic).

SimpleGarnishData: `Garnish.Store.SimpleCache` models `cache_add` as it is written (keyed by a 64-bit hash, no
comparison on a hit). `simple_intern` needs the hash to be injective on the constants added;
`hash_collision_breaks_intern` shows that for the hash the code computes this is false for
`Float 1.5` / `Integer -13291983`, whatever `DefaultHasher` does with the bytes.
-/
import Garnish.Lemmas.Heap
import Garnish.Store.SimpleCache
set_option linter.unusedSimpArgs false
set_option linter.unusedVariables false
namespace Garnish.Props.C15
open Garnish Garnish.Store Garnish.Spec

/-- layout invariant: six blocks tiling the heap in order, no cursor past its block (so Σ size = cells.size) -/
def Inv (h : Heap) : Prop := h.blocks.length = 6 ∧ Contig 0 h.blocks h.cells.size

/-- every block's growth setting makes progress: `fixed n` with `n ≥ 1`, `mult n` with `n ≥ 2` and a non-zero size -/
def AllProgress (h : Heap) : Prop := ∀ b ∈ h.blocks, b.Progress

instance (h : Heap) : Decidable (AllProgress h) := by unfold AllProgress; infer_instance

theorem progress_iff (b : Block) : b.Progress ↔
    match b.policy with
    | .fixed n => 1 ≤ n
    | .mult n => 2 ≤ n ∧ 1 ≤ b.size := Iff.rfl

/-! ### construction -/

theorem init_inv {sizes : List Nat} {pols : List Policy} {maxes : List (Option Nat)} {h : Heap}
    (h1 : sizes.length = 6) (h2 : pols.length = 6) (h3 : maxes.length = 6) (hi : init sizes pols maxes = .ok h) :
    Inv h ∧ abs h = Tables.init := by
  unfold init reallocate at hi
  simp only at hi
  split at hi
  · cases hi
  · rename_i hmax
    let blocks0 := (sizes.zip (pols.zip maxes)).map
      (fun (z, p, m) => ({ start := 0, cursor := 0, size := z, policy := p, maxItems := m } : Block))
    have hb0 : ∀ b ∈ blocks0, b.start = 0 ∧ b.cursor = 0 := by
      intro b hb
      simp only [blocks0, List.mem_map] at hb
      obtain ⟨⟨z, p, m⟩, _, rfl⟩ := hb
      exact ⟨rfl, rfl⟩
    have hlen0 : blocks0.length = 6 := by simp [blocks0, h1, h2, h3]
    obtain ⟨new', hr, hsz, _, hcontig, hmap⟩ := reallocBlocks_spec (#[] : Array Cell) (blocks0.zip sizes) 0
      (Array.replicate (sumSizes sizes) Cell.empty)
      (by
        intro p hp
        have := hb0 p.1 (List.of_mem_zip hp).1
        rw [this.1, this.2]; simp)
      (by rw [sumSnd_zip _ _ (by rw [hlen0, h1]), Array.size_replicate]; omega)
    rw [show (List.map (fun x => match x with | (z, p, m) => ({ start := 0, cursor := 0, size := z, policy := p, maxItems := m } : Block))
      (sizes.zip (pols.zip maxes))) = blocks0 from rfl] at hi
    rw [hr] at hi
    simp only [Outcome.ok.injEq] at hi
    subst hi
    refine ⟨⟨?_, ?_⟩, ?_⟩
    · simp [length_layout, hlen0, h1]
    · simp only; rw [hsz]; exact hcontig
    · unfold abs Tables.init
      simp only
      rw [hmap]
      apply List.eq_replicate_iff.mpr
      refine ⟨by simp [hlen0, h1], ?_⟩
      intro t ht
      simp only [List.mem_map] at ht
      obtain ⟨p, hp, rfl⟩ := ht
      have := hb0 p.1 (List.of_mem_zip hp).1
      unfold blockCells
      rw [this.2]; rfl

/-! ### one push -/

/-- under the invariant and progress a push cannot panic: it either reports `max_items` or succeeds, returns the old
cursor as index, keeps the invariant and progress, and appends to exactly one table -/
theorem push_total {h : Heap} (which : Fin 6) (c : Cell) (hinv : Inv h) (hp : AllProgress h) :
    (pushToBlock h which c = .err .data ∧ ¬ NoMax h) ∨
    ∃ h' idx, pushToBlock h which c = .ok (h', idx) ∧ Inv h' ∧ AllProgress h' ∧
      Tables.get (abs h) which.val idx = none ∧ abs h' = (abs h).modify which.val (· ++ [c]) ∧
      Tables.get (abs h') which.val idx = some c := by
  obtain ⟨b, hk⟩ := get_of_lt (bs := h.blocks) (k := which.val) (by rw [hinv.1]; exact which.isLt)
  rcases pushToBlockN_spec c hinv.2 hk (hp b (mem_of_getElem? hk)) with ⟨he, b', hb', hm⟩ | ⟨h', hr, hc, habs, hlen, hprog, _⟩
  · exact Or.inl ⟨he, fun hno => hm (hno b' hb')⟩
  · refine Or.inr ⟨h', b.cursor, hr, ⟨by rw [hlen, hinv.1], hc⟩, hprog hp, ?_, habs, ?_⟩
    · have hg := Contig.get hinv.2 hk
      unfold Tables.get abs
      rw [List.getElem?_map, hk]
      simp only [Option.map_some, Option.bind_some]
      rw [List.getElem?_eq_none]; rw [length_blockCells (by omega)]; exact Nat.le_refl _
    · have hg := Contig.get hinv.2 hk
      unfold Tables.get
      rw [habs, List.getElem?_modify]
      unfold abs
      rw [List.getElem?_map, hk]
      simp only [Option.map_some, Functor.map, if_true, Option.bind_some]
      rw [List.getElem?_append_right (by rw [length_blockCells (by omega)]; exact Nat.le_refl _),
        length_blockCells (by omega)]
      simp

theorem push_inv {h h' : Heap} {idx : Nat} (which : Fin 6) (c : Cell) (hinv : Inv h) (hp : AllProgress h)
    (hr : pushToBlock h which c = .ok (h', idx)) : Inv h' ∧ AllProgress h' := by
  rcases push_total which c hinv hp with ⟨he, _⟩ | ⟨h2, idx2, hr2, hi2, hp2, _⟩
  · rw [hr] at he; cases he
  · rw [hr] at hr2; cases hr2; exact ⟨hi2, hp2⟩

theorem push_no_panic {h : Heap} (which : Fin 6) (c : Cell) (hinv : Inv h) (hp : AllProgress h) :
    (∀ site, pushToBlock h which c ≠ .panic site) ∧ pushToBlock h which c ≠ .fuelOut ∧
    (NoMax h → ∃ r, pushToBlock h which c = .ok r) := by
  rcases push_total which c hinv hp with ⟨he, hm⟩ | ⟨h2, idx2, hr2, _⟩
  · rw [he]; exact ⟨fun _ => by simp, by simp, fun hno => absurd hno hm⟩
  · rw [hr2]; exact ⟨fun _ => by simp, by simp, fun _ => ⟨_, rfl⟩⟩

/-! ### histories -/

/-- the heap after ANY history of pushes is the six tables of the specification after the same history -/
theorem heap_refines (ops : List Op) {h0 h : Heap} (hinv : Inv h0) (hp : AllProgress h0) (hr : run ops h0 = .ok h) :
    abs h = Tables.run ops (abs h0) ∧ Inv h ∧ AllProgress h := by
  obtain ⟨hg, habs, hlen⟩ := run_ok_spec ops ⟨hinv.2, hp⟩ hr
  exact ⟨habs, ⟨by rw [hlen, hinv.1], hg.contig⟩, hg.progress⟩

/-- from construction: any history on a freshly built store whose settings make progress -/
theorem heap_refines_init {sizes : List Nat} {pols : List Policy} {maxes : List (Option Nat)} (ops : List Op) {h0 h : Heap}
    (h1 : sizes.length = 6) (h2 : pols.length = 6) (h3 : maxes.length = 6) (hi : init sizes pols maxes = .ok h0)
    (hp : AllProgress h0) (hr : run ops h0 = .ok h) : abs h = Tables.run ops Tables.init := by
  obtain ⟨hinv, habs⟩ := init_inv h1 h2 h3 hi
  rw [(heap_refines ops hinv hp hr).1, habs]

/-- no history panics or runs out of fuel; without `max_items` limits every history runs to the end -/
theorem run_total (ops : List Op) {h0 : Heap} (hinv : Inv h0) (hp : AllProgress h0) (hw : ∀ op ∈ ops, op.which < 6) :
    (run ops h0 = .err .data ∧ ¬ NoMax h0) ∨ ∃ h, run ops h0 = .ok h := by
  rcases run_spec ops ⟨hinv.2, hp⟩ (fun op ho => by rw [hinv.1]; exact hw op ho) with h | ⟨h, hr, _⟩
  · exact Or.inl h
  · exact Or.inr ⟨h, hr⟩

/-- C15 on the append-only tables (instructions, jump table, data, custom): the index returned by a push reads back
the cell that was pushed after ANY later history on any of the six tables -/
theorem C15_read_back {h0 h1 h2 h3 : Heap} {k idx : Nat} {c : Cell} (ops1 ops2 : List Op)
    (hinv : Inv h0) (hp : AllProgress h0) (hk : sortedTable k = false)
    (hr1 : run ops1 h0 = .ok h1) (hpush : pushToBlockN h1 k c = .ok (h2, idx)) (hr2 : run ops2 h2 = .ok h3) :
    getN h3 k idx = .ok c := by
  obtain ⟨_, hinv1, hp1⟩ := heap_refines ops1 hinv hp hr1
  have hklt : k < h1.blocks.length := by
    apply Classical.byContradiction; intro hn
    have : h1.blocks[k]? = none := List.getElem?_eq_none (by omega)
    unfold pushToBlockN at hpush; simp [this] at hpush
  obtain ⟨b, hb⟩ := get_of_lt hklt
  rcases pushToBlockN_spec c hinv1.2 hb (hp1 b (mem_of_getElem? hb)) with ⟨he, _⟩ | ⟨h2', hr, hc2, habs2, hlen2, hprog2, _⟩
  · rw [hpush] at he; cases he
  · rw [hpush] at hr
    simp only [Outcome.ok.injEq, Prod.mk.injEq] at hr
    obtain ⟨rfl, rfl⟩ := hr
    obtain ⟨habs3, hinv3, _⟩ := heap_refines ops2 ⟨by rw [hlen2, hinv1.1], hc2⟩ (hprog2 hp1) hr2
    have hg := Contig.get hinv1.2 hb
    have ht2 : (abs h2)[k]? = some (blockCells h1.cells b ++ [c]) := by
      rw [habs2, List.getElem?_modify]; unfold abs; rw [List.getElem?_map, hb]; simp [Functor.map]
    obtain ⟨t', ht'⟩ := Tables.run_prefix hk ops2 ht2
    rw [← habs3] at ht'
    apply getN_of_abs hinv3.2 ht'
    rw [List.append_assoc, List.getElem?_append_right (by rw [length_blockCells (by omega)]; exact Nat.le_refl _),
      length_blockCells (by omega)]
    simp

/-- C15 on the sorted tables (symbol table, expression symbols): an entry, once added, is in the table after ANY later
history (its position moves: the table is re-sorted on every push) -/
theorem C15_read_back_sorted {h0 h1 h2 h3 : Heap} {k : Nat} {c : Cell} (ops1 ops2 : List Op)
    (hinv : Inv h0) (hp : AllProgress h0)
    (hr1 : run ops1 h0 = .ok h1) (hpush : step h1 ⟨k, c⟩ = .ok h2) (hr2 : run ops2 h2 = .ok h3) :
    ∃ i, getN h3 k i = .ok c := by
  have hr : run (ops1 ++ [⟨k, c⟩]) h0 = .ok h2 := by
    clear hr2 hinv hp
    induction ops1 generalizing h0 with
    | nil => cases hr1; simp [run, hpush]
    | cons op ops ih =>
      obtain ⟨hx, hs, hrx⟩ := run_ok_cons hr1
      simp only [List.cons_append, run, hs]
      exact ih hrx
  obtain ⟨habs1, hinv1, hp1⟩ := heap_refines ops1 hinv hp hr1
  obtain ⟨habs2, hinv2, hp2⟩ := heap_refines [⟨k, c⟩] hinv1 hp1 (show run [⟨k, c⟩] h1 = .ok h2 by simp [run, hpush])
  obtain ⟨habs3, hinv3, _⟩ := heap_refines ops2 hinv2 hp2 hr2
  have hklt : k < (abs h1).length := by
    have := step_ok_which hpush
    unfold abs; simpa using this
  obtain ⟨t, ht⟩ : ∃ t, (abs h1)[k]? = some t := ⟨_, List.getElem?_eq_getElem hklt⟩
  have ht2 : (abs h2)[k]? = some (Tables.pushTable k c t) := by
    rw [habs2]; simp only [Tables.run, Tables.step, Tables.push]
    rw [List.getElem?_modify, ht]; simp [Functor.map]
  obtain ⟨t3, ht3, hmem⟩ := Tables.run_mem ops2 ht2 (Tables.pushTable_self k c t)
  rw [← habs3] at ht3
  obtain ⟨i, hi⟩ := List.mem_iff_getElem?.mp hmem
  exact ⟨i, getN_of_abs hinv3.2 ht3 hi⟩

/-- the register / value / frame stacks and multi-cell values are pushes into the data block: whatever the machine-level
operations of the HEAP suite do to the heap is a history of `Op`s (so everything above applies to them) -/
theorem mstep_is_history {m m' : MStore} (op : MOp) (h : mstep m op = .ok m') :
    run (op.lower m) m.heap = .ok m'.heap := by
  unfold mstep at h
  cases hr : run (op.lower m) m.heap with
  | ok h1 =>
    rw [hr] at h
    cases op <;> simp at h <;> (subst h; rfl)
  | err e => rw [hr] at h; cases h
  | panic s => rw [hr] at h; cases h
  | fuelOut => rw [hr] at h; cases h

/-! ### why the progress hypothesis is there: what the code does without it -/

/-- all blocks `FixedSize(0)`; jump table of size 1, everything else empty -/
def cfgF0 : Outcome Heap :=
  init [0, 1, 0, 0, 0, 0] (List.replicate 6 (.fixed 0)) (List.replicate 6 none)

/-- `push_to_jump_table(7); push_instruction(Put, 9)`: the instruction block (size 0, step 0) "grows" to size 0 and
the unchecked write lands in the jump table's cell — silently: both pushes return Ok, the jump entry is gone -/
theorem no_progress_corrupts :
    (do let h0 ← cfgF0
        let (h1, j) ← pushToBlock h0 bJump (.jump 7)
        let (h2, _) ← pushToBlock h1 bInstr (.instr 9)
        pure (get h1 bJump j, get h2 bJump j)) = .ok (.ok (.jump 7), .ok (.instr 9)) := by
  rfl

/-- the same settings with every block empty: the write is out of bounds — `push_instruction` panics -/
theorem no_progress_panics :
    (do let h0 ← init [0, 0, 0, 0, 0, 0] (List.replicate 6 (.fixed 0)) (List.replicate 6 none)
        pushToBlock h0 bInstr (.instr 0)) = .panic "internal.rs:push_to_block" := by
  rfl

/-- `Multiplicative(2)` from size 0 is the same: 0 * 2 = 0 -/
theorem no_progress_mult_zero :
    (do let h0 ← init [0, 1, 0, 0, 0, 0] (List.replicate 6 (.mult 2)) (List.replicate 6 none)
        let (h1, j) ← pushToBlock h0 bJump (.jump 7)
        let (h2, _) ← pushToBlock h1 bInstr (.instr 9)
        pure (get h2 bJump j)) = .ok (.ok (.instr 9)) := by
  rfl

/-- `Multiplicative(1)` from size 1: the data block overflows into the custom block -/
theorem no_progress_mult_one :
    (do let h0 ← init [1, 1, 1, 1, 1, 1] (List.replicate 6 (.mult 1)) (List.replicate 6 none)
        let (h1, _) ← pushToBlock h0 bData (.num 0)
        let (h2, c) ← pushToBlock h1 bCustom (.custom 1)
        let (h3, _) ← pushToBlock h2 bData (.num 2)
        pure (get h2 bCustom c, get h3 bCustom c)) = .ok (.ok (.custom 1), .ok (.num 2)) := by
  rfl

/-! ### non-vacuity -/

/-- executable check of the hypotheses on a freshly constructed store -/
def checkInit (sizes : List Nat) (pols : List Policy) (maxes : List (Option Nat)) : Bool :=
  match init sizes pols maxes with
  | .ok h => decide (AllProgress h) && decide (NoMax h)
  | _ => false

theorem checkInit_sound {sizes : List Nat} {pols : List Policy} {maxes : List (Option Nat)}
    (h1 : sizes.length = 6) (h2 : pols.length = 6) (h3 : maxes.length = 6) (hc : checkInit sizes pols maxes = true) :
    ∃ h0, init sizes pols maxes = .ok h0 ∧ Inv h0 ∧ AllProgress h0 ∧ NoMax h0 := by
  unfold checkInit at hc
  split at hc
  · rename_i h hi
    simp only [Bool.and_eq_true, decide_eq_true_eq] at hc
    exact ⟨h, hi, (init_inv h1 h2 h3 hi).1, hc.1, hc.2⟩
  · cases hc

/-- the default settings (`FixedSize(10)` from 10) satisfy the hypotheses -/
example : ∃ h0, init (List.replicate 6 10) (List.replicate 6 (.fixed 10)) (List.replicate 6 none) = .ok h0 ∧
    Inv h0 ∧ AllProgress h0 ∧ NoMax h0 := checkInit_sound rfl rfl rfl (by rfl)

/-- so do size 0 with `FixedSize(1)` and size 1 with `Multiplicative(2)` -/
example : ∃ h0, init (List.replicate 6 0) (List.replicate 6 (.fixed 1)) (List.replicate 6 none) = .ok h0 ∧
    Inv h0 ∧ AllProgress h0 ∧ NoMax h0 := checkInit_sound rfl rfl rfl (by rfl)

example : ∃ h0, init (List.replicate 6 1) (List.replicate 6 (.mult 2)) (List.replicate 6 none) = .ok h0 ∧
    Inv h0 ∧ AllProgress h0 ∧ NoMax h0 := checkInit_sound rfl rfl rfl (by rfl)

/-- `Multiplicative(2)` from size 0 does not -/
example : checkInit (List.replicate 6 0) (List.replicate 6 (.mult 2)) (List.replicate 6 none) = false := by rfl

/-- the smallest progressing settings: size 0, `FixedSize(1)`; three pushes read back -/
example :
    (do let h0 ← init [0, 0, 0, 0, 0, 0] (List.replicate 6 (.fixed 1)) (List.replicate 6 none)
        let (h1, a) ← pushToBlock h0 bData (.num 5)
        let (h2, b) ← pushToBlock h1 bInstr (.instr 6)
        let (h3, c) ← pushToBlock h2 bData (.num 7)
        pure [get h3 bData a, get h3 bInstr b, get h3 bData c]) = .ok [.ok (.num 5), .ok (.instr 6), .ok (.num 7)] := by
  rfl

/-! ## SimpleGarnishData: the intern cache (`cache_add`) -/

section cache
variable (hash : Const → UInt64)

/-- cache and data agree: every constant cell is registered under its own hash, every cache entry points at a
constant cell with that hash. `S` = the constants that may be added. -/
structure CInv (S : Const → Prop) (s : SimpleStore) : Prop where
  k1 : ∀ (a : Nat) (c : Const), s.data[a]? = some (SCell.const c) → S c ∧ cacheLookup s.cache (hash c) = some a
  k2 : ∀ (hv : UInt64) (a : Nat), cacheLookup s.cache hv = some a → ∃ c, s.data[a]? = some (SCell.const c) ∧ hash c = hv

theorem cinv_init (S : Const → Prop) : CInv hash S {} := by
  constructor
  · intro a c h
    match a with
    | 0 | 1 | 2 => simp at h
    | a + 3 => simp at h
  · intro hv a h; simp [cacheLookup] at h

/-- one `cache_add` when the hash is injective on the admissible constants: the returned address holds the constant,
nothing already stored changes, an equal constant already present is reused (the store is unchanged), otherwise
the address is fresh -/
theorem cacheAdd_spec {S : Const → Prop} (hinj : ∀ c1 c2, S c1 → S c2 → hash c1 = hash c2 → c1 = c2)
    {s : SimpleStore} (hs : CInv hash S s) {c : Const} (hc : S c) :
    CInv hash S (cacheAdd hash s c).1 ∧ (cacheAdd hash s c).1.data[(cacheAdd hash s c).2]? = some (SCell.const c) ∧
    (∀ (a : Nat) (x : SCell), s.data[a]? = some x → (cacheAdd hash s c).1.data[a]? = some x) ∧
    ((∃ a : Nat, s.data[a]? = some (SCell.const c)) → (cacheAdd hash s c).1 = s) ∧
    ((¬ ∃ a : Nat, s.data[a]? = some (SCell.const c)) → (cacheAdd hash s c).2 = s.data.size) := by
  rw [cacheAdd_eq]
  cases hl : cacheLookup s.cache (hash c) with
  | some addr =>
    simp only
    obtain ⟨c', hd, hh⟩ := hs.k2 _ _ hl
    have : c' = c := hinj _ _ (hs.k1 _ _ hd).1 hc hh
    subst this
    exact ⟨hs, hd, fun _ _ h => h, fun _ => by first | rfl | trivial, fun hn => absurd ⟨addr, hd⟩ hn⟩
  | none =>
    simp only
    have hnot : ¬ ∃ a : Nat, s.data[a]? = some (SCell.const c) := by
      rintro ⟨a, ha⟩
      have := (hs.k1 _ _ ha).2
      rw [hl] at this; cases this
    refine ⟨⟨?_, ?_⟩, by simp, ?_, fun h => absurd h hnot, fun _ => by first | rfl | trivial⟩
    · intro a c' h
      rw [Array.getElem?_push] at h
      by_cases ha : a = s.data.size
      · simp only [ha, if_true, Option.some.injEq, SCell.const.injEq] at h
        subst h
        exact ⟨hc, by simp [cacheLookup, ha]⟩
      · simp only [ha, if_false] at h
        obtain ⟨hS, hlk⟩ := hs.k1 _ _ h
        refine ⟨hS, ?_⟩
        unfold cacheLookup
        by_cases hh : hash c = hash c'
        · have := hinj _ _ hc hS hh
          subst this
          rw [hl] at hlk; cases hlk
        · simp [hh, hlk]
    · intro hv a h
      unfold cacheLookup at h
      by_cases hh : hash c = hv
      · simp only [hh, if_true, Option.some.injEq] at h
        subst h
        exact ⟨c, by simp, hh⟩
      · simp only [hh, if_false] at h
        obtain ⟨c', hd, hh'⟩ := hs.k2 _ _ h
        refine ⟨c', ?_, hh'⟩
        rw [Array.getElem?_push]
        have : a ≠ s.data.size := by
          intro he; subst he; simp at hd
        simp [this, hd]
    · intro a x h
      rw [Array.getElem?_push]
      have : a ≠ s.data.size := by
        intro he; subst he; simp at h
      simp [this, h]

theorem addAll_cons (c : Const) (cs : List Const) (s : SimpleStore) :
    addAll hash (c :: cs) s = ((addAll hash cs (cacheAdd hash s c).1).1,
      (cacheAdd hash s c).2 :: (addAll hash cs (cacheAdd hash s c).1).2) := rfl

theorem addAll_spec {S : Const → Prop} (hinj : ∀ c1 c2, S c1 → S c2 → hash c1 = hash c2 → c1 = c2) :
    ∀ (cs : List Const) (s : SimpleStore), CInv hash S s → (∀ c ∈ cs, S c) →
    CInv hash S (addAll hash cs s).1 ∧ (∀ (a : Nat) (x : SCell), s.data[a]? = some x → (addAll hash cs s).1.data[a]? = some x) ∧
    (∀ (i : Nat) (c : Const) (a : Nat), cs[i]? = some c → (addAll hash cs s).2[i]? = some a → (addAll hash cs s).1.data[a]? = some (SCell.const c))
  | [], s, hs, _ => ⟨hs, fun _ _ h => h, fun i c a h => by simp at h⟩
  | c :: cs, s, hs, hS => by
    obtain ⟨hs1, hget1, hkeep1, _, _⟩ := cacheAdd_spec hash hinj hs (hS c (by simp))
    obtain ⟨hs2, hkeep2, hall2⟩ := addAll_spec hinj cs (cacheAdd hash s c).1 hs1 (fun c' h => hS c' (by simp [h]))
    rw [addAll_cons]
    refine ⟨hs2, fun a x h => hkeep2 a x (hkeep1 a x h), ?_⟩
    intro i c' a hc ha
    match i with
    | 0 =>
      simp only [List.getElem?_cons_zero, Option.some.injEq] at hc ha
      subst hc; subst ha
      exact hkeep2 _ _ hget1
    | i + 1 =>
      simp only [List.getElem?_cons_succ] at hc ha
      exact hall2 i c' a hc ha

/-- C15 for SimpleGarnishData, for the code as written, UNDER the hypothesis that the hash separates the constants
added: every returned address reads back the constant added there (same type and content, after all later adds);
an equal constant gets the same address, a different constant a different one -/
theorem simple_intern (cs : List Const) (hinj : ∀ c1 ∈ cs, ∀ c2 ∈ cs, hash c1 = hash c2 → c1 = c2) :
    (∀ (i : Nat) (c : Const) (a : Nat), cs[i]? = some c → (addAll hash cs {}).2[i]? = some a → (addAll hash cs {}).1.data[a]? = some (SCell.const c)) ∧
    (∀ (i j : Nat) (ci cj : Const) (ai aj : Nat), cs[i]? = some ci → cs[j]? = some cj →
      (addAll hash cs {}).2[i]? = some ai → (addAll hash cs {}).2[j]? = some aj → (ci = cj ↔ ai = aj)) := by
  obtain ⟨hs, _, hall⟩ := addAll_spec hash (S := (· ∈ cs)) (fun c1 c2 h1 h2 => hinj c1 h1 c2 h2) cs {}
    (cinv_init hash _) (fun c h => h)
  refine ⟨hall, ?_⟩
  intro i j ci cj ai aj hi hj hai haj
  have di := hall i ci ai hi hai
  have dj := hall j cj aj hj haj
  constructor
  · intro h; subst h
    have h1 := (hs.k1 _ _ di).2
    have h2 := (hs.k1 _ _ dj).2
    rw [h1] at h2; exact Option.some.inj h2
  · intro h; subst h
    rw [di] at dj
    simpa using dj

/-- a later `cache_add` never changes a cell that exists (with or without collisions: the code only ever pushes) -/
theorem cacheAdd_keeps (s : SimpleStore) (c : Const) (a : Nat) (x : SCell) (h : s.data[a]? = some x) :
    (cacheAdd hash s c).1.data[a]? = some x := by
  rw [cacheAdd_eq]
  split
  · exact h
  · simp only
    rw [Array.getElem?_push]
    have : a ≠ s.data.size := by intro he; subst he; simp at h
    simp [this, h]

/-- without the hypothesis: two constants with the same 64-bit key share one cell, the second one reads back as the first -/
theorem collision_breaks_intern (c1 c2 : Const) (h : hash c1 = hash c2) :
    (addAll hash [c1, c2] {}).2 = [3, 3] ∧ (addAll hash [c1, c2] {}).1.data[3]? = some (SCell.const c1) := by
  simp [addAll_cons, addAll, cacheAdd_eq, cacheLookup, h]

end cache

/-- the byte streams `cache_add` hashes for `Float(1.5)` and `Integer(-13291983)` are IDENTICAL (the hand-written
`Hash for SimpleNumber` hashes a float as its `Display` string "1.5" (code points 49 46 53) = bytes 31 2e 35 + the 0xff terminator, and an integer
as its 4 little-endian bytes 31 2e 35 ff; both carry the same enum discriminant and type tag) -/
theorem hashBytes_collision (display : UInt64 → List Nat) (hd : display 0x3ff8000000000000 = [49, 46, 53]) :
    hashBytes display (Const.float 0x3ff8000000000000) = hashBytes display (Const.int (-13291983)) := by
  simp only [hashBytes, hd]
  decide

/-- so the cache key is the same whatever the hasher does, and `Integer(-13291983)` added after `Float(1.5)` gets the
float's address and reads back as `1.5` -/
theorem hash_collision_breaks_intern (display : UInt64 → List Nat) (hd : display 0x3ff8000000000000 = [49, 46, 53]) :
    (addAll (rustHash display) [Const.float 0x3ff8000000000000, Const.int (-13291983)] {}).2 = [3, 3] ∧
    (addAll (rustHash display) [Const.float 0x3ff8000000000000, Const.int (-13291983)] {}).1.data[3]? =
      some (SCell.const (Const.float 0x3ff8000000000000)) :=
  collision_breaks_intern _ _ _ (by unfold rustHash; rw [hashBytes_collision display hd])

/-- non-vacuity of `simple_intern`: an injective "hash" exists on small sets, e.g. distinct integers under the real hash
input bytes are distinct -/
example : hashBytes (fun _ => []) (Const.int 5) ≠ hashBytes (fun _ => []) (Const.int 6) := by decide

end Garnish.Props.C15
