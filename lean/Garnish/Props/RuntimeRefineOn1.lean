/-
C01 over the relativised contract, coverage group 1: logic (`And`, `Or`, `Not`, `Tis`, `Xor`) and the fifteen
arithmetic / bitwise instructions INCLUDING the defer protocol. The host enters through `HostRefinesI`: the data
object's `defer_op` / `resolve` / `apply`, called from a state satisfying the invariant, answer as the value-level host
does AND re-establish the invariant (for `simpleRStore hit h`: a condition on the host model `h`; the declining host
meets it, `C01_simple_host_declines`).
Side conditions of the new instructions (`MachOKOn1`): `MDeepN m k` only — the `k` registers the instruction pops lie
above what the newest frame saved (k = 2 for the binary ones and `Xor`, 1 for the unary ones, `Not`, `Tis`, `And`,
`Or`). Covered now: the 9 instructions of Props/RuntimeRefineOn.lean + these 20.
-/
import Garnish.Props.C01TextStoreOnG
namespace Garnish.Props.RuntimeRefine
open Garnish Gen Garnish.Abs Garnish.Model.Equality Garnish.Model.Runtime Garnish.Lemmas.Runtime
open Garnish.Lemmas.Runtime.On

variable {F σ : Type} {S : RStore F σ} {Inv : σ → Prop} {Rd : σ → Nat → Prop} {P : Prog F} {host : Host F}
  (fo : FloatOps F)

theorem C01_refine_step_on1 (L : StoreLawsOn S Inv Rd) (HR : HostRefinesI S Inv host) (fuel : Nat)
    (H : OtherHandlers σ) {s : σ} {m : MState F} (hsim : Sim S P s m) (hi : Inv s) (hl : Loaded S P s)
    {instr : Instruction} {operand : Option Nat} (hfetch : P.instrs[m.pc]? = some (instr, operand))
    (hok : MachOKOn1 P m instr operand) : StepSimOn fo host S Inv P fuel H s m :=
  refine_step_on1 fo L HR fuel H hsim hi hl hfetch hok

theorem C01_refine_run_on1 (L : StoreLawsOn S Inv Rd) (HR : HostRefinesI S Inv host) (fuel : Nat)
    (H : OtherHandlers σ) (n : Nat) {s : σ} {m : MState F} (hsim : Sim S P s m) (hi : Inv s) (hl : Loaded S P s)
    (hok : RunOKG fo (MachOKOn1 P) host P n m) {m' : MState F} {k : Nat}
    (hrun : Abs.run fo host P n m = (.halted m', k)) :
    ∃ s', executeLoop fo S fuel H n s = .ok ((.end_, k), s') ∧ SimD S P s' m'.regs m'.vals m'.frames ∧
      DecKept S s s' ∧ Inv s' :=
  executeLoop_spec_gen fo (MachOKOn1 P) fuel H
    (fun s m instr operand hs hi hl hf hk => refine_step_on1 fo L HR fuel H hs hi hl hf hk) n s m hsim hi hl hok m' k hrun

end Garnish.Props.RuntimeRefine

namespace Garnish.Props.C01TextStore
open Garnish Garnish.Gen Garnish.Spec Garnish.Abs Garnish.Abs.Tree Garnish.Abs.Source Garnish.Model Garnish.Model.Parser
open Garnish.Model.Lexer Garnish.Model.Literals Garnish.Model.Build Garnish.Props.C01Build Garnish.Props.C01Source
open Garnish.Props.C02Numbered Garnish.Props.C01Text
open Garnish.Model.Equality Garnish.Model.Runtime Garnish.Lemmas.Runtime Garnish.Props.RuntimeRefine
open Garnish.Lemmas.Runtime.On Garnish.Lemmas.Runtime.Simple

variable {F : Type} (pf : List Char → Option F) (cc : CharClass)

/-- **characters → `SimpleGarnishData`**, coverage group 1 -/
theorem C01_text_to_simple_store1 {hit : List (SimCell F) → SimCell F → Option Nat} (hs : HitSound hit)
    (hh : SimHost F) (fo : FloatOps F) (host : Host F) (HR : HostRefinesI (simpleRStore hit hh) SInv host)
    (loopFuel : Nat) (H : OtherHandlers (SimState F)) (s : List Char) (toks : List LexerToken)
    (hlex : lex cc s = .ok toks) (hf : frag9' (toP toks) = true) (rt : RTree)
    (href : refParse Table.gen (toP toks) = .ok rt) (p : Program F) (hel : elaborate pf (toP toks) rt = some p)
    (hwf : C01.WFProgram p) (input : Val F) (fuel : Nat) (v : Val F) (st : St F)
    (h : evalProgram fo host fuel p input = .ok (v, st)) :
    ∃ d entry n, buildText pf cc s = .ok (d, entry) ∧
      ((progOf d).consts.toList.all isLeafS = true → isLeafS input = true →
        RunOKG fo (MachOKOn1 (reloc (progOf d))) host (reloc (progOf d)) n
          { pc := (progOf d).jumps[entry]?.getD 0, regs := [], vals := [input], frames := [], trace := [] } →
        ∃ s' a, executeLoop fo (simpleRStore hit hh) loopFuel H n
            (loadSimple (reloc (progOf d)) ((progOf d).jumps[entry]?.getD 0) input) = .ok ((.end_, n), s') ∧
          s'.values = [a] ∧ Decodes (simView s'.cells) a v ∧ (simpleRStore hit hh).regs s' = [] ∧
          (simpleRStore hit hh).frames s' = [] ∧ SInv s') :=
  C01_text_to_simple_store_of pf cc hh fo host loopFuel H MachOKOn1
    (fun P s m instr operand hsim hi hl hf hk =>
      refine_step_on1 fo (C01_simpleStore_lawsOn hs) HR loopFuel H hsim hi hl hf hk)
    s toks hlex hf rt href p hel hwf input fuel v st h

end Garnish.Props.C01TextStore
