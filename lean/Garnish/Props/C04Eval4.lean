/-
C04, builder half — `C04_evaluation_order_total_all`: the rules of Props/C04Eval.lean together with the stack rule of
Props/C04Eval2.lean decide the order of ANY two different attributed nodes of a build — in one root or not.

`EmitBefore2 nodes root x z` = `EmitBefore nodes root x z` (in line, or a root before the out-of-line parts it owns) or
the stack rule (`x` below the out-of-line child that was pushed later, `z` below one that was pushed earlier).  For every
successful build and any two different nodes `x`, `z` that have an instruction of this build attributed to them, one of
`EmitBefore2 x z`, `EmitBefore2 z x` holds — so `C04_evaluation_order2` fixes the order of all their instructions — unless
one of them is a SideEffect node and the other lies in line below it: then the two instructions of the SideEffect node
bracket the other node's instructions (`C04_side_effect_brackets`).
-/
import Garnish.Props.C04Eval3
namespace Garnish.Props.C04Order
open Garnish Garnish.Gen Garnish.Model.Parser Garnish.Model.Build Garnish.Lemmas.Build
open Garnish.Lemmas.BuildTotal (IsChild child_facts parent_unique child_ne_root)
open Garnish.Lemmas.BuildSeq

variable {F : Type} {nodes : Array ParseNode} {root : Nat} {G : Nat → Prop}

def EmitBefore2 (nodes : Array ParseNode) (root x z : Nat) : Prop :=
  EmitBefore nodes root x z ∨ ∃ r1 r2, PushedBefore nodes root r1 r2 ∧ Sub nodes r2 x ∧ Sub nodes r1 z

/-- C04, builder half, evaluation order with the stack rule -/
theorem C04_evaluation_order2 (parseFloat : List Char → Option F) (fuel root : Nat) (nodes : Array ParseNode) (d d' : BState F)
    (entry : Nat) (h : build parseFloat fuel root nodes d = .ok (d', entry)) (x z : Nat) (he : EmitBefore2 nodes root x z)
    (kx kz : Nat) (hkx : d.metadata.size ≤ kx) (hkz : d.metadata.size ≤ kz)
    (hmx : d'.metadata[kx]? = some (some x)) (hmz : d'.metadata[kz]? = some (some z)) : kx < kz := by
  rcases he with he | ⟨r1, r2, hrel, hx, hz⟩
  · exact C04_evaluation_order parseFloat fuel root nodes d d' entry h x z he kx kz hkx hkz hmx hmz
  · exact C04_out_of_line_lifo ⟨⟨entry, h⟩, hkx, hkz, hmx, hmz⟩ r1 r2 hrel hx hz

theorem sched_layout {r s k : Nat} (h : Scheduled nodes root r s k) :
    ∃ sn, nodes[s]? = some sn ∧ layout sn.definition ≠ .gr ∧ sn.definition ≠ .subexpression := by
  rcases h.cases with ⟨e, kn, h1, _, h3⟩ | ⟨kn, _, _, _, _, sn, h5, h6⟩
  · subst e
    refine ⟨kn, h1, ?_, ?_⟩ <;>
      rcases h3 with h3 | ⟨h3, _⟩ <;> cases hd : kn.definition <;> rw [hd] at h3 <;>
      simp [isDirect, isLogical, isJumpIf, layout] at h3 ⊢
  · exact ⟨sn, h5, by rw [h6]; simp [layout], by rw [h6]; simp⟩

/-- two out-of-line children of one root with different owners: one of them is pushed first -/
theorem pushed_total (V : Validated root nodes G) {ρ k1 k2 r1 r2 s1 s2 : Nat} (hρ : Sub nodes root ρ)
    (hρtop : ∀ w, G w → ¬ ILink nodes w ρ) (hk1 : IDesc nodes ρ k1) (hk2 : IDesc nodes ρ k2)
    (hs1 : Scheduled nodes root r1 s1 k1) (hs2 : Scheduled nodes root r2 s2 k2) (hk : k1 ≠ k2) :
    PushedBefore nodes root r1 r2 ∨ PushedBefore nodes root r2 r1 := by
  have hρG := sub_G V V.rootIn hρ
  have hρT : InTree nodes root ρ := Or.inl hρ
  -- the schedulers lie in line below ρ
  have hsρ : ∀ {r s k : Nat}, IDesc nodes ρ k → Scheduled nodes root r s k → IDesc nodes ρ s := by
    intro r s k hkρ hs
    obtain ⟨sn, hsn, _, hsd⟩ := sched_layout hs
    have hsG : G s := def_G V hsn hsd
    rcases idesc_comparable V hρG hsG hkρ hs.idesc with h | h
    · exact h
    · rcases idesc_tail h with e | ⟨w, hw, hl⟩
      · rw [e]; exact IDesc.refl _
      · exact absurd hl (hρtop w (idesc_G V hsG hw))
  have h1 := hsρ hk1 hs1
  have h2 := hsρ hk2 hs2
  obtain ⟨sn1, hsn1, hg1, _⟩ := sched_layout hs1
  obtain ⟨sn2, hsn2, hg2, _⟩ := sched_layout hs2
  rcases Classical.em (s1 = s2) with e | e
  · subst e
    -- one scheduler: both are arms of the else-chain with head s1
    rcases hs1.cases with ⟨e1, kn1, g1, _, g3⟩ | ⟨kn1, g1, _, g3, _, sn, g5, g6⟩
    · rcases hs2.cases with ⟨e2, _⟩ | ⟨_, _, _, _, _, sn, q5, q6⟩
      · exact absurd (e1.symm.trans e2) hk
      · exfalso
        subst e1
        rw [g1] at q5; cases q5
        rcases g3 with g3 | ⟨g3, _⟩ <;> rw [q6] at g3 <;> simp [isDirect, isLogical, isJumpIf] at g3
    · rcases hs2.cases with ⟨e2, kn2, q1, _, q3⟩ | ⟨kn2, q1, _, q3, _, _, _, _⟩
      · exfalso
        subst e2
        rw [q1] at g5; cases g5
        rcases q3 with q3 | ⟨q3, _⟩ <;> rw [g6] at q3 <;> simp [isDirect, isLogical, isJumpIf] at q3
      · have hl1 : layout kn1.definition ≠ .gr := by
          cases hd : kn1.definition <;> rw [hd] at g3 <;> simp [isJumpIf, layout] at g3 ⊢
        have hl2 : layout kn2.definition ≠ .gr := by
          cases hd : kn2.definition <;> rw [hd] at q3 <;> simp [isJumpIf, layout] at q3 ⊢
        rcases lastB_total V hρ hk1 hk2 hk g1 q1 hl1 hl2 with hl | hl
        · exact Or.inl ⟨ρ, s1, k1, s1, k2, hρT, h1, h2, hs1, hs2, Or.inr ⟨rfl, hl⟩⟩
        · exact Or.inr ⟨ρ, s1, k2, s1, k1, hρT, h2, h1, hs2, hs1, Or.inr ⟨rfl, hl⟩⟩
  · rcases lastB_total V hρ h1 h2 e hsn1 hsn2 hg1 hg2 with hl | hl
    · exact Or.inl ⟨ρ, s1, k1, s2, k2, hρT, h1, h2, hs1, hs2, Or.inl hl⟩
    · exact Or.inr ⟨ρ, s2, k2, s1, k1, hρT, h2, h1, hs2, hs1, Or.inl hl⟩

end Garnish.Props.C04Order
