/-
C14 / C09 / C12 / C11 from the source text WITHOUT the lexing hypothesis.

Props/SourceProps2.lean and Props/SourceProps3.lean prove, for every operand, that a literal spelling (Spec/Spell.lean) and
`a op b` on two literal spellings are built into programs that run to exactly the value they spell — given that the lexer
turns the spelling into the expected token(s) (`hlex`, `htoks`).  Here that hypothesis is PROVED for the lexer model, for
every character-class pair with `CharClass.Lit` (ASCII digits numeric, ASCII digits and lower-case letters numeric or
alphanumeric, quotes neither, colon not numeric, blanks / NUL / newline neither) — the Rust tables (`rustTables_lit`) and the
ASCII classes of the examples (`asciiCC_lit`) are instances:

  lex_spellNumber          every `spellNumber r n seps`, 2 ≤ r ≤ 36, ANY separators: one Number token at (0,0)
  lex_quoteCharList_body   `q` quotes, body without `"`, `q` quotes: one CharList token — for q ≥ 1, q ≠ 2, body ≠ [] unless q = 1
  lex_quoteCharList        … the body `escapeCharsU q cs` (quotes written `\u{22}`), cs ≠ [] unless q = 1
  lex_quoteByteList_body   the same with `'`
  lex_spellBytesNumeric    `spellBytesNumeric q bs`: one ByteList token — for q ≥ 1, q ≠ 2, bs ≠ [] unless q = 1
  lex_spellSymbol          `:name`, name of identifier characters not starting with `:`: one Symbol token
  lex_operator             every spelling of the operator table: one token of its type
  lex_binop_spelling       `a ++ " " ++ op ++ " " ++ b` for any three such spellings: the five tokens, with their positions
and the primed corollaries `C14_text_number'` … `C11_text_int_equal'`, `C12_text_charlist_order'` carry no hypothesis about the lexer.

NOT covered, and why (witnesses below, by evaluation on the Rust tables):
  * q = 2 quotes (`""x""`, `''1 2''`): two quotes followed by anything else are the EMPTY literal — three or more tokens
    (`two_quotes_split`, `two_apostrophes_split`); so `SourceProps.C14_text_bytelist_numeric` is vacuous at q = 2.
  * q ≥ 3 quotes and an empty body (`""""""`): the opening run never ends — a lexing error (`three_quotes_empty_fails`).
  * a raw quote inside the body: the lexer knows nothing of escapes and closes at the first run of q quotes; in particular
    `spellBytesQuoted` of a vector containing the byte 39 (`'\''`) does not lex (`escaped_apostrophe_fails`).
  * symbol names starting with `:` (`::a` is an Identifier), names with a non-identifier character; names ending in `:`
    DO lex as one Symbol (`lex_spellSymbol` does not exclude them) — `C14_text_symbol'` excludes them for the reason given at
    `C14.C14_symbol_keeps_name` (the value, not the token).
  * `ValidSeps` is not needed for lexing (`0_` is one Number token); it stays in `C14_text_number'` for the value.
-/
import Garnish.Props.SourceProps5
import Garnish.Lemmas.LexSpell5
set_option linter.unusedVariables false
namespace Garnish.Props.C14Lex
open Garnish Garnish.Gen Garnish.Spec Garnish.Spec.Spell Garnish.Abs Garnish.Abs.Tree Garnish.Abs.Source Garnish.Model
open Garnish.Model.Parser Garnish.Model.Lexer Garnish.Model.Literals Garnish.Model.Build Garnish.Props.C01Build
open Garnish.Props.C01Source Garnish.Props.C02Numbered Garnish.Props.C01Text Garnish.Props.C01Blocks
open Garnish.Props.SourceProps Garnish.Lemmas.Literals

/-! ## the lexer on spellings -/

section lexer
variable (cc : CharClass) (hcc : cc.Lit)
include hcc

/-- (1) every number spelling is one Number token -/
theorem lex_spellNumber (r n : Nat) (seps : List Nat) (hr2 : 2 ≤ r) (hr36 : r ≤ 36) :
    lex cc (spellNumber r n seps) = .ok [⟨spellNumber r n seps, .number, 0, 0⟩] :=
  lex_one cc _ _ (tokSpelling_spellNumber cc hcc r n seps hr2 hr36)

/-- (2) `q` quotes, a body without quotes, `q` quotes is one CharList token -/
theorem lex_quoteCharList_body (q : Nat) (body : List Char) (hq1 : 1 ≤ q) (hq2 : q ≠ 2) (hbody : '"' ∉ body)
    (hnon : body ≠ [] ∨ q = 1) : lex cc (quoteCharList q body) = .ok [⟨quoteCharList q body, .charList, 0, 0⟩] :=
  lex_one cc _ _ (tokSpelling_quoteCharList cc hcc q body hq1 hq2 hbody hnon)

/-- (2) the lexable spelling of ANY string (quotes written `\u{22}`) is one CharList token -/
theorem lex_quoteCharList (q : Nat) (cs : List Char) (hq1 : 1 ≤ q) (hq2 : q ≠ 2) (hnon : cs ≠ [] ∨ q = 1) :
    lex cc (quoteCharList q (escapeCharsU q cs)) = .ok [⟨quoteCharList q (escapeCharsU q cs), .charList, 0, 0⟩] :=
  lex_one cc _ _ (tokSpelling_escapeCharsU cc hcc q cs hq1 hq2 hnon)

/-- (3) `q` apostrophes, a body without apostrophes, `q` apostrophes is one ByteList token -/
theorem lex_quoteByteList_body (q : Nat) (body : List Char) (hq1 : 1 ≤ q) (hq2 : q ≠ 2) (hbody : '\'' ∉ body)
    (hnon : body ≠ [] ∨ q = 1) : lex cc (quoteByteList q body) = .ok [⟨quoteByteList q body, .byteList, 0, 0⟩] :=
  lex_one cc _ _ (tokSpelling_quoteByteList cc hcc q body hq1 hq2 hbody hnon)

/-- (3) the numeric byte-list form is one ByteList token -/
theorem lex_spellBytesNumeric (q : Nat) (bs : List Nat) (hq1 : 1 ≤ q) (hq2 : q ≠ 2) (hnon : bs ≠ [] ∨ q = 1) :
    lex cc (spellBytesNumeric q bs) = .ok [⟨spellBytesNumeric q bs, .byteList, 0, 0⟩] :=
  lex_one cc _ _ (tokSpelling_spellBytesNumeric cc hcc q bs hq1 hq2 hnon)

/-- (3) `:name` is one Symbol token -/
theorem lex_spellSymbol (name : List Char) (hn : name.head? ≠ some ':') (hid : ∀ x ∈ name, isIdentifierChar cc x = true) :
    lex cc (spellSymbol name) = .ok [⟨spellSymbol name, .symbol, 0, 0⟩] :=
  lex_one cc _ _ (tokSpelling_spellSymbol cc hcc name hn hid)

/-- every spelling of the operator table is one token of its type -/
theorem lex_operator (op : List Char) (oty : TokenType) (h : (op, oty) ∈ Garnish.Gen.LexTables.operatorChars) :
    lex cc op = .ok [⟨op, oty, 0, 0⟩] :=
  lex_one cc _ _ (tokSpelling_operator cc hcc op oty h)

omit hcc in
/-- (4) two spelled tokens around a spelled operator, single spaces between them: five tokens; without newlines in `a`
(and `op`) all in row 0 at the offsets of their first characters -/
theorem lex_binop_spelling (a op b : List Char) (tya oty tyb : TokenType) (ha : TokSpelling cc a tya)
    (ho : TokSpelling cc op oty) (hb : TokSpelling cc b tyb) (hna : '\n' ∉ a) (hno : '\n' ∉ op) :
    lex cc (a ++ ' ' :: op ++ ' ' :: b) =
      .ok [⟨a, tya, 0, 0⟩, ⟨[' '], .whitespace, 0, a.length⟩, ⟨op, oty, 0, a.length + 1⟩,
           ⟨[' '], .whitespace, 0, a.length + 1 + op.length⟩, ⟨b, tyb, 0, a.length + 1 + op.length + 1⟩] :=
  lex_binop_cols cc a op b tya oty tyb ha ho hb hna hno

omit hcc in
/-- … what the parser is handed -/
theorem toP_binop_spelling (a op b : List Char) (tya oty tyb : TokenType) (ha : TokSpelling cc a tya)
    (ho : TokSpelling cc op oty) (hb : TokSpelling cc b tyb) :
    ∃ toks, lex cc (a ++ ' ' :: op ++ ' ' :: b) = .ok toks ∧ toP toks = fiveToks a [' '] op [' '] b tya oty tyb :=
  ⟨_, lex_binop cc a op b tya oty tyb ha ho hb, rfl⟩

end lexer

/-! ## instances -/

theorem asciiCC_lit : asciiCC.Lit :=
  { nulNumeric := by decide
    nulAlphanumeric := by decide
    nlNumeric := by decide
    nlAlphanumeric := by decide
    spaceA := by decide
    tabA := by decide
    spaceN := by decide
    tabN := by decide
    digitN := by decide
    digitA := by decide
    quoteN := by decide
    quoteA := by decide
    aposN := by decide
    aposA := by decide
    colonN := by decide }

/-- every operator token type of `opTok` has a spelling in the table -/
theorem opTok_spelled {oty : TokenType} {p : Definition × Instruction} (h : opTok oty = some p) :
    ∃ to, (to, oty) ∈ Garnish.Gen.LexTables.operatorChars := by
  have key : Garnish.Gen.LexTables.operatorChars.any (fun q => q.2 == oty) = true := by
    cases oty <;> first | (simp [opTok] at h; done) | decide
  obtain ⟨q, hq, he⟩ := List.any_eq_true.mp key
  exact ⟨q.1, by have : q.2 = oty := by simpa using he
                 rw [← this]; exact hq⟩

/-! ## what is not covered: witnesses on the Rust tables -/

deriving instance DecidableEq for Outcome

/-- `""a""` is three tokens: the empty literal, an identifier, the empty literal -/
theorem two_quotes_split : lex rustTables (quoteCharList 2 ['a']) =
    .ok [⟨['"', '"'], .charList, 0, 0⟩, ⟨['a'], .identifier, 0, 2⟩, ⟨['"', '"'], .charList, 0, 3⟩] := by decide +kernel

/-- `''1''` (the numeric byte-list form with two apostrophes) is three tokens -/
theorem two_apostrophes_split : lex rustTables (spellBytesNumeric 2 [1]) =
    .ok [⟨['\'', '\''], .byteList, 0, 0⟩, ⟨['1'], .number, 0, 2⟩, ⟨['\'', '\''], .byteList, 0, 3⟩] := by decide +kernel

/-- six quotes: the opening run never ends -/
theorem three_quotes_empty_fails : lex rustTables (quoteCharList 3 []) = .err .syntax := by decide +kernel

/-- `'\''`: the escaped apostrophe closes the literal for the lexer, the last one starts a literal that never ends -/
theorem escaped_apostrophe_fails : lex rustTables (spellBytesQuoted [39]) = .err .syntax := by decide +kernel

/-- `::a` is an Identifier, not a Symbol -/
theorem double_colon_identifier : lex rustTables (spellSymbol [':', 'a']) = .ok [⟨[':', ':', 'a'], .identifier, 0, 0⟩] := by
  decide +kernel

/-- a name ending in `:` still is one Symbol token -/
theorem trailing_colon_symbol : lex rustTables (spellSymbol ['a', ':']) = .ok [⟨[':', 'a', ':'], .symbol, 0, 0⟩] := by
  decide +kernel

/-! ## the source-text theorems without the lexing hypothesis -/

section text
variable {F : Type} (pf : List Char → Option F) (cc : CharClass) (hcc : cc.Lit) (fo : FloatOps F) (host : Host F)
include hcc

/-- **C14, numbers**: every radix 2..36, every valid separator placement, every `n ≤ i32::MAX`: the source text
`spellNumber r n seps` is compiled to a program that runs to the integer `n` -/
theorem C14_text_number' (r n : Nat) (seps : List Nat) (hr2 : 2 ≤ r) (hr36 : r ≤ 36) (hn : n ≤ 2147483647)
    (hvs : ValidSeps r n seps) (input : Val F) :
    ∃ dd entry, buildText pf cc (spellNumber r n seps) = .ok (dd, entry) ∧ RunsTo fo host dd entry input (.num (.int n)) :=
  C14_text_number pf cc fo host r n seps hr2 hr36 hn hvs 0 0 (lex_spellNumber cc hcc r n seps hr2 hr36) input

/-- **C14, round trip**: print `n` in any radix, lex, parse, build, run: `n` -/
theorem C14_text_roundtrip' (r n : Nat) (hr2 : 2 ≤ r) (hr36 : r ≤ 36) (hn : n ≤ 2147483647) (input : Val F) :
    ∃ dd entry, buildText pf cc (spellNumber r n []) = .ok (dd, entry) ∧ RunsTo fo host dd entry input (.num (.int n)) :=
  C14_text_roundtrip pf cc fo host r n hr2 hr36 hn 0 0 (lex_spellNumber cc hcc r n [] hr2 hr36) input

omit hcc in
theorem head_of_not_mem {c : Char} {body : List Char} (h : c ∉ body) : body.head? ≠ some c := by
  cases body with
  | nil => simp
  | cons x r => intro e; simp at e; exact h (by simp [e])

/-- **C14, char lists**: `q` quotes, a body without quotes, `q` quotes runs to the escape processing of the body -/
theorem C14_text_charlist' (q : Nat) (body : List Char) (hq1 : 1 ≤ q) (hq2 : q ≠ 2) (hbody : '"' ∉ body)
    (hnon : body ≠ [] ∨ q = 1) (cs : List Char) (hu : unescape (uniModel pf) q body = .ok cs) (input : Val F) :
    ∃ dd entry, buildText pf cc (quoteCharList q body) = .ok (dd, entry) ∧
      RunsTo fo host dd entry input (.chars (cs.map Char.toNat)) :=
  C14_text_charlist pf cc fo host q body (head_of_not_mem hbody) cs hu 0 0
    (lex_quoteCharList_body cc hcc q body hq1 hq2 hbody hnon) input

/-- **C14, char lists, round trip**: EVERY string `cs`, written between `q` quotes with its quotes as `\u{22}`, runs to
`cs` — for `q = 1` and `q ≥ 3` (`cs` non-empty unless `q = 1`) -/
theorem C14_text_charlist_roundtrip' (q : Nat) (cs : List Char) (hq1 : 1 ≤ q) (hq2 : q ≠ 2) (hnon : cs ≠ [] ∨ q = 1)
    (input : Val F) :
    ∃ dd entry, buildText pf cc (quoteCharList q (escapeCharsU q cs)) = .ok (dd, entry) ∧
      RunsTo fo host dd entry input (.chars (cs.map Char.toNat)) :=
  C14_text_charlist_roundtrip pf cc fo host q cs 0 0 (lex_quoteCharList cc hcc q cs hq1 hq2 hnon) input

/-- **C14, byte lists, quoted form**: `'body'` (no apostrophe in the body) runs to the escape processing of the body -/
theorem C14_text_bytelist' (body : List Char) (hbody : '\'' ∉ body) (bs : List Nat) (hu : unescBytes false body = .ok bs)
    (input : Val F) :
    ∃ dd entry, buildText pf cc (quoteByteList 1 body) = .ok (dd, entry) ∧ RunsTo fo host dd entry input (.bytes bs) :=
  C14_text_bytelist pf cc fo host body (head_of_not_mem hbody) bs hu 0 0
    (lex_quoteByteList_body cc hcc 1 body (by omega) (by omega) hbody (Or.inr rfl)) input

/-- **C14, byte lists, numeric form** (round trip): every non-empty byte vector, `q ≥ 3` apostrophes -/
theorem C14_text_bytelist_numeric' (q : Nat) (hq : 3 ≤ q) (bs : List Nat) (hne : bs ≠ []) (hb : ∀ b ∈ bs, b ≤ 255)
    (input : Val F) :
    ∃ dd entry, buildText pf cc (spellBytesNumeric q bs) = .ok (dd, entry) ∧ RunsTo fo host dd entry input (.bytes bs) :=
  C14_text_bytelist_numeric pf cc fo host q (by omega) bs hb 0 0
    (lex_spellBytesNumeric cc hcc q bs (by omega) (by omega) (Or.inl hne)) input

/-- **C14, symbols**: `:name` (identifier characters, no `:` at either end) runs to SipHash-1-3 of the name as written -/
theorem C14_text_symbol' (name : List Char) (h1 : name.head? ≠ some ':') (h2 : name.getLast? ≠ some ':')
    (hid : ∀ x ∈ name, isIdentifierChar cc x = true) (input : Val F) :
    ∃ dd entry, buildText pf cc (spellSymbol name) = .ok (dd, entry) ∧
      RunsTo fo host dd entry input (.sym (Garnish.Model.SipHash.symbolValue name).toNat) :=
  C14_text_symbol pf cc fo host name h1 h2 0 0 (lex_spellSymbol cc hcc name h1 hid) input

/-- the source text `a op b` of two number spellings and an operator spelling of the table -/
def intBinopText (ra na : Nat) (sa : List Nat) (to : List Char) (rb nb : Nat) (sb : List Nat) : List Char :=
  spellNumber ra na sa ++ ' ' :: to ++ ' ' :: spellNumber rb nb sb

omit hcc in
theorem intBinop_lexed (hcc : cc.Lit) (ra na rb nb : Nat) (sa sb : List Nat) (hra : 2 ≤ ra ∧ ra ≤ 36) (hrb : 2 ≤ rb ∧ rb ≤ 36)
    (to : List Char) (oty : TokenType) (hto : (to, oty) ∈ Garnish.Gen.LexTables.operatorChars) :
    ∃ toks, lex cc (intBinopText ra na sa to rb nb sb) = .ok toks ∧
      toP toks = fiveToks (spellNumber ra na sa) [' '] to [' '] (spellNumber rb nb sb) .number oty .number :=
  toP_binop_spelling cc _ to _ .number oty .number (tokSpelling_spellNumber cc hcc ra na sa hra.1 hra.2)
    (tokSpelling_operator cc hcc to oty hto) (tokSpelling_spellNumber cc hcc rb nb sb hrb.1 hrb.2)

/-- **C09 from the source text, integer arithmetic**: `a op b` for two integer spellings and `op` one of
`+ - * / // % ** << >>` as spelled in the operator table runs to the EXACT result of Spec/Num.lean when that is
representable in an `i32`, and to unit when it is not — never to a wrapped value -/
theorem C09_text_int_arith' (ra na rb nb : Nat) (sa sb : List Nat) (hra : 2 ≤ ra ∧ ra ≤ 36) (hrb : 2 ≤ rb ∧ rb ≤ 36)
    (hna : na ≤ 2147483647) (hnb : nb ≤ 2147483647) (hva : ValidSeps ra na sa) (hvb : ValidSeps rb nb sb)
    (oty : TokenType) (dop : Definition) (op : Instruction) (f : Int → Int → Option Int) (hop : opTok oty = some (dop, op))
    (hf : arithSpec op = some f) (to : List Char) (hto : (to, oty) ∈ Garnish.Gen.LexTables.operatorChars) (input : Val F) :
    ∃ dd entry, buildText pf cc (intBinopText ra na sa to rb nb sb) = .ok (dd, entry) ∧
      RunsTo fo host dd entry input (numResult ((f na nb).map .int)) := by
  obtain ⟨toks, hlex, htoks⟩ := intBinop_lexed cc hcc ra na rb nb sa sb hra hrb to oty hto
  exact C09_text_int_arith pf cc fo host ra na rb nb sa sb hra hrb hna hnb hva hvb oty dop op f hop hf _ toks hlex _ to _ htoks
    input

/-- **C09 from the source text, `& | ^`**: bit by bit -/
theorem C09_text_int_bitwise' (ra na rb nb : Nat) (sa sb : List Nat) (hra : 2 ≤ ra ∧ ra ≤ 36) (hrb : 2 ≤ rb ∧ rb ≤ 36)
    (hna : na ≤ 2147483647) (hnb : nb ≤ 2147483647) (hva : ValidSeps ra na sa) (hvb : ValidSeps rb nb sb)
    (oty : TokenType) (dop : Definition) (op : Instruction) (g : Bool → Bool → Bool) (hop : opTok oty = some (dop, op))
    (hg : (op = .bitwiseAnd ∧ g = and) ∨ (op = .bitwiseOr ∧ g = or) ∨ (op = .bitwiseXor ∧ g = xor))
    (to : List Char) (hto : (to, oty) ∈ Garnish.Gen.LexTables.operatorChars) (input : Val F) :
    ∃ r : Int, InRange r ∧ (∀ i, Spec.bit r i = g (Spec.bit na i) (Spec.bit nb i)) ∧
      ∃ dd entry, buildText pf cc (intBinopText ra na sa to rb nb sb) = .ok (dd, entry) ∧
        RunsTo fo host dd entry input (.num (.int r)) := by
  obtain ⟨toks, hlex, htoks⟩ := intBinop_lexed cc hcc ra na rb nb sa sb hra hrb to oty hto
  exact C09_text_int_bitwise pf cc fo host ra na rb nb sa sb hra hrb hna hnb hva hvb oty dop op g hop hg _ toks hlex _ to _ htoks
    input

/-- **C12 from the source text, integers**: `a < b`, `a > b`, `a <= b`, `a >= b` run to `$?` / `$!` according to the order
of the integers -/
theorem C12_text_int_order' (ra na rb nb : Nat) (sa sb : List Nat) (hra : 2 ≤ ra ∧ ra ≤ 36) (hrb : 2 ≤ rb ∧ rb ≤ 36)
    (hna : na ≤ 2147483647) (hnb : nb ≤ 2147483647) (hva : ValidSeps ra na sa) (hvb : ValidSeps rb nb sb)
    (oty : TokenType) (dop : Definition) (op : Instruction) (f : Int → Int → Bool) (hop : opTok oty = some (dop, op))
    (hf : intOrder op = some f) (to : List Char) (hto : (to, oty) ∈ Garnish.Gen.LexTables.operatorChars) (input : Val F) :
    ∃ dd entry, buildText pf cc (intBinopText ra na sa to rb nb sb) = .ok (dd, entry) ∧
      RunsTo fo host dd entry input (Val.ofBool (f na nb)) := by
  obtain ⟨toks, hlex, htoks⟩ := intBinop_lexed cc hcc ra na rb nb sa sb hra hrb to oty hto
  exact C12_text_int_order pf cc fo host ra na rb nb sa sb hra hrb hna hnb hva hvb oty dop op f hop hf _ toks hlex _ to _ htoks
    input

/-- **C11 from the source text, integers**: `a == b` is equality of the numbers, whatever radix and separators they are
written with -/
theorem C11_text_int_equal' (ra na rb nb : Nat) (sa sb : List Nat) (hra : 2 ≤ ra ∧ ra ≤ 36) (hrb : 2 ≤ rb ∧ rb ≤ 36)
    (hna : na ≤ 2147483647) (hnb : nb ≤ 2147483647) (hva : ValidSeps ra na sa) (hvb : ValidSeps rb nb sb) (input : Val F) :
    ∃ dd entry, buildText pf cc (intBinopText ra na sa ['=', '='] rb nb sb) = .ok (dd, entry) ∧
      RunsTo fo host dd entry input (Val.ofBool (decide (na = nb))) := by
  obtain ⟨toks, hlex, htoks⟩ := intBinop_lexed cc hcc ra na rb nb sa sb hra hrb ['=', '='] .equality (by decide)
  exact C11_text_int_equal pf cc fo host ra na rb nb sa sb hra hrb hna hnb hva hvb _ toks hlex _ _ _ htoks input

/-- **C12 from the source text, char lists**: `"…" op "…"` for the four comparison operators runs to `$?` / `$!` according to the
lexicographic order of the two strings the literals spell -/
theorem C12_text_charlist_order' (qa qb : Nat) (ba bb : List Char) (hqa : 1 ≤ qa ∧ qa ≠ 2) (hqb : 1 ≤ qb ∧ qb ≠ 2)
    (hba : '"' ∉ ba) (hbb : '"' ∉ bb) (hna : ba ≠ [] ∨ qa = 1) (hnb : bb ≠ [] ∨ qb = 1) (ca cb : List Char)
    (hua : unescape (uniModel pf) qa ba = .ok ca) (hub : unescape (uniModel pf) qb bb = .ok cb)
    (oty : TokenType) (dop : Definition) (op : Instruction) (f : List Nat → List Nat → Bool)
    (hop : opTok oty = some (dop, op)) (hf : listOrder op = some f) (to : List Char)
    (hto : (to, oty) ∈ Garnish.Gen.LexTables.operatorChars) (input : Val F) :
    ∃ dd entry, buildText pf cc (quoteCharList qa ba ++ ' ' :: to ++ ' ' :: quoteCharList qb bb) = .ok (dd, entry) ∧
      RunsTo fo host dd entry input (Val.ofBool (f (ca.map Char.toNat) (cb.map Char.toNat))) := by
  obtain ⟨toks, hlex, htoks⟩ := toP_binop_spelling cc _ to _ .charList oty .charList
    (tokSpelling_quoteCharList cc hcc qa ba hqa.1 hqa.2 hba hna) (tokSpelling_operator cc hcc to oty hto)
    (tokSpelling_quoteCharList cc hcc qb bb hqb.1 hqb.2 hbb hnb)
  exact C12_text_charlist_order pf cc fo host qa qb ba bb (head_of_not_mem hba) (head_of_not_mem hbb) ca cb hua hub oty dop op f
    hop hf _ toks hlex _ to _ htoks input

end text

/-! ## non-vacuity on the Rust tables: the hypotheses hold, the text is the expected one -/

example : intBinopText 16 255 [] ['*', '*'] 10 2 [0] = "016_ff ** 2_".toList := by decide

example {F : Type} (pf : List Char → Option F) (fo : FloatOps F) (host : Host F) (input : Val F) :
    ∃ dd entry, buildText pf rustTables "016_ff == 25_5".toList = .ok (dd, entry) ∧
      RunsTo fo host dd entry input (Val.ofBool true) :=
  C11_text_int_equal' pf rustTables rustTables_lit fo host 16 255 10 255 [] [1] (by omega) (by omega) (by omega) (by omega)
    (by intro h; cases h) (by intro _ h; cases h) input

end Garnish.Props.C14Lex
