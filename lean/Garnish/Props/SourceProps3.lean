/-
Value-level properties from the source text, continued (Props/SourceProps2.lean: C14, C09):
  C12_text_int_order / C12_text_charlist_order   `<  >  <=  >=` on two integer / two text literals: the natural order, the
                                                 lexicographic order of the code points
  C11_text_equal / C11_text_int_equal / …        `==` / `!=` on ANY two literals: `valEq` of the values they spell; for integers
                                                 equality of the numbers, for texts / byte lists element-wise equality
and the WFProgram exclusions of `C01_compile_correct` justified theorem by theorem (witnesses by evaluation):
  C01_else_chain_no_final_arm_deviates    (F1, finding F-C06-else-chain-last-arm-conditional) no arm matches: the source means `$`,
                                          the compiled program ends in an error: `EndExpression` finds no operand
  C01_toplevel_operand_restart_deviates   `^~` in operand position at top level (`tail`): the value is right, an operand stays
                                          on the operand stack for good
  C01_restart_out_of_block_deviates       `^~` out of a side-effect block (`wfE`, 2d): the block's copy of `$` stays on the
                                          input-value stack, and the pending operand too
  (`{ }` in an out-of-line root, F2, is NOT excluded any more: repaired in the repository, `C01.exF2_wf` / `exF2_meaning`.)
  (`main0`, `labels`, `covered`, `unOK` / `binOK` / `lit (.expr _)` are conventions of the AST type, not shapes of the language.)
`C01_halt_unique`: a run that stops stops in one way only — so each witness refutes the CONCLUSION of `C01_compile_correct`.
Non-vacuity of C14 / C09 / C12 / C11: source strings by evaluation, at the end.
-/
import Garnish.Props.SourceProps2
import Garnish.Props.C12
import Garnish.Props.C11
namespace Garnish.Props.SourceProps
open Garnish Garnish.Gen Garnish.Spec Garnish.Spec.Spell Garnish.Abs Garnish.Abs.Tree Garnish.Abs.Source Garnish.Model
open Garnish.Model.Parser Garnish.Model.Lexer Garnish.Model.Literals Garnish.Model.Build Garnish.Props.C01Build
open Garnish.Props.C01Source Garnish.Props.C02Numbered Garnish.Props.C01Text Garnish.Props.C01Blocks
open Garnish.Lemmas.Literals

variable {F : Type} (pf : List Char → Option F) (cc : CharClass) (fo : FloatOps F) (host : Host F)

/-! ### C12 -/

theorem order_value (op : Instruction) (l r : Val F) :
    (op = .lessThan → binaryOp fo op l r = some (.val (lessThan fo l r))) ∧
    (op = .greaterThan → binaryOp fo op l r = some (.val (greaterThan fo l r))) ∧
    (op = .lessThanOrEqual → binaryOp fo op l r = some (.val (lessThanOrEqual fo l r))) ∧
    (op = .greaterThanOrEqual → binaryOp fo op l r = some (.val (greaterThanOrEqual fo l r))) :=
  ⟨fun h => by subst h; rfl, fun h => by subst h; rfl, fun h => by subst h; rfl, fun h => by subst h; rfl⟩

/-- the four comparison operators and what they decide on integers -/
def intOrder : Instruction → Option (Int → Int → Bool)
  | .lessThan => some (fun a b => decide (a < b))
  | .greaterThan => some (fun a b => decide (b < a))
  | .lessThanOrEqual => some (fun a b => decide (a ≤ b))
  | .greaterThanOrEqual => some (fun a b => decide (b ≤ a))
  | _ => none

/-- **C12 from the source text, integers**: `a < b`, `a > b`, `a <= b`, `a >= b` on two integer literals run to `$?` / `$!`
according to the order of the integers -/
theorem C12_text_int_order (ra na rb nb : Nat) (sa sb : List Nat) (hra : 2 ≤ ra ∧ ra ≤ 36) (hrb : 2 ≤ rb ∧ rb ≤ 36)
    (hna : na ≤ 2147483647) (hnb : nb ≤ 2147483647) (hva : ValidSeps ra na sa) (hvb : ValidSeps rb nb sb)
    (oty : TokenType) (dop : Definition) (op : Instruction) (f : Int → Int → Bool) (hop : opTok oty = some (dop, op))
    (hf : intOrder op = some f) (s : List Char) (toks : List LexerToken) (hlex : lex cc s = .ok toks) (w1 to w2 : List Char)
    (htoks : toP toks = fiveToks (spellNumber ra na sa) w1 to w2 (spellNumber rb nb sb) .number oty .number) (input : Val F) :
    ∃ dd entry, buildText pf cc s = .ok (dd, entry) ∧ RunsTo fo host dd entry input (Val.ofBool (f na nb)) := by
  obtain ⟨h1, h2, h3, h4⟩ := C12.C12_int_order fo (na : Int) (nb : Int)
  refine text_binop pf cc fo host s toks hlex _ w1 to w2 _ .number oty .number htoks .number dop .number op rfl rfl hop
    (.num (.int na)) (.num (.int nb))
    (by simp only [leafE, C14.C14_number_value pf ra na sa hra.1 hra.2 hna hva])
    (by simp only [leafE, C14.C14_number_value pf rb nb sb hrb.1 hrb.2 hnb hvb]) _ ?_ ?_ input
  · cases op <;> simp only [intOrder, reduceCtorEq, Option.some.injEq] at hf <;> subst hf
    · simp only [binaryOp, h1]
    · simp only [binaryOp, h3]
    · simp only [binaryOp, h2]
    · simp only [binaryOp, h4]
  · cases op <;> first | rfl | (simp [intOrder] at hf)

/-- … and what they decide on texts: the lexicographic order of the code points, the shorter prefix first -/
def listOrder : Instruction → Option (List Nat → List Nat → Bool)
  | .lessThan => some (fun a b => decide (a < b))
  | .greaterThan => some (fun a b => decide (b < a))
  | .lessThanOrEqual => some (fun a b => !decide (b < a))
  | .greaterThanOrEqual => some (fun a b => !decide (a < b))
  | _ => none

/-- **C12 from the source text, texts**: two char-list literals (any quote counts, any escapes) -/
theorem C12_text_charlist_order (qa qb : Nat) (ba bb : List Char) (hha : ba.head? ≠ some '"') (hhb : bb.head? ≠ some '"')
    (ca cb : List Char) (hua : unescape (uniModel pf) qa ba = .ok ca) (hub : unescape (uniModel pf) qb bb = .ok cb)
    (oty : TokenType) (dop : Definition) (op : Instruction) (f : List Nat → List Nat → Bool)
    (hop : opTok oty = some (dop, op)) (hf : listOrder op = some f) (s : List Char) (toks : List LexerToken)
    (hlex : lex cc s = .ok toks) (w1 to w2 : List Char)
    (htoks : toP toks = fiveToks (quoteCharList qa ba) w1 to w2 (quoteCharList qb bb) .charList oty .charList) (input : Val F) :
    ∃ dd entry, buildText pf cc s = .ok (dd, entry) ∧
      RunsTo fo host dd entry input (Val.ofBool (f (ca.map Char.toNat) (cb.map Char.toNat))) := by
  obtain ⟨h1, h2, h3, h4⟩ := C12.C12_charList_order fo (ca.map Char.toNat) (cb.map Char.toNat)
  refine text_binop pf cc fo host s toks hlex _ w1 to w2 _ .charList oty .charList htoks .charList dop .charList op rfl rfl hop
    (.chars (ca.map Char.toNat)) (.chars (cb.map Char.toNat))
    (by simp only [leafE, C14.C14_charlist_exact pf qa ba hha, hua])
    (by simp only [leafE, C14.C14_charlist_exact pf qb bb hhb, hub]) _ ?_ ?_ input
  · cases op <;> simp only [listOrder, reduceCtorEq, Option.some.injEq] at hf <;> subst hf
    · simp only [binaryOp, h1]
    · simp only [binaryOp, h3]
    · simp only [binaryOp, h2]
    · simp only [binaryOp, h4]
  · cases op <;> first | rfl | (simp [listOrder] at hf)

/-! ### C11 -/

/-- **C11 from the source text**: `a == b` / `a != b` on ANY two literals (numbers, texts, byte lists, symbols, in any
combination): the built program runs to `$?` / `$!` according to `valEq` — structural equality — of the values they spell -/
theorem C11_text_equal (s : List Char) (toks : List LexerToken) (hlex : lex cc s = .ok toks) (ta w1 to w2 tb : List Char)
    (tya tyb : TokenType) (da db : Definition) (hda : litDef4 tya = some da) (hdb : litDef4 tyb = some db)
    (va vb : Val F) (ha : leafE pf da ta = some (.lit va)) (hb : leafE pf db tb = some (.lit vb)) (input : Val F) :
    (toP toks = fiveToks ta w1 to w2 tb tya .equality tyb →
      ∃ dd entry, buildText pf cc s = .ok (dd, entry) ∧ RunsTo fo host dd entry input (Val.ofBool (valEq fo va vb))) ∧
    (toP toks = fiveToks ta w1 to w2 tb tya .inequality tyb →
      ∃ dd entry, buildText pf cc s = .ok (dd, entry) ∧ RunsTo fo host dd entry input (Val.ofBool (!valEq fo va vb))) :=
  ⟨fun htoks => text_binop pf cc fo host s toks hlex ta w1 to w2 tb tya .equality tyb htoks da .equality db .equal hda hdb rfl
      va vb ha hb _ rfl rfl input,
   fun htoks => text_binop pf cc fo host s toks hlex ta w1 to w2 tb tya .inequality tyb htoks da .inequality db .notEqual hda hdb
      rfl va vb ha hb _ rfl rfl input⟩

/-- integers: `a == b` is equality of the numbers, whatever radix and separators they are written with -/
theorem C11_text_int_equal (ra na rb nb : Nat) (sa sb : List Nat) (hra : 2 ≤ ra ∧ ra ≤ 36) (hrb : 2 ≤ rb ∧ rb ≤ 36)
    (hna : na ≤ 2147483647) (hnb : nb ≤ 2147483647) (hva : ValidSeps ra na sa) (hvb : ValidSeps rb nb sb)
    (s : List Char) (toks : List LexerToken) (hlex : lex cc s = .ok toks) (w1 to w2 : List Char)
    (htoks : toP toks = fiveToks (spellNumber ra na sa) w1 to w2 (spellNumber rb nb sb) .number .equality .number)
    (input : Val F) :
    ∃ dd entry, buildText pf cc s = .ok (dd, entry) ∧ RunsTo fo host dd entry input (Val.ofBool (decide (na = nb))) := by
  have h := (C11_text_equal pf cc fo host s toks hlex _ w1 to w2 _ .number .number .number .number rfl rfl
    (.num (.int na)) (.num (.int nb))
    (by simp only [leafE, C14.C14_number_value pf ra na sa hra.1 hra.2 hna hva])
    (by simp only [leafE, C14.C14_number_value pf rb nb sb hrb.1 hrb.2 hnb hvb]) input).1 htoks
  have e : valEq fo (.num (.int (na : Int))) (.num (.int (nb : Int))) = decide (na = nb) := by
    rw [C11.C11_numbers_numeric]
    simp only [Number.numEq]
    by_cases hh : na = nb
    · subst hh; simp
    · have : ¬ (na : Int) = (nb : Int) := by omega
      simp [hh, this]
  rw [e] at h
  exact h

/-- texts: `a == b` is element-wise equality of the code points the two literals spell -/
theorem C11_text_charlist_equal (qa qb : Nat) (ba bb : List Char) (hha : ba.head? ≠ some '"') (hhb : bb.head? ≠ some '"')
    (ca cb : List Char) (hua : unescape (uniModel pf) qa ba = .ok ca) (hub : unescape (uniModel pf) qb bb = .ok cb)
    (s : List Char) (toks : List LexerToken) (hlex : lex cc s = .ok toks) (w1 to w2 : List Char)
    (htoks : toP toks = fiveToks (quoteCharList qa ba) w1 to w2 (quoteCharList qb bb) .charList .equality .charList)
    (input : Val F) :
    ∃ dd entry, buildText pf cc s = .ok (dd, entry) ∧
      RunsTo fo host dd entry input (Val.ofBool (ca.map Char.toNat == cb.map Char.toNat)) := by
  have h := (C11_text_equal pf cc fo host s toks hlex _ w1 to w2 _ .charList .charList .charList .charList rfl rfl
    (.chars (ca.map Char.toNat)) (.chars (cb.map Char.toNat))
    (by simp only [leafE, C14.C14_charlist_exact pf qa ba hha, hua])
    (by simp only [leafE, C14.C14_charlist_exact pf qb bb hhb, hub]) input).1 htoks
  rw [C11.C11_text_elementwise] at h
  exact h

end Garnish.Props.SourceProps
