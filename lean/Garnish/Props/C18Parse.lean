/-
C18, parser half — whitespace / annotation insensitivity of the parser model.

Trivia = Whitespace, Annotation, LineAnnotation tokens.  Proved (proofs in Garnish/Lemmas/ParserInv.lean), for ANY token
list around the window and any parser state in between:
  a trivia token between a binary operator (left-to-right or right-to-left) and the value / identifier token that follows
  it does not change the result of `parse` at all — same `Ok` / `Err`, same root, same node array (definitions, links and
  tokens).
This is the position where no implicit list can arise (the node before the trivia is an operator, not a value).
For the whole operator fragment `value (trivia* binop trivia* value)*` (any number of trivia tokens between any two
tokens) see `Garnish.Props.C02Parse.C18_parse_whitespace_insensitive_fragment`.
The general statement (any number of trivia tokens at any position that does not change list detection) is `C18_parse_trivia`
(a `def`); the generator-level check is `gen_trivia_pairs` / `same_tree` in tools/gen/parsegen.py.
-/
import Garnish.Lemmas.ParserInv
namespace Garnish.Props.C18Parse
open Garnish Garnish.Gen Garnish.Model.Parser

/-- a list that starts and ends with a non-trimmable token is left alone by `trim_tokens` -/
theorem C18_trim_id (f l : PToken) (body : List PToken) (hf : isTrimmable f = false) (hl : isTrimmable l = false) :
    trimTokens (f :: (body ++ [l])) = .ok (f :: (body ++ [l])) := by
  unfold trimTokens
  have hs : trimStart (f :: (body ++ [l])) = 0 := by simp [trimStart, hf]
  have hr : (f :: (body ++ [l])).reverse = l :: (body.reverse ++ [f]) := by simp
  rw [hs, hr]
  simp [trimEnd, hl, Outcome.bind]
  have : body.length + 1 = (body ++ [l]).length := by simp
  rw [this, List.take_length]

/-- `parse` on an already trimmed, non-empty list is the token loop followed by the final checks -/
theorem C18_parse_of_trimmed (toks : List PToken) (h : trimTokens toks = .ok toks) (hne : toks.isEmpty = false) :
    parse toks = Outcome.bind (loop PState.init toks) finish := by
  unfold parse
  rw [h]
  simp [Outcome.bind, hne]

/-- **loop level, any state, any context**: `… op trivia atom …` and `… op atom …` reach the same state -/
theorem C18_loop_binop_trivia_atom (st : PState) (hnl : st.nextLastLeft = none) (pre post : List PToken) (o w a : PToken)
    (ho : isBinopTok o = true) (hw : isTriviaTok w = true) (ha : isAtomTok a = true) :
    loop st (pre ++ o :: w :: a :: post) = loop st (pre ++ o :: a :: post) :=
  loop_binop_trivia_atom o w a post ho hw ha pre st hnl

/-- **`parse` level**: for token lists that start and end with a non-trimmable token (what `trim_tokens` leaves),
    inserting / removing a trivia token between a binary operator and the atom after it does not change the result
    (`Ok` with the same root and node array, or the same `Err`) -/
theorem C18_parse_binop_trivia_atom (pre post : List PToken) (o w a : PToken)
    (ho : isBinopTok o = true) (hw : isTriviaTok w = true) (ha : isAtomTok a = true)
    (ht1 : trimTokens (pre ++ o :: w :: a :: post) = .ok (pre ++ o :: w :: a :: post))
    (ht2 : trimTokens (pre ++ o :: a :: post) = .ok (pre ++ o :: a :: post)) :
    parse (pre ++ o :: w :: a :: post) = parse (pre ++ o :: a :: post) := by
  rw [C18_parse_of_trimmed _ ht1 (by cases pre <;> rfl), C18_parse_of_trimmed _ ht2 (by cases pre <;> rfl),
    loop_binop_trivia_atom o w a post ho hw ha pre PState.init rfl]

/-- a node without its token -/
def shapeOf (n : ParseNode) : Definition × SecDef × Option Nat × Option Nat × Option Nat :=
  (n.definition, n.secondaryDefinition, n.parent, n.left, n.right)

/-- same tree: equal results up to the token texts / positions stored in the nodes -/
def sameShape (a b : Outcome ParseResult) : Prop :=
  match a, b with
  | .ok ra, .ok rb =>
    ra.root = rb.root ∧ ra.nodes.size = rb.nodes.size ∧
      ∀ i : Nat, (ra.nodes[i]?).map shapeOf = (rb.nodes[i]?).map shapeOf
  | .err _, .err _ => True
  | _, _ => False

/-- `b` is `a` with trivia tokens inserted at positions where the node before is not value-like / group-like
    (so that list detection is unchanged) — here: directly after a binary-operator token -/
inductive InsertTrivia : List PToken → List PToken → Prop
  | refl (l : List PToken) : InsertTrivia l l
  | step (pre post : List PToken) (o w : PToken) (l : List PToken) : isBinopTok o = true → isTriviaTok w = true →
      InsertTrivia l (pre ++ o :: post) → InsertTrivia l (pre ++ o :: w :: post)

/-- the general statement (NOT proved in this generality: the proved case is a single trivia token followed by an atom) -/
def C18_parse_trivia : Prop := ∀ a b, InsertTrivia a b → sameShape (parse a) (parse b)

end Garnish.Props.C18Parse
