/-
C18, parser half — whitespace / annotation insensitivity of the parser model.

Trivia = Whitespace, Annotation, LineAnnotation tokens.  Proved (proofs in Garnish/Lemmas/ParserInv.lean), for ANY token
list around the window and any parser state in between:
  a trivia token between a binary operator (left-to-right or right-to-left) and the value / identifier token that follows
  it does not change the result of `parse` at all — same `Ok` / `Err`, same root, same node array (definitions, links and
  tokens).
This is the position where no implicit list can arise (the node before the trivia is an operator, not a value).
For the whole operator fragment `value (trivia* binop trivia* value)*` (any number of trivia tokens between any two
tokens) see `Garnish.Props.C02Parse.C18_parse_whitespace_insensitive_fragment`.
The general statement (any number of trivia tokens at any position that does not change list detection) is `C18_parse_trivia`
(a `def`); the generator-level check is `gen_trivia_pairs` / `same_tree` in tools/gen/parsegen.py.

Second part — the licensed rewrites as relations on token lists (definitions in Lemmas/RefTrivia2, RefWrap2):
  `AddSpace`, `AddAnnotation` / `AddLineAnnotation`, `TrailingSpace`, and `WrapOK` (parentheses around a complete operand).
For each: the reference parser returns the same tree up to token positions (`TreeEqTrivia`), resp. up to positions and
`( )` nodes (`TreeEqGroups`) — `C18_refParse_addSpace`, `C18_refParse_addAnnotation`, `C18_refParse_trailingSpace`,
`C18_refParse_wrapOperand`, for ALL token lists; and the corollaries for the real algorithm on the fragment `frag9`
(`C18_parse_addSpace`, `C18_parse_addAnnotation`, `C18_parse_wrapOperand`; `C18_parse_trailingSpace` holds for every
token list).  Where a rewrite is not invariant the guard is kept in the relation and a witness is proved:
`C18_space_between_operands_differs`, `C18_wrap_left_assoc_differs`, `C18_wrap_property_differs`.
-/
import Garnish.Lemmas.ParserInv
import Garnish.Lemmas.RefTrailing
import Garnish.Lemmas.RefWrap2
import Garnish.Props.C02Parse
namespace Garnish.Props.C18Parse
open Garnish Garnish.Gen Garnish.Model.Parser

/-- a list that starts and ends with a non-trimmable token is left alone by `trim_tokens` -/
theorem C18_trim_id (f l : PToken) (body : List PToken) (hf : isTrimmable f = false) (hl : isTrimmable l = false) :
    trimTokens (f :: (body ++ [l])) = .ok (f :: (body ++ [l])) := by
  unfold trimTokens
  have hs : trimStart (f :: (body ++ [l])) = 0 := by simp [trimStart, hf]
  have hr : (f :: (body ++ [l])).reverse = l :: (body.reverse ++ [f]) := by simp
  rw [hs, hr]
  simp [trimEnd, hl, Outcome.bind]
  have : body.length + 1 = (body ++ [l]).length := by simp
  rw [this, List.take_length]

/-- `parse` on an already trimmed, non-empty list is the token loop followed by the final checks -/
theorem C18_parse_of_trimmed (toks : List PToken) (h : trimTokens toks = .ok toks) (hne : toks.isEmpty = false) :
    parse toks = Outcome.bind (loop PState.init toks) finish := by
  unfold parse
  rw [h]
  simp [Outcome.bind, hne]

/-- **loop level, any state, any context**: `… op trivia atom …` and `… op atom …` reach the same state -/
theorem C18_loop_binop_trivia_atom (st : PState) (hnl : st.nextLastLeft = none) (pre post : List PToken) (o w a : PToken)
    (ho : isBinopTok o = true) (hw : isTriviaTok w = true) (ha : isAtomTok a = true) :
    loop st (pre ++ o :: w :: a :: post) = loop st (pre ++ o :: a :: post) :=
  loop_binop_trivia_atom o w a post ho hw ha pre st hnl

/-- **`parse` level**: for token lists that start and end with a non-trimmable token (what `trim_tokens` leaves),
    inserting / removing a trivia token between a binary operator and the atom after it does not change the result
    (`Ok` with the same root and node array, or the same `Err`) -/
theorem C18_parse_binop_trivia_atom (pre post : List PToken) (o w a : PToken)
    (ho : isBinopTok o = true) (hw : isTriviaTok w = true) (ha : isAtomTok a = true)
    (ht1 : trimTokens (pre ++ o :: w :: a :: post) = .ok (pre ++ o :: w :: a :: post))
    (ht2 : trimTokens (pre ++ o :: a :: post) = .ok (pre ++ o :: a :: post)) :
    parse (pre ++ o :: w :: a :: post) = parse (pre ++ o :: a :: post) := by
  rw [C18_parse_of_trimmed _ ht1 (by cases pre <;> rfl), C18_parse_of_trimmed _ ht2 (by cases pre <;> rfl),
    loop_binop_trivia_atom o w a post ho hw ha pre PState.init rfl]

/-- a node without its token -/
def shapeOf (n : ParseNode) : Definition × SecDef × Option Nat × Option Nat × Option Nat :=
  (n.definition, n.secondaryDefinition, n.parent, n.left, n.right)

/-- same tree: equal results up to the token texts / positions stored in the nodes -/
def sameShape (a b : Outcome ParseResult) : Prop :=
  match a, b with
  | .ok ra, .ok rb =>
    ra.root = rb.root ∧ ra.nodes.size = rb.nodes.size ∧
      ∀ i : Nat, (ra.nodes[i]?).map shapeOf = (rb.nodes[i]?).map shapeOf
  | .err _, .err _ => True
  | _, _ => False

/-- `b` is `a` with trivia tokens inserted at positions where the node before is not value-like / group-like
    (so that list detection is unchanged) — here: directly after a binary-operator token -/
inductive InsertTrivia : List PToken → List PToken → Prop
  | refl (l : List PToken) : InsertTrivia l l
  | step (pre post : List PToken) (o w : PToken) (l : List PToken) : isBinopTok o = true → isTriviaTok w = true →
      InsertTrivia l (pre ++ o :: post) → InsertTrivia l (pre ++ o :: w :: post)

/-- the general statement (NOT proved in this generality: the proved case is a single trivia token followed by an atom) -/
def C18_parse_trivia : Prop := ∀ a b, InsertTrivia a b → sameShape (parse a) (parse b)

/-! ### the licensed rewrites, reference grammar and real algorithm -/

open Garnish.Spec Garnish.Props.C02Parse

/-- same tree up to trivia: equal after forgetting the token positions stored in the nodes (an inserted token shifts the
    positions of everything behind it; a `List` node carries the position of the token before its right operand) -/
def TreeEqTrivia (a b : RTree) : Prop := a.eraseTok = b.eraseTok

/-- same tree up to trivia and added group nodes: equal after forgetting positions and removing `( )` nodes -/
def TreeEqGroups (a b : RTree) : Prop := a.stripGroups = b.stripGroups

/-- trees of two outcomes are related, or both are the same failure -/
def OutcomeEq (R : RTree → RTree → Prop) (a b : Outcome RTree) : Prop := ORel R a b

theorem outcomeEq_of_mapT {g : RTree → RTree} {a b : Outcome RTree} (h : a.mapT g = b.mapT g) :
    OutcomeEq (fun x y => g x = g y) a b := by
  cases a <;> cases b <;> simp only [Outcome.mapT] at h <;> simp only [OutcomeEq, ORel] <;>
    first | (injection h) | exact True.intro | cases h

theorem C18_refParse_addSpace {a b : List PToken} (h : AddSpace a b) (ha : NoTrim a) (hb : NoTrim b) :
    OutcomeEq TreeEqTrivia (refParse Table.gen a) (refParse Table.gen b) :=
  outcomeEq_of_mapT (refParse_addSpace h ha hb)

theorem C18_refParse_addAnnotation {a b : List PToken} (h : AddAnnotation a b) (ha : NoTrim a) (hb : NoTrim b) :
    OutcomeEq TreeEqTrivia (refParse Table.gen a) (refParse Table.gen b) :=
  outcomeEq_of_mapT (refParse_addAnnotation h ha hb)

theorem C18_refParse_addLineAnnotation {a b : List PToken} (h : AddLineAnnotation a b) (ha : NoTrim a) (hb : NoTrim b) :
    OutcomeEq TreeEqTrivia (refParse Table.gen a) (refParse Table.gen b) :=
  C18_refParse_addAnnotation h.toAdd ha hb

/-- trailing whitespace / blank lines: exactly the same reference tree, for every token list and every table -/
theorem C18_refParse_trailingSpace (tbl : Table) {a b : List PToken} (h : TrailingSpace a b) :
    refParse tbl b = refParse tbl a := refParse_trailingSpace tbl h

/-- trailing whitespace / blank lines: the real algorithm returns exactly the same result, for every token list -/
theorem C18_parse_trailingSpace {a b : List PToken} (h : TrailingSpace a b) : parse b = parse a := parse_trailingSpace h

theorem C18_refParse_wrapOperand {pre mid post : List PToken} {f : Frame} {stack : List Frame} {f1 : Frame} {M M0 : RTree}
    (h : WrapOK pre mid post f stack f1 M M0) {o c : PToken} (ho : o.type = .startGroup) (hc : c.type = .endGroup)
    (hn : NoTrim (pre ++ (mid ++ post))) (hn' : NoTrim (pre ++ o :: (mid ++ c :: post))) :
    OutcomeEq TreeEqGroups (refParse Table.gen (pre ++ (mid ++ post)))
      (refParse Table.gen (pre ++ o :: (mid ++ c :: post))) :=
  outcomeEq_of_mapT (refParse_wrapOperand h ho hc hn hn')

/-! ### the real algorithm on `frag9` -/

theorem noTrim_of_head_last {toks : List PToken} {t z : PToken} {rest init : List PToken} (h1 : toks = t :: rest)
    (ht : isTrimmable t = false) (h2 : toks = init ++ [z]) (hz : isTrimmable z = false) : NoTrim toks := by
  refine ⟨by rw [h1]; simp, by rw [h1]; simp [trimStart, ht], ?_⟩
  rw [h2]; simp [trimStart, hz]

theorem frag9_noTrim {toks : List PToken} (h : frag9 toks = true) : NoTrim toks := by
  unfold frag9 at h
  rcases Bool.or_eq_true _ _ |>.mp h with h | h
  · obtain ⟨e, hok, rfl⟩ := fragF_sound h
    obtain ⟨t, rest, h1, ht⟩ := ex_head e false hok
    obtain ⟨init, z, h2, hz⟩ := ex_last e false hok
    exact noTrim_of_head_last h1 ht h2 hz
  · obtain ⟨e, ws1, k, hok, _, hk, rfl⟩ := fragTC_sound h
    obtain ⟨t, rest, h1, ht⟩ := ex_head e false hok
    have hkt : isTrimmable k = false := by
      unfold isCommaTok at hk
      have : k.type = .comma := by simpa using hk
      simp only [isTrimmable, this]; rfl
    exact noTrim_of_head_last (rest := rest ++ (ws1 ++ [k])) (init := e.toks ++ ws1) (by rw [h1]; simp) ht (by simp) hkt

/-- from an invariance of the reference tree to the trees of the real algorithm, for two lists of the fragment -/
theorem C18_parse_of_refParse {R : RTree → RTree → Prop} {a b : List PToken} (fa : frag9 a = true) (fb : frag9 b = true)
    (na : NumberedFrom 0 a) (nb : NumberedFrom 0 b) (h : OutcomeEq R (refParse Table.gen a) (refParse Table.gen b)) :
    ∃ r t r' t', parse a = .ok r ∧ toTree r = some t ∧ parse b = .ok r' ∧ toTree r' = some t' ∧
      R (treeToRG r t) (treeToRG r' t') := by
  obtain ⟨r, t, h1, h2, h3⟩ := C02_parse_correct_fragment_optional a fa na
  obtain ⟨r', t', h1', h2', h3'⟩ := C02_parse_correct_fragment_optional b fb nb
  rw [h3, h3'] at h
  exact ⟨r, t, r', t', h1, h2, h1', h2', h⟩

/-- **adding a space, real algorithm**: both lists in the fragment ⇒ both parse, to the same tree up to positions -/
theorem C18_parse_addSpace {a b : List PToken} (h : AddSpace a b) (fa : frag9 a = true) (fb : frag9 b = true)
    (na : NumberedFrom 0 a) (nb : NumberedFrom 0 b) :
    ∃ r t r' t', parse a = .ok r ∧ toTree r = some t ∧ parse b = .ok r' ∧ toTree r' = some t' ∧
      TreeEqTrivia (treeToRG r t) (treeToRG r' t') :=
  C18_parse_of_refParse fa fb na nb (C18_refParse_addSpace h (frag9_noTrim fa) (frag9_noTrim fb))

theorem C18_parse_addAnnotation {a b : List PToken} (h : AddAnnotation a b) (fa : frag9 a = true) (fb : frag9 b = true)
    (na : NumberedFrom 0 a) (nb : NumberedFrom 0 b) :
    ∃ r t r' t', parse a = .ok r ∧ toTree r = some t ∧ parse b = .ok r' ∧ toTree r' = some t' ∧
      TreeEqTrivia (treeToRG r t) (treeToRG r' t') :=
  C18_parse_of_refParse fa fb na nb (C18_refParse_addAnnotation h (frag9_noTrim fa) (frag9_noTrim fb))

theorem C18_parse_addLineAnnotation {a b : List PToken} (h : AddLineAnnotation a b) (fa : frag9 a = true)
    (fb : frag9 b = true) (na : NumberedFrom 0 a) (nb : NumberedFrom 0 b) :
    ∃ r t r' t', parse a = .ok r ∧ toTree r = some t ∧ parse b = .ok r' ∧ toTree r' = some t' ∧
      TreeEqTrivia (treeToRG r t) (treeToRG r' t') :=
  C18_parse_addAnnotation h.toAdd fa fb na nb

/-- **wrapping a complete operand, real algorithm**: same tree up to positions and the added group node.
    The wrapped list is `b`, equal to `pre ++ ( :: mid ++ ) :: post` up to the positions stored in the tokens. -/
theorem C18_parse_wrapOperand {pre mid post b : List PToken} {f : Frame} {stack : List Frame} {f1 : Frame} {M M0 : RTree}
    (h : WrapOK pre mid post f stack f1 M M0) {o c : PToken} (ho : o.type = .startGroup) (hc : c.type = .endGroup)
    (hb : SameTypes (pre ++ o :: (mid ++ c :: post)) b) (fa : frag9 (pre ++ (mid ++ post)) = true) (fb : frag9 b = true)
    (na : NumberedFrom 0 (pre ++ (mid ++ post))) (nb : NumberedFrom 0 b) :
    ∃ r t r' t', parse (pre ++ (mid ++ post)) = .ok r ∧ toTree r = some t ∧ parse b = .ok r' ∧ toTree r' = some t' ∧
      TreeEqGroups (treeToRG r t) (treeToRG r' t') := by
  apply C18_parse_of_refParse fa fb na nb
  rw [← refParse_types Table.gen hb]
  exact C18_refParse_wrapOperand h ho hc (frag9_noTrim fa) ((frag9_noTrim fb).types hb.symm)

/-! ### non-vacuity and witnesses -/

/-- `x+y` → `x+ y` (after an operator) -/
def exSpA : List PToken := [tk .identifier "x" 0, tk .plusSign "+" 1, tk .identifier "y" 2]
def exSpB : List PToken := [tk .identifier "x" 0, tk .plusSign "+" 1, tk .whitespace " " 2, tk .identifier "y" 3]
/-- `x+y` → `x +y` (before an operator) -/
def exSpC : List PToken := [tk .identifier "x" 0, tk .whitespace " " 1, tk .plusSign "+" 2, tk .identifier "y" 3]
theorem exSp_add : AddSpace exSpA exSpB :=
  ⟨_, AddSpace0.after [tk .identifier "x" 0] [] [tk .identifier "y" 2] (tk .plusSign "+" 1) (tk .whitespace " " 2) rfl
    (Or.inr rfl) (by simp), rfl⟩
theorem exSp_add' : AddSpace exSpA exSpC :=
  ⟨_, AddSpace0.before [tk .identifier "x" 0] [] [tk .identifier "y" 2] (tk .whitespace " " 1) (tk .plusSign "+" 1) rfl
    (Or.inr rfl) (by simp), rfl⟩
theorem exSp_frag : frag9 exSpA = true ∧ frag9 exSpB = true ∧ frag9 exSpC = true := by decide
theorem exSp_numbered : NumberedFrom 0 exSpA ∧ NumberedFrom 0 exSpB ∧ NumberedFrom 0 exSpC := by
  simp [exSpA, exSpB, exSpC, NumberedFrom, tk]

theorem exSp_parse : ∃ r t r' t', parse exSpA = .ok r ∧ toTree r = some t ∧ parse exSpB = .ok r' ∧ toTree r' = some t' ∧
    TreeEqTrivia (treeToRG r t) (treeToRG r' t') :=
  C18_parse_addSpace exSp_add exSp_frag.1 exSp_frag.2.1 exSp_numbered.1 exSp_numbered.2.1
theorem exSp_parse' : ∃ r t r' t', parse exSpA = .ok r ∧ toTree r = some t ∧ parse exSpC = .ok r' ∧ toTree r' = some t' ∧
    TreeEqTrivia (treeToRG r t) (treeToRG r' t') :=
  C18_parse_addSpace exSp_add' exSp_frag.1 exSp_frag.2.2 exSp_numbered.1 exSp_numbered.2.2

/-- `f @a y` → `f @a  y` (a list: the inserted space is next to whitespace, an annotation in between) and
    `x+y` → `x @a +y` (an annotation) -/
def exAnA : List PToken := [tk .identifier "f" 0, tk .whitespace " " 1, tk .annotation "@a" 2, tk .identifier "y" 3]
def exAnB : List PToken :=
  [tk .identifier "f" 0, tk .whitespace " " 1, tk .annotation "@a" 2, tk .whitespace " " 3, tk .identifier "y" 4]
def exAnC : List PToken := [tk .identifier "x" 0, tk .annotation "@a" 1, tk .plusSign "+" 2, tk .identifier "y" 3]
theorem exAn_space : AddSpace exAnA exAnB :=
  ⟨_, AddSpace0.after [tk .identifier "f" 0] [tk .annotation "@a" 2] [tk .identifier "y" 3] (tk .whitespace " " 1)
    (tk .whitespace " " 3) rfl (Or.inl rfl) (by simp [isAnnTok, tk]), rfl⟩
theorem exAn_add : AddAnnotation exSpA exAnC :=
  ⟨_, AddAnnotation0.mk [tk .identifier "x" 0] [tk .plusSign "+" 1, tk .identifier "y" 2] (tk .annotation "@a" 1) rfl, rfl⟩
theorem exAn_frag : frag9 exAnA = true ∧ frag9 exAnB = true ∧ frag9 exAnC = true := by decide
theorem exAn_numbered : NumberedFrom 0 exAnA ∧ NumberedFrom 0 exAnB ∧ NumberedFrom 0 exAnC := by
  simp [exAnA, exAnB, exAnC, NumberedFrom, tk]

theorem exAn_parse : ∃ r t r' t', parse exAnA = .ok r ∧ toTree r = some t ∧ parse exAnB = .ok r' ∧ toTree r' = some t' ∧
    TreeEqTrivia (treeToRG r t) (treeToRG r' t') :=
  C18_parse_addSpace exAn_space exAn_frag.1 exAn_frag.2.1 exAn_numbered.1 exAn_numbered.2.1
theorem exAn_parse' : ∃ r t r' t', parse exSpA = .ok r ∧ toTree r = some t ∧ parse exAnC = .ok r' ∧ toTree r' = some t' ∧
    TreeEqTrivia (treeToRG r t) (treeToRG r' t') :=
  C18_parse_addAnnotation exAn_add exSp_frag.1 exAn_frag.2.2 exSp_numbered.1 exAn_numbered.2.2
theorem exTrail_parse : parse (exSpA ++ [tk .whitespace " " 3, tk .subexpression "\n\n" 4]) = parse exSpA :=
  C18_parse_trailingSpace (.mk exSpA _ (by simp [isTrimmable, tk]))

/-- `a+b*c` → `a+(b*c)` -/
def exWrPre : List PToken := [tk .identifier "a" 0, tk .plusSign "+" 1]
def exWrMid : List PToken := [tk .identifier "b" 2, tk .multiplicationSign "*" 3, tk .identifier "c" 4]
def exWrB : List PToken :=
  [tk .identifier "a" 0, tk .plusSign "+" 1, tk .startGroup "(" 2, tk .identifier "b" 3, tk .multiplicationSign "*" 4,
   tk .identifier "c" 5, tk .endGroup ")" 6]
theorem exWr_ok : WrapOK exWrPre exWrMid []
    { ctx := none, cur := .node (.node .nil .identifier 0 .nil) .addition 1 .nil, last := .op, ws := false, prevSep := false }
    []
    { ctx := none, cur := .node (.node .nil .identifier 0 .nil) .addition 1 .nil, last := .op, ws := false, prevSep := false }
    (.node (.node .nil .identifier 2 .nil) .multiplicationSign 3 (.node .nil .identifier 4 .nil))
    (.node (.node .nil .identifier 1 .nil) .multiplicationSign 2 (.node .nil .identifier 3 .nil)) where
  runPre := rfl
  before := rfl
  openB := rfl
  head := rfl
  runMid := rfl
  alone := rfl
  same := rfl
  ends := ⟨[tk .identifier "b" 2, tk .multiplicationSign "*" 3], tk .identifier "c" 4, rfl, rfl⟩
  acc := Or.inl rfl
  next := rfl
theorem exWr_frag : frag9 (exWrPre ++ (exWrMid ++ [])) = true ∧ frag9 exWrB = true := by decide
theorem exWr_numbered : NumberedFrom 0 (exWrPre ++ (exWrMid ++ [])) ∧ NumberedFrom 0 exWrB := by
  simp [exWrPre, exWrMid, exWrB, NumberedFrom, tk]
theorem exWr_parse : ∃ r t r' t', parse (exWrPre ++ (exWrMid ++ [])) = .ok r ∧ toTree r = some t ∧ parse exWrB = .ok r' ∧
    toTree r' = some t' ∧ TreeEqGroups (treeToRG r t) (treeToRG r' t') :=
  C18_parse_wrapOperand exWr_ok (o := tk .startGroup "(" 2) (c := tk .endGroup ")" 5) rfl rfl rfl exWr_frag.1 exWr_frag.2
    exWr_numbered.1 exWr_numbered.2

/-- **not licensed: a space between two operands** — `a(x)` is a syntax error for both parsers, `a (x)` is a list -/
theorem C18_space_between_operands_differs :
    refParse Table.gen [tk .identifier "a" 0, tk .startGroup "(" 1, tk .identifier "x" 2, tk .endGroup ")" 3] = .err .syntax ∧
    refParse Table.gen [tk .identifier "a" 0, tk .whitespace " " 1, tk .startGroup "(" 2, tk .identifier "x" 3,
        tk .endGroup ")" 4] =
      .ok (.node (.node .nil .identifier 0 .nil) .list 1 (.group .group 2 (.node .nil .identifier 3 .nil))) ∧
    (parse [tk .identifier "a" 0, tk .startGroup "(" 1, tk .identifier "x" 2, tk .endGroup ")" 3]).isOk = false ∧
    (parse [tk .identifier "a" 0, tk .whitespace " " 1, tk .startGroup "(" 2, tk .identifier "x" 3,
        tk .endGroup ")" 4]).isOk = true := by
  refine ⟨rfl, rfl, ?_, ?_⟩ <;> decide

/-- **not a complete operand**: `a-b-c` is `(a-b)-c`; parentheses around `b-c` change the tree (`NextPasses` / the run
    condition of `WrapOK` fails: `-` does not stop at `-`) -/
theorem C18_wrap_left_assoc_differs :
    ∃ T1 T2,
      refParse Table.gen [tk .identifier "a" 0, tk .subtraction "-" 1, tk .identifier "b" 2, tk .subtraction "-" 3,
        tk .identifier "c" 4] = .ok T1 ∧
      refParse Table.gen [tk .identifier "a" 0, tk .subtraction "-" 1, tk .startGroup "(" 2, tk .identifier "b" 3,
        tk .subtraction "-" 4, tk .identifier "c" 5, tk .endGroup ")" 6] = .ok T2 ∧ ¬ TreeEqGroups T1 T2 :=
  ⟨_, _, rfl, rfl, by unfold TreeEqGroups; decide⟩

/-- **the Property position of `.`**: `a.b` has a Property node, `a.(b)` an Identifier (guard `acc` of `WrapOK`) -/
theorem C18_wrap_property_differs :
    ∃ T1 T2,
      refParse Table.gen [tk .identifier "a" 0, tk .period "." 1, tk .identifier "b" 2] = .ok T1 ∧
      refParse Table.gen [tk .identifier "a" 0, tk .period "." 1, tk .startGroup "(" 2, tk .identifier "b" 3,
        tk .endGroup ")" 4] = .ok T2 ∧ ¬ TreeEqGroups T1 T2 :=
  ⟨_, _, rfl, rfl, by unfold TreeEqGroups; decide⟩

end Garnish.Props.C18Parse
