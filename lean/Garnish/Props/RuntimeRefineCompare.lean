/-
Runtime refinement, part 2b (C12 anchors): the statement-level model of runtime/src/runtime/comparison.rs
(Model/Runtime/Comparison.lean: the four handlers, `perform_comparison` with all its arms in source order,
`cmp_list` with its index loop) refines the value-level comparison.

* `C12_refine_cmp_list`: the index loop returns Abs/Ops `cmpListFrom a b i j` (`cmpTail` from the two starts, the
  FULL lengths deciding a tie) for integer starts `i`, `j`, with fuel `min |a| |b| + 1`.
* `C12_refine_perform_comparison` / `C12_refine_{less_than,…}`: for ALL operand values the handler computes
  `compareValsR` (Model/Runtime/CompareSpec.lean) and pushes `cmpValOf accept` of it, or fails with its error.
* `C12_compareValsR_agrees`: `compareValsR` IS Abs/Ops `compareVals` unless both operands are slices over two
  texts / two byte lists with a range that `sliceStart` rejects; `C12_refine_*_abs` restate the refinement
  against `Abs.lessThan` … under that condition.
* DISAGREEMENT with Abs/Ops (witnesses `C12_slice_range_overflow_disagrees`, `C12_slice_range_unit_disagrees`):
  where `sliceStart` rejects the range because its length overflows or an end is not a number, Abs/Ops says
  "not ordered, all four operators false" while the code fails the instruction (number error / state error).

Hypotheses besides `StoreLaws`, the register shape and `Decodes`: `textLen v ≤ i32::MAX` for both operands
(`DataFactory::size_to_number` is the cast `as i32`; on longer texts the loop bound itself wraps) and the fuel
bound.
-/
import Garnish.Lemmas.RuntimeCmp
import Garnish.Lemmas.RuntimeRefStore
set_option linter.unusedSimpArgs false
set_option linter.unusedVariables false
namespace Garnish.Props.RuntimeRefine
open Garnish Gen Garnish.Abs Garnish.Model.Equality Garnish.Model.Runtime Garnish.Lemmas.Runtime

variable {F σ : Type} {S : RStore F σ} (fo : FloatOps F)

/-- fuel that always suffices for `perform_comparison` on `vl`, `vr` -/
def cmpFuel (vl vr : Val F) : Nat := min (textLen vl) (textLen vr) + 1

/-- `cmp_list` on two char lists from integer starts: Abs/Ops `cmpListFrom`; the store is only read -/
theorem C12_refine_cmp_list (L : StoreLaws S) (s0 : σ) {left right : Nat} {a b : List Nat}
    (hl : Decodes (S.view s0) left (.chars a)) (hr : Decodes (S.view s0) right (.chars b))
    (ha : a.length ≤ 2147483647) (hb : b.length ≤ 2147483647) (i j fuel : Nat)
    (hf : min a.length b.length + 1 ≤ fuel) :
    Model.Runtime.cmpList fo fuel left right (.int i) (.int j) S.charItem S.charLen s0
      = .ok (some (cmpListFrom a b i j), s0) :=
  cmpList_spec fo S.charItem S.charLen _ s0 (L.charIdx s0) left right a b (chars_of hl) (chars_of hr) ha hb i j
    fuel hf

/-- the same loop on byte lists -/
theorem C12_refine_cmp_list_bytes (L : StoreLaws S) (s0 : σ) {left right : Nat} {a b : List Nat}
    (hl : Decodes (S.view s0) left (.bytes a)) (hr : Decodes (S.view s0) right (.bytes b))
    (ha : a.length ≤ 2147483647) (hb : b.length ≤ 2147483647) (i j fuel : Nat)
    (hf : min a.length b.length + 1 ≤ fuel) :
    Model.Runtime.cmpList fo fuel left right (.int i) (.int j) S.byteItem S.byteLen s0
      = .ok (some (cmpListFrom a b i j), s0) :=
  cmpList_spec fo S.byteItem S.byteLen _ s0 (L.byteIdx s0) left right a b (bytes_of hl) (bytes_of hr) ha hb i j
    fuel hf

/-- without integer starts at 0, `cmp_list` is the natural order of Abs/Ops `cmpList` -/
theorem C12_cmpListFrom_zero (a b : List Nat) : cmpListFrom a b 0 0 = Abs.cmpList a b := cmpListFrom_zero a b

/-- `perform_comparison`: both operands popped, nothing else touched, and the `Option<Ordering>` is the one of
the value-level comparison (`foreign` ↦ the caller's `false_ord`, `unordered` ↦ `None`), or its error -/
theorem C12_refine_perform_comparison (L : StoreLaws S) (falseOrd : Ordering)
    {s : σ} {r l : Nat} {vr vl : Val F} {rest : List Nat}
    (hregs : S.regs s = r :: l :: rest) (hl : Decodes (S.view s) l vl) (hr : Decodes (S.view s) r vr)
    (ha : textLen vl ≤ 2147483647) (hb : textLen vr ≤ 2147483647) (fuel : Nat) (hf : cmpFuel vl vr ≤ fuel) :
    match compareValsR fo vl vr with
    | some (.ok c) => Popped S s (performComparison fo S fuel falseOrd s) (ordOf falseOrd c) rest
    | some (.error e) => performComparison fo S fuel falseOrd s = .err e
    | none => True := by
  obtain ⟨s0, h0, e0⟩ := nextTwoRawRef_cons L hregs
  have hl0 := e0.dec hl
  have hr0 := e0.dec hr
  have hm := comparisonMatch_spec fo L s0 fuel falseOrd hl0 hr0 ha hb hf
  have hp : performComparison fo S fuel falseOrd s
      = comparisonMatch fo S fuel falseOrd l r vl.typeOf vr.typeOf s0 := by
    rw [performComparison, bind_ok h0]
    simp only []
    rw [bind_ok (getDataType_of hl0), bind_ok (getDataType_of hr0)]
  unfold CmpOutcome at hm
  cases hc : compareValsR fo vl vr with
  | none => trivial
  | some x =>
    rw [hc] at hm
    cases x with
    | ok c => exact ⟨s0, by rw [hp]; exact hm, e0⟩
    | error e => simp only [] at hm ⊢; rw [hp]; exact hm

/-- a comparison handler: `perform_comparison(false_ord)` then `push_boolean(test(result))` / `push_unit`, for a
`test` that rejects `false_ord` -/
theorem C12_refine_handler (L : StoreLaws S) (test : Ordering → Bool) (falseOrd : Ordering)
    (htest : test falseOrd = false)
    {s : σ} {r l : Nat} {vr vl : Val F} {rest : List Nat}
    (hregs : S.regs s = r :: l :: rest) (hl : Decodes (S.view s) l vl) (hr : Decodes (S.view s) r vr)
    (ha : textLen vl ≤ 2147483647) (hb : textLen vr ≤ 2147483647) (fuel : Nat) (hf : cmpFuel vl vr ≤ fuel) :
    let handler : RM σ (Option Nat) := do pushComparison S test (← performComparison fo S fuel falseOrd)
    match compareValsR fo vl vr with
    | some (.ok c) => Pushed S s (handler s) none rest (cmpValOf test c)
    | some (.error e) => handler s = .err e
    | none => True := by
  intro handler
  have hp := C12_refine_perform_comparison fo L falseOrd hregs hl hr ha hb fuel hf
  cases hc : compareValsR fo vl vr with
  | none => trivial
  | some x =>
    rw [hc] at hp
    cases x with
    | error e => simp only [] at hp ⊢; exact bind_err hp
    | ok c =>
      simp only [] at hp ⊢
      obtain ⟨s0, h0, e0⟩ := hp
      show Pushed S s ((performComparison fo S fuel falseOrd >>= _) s) none rest _
      rw [bind_ok h0]
      cases c with
      | foreign =>
        obtain ⟨x, s2, h2, d2, e2⟩ := pushBoolean_spec L (test falseOrd) s0
        rw [e0.regs, e0.vals] at e2
        rw [htest] at d2
        exact ⟨x, s2, by simp only [ordOf, pushComparison]; rw [bind_ok h2]; rfl, d2, e0.trans e2⟩
      | unordered =>
        obtain ⟨x, s2, h2, d2, e2⟩ := pushUnit_spec L s0
        rw [e0.regs, e0.vals] at e2
        exact ⟨x, s2, by simp only [ordOf, pushComparison]; rw [bind_ok h2]; rfl, d2, e0.trans e2⟩
      | ord o =>
        obtain ⟨x, s2, h2, d2, e2⟩ := pushBoolean_spec L (test o) s0
        rw [e0.regs, e0.vals] at e2
        exact ⟨x, s2, by simp only [ordOf, pushComparison]; rw [bind_ok h2]; rfl, d2, e0.trans e2⟩

/-- the four handlers are that shape, with the tests and false-orderings of Abs/Ops `lessThan` … -/
theorem C12_refine_handlers (fuel : Nat) :
    Model.Runtime.lessThan fo S fuel
      = (do pushComparison S (fun o => o == .lt) (← performComparison fo S fuel .gt)) ∧
    Model.Runtime.lessThanOrEqual fo S fuel
      = (do pushComparison S (fun o => o != .gt) (← performComparison fo S fuel .gt)) ∧
    Model.Runtime.greaterThan fo S fuel
      = (do pushComparison S (fun o => o == .gt) (← performComparison fo S fuel .lt)) ∧
    Model.Runtime.greaterThanOrEqual fo S fuel
      = (do pushComparison S (fun o => o != .lt) (← performComparison fo S fuel .lt)) := ⟨rfl, rfl, rfl, rfl⟩

/-- `cmpValOf` of `compareVals` is Abs/Ops `cmpOp` -/
theorem C12_cmpValOf_compareVals (accept : Ordering → Bool) (vl vr : Val F) :
    cmpValOf accept (compareVals fo vl vr) = cmpOp fo accept vl vr := by
  unfold cmpOp cmpValOf
  cases compareVals fo vl vr <;> rfl

/-- where the code and Abs/Ops agree: everywhere except two slices of text / of bytes whose ranges `sliceStart`
rejects -/
theorem C12_compareValsR_agrees (vl vr : Val F)
    (h : ∀ lv lr rv rr, vl = .slice lv lr → vr = .slice rv rr →
      (lv.typeOf = .charList ∧ rv.typeOf = .charList) ∨ (lv.typeOf = .byteList ∧ rv.typeOf = .byteList) →
      (sliceStart lr).isSome ∧ (sliceStart rr).isSome) :
    compareValsR fo vl vr = some (.ok (compareVals fo vl vr)) := by
  have start_ok : ∀ (x : Val F) (i : Nat), sliceStart x = some i →
      rangeStartR fo x = .ok (.int i) ∧ (0 : Int) ≤ i := by
    intro x i hx
    unfold sliceStart at hx
    split at hx
    · rename_i sI eI
      split at hx
      · rename_i hc
        obtain ⟨h0, h1, h2⟩ := hc
        cases hx
        refine ⟨?_, by omega⟩
        have : Abs.rangeLen fo (.int sI) (.int eI) = some (.int (eI - sI + 1)) := by
          simp [Abs.rangeLen, Number.subtract, Number.doOp, Number.overflowingSub, Lemmas.ovf_eq, h1,
            Number.increment, Number.overflowingAdd, h2]
        simp only [rangeStartR, this]
        congr 2; omega
      · cases hx
    · cases hx
  have key : ∀ (a b : List Nat) (lr rr : Val F) (i j : Nat), sliceStart lr = some i → sliceStart rr = some j →
      sliceGoR fo a b lr rr = some (.ok (.ord (cmpListFrom a b i j))) := by
    intro a b lr rr i j hi hj
    obtain ⟨r1, p1⟩ := start_ok lr i hi
    obtain ⟨r2, p2⟩ := start_ok rr j hj
    simp [sliceGoR, r1, r2, cmpFromR, p1, p2]
  cases vl <;> cases vr <;> try rfl
  rename_i lv lr rv rr
  have h' := h lv lr rv rr rfl rfl
  cases lv <;> cases rv <;> try rfl
  · rename_i a b
    obtain ⟨h1, h2⟩ := h' (Or.inl ⟨rfl, rfl⟩)
    obtain ⟨i, hi⟩ := Option.isSome_iff_exists.mp h1
    obtain ⟨j, hj⟩ := Option.isSome_iff_exists.mp h2
    simp only [compareValsR, compareSlicesR, compareVals, compareSlices, key a b lr rr i j hi hj, hi, hj]
  · rename_i a b
    obtain ⟨h1, h2⟩ := h' (Or.inr ⟨rfl, rfl⟩)
    obtain ⟨i, hi⟩ := Option.isSome_iff_exists.mp h1
    obtain ⟨j, hj⟩ := Option.isSome_iff_exists.mp h2
    simp only [compareValsR, compareSlicesR, compareVals, compareSlices, key a b lr rr i j hi hj, hi, hj]

/-- the refinement against Abs/Ops itself: wherever `compareValsR` agrees with `compareVals` (see
`C12_compareValsR_agrees`) the four handlers push exactly `Abs.lessThan` / … of the decoded operands -/
theorem C12_refine_less_than_abs (L : StoreLaws S)
    {s : σ} {r l : Nat} {vr vl : Val F} {rest : List Nat}
    (hregs : S.regs s = r :: l :: rest) (hl : Decodes (S.view s) l vl) (hr : Decodes (S.view s) r vr)
    (ha : textLen vl ≤ 2147483647) (hb : textLen vr ≤ 2147483647) (fuel : Nat) (hf : cmpFuel vl vr ≤ fuel)
    (hagree : compareValsR fo vl vr = some (.ok (compareVals fo vl vr))) :
    Pushed S s (Model.Runtime.lessThan fo S fuel s) none rest (Abs.lessThan fo vl vr) ∧
    Pushed S s (Model.Runtime.lessThanOrEqual fo S fuel s) none rest (Abs.lessThanOrEqual fo vl vr) ∧
    Pushed S s (Model.Runtime.greaterThan fo S fuel s) none rest (Abs.greaterThan fo vl vr) ∧
    Pushed S s (Model.Runtime.greaterThanOrEqual fo S fuel s) none rest (Abs.greaterThanOrEqual fo vl vr) := by
  have h1 := C12_refine_handler fo L (fun o => o == .lt) .gt rfl hregs hl hr ha hb fuel hf
  have h2 := C12_refine_handler fo L (fun o => o != .gt) .gt rfl hregs hl hr ha hb fuel hf
  have h3 := C12_refine_handler fo L (fun o => o == .gt) .lt rfl hregs hl hr ha hb fuel hf
  have h4 := C12_refine_handler fo L (fun o => o != .lt) .lt rfl hregs hl hr ha hb fuel hf
  simp only [hagree, C12_cmpValOf_compareVals] at h1 h2 h3 h4
  exact ⟨h1, h2, h3, h4⟩

/-! ### the disagreement with Abs/Ops, as theorems about the two value-level functions -/

/-- a slice of text whose range length overflows (`0..i32::MAX`): the code fails with the number error of
`range_len`; Abs/Ops `compareVals` says "not ordered" (all four operators false) -/
theorem C12_slice_range_overflow_disagrees :
    let a : Val F := .slice (.chars [97, 98, 99]) (.range (.num (.int 0)) (.num (.int 2147483647)))
    let b : Val F := .slice (.chars [97, 98, 99]) (.range (.num (.int 0)) (.num (.int 2)))
    compareValsR fo a b = some (.error .number) ∧ Abs.lessThan fo a b = .fls := by
  refine ⟨?_, ?_⟩
  · simp [compareValsR, compareSlicesR, sliceGoR, rangeStartR, Abs.rangeLen, Number.subtract, Number.doOp,
      Number.overflowingSub, Number.increment, Number.overflowingAdd, Lemmas.ovf_eq, InRange]
  · simp [Abs.lessThan, cmpOp, compareVals, compareSlices, sliceStart, InRange]

/-- a slice whose range has a unit end: the code fails with the state error "Invalid range values" of
`get_range`; Abs/Ops says "not ordered" -/
theorem C12_slice_range_unit_disagrees :
    let a : Val F := .slice (.chars [97, 98, 99]) (.range .unit (.num (.int 2)))
    let b : Val F := .slice (.chars [97, 98, 99]) (.range (.num (.int 0)) (.num (.int 2)))
    compareValsR fo a b = some (.error .state) ∧ Abs.lessThan fo a b = .fls := by
  refine ⟨?_, ?_⟩
  · simp [compareValsR, compareSlicesR, sliceGoR, rangeStartR]
  · simp [Abs.lessThan, cmpOp, compareVals, compareSlices, sliceStart]

/-! ### non-vacuity -/

/-- `0: "abd"   1: "abc"   2: 0   3: 2   4: 1   5: 0..2   6: 1..2   7: slice 0 (0..2)   8: slice 1 (1..2)` -/
def cmpCells : List (RCell F) :=
  [.chars [97, 98, 100], .chars [97, 98, 99], .num (.int 0), .num (.int 2), .num (.int 1), .range 2 3, .range 4 3,
   .slice 0 5, .slice 1 6]

/-- `"abd" < "abc"` on the reference store: hypotheses hold, the handler pushes Abs/Ops' answer -/
example : Pushed (refStore (fun _ => none)) (RefState.init (cmpCells (F := F)) [1, 0, 9])
    (Model.Runtime.lessThan fo (refStore (fun _ => none)) 4 (RefState.init cmpCells [1, 0, 9])) none [9]
    (Abs.lessThan fo (.chars [97, 98, 100]) (.chars [97, 98, 99])) :=
  (C12_refine_less_than_abs fo (refStore_laws _) (vl := .chars [97, 98, 100]) (vr := .chars [97, 98, 99]) rfl
    (.chars rfl rfl) (.chars rfl rfl) (by simp [textLen]) (by simp [textLen]) 4 (by simp [cmpFuel, textLen])
    (C12_compareValsR_agrees fo _ _ (by intro _ _ _ _ h; cases h))).1

/-- the model run: three loop rounds, `false` pushed (address 9) -/
example : ∃ s', Model.Runtime.lessThan fo (refStore (fun _ => none)) 4 (RefState.init (cmpCells (F := F)) [1, 0, 9])
    = .ok (none, s') ∧ s'.regs = [9, 9] ∧ s'.cells = cmpCells ++ [.fls] := ⟨_, rfl, rfl, rfl⟩

/-- too little fuel is reported as such, not as an answer -/
example : Model.Runtime.lessThan fo (refStore (fun _ => none)) 2 (RefState.init (cmpCells (F := F)) [1, 0, 9])
    = .fuelOut := rfl

/-- two slices: `"abd"[0..]` against `"abc"[1..]` compares `a` with `b` first: less -/
example : ∃ s', Model.Runtime.lessThan fo (refStore (fun _ => none)) 4 (RefState.init (cmpCells (F := F)) [8, 7, 9])
    = .ok (none, s') ∧ s'.regs = [9, 9] ∧ s'.cells = cmpCells ++ [.tru] := ⟨_, rfl, rfl, rfl⟩

end Garnish.Props.RuntimeRefine
