/-
C08 — undefined operand combinations yield unit, after offering them to the host.
`Spec.definedBinary / definedUnary / definedApply / definedAccess` (Spec/Defined.lean) say which
combinations the language defines; everything else must be offered to the host exactly once, with the
operation and both operands in source order, and yield unit if the host declines.
-/
import Garnish.Lemmas.Ops
namespace Garnish.Props.C08
open Garnish Gen Garnish.Abs

variable {F : Type} (fo : FloatOps F) (host : Host F)

/-- arithmetic and bitwise operations on anything but two numbers are offered to the host -/
theorem C08_undefined_arith (op : Instruction) (l r : Val F) (hop : Spec.isArith op = true)
    (h : Spec.definedBinary op l.typeOf r.typeOf = false) :
    binaryOp fo op l r = some (.defer op l r) := by
  have hn : ¬ (l.typeOf = .number ∧ r.typeOf = .number) := by
    intro ⟨h1, h2⟩; simp [Spec.definedBinary, hop, h1, h2] at h
  cases op <;> simp [Spec.isArith] at hop <;>
    simp [binaryOp, numOpOf, Lemmas.arithBinary_defer fo _ _ l r hn]

/-- range construction on anything but two numbers is offered to the host -/
theorem C08_undefined_range (op : Instruction) (l r : Val F) (hop : Spec.isRangeOp op = true)
    (h : Spec.definedBinary op l.typeOf r.typeOf = false) :
    binaryOp fo op l r = some (.defer op l r) := by
  have hn : ¬ (l.typeOf = .number ∧ r.typeOf = .number) := by
    intro ⟨h1, h2⟩
    cases op <;> simp [Spec.isRangeOp] at hop <;> simp [Spec.definedBinary, Spec.isArith, Spec.isRangeOp, h1, h2] at h
  cases op <;> simp [Spec.isRangeOp] at hop <;>
    simp [binaryOp, Lemmas.makeRange_defer fo _ _ l r hn, rangeInstr]

/-- access on an undefined pair — including text, bytes and ranges by symbol, whose look-up reports
"unsupported" from the inside — is offered to the host -/
theorem C08_undefined_access (l r : Val F) (h : Spec.definedBinary .access l.typeOf r.typeOf = false) :
    binaryOp fo .access l r = some (.defer .access l r) := by
  have : Spec.definedAccess l.typeOf r.typeOf = false := by
    simpa [Spec.definedBinary, Spec.isArith, Spec.isRangeOp, Spec.isTotalBinary] using h
  simp [binaryOp, Lemmas.access_undefined fo l r this]

/-- apply / empty apply on an undefined pair -/
theorem C08_undefined_apply (l r : Val F) (h : Spec.definedBinary .apply l.typeOf r.typeOf = false) :
    applyKind fo .apply true l r = .out (.defer .apply l r) := by
  have : Spec.definedApply l.typeOf r.typeOf = false := by
    simpa [Spec.definedBinary, Spec.isArith, Spec.isRangeOp, Spec.isTotalBinary] using h
  exact Lemmas.apply_undefined fo true .apply l r this

theorem C08_undefined_emptyApply (l : Val F) (h : Spec.definedUnary .emptyApply l.typeOf = false) :
    applyKind fo .emptyApply false l .unit = .out (.defer .emptyApply l .unit) := by
  apply Lemmas.apply_undefined
  cases l <;> simp [Spec.definedUnary, Val.typeOf] at h <;> simp [Spec.definedApply, Val.typeOf]

/-- unary operations: the host sees the documented unit filler as the right operand -/
theorem C08_undefined_unary (op : Instruction) (v : Val F)
    (hop : op = .opposite ∨ op = .absoluteValue ∨ op = .bitwiseNot ∨ op = .accessLeftInternal ∨
           op = .accessRightInternal ∨ op = .accessLengthInternal)
    (h : Spec.definedUnary op v.typeOf = false) :
    unaryOp fo op v = some (.defer op v .unit) := by
  rcases hop with rfl | rfl | rfl | rfl | rfl | rfl
  · have : v.typeOf ≠ .number := by intro hv; simp [Spec.definedUnary, hv] at h
    simp [unaryOp, numOpOf, Lemmas.arithUnary_defer fo _ _ v this]
  · have : v.typeOf ≠ .number := by intro hv; simp [Spec.definedUnary, hv] at h
    simp [unaryOp, numOpOf, Lemmas.arithUnary_defer fo _ _ v this]
  · have : v.typeOf ≠ .number := by intro hv; simp [Spec.definedUnary, hv] at h
    simp [unaryOp, numOpOf, Lemmas.arithUnary_defer fo _ _ v this]
  · simp [unaryOp, Lemmas.leftInternal_undefined v h]
  · simp [unaryOp, Lemmas.rightInternal_undefined v h]
  · simp [unaryOp, Lemmas.lengthInternal_undefined fo v h]

/-- the protocol of an offer: exactly one host call with (op, left, right); if the host declines
exactly one unit is pushed, if it accepts its value is pushed unchanged; nothing else changes -/
theorem C08_defer_protocol (s : MState F) (op : Instruction) (l r : Val F) :
    pushOut host s (.defer op l r) = .ok { s with
      regs := (match host.defer op l r with | some v => v | none => .unit) :: s.regs,
      trace := HostCall.defer op l r :: s.trace } := by
  simp only [pushOut]; split <;> simp_all

/-- machine level: executing an arithmetic / bitwise / range / access instruction whose operands are an
undefined combination never fails: it performs exactly one offer (recorded in the trace), replaces the
two operands by exactly one result — the host's value unchanged, or unit if it declines — leaves the
input-value stack and the frames alone, and continues with the next instruction -/
theorem C08_step_undefined_binary (P : Prog F) (s : MState F) (op : Instruction) (d : Option Nat)
    (l r : Val F) (rs : List (Val F))
    (hop : Spec.isArith op = true ∨ Spec.isRangeOp op = true ∨ op = .access)
    (hi : P.instrs[s.pc]? = some (op, d)) (hregs : s.regs = r :: l :: rs)
    (h : Spec.definedBinary op l.typeOf r.typeOf = false) :
    step fo host P s = seqNext P s (.ok { s with
      regs := (match host.defer op l r with | some v => v | none => .unit) :: rs,
      trace := HostCall.defer op l r :: s.trace }) := by
  have hb : binaryOp fo op l r = some (.defer op l r) := by
    rcases hop with h1 | h1 | h1
    · exact C08_undefined_arith fo op l r h1 h
    · exact C08_undefined_range fo op l r h1 h
    · subst h1; exact C08_undefined_access fo l r h
  have hu : unaryOp fo op r = none := by
    rcases hop with h1 | h1 | h1 <;> cases op <;> simp_all [Spec.isArith, Spec.isRangeOp, unaryOp]
  have hp := C08_defer_protocol host { s with regs := rs } op l r
  unfold step
  simp only [hi, hregs]
  rcases hop with h1 | h1 | h1 <;> cases op <;> simp [Spec.isArith, Spec.isRangeOp] at h1 <;>
    simp only [hu, hb, hp]

/-! ### non-vacuity: undefined combinations exist and defined ones are not deferred -/
example : Spec.definedBinary .add Ty.number Ty.charList = false := by decide
example : Spec.definedBinary .access Ty.charList Ty.symbol = false := by decide
example : Spec.definedBinary .add Ty.number Ty.number = true := by decide
example : binaryOp (F := F) fo .add (.num (.int 1)) (.chars [97]) = some (.defer .add (.num (.int 1)) (.chars [97])) := rfl

end Garnish.Props.C08
