/-
C19, "nothing stale after `optimize`": after a compaction no cell of the data block, no stack head and no symbol-name
entry holds an address that refers to a dropped location, and every kind of root — register stack, input-value stack,
FRAME chain (the cells `push_frame` writes at a call), extra roots, symbol names — has been re-pointed to the copy of
what it referred to.

Two statements, both corollaries of theorems that exist:
* STRUCTURE (`optimize_no_dangling`, from `optimize_wfq`, Lemmas/MutOptimize.lean — hence on every `BInv` / `BInvL`
  state, in-place updates of the input value included): in the compacted block every link of every readable cell
  — `Register`, `RegisterRoot`, `Value`, `ValueRoot`, `Frame`, `FrameIndex`, `FrameRegister`, pairs, lists with their key
  tables, … — is a readable address BELOW THE NEW CURSOR; a frame cell has its return point in front of it; every link of
  a cell that is not an input-value cell leads downwards; the three heads, the returned roots and the symbol-name entries
  are readable addresses.  A location dropped by the compaction lies at or above the new cursor, so nothing refers to it.
  Side condition `NoStale` (decidable `noStale`; automatic on stores without in-place updates, `noStale_of_wf`): a
  retained input-value cell that refers behind the retention count is on the current chain — a popped cell that was
  updated in place is garbage the compaction never reads, and keeps its old address.
* KIND (`optimize_repoints_kinds`, new: Lemmas/MutTyping.lean): the register head and the `previous` link of every
  register cell lead to register cells, the frame head and the `previous` link of every (readable) frame cell lead to
  frame cells, the registers a frame saved are register cells — after the compaction as before it (the copies carry the
  labels of their originals, the heads are looked up in the map of the copies).  With `optimize_wfq` this is every field
  of `BInv` except `Fits` (room for the next push): `optimize_keeps_binv_shape`.
* MEANING, per root kind (`optimize_repoints_registers` / `_values` / `_frames` / `_roots` / `_symbols`, from
  `C19_optimize_preserves`; `…_inplace` versions from `C19_optimize_preserves_inplace`): what each root reads back —
  the whole unfolding, for a frame: its return point, the registers it saved and the frames below it — is the same
  before and after, for every fuel.  A root that was not re-pointed, or re-pointed to the wrong copy, reads back
  differently: the frame-chain clause is the one the seeded changes C01-h / C06-h violate.
-/
import Garnish.Props.C19StoreOnL
import Garnish.Props.C19
import Garnish.Lemmas.MutStale
import Garnish.Props.C07Reach
import Garnish.Lemmas.MutTyping
namespace Garnish.Props.C19NoStale
open Garnish Garnish.BasicOpt Garnish.Props.C19 Garnish.Model.Runtime.Basic Garnish.Lemmas.Runtime.Basic

/-- no address stored anywhere refers outside the readable cells of the block -/
structure NoDangling (s : Store) : Prop where
  register : ∀ a, s.currentRegister = some a → a < s.cells.size ∧ isNode s.cells a = true
  value : ∀ a, s.currentValue = some a → a < s.cells.size ∧ svAt s.cells a = true
  frame : ∀ a, s.currentFrame = some a → a < s.cells.size ∧ isNode s.cells a = true
  /-- every link of every readable cell is a readable address below the cursor -/
  links : ∀ i sh, shape s.cells i = some sh → ∀ k ∈ sh.kids, k < s.cells.size ∧ isNode s.cells k = true
  /-- links of cells other than input-value cells lead downwards -/
  down : ∀ i sh, shape s.cells i = some sh → svAt s.cells i = false → ∀ k ∈ sh.kids, k < i
  symbols : ∀ c ∈ s.symtab.toList, ∃ sym d, c = .associativeItem sym d ∧ d < s.cells.size ∧ isNode s.cells d = true

theorem noDangling_of_wfq {s : Store} (h : WFq s) : NoDangling s where
  register := fun a ha => by have := h.reg; rw [ha] at this; exact ⟨node_lt this, this⟩
  value := fun a ha => by have := h.val; rw [ha] at this; exact ⟨svAt_lt this, this⟩
  frame := fun a ha => by have := h.frm; rw [ha] at this; exact ⟨node_lt this, this⟩
  links := fun i sh hsh k hk => ⟨node_lt (h.kid_node hsh hk), h.kid_node hsh hk⟩
  down := fun i sh hsh hns k hk => h.kid_lt hsh hns hk
  symbols := fun c hc => by
    have := h.syms c hc
    cases c <;> simp only [symOK] at this <;> try (cases this; done)
    exact ⟨_, _, rfl, node_lt this, this⟩

/-- what `NoDangling` says about a frame cell: both links readable and below it, return point in front -/
theorem NoDangling.frameCell {s : Store} (h : NoDangling s) {i p r : Nat}
    (hc : s.cells[i]? = some (Cell.frame p r)) (hn : isNode s.cells i = true) :
    p < i ∧ r < i ∧ isNode s.cells p = true ∧ isNode s.cells r = true ∧
      ∃ k ret, i = k + 1 ∧ s.cells[k]? = some (Cell.jumpPoint ret) := by
  obtain ⟨sh, hsh⟩ := node_shape' hn
  have hsh' := hsh
  unfold shape at hsh'
  rw [hc] at hsh'
  simp only [Option.map_eq_some_iff] at hsh'
  obtain ⟨jp, _, rfl⟩ := hsh'
  have hns : svAt s.cells i = false := by simp [svAt, hc, isSV]
  refine ⟨h.down i _ hsh hns p (by simp), h.down i _ hsh hns r (by simp), (h.links i _ hsh p (by simp)).2,
    (h.links i _ hsh r (by simp)).2, ?_⟩
  exact frame_point (by simp [isFrameCell, hc]) hn

/-- **optimize_no_dangling**: the compacted block refers to nothing that was dropped -/
theorem optimize_no_dangling {s s' : Store} {roots m : List Nat} (hwf : WFq s) (hroots : rootsOK s roots = true)
    (hns : NoStale s) (h : Store.optimize s roots = .ok (s', m)) :
    NoDangling s' ∧ ∀ r ∈ m, r < s'.cells.size ∧ isNode s'.cells r = true := by
  obtain ⟨hw, hr⟩ := optimize_wfq hwf hroots hns h
  refine ⟨noDangling_of_wfq hw, ?_⟩
  intro r hrm
  simp only [rootsOK, List.all_eq_true] at hr
  exact ⟨node_lt (hr r hrm), hr r hrm⟩

/-- on the states of the store interface -/
theorem optimize_no_dangling_binv {st : BState} {s' : Store} {roots m : List Nat} (hinv : BInv st)
    (hroots : rootsOK st.store roots = true) (hns : noStale st.store = true)
    (h : Store.optimize st.store roots = .ok (s', m)) :
    NoDangling s' ∧ ∀ r ∈ m, r < s'.cells.size ∧ isNode s'.cells r = true :=
  optimize_no_dangling hinv.wfq hroots (noStale_sound hns) h

/-- **optimize_repoints_kinds**: every chain root and chain link is re-pointed to a cell of its own kind -/
theorem optimize_repoints_kinds {s s' : Store} {roots m : List Nat} (hwf : WFq s) (hroots : rootsOK s roots = true)
    (hns : NoStale s) (hty : ChainTyped s) (h : Store.optimize s roots = .ok (s', m)) : ChainTyped s' :=
  optimize_chainTyped hwf hroots hns hty h

/-- on the states of the store interface: after `optimize` the store is `WFq` again, its chains are typed, nothing
dangles, the returned roots are readable -/
theorem optimize_keeps_binv_shape {st : BState} {s' : Store} {roots m : List Nat} (hinv : BInv st)
    (hroots : rootsOK st.store roots = true) (hns : noStale st.store = true)
    (h : Store.optimize st.store roots = .ok (s', m)) :
    WFq s' ∧ ChainTyped s' ∧ NoDangling s' ∧ rootsOK s' m = true := by
  obtain ⟨hw, hr⟩ := optimize_wfq hinv.wfq hroots (noStale_sound hns) h
  exact ⟨hw, optimize_chainTyped hinv.wfq hroots (noStale_sound hns) (chainTyped_of_binv hinv) h,
    noDangling_of_wfq hw, hr⟩

/-! ### every kind of root reads back the same -/

section meaning
variable {s s' : Store} {roots m : List Nat} (hwf : WF s) (hroots : rootsOK s roots = true)
  (h : Store.optimize s roots = .ok (s', m))
include hwf hroots h

theorem optimize_repoints_registers :
    ∀ fuel, decodeStack s.cells fuel s.currentRegister = decodeStack s'.cells fuel s'.currentRegister :=
  (C19_optimize_preserves hwf hroots h).registers

theorem optimize_repoints_values :
    ∀ fuel, decodeStack s.cells fuel s.currentValue = decodeStack s'.cells fuel s'.currentValue :=
  (C19_optimize_preserves hwf hroots h).values

/-- the frame chain: every frame cell pushed by a call, its return point, the registers it saved, the frames below -/
theorem optimize_repoints_frames :
    ∀ fuel, decodeStack s.cells fuel s.currentFrame = decodeStack s'.cells fuel s'.currentFrame :=
  (C19_optimize_preserves hwf hroots h).frames

theorem optimize_repoints_roots : m.length = roots.length ∧ ∀ (k r : Nat), roots[k]? = some r →
    ∃ r', m[k]? = some r' ∧ ∀ fuel, unfold s.cells fuel r = unfold s'.cells fuel r' :=
  ⟨(C19_optimize_preserves hwf hroots h).rootsLen, (C19_optimize_preserves hwf hroots h).roots⟩

theorem optimize_repoints_symbols : ∀ (j sym di : Nat), s.symtab[j]? = some (.associativeItem sym di) →
    ∃ di', s'.symtab[j]? = some (.associativeItem sym di') ∧ ∀ fuel, unfold s.cells fuel di = unfold s'.cells fuel di' :=
  (C19_optimize_preserves hwf hroots h).symbols

/-- and nothing dangles (stores without in-place updates need no side condition) -/
theorem optimize_no_dangling_wf :
    (∀ i sh, shape s'.cells i = some sh → ∀ k ∈ sh.kids, k < i ∧ isNode s'.cells k = true) ∧
    headOK s'.cells s'.currentRegister = true ∧ headOK s'.cells s'.currentValue = true ∧
    headOK s'.cells s'.currentFrame = true ∧ rootsOK s' m = true := by
  obtain ⟨hw, hr⟩ := optimize_wf hwf hroots h
  refine ⟨?_, hw.reg, hw.val, hw.frm, hr⟩
  intro i sh hsh k hk
  have := hw.nodes i (shape_lt hsh)
  simp only [nodeOK, hsh, List.all_eq_true, Bool.and_eq_true, decide_eq_true_eq] at this
  exact this k hk

end meaning

/-- with in-place updates of the input value (`WFv`): the frame chain again -/
theorem optimize_repoints_frames_inplace {s s' : Store} {roots m : List Nat} (hwf : WFv s)
    (hroots : rootsOKv s roots = true) (h : Store.optimize s roots = .ok (s', m)) :
    ∀ fuel, decodeStack s.cells fuel s.currentFrame = decodeStack s'.cells fuel s'.currentFrame :=
  (C19_optimize_preserves_inplace hwf hroots h).frames

/-! ### non-vacuity: a frame on the stack, a garbage cell below it -/

open Garnish.Props.C07Reach in
/-- `1`, a cell that becomes garbage, a register holding `1`, a call frame returning to `7` (cells: return point at 3,
`FrameRegister(2)` at 4), compaction -/
def exFrameOps : List Garnish.Props.C07Reach.Op :=
  [.addValue (.number 1), .addValue (.number 5), .pushRegister 0, .pushFrame 7, .optimize []]

open Garnish.Props.C07Reach in
/-- the compaction drops the garbage cell: the register moves 2 ↦ 1, the frame cell 4 ↦ 3 and its saved-register link is
re-pointed 2 ↦ 1, the frame head is re-pointed 4 ↦ 3, and the interface reads the same frame `(7, [0])` -/
example : (match run (exFrameOps.take 4) Store.fresh, run exFrameOps Store.fresh with
    | .ok s, .ok s' =>
      decide (s.currentFrame = some 4 ∧ s.cells[4]? = some (.frameRegister 2) ∧ s.cells.size = 5) &&
      decide (s'.currentFrame = some 3 ∧ s'.cells[3]? = some (.frameRegister 1) ∧ s'.cells[2]? = some (.jumpPoint 7) ∧
        s'.cells[1]? = some (.registerRoot 0) ∧ s'.currentRegister = some 1 ∧ s'.cells.size = 4) &&
      decide (framesOf s.cells s.currentFrame = [(7, [0])] ∧ framesOf s'.cells s'.currentFrame = [(7, [0])])
    | _, _ => false) = true := by rw [run_eq, run_eq]; decide +kernel

open Garnish.Props.C07Reach in
/-- the theorems apply to it: the store before the compaction is reachable, hence `WF` -/
example : ∀ s s' m, run (exFrameOps.take 4) Store.fresh = .ok s → Store.optimize s [] = .ok (s', m) →
    (∀ fuel, decodeStack s.cells fuel s.currentFrame = decodeStack s'.cells fuel s'.currentFrame) ∧
    headOK s'.cells s'.currentFrame = true :=
  fun s s' m hrun hopt =>
    have hwf := WF_reachable (run_reachable _ .init hrun)
    ⟨optimize_repoints_frames hwf rfl hopt, (optimize_no_dangling_wf hwf rfl hopt).2.2.2.1⟩

open Garnish.Props.C07Reach in
/-- after the compaction of the example the frame head is a frame cell and the register it saved a register cell
(checked by evaluation; `optimize_repoints_kinds` says so for every store) -/
example : (match run exFrameOps Store.fresh with
    | .ok s' => (match s'.currentFrame with
        | some f => isFrameCell s'.cells f && (match s'.cells[f]? with
            | some (.frameRegister r) => isRegCell s'.cells r
            | _ => false)
        | none => false)
    | _ => false) = true := by rw [run_eq]; decide +kernel

end Garnish.Props.C19NoStale
