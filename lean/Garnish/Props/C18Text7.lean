/-
Property C18, TEXT level, part 7: the result corollary for an annotation inserted inside a run of blanks WITHOUT any
hypothesis about the rewritten text (companion of Props/C18Text6.lean): the rewritten token list is a type-preserving map of
the original one (positions behind the run move up by two, the Whitespace token keeps the first part of its text) with the
Annotation token and the second Whitespace token inserted, each after a trivia token (`exFrag_annotation`).
-/
import Garnish.Props.C18Text6
set_option linter.unusedVariables false
namespace Garnish.Props.C18Text7
open Garnish Garnish.Gen Garnish.Spec Garnish.Model Garnish.Model.Lexer Garnish.Model.Parser
open Garnish.Abs Garnish.Abs.Source Garnish.Props.C02Parse Garnish.Props.C18Parse Garnish.Props.C18Text
open Garnish.Props.C18Text4 Garnish.Props.C18Text5 Garnish.Props.C18Text6
open Garnish.Abs.Tree Garnish.Model.Literals Garnish.Model.Build Garnish.Props.C01Build Garnish.Props.C01Source
open Garnish.Props.C02Numbered

/-- positions behind `m` move up by two, the token at `m` gets the text `x1` -/
def bump2 (m : Nat) (x1 : List Char) (x : PToken) : PToken :=
  if x.col < m then x else if x.col = m then { x with text := x1 } else { x with col := x.col + 2 }

theorem bump2_type (m : Nat) (x1 : List Char) (x : PToken) : (bump2 m x1 x).type = x.type := by
  unfold bump2; split
  · rfl
  · split <;> rfl

theorem map_bump2_low (m : Nat) (x1 : List Char) : ∀ (l : List LexerToken) (k : Nat), k + l.length ≤ m →
    (toPFrom k l).map (bump2 m x1) = toPFrom k l
  | [], _, _ => rfl
  | x :: l, k, h => by
    simp only [List.length_cons] at h
    simp only [toPFrom, List.map_cons, map_bump2_low m x1 l (k + 1) (by omega)]
    congr 1
    unfold bump2
    rw [if_pos (by simp; omega)]

theorem map_bump2_high (m : Nat) (x1 : List Char) : ∀ (l : List LexerToken) (k : Nat), m < k →
    (toPFrom k l).map (bump2 m x1) = toPFrom (k + 2) l
  | [], _, _ => rfl
  | x :: l, k, h => by
    simp only [toPFrom, List.map_cons, map_bump2_high m x1 l (k + 1) (by omega)]
    congr 1
    unfold bump2
    rw [if_neg (by simp; omega), if_neg (by simp; omega)]

theorem exFrag_annotation (A rest rest' : List LexerToken) (W W1 ann W2 : LexerToken)
    (hW1 : W1.tokenType = .whitespace) (hann : ann.tokenType = .annotation) (hW2 : W2.tokenType = W.tokenType)
    (hWs : W.tokenType = .whitespace) (hs : SameTT rest rest') (hR : rest ≠ [])
    (h : ExFrag (toP (A ++ W :: rest))) : ExFrag (toP (A ++ W1 :: ann :: W2 :: rest')) := by
  have hm := exFrag_map h (bump2_type A.length W1.text)
  have e1 : (toP (A ++ W :: rest)).map (bump2 A.length W1.text) =
      toP A ++ { text := W1.text, type := W1.tokenType, row := 0, col := 0 + A.length } ::
        toPFrom (0 + A.length + 1 + 1 + 1) rest' := by
    rw [toP_split, List.map_append, toP, map_bump2_low _ _ _ _ (by omega)]
    simp only [toPFrom, List.map_cons, map_bump2_high _ _ _ _ (by omega : A.length < 0 + A.length + 1),
      toPFrom_congr _ rest rest' hs]
    congr 2
    unfold bump2
    rw [if_neg (by simp), if_pos (by simp), hW1, hWs]
  rw [e1] at hm
  have hR' : rest' ≠ [] := by
    intro e
    have := congrArg List.length hs
    simp [e] at this
    exact hR this
  have h1 := exFrag_insert (w := { text := ann.text, type := ann.tokenType, row := 0, col := 0 + A.length + 1 }) hm
    (toPFrom_ne_nil hR') (by show goodTy W1.tokenType = true; rw [hW1]; rfl) (by simp [isTriviaTok, hann])
  have e2 : toP A ++ { text := W1.text, type := W1.tokenType, row := 0, col := 0 + A.length } ::
        { text := ann.text, type := ann.tokenType, row := 0, col := 0 + A.length + 1 } ::
          toPFrom (0 + A.length + 1 + 1 + 1) rest' =
      (toP A ++ [{ text := W1.text, type := W1.tokenType, row := 0, col := 0 + A.length }]) ++
        { text := ann.text, type := ann.tokenType, row := 0, col := 0 + A.length + 1 } ::
          toPFrom (0 + A.length + 1 + 1 + 1) rest' := by simp
  rw [e2] at h1
  have h2 := exFrag_insert (w := { text := W2.text, type := W2.tokenType, row := 0, col := 0 + A.length + 1 + 1 }) h1
    (toPFrom_ne_nil hR') (by show goodTy ann.tokenType = true; rw [hann]; rfl) (by simp [isTriviaTok, hW2, hWs])
  have e3 : toP (A ++ W1 :: ann :: W2 :: rest') =
      (toP A ++ [{ text := W1.text, type := W1.tokenType, row := 0, col := 0 + A.length }]) ++
        { text := ann.text, type := ann.tokenType, row := 0, col := 0 + A.length + 1 } ::
          { text := W2.text, type := W2.tokenType, row := 0, col := 0 + A.length + 1 + 1 } ::
            toPFrom (0 + A.length + 1 + 1 + 1) rest' := by
    rw [toP_split]; simp [toPFrom]
  rw [e3]
  exact h2

variable {F : Type} (pf : List Char → Option F)

/-- **an annotation inside a run of blanks, result**: hypotheses about the ORIGINAL text only (and that the run is a
Whitespace token) -/
theorem C18_text_annotation_result'' (cc : CharClass) (hcc : cc.SaneBlank)
    (hcc2 : cc.Sane2) (hat : cc.SaneAt) (fo : FloatOps F) (host : Host F) (s s' : List Char) (T : List LexerToken)
    (hl : lex cc s = .ok T) (h : TextAnnotation cc s s') (hf : frag9' (toP T) = true)
    (hWs : ∀ T' W, lex cc s' = .ok T' → AnnInserted W T T' → W.tokenType = .whitespace)
    (rt : RTree) (href : refParse Table.gen (toP T) = .ok rt) (p : Program F) (hel : elaborate pf (toP T) rt = some p)
    (hwf : C01.WFProgram p) (input : Val F) (fuel : Nat) (v : Val F) (st : St F)
    (he : evalProgram fo host fuel p input = .ok (v, st)) :
    ∀ src ∈ [s, s'], ∃ d entry, C01Text.buildText pf cc src = .ok (d, entry) ∧
      ∃ n m, run fo host (progOf d) n
          { pc := (progOf d).jumps[entry]?.getD 0, regs := [], vals := [input], frames := [], trace := [] } = (.halted m, n) ∧
        m.vals = [v] ∧ m.regs = [] ∧ m.frames = [] ∧ m.trace = st.trace := by
  have hn : NoTrim (toP T) := frag9_noTrim (frag9'_sub hf)
  obtain ⟨T', W, hl', hins, hrest⟩ := C18_text_annotation_refParse' cc hcc hcc2 hat s s' T hl h hn
  have hW := hWs T' W hl' hins
  obtain ⟨hn', heq⟩ := hrest hW
  rw [href] at heq
  obtain ⟨rt', href', herase⟩ := ok_of_outcomeEq heq
  obtain ⟨A, rest, W1, ann, W2, rest', e1, e2, hW1, hann, hW2, _, _, hs⟩ := hins
  subst e1 e2
  have hel' : elaborate pf (toP (A ++ W1 :: ann :: W2 :: rest')) rt' = some p := by
    rw [C18_text_annotation_elaborate pf A rest rest' W W1 ann W2 hW1 hann hW2 hW hs rt rt' href href' herase hn]
    exact hel
  have hR : rest ≠ [] := by
    intro e
    subst e
    have e3 : toP (A ++ [W]) = toP A ++ { text := W.text, type := W.tokenType, row := 0, col := 0 + A.length } :: [] := by
      rw [toP_split]; rfl
    rw [e3] at hn
    exact (noTrim_sides _ _ _ (by simp [isTrimmable, hW]) hn).2 rfl
  have hfrag := exFrag_annotation A rest rest' W W1 ann W2 hW1 hann hW2 hW hs hR (exFrag_of_frag9' hf)
  intro src hsrc
  simp only [List.mem_cons, List.not_mem_nil, or_false] at hsrc
  rcases hsrc with rfl | rfl
  · exact C01Text.C01_text_correct pf cc fo host _ _ hl hf rt href p hel hwf input fuel v st he
  · exact C01_text_correct_ex pf cc fo host _ _ hl' hfrag rt' href' p hel' hwf input fuel v st he

end Garnish.Props.C18Text7
