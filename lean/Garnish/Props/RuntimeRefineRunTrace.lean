/-
Runtime refinement, part 10 (C17 anchor): the host TRACE along the RUN and from the source TEXT.

`C17_refine_run_trace`: under the hypotheses of `C01_refine_run` and with related traces at the start (`SimT`), the
state in which the address-level loop ends has recorded exactly the machine's trace, call for call (`TraceRel`: same
instruction / symbol / external value, operand types, operand addresses decoding to the machine's operand values):
each `defer_op` / `resolve` / `apply` happens exactly where the machine records one — no more, no fewer, in order.
`C17_text_to_store_trace`: on top of `C01_text_to_store` — from the source text, on any store with the built program
loaded and an empty record, the host calls the STORE records decode to `evalProgram`'s `st.trace`.
-/
import Garnish.Props.RuntimeRefineTrace
import Garnish.Props.RuntimeRefineRun
import Garnish.Props.C01TextStore
set_option linter.unusedSimpArgs false
set_option linter.unusedVariables false
namespace Garnish.Props.RuntimeRefine
open Garnish Gen Garnish.Abs Garnish.Model.Equality Garnish.Model.Runtime Garnish.Lemmas.Runtime

variable {F σ : Type} {S : RStore F σ} {P : Prog F} {host : Host F} (fo : FloatOps F)

/-- the run, with the trace -/
theorem C17_refine_run_trace (L : StoreLawsRun S) (HR : HostRefines S host) (fuel : Nat) (cast : RM σ (Option Nat)) :
    ∀ (n : Nat) (s : σ) (m : MState F), SimT S P s m → Loaded S P s → RunOK fo host P fuel n m →
      ∀ (m' : MState F) (k : Nat), Abs.run fo host P n m = (.halted m', k) →
        ∃ s', executeLoop fo S fuel (fullHandlers fo S fuel cast) n s = .ok ((.end_, k), s') ∧
          SimD S P s' m'.regs m'.vals m'.frames ∧ TraceRel (S.view s') (S.trace s') m'.trace := by
  intro n
  induction n with
  | zero => intro s m _ _ _ m' k h; simp [Abs.run] at h
  | succ n ih =>
    intro s m hsimt hl hok m' k hrun
    obtain ⟨hsim, htr⟩ := hsimt
    obtain ⟨hmach, hnext⟩ := hok
    have both : StepSim fo host S P fuel (fullHandlers fo S fuel cast) s m ∧
        StepTrace fo host S P fuel (fullHandlers fo S fuel cast) s m := by
      cases hf : P.instrs[m.pc]? with
      | none => exact ⟨C01_refine_step_end fo fuel _ hsim hf, C17_refine_step_trace_end fo fuel _ hsim hf⟩
      | some p =>
        obtain ⟨instr, operand⟩ := p
        have hokf := stepOKF_of_machOK fo L hl (hmach instr operand hf)
        exact ⟨C01_refine_step_full fo L.toStoreLaws HR fuel cast hsim hf hokf,
          C17_refine_step_trace fo L.toStoreLaws HR fuel cast hsim hf hokf⟩
    obtain ⟨hstepsim, hsteptr⟩ := both
    have hsteptr := hsteptr htr
    unfold StepSim at hstepsim
    rw [Abs.run] at hrun
    cases hst : Abs.step fo host P m with
    | running m1 =>
      rw [hst] at hstepsim hrun hsteptr
      obtain ⟨s1, h1, hs1, hk1⟩ := hstepsim
      have htr1 := hsteptr _ s1 h1
      simp only [] at hrun
      cases hr : Abs.run fo host P n m1 with
      | mk r k' =>
        rw [hr] at hrun
        simp only [Prod.mk.injEq] at hrun
        obtain ⟨rfl, rfl⟩ := hrun
        obtain ⟨s2, h2, hd2, ht2⟩ := ih s1 m1 ⟨hs1, htr1⟩ (loaded_kept hl hk1) (hnext m1 hst) m' k' hr
        refine ⟨s2, ?_, hd2, ht2⟩
        rw [executeLoop, bind_ok h1]
        simp only []
        rw [bind_ok h2]; rfl
    | halted m1 =>
      rw [hst] at hstepsim hrun hsteptr
      obtain ⟨s1, h1, hd1, hk1⟩ := hstepsim
      have htr1 := hsteptr _ s1 h1
      simp only [Prod.mk.injEq, StepRes.halted.injEq] at hrun
      obtain ⟨rfl, rfl⟩ := hrun
      exact ⟨s1, by rw [executeLoop, bind_ok h1]; rfl, hd1, htr1⟩
    | err e =>
      rw [hst] at hrun
      simp at hrun

/-- how many calls, and which: the two traces have the same length, and an empty machine trace means the store
recorded nothing -/
theorem C17_traceRel_length {view : StoreView F} {t : List HostCall} {t' : List (Abs.HostCall F)}
    (h : TraceRel view t t') : t.length = t'.length := by
  induction h with
  | nil => rfl
  | cons _ _ ih => simp [ih]

/-! ### non-vacuity: `5 + "a"` on the reference store with a declining host — one `defer Add` call on both sides -/

def traceProg : Prog F :=
  { instrs := #[(.put, some 0), (.put, some 1), (.add, none)], jumps := #[],
    consts := #[.num (.int 5), .chars [97]] }

def traceStore : RefState F :=
  { RefState.init [.num (.int 5), .chars [97]] [] with
    instrs := [(.put, some 0), (.put, some 1), (.add, none)], instrLen := 3 }

theorem traceSim0 : SimT (refStore (fun _ => none)) (traceProg (F := F)) traceStore
    { pc := 0, regs := [], vals := [], frames := [], trace := [] } :=
  ⟨⟨rfl, .nil, .nil, .nil, fun i => by simp [refStore, traceStore, traceProg],
    fun j => by simp [refStore, traceStore, traceProg, RefState.init], rfl⟩, .nil⟩

theorem traceLoaded : Loaded (refStore (fun _ => none)) (traceProg (F := F)) traceStore := by
  intro k v hk
  match k with
  | 0 => simp [traceProg] at hk; subst hk; exact .num rfl rfl
  | 1 => simp [traceProg] at hk; subst hk; exact .chars rfl rfl
  | k + 2 => simp [traceProg] at hk

/-- the loop ends after the machine's 3 steps, and the store's record is the machine's trace: ONE call
`defer(Add, (Number, address 0), (CharList, address 1))` against `defer Add 5 "a"` -/
example : ∃ s', executeLoop fo (refStore (fun _ => none)) 0
      (fullHandlers fo (refStore (fun _ => none)) 0 (RM.fail .unsupported)) 3 (traceStore (F := F)) = .ok ((.end_, 3), s') ∧
    TraceRel (refView s'.cells) s'.trace [Abs.HostCall.defer .add (.num (.int 5)) (.chars [97])] := by
  obtain ⟨s', h1, _, htr⟩ := C17_refine_run_trace fo (refStore_lawsRun _) refStore_hostRefines 0 (RM.fail .unsupported) 3
    _ _ traceSim0 traceLoaded
    (C01_runOK_of_static fo 0 (by
      intro i instr operand hi
      match i with
      | 0 => simp [traceProg] at hi; rw [← hi.1]; rfl
      | 1 => simp [traceProg] at hi; rw [← hi.1]; rfl
      | 2 => simp [traceProg] at hi; rw [← hi.1]; rfl
      | i + 3 => simp [traceProg] at hi) 3 _)
    { pc := 3, regs := [.unit], vals := [], frames := [],
      trace := [Abs.HostCall.defer .add (.num (.int 5)) (.chars [97])] } 3 (by rfl)
  exact ⟨s', h1, htr⟩

end Garnish.Props.RuntimeRefine

namespace Garnish.Props.C01TextStore
open Garnish Garnish.Gen Garnish.Spec Garnish.Abs Garnish.Abs.Tree Garnish.Abs.Source Garnish.Model Garnish.Model.Parser
open Garnish.Model.Lexer Garnish.Model.Literals Garnish.Model.Build Garnish.Props.C01Build Garnish.Props.C01Source
open Garnish.Props.C02Numbered Garnish.Props.C01Text
open Garnish.Model.Equality Garnish.Model.Runtime Garnish.Lemmas.Runtime Garnish.Props.RuntimeRefine

variable {F σ : Type} (pf : List Char → Option F) (cc : CharClass)

/-- **characters → store, with the host calls**: as `C01_text_to_store`, and the calls the store has recorded at the
end decode, call for call and in order, to the trace `evalProgram` assigns to the text's program -/
theorem C17_text_to_store_trace {S : RStore F σ} (L : StoreLawsRun S) (fo : FloatOps F) (host : Host F)
    (HR : HostRefines S host) (loopFuel : Nat) (cast : RM σ (Option Nat))
    (s : List Char) (toks : List LexerToken)
    (hlex : lex cc s = .ok toks) (hf : frag9' (toP toks) = true) (rt : RTree)
    (href : refParse Table.gen (toP toks) = .ok rt) (p : Program F) (hel : elaborate pf (toP toks) rt = some p)
    (hwf : C01.WFProgram p) (input : Val F) (fuel : Nat) (v : Val F) (st : St F)
    (h : evalProgram fo host fuel p input = .ok (v, st)) :
    ∃ d entry n, buildText pf cc s = .ok (d, entry) ∧
      ∀ s0 : σ, ProgramLoaded S (progOf d) ((progOf d).jumps[entry]?.getD 0) s0 input → S.trace s0 = [] →
        RunOK fo host (progOf d) loopFuel n
          { pc := (progOf d).jumps[entry]?.getD 0, regs := [], vals := [input], frames := [], trace := [] } →
        ∃ s' a, executeLoop fo S loopFuel (fullHandlers fo S loopFuel cast) n s0 = .ok ((.end_, n), s') ∧
          S.vals s' = [a] ∧ Decodes (S.view s') a v ∧ TraceRel (S.view s') (S.trace s') st.trace := by
  obtain ⟨d, entry, hb, n, m, hrun, hv, hr, hfr, htrace⟩ :=
    C01_text_correct pf cc fo host s toks hlex hf rt href p hel hwf input fuel v st h
  refine ⟨d, entry, n, hb, fun s0 hload ht0 hok => ?_⟩
  obtain ⟨s', h1, hd, htr⟩ := C17_refine_run_trace fo L HR loopFuel cast n s0 _
    ⟨hload.sim, by rw [ht0]; exact .nil⟩ hload.consts hok m n hrun
  have hvals := hd.vals
  rw [hv] at hvals
  obtain ⟨a, as, e1, da, t⟩ := decodesList_cons_inv hvals
  have has : as = [] := by cases t; rfl
  exact ⟨s', a, h1, by rw [e1, has], da, htrace ▸ htr⟩

end Garnish.Props.C01TextStore
