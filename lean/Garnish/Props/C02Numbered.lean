/-
C02 / C01: the numbering of the parser's result, and the source theorems of C01 without the `WellNumbered` hypothesis.

`WellNumbered toks r t` (Lemmas/SourceRep7.lean) = (inord) the in-order walk of the tree is `0, 1, …, nodes.size - 1`,
(linked) every node carries the text of the token at its position, (brackets) a `( )` / `{ }` node has no left child.

  C02_parse_linked / C02_parse_brackets   hold for EVERY token list (`parse` ok, positions numbered): general invariants of
                                          the parser model (Lemmas/ParseNumbered2.lean).
  C02_parse_inorder_range                 holds on `frag9'` = the lists of `frag9` without a trailing blank line before a
                                          `}` (`Spec.frag9N`: decided on the syntax tree of the recogniser, `Ex.garb = 0`).
                                          In general `t.inorder.length + garb = nodes.size` where `garb` counts those blank
                                          lines (`Spec.parse_ex_numbered`): the parser pushes a Subexpression node for each
                                          and unlinks it again at the `}`; the node stays in the array.
  C02_parse_wellNumbered                  the three together on `frag9'`.
  C02_trailing_blank_not_numbered         the witness for the excluded shape: `{ a <blank line> }` is in `frag9`, parses to a
                                          proper tree with 2 nodes, and the node array has 3 entries.
  C01_source_build / C01_source_correct   tokens → parser → builder (→ machine) for the lists of `frag9'`, no hypothesis
                                          about the parser's result left.
-/
import Garnish.Lemmas.ParseNumbered3
import Garnish.Props.C01Source
namespace Garnish.Props.C02Numbered
open Garnish Garnish.Gen Garnish.Spec Garnish.Abs Garnish.Abs.Tree Garnish.Abs.Source Garnish.Model.Parser
open Garnish.Model.Literals Garnish.Model.Build Garnish.Props.C01Build Garnish.Props.C01Source

/-- `frag9` without a trailing blank line before a `}` -/
def frag9' (toks : List PToken) : Bool := Spec.frag9N toks

theorem frag9'_sub {toks : List PToken} (h : frag9' toks = true) : C02Parse.frag9 toks = true := by
  unfold frag9' Spec.frag9N at h
  unfold C02Parse.frag9 frag8
  rcases Bool.or_eq_true _ _ |>.mp h with h | h
  · rw [fragFN_sub h]; rfl
  · rw [fragTCN_sub h]; simp

/-- **every token list**: a node carries the text of the token at its position -/
theorem C02_parse_linked (toks : List PToken) (hnum : NumberedFrom 0 toks) (r : ParseResult) (hp : parse toks = .ok r) :
    Linked toks r.nodes := by
  intro i n hn
  have := (parse_nodes_facts hnum hp i n hn).1
  simp only [textAt, tokPos, this]

theorem bracketsOK_of_nodes {nodes : Array ParseNode}
    (hb : ∀ (i : Nat) (n : ParseNode), nodes[i]? = some n → Num.isBr n.definition = true → n.left = none)
    {p link : Option Nat} {t : Spec.Tree} (h : IsTreeAt nodes p link t) : bracketsOK (dfOf nodes) t = true := by
  induction h with
  | nil => rfl
  | node p i n l rt hn hp' hl hr ihl ihr =>
    simp only [bracketsOK, ihl, ihr, Bool.and_true]
    split
    · rename_i hbr
      have hd : dfOf nodes i = n.definition := by simp [dfOf, hn]
      rw [hd] at hbr
      have := hb i n hn hbr
      rw [this] at hl
      cases hl
      rfl
    · rfl

/-- **every token list**: in the tree of the result a `( )` / `{ }` node has no left child -/
theorem C02_parse_brackets (toks : List PToken) (hnum : NumberedFrom 0 toks) (r : ParseResult) (t : Spec.Tree)
    (hp : parse toks = .ok r) (ht : toTree r = some t) : bracketsOK (dfOf r.nodes) t = true :=
  bracketsOK_of_nodes (fun i n hn => (parse_nodes_facts hnum hp i n hn).2) ((toTree_some_iff r t).mp ht).1

/-- **`frag9'`**: the nodes are numbered in in-order and all of them are in the tree -/
theorem C02_parse_inorder_range (toks : List PToken) (hf : frag9' toks = true) (hnum : NumberedFrom 0 toks)
    (r : ParseResult) (t : Spec.Tree) (hp : parse toks = .ok r) (ht : toTree r = some t) :
    t.inorder = List.range r.nodes.size := parse_inorder_range hf hnum hp ht

/-- **the parser's result is well numbered** on `frag9'` -/
theorem C02_parse_wellNumbered (toks : List PToken) (hf : frag9' toks = true) (hnum : NumberedFrom 0 toks)
    (r : ParseResult) (t : Spec.Tree) (hp : parse toks = .ok r) (ht : toTree r = some t) : WellNumbered toks r t :=
  ⟨C02_parse_inorder_range toks hf hnum r t hp ht, C02_parse_linked toks hnum r hp, C02_parse_brackets toks hnum r t hp ht⟩

/-! ### the excluded shape -/

open Garnish.Props.C02Parse (tk)

/-- `{ a <blank line> }` -/
def exTrailBlank : List PToken :=
  [tk .startExpression "{" 0, tk .identifier "a" 1, tk .subexpression "\n\n" 2, tk .endExpression "}" 3]

/-- the list is in `frag9` (not in `frag9'`), the parser accepts it and its result is a proper tree with 2 nodes — but the
    node array has 3 entries: the unlinked Subexpression node (index 2) stays behind -/
theorem C02_trailing_blank_not_numbered :
    C02Parse.frag9 exTrailBlank = true ∧ frag9' exTrailBlank = false ∧
    (match parse exTrailBlank with
     | .ok r => ((toTree r).map (·.inorder), r.nodes.size, r.nodes[2]?.map (fun (n : ParseNode) => n.definition))
     | _ => (none, 0, none)) = (some [0, 1], 3, some Definition.subexpression) := by
  refine ⟨by decide, by decide, by decide⟩

/-! ### C01 from the source, unconditional on `frag9'` -/

variable {F : Type} (pf : List Char → Option F)

/-- **tokens → builder**: for every token list of `frag9'` whose reference tree elaborates to the program `p`, `build` on
    the parser's output produces exactly `compile p` -/
theorem C01_source_build (toks : List PToken) (hf : frag9' toks = true) (hnum : NumberedFrom 0 toks)
    (rt : RTree) (href : refParse Table.gen toks = .ok rt) (p : Program F) (hel : elaborate pf toks rt = some p)
    (hcomplete : (compileState Prog.empty p).pending = []) :
    ∃ r d, parse toks = .ok r ∧ build pf (defaultFuel r.nodes.size) r.root r.nodes BState.empty = .ok (d, 0) ∧
      d.instrs = (compile p).instrs ∧ d.jumps = (compile p).jumps ∧ d.consts = (compile p).consts :=
  C01_source_build_partial pf toks (frag9'_sub hf) hnum rt href p hel hcomplete
    (fun r t hp ht => C02_parse_wellNumbered toks hf hnum r t hp ht)

/-- **tokens → machine**: … and the built object, run on the value-level machine, computes what the elaborated program
    means -/
theorem C01_source_correct (fo : FloatOps F) (host : Host F) (toks : List PToken) (hf : frag9' toks = true)
    (hnum : NumberedFrom 0 toks) (rt : RTree) (href : refParse Table.gen toks = .ok rt)
    (p : Program F) (hel : elaborate pf toks rt = some p) (hwf : C01.WFProgram p)
    (input : Val F) (fuel : Nat) (v : Val F) (st : St F) (h : evalProgram fo host fuel p input = .ok (v, st)) :
    ∃ r d entry, parse toks = .ok r ∧ build pf (defaultFuel r.nodes.size) r.root r.nodes BState.empty = .ok (d, entry) ∧
      ∃ n s, run fo host (progOf d) n
          { pc := (progOf d).jumps[entry]?.getD 0, regs := [], vals := [input], frames := [], trace := [] } = (.halted s, n) ∧
        s.vals = [v] ∧ s.regs = [] ∧ s.frames = [] ∧ s.trace = st.trace :=
  C01_source_correct_partial pf fo host toks (frag9'_sub hf) hnum rt href p hel hwf
    (fun r t hp ht => C02_parse_wellNumbered toks hf hnum r t hp ht) input fuel v st h

/-! ### non-vacuity: the examples of Props/C01Source.lean, now without evaluating `wellNumbered` -/

theorem exCond_frag' : frag9' exCond = true := by decide
theorem exNested_frag' : frag9' exNested = true := by decide
theorem exItems_frag' : frag9' exItems = true := by decide

example : ∃ r d, parse exCond = .ok r ∧ build noFloat (defaultFuel r.nodes.size) r.root r.nodes BState.empty = .ok (d, 0) ∧
    d.instrs = (compile progCond).instrs ∧ d.jumps = (compile progCond).jumps ∧ d.consts = (compile progCond).consts :=
  C01_source_build noFloat exCond exCond_frag' exCond_num _ exCond_ref progCond exCond_elab (by rfl)

example (fo : FloatOps Float) (host : Host Float) :
    ∃ r d entry, parse exCond = .ok r ∧
      build noFloat (defaultFuel r.nodes.size) r.root r.nodes BState.empty = .ok (d, entry) ∧
      ∃ n s, run fo host (progOf d) n
          { pc := (progOf d).jumps[entry]?.getD 0, regs := [], vals := [.tru], frames := [], trace := [] } = (.halted s, n) ∧
        s.vals = [.num (.int 1)] ∧ s.regs = [] ∧ s.frames = [] ∧ s.trace = [] :=
  C01_source_correct noFloat fo host exCond exCond_frag' exCond_num _ exCond_ref progCond exCond_elab progCond_wf
    .tru 5 _ _ (progCond_meaning fo host)

example : ∃ r d, parse exNested = .ok r ∧
    build noFloat (defaultFuel r.nodes.size) r.root r.nodes BState.empty = .ok (d, 0) ∧
    d.instrs = (compile progNested).instrs ∧ d.jumps = (compile progNested).jumps ∧ d.consts = (compile progNested).consts :=
  C01_source_build noFloat exNested exNested_frag' (by simp [exNested, NumberedFrom, tk]) _ exNested_ref progNested
    exNested_elab (by rfl)

example : ∃ r d, parse exItems = .ok r ∧
    build noFloat (defaultFuel r.nodes.size) r.root r.nodes BState.empty = .ok (d, 0) ∧
    d.instrs = (compile progItems).instrs ∧ d.jumps = (compile progItems).jumps ∧ d.consts = (compile progItems).consts :=
  C01_source_build noFloat exItems exItems_frag' (by simp [exItems, NumberedFrom, tk]) _ exItems_ref progItems
    exItems_elab (by rfl)

/-- the well-numbering theorem itself on a list with every feature of the fragment except the excluded one
    (`C02Parse.ex9`: leading / trailing commas, infix identifier, list, group, nested expression) -/
example : ∀ r t, parse C02Parse.ex9 = .ok r → toTree r = some t → WellNumbered C02Parse.ex9 r t :=
  fun r t => C02_parse_wellNumbered C02Parse.ex9 (by decide) (by simp [C02Parse.ex9, NumberedFrom, tk]) r t

end Garnish.Props.C02Numbered
