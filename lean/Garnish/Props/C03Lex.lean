/-
Property C03, front-end half: the Symbol / ByteList tokens the lexer returns have the shape the builder relies on
(`C03_lex_tokens_shaped`, Lemmas/LexerShape.lean), the parser copies tokens into nodes unchanged
(`C03_parse_copies_tokens`, Lemmas/ParserTokens.lean); together `C03_front_end_shape`, which discharges the side
condition `NodesShaped` of `C03_build_total` and gives the unconditional `C03_pipeline_total_unconditional`.
-/
import Garnish.Props.C03
import Garnish.Lemmas.LexerShape
import Garnish.Lemmas.ParserTokens
namespace Garnish.Props.C03Lex
open Garnish Garnish.Model.Lexer Garnish.Model.Parser Garnish.Props.C03

/-- lexer half: for every input and every sane character classification, a token of type Symbol has a text
`':' :: rest`, and a token of type ByteList has a text `q` quotes ++ body ++ `q` quotes with `1 ≤ q` and a body that
does not start with a quote -/
theorem C03_lex_tokens_shaped (cc : CharClass) (hcc : cc.Sane) (s : List Char) (toks : List LexerToken)
    (h : lex cc s = .ok toks) (t : LexerToken) (ht : t ∈ toks) :
    (t.tokenType = .symbol → ∃ rest, t.text = ':' :: rest) ∧
    (t.tokenType = .byteList → ∃ (q : Nat) (body : List Char), 1 ≤ q ∧
      t.text = List.replicate q '\'' ++ body ++ List.replicate q '\'' ∧ ∀ c, body.head? = some c → c ≠ '\'') :=
  lex_tokens_shaped cc hcc s toks h t ht

/-- parser half: for arbitrary properties `S`, `B` of tokens — if every input token of type Symbol has `S` and every
input token of type ByteList has `B`, then in the parse result every node with definition Symbol carries a token with
`S` and every node with definition ByteList a token with `B` (nodes get their token from `pushNode`, with a definition
derived from the token type; all later writes touch only `parent` / `left` / `right`) -/
theorem C03_parse_copies_tokens (S B : PToken → Prop) (tokens : List PToken)
    (ht : ∀ t ∈ tokens, (t.type = .symbol → S t) ∧ (t.type = .byteList → B t)) (r : ParseResult)
    (h : parse tokens = .ok r) (i : Nat) (pn : ParseNode) (hpn : r.nodes[i]? = some pn) :
    (pn.definition = .symbol → S pn.lexToken) ∧ (pn.definition = .byteList → B pn.lexToken) := by
  have := parse_good S B tokens ht
  rw [h] at this
  exact this i pn hpn

/-- the front-end shape fact that `C03_pipeline_total` assumed -/
theorem C03_front_end_shape : C03_front_end_shape_statement := by
  intro cc hcc s toks r hlex hparse i pn hpn
  have hgood := C03_parse_copies_tokens
    (fun t => ∃ rest, t.text = ':' :: rest)
    (fun t => ∃ (q : Nat) (body : List Char),
      t.text = List.replicate q '\'' ++ body ++ List.replicate q '\'' ∧ (∀ c, body.head? = some c → c ≠ '\''))
    (toks.map toPToken)
    (by
      intro pt hpt
      simp only [List.mem_map] at hpt
      obtain ⟨t, ht, rfl⟩ := hpt
      have hs := C03_lex_tokens_shaped cc hcc s toks hlex t ht
      refine ⟨fun h => hs.1 h, fun h => ?_⟩
      obtain ⟨q, body, _, h1, h2⟩ := hs.2 h
      exact ⟨q, body, h1, h2⟩)
    r hparse i pn hpn
  exact ⟨hgood.1, hgood.2⟩

/-- C03 on the models without any side condition: for every string each of `lex`, `parse`, `build` returns `ok` or
`err` (never `panic`, never `fuelOut`) -/
theorem C03_pipeline_total_unconditional {F : Type} : C03_pipeline_total_statement F :=
  C03_pipeline_total_of_shape C03_front_end_shape

/-- non-vacuity: `:ab '1 2' '''x'y'''` lexes, and its Symbol / ByteList tokens have the stated shapes -/
example : (match lex rustTables [':', 'a', 'b', ' ', '\'', '1', ' ', '2', '\'', ' ', '\'', '\'', '\'', 'x', '\'', 'y', '\'', '\'', '\''] with
    | .ok toks => toks.map (fun t => (t.tokenType, t.text))
    | _ => []) =
    [(.symbol, [':', 'a', 'b']), (.whitespace, [' ']), (.byteList, ['\'', '1', ' ', '2', '\'']), (.whitespace, [' ']),
     (.byteList, ['\'', '\'', '\'', 'x', '\'', 'y', '\'', '\'', '\''])] := by
  decide +kernel

end Garnish.Props.C03Lex
