/-
C01 over `StoreLawsOnL` (Lemmas/RuntimeOnL2.lean): one step and the run, and the run on BasicGarnishData for
programs of covered instructions and `MakeList` (the latter from the list law `ListPopLawOn`, a hypothesis on Basic).
-/
import Garnish.Props.C01RefineBasic
set_option linter.unusedVariables false
namespace Garnish.Props.RuntimeRefine
open Garnish Gen Garnish.Abs Garnish.Model.Equality Garnish.Model.Runtime Garnish.Model.Runtime.Basic
open Garnish.Lemmas.Runtime Garnish.Lemmas.Runtime.On Garnish.Lemmas.Runtime.OnL
open Garnish.Props.C19StoreOn Garnish.Props.C19ListOn

variable {F σ : Type} {S : RStore F σ} {Inv : σ → Prop} {Rd : σ → Nat → Prop} {P : Prog F} {host : Host F}
  (fo : FloatOps F)

/-- ONE STEP over `StoreLawsOnL` -/
theorem C01_refine_step_onL (C : StoreLawsOnL S Inv Rd) (HR : HostRefinesI S Inv host) (fuel : Nat)
    (cast : RM σ (Option Nat)) {s : σ} {m : MState F} (hsim : Sim S P s m) (hi : Inv s) (hl : Loaded S P s)
    {instr : Instruction} {operand : Option Nat} (hfetch : P.instrs[m.pc]? = some (instr, operand))
    (hok : MachOKOnL fo S Inv P fuel m instr operand) :
    StepSimOn fo host S Inv P fuel (fullHandlers fo S fuel cast) s m :=
  refine_step_onL fo C HR fuel cast hsim hi hl hfetch hok

/-- MULTI-STEP over `StoreLawsOnL` -/
theorem C01_refine_run_onL (C : StoreLawsOnL S Inv Rd) (HR : HostRefinesI S Inv host) (fuel : Nat)
    (cast : RM σ (Option Nat)) (n : Nat) {s : σ} {m : MState F} (hsim : Sim S P s m) (hi : Inv s)
    (hl : Loaded S P s) (hok : RunOKG fo (MachOKOnL fo S Inv P fuel) host P n m) {m' : MState F} {k : Nat}
    (hrun : Abs.run fo host P n m = (.halted m', k)) :
    ∃ s', executeLoop fo S fuel (fullHandlers fo S fuel cast) n s = .ok ((.end_, k), s') ∧
      SimD S P s' m'.regs m'.vals m'.frames ∧ DecKept S s s' ∧ Inv s' :=
  executeLoop_spec_gen fo (MachOKOnL fo S Inv P fuel) fuel _
    (fun s m instr operand hs hi hl hf hk => refine_step_onL fo C HR fuel cast hs hi hl hf hk) n s m hsim hi hl hok m' k
    hrun

/-- the run on BasicGarnishData -/
theorem C01_refine_run_on_basic (nc : NumCode F) (LP : ListPopLawOn (basicRStore nc) BInvL)
    (HR : HostRefinesI (basicRStore nc) BInvL host) (fuel : Nat) (cast : RM BState (Option Nat)) (n : Nat)
    {s : BState} {m : MState F} (hsim : Sim (basicRStore nc) P s m) (hi : BInvL s)
    (hl : Loaded (basicRStore nc) P s)
    (hok : RunOKG fo (MachOKOnL fo (basicRStore nc) BInvL P fuel) host P n m) {m' : MState F} {k : Nat}
    (hrun : Abs.run fo host P n m = (.halted m', k)) :
    ∃ s', executeLoop fo (basicRStore nc) fuel (fullHandlers fo (basicRStore nc) fuel cast) n s = .ok ((.end_, k), s') ∧
      SimD (basicRStore nc) P s' m'.regs m'.vals m'.frames ∧ DecKept (basicRStore nc) s s' ∧ BInvL s' :=
  C01_refine_run_onL fo (basic_storeLawsOnL nc LP) HR fuel cast n hsim hi hl hok hrun

end Garnish.Props.RuntimeRefine
