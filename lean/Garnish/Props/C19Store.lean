/-
`BasicGarnishData` satisfies the runtime's store contract (`StoreLaws`, Model/Runtime/Store.lean) on the states its
interface operations reach — the core part: read-only getters, value adders, instruction cursor, host extension
points, register stack, input-value stack.

`StoreLaws` quantifies over ALL states of the abstract store; a `BasicGarnishData` heap satisfies the contract only
where its layout invariant holds, so the laws are stated relative to an invariant `Inv` that every law also
re-establishes (`CoreLawsOn`): `BInv` = `WFq` (Lemmas/MutWF.lean) + `Fits` (a cell of room under a growing policy)
+ typed register chain + saved registers of frames exist; `binv_init` holds of the fresh store.

Where the Basic law differs from `StoreLaws`:
* `push_register` / `push_value_stack`: the address pushed must be readable (`isNode`); `StoreLaws` allows any number.
  Every address the handlers push is the result of an adder or a getter, hence readable.
* every adder is stated with `Inv` before and after (allocation cannot fail under `Fits`; `StoreLaws` assumes it).
Not in the core (open): `set_current_value`, `push_frame` / `pop_frame`, `merge_to_symbol_list`, the list protocol
(`start_list(n)` / `add_to_list` / `end_list` — Basic's announced-length protocol cannot satisfy
`StoreLaws.addToList`, which lets any number of items follow `start_list`), `get_list_item_with_symbol` (Basic
searches the sorted key table: the FIRST match of `StoreLaws.listSym` needs distinct keys or the stability of the
sort), and the converse of `decodes_of_unfold` (a `Decodes` fact does not say that the key table of a list is complete
and that its targets are values: it needs `headerOK` and an invariant on the targets).
-/
import Garnish.Lemmas.BasicLaws4
import Garnish.Lemmas.BasicDecode
namespace Garnish.Props.C19Store
open Garnish Gen Garnish.Model.Equality Garnish.Model.Runtime Garnish.Model.Runtime.Basic Garnish.BasicOpt
open Garnish.Lemmas.Runtime.Basic

variable {F σ : Type}

/-- contract of an adder relative to an invariant -/
def AddsOn (S : RStore F σ) (Inv : σ → Prop) (m : RM σ Nat) (s : σ) (v : Val F) : Prop :=
  ∃ a s', m s = .ok (a, s') ∧ Decodes (S.view s') a v ∧ Eff S s s' (S.regs s) (S.vals s) ∧ Inv s'

/-- the core of `StoreLaws`, on the states satisfying `Inv`; `Readable s a` = what may be pushed on a stack -/
structure CoreLawsOn (S : RStore F σ) (Inv : σ → Prop) (Readable : σ → Nat → Prop) : Prop where
  rangeTyped : ∀ s a p, (S.view s).range a = some p → (S.view s).typeOf a = some .range
  listIdx : ∀ s, Indexes (S.listLen s) (S.listItem s) (S.view s).listItems
  charIdx : ∀ s, Indexes (S.charLen s) (S.charItem s) (S.view s).chars
  byteIdx : ∀ s, Indexes (S.byteLen s) (S.byteItem s) (S.view s).bytes
  symIdx : ∀ s, Indexes (S.symLen s) (S.symItem s) (S.view s).symList
  addUnit : ∀ s, Inv s → AddsOn S Inv S.addUnit s .unit
  addTrue : ∀ s, Inv s → AddsOn S Inv S.addTrue s .tru
  addFalse : ∀ s, Inv s → AddsOn S Inv S.addFalse s .fls
  addNumber : ∀ n s, Inv s → AddsOn S Inv (S.addNumber n) s (.num n)
  addType : ∀ t s, Inv s → AddsOn S Inv (S.addType t) s (.type t)
  addChar : ∀ c s, Inv s → AddsOn S Inv (S.addChar c) s (.char c)
  addByte : ∀ b s, Inv s → AddsOn S Inv (S.addByte b) s (.byte b)
  addSymbol : ∀ y s, Inv s → AddsOn S Inv (S.addSymbol y) s (.sym y)
  addPair : ∀ l r vl vr s, Inv s → Decodes (S.view s) l vl → Decodes (S.view s) r vr →
    AddsOn S Inv (S.addPair (l, r)) s (.pair vl vr)
  addConcatenation : ∀ l r vl vr s, Inv s → Decodes (S.view s) l vl → Decodes (S.view s) r vr →
    AddsOn S Inv (S.addConcatenation l r) s (.concat vl vr)
  addRange : ∀ l r vl vr s, Inv s → Decodes (S.view s) l vl → Decodes (S.view s) r vr →
    AddsOn S Inv (S.addRange l r) s (.range vl vr)
  addSlice : ∀ l r vl vr s, Inv s → Decodes (S.view s) l vl → Decodes (S.view s) r vr →
    AddsOn S Inv (S.addSlice l r) s (.slice vl vr)
  addPartial : ∀ l r vl vr s, Inv s → Decodes (S.view s) l vl → Decodes (S.view s) r vr →
    AddsOn S Inv (S.addPartial l r) s (.part vl vr)
  /-- a decodable address may be pushed -/
  readable : ∀ s a v, Inv s → Decodes (S.view s) a v → Readable s a
  pushRegister : ∀ a s, Inv s → Readable s a →
    ∃ s', S.pushRegister a s = .ok ((), s') ∧ Eff S s s' (a :: S.regs s) (S.vals s) ∧ Inv s'
  popRegisterNil : ∀ s, Inv s → S.regs s = [] →
    ∃ s', S.popRegister s = .ok (none, s') ∧ Eff S s s' [] (S.vals s) ∧ Inv s'
  popRegisterCons : ∀ s a rest, Inv s → S.regs s = a :: rest →
    ∃ s', S.popRegister s = .ok (some a, s') ∧ Eff S s s' rest (S.vals s) ∧ Inv s'
  pushValueStack : ∀ a s, Inv s → Readable s a →
    ∃ s', S.pushValueStack a s = .ok ((), s') ∧ Eff S s s' (S.regs s) (a :: S.vals s) ∧ Inv s'
  popValueStackNil : ∀ s, Inv s → S.vals s = [] →
    ∃ s', S.popValueStack s = .ok (none, s') ∧ Eff S s s' (S.regs s) [] ∧ Inv s'
  popValueStackCons : ∀ s a rest, Inv s → S.vals s = a :: rest →
    ∃ s', S.popValueStack s = .ok (some a, s') ∧ Eff S s s' (S.regs s) rest ∧ Inv s'
  setCursor : ∀ n s, ∃ s', S.setInstructionCursor n s = .ok ((), s') ∧ S.cursor s' = n ∧
    (∀ a v, Decodes (S.view s) a v → Decodes (S.view s') a v) ∧ S.jumpTable s' = S.jumpTable s ∧
    S.instrLen s' = S.instrLen s ∧ S.instruction s' = S.instruction s ∧ S.dataLen s' = S.dataLen s ∧
    S.regs s' = S.regs s ∧ S.vals s' = S.vals s ∧ S.trace s' = S.trace s ∧ S.frames s' = S.frames s ∧
    (Inv s → Inv s')
  deferOp : ∀ op l r, Records S (S.deferOp op l r) (.defer op l r)
  resolve : ∀ y, Records S (S.resolve y) (.resolve y)
  apply : ∀ e a, Records S (S.apply e a) (.apply e a)

/-- **basicStore_laws_core**: `BasicGarnishData` satisfies the core of the store contract on `BInv` states -/
theorem basicStore_laws_core (nc : NumCode F) :
    CoreLawsOn (basicRStore nc) BInv (fun st a => isNode st.store.cells a = true) where
  rangeTyped := fun st a p h => rangeTyped_law nc st a p h
  listIdx := fun st => list_indexes _
  charIdx := fun st => seq_indexes _
  byteIdx := fun st => seq_indexes _
  symIdx := fun st => seq_indexes _
  addUnit := fun _ h => addUnit_law nc h
  addTrue := fun _ h => addTrue_law nc h
  addFalse := fun _ h => addFalse_law nc h
  addNumber := fun n _ h => addNumber_law nc h n
  addType := fun t _ h => addType_law nc h t
  addChar := fun c _ h => addChar_law nc h c
  addByte := fun b _ h => addByte_law nc h b
  addSymbol := fun y _ h => addSymbol_law nc h y
  addPair := fun _ _ _ _ _ h hl hr => addPair_law nc h hl hr
  addConcatenation := fun _ _ _ _ _ h hl hr => addConcatenation_law nc h hl hr
  addRange := fun _ _ _ _ _ h hl hr => addRange_law nc h hl hr
  addSlice := fun _ _ _ _ _ h hl hr => addSlice_law nc h hl hr
  addPartial := fun _ _ _ _ _ h hl hr => addPartial_law nc h hl hr
  readable := fun _ _ _ h hd => (decodes_node h.wfq hd).2
  pushRegister := fun _ _ h ha => pushRegister_law nc h ha
  popRegisterNil := fun _ h hn => (popRegister_law nc h).1 hn
  popRegisterCons := fun _ a rest h hc => (popRegister_law nc h).2 a rest hc
  pushValueStack := fun _ _ h ha => pushValue_law nc h ha
  popValueStackNil := fun _ h hn => (popValue_law nc h).1 hn
  popValueStackCons := fun _ a rest h hc => (popValue_law nc h).2 a rest hc
  setCursor := fun n st => setCursor_law nc n st
  deferOp := fun op l r => records_law nc _
  resolve := fun y => records_law nc _
  apply := fun e a => records_law nc _

/-- **decodes_of_unfold**: on every `WFq` store (in particular every `Reachable` / `ReachableV` store of Props/C19 and
Props/C07ReachV), whatever the structural read-back `decode` of Store/BasicCells.lean — the function the C19 theorems
are about — yields at an address, the address `Decodes` to it in the sense of Model/Equality.lean -/
theorem decodes_of_unfold (numOf : Nat → Number F) {s : Store} (hwf : WFq s) (fuel a : Nat) (v : Val F)
    (h : decode numOf s.cells fuel a = some v) : Decodes (basicView numOf s.cells) a v :=
  decodes_of_decode_wfq numOf hwf fuel a v h

/-- the invariant holds of `BasicGarnishData::new()` -/
theorem basicStore_init : BInv BState.init := binv_init

/-! ### non-vacuity: a pair of a number and a symbol, pushed on the registers and popped again -/

example (nc : NumCode F) : ∃ st1 st2 st3 st4 a b p, 
    (basicRStore nc).addNumber (.int 7) BState.init = .ok (a, st1) ∧
    (basicRStore nc).addSymbol 3 st1 = .ok (b, st2) ∧
    (basicRStore nc).addPair (b, a) st2 = .ok (p, st3) ∧
    Decodes ((basicRStore nc).view st3) p (.pair (.sym 3) (.num (.int 7))) ∧
    (basicRStore nc).pushRegister p st3 = .ok ((), st4) ∧ (basicRStore nc).regs st4 = [p] ∧ BInv st4 := by
  obtain ⟨a, st1, h1, d1, e1, i1⟩ := (basicStore_laws_core nc).addNumber (.int 7) _ basicStore_init
  obtain ⟨b, st2, h2, d2, e2, i2⟩ := (basicStore_laws_core nc).addSymbol 3 _ i1
  obtain ⟨p, st3, h3, d3, e3, i3⟩ := (basicStore_laws_core nc).addPair b a _ _ _ i2 d2 (e2.keeps.dec _ _ d1)
  obtain ⟨st4, h4, e4, i4⟩ := (basicStore_laws_core nc).pushRegister p _ i3
    ((basicStore_laws_core nc).readable _ _ _ i3 d3)
  refine ⟨st1, st2, st3, st4, a, b, p, h1, h2, h3, d3, h4, ?_, i4⟩
  rw [e4.regs, e3.regs, e2.regs, e1.regs]; rfl

end Garnish.Props.C19Store
