/-
`C01_text_to_simple_store_static`: the source-text theorem on `SimpleGarnishData` with NO run-time hypothesis, for the
syntactic class `staticOKSimple p input`:
* `balancedB p` (the executable form of `WFBalanced`: `^~` in tail positions only),
* the entry of `compile p` lies inside the program,
* every instruction of `compile p` is DYN-FREE (`progDynFree`: no comparison, `Concat`, `Apply`, `EmptyApply`,
  `Access`, `Resolve`, `Equal`, `NotEqual`, `AccessLengthInternal` — the twelve instructions whose residual side
  condition `DynOK` speaks about run-time values; the other 44, in particular all arithmetic / bitwise / logic
  instructions, jumps, `MakePair`, `MakeList`, the ranges, `PartialApply`, `TypeOf`, `TypeEqual`, the side-effect
  brackets and `Reapply`, are allowed),
* the constants and the input are leaves `SimpleGarnishData` holds, custom-free, and an `Expression` input is known.
All of it is decidable by evaluation on the source program and the input. Remaining hypotheses are about the source text
(`C01_text_correct`'s), the cache (`HitSound`) and the host (`HostRefinesI`, `HostNoCustom`, `HostExprsKnown`);
`C01_text_to_simple_store_static_declining` discharges the host ones for the declining host. Non-vacuity:
`$ ?> 1 |> 2` (Props/C01TextStoreStaticEx.lean).
-/
import Garnish.Props.RuntimeRefineNoHcalls
import Garnish.Lemmas.DynFree
set_option linter.unusedSimpArgs false
set_option linter.unusedVariables false
namespace Garnish.Props.C01TextStore
open Garnish Garnish.Gen Garnish.Spec Garnish.Abs Garnish.Abs.Tree Garnish.Abs.Source Garnish.Model Garnish.Model.Parser
open Garnish.Model.Lexer Garnish.Model.Literals Garnish.Model.Build Garnish.Props.C01Build Garnish.Props.C01Source
open Garnish.Props.C02Numbered Garnish.Props.C01Text
open Garnish.Model.Equality Garnish.Model.Runtime Garnish.Lemmas.Runtime Garnish.Props.RuntimeRefine
open Garnish.Lemmas.Runtime.On Garnish.Lemmas.Runtime.Simple Garnish.Props.SourceProps Garnish.Lemmas.NoCustom
open Garnish.Lemmas.Her

variable {F : Type} (pf : List Char → Option F) (cc : CharClass)

/-- the syntactic class: everything is checked on the source program and the input by evaluation -/
def staticOKSimple (p : Program F) (input : Val F) : Bool :=
  balancedB p &&
  decide ((compile p).jumps[0]?.getD 0 < (compile p).instrs.size) &&
  progDynFree (compile p) &&
  (compile p).consts.toList.all (fun c => isLeafS c && nc c) &&
  isLeafS input && nc input && her (exprQ (compile p)) input

/-- **no run-time hypothesis**: for a program in the class, on the payload model of `SimpleGarnishData` with a cache
that confirms its hits, the address-level loop ends with one input-value address that decodes to the value
`evalProgram` assigns to the text -/
theorem C01_text_to_simple_store_static {p : Program F} {hit : List (SimCell F) → SimCell F → Option Nat}
    (hs : HitSound hit) (hh : SimHost F) (fo : FloatOps F) (host : Host F)
    (HR : HostRefinesI (simpleRStore hit hh) SInv host) (HN : HostNoCustom host)
    (HE : HostExprsKnown (compile p) host) (loopFuel : Nat) (cast : RM (SimState F) (Option Nat)) (s : List Char)
    (toks : List LexerToken) (hlex : lex cc s = .ok toks) (hf : frag9' (toP toks) = true) (rt : RTree)
    (href : refParse Table.gen (toP toks) = .ok rt) (hel : elaborate pf (toP toks) rt = some p)
    (hwf : C01.WFProgram p) (input : Val F) (hstatic : staticOKSimple p input = true) (fuel : Nat) (v : Val F)
    (st : St F) (h : evalProgram fo host fuel p input = .ok (v, st)) :
    ∃ d n, buildText pf cc s = .ok (d, 0) ∧ progOf d = compile p ∧
      ∃ s' a, executeLoop fo (simpleRStore hit hh) loopFuel (fullHandlers fo (simpleRStore hit hh) loopFuel cast) n
          (loadSimple (reloc (progOf d)) ((progOf d).jumps[0]?.getD 0) input) = .ok ((.end_, n), s') ∧
        s'.values = [a] ∧ Decodes (simView s'.cells) a v ∧ (simpleRStore hit hh).regs s' = [] ∧
        (simpleRStore hit hh).frames s' = [] ∧ SInv s' := by
  simp only [staticOKSimple, Bool.and_eq_true, decide_eq_true_eq] at hstatic
  obtain ⟨⟨⟨⟨⟨⟨hbal, hentry⟩, hdf⟩, hconsts⟩, hin⟩, hinc⟩, hine⟩ := hstatic
  have hleaf : (compile p).consts.toList.all isLeafS = true :=
    List.all_eq_true.mpr fun c hc => by
      have := (List.all_eq_true.mp hconsts) c hc
      simp only [Bool.and_eq_true] at this
      exact this.1
  have hcnc : ConstsNC (compile p) := fun k c hk => by
    have := (List.all_eq_true.mp hconsts) c (List.mem_of_getElem? (by simpa using hk))
    simp only [Bool.and_eq_true] at this
    exact this.2
  exact C01_text_to_simple_store_balanced_full_noHcalls pf cc hs hh fo host HR HN HE loopFuel cast s toks hlex hf rt href
    hel hwf hbal input fuel v st h hentry hleaf hin hcnc hinc hine
    (fun m _ i o hi => dynOK_of_dynFree fo _ _ _ _ m o (dynFree_at hdf hi))

/-- … and with the declining host (every host hypothesis discharged): only the source-side hypotheses, `HitSound` and
the static check remain -/
theorem C01_text_to_simple_store_static_declining {p : Program F} {hit : List (SimCell F) → SimCell F → Option Nat}
    (hs : HitSound hit) (fo : FloatOps F) (loopFuel : Nat) (cast : RM (SimState F) (Option Nat)) (s : List Char)
    (toks : List LexerToken) (hlex : lex cc s = .ok toks) (hf : frag9' (toP toks) = true) (rt : RTree)
    (href : refParse Table.gen (toP toks) = .ok rt) (hel : elaborate pf (toP toks) rt = some p)
    (hwf : C01.WFProgram p) (input : Val F) (hstatic : staticOKSimple p input = true) (fuel : Nat) (v : Val F)
    (st : St F) (h : evalProgram fo Host.declining fuel p input = .ok (v, st)) :
    ∃ d n, buildText pf cc s = .ok (d, 0) ∧ progOf d = compile p ∧
      ∃ s' a, executeLoop fo (simpleRStore hit (fun _ st => (false, st))) loopFuel
          (fullHandlers fo (simpleRStore hit (fun _ st => (false, st))) loopFuel cast) n
          (loadSimple (reloc (progOf d)) ((progOf d).jumps[0]?.getD 0) input) = .ok ((.end_, n), s') ∧
        s'.values = [a] ∧ Decodes (simView s'.cells) a v ∧
        (simpleRStore hit (fun _ st => (false, st))).regs s' = [] ∧
        (simpleRStore hit (fun _ st => (false, st))).frames s' = [] ∧ SInv s' :=
  C01_text_to_simple_store_static pf cc hs (fun _ st => (false, st)) fo Host.declining C01_simple_host_declines
    hostNoCustom_declining (hostHer_declining _) loopFuel cast s toks hlex hf rt href hel hwf input hstatic fuel v st h

end Garnish.Props.C01TextStore
