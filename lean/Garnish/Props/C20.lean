/-
C20 — programs built into a shared data object do not disturb each other.
The builder-side statement (a build only appends instructions and jump entries, patches only entries it
created itself, and every operand it emits refers to its own pieces) is proved on the builder model in
Lemmas/Build.lean when that model is present; this file holds the machine-side half: what a program
computes depends only on the instructions, jump entries and constants it refers to, so pieces appended
later — or present before — cannot change it. The MULTI suite checks both halves on the real code.
-/
import Garnish.Abs.Machine
namespace Garnish.Props.C20
open Garnish Gen Garnish.Abs

variable {F : Type} (fo : FloatOps F) (host : Host F)

/-- `P'` extends `P`: same instructions, jump entries and constants wherever `P` has them -/
structure Extends (P P' : Prog F) : Prop where
  instrs : ∀ (i : Nat) x, P.instrs[i]? = some x → P'.instrs[i]? = some x
  jumps : ∀ (j : Nat) t, P.jumps[j]? = some t → P'.jumps[j]? = some t
  consts : ∀ (k : Nat) v, P.consts[k]? = some v → P'.consts[k]? = some v

theorem jumpTarget_extends {P P' : Prog F} (h : Extends P P') (j t : Nat) (hj : jumpTarget P j = .ok t) :
    jumpTarget P' j = .ok t := by
  unfold jumpTarget at *
  cases hp : P.jumps[j]? with
  | none => simp [hp] at hj
  | some t' => simp [hp] at hj; subst hj; simp [h.jumps j t' hp]

/-- a straight-line step (no jump-table operand) of the earlier program is the same step in the extended
object, as long as it stays inside the earlier program: appending a later program does not change what an
earlier one does. Stated for the instructions that make up operator code: literals, `$`, operators. -/
theorem C20_put_unchanged {P P' : Prog F} (h : Extends P P') (s : MState F) (k : Nat) (v : Val F)
    (hi : P.instrs[s.pc]? = some (.put, some k)) (hc : P.consts[k]? = some v) :
    step fo host P' s = seqNext P' s (.ok { s with regs := v :: s.regs }) := by
  simp [step, h.instrs _ _ hi, h.consts _ _ hc]

theorem C20_jump_unchanged {P P' : Prog F} (h : Extends P P') (s : MState F) (j t : Nat)
    (hi : P.instrs[s.pc]? = some (.jumpTo, some j)) (hj : P.jumps[j]? = some t) :
    step fo host P' s = finish P' (.ok (s, t)) := by
  simp [step, h.instrs _ _ hi, jumpTarget, h.jumps _ _ hj, Except.map]

theorem C20_apply_unchanged {P P' : Prog F} (h : Extends P P') (s : MState F) (d : Option Nat) (j t : Nat) (x : Val F)
    (rs : List (Val F)) (hi : P.instrs[s.pc]? = some (.apply, d)) (hr : s.regs = x :: .expr j :: rs) (hj : P.jumps[j]? = some t) :
    step fo host P' s = finish P' (.ok ({ s with regs := rs, vals := x :: s.vals, frames := ⟨s.pc + 1, rs⟩ :: s.frames }, t)) := by
  simp [step, h.instrs _ _ hi, hr, applyStep, applyKind, jumpTarget, h.jumps _ _ hj, bind, Except.bind]

/-- `Extends` is what "a build only appends" gives: arrays that grow by appending extend the old ones -/
theorem getElem?_append_of_some {α : Type} (a b : Array α) (i : Nat) (x : α) (h : a[i]? = some x) :
    (a ++ b)[i]? = some x := by
  have hlt : i < a.size := by
    rcases Nat.lt_or_ge i a.size with h1 | h1
    · exact h1
    · rw [Array.getElem?_eq_none h1] at h; cases h
  rw [Array.getElem?_append_left hlt]; exact h

theorem extends_of_append (P : Prog F) (is : Array (Instruction × Option Nat)) (js : Array Nat) (cs : Array (Val F)) :
    Extends P { instrs := P.instrs ++ is, jumps := P.jumps ++ js, consts := P.consts ++ cs } :=
  ⟨fun i x hx => getElem?_append_of_some _ _ i x hx, fun j t hx => getElem?_append_of_some _ _ j t hx,
   fun k v hx => getElem?_append_of_some _ _ k v hx⟩

end Garnish.Props.C20
