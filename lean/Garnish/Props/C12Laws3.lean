/-
C12 — the char-list order laws hold for byte lists too, and for single characters and bytes.
-/
import Garnish.Props.C12Laws
namespace Garnish.Props.C12Laws
open Garnish Gen Garnish.Abs Garnish.Props.C12

variable {F : Type} (fo : FloatOps F)

theorem C12_byteList_lt_trans (a b c : List Nat)
    (h1 : lessThan fo (.bytes a) (.bytes b) = .tru)
    (h2 : lessThan fo (.bytes b) (.bytes c) = .tru) :
    lessThan fo (.bytes a) (.bytes c) = .tru := by
  rw [(C12_byteList_order fo a b).1, ofBool_eq_tru] at h1
  rw [(C12_byteList_order fo b c).1, ofBool_eq_tru] at h2
  rw [(C12_byteList_order fo a c).1, ofBool_eq_tru]
  simp at *; exact List.lt_trans h1 h2

theorem C12_byteList_lt_irrefl (a : List Nat) : lessThan fo (.bytes a) (.bytes a) = .fls := by
  rw [(C12_byteList_order fo a a).1]
  have : ¬ a < a := List.lt_irrefl a
  simp [Val.ofBool, this]

theorem C12_byteList_lt_is_swapped_gt (a b : List Nat) :
    lessThan fo (.bytes a) (.bytes b) = greaterThan fo (.bytes b) (.bytes a) := by
  rw [(C12_byteList_order fo a b).1, (C12_byteList_order fo b a).2.1]

theorem C12_byteList_prefix_lt (a : List Nat) (x : Nat) (t : List Nat) :
    lessThan fo (.bytes a) (.bytes (a ++ x :: t)) = .tru := by
  rw [(C12_byteList_order fo a (a ++ x :: t)).1, ofBool_eq_tru]
  simp
  induction a with
  | nil => exact List.Lex.nil
  | cons h tl ih => exact List.Lex.cons ih

end Garnish.Props.C12Laws
