/-
`C01_text_to_simple_store_by` (Props/C01TextStoreOnBy.lean) with the address map instantiated by the builder's own output:
the data list and the addresses that `SimpleGarnishData`'s `add_*` calls produce while `build` runs on a fresh data object
(`Garnish.Lemmas.BuilderIntern.builderData` / `builderAddr`: Unit / False / True at the preallocated cells 0 / 1 / 2,
every other constant through `cache_add` with the hit decision `hit` of the data-object model — equal constants shared
whenever the cache says so).  No hypothesis about addresses is left: `ConstsAgree`, the three preallocated cells and
"leaves only" are theorems (`builder_constsAgree`, `builder_seeded`, `builder_leaves`) for a sound hit decision (`HitSound`,
repo fix "cache_add confirms hits by comparison") and constants that are leaves.

`realProg hit P` = the program the Rust builder leaves in the data object (`relocBy` along its own map);
`C01_builder_run_agrees`: the value-level machine runs it exactly like the model builder's 0-based program;
`C01_text_to_simple_store_own`: characters → address-level loop on the real program;
`buildText_consts_leaf` (Lemmas/BuildConstsLeaf.lean `build_consts_leaf`): every constant `build` adds is a leaf, so
`C01_text_to_simple_store_own_leaf` assumes nothing about the constants of the built program either;
`real_equal_literals_own`, `real_unit_literal_own`: on `1 + 1` and `$ ?> () |> 1` the map is the one observed on the crate
(Props/C01BuilderAddresses.lean) when the cache hits on equal cells.
-/
import Garnish.Lemmas.BuilderIntern
import Garnish.Lemmas.BuildConstsLeaf
import Garnish.Props.C01TextStoreOnBy
import Garnish.Props.C01BuilderAddresses
set_option linter.unusedSimpArgs false
set_option linter.unusedVariables false
namespace Garnish.Props.C01TextStore
open Garnish Garnish.Gen Garnish.Spec Garnish.Abs Garnish.Abs.Tree Garnish.Abs.Source Garnish.Model Garnish.Model.Parser
open Garnish.Model.Lexer Garnish.Model.Literals Garnish.Model.Build Garnish.Props.C01Build Garnish.Props.C01Source
open Garnish.Props.C02Numbered Garnish.Props.C01Text
open Garnish.Model.Equality Garnish.Model.Runtime Garnish.Lemmas.Runtime Garnish.Props.RuntimeRefine
open Garnish.Lemmas.Runtime.On Garnish.Lemmas.Runtime.Simple Garnish.Lemmas.BuilderIntern

variable {F : Type}

/-- the program the Rust builder leaves in a fresh `SimpleGarnishData` whose cache decides by `hit` -/
def realProg (hit : List (SimCell F) → SimCell F → Option Nat) (P : Prog F) : Prog F :=
  relocBy (builderAddr hit P) (builderData hit P) P

/-- the value-level machine does not see the difference -/
theorem C01_builder_run_agrees {hit : List (SimCell F) → SimCell F → Option Nat} (hs : HitSound hit) (fo : FloatOps F)
    (host : Host F) (P : Prog F) (hleaf : P.consts.toList.all isLeafS = true) (n : Nat) (m : MState F) :
    Abs.run fo host (realProg hit P) n m = Abs.run fo host P n m :=
  run_relocBy fo host (builder_constsAgree hs P hleaf) n m

variable (pf : List Char → Option F) (cc : CharClass)

/-- **characters → `SimpleGarnishData`, with the builder's own addresses** -/
theorem C01_text_to_simple_store_own {hit : List (SimCell F) → SimCell F → Option Nat} (hs : HitSound hit) (hh : SimHost F)
    (fo : FloatOps F) (host : Host F) (loopFuel : Nat) (H : OtherHandlers (SimState F))
    (ok : Prog F → MState F → Instruction → Option Nat → Prop)
    (hstep : ∀ (P : Prog F) (s : SimState F) (m : MState F) instr operand, Sim (simpleRStore hit hh) P s m → SInv s →
      Loaded (simpleRStore hit hh) P s → P.instrs[m.pc]? = some (instr, operand) → ok P m instr operand →
      StepSimOn fo host (simpleRStore hit hh) SInv P loopFuel H s m)
    (s : List Char) (toks : List LexerToken)
    (hlex : lex cc s = .ok toks) (hf : frag9' (toP toks) = true) (rt : RTree)
    (href : refParse Table.gen (toP toks) = .ok rt) (p : Program F) (hel : elaborate pf (toP toks) rt = some p)
    (hwf : C01.WFProgram p) (input : Val F) (fuel : Nat) (v : Val F) (st : St F)
    (h : evalProgram fo host fuel p input = .ok (v, st)) :
    ∃ d entry n, buildText pf cc s = .ok (d, entry) ∧
      ((progOf d).consts.toList.all isLeafS = true → isLeafS input = true →
        RunOKG fo (ok (realProg hit (progOf d))) host (realProg hit (progOf d)) n
          { pc := (progOf d).jumps[entry]?.getD 0, regs := [], vals := [input], frames := [], trace := [] } →
        ∃ s' a, executeLoop fo (simpleRStore hit hh) loopFuel H n
            (loadSimple (realProg hit (progOf d)) ((progOf d).jumps[entry]?.getD 0) input) = .ok ((.end_, n), s') ∧
          s'.values = [a] ∧ Decodes (simView s'.cells) a v ∧ (simpleRStore hit hh).regs s' = [] ∧
          (simpleRStore hit hh).frames s' = [] ∧ SInv s') := by
  obtain ⟨d, entry, n, hb, hby⟩ :=
    C01_text_to_simple_store_by pf cc hh fo host loopFuel H ok hstep s toks hlex hf rt href p hel hwf input fuel v st h
  refine ⟨d, entry, n, hb, fun hleaf hin hok => ?_⟩
  obtain ⟨h0, h1, h2⟩ := builder_seeded hs (progOf d) hleaf
  exact hby (builderAddr hit (progOf d)) (builderData hit (progOf d)) (builder_constsAgree hs (progOf d) hleaf) h0 h1 h2
    (builder_leaves hs (progOf d) hleaf) hin hok

/-- the constants of a built text are leaves -/
theorem buildText_consts_leaf (s : List Char) (d : BState F) (entry : Nat) (h : buildText pf cc s = .ok (d, entry)) :
    (progOf d).consts.toList.all isLeafS = true := by
  unfold buildText at h
  cases hl : lex cc s with
  | ok toks =>
    rw [hl] at h
    simp only [Garnish.Lemmas.Build.bind_ok] at h
    cases hp : parse (toP toks) with
    | ok r =>
      rw [hp] at h
      simp only [Garnish.Lemmas.Build.bind_ok] at h
      have := Garnish.Lemmas.BuildConstsLeaf.build_consts_leaf pf (defaultFuel r.nodes.size) r.root r.nodes BState.empty
        (by rfl)
      rw [h] at this
      exact this
    | err e => rw [hp] at h; cases h
    | panic m => rw [hp] at h; cases h
    | fuelOut => rw [hp] at h; cases h
  | err e => rw [hl] at h; cases h
  | panic m => rw [hl] at h; cases h
  | fuelOut => rw [hl] at h; cases h

/-- **characters → `SimpleGarnishData`, with the builder's own addresses, nothing assumed about the constants**: what is
left are the source-side hypotheses, `HitSound`, a leaf input and the coverage predicate of the run -/
theorem C01_text_to_simple_store_own_leaf {hit : List (SimCell F) → SimCell F → Option Nat} (hs : HitSound hit) (hh : SimHost F)
    (fo : FloatOps F) (host : Host F) (loopFuel : Nat) (H : OtherHandlers (SimState F))
    (ok : Prog F → MState F → Instruction → Option Nat → Prop)
    (hstep : ∀ (P : Prog F) (s : SimState F) (m : MState F) instr operand, Sim (simpleRStore hit hh) P s m → SInv s →
      Loaded (simpleRStore hit hh) P s → P.instrs[m.pc]? = some (instr, operand) → ok P m instr operand →
      StepSimOn fo host (simpleRStore hit hh) SInv P loopFuel H s m)
    (s : List Char) (toks : List LexerToken)
    (hlex : lex cc s = .ok toks) (hf : frag9' (toP toks) = true) (rt : RTree)
    (href : refParse Table.gen (toP toks) = .ok rt) (p : Program F) (hel : elaborate pf (toP toks) rt = some p)
    (hwf : C01.WFProgram p) (input : Val F) (hin : isLeafS input = true) (fuel : Nat) (v : Val F) (st : St F)
    (h : evalProgram fo host fuel p input = .ok (v, st)) :
    ∃ d entry n, buildText pf cc s = .ok (d, entry) ∧
      ConstsAgree (builderAddr hit (progOf d)) (builderData hit (progOf d)) (progOf d) ∧
      (RunOKG fo (ok (realProg hit (progOf d))) host (realProg hit (progOf d)) n
          { pc := (progOf d).jumps[entry]?.getD 0, regs := [], vals := [input], frames := [], trace := [] } →
        ∃ s' a, executeLoop fo (simpleRStore hit hh) loopFuel H n
            (loadSimple (realProg hit (progOf d)) ((progOf d).jumps[entry]?.getD 0) input) = .ok ((.end_, n), s') ∧
          s'.values = [a] ∧ Decodes (simView s'.cells) a v ∧ (simpleRStore hit hh).regs s' = [] ∧
          (simpleRStore hit hh).frames s' = [] ∧ SInv s') := by
  obtain ⟨d, entry, n, hb, hown⟩ :=
    C01_text_to_simple_store_own pf cc hs hh fo host loopFuel H ok hstep s toks hlex hf rt href p hel hwf input fuel v st h
  have hleaf := buildText_consts_leaf pf cc s d entry hb
  exact ⟨d, entry, n, hb, builder_constsAgree hs (progOf d) hleaf, fun hok => hown hleaf hin hok⟩

/-! ### the map on the two observed programs -/

/-- equality of the cells a builder adds, floats never equal (a cache that misses on floats is sound) -/
def cellEqB : SimCell F → SimCell F → Bool
  | .num (.int a), .num (.int b) => a == b
  | .sym a, .sym b => a == b
  | .expr a, .expr b => a == b
  | .chars a, .chars b => a == b
  | .bytes a, .bytes b => a == b
  | .char a, .char b => a == b
  | .byte a, .byte b => a == b
  | _, _ => false

theorem cellEqB_eq {c c' : SimCell F} (h : cellEqB c c' = true) : c = c' := by
  cases c <;> cases c' <;> simp [cellEqB] at h <;> try (simp [h])
  all_goals
    rename_i n n'
    cases n <;> cases n' <;> simp [cellEqB] at h
    simp [h]

/-- a cache that hits exactly on the first stored equal cell — what the fixed `cache_add` does when no two different
values collide in the hash -/
def hitEq : List (SimCell F) → SimCell F → Option Nat := fun cells c =>
  if cells.findIdx (fun c' => cellEqB c' c) < cells.length then some (cells.findIdx (fun c' => cellEqB c' c)) else none

theorem hitEq_sound : HitSound (hitEq : List (SimCell F) → SimCell F → Option Nat) := by
  intro cells c a h
  unfold hitEq at h
  split at h
  · rename_i hlt
    cases h
    have := List.findIdx_getElem (w := hlt)
    rw [List.getElem?_eq_getElem hlt]
    exact congrArg some (cellEqB_eq this)
  · cases h

set_option maxRecDepth 8000

/-- `1 + 1`: the builder's own map is the one observed on the crate (both literals at address 3, four cells) -/
theorem real_equal_literals_own :
    (builtProg "1 + 1").map (fun P => ((realProg hitEq P).instrs.toList, (realProg hitEq P).consts.size)) =
      some ([(.put, some 3), (.put, some 3), (.add, none), (.endExpression, none)], 4) := by rfl

/-- `$ ?> () |> 1`: the `()` literal is the preallocated cell 0 -/
theorem real_unit_literal_own :
    (builtProg "$ ?> () |> 1").map (fun P => ((realProg hitEq P).instrs.toList, (realProg hitEq P).consts.size)) =
      some ([(.putValue, none), (.jumpIfTrue, some 1), (.put, some 3), (.endExpression, none), (.put, some 0),
        (.jumpTo, some 2)], 4) := by rfl

end Garnish.Props.C01TextStore
