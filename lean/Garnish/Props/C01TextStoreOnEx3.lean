/-
Non-vacuity of `C01_text_to_simple_store3` WITH A CALL: the source text `{ $ + 1 } <~ 5` on the payload model of
`SimpleGarnishData`. `progNested_wf`, `progNested_meaning`: the source-side hypotheses; `nestedSimple`: the built program
as it sits in Simple (`reloc`); `nested_r0 … nested_r7`: the coverage / side conditions (`RunOKG`, `MDeepN` included)
along the eight machine steps, for every step count.
-/
import Garnish.Props.RuntimeRefineOn3
import Garnish.Props.RuntimeRefineSimple2
set_option linter.unusedSimpArgs false
set_option linter.unusedVariables false
namespace Garnish.Props.C01TextStore
open Garnish Garnish.Gen Garnish.Spec Garnish.Abs Garnish.Abs.Tree Garnish.Abs.Source Garnish.Model Garnish.Model.Parser
open Garnish.Model.Lexer Garnish.Model.Literals Garnish.Model.Build Garnish.Props.C01Build Garnish.Props.C01Source
open Garnish.Props.C02Numbered Garnish.Props.C01Text
open Garnish.Model.Equality Garnish.Model.Runtime Garnish.Lemmas.Runtime Garnish.Props.RuntimeRefine
open Garnish.Lemmas.Runtime.On Garnish.Lemmas.Runtime.Simple

theorem progNested_done : (compileState Prog.empty progNested).done =
    [⟨.ref 1, 1, [(.endExpression, none)], 1⟩, ⟨.ref 0, 0, [(.endExpression, none)], 0⟩] := by rfl

theorem progNested_wf : C01.WFProgram progNested where
  main0 := rfl
  wf := by
    intro id b h
    simp only [progNested, lookupBody] at h
    split at h
    · cases h; rfl
    · split at h
      · cases h; rfl
      · cases h
  tail := rfl
  labels := by
    intro r hr id hk
    rw [progNested_done] at hr
    simp only [List.mem_cons, List.not_mem_nil, or_false] at hr
    rcases hr with rfl | rfl <;> (cases hk; rfl)
  covered := by
    intro id b h
    rw [progNested_done]
    simp only [progNested, lookupBody] at h
    split at h
    · rename_i hid
      have h0 : (0 : Nat) = id := by simpa using hid
      subst h0
      exact ⟨⟨.ref 0, 0, [(.endExpression, none)], 0⟩, by simp, rfl⟩
    · split at h
      · rename_i hid
        have h0 : (1 : Nat) = id := by simpa using hid
        subst h0
        exact ⟨⟨.ref 1, 1, [(.endExpression, none)], 1⟩, by simp, rfl⟩
      · cases h

theorem progNested_meaning (fo : FloatOps Float) (host : Host Float) :
    evalProgram fo host 10 progNested .unit = .ok (.num (.int 6), ⟨.unit, []⟩) := by
  simp [evalProgram, evalBody, evalF, evalChain, lookupBody, progNested, mainNested, int, Val.truthy, applyVals,
    applyKind, binaryOp, arithBinary, numOpOf, Number.apply, Number.plus, Number.doOp, Number.overflowingAdd, numResult, settle, Number.ovf, Lemmas.ovf_eq]
  have h1 : InRange 6 := by unfold InRange; omega
  have h2 : wrap 6 = 6 := by decide
  simp [h1, h2]


/-- `{ $ + 1 } <~ 5` as it sits in a `SimpleGarnishData` -/
def nestedSimple : Prog Float := reloc (compile progNested)


/-- a cache that never hits, a host that declines -/
abbrev exStore3 : RStore Float (SimState Float) := simpleRStore (fun _ _ => none) (fun _ st => (false, st))

def nm (pc : Nat) (regs vals : List (Val Float)) (frames : List (Frame Float)) : MState Float :=
  { pc := pc, regs := regs, vals := vals, frames := frames, trace := [] }

variable (fo : FloatOps Float)

abbrev okN := MachOKOn3 fo exStore3 SInv nestedSimple 0

abbrev five : Val Float := .num (.int 5)
abbrev one : Val Float := .num (.int 1)
abbrev six : Val Float := .num (.int 6)

theorem md_nil (pc : Nat) (regs vals rs : List (Val Float)) : MDeep (nm pc regs vals []) rs :=
  fun fr frs h => by cases h
theorem md_one (pc r : Nat) (regs vals rs : List (Val Float)) : MDeep (nm pc regs vals [⟨r, []⟩]) rs :=
  fun fr frs h => by cases h; exact Nat.zero_le _
theorem mdn_nil (pc : Nat) (regs vals : List (Val Float)) (k : Nat) : MDeepN (nm pc regs vals []) k :=
  fun fr frs h => by cases h
theorem mdn_one (pc r : Nat) (regs vals : List (Val Float)) (k : Nat) (hk : k ≤ regs.length) :
    MDeepN (nm pc regs vals [⟨r, []⟩]) k :=
  fun fr frs h => by cases h; show 0 + k ≤ regs.length; omega

theorem nested_r7 : ∀ k, RunOKG fo (okN fo) Host.declining nestedSimple k (nm 3 [six] [.unit] []) := by
  intro k
  cases k with
  | zero => trivial
  | succ k =>
    refine ⟨fun instr operand hf => ?_, fun m' hst => ?_⟩
    · have : nestedSimple.instrs[(nm 3 [six] [.unit] []).pc]? = some (.endExpression, none) := by rfl
      rw [this] at hf; cases hf
      intro r rs h; cases h
      exact ⟨(by intro h; cases h), md_nil _ _ _ _, fun _ => rfl⟩
    · have : Abs.step fo Host.declining nestedSimple (nm 3 [six] [.unit] []) = .halted (nm 8 [] [six] []) := by rfl
      rw [this] at hst; cases hst

theorem nested_r6 : ∀ k, RunOKG fo (okN fo) Host.declining nestedSimple k (nm 7 [six] [five, .unit] [⟨3, []⟩]) := by
  intro k
  cases k with
  | zero => trivial
  | succ k =>
    refine ⟨fun instr operand hf => ?_, fun m' hst => ?_⟩
    · have : nestedSimple.instrs[(nm 7 [six] [five, .unit] [⟨3, []⟩]).pc]? = some (.endExpression, none) := by rfl
      rw [this] at hf; cases hf
      intro r rs h; cases h
      exact ⟨(by intro h; cases h), md_one _ _ _ _ _, fun h => by cases h⟩
    · have : Abs.step fo Host.declining nestedSimple (nm 7 [six] [five, .unit] [⟨3, []⟩]) =
          .running (nm 3 [six] [.unit] []) := by rfl
      rw [this] at hst; cases hst
      exact nested_r7 fo k

theorem nested_r5 : ∀ k, RunOKG fo (okN fo) Host.declining nestedSimple k (nm 6 [one, five] [five, .unit] [⟨3, []⟩]) := by
  intro k
  cases k with
  | zero => trivial
  | succ k =>
    refine ⟨fun instr operand hf => ?_, fun m' hst => ?_⟩
    · have : nestedSimple.instrs[(nm 6 [one, five] [five, .unit] [⟨3, []⟩]).pc]? = some (.add, none) := by rfl
      rw [this] at hf; cases hf
      exact mdn_one _ _ _ _ 2 (Nat.le_refl _)
    · have : Abs.step fo Host.declining nestedSimple (nm 6 [one, five] [five, .unit] [⟨3, []⟩]) =
          .running (nm 7 [six] [five, .unit] [⟨3, []⟩]) := by rfl
      rw [this] at hst; cases hst
      exact nested_r6 fo k

theorem nested_r4 : ∀ k, RunOKG fo (okN fo) Host.declining nestedSimple k (nm 5 [five] [five, .unit] [⟨3, []⟩]) := by
  intro k
  cases k with
  | zero => trivial
  | succ k =>
    refine ⟨fun instr operand hf => ?_, fun m' hst => ?_⟩
    · have : nestedSimple.instrs[(nm 5 [five] [five, .unit] [⟨3, []⟩]).pc]? = some (.put, some 5) := by rfl
      rw [this] at hf; cases hf
      intro k v hk hc; cases hk
      have : nestedSimple.consts[5]? = some one := by rfl
      rw [this] at hc; cases hc
      intro h; cases h
    · have : Abs.step fo Host.declining nestedSimple (nm 5 [five] [five, .unit] [⟨3, []⟩]) =
          .running (nm 6 [one, five] [five, .unit] [⟨3, []⟩]) := by rfl
      rw [this] at hst; cases hst
      exact nested_r5 fo k

theorem nested_r3 : ∀ k, RunOKG fo (okN fo) Host.declining nestedSimple k (nm 4 [] [five, .unit] [⟨3, []⟩]) := by
  intro k
  cases k with
  | zero => trivial
  | succ k =>
    refine ⟨fun instr operand hf => ?_, fun m' hst => ?_⟩
    · have : nestedSimple.instrs[(nm 4 [] [five, .unit] [⟨3, []⟩]).pc]? = some (.putValue, none) := by rfl
      rw [this] at hf; cases hf
      intro v vs h; cases h
      intro h; cases h
    · have : Abs.step fo Host.declining nestedSimple (nm 4 [] [five, .unit] [⟨3, []⟩]) =
          .running (nm 5 [five] [five, .unit] [⟨3, []⟩]) := by rfl
      rw [this] at hst; cases hst
      exact nested_r4 fo k

theorem nested_r2 : ∀ k, RunOKG fo (okN fo) Host.declining nestedSimple k (nm 2 [five, .expr 1] [.unit] []) := by
  intro k
  cases k with
  | zero => trivial
  | succ k =>
    refine ⟨fun instr operand hf => ?_, fun m' hst => ?_⟩
    · have : nestedSimple.instrs[(nm 2 [five, .expr 1] [.unit] []).pc]? = some (.apply, none) := by rfl
      rw [this] at hf; cases hf
      refine ⟨mdn_nil _ _ _ 2, fun vr vl rs h => ?_⟩
      cases h
      exact ⟨trivial, (by intro h; cases h)⟩
    · have : Abs.step fo Host.declining nestedSimple (nm 2 [five, .expr 1] [.unit] []) =
          .running (nm 4 [] [five, .unit] [⟨3, []⟩]) := by rfl
      rw [this] at hst; cases hst
      exact nested_r3 fo k

theorem nested_r1 : ∀ k, RunOKG fo (okN fo) Host.declining nestedSimple k (nm 1 [.expr 1] [.unit] []) := by
  intro k
  cases k with
  | zero => trivial
  | succ k =>
    refine ⟨fun instr operand hf => ?_, fun m' hst => ?_⟩
    · have : nestedSimple.instrs[(nm 1 [.expr 1] [.unit] []).pc]? = some (.put, some 4) := by rfl
      rw [this] at hf; cases hf
      intro k v hk hc; cases hk
      have : nestedSimple.consts[4]? = some five := by rfl
      rw [this] at hc; cases hc
      intro h; cases h
    · have : Abs.step fo Host.declining nestedSimple (nm 1 [.expr 1] [.unit] []) =
          .running (nm 2 [five, .expr 1] [.unit] []) := by rfl
      rw [this] at hst; cases hst
      exact nested_r2 fo k

theorem nested_r0 : ∀ k, RunOKG fo (okN fo) Host.declining nestedSimple k (nm 0 [] [.unit] []) := by
  intro k
  cases k with
  | zero => trivial
  | succ k =>
    refine ⟨fun instr operand hf => ?_, fun m' hst => ?_⟩
    · have : nestedSimple.instrs[(nm 0 [] [.unit] []).pc]? = some (.put, some 3) := by rfl
      rw [this] at hf; cases hf
      intro k v hk hc; cases hk
      have : nestedSimple.consts[3]? = some (.expr 1) := by rfl
      rw [this] at hc; cases hc
      intro h; cases h
    · have : Abs.step fo Host.declining nestedSimple (nm 0 [] [.unit] []) =
          .running (nm 1 [.expr 1] [.unit] []) := by rfl
      rw [this] at hst; cases hst
      exact nested_r1 fo k


/-- **non-vacuity with a call**: the text `{ $ + 1 } <~ 5` — `Put`, `Put`, `Apply` (a frame is pushed: a `StackFrame`
cell on Simple's register `Vec`), `PutValue`, `Put`, `Add`, `EndExpression` (the frame is popped), `EndExpression` — on
the payload model of `SimpleGarnishData` with a cache that never hits and a declining host: the loop ends (`End`) with
ONE input-value address, which decodes to `6`; no register, no frame, the invariant holds. Every hypothesis of
`C01_text_to_simple_store3` is discharged (`nested_r0 … nested_r7`: the side conditions, `MDeepN` included, along the
eight machine steps). -/
example (fo : FloatOps Float) :
    ∃ d entry n, buildText noFloat asciiCC "{ $ + 1 } <~ 5".toList = .ok (d, entry) ∧
      ∃ s' a, executeLoop fo exStore3 0 (fullHandlers fo exStore3 0 (RM.fail .unsupported)) n
          (loadSimple (reloc (progOf d)) ((progOf d).jumps[entry]?.getD 0) .unit) = .ok ((.end_, n), s') ∧
        s'.values = [a] ∧ Decodes (simView s'.cells) a (.num (.int 6)) ∧ exStore3.regs s' = [] ∧
        exStore3.frames s' = [] ∧ SInv s' := by
  obtain ⟨d, entry, n, hb, hrun⟩ :=
    C01_text_to_simple_store3 (hit := fun _ _ => none) noFloat asciiCC C15_hitSound_never (fun _ st => (false, st))
      fo Host.declining C01_simple_host_declines 0 (fullHandlers fo exStore3 0 (RM.fail .unsupported)) _ _
      text_nested_lex (by rw [text_nested_toks]; exact exNested_frag') _
      (by rw [text_nested_toks]; exact exNested_ref) progNested (by rw [text_nested_toks]; exact exNested_elab)
      progNested_wf .unit 10 _ _ (progNested_meaning fo Host.declining)
  obtain ⟨d', hb', hi, hj, hc⟩ :=
    C01_text_build noFloat asciiCC _ _ text_nested_lex (by rw [text_nested_toks]; exact exNested_frag') _
      (by rw [text_nested_toks]; exact exNested_ref) progNested (by rw [text_nested_toks]; exact exNested_elab) (by rfl)
  rw [hb] at hb'
  obtain ⟨rfl, rfl⟩ : d = d' ∧ entry = 0 := by
    simp only [Outcome.ok.injEq, Prod.mk.injEq] at hb'; exact hb'
  have hprog : progOf d = compile progNested := by
    show Prog.mk d.instrs d.jumps d.consts = _
    rw [hi, hj, hc]
  have hleaf : (progOf d).consts.toList.all isLeafS = true := by rw [hprog]; rfl
  have hok := nested_r0 fo n
  rw [hprog] at hrun
  obtain ⟨s', a, h1, h2, h3, h4, h5, h6⟩ := hrun (by rw [← hprog]; exact hleaf) rfl hok
  refine ⟨d, 0, n, hb, s', a, ?_, h2, h3, h4, h5, h6⟩
  rw [hprog]; exact h1

end Garnish.Props.C01TextStore
