/-
C02 with side-effect blocks, second ∀-theorem against `refParseB`: a block as the operand of a binary operator, taken over
by the value that follows it.

  C02_parse_correct_opBlockValueB   for EVERY token list `e trivia* op trivia* [ trivia* body trivia* ] trivia* v`
                                    (`e`, `body` arbitrary expressions of the fragment `frag8` without a trailing blank line
                                    before `}`, given as syntax trees `Ex`; `op` any binary operator, `,` or infix identifier;
                                    `v` a value token): `parse` accepts, the result is a proper tree, it is the tree
                                    `refParseB` computes — `op (e, v)` with the block as the LEFT child of `v` — and the result
                                    is well numbered.
  ex1p23                            `1 + [2] 3` through the theorem.
Syntax form: the hypotheses are `Ex.ok` / `Ex.garb = 0` of the two syntax trees (decidable); a recogniser on raw token lists
(`fragBlocks2`) for this shape is not written.  Reference side: Lemmas/ParseBlocksC1–C3 (`expr_run`, `refLoopB_op_block`,
`refParseB_op_block_value`); parser side: `parse_op_block_value` (Lemmas/ParserB30) and its numbering copy
(Lemmas/ParseBlocksC0).
-/
import Garnish.Lemmas.ParseBlocksC0
import Garnish.Lemmas.ParseBlocksC3
import Garnish.Lemmas.ParseBlocksC4
import Garnish.Props.C02BlocksB
namespace Garnish.Props.C02BlocksC
open Garnish Garnish.Gen Garnish.Spec Garnish.Model.Parser Garnish.Props.C02Parse Garnish.Abs.Source
open Garnish.Props.C01Blocks

/-- **`e op [ body ] v`: parse = refParseB, well numbered** -/
theorem C02_parse_correct_opBlockValueB {F : Fl} (e body : Ex) (op o c v : PToken) (ws1 ws2 wsA wsB ws3 : List PToken)
    (he : e.ok F false = true) (hbody : body.ok F false = true) (hge : e.garb = 0) (hgb : body.garb = 0)
    (hop : isBin3Tok op = true) (ho : o.type = .startSideEffect) (hc : c.type = .endSideEffect) (hv : isAtom10 v = true)
    (hw1 : ∀ w ∈ ws1, isTriviaTok w = true) (hw2 : ∀ w ∈ ws2, isTriviaTok w = true)
    (hwA : ∀ w ∈ wsA, isTriviaTok w = true) (hwB : ∀ w ∈ wsB, isTriviaTok w = true)
    (hw3 : ∀ w ∈ ws3, isTriviaTok w = true)
    (hnum : NumberedFrom 0
      (e.toks ++ (ws1 ++ (op :: (ws2 ++ (o :: (wsA ++ (body.toks ++ (wsB ++ (c :: (ws3 ++ [v]))))))))))) :
    ∃ r t,
      parse (e.toks ++ (ws1 ++ (op :: (ws2 ++ (o :: (wsA ++ (body.toks ++ (wsB ++ (c :: (ws3 ++ [v])))))))))) = .ok r ∧
      toTree r = some t ∧
      refParseB Table.gen (e.toks ++ (ws1 ++ (op :: (ws2 ++ (o :: (wsA ++ (body.toks ++ (wsB ++ (c :: (ws3 ++ [v])))))))))) =
        .ok (treeToRG r t) ∧
      WellNumbered (e.toks ++ (ws1 ++ (op :: (ws2 ++ (o :: (wsA ++ (body.toks ++ (wsB ++ (c :: (ws3 ++ [v])))))))))) r t := by
  obtain ⟨r, t, te, tb, q, dv, h1, h2, h3, h4, h5, h6, h7⟩ := parse_op_block_value e body op o c v ws1 ws2 wsA wsB ws3 he
    hbody hop ho hc hv hw1 hw2 hwA hwB hw3 hnum
  obtain ⟨r', t', g1, g2, g3, g4⟩ := parse_op_block_value_numbered e body op o c v ws1 ws2 wsA wsB ws3 he hbody hop ho hc hv
    hw1 hw2 hwA hwB hw3 hnum
  rw [h1] at g1; cases g1
  rw [h2] at g2; cases g2
  refine ⟨r, t, h1, h2, ?_, wellNumbered_of_inorder _ hnum r t h1 h2 (sortedIn_full g3 (by rw [hge, hgb] at g4; exact g4))⟩
  rw [refParseB_op_block_value e body op o c v ws1 ws2 wsA wsB ws3 he hbody hop ho hc hv hw1 hw2 hwA hwB hw3 hnum te tb h3 h4
    q h5, ← C02_toRG_eq_treeToRG, h6, h7]

/-- **`e op [ body ]` (the block ends the input): parse = refParseB** (tree only; the numbering copy of
    `parse_op_block` is not written) -/
theorem C02_parse_correct_opBlockB {F : Fl} (e body : Ex) (op o c : PToken) (ws1 ws2 wsA wsB : List PToken)
    (he : e.ok F false = true) (hbody : body.ok F false = true) (hop : isBin3Tok op = true)
    (ho : o.type = .startSideEffect) (hc : c.type = .endSideEffect)
    (hw1 : ∀ w ∈ ws1, isTriviaTok w = true) (hw2 : ∀ w ∈ ws2, isTriviaTok w = true)
    (hwA : ∀ w ∈ wsA, isTriviaTok w = true) (hwB : ∀ w ∈ wsB, isTriviaTok w = true)
    (hnum : NumberedFrom 0 (e.toks ++ (ws1 ++ (op :: (ws2 ++ (o :: (wsA ++ (body.toks ++ (wsB ++ [c]))))))))) :
    ∃ r t, parse (e.toks ++ (ws1 ++ (op :: (ws2 ++ (o :: (wsA ++ (body.toks ++ (wsB ++ [c])))))))) = .ok r ∧
      toTree r = some t ∧
      refParseB Table.gen (e.toks ++ (ws1 ++ (op :: (ws2 ++ (o :: (wsA ++ (body.toks ++ (wsB ++ [c])))))))) =
        .ok (treeToRG r t) := by
  obtain ⟨r, t, te, tb, q, h1, h2, h3, h4, h5, h6⟩ := parse_op_block e body op o c ws1 ws2 wsA wsB he hbody hop ho hc hw1 hw2
    hwA hwB hnum
  refine ⟨r, t, h1, h2, ?_⟩
  rw [refParseB_op_block e body op o c ws1 ws2 wsA wsB he hbody hop ho hc hw1 hw2 hwA hwB hnum te tb h3 h4 q h5,
    ← C02_toRG_eq_treeToRG, h6]

/-! ### non-vacuity: `1 + [2] 3` -/

def ex1p23 : List PToken :=
  [tk .number "1" 0, tk .whitespace " " 1, tk .plusSign "+" 2, tk .whitespace " " 3, tk .startSideEffect "[" 4,
   tk .number "2" 5, tk .endSideEffect "]" 6, tk .whitespace " " 7, tk .number "3" 8]

theorem ex1p23_correct : ∃ r t, parse ex1p23 = .ok r ∧ toTree r = some t ∧ refParseB Table.gen ex1p23 = .ok (treeToRG r t) ∧
    WellNumbered ex1p23 r t :=
  C02_parse_correct_opBlockValueB (F := ⟨true, true, true⟩) (.atom [] (tk .number "1" 0)) (.atom [] (tk .number "2" 5))
    (tk .plusSign "+" 2) (tk .startSideEffect "[" 4) (tk .endSideEffect "]" 6) (tk .number "3" 8)
    [tk .whitespace " " 1] [tk .whitespace " " 3] [] [] [tk .whitespace " " 7]
    (by decide) (by decide) rfl rfl (by decide) rfl rfl (by decide) (by decide) (by decide) (by simp) (by simp) (by decide)
    (by simp [Ex.toks, NumberedFrom, tk])

/-- the tree: `+ (1, 3)` with the block `[2]` as the left child of `3` -/
theorem ex1p23_tree : refParseB Table.gen ex1p23 =
    .ok (.node (.node .nil .number 0 .nil) .addition 2
      (.node (.node .nil .sideEffect 4 (.node .nil .number 5 .nil)) .number 8 .nil)) := by rfl

end Garnish.Props.C02BlocksC
