/-
C02 with side-effect blocks, first ∀-theorem against `refParseB` (Spec/RefParseB.lean):

  C02_parse_correct_valueBlockB   for EVERY token list `v trivia* [ trivia* body trivia* ]` (`v` a value token, `body` any
                                  `frag8` expression without a trailing blank line before `}` — `Spec.valueBlockN`):
                                  `parse` accepts, the result is a proper tree, it is the tree `refParseB` computes, and the
                                  result is well numbered;
  C02_parse_correct_fragBlocksB   the same on `fragBlocks` = `frag9'` ∪ that shape (on `frag9'` `refParseB = refParse`).
One operator level only: the block is the right child of ONE value and that value is the whole program.  Blocks as operands
inside larger expressions (`1 + [2] 3 * [4 5] 6`) agree with `refParseB` per input (`exNested_agree`, and the grid of
Props/C02Blocks.lean); the ∀-statement needs the fragment induction re-targeted from `refLoop` to `refLoopB` (its
statements `OpdOK` / `ExprOK` / `ListOpdOK` in Lemmas/ParserB9, B10, B17 name `refLoop Table.gen`), a bottom-of-spine case
for a value node with a right child / the pending `last_left` jump after `]`, and an `Ex` constructor for blocks.
Reference side of the proof: Lemmas/ParseBlocksB1–B3 (`refLoopB_segment`, `body_run`, `refParseB_value_block`).
-/
import Garnish.Lemmas.ParseBlocksB3
import Garnish.Props.C02Support
import Garnish.Props.C02Blocks
namespace Garnish.Props.C02BlocksB
open Garnish Garnish.Gen Garnish.Spec Garnish.Model.Parser Garnish.Props.C02Parse Garnish.Abs.Source
open Garnish.Props.C02Support Garnish.Props.C02Numbered

/-- **`v [ body ]`: parse = refParseB, well numbered** -/
theorem C02_parse_correct_valueBlockB (toks : List PToken) (hf : Spec.valueBlockN toks = true)
    (hnum : NumberedFrom 0 toks) :
    ∃ r t, parse toks = .ok r ∧ toTree r = some t ∧ refParseB Table.gen toks = .ok (treeToRG r t) ∧
      WellNumbered toks r t := by
  have hfb : fragBlocks toks = true := by unfold fragBlocks; rw [hf]; simp
  obtain ⟨v, o, c, ws, wsA, wsB, body, hv, ho, hc, hok, hg, hws, hwA, hwB, rfl⟩ := valueBlockN_sound hf
  obtain ⟨r, t', h1, h2, h3, h4, h5⟩ := parse_value_block_full v o c ws wsA wsB body hv ho hc hok hws hwA hwB hnum
  refine ⟨r, _, h1, h2, ?_, C02_parse_wellNumbered_blocks _ hfb hnum r _ h1 h2⟩
  -- the reference tree of the body
  rw [refLoop_top_shift, ← refParse_ex body hok] at h5
  cases hr : refParse Table.gen body.toks with
  | err _ => rw [hr] at h5; cases h5
  | panic _ => rw [hr] at h5; cases h5
  | fuelOut => rw [hr] at h5; cases h5
  | ok tb =>
    rw [hr] at h5
    simp only [Outcome.mapT, Outcome.ok.injEq] at h5
    rw [refParseB_value_block v o c ws wsA wsB body hv ho hc hok hws hwA hwB hnum tb hr, ← C02_toRG_eq_treeToRG]
    have hvcol : v.col = 0 := hnum.1
    have hocol : o.col = 1 + ws.length := by
      have hnum1 : NumberedFrom (0 + 1) (ws ++ (o :: (wsA ++ (body.toks ++ (wsB ++ [c]))))) := hnum.2
      have := (numbered_append ws _ _ hnum1).1
      omega
    have hnb0 : isBracketDef (getDefinition v.type).1 = false := prio10_not_bracket (atom10_facts hv).2
    simp only [toRG, h4, h3, hnb0, Bool.false_eq_true, if_false, hvcol, hocol, ← h5]
    rfl

/-- **`fragBlocks`** (`frag9'` or `v [ body ]`): parse = refParseB, well numbered -/
theorem C02_parse_correct_fragBlocksB (toks : List PToken) (hf : fragBlocks toks = true) (hnum : NumberedFrom 0 toks) :
    ∃ r t, parse toks = .ok r ∧ toTree r = some t ∧ refParseB Table.gen toks = .ok (treeToRG r t) ∧
      WellNumbered toks r t := by
  have hf0 := hf
  unfold fragBlocks at hf
  rcases Bool.or_eq_true _ _ |>.mp hf with h | h
  · obtain ⟨r, t, h1, h2, h3⟩ := C02_parse_correct_fragment_optional toks (frag9'_sub h) hnum
    refine ⟨r, t, h1, h2, ?_, C02_parse_wellNumbered_blocks toks hf0 hnum r t h1 h2⟩
    have hn := C18Parse.frag9_noTrim (frag9'_sub h)
    have hl := h3
    rw [refParse_noTrim Table.gen hn] at hl
    rw [refParseB_conservative toks (refLoop_ok_noblock _ _ _ _ _ hl), h3]
  · exact C02_parse_correct_valueBlockB toks h hnum

/-! ### non-vacuity -/

/-- `"5 [6 + 1]"` (tokens of Props/C02Support.lean) -/
example : ∃ r t, parse toksVB = .ok r ∧ toTree r = some t ∧ refParseB Table.gen toksVB = .ok (treeToRG r t) ∧
    WellNumbered toksVB r t :=
  C02_parse_correct_valueBlockB toksVB (by decide) (Garnish.Model.Lexer.toP_numbered _)

open Garnish.Props.C02Blocks in
/-- `1 + [2] 3 * [4 5] 6`: blocks as left children of the operands of two operators, a space list inside a block — agrees
    with `refParseB` (per input; outside the ∀-theorem) and the parser`s result is well numbered -/
def exNested : List PToken :=
  mk [N "1", W, PL, W, LS, N "2", RS, W, N "3", W, ML, W, LS, N "4", W, N "5", RS, W, N "6"]

open Garnish.Props.C02Blocks in
theorem exNested_agree : agree exNested = true ∧
    refParseB Table.gen exNested =
      .ok (.node (.node .nil .number 0 .nil) .addition 2
        (.node (.node (.node .nil .sideEffect 4 (.node .nil .number 5 .nil)) .number 8 .nil) .multiplicationSign 10
          (.node (.node .nil .sideEffect 12 (.node (.node .nil .number 13 .nil) .list 14 (.node .nil .number 15 .nil)))
            .number 18 .nil))) := by
  refine ⟨by decide, by rfl⟩

end Garnish.Props.C02BlocksB
