/-
C14 — literals denote exactly what they spell.
Property theorems only; the spelling functions and the escape-processing specifications are in Garnish/Spec/Spell.lean,
helper lemmas in Garnish/Lemmas/Literals.lean. The code model is Garnish/Model/Literals.lean (parsing.rs as it is now).

`pf` is Rust's `f64::from_str` (abstract: Rust `std` is trusted). Texts are `List Char`.
All theorems are unbounded: every `n`, every radix 2..36, every separator placement, every `List Char`
(all Unicode scalar values), every byte vector.
-/
import Garnish.Spec.Spell
import Garnish.Lemmas.Literals
namespace Garnish.Props.C14
open Garnish Garnish.Spec.Spell Garnish.Model.Literals Garnish.Lemmas.Literals

variable {F : Type} (pf : List Char → Option F)

/-! ### numbers -/

/-- what a digit string denotes = the round trip: the spelling of `n` in radix `r` (plain decimal for `r = 10`,
`0R_digits` otherwise) with `_` separators after any digits, repeated or trailing, evaluates to the integer `n`.
`ValidSeps` excludes only `0_…` in the plain decimal form (see `C14_zero_underscore_rejected`). -/
theorem C14_number_value (r n : Nat) (seps : List Nat) (hr2 : 2 ≤ r) (hr36 : r ≤ 36) (hn : n ≤ 2147483647)
    (hv : ValidSeps r n seps) :
    parseSimpleNumber pf (spellNumber r n seps) = .ok (.int n) := by
  unfold parseSimpleNumber spellNumber
  by_cases h10 : r = 10
  · subst h10
    simp only [if_true]
    rw [parse_plain pf 10 n seps hr2 hr36 (hv rfl)]
    unfold insertSeps
    rw [readDigits_spell pf 10 n seps 0 hr2 hr36]; simp [hn]
  · simp only [h10, if_false, spellPrefixed]
    rw [parseNumberInternal_eq, radixSplit_spelled]
    have : 2 ≤ r ∧ r ≤ 36 := ⟨hr2, hr36⟩
    simp only [this, and_self, if_true, Outcome.bind]
    unfold insertSeps
    rw [readDigits_spell pf r n seps 0 hr2 hr36]; simp [hn]

/-- the prefixed form works for every radix, 10 included (`010_5` = 5), whatever the default radix of the caller -/
theorem C14_number_value_prefixed (r n d : Nat) (seps : List Nat) (hr2 : 2 ≤ r) (hr36 : r ≤ 36) (hn : n ≤ 2147483647) :
    parseNumberInternal pf (spellPrefixed r n seps) d = .ok (.int n) := by
  unfold spellPrefixed
  rw [parseNumberInternal_eq, radixSplit_spelled]
  have : 2 ≤ r ∧ r ≤ 36 := ⟨hr2, hr36⟩
  simp only [this, and_self, if_true, Outcome.bind]
  unfold insertSeps
  rw [readDigits_spell pf r n seps 0 hr2 hr36]; simp [hn]

theorem C14_number_roundtrip (r n : Nat) (hr2 : 2 ≤ r) (hr36 : r ≤ 36) (hn : n ≤ 2147483647) :
    parseSimpleNumber pf (spellNumber r n []) = .ok (.int n) :=
  C14_number_value pf r n [] hr2 hr36 hn (by intro _ _; simp)

/-- plain decimal digits above `i32::MAX` are handed to `f64::from_str` (the digits, separators removed) -/
theorem C14_number_overflow_is_float (n : Nat) (seps : List Nat) (hn : 2147483647 < n) :
    parseSimpleNumber pf (spellNumber 10 n seps) =
      match pf (spellNat 10 n) with
      | some f => .ok (.float f)
      | none => .err .data := by
  unfold parseSimpleNumber spellNumber
  simp only [if_true]
  rw [parse_plain pf 10 n seps (by omega) (by omega) (by omega)]
  unfold insertSeps
  rw [readDigits_spell pf 10 n seps 0 (by omega) (by omega)]
  have : ¬ n ≤ 2147483647 := by omega
  simp [this] <;> rfl

/-- in another radix an out-of-range digit string is an error, never a wrapped or wrong number -/
theorem C14_number_overflow_radix_rejected (r n : Nat) (seps : List Nat) (hr2 : 2 ≤ r) (hr36 : r ≤ 36) (h10 : r ≠ 10)
    (hn : 2147483647 < n) : parseSimpleNumber pf (spellNumber r n seps) = .err .data := by
  unfold parseSimpleNumber spellNumber
  simp only [h10, if_false, spellPrefixed]
  rw [parseNumberInternal_eq, radixSplit_spelled]
  have : 2 ≤ r ∧ r ≤ 36 := ⟨hr2, hr36⟩
  simp only [this, and_self, if_true, Outcome.bind]
  unfold insertSeps
  rw [readDigits_spell pf r n seps 0 hr2 hr36]
  have : ¬ n ≤ 2147483647 := by omega
  simp [this, h10]

/-- the prefix `0R_` with `R` written in decimal selects radix `R` for whatever follows — including `R` = 10, 20, 30
(the trailing zero of the radix is kept: the repaired `trim_matches('0')` defect) -/
theorem C14_radix_prefix (R : Nat) (hR2 : 2 ≤ R) (hR36 : R ≤ 36) (body : List Char) (d : Nat) :
    parseNumberInternal pf ('0' :: (spellNat 10 R ++ '_' :: body)) d = readDigits pf R body := by
  rw [parseNumberInternal_eq, radixSplit_spelled]
  have : 2 ≤ R ∧ R ≤ 36 := ⟨hR2, hR36⟩
  simp [this, Outcome.bind]

/-- a radix outside 2..36 (any `R` at all, also beyond `u32`) is an error, not a wrong number -/
theorem C14_bad_radix_rejected (R : Nat) (hR : R < 2 ∨ 36 < R) (body : List Char) (d : Nat) :
    parseNumberInternal pf ('0' :: (spellNat 10 R ++ '_' :: body)) d = .err .data := by
  rw [parseNumberInternal_eq, radixSplit_spelled]
  have : ¬ (2 ≤ R ∧ R ≤ 36) := by omega
  simp [this, Outcome.bind]

/-- a decimal fraction (first character a decimal digit, a `.` somewhere) goes to `f64::from_str` unchanged apart from
the removed `_`; precondition: the text does not start with `0` when it contains a `_` (see the finding below) -/
theorem C14_fraction_routed_to_float (d : Nat) (hd : d < 10) (rest : List Char) (hdot : '.' ∈ rest)
    (hpre : d ≠ 0 ∨ '_' ∉ rest) :
    parseSimpleNumber pf (digitChar d :: rest) =
      match pf ((digitChar d :: rest).filter (· != '_')) with
      | some f => .ok (.float f)
      | none => .err .data := parse_fraction pf d hd rest hdot hpre

/-- Float round trip over an abstract `showFloat`/`parseFloat` pair: if `showFloat f` is a positional decimal
(starts with a digit, has a `.`, no `_`) and Rust's `from_str` inverts it (std, trusted; sampled by the LIT/RUN suites),
the literal evaluates to `f`. -/
theorem C14_float_roundtrip_statement (showFloat : F → List Char) (f : F)
    (hshape : ∃ d rest, d < 10 ∧ '.' ∈ rest ∧ '_' ∉ rest ∧ showFloat f = digitChar d :: rest)
    (hstd : pf (showFloat f) = some f) :
    parseSimpleNumber pf (showFloat f) = .ok (.float f) := by
  obtain ⟨d, rest, hd, hdot, hus, hs⟩ := hshape
  have hnu : (digitChar d :: rest).filter (· != '_') = digitChar d :: rest := by
    apply List.filter_eq_self.mpr
    intro x hx
    rcases List.mem_cons.mp hx with e | e
    · subst e; simpa using digitChar_ne d (by omega) '_' (by decide)
    · have : x ≠ '_' := fun e' => hus (e' ▸ e)
      simpa using this
  rw [hs, parse_fraction pf d hd rest hdot (Or.inr hus), hnu, ← hs, hstd]

/-! ### character lists -/

/-- EXACTNESS: a char-list literal `q` quotes, body, `q` quotes (body not starting with a quote, else the opening run
is longer) denotes the escape processing `unescape` of exactly the body: no closing quote leaks in, no character is
lost, whatever the byte lengths of the characters (the repaired `"é"` defect). Holds for every `q`. -/
theorem C14_charlist_exact (q : Nat) (body : List Char) (h : body.head? ≠ some '"') :
    parseCharList pf (quoteCharList q body) = unescape (uniModel pf) q body :=
  parseCharList_quote pf q body h

/-- a body without backslash (and, with at most one quote, without raw newline/tab) denotes itself -/
theorem C14_charlist_plain (q : Nat) (cs : List Char) (h : cs.head? ≠ some '"') (hb : '\\' ∉ cs)
    (hws : q ≤ 1 → '\n' ∉ cs ∧ '\t' ∉ cs) :
    parseCharList pf (quoteCharList q cs) = .ok cs := by
  rw [parseCharList_quote pf q cs h]
  unfold unescape
  clear h
  induction cs with
  | nil => simp [unesc]
  | cons c cs ih =>
    have hc : c ≠ '\\' := fun e => hb (by simp [e])
    have hws' : ¬ ((c = '\n' ∨ c = '\t') ∧ decide (q ≤ 1) = true) := by
      simp only [decide_eq_true_eq]
      rintro ⟨e | e, hq⟩
      · exact (hws hq).1 (by simp [e])
      · exact (hws hq).2 (by simp [e])
    have := ih (fun e => hb (by simp [e])) (fun hq => ⟨fun e => (hws hq).1 (by simp [e]), fun e => (hws hq).2 (by simp [e])⟩)
    simp only [unesc, hc, hws', if_false, this, consOk]

/-- ROUND TRIP, every string, every quote form (`q ≥ 1`; the theorem also holds for 0 and 2, which the lexer never
produces): quotes written `\"`. Parser level (`\"` is not lexable: the lexer closes at the quote). -/
theorem C14_charlist_roundtrip (q : Nat) (cs : List Char) :
    parseCharList pf (quoteCharList q (escapeChars q cs)) = .ok cs := by
  rw [parseCharList_quote pf q _ (escapeChars_head q cs)]
  have := unesc_escapeChars (uniModel pf) q cs []
  simp only [List.append_nil, unesc] at this
  unfold unescape
  rw [this]; simp [appendOk]

/-- ROUND TRIP, every string, every quote form, LEXABLE spelling: quotes written `\u{22}`, so the body contains no
quote character at all (`escapeCharsU_no_quote`) and the lexer's closing-run counter only sees the real delimiter. -/
theorem C14_charlist_roundtrip_lexable (q : Nat) (cs : List Char) :
    parseCharList pf (quoteCharList q (escapeCharsU q cs)) = .ok cs := by
  rw [parseCharList_quote pf q _ (escapeCharsU_head q cs)]
  have := unesc_escapeCharsU pf q cs []
  simp only [List.append_nil, unesc] at this
  unfold unescape
  rw [this]; simp [appendOk]

/-- … and the LEXER keeps that spelling in one token: from the `CharList` state entered after the `q ≥ 1` opening quotes
(`start_quote_count = q`), the `CharList` arm fed with the body, the `q` closing quotes and any following input asks
for a new token exactly after the last closing quote, having appended body and quotes to the token text.
(Arm level: `feedCharList` iterates `armCharList`; the whole `lex` loop on these inputs is exercised by the RUN suite.) -/
theorem C14_charlist_lexable_one_token (q : Nat) (hq : 0 < q) (cs rest : List Char) (self : Garnish.Model.Lexer.Lexer)
    (hs : self.startQuoteCount = q) (he : self.endQuoteCount = 0) :
    ∃ s, feedCharList self (escapeCharsU q cs ++ List.replicate q '"' ++ rest) = some (s, rest) ∧
      s.currentCharacters = self.currentCharacters ++ escapeCharsU q cs ++ List.replicate q '"' :=
  feedCharList_body q hq _ rest (escapeCharsU_no_quote q cs) self hs (fun _ => he)

/-- ROUND TRIP with raw inner quotes (the `q ≥ 3` forms): precondition at parser level — the string does not START
with a quote (the opening run would be longer). At lexer level additionally: it does not END with a quote and has no
run of `q` quotes (the lexer closes at the first run of `q` quotes); that part is exercised by the RUN suite. -/
theorem C14_charlist_roundtrip_raw (q : Nat) (cs : List Char) (h : cs.head? ≠ some '"') :
    parseCharList pf (quoteCharList q (escapeCharsRaw q cs)) = .ok cs := by
  rw [parseCharList_quote pf q _ (escapeCharsRaw_head q cs h)]
  have := unesc_escapeCharsRaw (uniModel pf) q cs []
  simp only [List.append_nil, unesc] at this
  unfold unescape
  rw [this]; simp [appendOk]

/-- every Unicode scalar value can be written `\u{hex}` -/
theorem C14_charlist_unicode_escape (q : Nat) (c : Char) :
    parseCharList pf (quoteCharList q (escapeUnicode c)) = .ok [c] := by
  rw [parseCharList_quote pf q _ (by simp [escapeUnicode])]
  have := unesc_escapeUnicode (uniModel pf) (decide (q ≤ 1)) c [] (uniModel_spell pf c)
  simp only [List.append_nil, unesc] at this
  unfold unescape
  rw [this]; simp [consOk]

/-! ### byte lists -/

/-- EXACTNESS of the quoted form: `'body'` denotes the escape processing of exactly the body, every character
contributing its UTF-8 bytes -/
theorem C14_bytelist_exact (body : List Char) (h : body.head? ≠ some '\'') :
    parseByteList pf (quoteByteList 1 body) = unescBytes false body := parseByteList_quote1 pf body h

/-- the code's `encode_utf8` is UTF-8 as the Unicode standard defines it, for every scalar value -/
theorem C14_utf8 (c : Char) : utf8BytesOf c = utf8Encode c := utf8BytesOf_spec c

/-- a quoted byte list without backslash denotes the concatenated UTF-8 encodings of its characters: a non-ASCII
character contributes exactly its 2, 3 or 4 bytes (the repaired `'é'` defect) -/
theorem C14_bytelist_multibyte (cs : List Char) (h : cs.head? ≠ some '\'') (hb : '\\' ∉ cs) :
    parseByteList pf (quoteByteList 1 cs) = .ok (cs.flatMap utf8Encode) := by
  rw [parseByteList_quote1 pf cs h, unescBytes_plain cs hb]

/-- ROUND TRIP, quoted form: every ASCII byte vector (bytes ≥ 128 have no single-character spelling; `\'` is accepted
by the parser but not lexable — byte 39 needs the numeric form in a program) -/
theorem C14_bytelist_roundtrip_quoted (bs : List Nat) (hb : ∀ b ∈ bs, b < 128) :
    parseByteList pf (spellBytesQuoted bs) = .ok bs := by
  unfold spellBytesQuoted
  rw [parseByteList_quote1 pf _ (escapeBytes_head bs hb)]
  have := unescBytes_escapeBytes bs hb []
  simp only [List.append_nil, unescBytes] at this
  rw [this]; simp [appendOk]

/-- ROUND TRIP, numeric form: every byte vector, every `q ≥ 2` (in a program `q ≥ 3`: the lexer reserves two quotes
for the empty literal) -/
theorem C14_bytelist_roundtrip (q : Nat) (hq : 2 ≤ q) (bs : List Nat) (hb : ∀ b ∈ bs, b ≤ 255) :
    parseByteList pf (spellBytesNumeric q bs) = .ok bs :=
  parseByteList_numericWith pf (spellNat 10) q hq bs (fun b h => byteSpelling_decimal pf b (hb b h)) hb

/-- the same with any entry spelling that is made of numeric characters and `_` and denotes the byte
(e.g. `02_101`, `2_5_5`) -/
theorem C14_bytelist_roundtrip_with (spell : Nat → List Char) (q : Nat) (hq : 2 ≤ q) (bs : List Nat)
    (hs : ∀ b ∈ bs, ByteSpelling pf spell b) (hb : ∀ b ∈ bs, b ≤ 255) :
    parseByteList pf (spellBytesNumericWith spell q bs) = .ok bs :=
  parseByteList_numericWith pf spell q hq bs hs hb

/-! ### symbols -/

/-- the Symbol arm of the builder hashes the text after the first byte (`&text[1..]`, `dropFirstByte`) through
`parse_symbol`: for `:name` with a name that neither starts nor ends with `:` the value is `symbol_value(name)` for
the name as written — two names get the same value only if SipHash-1-3 collides. -/
theorem C14_symbol_keeps_name (name : List Char) (h1 : name.head? ≠ some ':') (h2 : name.getLast? ≠ some ':') :
    dropFirstByte (spellSymbol name) = some name ∧
    parseSymbol name = (Garnish.Model.SipHash.symbolValue name).toNat := by
  refine ⟨by simp [spellSymbol, dropFirstByte]; decide, ?_⟩
  unfold parseSymbol
  rw [trimMatches_id ':' name h1 h2]

/-- FINDING F-C14-2 (witness): the precondition `h2` is needed — a trailing colon is part of the Symbol token
(`:a:` is one token) but is trimmed before hashing, so `:a:` and `:a` are the same symbol although written with
different names. -/
theorem C14_symbol_trailing_colon_dropped : parseSymbol ['a', ':'] = parseSymbol ['a'] := by
  unfold parseSymbol
  have : trimMatches ':' ['a', ':'] = trimMatches ':' ['a'] := by decide
  rw [this]

/-! ### findings: spellings the property covers that the code rejects -/

/-- FINDING F-C14-1 (witness): a decimal fraction whose text starts with `0` and contains a `_` separator is rejected
(`0.5_1`, while `1.5_1` is 1.51): the text before the first `_` is taken for a radix prefix. Holds for every `pf`. -/
theorem C14_fraction_sep_after_zero_rejected :
    parseSimpleNumber pf ['0', '.', '5', '_', '1'] = .err .data := by rfl

/-- `ValidSeps` is needed: `0_` / `0_5` are read as a radix prefix with an empty radix -/
theorem C14_zero_underscore_rejected :
    parseSimpleNumber pf (spellNumber 10 0 [0]) = .err .data ∧ parseSimpleNumber pf ['0', '_', '5'] = .err .data :=
  ⟨by rfl, by rfl⟩

set_option maxRecDepth 20000 in
/-- was defect F-C14-3 (repaired by fix commit f762fcf in /repo): inside the numeric byte-list form only numeric
characters and `_` were accepted, so an entry in a radix above 10 with a letter digit was rejected (`''016_ff''`) although
`016_ff` alone is 255. Now the entry denotes the byte it spells. -/
theorem C14_bytelist_letter_digit_accepted :
    parseByteList pf ['\'', '\'', '0', '1', '6', '_', 'f', 'f', '\'', '\''] = .ok [255] ∧
    parseSimpleNumber pf ['0', '1', '6', '_', 'f', 'f'] = .ok (.int 255) := ⟨by rfl, by rfl⟩

/-! ### non-vacuity and the previously defective inputs -/

example : spellNumber 20 21 [] = ['0', '2', '0', '_', '1', '1'] := by decide
example : spellNumber 10 1000000 [0, 3, 3, 6] = "1_000__000_".toList := by decide
example : spellNumber 36 2147483647 [] = "036_zik0zj".toList := by decide
example : ValidSeps 10 0 [1] ∧ ¬ ValidSeps 10 0 [0] ∧ ValidSeps 16 0 [0] := by decide
/-- `020_11` = 21 (was 3), `010_5` = 5 (was an error), `030_11` = 31 -/
example : parseSimpleNumber pf ['0', '2', '0', '_', '1', '1'] = .ok (.int 21) := by rfl
example : parseSimpleNumber pf ['0', '1', '0', '_', '5'] = .ok (.int 5) := by rfl
example : parseSimpleNumber pf ['0', '3', '0', '_', '1', '1'] = .ok (.int 31) := by rfl
example : parseSimpleNumber pf ['0', '1', '6', '_', 'f', '_', 'F'] = .ok (.int 255) := by rfl
example : parseSimpleNumber pf ['0', '3', '7', '_', '1'] = .err .data := by rfl
example : parseSimpleNumber pf ['0', '1', '_', '1'] = .err .data := by rfl
/-- `"é"` = `é` (was `é"`), also in the triple-quote form and next to 3- and 4-byte characters -/
example : parseCharList pf ['"', 'é', '"'] = .ok ['é'] := by rfl
example : parseCharList pf ['"', '"', '"', 'é', '€', '😀', '"', '"', '"'] = .ok ['é', '€', '😀'] := by rfl
example : quoteCharList 1 (escapeChars 1 ['a', '"', '\\', '\n', 'é']) =
    ['"', 'a', '\\', '"', '\\', '\\', '\\', 'n', 'é', '"'] := by decide
example : quoteCharList 3 (escapeCharsU 3 ['"', '\n']) =
    ['"', '"', '"', '\\', 'u', '{', '2', '2', '}', '\n', '"', '"', '"'] := by decide
example : parseCharList pf ['"', '\\', 'u', '{', '1', 'F', '6', '0', '0', '}', '"'] = .ok ['😀'] := by rfl
example : parseCharList pf ['"', 'a', '\n', 'b', '"'] = .ok ['a', 'b'] ∧
    parseCharList pf ['"', '"', '"', 'a', '\n', 'b', '"', '"', '"'] = .ok ['a', '\n', 'b'] := ⟨by rfl, by rfl⟩
/-- `'é'` = bytes 195 169 (was one truncated byte), `''` = empty (was a panic), `''1 2 255''` -/
example : utf8Encode 'é' = [195, 169] ∧ utf8Encode '€' = [226, 130, 172] ∧ utf8Encode '😀' = [240, 159, 152, 128] := by
  decide
example : parseByteList pf ['\'', '\''] = .ok [] := by rfl
example : spellBytesNumeric 2 [1, 2, 255] = "''1 2 255''".toList := by decide
example : spellBytesQuoted [97, 39, 92, 10] = ['\'', 'a', '\\', '\'', '\\', '\\', '\\', 'n', '\''] := by decide
example : trimMatches ':' ['a', ':', 'b'] = ['a', ':', 'b'] := by decide

end Garnish.Props.C14
