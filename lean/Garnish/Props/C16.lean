/-
C16 — lists keep their order and find every key.

Theorems about the L2 store models of `Garnish.Store.Lists` (transliterations of the list code of
SimpleGarnishData and BasicGarnishData and of the runtime's `index_list`), for ALL item lists and ALL symbols.
-/
import Garnish.Lemmas.Lists
import Garnish.Abs.Ops
set_option linter.unusedSimpArgs false
namespace Garnish.Props.C16
open Garnish Garnish.Store.Lists

/-! ## SimpleGarnishData -/

/-- `(symbol, value)` of an address that holds a pair keyed by a symbol (what `keyedValue` reads) -/
def keyOfS (view : SView) (a : Nat) : Option (Nat × Nat) :=
  match keyedValue view a with
  | .ok kv => kv
  | _ => none

/-- every item is a readable address, and so is the left of every item that is a pair -/
def ReadableS (view : SView) (items : List Nat) : Prop :=
  ∀ a ∈ items, ∃ kv, keyedValue view a = .ok kv

theorem keyedValue_eq {view : SView} {a : Nat} (h : ∃ kv, keyedValue view a = .ok kv) :
    keyedValue view a = .ok (keyOfS view a) := by
  obtain ⟨kv, h⟩ := h
  simp [keyOfS, h]

/-- `end_list` is total: the placement loop always finds a slot — the `count > len` guard
("Could not place associative value") never fires and no index is out of bounds — for every item list,
including lists that contain address 0 (unit), repeated addresses and addresses congruent modulo the length. -/
theorem simple_end_list_total (items : List Nat) :
    ∃ o, endListSimple items = .ok (items, o) ∧ o.size = items.length ∧
      (∀ (j v : Nat), o[j]? = some v → v ∈ items) ∧
      (∀ a ∈ items, a ≠ 0 → ∃ j : Nat, o[j]? = some a) := by
  obtain ⟨o, ho, inv⟩ := endListSimple_ok items
  exact ⟨o, ho, inv.size, inv.slot_mem rfl, inv.complete⟩

/-- **simple_lookup.**  For every item list (any mix of keyed and unkeyed items, address 0 included) whose
symbol keys determine their values, and every symbol: looking the symbol up in the list that `end_list` stores
returns the value of the pair keyed by that symbol, or "absent" — never an error. -/
theorem simple_lookup (view : SView) (items : List Nat) (s : Nat)
    (hread : ReadableS view items) (hf : KeysFunctional (keyOfS view) items) :
    ∃ o, endListSimple items = .ok (items, o) ∧
      lookupSimple view o s = .ok (Spec.lookup (keyOfS view) s items) := by
  obtain ⟨o, ho, inv⟩ := endListSimple_ok items
  refine ⟨o, ho, ?_⟩
  have hmem := inv.slot_mem rfl
  have hk : ∀ (j a : Nat), o[j]? = some a → keyedValue view a = .ok (keyOfS view a) :=
    fun j a h => keyedValue_eq (hread a (hmem j a h))
  unfold lookupSimple
  by_cases hn : o.size = 0
  · -- the empty list
    have : items = [] := List.eq_nil_of_length_eq_zero (by rw [← inv.size]; exact hn)
    subst this
    simp [hn, Spec.lookup]
  · simp only [hn, if_false]
    have hpos : 0 < o.size := Nat.pos_of_ne_zero hn
    have hi : s % o.size < o.size := Nat.mod_lt _ hpos
    cases hl : Spec.lookup (keyOfS view) s items with
    | none =>
      have hnone := Spec.lookup_none.mp hl
      exact lookupLoop_absent rfl hk (fun j a h => hnone a (hmem j a h)) _ _ hi
    | some r =>
      obtain ⟨a, ha, hka⟩ := Spec.lookup_some hl
      -- the keyed item sits in some slot (address 0 could only be found through a zero slot, which exists then)
      have hslot : ∃ z : Nat, o[z]? = some a := by
        by_cases h0 : a = 0
        · subst h0
          have hc : 0 < o.count 0 := by
            have := inv.room
            have : 0 < items.count 0 := List.count_pos_iff.mpr ha
            omega
          exact Array.mem_iff_getElem?.mp (Array.count_pos_iff.mp hc)
        · exact inv.complete a ha h0
      obtain ⟨z, hz⟩ := hslot
      have hzn : z < o.size := by
        by_cases h : z < o.size
        · exact h
        · rw [Array.getElem?_eq_none (by omega)] at hz; cases hz
      refine lookupLoop_present rfl hk hzn ⟨a, hz, keyMatch_some.mpr hka⟩ ?_ _ _ hi
        (Nat.le_of_lt (dist_lt hi hzn))
      intro j a' r' hj hm
      exact hf a' a s r' r (hmem j a' hj) ha (keyMatch_some.mp hm) hka

/-- the same for items whose symbol keys are pairwise distinct (the hypothesis of the property) -/
theorem simple_lookup_distinct (view : SView) (items : List Nat) (s : Nat)
    (hread : ReadableS view items) (hd : KeysDistinct (keyOfS view) items) :
    ∃ o, endListSimple items = .ok (items, o) ∧
      lookupSimple view o s = .ok (Spec.lookup (keyOfS view) s items) :=
  simple_lookup view items s hread hd.functional

/-- duplicate keys are outside the property, and there the stores differ from the specification: Simple answers
in probe order.  Items 4 and 7 are both keyed by symbol 5; the scan for 5 starts at slot 5 % 2 = 1, which holds
item 7 (7 % 2 = 1), so the later item's value 11 is returned although item 4 (value 10) was inserted first. -/
theorem simple_duplicate_keys_probe_order :
    let view : SView := fun a =>
      if a = 3 then some (.sym 5) else if a = 4 then some (.pair 3 10) else if a = 7 then some (.pair 3 11)
      else if a ≤ 11 then some .other else none
    ∃ o, endListSimple [4, 7] = .ok ([4, 7], o) ∧ lookupSimple view o 5 = .ok (some 11) ∧
      Spec.lookup (keyOfS view) 5 [4, 7] = some 10 := by
  exact ⟨#[4, 7], rfl, rfl, rfl⟩

/-! ### length, indexing, iteration on Simple -/

variable {view : SView} {addr : Nat} {items : List Nat} {assoc : Array Nat}

theorem simple_len (h : view addr = some (.list items assoc)) : listLenSimple view addr = .ok items.length := by
  simp [listLenSimple, h]

theorem asUsize_nonneg {k : Nat} (hk : k < 2 ^ 64) : asUsize (k : Int) = k := by
  unfold asUsize
  have : ((k : Int) % (2 ^ 64 : Int)) = (k : Int) := Int.emod_eq_of_lt (by omega) (by exact_mod_cast hk)
  rw [this]; simp

/-- data level, Simple: `get_list_item` yields the k-th item inside the range … -/
theorem simple_nth_in_range (h : view addr = some (.list items assoc)) (k : Nat) (hk : k < items.length)
    (hsmall : items.length < 2 ^ 64) :
    listItemSimple view addr (k : Int) = .ok (some items[k]) := by
  simp [listItemSimple, h, asUsize_nonneg (Nat.lt_trans hk hsmall), hk]

/-- … and no item — not an error — outside it, negative indices included (`i32 as usize` is huge) -/
theorem simple_nth_out_of_range (h : view addr = some (.list items assoc)) (i : Int)
    (hi : i < 0 ∨ (items.length : Int) ≤ i) (hi32 : -(2 ^ 31 : Int) ≤ i ∧ i < 2 ^ 31)
    (hsmall : items.length < 2 ^ 63) :
    listItemSimple view addr i = .ok none := by
  simp only [listItemSimple, h]
  congr 1
  apply List.getElem?_eq_none
  unfold asUsize
  rcases hi with hneg | hge
  · have : i % (2 ^ 64 : Int) = i + 2 ^ 64 := by
      rw [← Int.add_emod_right]
      exact Int.emod_eq_of_lt (by omega) (by omega)
    rw [this]; omega
  · have : i % (2 ^ 64 : Int) = i := Int.emod_eq_of_lt (by omega) (by omega)
    rw [this]; omega

theorem simple_iter_is_items (h : view addr = some (.list items assoc)) :
    listIterSimple view addr = .ok items := by
  simp [listIterSimple, h]

/-! ## runtime level: `index_list` (both stores go through it) -/

/-- **nth_out_of_range.**  Whatever the data implementation answers outside the range (Simple: `None`, Basic: an
error beyond the end and item 0 for a negative index), `index_list` reports no item — not an error. -/
theorem nth_out_of_range (n : Nat) (item : Int → Outcome (Option Nat)) (i : Int)
    (hi : i < 0 ∨ (n : Int) ≤ i) : indexList (.ok n) item i = .ok .none := by
  unfold indexList
  rcases hi with h | h
  · simp [h]
  · by_cases hneg : i < 0
    · simp [hneg]
    · simp [hneg, h]

/-- **nth_in_range.**  Inside the range `index_list` hands back what `get_list_item` returns. -/
theorem nth_in_range (n : Nat) (item : Int → Outcome (Option Nat)) (k : Nat) (a : Nat) (hk : k < n)
    (hitem : item (k : Int) = .ok (some a)) : indexList (.ok n) item (k : Int) = .ok (.item a) := by
  unfold indexList
  have h1 : ¬ ((k : Int) < 0) := by omega
  have h2 : ¬ ((k : Int) ≥ (n : Int)) := by omega
  simp [h1, h2, hitem]

/-- Simple through `index_list` -/
theorem simple_index_list (h : view addr = some (.list items assoc)) (hsmall : items.length < 2 ^ 63) (i : Int)
    (hi32 : -(2 ^ 31 : Int) ≤ i ∧ i < 2 ^ 31) :
    indexList (listLenSimple view addr) (listItemSimple view addr) i =
      .ok (if 0 ≤ i then match items[i.toNat]? with | some a => .item a | none => .none else .none) := by
  rw [simple_len h]
  by_cases hneg : i < 0
  · rw [nth_out_of_range _ _ _ (Or.inl hneg)]
    simp [show ¬ (0 ≤ i) by omega]
  · have h0 : 0 ≤ i := by omega
    simp only [h0, if_true]
    by_cases hge : (items.length : Int) ≤ i
    · rw [nth_out_of_range _ _ _ (Or.inr hge)]
      rw [List.getElem?_eq_none (by omega)]
    · have hk : i.toNat < items.length := by omega
      have := nth_in_range items.length (listItemSimple view addr) i.toNat items[i.toNat] hk
        (simple_nth_in_range h i.toNat hk (by omega))
      rw [Int.toNat_of_nonneg h0] at this
      rw [this, List.getElem?_eq_getElem hk]

/-! ## BasicGarnishData: the binary search -/

/-- the symbol of an associative item (0 for anything else) -/
def keyAt (arr : Array BCell) (j : Nat) : Nat :=
  match arr[j]? with
  | some (.assoc k _) => k
  | _ => 0

def AllAssoc (arr : Array BCell) : Prop := ∀ j, j < arr.size → ∃ k v, arr[j]? = some (.assoc k v)

/-- ordered by symbol (not necessarily strictly) -/
def SortedKeys (arr : Array BCell) : Prop := ∀ i j, i ≤ j → j < arr.size → keyAt arr i ≤ keyAt arr j

theorem searchLoop_spec (arr : Array BCell) (s : Nat) (hall : AllAssoc arr) (hs : SortedKeys arr) :
    ∀ size base, 1 ≤ size → base + size ≤ arr.size → (base = 0 ∨ keyAt arr base ≤ s) →
      (∀ j, base + size ≤ j → j < arr.size → s < keyAt arr j) →
      ∃ b, searchLoop arr s base size = .ok b ∧ b < arr.size ∧ (b = 0 ∨ keyAt arr b ≤ s) ∧
        (∀ j, b < j → j < arr.size → s < keyAt arr j) := by
  intro size
  induction size using Nat.strongRecOn with
  | ind size ih =>
    intro base h1 hb hlow hhigh
    rw [searchLoop]
    by_cases hgt : size > 1
    · simp only [hgt, dite_true]
      have hmid : base + size / 2 < arr.size := by omega
      obtain ⟨k, v, hkv⟩ := hall (base + size / 2) hmid
      simp only [hkv]
      have hk : keyAt arr (base + size / 2) = k := by simp [keyAt, hkv]
      by_cases hc : compare k s = .gt
      · simp only [hc, if_true]
        apply ih (size - size / 2) (by omega) base (by omega) (by omega) hlow
        intro j hj hjs
        have h2 := hs (base + size / 2) j (by omega) hjs
        rw [hk] at h2
        have : s < k := Nat.compare_eq_gt.mp hc
        omega
      · simp only [hc, if_false]
        have hks : k ≤ s := by
          rcases Nat.lt_or_ge s k with h | h
          · exact absurd (Nat.compare_eq_gt.mpr h) hc
          · exact h
        apply ih (size - size / 2) (by omega) (base + size / 2) (by omega) (by omega) (Or.inr (by rw [hk]; exact hks))
        intro j hj hjs
        exact hhigh j (by omega) hjs
    · simp only [hgt, dite_false]
      exact ⟨base, rfl, by omega, hlow, fun j hj hjs => hhigh j (by omega) hjs⟩

/-- **binsearch_correct.**  On associative items ordered by symbol the search (`while size > 1` with `half`, then
one final comparison) never errs or panics; it returns an index holding the symbol when the symbol is present
and "absent" exactly when no item carries it. -/
theorem binsearch_correct (arr : Array BCell) (s : Nat) (hall : AllAssoc arr) (hs : SortedKeys arr) :
    (∃ idx, searchAssoc arr s = .ok (some idx) ∧ idx < arr.size ∧ keyAt arr idx = s) ∨
    (searchAssoc arr s = .ok none ∧ ∀ j, j < arr.size → keyAt arr j ≠ s) := by
  unfold searchAssoc
  by_cases h0 : arr.size = 0
  · right
    simp only [h0, if_true, true_and]
    intro j hj; omega
  · simp only [h0, if_false]
    obtain ⟨b, hb, hbs, hlow, hhigh⟩ := searchLoop_spec arr s hall hs arr.size 0 (by omega) (by omega) (Or.inl rfl)
      (fun j hj hjs => by omega)
    rw [hb]
    obtain ⟨k, v, hkv⟩ := hall b hbs
    have hk : keyAt arr b = k := by simp [keyAt, hkv]
    simp only [hkv]
    by_cases hks : k = s
    · left
      exact ⟨b, by simp [hks], hbs, by rw [hk]; exact hks⟩
    · right
      simp only [hks, if_false, true_and]
      intro j hj heq
      rcases Nat.lt_or_ge b j with h | h
      · have := hhigh j h hj; omega
      · have h2 := hs j b h hbs
        rcases hlow with hb0 | hle
        · have : j = b := by omega
          subst this; rw [hk] at heq; exact hks heq
        · rw [hk] at hle h2; omega

/-- with strictly increasing symbols the index found is the only one -/
theorem binsearch_unique (arr : Array BCell) (s : Nat)
    (hstrict : ∀ i j, i < j → j < arr.size → keyAt arr i < keyAt arr j)
    (i j : Nat) (hi : i < arr.size) (hj : j < arr.size) (h1 : keyAt arr i = s) (h2 : keyAt arr j = s) : i = j := by
  rcases Nat.lt_trichotomy i j with h | h | h
  · have := hstrict i j h hj; omega
  · exact h
  · have := hstrict j i h hi; omega

/-! ## BasicGarnishData: what `end_list`'s sort establishes -/

def isAssoc : BCell → Bool
  | .assoc _ _ => true
  | _ => false

/-- association slots hold associative items or nothing -/
def IsSlot (c : BCell) : Prop := isAssoc c = true ∨ c = .empty

/-- a sorted slot list is its associative items followed by its empty slots -/
theorem sorted_slots_split : ∀ (l : List BCell), (∀ c ∈ l, IsSlot c) → l.Pairwise cellLe →
    l = l.filter isAssoc ++ l.filter (fun c => !isAssoc c)
  | [], _, _ => by simp
  | x :: xs, hsl, hp => by
    have hp' := List.pairwise_cons.mp hp
    have ih := sorted_slots_split xs (fun c hc => hsl c (List.mem_cons_of_mem _ hc)) hp'.2
    by_cases hx : isAssoc x = true
    · simp only [List.filter_cons, hx, if_true, Bool.not_true, Bool.false_eq_true, if_false, List.cons_append]
      rw [← ih]
    · have hxe : x = .empty := by
        rcases hsl x List.mem_cons_self with h | h
        · exact absurd h hx
        · exact h
      -- everything behind an empty slot is empty
      have hall : ∀ y ∈ xs, isAssoc y = false := by
        intro y hy
        have hle := hp'.1 y hy
        rw [hxe] at hle
        cases y with
        | assoc s v => exact (hle rfl).elim
        | _ => rfl
      have h1 : xs.filter isAssoc = [] := List.filter_eq_nil_iff.mpr (fun y hy => by simp [hall y hy])
      have h2 : xs.filter (fun c => !isAssoc c) = xs := List.filter_eq_self.mpr (fun y hy => by simp [hall y hy])
      have hx' : isAssoc x = false := by simpa using hx
      simp [List.filter_cons, hx', h1, h2]

/-- **sort_puts_assoc_first.**  The ordering `end_list` establishes on the association slots, which the binary
search relies on: the sorted slots are a permutation of the slots written by `add_to_list`; the `k`
associative items (`k` = number of non-empty slots, the count stored in the header) come first, in
non-decreasing symbol order; only empty slots follow. -/
theorem sort_puts_assoc_first (slots : List BCell) (hsl : ∀ c ∈ slots, IsSlot c) :
    let sorted := sortStable slots
    let k := slots.countP (fun c => c != .empty)
    sorted.Perm slots ∧
    sorted = sorted.filter isAssoc ++ List.replicate (slots.length - k) .empty ∧
    (sorted.filter isAssoc).length = k ∧
    (sorted.filter isAssoc).Pairwise cellLe := by
  intro sorted k
  have hperm : sorted.Perm slots := sortStable_perm slots
  have hsorted : sorted.Pairwise cellLe := sortStable_sorted slots
  have hsl' : ∀ c ∈ sorted, IsSlot c := fun c hc => hsl c (hperm.mem_iff.mp hc)
  have hsplit := sorted_slots_split sorted hsl' hsorted
  -- on slots "not empty" and "associative" coincide
  have hcnt : ∀ l : List BCell, (∀ c ∈ l, IsSlot c) → l.countP (fun c => c != .empty) = (l.filter isAssoc).length := by
    intro l hl
    rw [List.countP_eq_length_filter]
    congr 1
    apply List.filter_congr
    intro c hc
    rcases hl c hc with h | h
    · cases c with
      | assoc s v => simp [isAssoc]
      | _ => simp [isAssoc] at h
    · subst h; simp [isAssoc]
  have hk : (sorted.filter isAssoc).length = k := by
    have h1 := hcnt sorted hsl'
    have h2 : sorted.countP (fun c => c != .empty) = k := hperm.countP_eq _
    omega
  have hempties : sorted.filter (fun c => !isAssoc c) = List.replicate (slots.length - k) .empty := by
    apply List.eq_replicate_iff.mpr
    constructor
    · have hl : sorted.length = slots.length := hperm.length_eq
      have := congrArg List.length hsplit
      simp only [List.length_append] at this
      omega
    · intro c hc
      have hc' := List.mem_filter.mp hc
      rcases hsl' c hc'.1 with h | h
      · simp [h] at hc'
      · exact h
  refine ⟨hperm, ?_, hk, List.Pairwise.filter _ hsorted⟩
  rw [← hempties]
  exact hsplit

/-! ## BasicGarnishData: symbol look-up in a built list -/

/-- what `end_list` leaves in the heap for the list of `items` built over heap `h` -/
structure ListAt (h : BHeap) (items : List Nat) (g : BHeap) (li : Nat) : Prop where
  hdr : g[li]? = some (.list items.length ((items.map (slotOf h)).countP (fun c => c != .empty)))
  bound : li + 1 + 2 * items.length ≤ g.size
  itm : ∀ (i a : Nat), items[i]? = some a → g[li + 1 + i]? = some (.listItem a)
  slt : ∀ j, j < items.length → g[li + 1 + items.length + j]? = (sortStable (items.map (slotOf h)))[j]?

theorem slotOf_isSlot (h : BHeap) (a : Nat) : IsSlot (slotOf h a) := by
  unfold slotOf IsSlot
  cases keyOfB h a with
  | none => right; rfl
  | some p => left; rfl

theorem slotOf_assoc {h : BHeap} {a s r : Nat} : slotOf h a = .assoc s r ↔ keyOfB h a = some (s, r) := by
  unfold slotOf
  cases keyOfB h a with
  | none => simp
  | some p => obtain ⟨s', r'⟩ := p; simp

/-- **basic_lookup (layout form).**  In a heap that holds the list of `items` as `end_list` leaves it, for every
item list whose symbol keys determine their values and every symbol, `get_list_item_with_symbol` returns the
value of the pair keyed by that symbol, or "absent" — never an error, never a panic. -/
theorem basic_lookup_at (h g : BHeap) (items : List Nat) (li s : Nat) (L : ListAt h items g li)
    (hf : KeysFunctional (keyOfB h) items) :
    lookupBasic g li s = .ok (Spec.lookup (keyOfB h) s items) := by
  have hsl : ∀ c ∈ items.map (slotOf h), IsSlot c := by
    intro c hc
    obtain ⟨a, _, rfl⟩ := List.mem_map.mp hc
    exact slotOf_isSlot h a
  obtain ⟨hperm, hsplit, hk, hpw⟩ := sort_puts_assoc_first (items.map (slotOf h)) hsl
  generalize hA : (sortStable (items.map (slotOf h))).filter isAssoc = A at hsplit hk hpw
  generalize hkk : (items.map (slotOf h)).countP (fun c => c != .empty) = k at hk hsplit
  have hkn : k ≤ items.length := by
    rw [← hkk]; have := List.countP_le_length (p := fun c => c != BCell.empty) (l := items.map (slotOf h)); simpa using this
  -- the slice the search runs on is exactly the associative items
  have hslice : g.extract (li + items.length + 1) (li + items.length + 1 + k) = A.toArray := by
    apply Array.ext_getElem?
    intro j
    rw [Array.getElem?_extract]
    by_cases hj : j < k
    · have h1 : j < min (li + items.length + 1 + k) g.size - (li + items.length + 1) := by
        have := L.bound; omega
      rw [if_pos h1]
      have := L.slt j (by omega)
      rw [show li + items.length + 1 + j = li + 1 + items.length + j by omega, this, hsplit]
      rw [List.getElem?_append_left (by omega)]
      simp
    · have h1 : ¬ (j < min (li + items.length + 1 + k) g.size - (li + items.length + 1)) := by omega
      rw [if_neg h1]
      simp; omega
  have hmemA : ∀ c, c ∈ A ↔ (c ∈ items.map (slotOf h) ∧ isAssoc c = true) := by
    intro c
    rw [← hA, List.mem_filter, hperm.mem_iff]
  have hallA : AllAssoc A.toArray := by
    intro j hj
    have hj' : j < A.length := by simpa using hj
    have hm : A[j] ∈ A := List.getElem_mem hj'
    have := ((hmemA _).mp hm).2
    cases hc : A[j] with
    | assoc k' v' => exact ⟨k', v', by simp [hj', hc]⟩
    | _ => rw [hc] at this; simp [isAssoc] at this
  have hkeyA : ∀ j (hj : j < A.length) k' v', A[j] = .assoc k' v' → keyAt A.toArray j = k' := by
    intro j hj k' v' hc
    simp [keyAt, hj, hc]
  have hsortA : SortedKeys A.toArray := by
    intro i j hij hj
    have hj' : j < A.length := by simpa using hj
    rcases Nat.lt_or_ge i j with hlt | hge
    · have hi' : i < A.length := by omega
      have hle := (List.pairwise_iff_getElem.mp hpw) i j hi' hj' hlt
      obtain ⟨k1, v1, h1⟩ := hallA i (by simpa using hi')
      obtain ⟨k2, v2, h2⟩ := hallA j hj
      have e1 : A[i] = .assoc k1 v1 := by simpa [hi'] using h1
      have e2 : A[j] = .assoc k2 v2 := by simpa [hj'] using h2
      rw [hkeyA i hi' k1 v1 e1, hkeyA j hj' k2 v2 e2]
      rw [e1, e2] at hle
      unfold cellLe cmpCell at hle
      rcases Nat.lt_or_ge k2 k1 with h' | h'
      · exact absurd (Nat.compare_eq_gt.mpr h') hle
      · exact h'
    · have : i = j := by omega
      subst this; exact Nat.le_refl _
  unfold lookupBasic
  rw [L.hdr]
  simp only [hkk]
  have hb : ¬ (li + items.length + 1 + k > g.size) := by have := L.bound; omega
  simp only [hb, if_false, hslice]
  rcases binsearch_correct A.toArray s hallA hsortA with ⟨idx, hfound, hidx, hkey⟩ | ⟨hnone, hno⟩
  · rw [hfound]
    obtain ⟨k', v', hcell⟩ := hallA idx hidx
    simp only [hcell]
    have hidx' : idx < A.length := by simpa using hidx
    have e : A[idx] = .assoc k' v' := by simpa [hidx'] using hcell
    have hk' : k' = s := by rw [← hkey, hkeyA idx hidx' k' v' e]
    subst hk'
    have hm : BCell.assoc k' v' ∈ A := e ▸ List.getElem_mem hidx'
    obtain ⟨a, ha, hsa⟩ := List.mem_map.mp ((hmemA _).mp hm).1
    rw [Spec.lookup_of_mem hf ha (slotOf_assoc.mp hsa)]
  · rw [hnone]
    simp only []
    symm
    congr 1
    apply Spec.lookup_none.mpr
    intro a ha
    cases hm : keyMatch (keyOfB h a) s with
    | none => rfl
    | some r =>
      exfalso
      have hka := keyMatch_some.mp hm
      have hmem : BCell.assoc s r ∈ A := (hmemA _).mpr ⟨List.mem_map.mpr ⟨a, ha, slotOf_assoc.mpr hka⟩, rfl⟩
      obtain ⟨j, hj, hcj⟩ := List.getElem_of_mem hmem
      exact hno j (by simpa using hj) (hkeyA j hj s r hcj)


theorem endListBasic_layout {h g : BHeap} {items : List Nat} (inv : AddInv h items.length items g) :
    ∃ g', endListBasic g h.size = .ok (g', h.size) ∧ ListAt h items g' h.size ∧
      (∀ i, i < h.size → g'[i]? = h[i]?) := by
  have hsz := inv.size
  have hslots : (g.extract (h.size + 1 + items.length) (h.size + 1 + items.length + items.length)).toList
      = items.map (slotOf h) := by
    apply List.ext_getElem?
    intro j
    rw [Array.getElem?_toList, Array.getElem?_extract, List.getElem?_map]
    by_cases hj : j < items.length
    · rw [if_pos (by omega)]
      have := inv.slt j items[j] (List.getElem?_eq_getElem hj)
      rw [this, List.getElem?_eq_getElem hj]; rfl
    · rw [if_neg (by omega), List.getElem?_eq_none (by omega)]; rfl
  unfold endListBasic
  rw [inv.hdr]
  simp only [show ¬ (items.length < items.length) by omega, if_false,
    show ¬ (h.size + 1 + items.length + items.length > g.size) by omega, hslots]
  refine ⟨_, rfl, ?_, ?_⟩
  · have hlen : (sortStable (items.map (slotOf h))).length = items.length := by
      have := (sortStable_perm (items.map (slotOf h))).length_eq; simpa using this
    have hpre : (g.extract 0 (h.size + 1 + items.length)).size = h.size + 1 + items.length := by
      simp; omega
    constructor
    · rw [Array.getElem?_setIfInBounds, if_pos rfl, if_pos (by simp; omega)]
    · simp; omega
    · intro i a hia
      have hi : i < items.length := by
        by_cases hi : i < items.length
        · exact hi
        · rw [List.getElem?_eq_none (by omega)] at hia; cases hia
      rw [Array.getElem?_setIfInBounds, if_neg (by omega), Array.getElem?_append, Array.getElem?_append]
      rw [if_pos (by simp; omega), if_pos (by simp; omega), Array.getElem?_extract, if_pos (by omega)]
      simpa using inv.itm i a hia
    · intro j hj
      rw [Array.getElem?_setIfInBounds, if_neg (by omega), Array.getElem?_append, Array.getElem?_append]
      rw [if_pos (by simp; omega), if_neg (by simp; omega)]
      simp only [hpre]
      rw [show h.size + 1 + items.length + j - (h.size + 1 + items.length) = j by omega]
      simp
  · intro i hi
    rw [Array.getElem?_setIfInBounds, if_neg (by omega), Array.getElem?_append, Array.getElem?_append]
    rw [if_pos (by simp; omega), if_pos (by simp; omega), Array.getElem?_extract, if_pos (by omega)]
    simpa using inv.old i hi

/-- **basic_lookup.**  `start_list; add_to_list…; end_list` on any heap whose item addresses are earlier cells
succeeds (no error, no panic) and leaves the heap untouched below the new list; looking any symbol up in the
new list returns the value of the pair keyed by that symbol or "absent". -/
theorem basic_lookup (h : BHeap) (items : List Nat) (s : Nat) (hread : ReadableB h items)
    (hf : KeysFunctional (keyOfB h) items) :
    ∃ g, buildListBasic h items = .ok (g, h.size) ∧ (∀ i, i < h.size → g[i]? = h[i]?) ∧
      lookupBasic g h.size s = .ok (Spec.lookup (keyOfB h) s items) := by
  obtain ⟨g1, hg1, inv⟩ := addAll_inv items [] (startList h items.length).1 (startList_inv h items.length)
    (by simp) hread
  simp only [List.nil_append] at inv
  obtain ⟨g, hg, L, hold⟩ := endListBasic_layout inv
  refine ⟨g, ?_, hold, basic_lookup_at h g items h.size s L hf⟩
  unfold buildListBasic
  rw [hg1]
  exact hg


/-! ### length, indexing, iteration on Basic -/

section basicNth
variable {h g : BHeap} {items : List Nat} {li : Nat}

theorem basic_len (L : ListAt h items g li) : listLenBasic g li = .ok items.length := by
  simp [listLenBasic, L.hdr]

/-- data level, Basic: inside the range `get_list_item` yields the k-th item -/
theorem basic_nth_in_range (L : ListAt h items g li) (k : Nat) (hk : k < items.length) :
    listItemBasic g li (k : Int) = .ok (some items[k]) := by
  unfold listItemBasic
  rw [L.hdr]
  have hm : (max (k : Int) 0).toNat = k := by omega
  have hneg : ¬ ((k : Int) < 0) := by omega
  simp only [hneg, hm, show ¬ (k ≥ items.length) by omega, if_false]
  rw [L.itm k items[k] (List.getElem?_eq_getElem hk)]

/-- FINDING (data level, Basic): beyond the end `get_list_item` is an error, not "no item"
(pinned by the repository test `get_list_item_invalid_index`; masked by `index_list` at the runtime level) -/
theorem basic_nth_beyond_is_error (L : ListAt h items g li) (i : Int) (hi : (items.length : Int) ≤ i) :
    listItemBasic g li i = .err .data := by
  unfold listItemBasic
  rw [L.hdr]
  have : (max i 0).toNat ≥ items.length := by omega
  have hneg : ¬ (i < 0) := by omega
  simp only [hneg, this, if_true, if_false]

/-- data level, Basic: a negative index is no item (repaired: it used to be clamped to the first item) -/
theorem basic_nth_negative_is_none (L : ListAt h items g li) (i : Int) (hi : i < 0) :
    listItemBasic g li i = .ok none := by
  unfold listItemBasic
  rw [L.hdr]
  simp [hi]

/-- Basic through `index_list`: the item inside the range, no item — not an error — outside it -/
theorem basic_index_list (L : ListAt h items g li) (i : Int) :
    indexList (listLenBasic g li) (listItemBasic g li) i =
      .ok (if 0 ≤ i then match items[i.toNat]? with | some a => .item a | none => .none else .none) := by
  rw [basic_len L]
  by_cases hneg : i < 0
  · rw [nth_out_of_range _ _ _ (Or.inl hneg)]
    simp [show ¬ (0 ≤ i) by omega]
  · have h0 : 0 ≤ i := by omega
    simp only [h0, if_true]
    by_cases hge : (items.length : Int) ≤ i
    · rw [nth_out_of_range _ _ _ (Or.inr hge)]
      rw [List.getElem?_eq_none (by omega)]
    · have hk : i.toNat < items.length := by omega
      have := nth_in_range items.length (listItemBasic g li) i.toNat items[i.toNat] hk
        (basic_nth_in_range L i.toNat hk)
      rw [Int.toNat_of_nonneg h0] at this
      rw [this, List.getElem?_eq_getElem hk]

theorem listItemsOf_map (xs : List Nat) : listItemsOf (xs.map BCell.listItem) = .ok xs := by
  induction xs with
  | nil => rfl
  | cons x xs ih => simp [listItemsOf, ih]

/-- **iter_is_items** (Basic): iteration yields the items in insertion order -/
theorem basic_iter_is_items (L : ListAt h items g li) : listIterBasic g li = .ok items := by
  unfold listIterBasic
  rw [L.hdr]
  have hb := L.bound
  simp only [show ¬ (li + 1 + items.length > g.size) by omega, if_false]
  have : (g.extract (li + 1) (li + 1 + items.length)).toList = items.map BCell.listItem := by
    apply List.ext_getElem?
    intro j
    rw [Array.getElem?_toList, Array.getElem?_extract, List.getElem?_map]
    by_cases hj : j < items.length
    · rw [if_pos (by omega), L.itm j items[j] (List.getElem?_eq_getElem hj), List.getElem?_eq_getElem hj]; rfl
    · rw [if_neg (by omega), List.getElem?_eq_none (by omega)]; rfl
  rw [this, listItemsOf_map]

end basicNth


/-! ## concatenations (value level): look-up = look-up in the flattened sequence -/

section concat
variable {F : Type}
open Garnish.Abs

theorem lookupSym_append (s : Nat) (a b : List (Val F)) :
    lookupSym s (a ++ b) = (lookupSym s a).orElse (fun _ => lookupSym s b) := by
  induction a with
  | nil => simp [lookupSym]
  | cons x xs ih =>
    cases x <;> simp [lookupSym, ih]
    rename_i l r
    cases l <;> simp [lookupSym, ih]
    split <;> simp

/-- symbol `s` keys items of at most one operand of every concatenation node -/
def KeyOnce (s : Nat) : Val F → Prop
  | .concat l r => KeyOnce s l ∧ KeyOnce s r ∧ (lookupSym s (flatItems l) = none ∨ lookupSym s (flatItems r) = none)
  | _ => True

/-- **concat_lookup.**  When a symbol keys items of at most one operand (in particular when the symbol keys of the
flattened sequence are distinct), the reverse traversal of `access_with_symbol` finds exactly what a look-up in
the flattened item sequence finds. -/
theorem concat_lookup (s : Nat) : (v : Val F) → KeyOnce s v → lookupRev s v = lookupSym s (flatItems v)
  | .concat l r, h => by
    have hl := concat_lookup s l h.1
    have hr := concat_lookup s r h.2.1
    simp only [lookupRev, flatItems, lookupSym_append, hl, hr]
    rcases h.2.2 with h0 | h0 <;> rw [h0] <;> cases lookupSym s (flatItems r) <;> cases lookupSym s (flatItems l) <;> simp_all
  | .list items, _ => by simp [lookupRev, flatItems]
  | .unit, _ | .tru, _ | .fls, _ | .num _, _ | .char _, _ | .byte _, _ | .sym _, _ | .expr _, _ | .ext _, _
  | .type _, _ | .chars _, _ | .bytes _, _ | .symList _, _ | .pair _ _, _ | .range _ _, _ | .slice _ _, _
  | .part _ _, _ | .custom, _ => by simp [lookupRev, flatItems]

end concat

end Garnish.Props.C16
