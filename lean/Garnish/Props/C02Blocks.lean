/-
C02 with side-effect blocks: `refParseB` (Spec/RefParseB.lean) — the reference grammar extended with `[ body ]` as the
parser treats it — is a conservative extension of `refParse` (`C02_refParseB_conservative`), and agrees with the parser
model on a grid of inputs that covers every rule of the extension (`C02_refParseB_grid`, by evaluation):
  (A) `v [b]` right child of the value, also inside larger expressions (`5 [6], 1`, `a + v [b] * d`, nested blocks);
  (B) `e + [b]`, `e + [b] v`, `e, [b] v`, `e <blank> [b] v`, `([b] v)`, `{[b] v}`, `a . [b] c` (Property);
  (C) `[b]`, `[b] v`, `[b] v` after whitespace (a list), `[b] + c`, `[ ]`, separators inside a block;
  (D) `(e) [b]`: FINDING F-C18-side-effect-after-group mirrored — the block is spliced inside the group;
  and the syntax errors `v [a]c` after whitespace before `[`, `a + [b] + c`, `(a + [b])`.
Shapes where the parser accepts and `refParseB` answers `unsupported` (NOT mirrored: the parser silently drops or rearranges
nodes there) are listed in `C02_refParseB_unsupported`.
PARTIAL: the agreement is per input.  A theorem "for every token list of a fragment `toTree (parse toks) = refParseB toks`"
would need the induction of Lemmas/ParserB9 … B26 re-targeted from `refLoop` to `refLoopB` (its statements `OpdOK` / `ExprOK` /
`ListOpdOK` name `refLoop Table.gen` explicitly), i.e. edits of the existing lemma files.
-/
import Garnish.Lemmas.RefParseB1
import Garnish.Props.C02Parse
namespace Garnish.Props.C02Blocks
open Garnish Garnish.Gen Garnish.Spec Garnish.Model.Parser Garnish.Props.C02Parse

/-- **conservative extension**: without `[` / `]` tokens `refParseB` is `refParse` -/
theorem C02_refParseB_conservative (toks : List PToken) (hn : ∀ t ∈ toks, noBlockTok t = true) :
    refParseB Table.gen toks = refParse Table.gen toks := refParseB_conservative toks hn

/-- the tree of the parser model, read as a reference tree -/
def parseTree (toks : List PToken) : Outcome RTree :=
  match parse toks with
  | .ok r =>
    match toTree r with
    | some t => .ok (treeToRG r t)
    | none => .err .other
  | .err e => .err e
  | .panic s => .panic s
  | .fuelOut => .fuelOut

def agree (toks : List PToken) : Bool :=
  match parseTree toks, refParseB Table.gen toks with
  | .ok a, .ok b => decide (a = b)
  | .err e, .err e' => decide (e = e')
  | _, _ => false

def mk (l : List (TokenType × String)) : List PToken := l.zipIdx.map (fun x => tk x.1.1 x.1.2 x.2)

def I (s : String) : TokenType × String := (.identifier, s)
def N (s : String) : TokenType × String := (.number, s)
def W : TokenType × String := (.whitespace, " ")
def BL : TokenType × String := (.subexpression, "\n\n")
def LP : TokenType × String := (.startGroup, "(")
def RP : TokenType × String := (.endGroup, ")")
def LB : TokenType × String := (.startExpression, "{")
def RB : TokenType × String := (.endExpression, "}")
def LS : TokenType × String := (.startSideEffect, "[")
def RS : TokenType × String := (.endSideEffect, "]")
def PL : TokenType × String := (.plusSign, "+")
def ML : TokenType × String := (.multiplicationSign, "*")
def CM : TokenType × String := (.comma, ",")
def DOT : TokenType × String := (.period, ".")

def grid : List (List PToken) :=
  [ -- (A)
    mk [N "5", W, LS, N "6", RS], mk [N "5", LS, N "6", RS, CM, W, N "1"], mk [I "v", LS, I "a", RS, W, I "c"],
    mk [I "v", W, LS, I "a", RS, W, I "c"], mk [I "a", PL, I "v", LS, I "b", RS, ML, I "d"],
    mk [I "v", LS, I "a", LS, I "b", RS, RS], mk [I "v", LS, I "a", PL, I "b", RS, ML, I "c"],
    mk [I "x", (.pair, "="), I "v", LS, I "a", RS], mk [LP, I "v", LS, I "a", RS, RP],
    mk [LB, I "v", LS, I "a", RS, BL, I "w", RB], mk [(.opposite, "--"), I "v", LS, I "a", RS],
    mk [I "v", LS, I "a", RS, W, PL, W, I "c"],
    -- (B)
    mk [I "a", PL, LS, I "b", RS], mk [I "a", PL, LS, I "b", RS, W, I "c"], mk [I "a", PL, LS, I "b", RS, I "c"],
    mk [I "a", PL, LS, I "b", RS, W, I "c", ML, I "d"], mk [I "a", CM, LS, I "b", RS, I "c"],
    mk [I "a", BL, LS, I "b", RS, I "c"], mk [LP, LS, I "b", RS, W, I "c", RP], mk [LB, LS, I "b", RS, W, I "c", RB],
    mk [I "a", DOT, LS, I "b", RS, I "c"],
    -- (C)
    mk [LS, I "b", RS], mk [LS, I "b", RS, I "c"], mk [LS, I "b", RS, W, I "c"], mk [LS, I "b", RS, PL, I "c"],
    mk [LS, RS], mk [LS, BL, I "a", RS], mk [LS, I "a", BL, I "b", RS], mk [LS, I "a", BL, RS],
    -- (D) the finding
    mk [LP, I "a", RP, LS, I "b", RS], mk [LP, I "a", PL, I "x", RP, W, LS, I "b", RS],
    -- syntax errors
    mk [I "v", W, LS, I "a", RS, I "c"], mk [I "a", PL, LS, I "b", RS, PL, I "c"],
    mk [LP, I "a", PL, LS, I "b", RS, RP, ML, I "c"],
    mk [LP, I "a", RP, LS, I "b", RS, PL, I "c"] ]

/-- **the extension mirrors the parser** on the grid -/
theorem C02_refParseB_grid : grid.all agree = true := by decide

/-- two entries spelled out: `5 [6], 1` and the finding `(a) [b]` -/
theorem C02_refParseB_examples :
    refParseB Table.gen (mk [N "5", LS, N "6", RS, CM, W, N "1"]) =
      .ok (.node (.node .nil .number 0 (.node .nil .sideEffect 1 (.node .nil .number 2 .nil))) .commaList 4
        (.node .nil .number 6 .nil)) ∧
    parseTree (mk [N "5", LS, N "6", RS, CM, W, N "1"]) = refParseB Table.gen (mk [N "5", LS, N "6", RS, CM, W, N "1"]) ∧
    refParseB Table.gen (mk [LP, I "a", RP, LS, I "b", RS]) =
      .ok (.group .group 0 (.node (.node .nil .identifier 1 .nil) .sideEffect 3 (.node .nil .identifier 4 .nil))) ∧
    parseTree (mk [LP, I "a", RP, LS, I "b", RS]) = refParseB Table.gen (mk [LP, I "a", RP, LS, I "b", RS]) := by
  refine ⟨rfl, rfl, rfl, rfl⟩

/-- accepted by the parser, `unsupported` in `refParseB` (not mirrored): a block after a suffix operator (`a~~ [b]`),
    a second block (`v [a] [b]`, `[a] [b]`), a pending block directly before a closer (`([b])`: the parser drops it) -/
theorem C02_refParseB_unsupported :
    ([mk [I "a", (.emptyApply, "~~"), LS, I "b", RS], mk [I "v", LS, I "a", RS, LS, I "b", RS],
      mk [LS, I "a", RS, W, LS, I "b", RS], mk [LP, LS, I "b", RS, RP]].all
        (fun l => (parse l).isOk && (match refParseB Table.gen l with | .err .unsupported => true | _ => false))) = true := by decide

end Garnish.Props.C02Blocks
