/-
Runtime refinement, part 3b (C16 anchors): look-ups INTO a concatenation. traits/src/helpers/concatenation.rs
(`iterate_concatenation_mut_with_method`, Model/Runtime/Concatenation.lean) is a register work-list like
`perform_equality_check`: operands are pushed on the register stack, popped, expanded (a nested concatenation pushes
its two operands, a list is scanned by an inner index loop, anything else is one item), with a running index, until
the check function answers or the borrowed registers are used up; then the remaining borrowed registers are popped.

* `C16_refine_iterate_concatenation`: for ANY check function that refines a value-level check (`CheckRefines`), any
  nesting of concatenations and lists, forwards or reversed: the result is the first item in visiting order
  (`visit`, `firstHit`) that the check accepts, with its running index; every borrowed register is given back and
  nothing else changes (`Eff`); fuel `nodes vl + nodes vr + 1` suffices.
* `C16_refine_index_concatenation`: `index_concatenation_for` at an integer index is Abs/Ops `accessInt` on a
  concatenation — the `i`-th of the flattened items in order, nothing outside.
* `C16_refine_concat_symbol`: `access_with_symbol` on a concatenation is Abs/Ops `accessSym` (`lookupRev`: operands
  right to left, items of a list operand forward, the first pair keyed by the symbol wins).
Hypotheses: `StoreLaws`, `Decodes`, the fuel bound, the flattened length ≤ `i32::MAX` (the running index is a
`Data::Number`).
-/
import Garnish.Lemmas.RuntimeConcat2
import Garnish.Lemmas.RuntimeRefStore
set_option linter.unusedSimpArgs false
set_option linter.unusedVariables false
namespace Garnish.Props.RuntimeRefine
open Garnish Gen Garnish.Abs Garnish.Model.Equality Garnish.Model.Runtime Garnish.Lemmas.Runtime

variable {F σ : Type} {S : RStore F σ} (fo : FloatOps F)

/-- the work-list, for any check function -/
theorem C16_refine_iterate_concatenation (L : StoreLaws S) (rev : Bool)
    {checkFn : Unit → Number F → Nat → RM σ (Option Nat × Unit)} {vchk : Nat → Val F → Option (Val F)}
    (hchk : CheckRefines S checkFn vchk) (fuel : Nat) {s : σ} {addr : Nat} {vl vr : Val F}
    (h : Decodes (S.view s) addr (.concat vl vr)) (hf : nodes vl + nodes vr + 1 ≤ fuel)
    (hb : (visit rev (.concat vl vr)).length ≤ 2147483647) :
    ∃ r idx' s', iterateConcatenation fo S rev fuel addr checkFn () s = .ok (((r, idx'), ()), s') ∧
      Eff S s s' (S.regs s) (S.vals s) ∧
      match firstHit vchk 0 (visit rev (.concat vl vr)) with
      | some w => ∃ a, r = some a ∧ Decodes (S.view s') a w
      | none => r = none :=
  iterateConcatenation_spec fo L rev hchk fuel h hf hb

/-- forwards, the items visited are Abs/Ops `flatItems`; reversed, as many -/
theorem C16_visit_forward (v : Val F) : visit false v = flatItems v := visit_false v
theorem C16_visit_length (rev : Bool) (v : Val F) : (visit rev v).length = (flatItems v).length := visit_length rev v

/-- `index_concatenation_for` -/
theorem C16_refine_index_concatenation (L : StoreLaws S) (fuel : Nat) {s : σ} {addr : Nat} {vl vr : Val F} (i : Int)
    (h : Decodes (S.view s) addr (.concat vl vr)) (hf : nodes vl + nodes vr + 1 ≤ fuel)
    (hb : (flatItems vl ++ flatItems vr).length ≤ 2147483647) :
    AccOut S s (indexConcatenationFor fo S fuel addr (.int i) s) (accessInt fo (.int i) (.concat vl vr)) :=
  indexConcatenationFor_spec fo L fuel i h hf hb

/-- `access_with_symbol` on a concatenation -/
theorem C16_refine_concat_symbol (L : StoreLaws S) (fuel : Nat) {s : σ} {addr : Nat} {vl vr : Val F} (sym : Nat)
    (h : Decodes (S.view s) addr (.concat vl vr)) (hf : nodes vl + nodes vr + 1 ≤ fuel)
    (hb : (flatItems vl ++ flatItems vr).length ≤ 2147483647) :
    AccOut S s (accessWithSymbol fo S fuel sym addr s) (accessSym sym (.concat vl vr)) :=
  accessWithSymbol_concat_spec fo L fuel sym h hf hb

/-- what the reverse visit finds is Abs/Ops `lookupRev` -/
theorem C16_firstHit_lookupRev (sym : Nat) (v : Val F) (k : Nat) :
    firstHit (fun _ v => keyedVal sym v) k (visit true v) = lookupRev sym v := firstHit_visit_rev sym v k

/-! ### non-vacuity: a nested concatenation with a list operand and a shadowed key -/

/--
```
0: :k (symbol 7)   1: 10   2: :k = 10   3: 20   4: :k = 20   5: 30
6: [2, 5]          7: 6 <> 4      = (:k = 10), 30, (:k = 20)
8: 5 <> 7          = 30, (:k = 10), 30, (:k = 20)
```
-/
def catCells : List (RCell F) :=
  [.sym 7, .num (.int 10), .pair 0 1, .num (.int 20), .pair 0 3, .num (.int 30), .list [2, 5],
   .concat 6 4 [2, 5, 4], .concat 5 7 [5, 2, 5, 4]]

def k10 : Val F := .pair (.sym 7) (.num (.int 10))
def k20 : Val F := .pair (.sym 7) (.num (.int 20))
def n30 : Val F := .num (.int 30)
def cat7 : Val F := .concat (.list [k10, n30]) k20

theorem dec2 : Decodes (refView (catCells (F := F))) 2 k10 := .pair rfl rfl (.sym rfl rfl) (.num rfl rfl)
theorem dec4 : Decodes (refView (catCells (F := F))) 4 k20 := .pair rfl rfl (.sym rfl rfl) (.num rfl rfl)
theorem dec5 : Decodes (refView (catCells (F := F))) 5 n30 := .num rfl rfl
theorem dec6 : Decodes (refView (catCells (F := F))) 6 (.list [k10, n30]) :=
  .list rfl rfl (.cons dec2 (.cons dec5 .nil))
theorem dec7 : Decodes (refView (catCells (F := F))) 7 cat7 :=
  .concat rfl rfl dec6 dec4 (.list rfl rfl) (.other (t := .pair) rfl (by decide) (by decide)) rfl
theorem dec8 : Decodes (refView (catCells (F := F))) 8 (.concat n30 cat7) :=
  .concat rfl rfl dec5 dec7 (.other (t := .number) rfl (by decide) (by decide))
    (.concat rfl rfl (.list rfl rfl) (.other (t := .pair) rfl (by decide) (by decide))) rfl

/-- item 3 of `30 <> ([:k = 10, 30] <> (:k = 20))` is `:k = 20`: the theorem applies (registers `[77]` untouched) … -/
example : AccOut (refStore (fun _ => none)) (RefState.init (catCells (F := F)) [77])
    (indexConcatenationFor fo (refStore (fun _ => none)) 5 8 (.int 3) (RefState.init catCells [77]))
    (.some k20) := by
  have h := C16_refine_index_concatenation fo (refStore_laws (fun _ => none)) 5
    (s := RefState.init (catCells (F := F)) [77]) 3 dec8 (by simp [nodes, cat7, n30, k20])
    (by simp [flatItems, cat7, n30, k20])
  have e : accessInt fo (.int 3) (.concat n30 (cat7 (F := F))) = .some k20 := by
    simp [accessInt, flatItems, cat7, n30, k20, k10]
  rw [e] at h; exact h

/-- a trivial float implementation, to run the model on integers by kernel evaluation -/
def noFloats : FloatOps Unit where
  add _ _ := () ; sub _ _ := () ; mul _ _ := () ; div _ _ := () ; rem _ _ := () ; powf _ _ := ()
  neg _ := () ; abs _ := () ; ofInt _ := () ; one := ()
  isFinite _ := true ; isInfinite _ := false ; isNaN _ := false ; isZero _ := true ; ltZero _ := false
  trunc _ := () ; toI32? _ := some 0 ; toI32Sat _ := 0
  feq _ _ := true ; flt _ _ := false ; fle _ _ := true

/-- what a look-up returned and the registers it left (for the model runs below) -/
def lookupResult (res : Outcome (Option Nat × RefState F)) : Option (Option Nat × List Nat) :=
  match res with
  | .ok (r, s') => some (r, s'.regs)
  | _ => none

/-- … and the model run with fuel 5: address 4 (`:k = 20`), registers as before -/
example : lookupResult (indexConcatenationFor noFloats (refStore (fun _ => none)) 5 8 (.int 3)
    (RefState.init catCells [77])) = some (some 4, [77]) := by decide +kernel

/-- by symbol the RIGHTMOST operand wins: the value `20` of `:k = 20` (address 3), found first — the two borrowed
registers still pending are cleaned up -/
example : lookupResult (accessWithSymbol noFloats (refStore (fun _ => none)) 5 7 8
    (RefState.init catCells [77])) = some (some 3, [77]) := by decide +kernel

/-- too little fuel is reported (`fuelOut`), not answered -/
example : lookupResult (indexConcatenationFor noFloats (refStore (fun _ => none)) 2 8 (.int 3)
    (RefState.init catCells [77])) = none := by decide +kernel

end Garnish.Props.RuntimeRefine
