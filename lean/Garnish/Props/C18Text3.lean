/-
Property C18, TEXT level, part 3.

(1) Trailing whitespace at the end of the input, result half without hypotheses on the rewritten text.
`frag9'` (and `frag9`) REJECT a token list that ends with a Whitespace token (`frag9'_append_trivia_false`: the fragments
describe trimmed lists), so `C01_text_correct` cannot be applied to the rewritten text, and the hypothesis `hf'` of
`C18Text2.C18_text_trailing_result` is unsatisfiable for it. The right statement needs no fragment for the rewritten text:
the parser returns EXACTLY the same result, hence the whole pipeline does (`C18_text_trailing_build`, every input), and
the machine result follows from `C01_text_correct` for the ORIGINAL text alone (`C18_text_trailing_result'`).

(2) Trailing whitespace on a line (`TextTrailingLine`): see the second half of this file.
-/
import Garnish.Props.C18Text2
import Garnish.Lemmas.LexRewrite3
import Garnish.Props.C02Support
namespace Garnish.Props.C18Text3
open Garnish Garnish.Gen Garnish.Spec Garnish.Model Garnish.Model.Lexer Garnish.Model.Parser
open Garnish.Abs Garnish.Abs.Source Garnish.Props.C02Parse Garnish.Props.C18Parse Garnish.Props.C18Text
open Garnish.Abs.Tree Garnish.Model.Literals Garnish.Model.Build Garnish.Props.C01Build Garnish.Props.C01Source
open Garnish.Props.C02Numbered Garnish.Props.C18Text2

/-! ### (1) trailing whitespace at the end of the input -/

/-- the answer to "is `frag9' (a ++ [ws]) = frag9' a` for a Whitespace token?": NO — a list that ends with a trimmable
token is in neither fragment (they describe what `trim_tokens` leaves) -/
theorem frag9'_append_trivia_false (a : List PToken) (ws : PToken) (hw : isTrimmable ws = true) :
    frag9' (a ++ [ws]) = false ∧ frag9 (a ++ [ws]) = false := by
  have key : frag9 (a ++ [ws]) = false := by
    cases h : frag9 (a ++ [ws]) with
    | false => rfl
    | true =>
      exfalso
      have hn := (frag9_noTrim h).2.2
      simp [trimStart, hw] at hn
  refine ⟨?_, key⟩
  cases h : frag9' (a ++ [ws]) with
  | false => rfl
  | true => rw [frag9'_sub h] at key; cases key

/-- **every input**: the whole pipeline `build(parse(lex(·)))` returns the same result for the two texts -/
theorem C18_text_trailing_build {F : Type} (pf : List Char → Option F) (cc : CharClass) (hcc : cc.SaneBlank)
    (hcc2 : cc.Sane2) (s s' : List Char) (t : List LexerToken) (hl : lex cc s = .ok t) (h : TextTrailingAt cc s s') :
    C01Text.buildText pf cc s' = C01Text.buildText pf cc s := by
  obtain ⟨t', hl', hp, _⟩ := C18_text_trailing cc hcc hcc2 s s' t hl h
  simp only [C01Text.buildText, hl, hl', Outcome.bind, hp]

/-- **result half**, hypotheses about the ORIGINAL text only: if `s` lexes into `frag9'`, has the reference tree `rt`,
elaborates to a well-formed program `p` and `p` evaluates to `v` with trace `st.trace`, then both `s` and `s'` are built
into the same object, on which the machine halts with exactly that value and trace -/
theorem C18_text_trailing_result' {F : Type} (pf : List Char → Option F) (cc : CharClass) (hcc : cc.SaneBlank)
    (hcc2 : cc.Sane2) (fo : FloatOps F) (host : Host F) (s s' : List Char) (t : List LexerToken) (hl : lex cc s = .ok t)
    (h : TextTrailingAt cc s s') (hf : frag9' (toP t) = true)
    (rt : RTree) (href : refParse Table.gen (toP t) = .ok rt)
    (p : Program F) (hel : elaborate pf (toP t) rt = some p) (hwf : C01.WFProgram p)
    (input : Val F) (fuel : Nat) (v : Val F) (st : St F) (he : evalProgram fo host fuel p input = .ok (v, st)) :
    ∃ d entry, C01Text.buildText pf cc s = .ok (d, entry) ∧ C01Text.buildText pf cc s' = .ok (d, entry) ∧
      ∃ n m, run fo host (progOf d) n
          { pc := (progOf d).jumps[entry]?.getD 0, regs := [], vals := [input], frames := [], trace := [] } = (.halted m, n) ∧
        m.vals = [v] ∧ m.regs = [] ∧ m.frames = [] ∧ m.trace = st.trace := by
  obtain ⟨d, entry, hb, hrun⟩ := C01Text.C01_text_correct pf cc fo host s t hl hf rt href p hel hwf input fuel v st he
  exact ⟨d, entry, hb, by rw [C18_text_trailing_build pf cc hcc hcc2 s s' t hl h]; exact hb, hrun⟩

/-! ### (2) trailing whitespace on a line -/

/-- **blanks inserted directly before a newline**: `s = p ++ "\n" ++ b`, `s' = p ++ w ++ "\n" ++ b`, `w` a non-empty run of
spaces/tabs, where the lexer ends `p` with a pending number / float / identifier / annotation / operator or between tokens
(`TrailGuard`; when `p` already ends in whitespace the rewrite is an instance of `TextAddSpace`) -/
def TextTrailingLine (cc : CharClass) (s s' : List Char) : Prop :=
  ∃ p c r b, (c = ' ' ∨ c = '\t') ∧ (∀ x ∈ r, x = ' ' ∨ x = '\t') ∧ s = p ++ '\n' :: b ∧ s' = p ++ c :: (r ++ '\n' :: b) ∧
    TrailGuard cc p

/-- **through the lexer**: the same tokens except for the text of ONE whitespace token (the run that contains the
newline); its type is the same on both sides — Whitespace when a single newline follows, Subexpression when the run
contains a blank line (see the examples below) -/
theorem C18_text_trailing_line_lex (cc : CharClass) (hcc : cc.SaneBlank) (hcc2 : cc.Sane2) (s s' : List Char)
    (t : List LexerToken) (hl : lex cc s = .ok t) (h : TextTrailingLine cc s s') :
    ∃ t', lex cc s' = .ok t' ∧ OneWsChanged t t' := by
  obtain ⟨p, c, r, b, hc, hr, rfl, rfl, σ, toks, hrun, hG⟩ := h
  exact lex_trailing_line cc hcc hcc2 p c r b hc hr σ toks hrun hG t hl

/-! everything else is inherited from the chain for one changed whitespace token -/

/-- **every input**: the reference parser returns the same tree for two token lists that differ in one whitespace text -/
theorem C18_oneWsChanged_refParse (t t' : List LexerToken) (h : OneWsChanged t t') :
    refParse Table.gen (toP t') = refParse Table.gen (toP t) :=
  (refParse_types Table.gen h.sameTypes).symm

/-- **the real parser on `frag9`** (hypothesis on the original tokens only): both parse, to the same tree -/
theorem C18_oneWsChanged_parse (t t' : List LexerToken) (h : OneWsChanged t t') (hf : frag9 (toP t) = true) :
    ∃ r tr r' tr', parse (toP t) = .ok r ∧ toTree r = some tr ∧ parse (toP t') = .ok r' ∧ toTree r' = some tr' ∧
      treeToRG r tr = treeToRG r' tr' ∧ TreeEqTrivia (treeToRG r tr) (treeToRG r' tr') := by
  have hf' : frag9 (toP t') = true := by rw [← C02Support.frag9_toP h.sameTypes]; exact hf
  obtain ⟨r, tr, h1, h2, h3⟩ := C02_parse_correct_fragment_optional (toP t) hf (toP_numbered t)
  obtain ⟨r', tr', h1', h2', h3'⟩ := C02_parse_correct_fragment_optional (toP t') hf' (toP_numbered t')
  have href := C18_oneWsChanged_refParse t t' h
  rw [h3, h3'] at href
  have heq : treeToRG r tr = treeToRG r' tr' := by injection href with h; exact h.symm
  exact ⟨r, tr, r', tr', h1, h2, h1', h2', heq, by rw [TreeEqTrivia, heq]⟩

theorem C18_text_trailing_line (cc : CharClass) (hcc : cc.SaneBlank) (hcc2 : cc.Sane2) (s s' : List Char)
    (t : List LexerToken) (hl : lex cc s = .ok t) (h : TextTrailingLine cc s s') (hf : frag9 (toP t) = true) :
    ∃ t' r tr r' tr', lex cc s' = .ok t' ∧ parse (toP t) = .ok r ∧ toTree r = some tr ∧ parse (toP t') = .ok r' ∧
      toTree r' = some tr' ∧ treeToRG r tr = treeToRG r' tr' ∧ TreeEqTrivia (treeToRG r tr) (treeToRG r' tr') := by
  obtain ⟨t', hl', hc⟩ := C18_text_trailing_line_lex cc hcc hcc2 s s' t hl h
  obtain ⟨r, tr, r', tr', h1, h2, h3, h4, h5, h6⟩ := C18_oneWsChanged_parse t t' hc hf
  exact ⟨t', r, tr, r', tr', hl', h1, h2, h3, h4, h5, h6⟩

/-- **result half on `frag9'`**, hypotheses about the ORIGINAL text only -/
theorem C18_text_trailing_line_result {F : Type} (pf : List Char → Option F) (cc : CharClass) (hcc : cc.SaneBlank)
    (hcc2 : cc.Sane2) (fo : FloatOps F) (host : Host F) (s s' : List Char) (t : List LexerToken) (hl : lex cc s = .ok t)
    (h : TextTrailingLine cc s s') (hf : frag9' (toP t) = true)
    (rt : RTree) (href : refParse Table.gen (toP t) = .ok rt)
    (p : Program F) (hel : elaborate pf (toP t) rt = some p) (hwf : C01.WFProgram p)
    (input : Val F) (fuel : Nat) (v : Val F) (st : St F) (he : evalProgram fo host fuel p input = .ok (v, st)) :
    ∀ src ∈ [s, s'], ∃ d entry, C01Text.buildText pf cc src = .ok (d, entry) ∧
      ∃ n m, run fo host (progOf d) n
          { pc := (progOf d).jumps[entry]?.getD 0, regs := [], vals := [input], frames := [], trace := [] } = (.halted m, n) ∧
        m.vals = [v] ∧ m.regs = [] ∧ m.frames = [] ∧ m.trace = st.trace := by
  obtain ⟨t', hl', hc⟩ := C18_text_trailing_line_lex cc hcc hcc2 s s' t hl h
  have href' : refParse Table.gen (toP t') = .ok rt := by rw [C18_oneWsChanged_refParse t t' hc]; exact href
  have hel' : elaborate pf (toP t') rt = some p := by
    rw [C02Support.C18_text_addSpace_elaborate' pf t t' hc rt href]; exact hel
  have hf' : frag9' (toP t') = true := by rw [← C02Support.frag9'_toP hc.sameTypes]; exact hf
  intro src hsrc
  simp only [List.mem_cons, List.mem_nil_iff, or_false] at hsrc
  rcases hsrc with rfl | rfl
  · exact C01Text.C01_text_correct pf cc fo host _ t hl hf rt href p hel hwf input fuel v st he
  · exact C01Text.C01_text_correct pf cc fo host _ t' hl' hf' rt href' p hel' hwf input fuel v st he

/-! ### non-vacuity (Rust tables) -/

/-- `x +` newline `y`  →  `x + \t` newline `y` : licensed (the lexer ends `x +` with the pending operator) -/
theorem exLine : TextTrailingLine rustTables ['x', ' ', '+', '\n', 'y'] ['x', ' ', '+', ' ', '\t', '\n', 'y'] :=
  ⟨['x', ' ', '+'], ' ', ['\t'], ['y'], Or.inl rfl, by simp, rfl, rfl, trailGuard_of_check (by decide +kernel)⟩

/-- **a single newline**: the run stays ONE Whitespace token, with or without the trailing blanks -/
theorem exLine_single :
    C18Lex.typesTexts (lex rustTables ['x', ' ', '+', '\n', 'y']) =
      [(.identifier, ['x']), (.whitespace, [' ']), (.plusSign, ['+']), (.whitespace, ['\n']), (.identifier, ['y'])] ∧
    C18Lex.typesTexts (lex rustTables ['x', ' ', '+', ' ', '\t', '\n', 'y']) =
      [(.identifier, ['x']), (.whitespace, [' ']), (.plusSign, ['+']), (.whitespace, [' ', '\t', '\n']),
       (.identifier, ['y'])] := by decide +kernel

/-- **a blank line**: the run is ONE Subexpression token either way (the repaired behaviour) -/
theorem exLine_blank :
    C18Lex.typesTexts (lex rustTables ['x', '\n', '\n', 'y']) =
      [(.identifier, ['x']), (.subexpression, ['\n', '\n']), (.identifier, ['y'])] ∧
    C18Lex.typesTexts (lex rustTables ['x', ' ', ' ', '\n', '\n', 'y']) =
      [(.identifier, ['x']), (.subexpression, [' ', ' ', '\n', '\n']), (.identifier, ['y'])] ∧
    C18Lex.typesTexts (lex rustTables ['x', '\n', ' ', '\n', 'y']) =
      [(.identifier, ['x']), (.subexpression, ['\n', ' ', '\n']), (.identifier, ['y'])] := by decide +kernel

end Garnish.Props.C18Text3
