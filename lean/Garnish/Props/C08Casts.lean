/-
C08 / C07 for casts (`~#`, instruction ApplyType), on the value-level model `castOp` (Abs/Casts.lean), which the
OP correspondence suite ties to the real `type_cast` on both data implementations (tools/gen/castgen.py).

* `cast_defined_or_deferred`: for ALL operand values, a type pair outside the declarative table
  `Spec.castDefined` is exactly one offer `defer ApplyType left right` (so, by `C08.C08_defer_protocol`, the
  host is asked exactly once with both operands in source order; unit if it declines, its value unchanged
  if it accepts; exactly one result) and a pair inside the table is never offered.
* `C07_cast_*`: `OpOut` has no panic constructor, so totality is by construction (`C07_cast_total`, for the
  record); what is proved are the guards that stand where the Rust code indexes, counts or converts.
* exact results users can rely on, each with a non-vacuity example.
All statements hold for both data implementations unless they name one.
-/
import Garnish.Lemmas.Casts
import Garnish.Props.C08
set_option linter.unusedSimpArgs false
set_option linter.unusedVariables false
namespace Garnish.Props.C08Casts
open Garnish Gen Garnish.Abs Garnish.Lemmas

variable {F : Type} (fo : FloatOps F) (host : Host F) (env : CastEnv F)

/-! ### the target type -/

/-- a right operand that is not a `Type` value stands for its own type -/
theorem castTarget_of_value (r : Val F) (h : r.typeOf ≠ .type_) : castTarget r = r.typeOf := by
  cases r <;> simp [castTarget, Val.typeOf] at h ⊢

theorem castTarget_of_type (t : Ty) : castTarget (F := F) (.type t) = t := rfl

/-! ### C08: undefined pairs are offered to the host, defined pairs never are -/

/-- outside the table the cast is exactly one offer, with the operation and both operands in source order -/
theorem cast_undefined_deferred (l r : Val F) (h : Spec.castDefined l.typeOf (castTarget r) = false) :
    castOp fo env l r = .defer .applyType l r := by
  unfold castOp
  generalize castTarget r = rt at h ⊢
  cases l <;> cases rt <;> simp [Spec.castDefined, Val.typeOf] at h <;> simp [castCore, Val.typeOf]

/-- inside the table the cast is never handed to the host: it is a value or a runtime error -/
theorem cast_defined_not_deferred (l r : Val F) (h : Spec.castDefined l.typeOf (castTarget r) = true) :
    isDefer (castOp fo env l r) = false := by
  unfold castOp
  generalize castTarget r = rt at h ⊢
  by_cases heq : l.typeOf = rt
  · simp [heq, isDefer]
  · simp only [heq, if_false]
    cases rt
    case charList => simp only [castCore]; split <;> rfl
    case byteList => exact byteListFrom_not_defer env l
    case symbol => exact symbolFrom_not_defer env l
    case list =>
      cases l <;> simp [Spec.castDefined, Val.typeOf] at h heq <;> simp only [castCore] <;>
        first
          | exact buildList_not_defer _ _ _
          | exact rangeToList_not_defer fo _ _ _
          | exact sliceToList_not_defer fo _ _ _
          | rfl
    case number =>
      cases l <;> simp [Spec.castDefined, Val.typeOf] at h heq <;> simp [castCore, isDefer]
    case char =>
      cases l with
      | num n => cases n <;> rfl
      | chars cs => cases cs with
        | nil => rfl
        | cons c cs => cases cs <;> rfl
      | _ => simp [Spec.castDefined, Val.typeOf] at h heq <;> rfl
    case byte =>
      cases l with
      | num n => cases n <;> rfl
      | _ => simp [Spec.castDefined, Val.typeOf] at h heq <;> rfl
    case true => simp only [castCore]; split <;> rfl
    case false => simp only [castCore]; split <;> rfl
    all_goals
      cases l <;> simp [Spec.castDefined, Val.typeOf] at h heq <;> simp [castCore, isDefer]

/-- both directions in one statement, for all values `l`, `r` (not only representatives) -/
theorem cast_defined_or_deferred (l r : Val F) :
    (Spec.castDefined l.typeOf (castTarget r) = false → castOp fo env l r = .defer .applyType l r) ∧
    (Spec.castDefined l.typeOf (castTarget r) = true → ∀ op a b, castOp fo env l r ≠ .defer op a b) := by
  refine ⟨cast_undefined_deferred fo env l r, ?_⟩
  intro h op a b hc
  have := cast_defined_not_deferred fo env l r h
  rw [hc] at this
  simp [isDefer] at this

/-- the same for a right operand that is an ordinary value: the pair of the operands' own types decides -/
theorem cast_defined_or_deferred_value (l r : Val F) (hr : r.typeOf ≠ .type_) :
    (Spec.castDefined l.typeOf r.typeOf = false → castOp fo env l r = .defer .applyType l r) ∧
    (Spec.castDefined l.typeOf r.typeOf = true → ∀ op a b, castOp fo env l r ≠ .defer op a b) := by
  have := cast_defined_or_deferred fo env l r
  rwa [castTarget_of_value r hr] at this

/-- machine level (statement shape of `C08.C08_defer_protocol` / `C08_step_undefined_binary`): pushing the
outcome of an undefined cast performs exactly one host call `defer ApplyType l r` (recorded in the trace),
pushes exactly one result — the host's value unchanged, or unit if it declines — never fails, and changes
nothing else -/
theorem cast_undefined_protocol (s : MState F) (l r : Val F)
    (h : Spec.castDefined l.typeOf (castTarget r) = false) :
    pushOut host s (castOp fo env l r) = .ok { s with
      regs := (match host.defer .applyType l r with | some v => v | none => .unit) :: s.regs,
      trace := HostCall.defer .applyType l r :: s.trace } := by
  rw [cast_undefined_deferred fo env l r h]
  exact C08.C08_defer_protocol host s .applyType l r

/-- a defined cast never reaches the host: the trace is unchanged whatever the outcome -/
theorem cast_defined_no_host_call (s s' : MState F) (l r : Val F)
    (h : Spec.castDefined l.typeOf (castTarget r) = true)
    (hp : pushOut host s (castOp fo env l r) = .ok s') : s'.trace = s.trace := by
  have hd := cast_defined_not_deferred fo env l r h
  cases hc : castOp fo env l r with
  | val v => rw [hc] at hp; simp [pushOut] at hp; subst hp; rfl
  | defer op a b => rw [hc] at hd; simp [isDefer] at hd
  | err e => rw [hc] at hp; simp [pushOut] at hp

/-! non-vacuity: both sides of the table are inhabited, on concrete operands -/
example : Spec.castDefined Ty.symbol Ty.number = false := by decide
example : Spec.castDefined Ty.charList Ty.number = true := by decide
example : castOp fo env (.sym 5) (.num (.int 1)) = .defer .applyType (.sym 5) (.num (.int 1)) :=
  cast_undefined_deferred fo env _ _ rfl
example : castOp fo env (.pair (.num (.int 1)) .unit) (.type .list) = .defer .applyType (.pair (.num (.int 1)) .unit) (.type .list) :=
  cast_undefined_deferred fo env _ _ rfl
example : isDefer (castOp fo env (.chars [49, 50]) (.type .number)) = false :=
  cast_defined_not_deferred fo env _ _ rfl
example : castTarget (F := F) (.chars [97]) = .charList := castTarget_of_value _ (by simp [Val.typeOf])
example : castOp fo env (.part .unit .unit) (.type .number) = .defer .applyType (.part .unit .unit) (.type .number) :=
  (cast_defined_or_deferred fo env _ _).1 rfl
example : ∀ op a b, castOp fo env (.byte 7) (.num (.int 0)) ≠ .defer op a b :=
  (cast_defined_or_deferred_value fo env _ _ (by simp [Val.typeOf])).2 rfl
example (s : MState F) : pushOut host s (castOp fo env (.byte 7) (.type .number)) = .ok { s with regs := .num (.int 7) :: s.regs } ∧
    ({ s with regs := Val.num (.int 7) :: s.regs } : MState F).trace = s.trace :=
  ⟨by simp [castOp, castCore, castTarget, Val.typeOf, pushOut], rfl⟩
example (s : MState F) : pushOut Host.declining s (castOp fo env (.sym 5) (.num (.int 1))) =
    .ok { s with regs := .unit :: s.regs, trace := HostCall.defer .applyType (.sym 5) (.num (.int 1)) :: s.trace } :=
  cast_undefined_protocol fo Host.declining env s _ _ rfl

/-! ### C07: totality and the guards at the Rust panic sites -/

/-- a cast is a value, an offer or a runtime error value — nothing else (by construction of `OpOut`; for the record) -/
theorem C07_cast_total (l r : Val F) :
    (∃ v, castOp fo env l r = .val v) ∨ (∃ op a b, castOp fo env l r = .defer op a b) ∨ (∃ e, castOp fo env l r = .err e) := by
  cases h : castOp fo env l r with
  | val v => exact .inl ⟨v, rfl⟩
  | defer op a b => exact .inr (.inl ⟨op, a, b, rfl⟩)
  | err e => exact .inr (.inr ⟨e, rfl⟩)

/-- range → list on i32: the list has exactly `max 0 (end − start + 1)` items, item `i` is `start + i`; a
descending range is the empty list.  The announced length equals the number of items pushed, so neither
data implementation refuses it, and no increment follows the last item (/repo 5455df2), so every i32 end —
i32::MAX included — is fine.  (Hypotheses: the ends are i32, `end − start` and the length fit i32 — otherwise
`range_len` is a number error, `C07_cast_range_len_overflow`.) -/
theorem C07_cast_range_length (s e : Int) (r : Val F) (hr : castTarget r = .list)
    (hs : InRange s) (he : InRange e) (hl1 : InRange (e - s)) (hl2 : InRange (e - s + 1)) :
    castOp fo env (.range (.num (.int s)) (.num (.int e))) r =
      .val (.list ((intsFrom s (e - s + 1).toNat).map (fun i => .num (.int i)))) ∧
    (intsFrom s (e - s + 1).toNat).length = (e - s + 1).toNat ∧
    (e < s → (intsFrom s (e - s + 1).toNat) = []) := by
  unfold InRange at hs he
  refine ⟨?_, intsFrom_length _ _, ?_⟩
  · simp only [castOp, hr, Val.typeOf, castCore, rangeToList, rangeLen_int fo s e hl1 hl2, numToSize,
      rangeItems_int fo _ s e (by omega) (by omega) rfl]
    simp only [reduceCtorEq, if_false, List.map_map]
    cases env.store <;> simp [buildList, intsFrom_length, Function.comp_def]
  · intro h
    have : (e - s + 1).toNat = 0 := by omega
    simp [this, intsFrom]

/-- a range whose stored end is i32::MAX converts like any other (before /repo 5455df2 the increment after the
last item overflowed and the cast failed): the items `s … i32::MAX` -/
theorem C07_cast_range_max (s : Int) (r : Val F) (hr : castTarget r = .list) (hs : 1 ≤ s) (hs2 : s ≤ 2147483647) :
    castOp fo env (.range (.num (.int s)) (.num (.int 2147483647))) r =
      .val (.list ((intsFrom s (2147483647 - s + 1).toNat).map (fun i => .num (.int i)))) :=
  (C07_cast_range_length fo env s 2147483647 r hr (by unfold InRange; omega) (by unfold InRange; omega)
    (by unfold InRange; omega) (by unfold InRange; omega)).1

/-- a range whose length does not fit i32 (e.g. `0 … i32::MAX` as stored) is a number error, before anything is
allocated -/
theorem C07_cast_range_len_overflow (s e : Int) (r : Val F) (hr : castTarget r = .list)
    (hs : InRange s) (he : InRange e) (h : 2147483647 < e - s + 1) :
    castOp fo env (.range (.num (.int s)) (.num (.int e))) r = .err .number := by
  simp [castOp, hr, Val.typeOf, castCore, rangeToList, rangeLen_int_overflow fo s e hs he h]

/-- the text / byte-list getter of the slice loops never leaves the sequence: the answer is an element that
IS in the sequence, "no item" (unit), or a data error -/
theorem C07_cast_slice_index_guarded (st : StoreKind) (mk : Nat → Val F) (xs : List Nat) (i : Number F) :
    (∃ (k : Nat) (c : Nat), xs[k]? = some c ∧ sliceSeqItem fo st mk xs i = .ok (mk c)) ∨
    sliceSeqItem fo st mk xs i = .ok .unit ∨ sliceSeqItem fo st mk xs i = .error .data := by
  cases st
  · cases i with
    | int k =>
      by_cases hk : k < 0
      · simp [sliceSeqItem, hk]
      · cases hx : xs[k.toNat]? with
        | none => simp [sliceSeqItem, hk, hx]
        | some c => exact .inl ⟨k.toNat, c, hx, by simp [sliceSeqItem, hk, hx]⟩
    | float f => simp [sliceSeqItem]
  · cases hx : xs[numToSize fo i]? with
    | none => simp [sliceSeqItem, hx]
    | some c => exact .inl ⟨_, c, hx, by simp [sliceSeqItem, hx]⟩

/-- the same for slices of lists -/
theorem C07_cast_slice_item_guarded (st : StoreKind) (items : List (Val F)) (i : Number F) :
    (∃ (k : Nat) (x : Val F), items[k]? = some x ∧ sliceListItem fo st items i = .ok x) ∨
    sliceListItem fo st items i = .ok .unit ∨ sliceListItem fo st items i = .error .data := by
  cases st
  · cases i with
    | int k =>
      by_cases hk : k < 0
      · simp [sliceListItem, hk]
      · cases hx : items[k.toNat]? with
        | none => simp [sliceListItem, hk, hx]
        | some x => exact .inl ⟨k.toNat, x, hx, by simp [sliceListItem, hk, hx]⟩
    | float f => simp [sliceListItem]
  · by_cases hz : numLtZero fo i = true
    · simp [sliceListItem, hz]
    · cases hx : items[numToSize fo i]? with
      | none => simp [sliceListItem, hz, hx]
      | some x => exact .inl ⟨_, x, hx, by simp [sliceListItem, hz, hx]⟩

/-- SimpleGarnishData, slice of a list with i32 range ends: `end − start + 1` items; positions outside the
list are unit — the extent is not an index into the list -/
theorem C07_cast_slice_list_simple (showF : F → Txt) (items : List (Val F)) (s e : Int) (r : Val F)
    (hr : castTarget r = .list) (hs : InRange s) (he : InRange e) (hmax : e < 2147483647)
    (hl1 : InRange (e - s)) (hl2 : InRange (e - s + 1)) :
    castOp fo ⟨.simple, showF⟩ (.slice (.list items) (.range (.num (.int s)) (.num (.int e)))) r =
      .val (.list ((intsFrom s (e - s + 1).toNat).map
        (fun i => if i < 0 then .unit else items[i.toNat]?.getD .unit))) := by
  unfold InRange at hs he
  have hget : ∀ i ∈ (intsFrom s (e - s + 1).toNat).map (Number.int (F := F)),
      sliceListItem fo .simple items i =
        .ok ((fun i : Number F => match i with
          | .int k => if k < 0 then Val.unit else items[k.toNat]?.getD .unit
          | .float _ => .unit) i) := by
    intro i hi
    simp only [List.mem_map] at hi
    obtain ⟨k, _, rfl⟩ := hi
    by_cases hk : k < 0 <;> simp [sliceListItem, hk]
  simp only [castOp, hr, Val.typeOf, castCore, sliceToList, rangeLen_int fo s e hl1 hl2, numToSize, sliceLoop,
    loopFuel, countLoop_int fo _ s e (by omega) hmax (Nat.le_succ _)]
  simp only [reduceCtorEq, if_false, Bool.false_eq_true, mapItems_ok _ _ _ hget, buildList, List.map_map]
  congr 2

/-- SimpleGarnishData, slice of a text that lies inside the text: exactly the characters `start … end` -/
theorem C07_cast_slice_chars_simple (showF : F → Txt) (cs : List Nat) (s e : Int) (r : Val F)
    (hr : castTarget r = .list) (hs : 0 ≤ s) (hse : s ≤ e + 1) (he : e < cs.length) (hlen : (cs.length : Int) < 2147483647) :
    castOp fo ⟨.simple, showF⟩ (.slice (.chars cs) (.range (.num (.int s)) (.num (.int e)))) r =
      .val (.list ((intsFrom s (e - s + 1).toNat).map (fun i => .char (cs[i.toNat]?.getD 0)))) := by
  have hl1 : InRange (e - s) := by unfold InRange; omega
  have hl2 : InRange (e - s + 1) := by unfold InRange; omega
  have hn : (e + 1 - s).toNat = (e - s + 1).toNat := by omega
  have hget : ∀ i ∈ (intsFrom s (e - s + 1).toNat).map (Number.int (F := F)),
      sliceSeqItem fo .simple .char cs i =
        .ok ((fun i : Number F => match i with
          | .int k => Val.char (cs[k.toNat]?.getD 0)
          | .float _ => .unit) i) := by
    intro i hi
    simp only [List.mem_map] at hi
    obtain ⟨k, hk, rfl⟩ := hi
    have hb := mem_intsFrom _ _ _ hk
    have hk0 : ¬ k < 0 := by omega
    have hlt : k.toNat < cs.length := by omega
    simp [sliceSeqItem, hk0, List.getElem?_eq_getElem hlt]
  have hcl := countLoop_int_strict fo ((e - s + 1).toNat + 1) s (e + 1) (by omega) (by omega) (by omega)
  rw [hn] at hcl
  simp only [castOp, hr, Val.typeOf, castCore, sliceToList, rangeLen_int fo s e hl1 hl2, numToSize, sliceLoop,
    loopFuel, cast_increment_int fo e (by omega) (by omega), hcl]
  simp only [reduceCtorEq, if_false, Bool.false_eq_true, mapItems_ok _ _ _ hget, buildList, List.map_map]
  congr 2

/-- the primitive conversions are guarded: a number becomes a character / byte only inside 0..255
(`(v as u8)` for characters: the value modulo 256 — `char::from(u8)` cannot fail), a character becomes a byte
modulo 256, fractions have no character or byte; nothing here can panic -/
theorem C07_cast_primitive_guards (v : Int) (c b : Nat) (f : F) (rc rb rn : Val F)
    (hc : castTarget rc = .char) (hb : castTarget rb = .byte) (hn : castTarget rn = .number) :
    castOp fo env (.num (.int v)) rc = .val (.char (v % 256).toNat) ∧ (v % 256).toNat < 256 ∧
    castOp fo env (.num (.int v)) rb = .val (if 0 ≤ v ∧ v ≤ 255 then .byte v.toNat else .unit) ∧
    castOp fo env (.num (.float f)) rc = .val .unit ∧ castOp fo env (.num (.float f)) rb = .val .unit ∧
    castOp fo env (.char c) rb = .val (.byte (c % 256)) ∧ c % 256 < 256 ∧
    castOp fo env (.char c) rn = .val (.num (.int c)) ∧
    castOp fo env (.byte b) rn = .val (.num (.int b)) ∧
    castOp fo env (.byte b) rc = .val (.char b) := by
  refine ⟨?_, by omega, ?_, ?_, ?_, ?_, by omega, ?_, ?_, ?_⟩ <;>
    simp [castOp, castCore, hc, hb, hn, Val.typeOf]

/-! non-vacuity of the guards -/
example : ∃ v, castOp fo env (.byte 7) (.type .number) = .val v :=
  ⟨.num (.int 7), by simp [castOp, castCore, castTarget, Val.typeOf]⟩
example : sliceSeqItem fo .simple .char [97] (.int 0) = .ok (.char 97) := rfl
example : sliceSeqItem fo .simple .char [97] (.int 5) = .error .data := rfl
example : sliceSeqItem fo .simple .char [97] (.int (-1)) = .error .data := rfl
example : sliceSeqItem fo .basic .byte [97] (.int 5) = .ok .unit := rfl
example : sliceListItem fo .simple [Val.tru] (.int 5) = .ok .unit := rfl
example : sliceListItem fo .basic [Val.tru] (.int 0) = .ok .tru := by simp [sliceListItem, numLtZero, numToSize]
example : sliceListItem fo .basic [Val.tru] (.int 5) = .error .data := by simp [sliceListItem, numLtZero, numToSize]
example : castOp fo env (.range (.num (.int 2)) (.num (.int 6))) (.type .list) =
    .val (.list [.num (.int 2), .num (.int 3), .num (.int 4), .num (.int 5), .num (.int 6)]) :=
  (C07_cast_range_length fo env 2 6 _ rfl (by decide) (by decide) (by decide) (by decide)).1
example : castOp fo env (.range (.num (.int 5)) (.num (.int 2))) (.type .list) = .val (.list []) :=
  (C07_cast_range_length fo env 5 2 _ rfl (by decide) (by decide) (by decide) (by decide)).1
example : castOp fo env (.range (.num (.int 2147483645)) (.num (.int 2147483647))) (.list []) =
    .val (.list [.num (.int 2147483645), .num (.int 2147483646), .num (.int 2147483647)]) :=
  C07_cast_range_max fo env _ _ rfl (by decide) (by decide)
example : castOp fo env (.range (.num (.int 0)) (.num (.int 2147483647))) (.type .list) = .err .number :=
  C07_cast_range_len_overflow fo env _ _ _ rfl (by decide) (by decide) (by decide)
example (showF : F → Txt) :
    castOp fo ⟨.simple, showF⟩ (.slice (.list [.tru, .fls]) (.range (.num (.int (-1))) (.num (.int 2)))) (.type .list) =
      .val (.list [.unit, .tru, .fls, .unit]) :=
  C07_cast_slice_list_simple fo showF _ (-1) 2 _ rfl (by decide) (by decide) (by decide) (by decide) (by decide)
example (showF : F → Txt) :
    castOp fo ⟨.simple, showF⟩ (.slice (.chars [97, 98, 99]) (.range (.num (.int 1)) (.num (.int 2)))) (.type .list) =
      .val (.list [.char 98, .char 99]) :=
  C07_cast_slice_chars_simple fo showF _ 1 2 _ rfl (by decide) (by decide) (by decide) (by decide)
example : castOp fo env (.num (.int 353)) (.type .char) = .val (.char 97) :=
  (C07_cast_primitive_guards fo env 353 0 0 fo.one _ (.type .byte) (.type .number) rfl rfl rfl).1
example : castOp fo env (.num (.int 300)) (.type .byte) = .val .unit :=
  (C07_cast_primitive_guards fo env 300 0 0 fo.one (.type .char) _ (.type .number) rfl rfl rfl).2.2.1

/-! ### exact results -/

/-- a value of the target type is left alone -/
theorem cast_same_type (l r : Val F) (h : l.typeOf = castTarget r) : castOp fo env l r = .val l := by
  simp [castOp, h]

/-- list → list is the identity on the items -/
theorem cast_list_identity (items : List (Val F)) (r : Val F) (hr : castTarget r = .list) :
    castOp fo env (.list items) r = .val (.list items) :=
  cast_same_type fo env _ _ (by simp [Val.typeOf, hr])

/-- a text converts to the list of its characters, in order — for every text -/
theorem cast_chars_to_list (cs : List Nat) (r : Val F) (hr : castTarget r = .list) :
    castOp fo env (.chars cs) r = .val (.list (cs.map .char)) := by
  simp only [castOp, hr, Val.typeOf, castCore]
  cases env.store <;> simp [buildList]

/-- a byte list converts to the list of its bytes, in order -/
theorem cast_bytes_to_list (bs : List Nat) (r : Val F) (hr : castTarget r = .list) :
    castOp fo env (.bytes bs) r = .val (.list (bs.map .byte)) := by
  simp only [castOp, hr, Val.typeOf, castCore]
  cases env.store <;> simp [buildList]

/-- a concatenation converts to the flat list of its items, in iteration order -/
theorem cast_concat_to_list (a b r : Val F) (hr : castTarget r = .list) :
    castOp fo env (.concat a b) r = .val (.list (flatItems a ++ flatItems b)) := by
  simp only [castOp, hr, Val.typeOf, castCore]
  cases env.store <;> simp [buildList]

/-- an integer converts to its decimal text (both data implementations) -/
theorem cast_int_to_text (v : Int) (r : Val F) (hr : castTarget r = .charList) :
    castOp fo env (.num (.int v)) r = .val (.chars (showInt v)) := by
  simp only [castOp, hr, Val.typeOf, castCore, textOf]
  cases env.store
  · show (match simpleText env.showF (999 + 1) 0 (.num (.int v)) [] with
        | .ok t => OpOut.val (.chars t) | .error e => .err e) = _
    simp [simpleText, showNumber]
  · simp [basicText, showNumber]

/-- a text converts to the number `str::parse::<i32>` reads, unit when it reads none -/
theorem cast_text_to_int (cs : List Nat) (r : Val F) (hr : castTarget r = .number) :
    castOp fo env (.chars cs) r = .val (match parseI32 cs with | some v => .num (.int v) | none => .unit) := by
  simp only [castOp, hr, Val.typeOf, castCore, reduceCtorEq, if_false]
  cases parseI32 cs <;> rfl

/-- number → text → number is the identity for every i32 -/
theorem cast_number_text_roundtrip (v : Int) (hv : InRange v) (rt rn : Val F)
    (ht : castTarget rt = .charList) (hn : castTarget rn = .number) :
    ∃ t, castOp fo env (.num (.int v)) rt = .val (.chars t) ∧ castOp fo env (.chars t) rn = .val (.num (.int v)) := by
  refine ⟨showInt v, cast_int_to_text fo env v rt ht, ?_⟩
  rw [cast_text_to_int fo env _ rn hn, parseI32_showInt v hv]

/-- `() ~# T` is unit for every target that is not one of the five that accept everything -/
theorem cast_unit_source (r : Val F) (h1 : castTarget r ≠ .charList) (h2 : castTarget r ≠ .byteList)
    (h3 : castTarget r ≠ .symbol) (h4 : castTarget r ≠ .true) (h5 : castTarget r ≠ .false) :
    castOp fo env .unit r = .val .unit := by
  unfold castOp
  generalize castTarget r = rt at *
  cases rt <;> simp_all [castCore, Val.typeOf]

/-- `x ~# True`: false for unit and false, true for everything else -/
theorem cast_to_true (l r : Val F) (hr : castTarget r = .true) :
    castOp fo env l r = .val (match l with | .unit => .fls | .fls => .fls | _ => .tru) := by
  cases l <;> simp [castOp, hr, Val.typeOf, castCore]

/-- `x ~# False`: true for unit, false for everything else -/
theorem cast_to_false (l r : Val F) (hr : castTarget r = .false) :
    castOp fo env l r = .val (match l with | .unit => .tru | _ => .fls) := by
  cases l <;> simp [castOp, hr, Val.typeOf, castCore]

/-- a text of exactly one character converts to that character, any other text to unit -/
theorem cast_text_to_char (cs : List Nat) (r : Val F) (hr : castTarget r = .char) :
    castOp fo env (.chars cs) r = .val (match cs with | [c] => .char c | _ => .unit) := by
  cases cs with
  | nil => simp [castOp, hr, Val.typeOf, castCore]
  | cons c cs => cases cs <;> simp [castOp, hr, Val.typeOf, castCore]

/-! non-vacuity of the exact results -/
example : castOp fo env (.chars [104, 233, 8364]) (.list []) = .val (.list [.char 104, .char 233, .char 8364]) :=
  cast_chars_to_list fo env _ _ rfl
example : castOp fo env (.sym 5) (.sym 9) = .val (.sym 5) := cast_same_type fo env _ _ rfl
example : castOp fo env (.bytes [1, 255]) (.type .list) = .val (.list [.byte 1, .byte 255]) :=
  cast_bytes_to_list fo env _ _ rfl
example : castOp fo env (.list [.tru, .unit]) (.type .list) = .val (.list [.tru, .unit]) :=
  cast_list_identity fo env _ _ rfl
example : castOp fo env (.concat (.list [.tru]) (.concat .unit (.list []))) (.type .list) = .val (.list [.tru, .unit]) :=
  cast_concat_to_list fo env _ _ _ rfl
example : showInt (-2147483648) = [45, 50, 49, 52, 55, 52, 56, 51, 54, 52, 56] := by decide
example : castOp fo env (.num (.int (-12))) (.chars []) = .val (.chars [45, 49, 50]) := by
  rw [cast_int_to_text fo env _ _ rfl, show showInt (-12) = [45, 49, 50] from by decide]
example : castOp fo env (.chars [45, 49, 50]) (.type .number) = .val (.num (.int (-12))) := by
  rw [cast_text_to_int fo env _ _ rfl, show parseI32 [45, 49, 50] = some (-12) from by decide]
example : castOp fo env (.chars [49, 32]) (.type .number) = .val .unit := by
  rw [cast_text_to_int fo env _ _ rfl, show parseI32 [49, 32] = none from by decide]
example : ∃ t, castOp fo env (.num (.int 2147483647)) (.type .charList) = .val (.chars t) ∧
    castOp fo env (.chars t) (.type .number) = .val (.num (.int 2147483647)) :=
  cast_number_text_roundtrip fo env _ (by decide) _ _ rfl rfl
example : castOp fo env .unit (.type .list) = .val .unit :=
  cast_unit_source fo env _ (by simp [castTarget]) (by simp [castTarget]) (by simp [castTarget]) (by simp [castTarget])
    (by simp [castTarget])
example : castOp fo env (.num (.int 0)) .tru = .val .tru := cast_to_true fo env _ _ rfl
example : castOp fo env .fls (.type .true) = .val .fls := cast_to_true fo env _ _ rfl
example : castOp fo env .unit .fls = .val .tru := cast_to_false fo env _ _ rfl
example : castOp fo env (.chars [97]) (.char 0) = .val (.char 97) := cast_text_to_char fo env _ _ rfl
example : castOp fo env (.chars [97, 98]) (.char 0) = .val .unit := cast_text_to_char fo env _ _ rfl

end Garnish.Props.C08Casts
