/-
Runtime refinement, part 6 (C08 / C01 anchors): casting.rs `type_cast` (Model/Runtime/Casting.lean, instruction
`ApplyType`) against the value-level cast `castOp` (Abs/Casts.lean).

`C08_refine_type_cast`: with the two operands on top of the registers (right = target on top), `type_cast` refines
`castOp fo env vl vr` in the sense of `RefinesCast` (Model/Runtime/CastLaws.lean):
  * `castOp = val v`   — the operands are popped, ONE address denoting `v` is pushed, the host is not called, every
                          earlier `Decodes` fact, the input values and the frames are as before, `Ok(None)`;
  * `castOp = defer ApplyType vl vr` (exactly the type pairs outside `Spec.castDefined`) — the operands are popped, then
    the defer protocol: ONE call `defer_op(ApplyType, (type of vl, left), (TARGET type, right))`; accepted ↦ the host's
    state is returned untouched, declined ↦ unit is pushed;
  * `castOp = err e`   — the handler fails with that error class.
Hypotheses: `StoreLawsC S C env` (the trait contract + the contract of the four delegated conversions for the data
implementation `env.store`), the register shape, `Decodes` of both operands, `CastDomain` (Lemmas/RuntimeCast6.lean: fuel
for the loops, sizes below i32::MAX, integer slice extents inside a sliced list / text / byte list, `store = simple`
where the number of items can differ from the announced length — the list contract of `StoreLaws` is the lenient one).
Every arm of the `match` is covered.
`C08_refine_type_cast_undefined` / `_defined`: the two halves in the words of C08, the first with no side condition.
`C01_refine_step_applyType`: ONE STEP of `execute_current_instruction` at an `ApplyType` instruction simulates the
value-level machine step extended with `castOp` (`stepC`; Abs/Machine `step` itself answers `err unsupported` there).
-/
import Garnish.Lemmas.RuntimeCast6
import Garnish.Lemmas.RuntimeCastRef
import Garnish.Lemmas.RuntimeStep2
import Garnish.Lemmas.RuntimeRefStore
import Garnish.Props.C08Casts
import Garnish.Props.RuntimeRefineArith
import Garnish.Props.RuntimeRefineStep
set_option linter.unusedSimpArgs false
set_option linter.unusedVariables false
namespace Garnish.Props.RuntimeRefine
open Garnish Gen Garnish.Abs Garnish.Model.Equality Garnish.Model.Runtime Garnish.Lemmas.Runtime

variable {F σ : Type} {S : RStore F σ} {C : CastOps σ} {env : CastEnv F} (fo : FloatOps F)

/-- `type_cast` refines `castOp` -/
theorem C08_refine_type_cast (L : StoreLawsC S C env) (fuel : Nat) {s : σ} {r l : Nat} {vr vl : Val F}
    {rest : List Nat} (hregs : S.regs s = r :: l :: rest) (hl : Decodes (S.view s) l vl)
    (hr : Decodes (S.view s) r vr) (hdom : CastDomain fo env fuel vl vr) :
    RefinesCast S s (typeCast fo S C fuel s) none rest l r (castOp fo env vl vr) :=
  typeCast_refines fo L fuel hregs hl hr hdom

/-- an undefined pair selects the last arm of the `match` -/
theorem C08_refine_type_cast_arm_undefined {lt rt : Ty} (h : Spec.castDefined lt rt = false) :
    castArm lt rt = .deferOp := by
  cases lt <;> cases rt <;> first | rfl | (exfalso; revert h; decide)

/-- C08 for casts at the address level: a type pair outside `Spec.castDefined` is popped and offered to the host by ONE
`defer_op(ApplyType, (left type, left), (target type, right))`; accepted ↦ the host's state, declined ↦ unit is
pushed; no side condition -/
theorem C08_refine_type_cast_undefined (L : StoreLawsC S C env) (fuel : Nat) {s : σ} {r l : Nat} {vr vl : Val F}
    {rest : List Nat} (hregs : S.regs s = r :: l :: rest) (hl : Decodes (S.view s) l vl)
    (hr : Decodes (S.view s) r vr) (hund : Spec.castDefined vl.typeOf (castTarget vr) = false) :
    ∃ s0, Eff S s s0 rest (S.vals s) ∧
      DeferProtocol S s0 (typeCast fo S C fuel s) none .applyType (vl.typeOf, l) (castTarget vr, r) := by
  have hdom : CastDomain fo env fuel vl vr := by
    unfold CastDomain; rw [C08_refine_type_cast_arm_undefined hund]; trivial
  have h := C08_refine_type_cast fo L fuel hregs hl hr hdom
  rw [C08Casts.cast_undefined_deferred fo env vl vr hund] at h
  exact h

/-- "exactly once": after an undefined cast that returns, the host trace is the old trace plus this one call -/
theorem C08_refine_type_cast_once (L : StoreLawsC S C env) (fuel : Nat) {s : σ} {r l : Nat} {vr vl : Val F}
    {rest : List Nat} (hregs : S.regs s = r :: l :: rest) (hl : Decodes (S.view s) l vl)
    (hr : Decodes (S.view s) r vr) (hund : Spec.castDefined vl.typeOf (castTarget vr) = false)
    {x : Option Nat} {s' : σ} (hres : typeCast fo S C fuel s = .ok (x, s')) :
    S.trace s' = .defer .applyType (vl.typeOf, l) (castTarget vr, r) :: S.trace s := by
  obtain ⟨s0, e0, hp⟩ := C08_refine_type_cast_undefined fo L fuel hregs hl hr hund
  rw [C08_refine_defer_once L.toStoreLaws hp hres, e0.trace]

/-- a defined cast never reaches the host: whatever it returns, the trace is unchanged -/
theorem C08_refine_type_cast_defined (L : StoreLawsC S C env) (fuel : Nat) {s : σ} {r l : Nat} {vr vl : Val F}
    {rest : List Nat} (hregs : S.regs s = r :: l :: rest) (hl : Decodes (S.view s) l vl)
    (hr : Decodes (S.view s) r vr) (hdom : CastDomain fo env fuel vl vr)
    (hdef : Spec.castDefined vl.typeOf (castTarget vr) = true)
    {x : Option Nat} {s' : σ} (hres : typeCast fo S C fuel s = .ok (x, s')) :
    S.trace s' = S.trace s ∧ ∃ a v, castOp fo env vl vr = .val v ∧ S.regs s' = a :: rest ∧ Decodes (S.view s') a v := by
  have h := C08_refine_type_cast fo L fuel hregs hl hr hdom
  have hnd := C08Casts.cast_defined_not_deferred fo env vl vr hdef
  cases hc : castOp fo env vl vr with
  | val v =>
    rw [hc] at h
    obtain ⟨a, s1, h1, d1, e1⟩ := h
    rw [hres] at h1
    cases h1
    exact ⟨e1.trace, a, v, rfl, e1.regs, d1⟩
  | defer op a b => rw [hc] at hnd; simp [Lemmas.isDefer] at hnd
  | err e =>
    rw [hc] at h
    have h' : typeCast fo S C fuel s = .err e := h
    rw [hres] at h'; cases h'

/-! ### one step -/

section step
variable {P : Prog F} {host : Host F}

/-- Abs/Machine `step` with the arm it lacks: `ApplyType` pops (right, left) and pushes the outcome of `castOp` the way
`step` does for every other binary instruction -/
def stepC (env : CastEnv F) (host : Host F) (P : Prog F) (m : MState F) : StepRes F :=
  match P.instrs[m.pc]? with
  | some (.applyType, _) =>
    match m.regs with
    | r :: l :: rs => seqNext P m (pushOut host { m with regs := rs } (castOp fo env l r))
    | _ => .err .state
  | _ => Abs.step fo host P m

/-- the host's `defer_op` answers an offered cast as the value-level host does. (`HostRefines.defer` says this for a
right operand offered with its OWN type; `type_cast` offers the corrected target type.) -/
def HostRefinesCast (S : RStore F σ) (host : Host F) : Prop :=
  ∀ l r vl vr s, Decodes (S.view s) l vl → Decodes (S.view s) r vr →
    HostAnswer S (S.deferOp .applyType (vl.typeOf, l) (castTarget vr, r)) s (host.defer .applyType vl vr)

/-- `handlerSim_of_refines` for `RefinesCast` -/
theorem handlerSim_of_refinesCast (HR : HostRefines S host) (HRC : HostRefinesCast S host) {s : σ} {m : MState F}
    (hpc : S.cursor s = m.pc) {rest : List Nat} {mrest : List (Val F)} (hrest : DecodesList (S.view s) rest mrest)
    (hvals : DecodesList (S.view s) (S.vals s) m.vals) (hfr : FramesRel (S.view s) (S.frames s) m.frames)
    (hprog : (∀ i, S.instruction s i = P.instrs[i]?) ∧ (∀ j, S.jumpTable s j = P.jumps[j]?) ∧
      S.instrLen s = P.instrs.size)
    {la ra : Nat} {vl vr : Val F} (dl : Decodes (S.view s) la vl) (dr : Decodes (S.view s) ra vr)
    {res : Outcome (Option Nat × σ)}
    (href : RefinesCast S s res none rest la ra (castOp fo env vl vr)) :
    HandlerSim S P s res (seqR m (pushOut host { m with regs := mrest } (castOp fo env vl vr))) := by
  have hnext : (none : Option Nat).getD (S.cursor s + 1) = m.pc + 1 := by simp [hpc]
  cases hc : castOp fo env vl vr with
  | val v =>
    rw [hc] at href
    exact handlerSim_of_refines HR hpc hrest hvals hfr hprog (la := la) (ra := ra) hnext (o := .val v) href
      (fun op a b ho => by cases ho)
  | err e =>
    rw [hc] at href
    exact handlerSim_of_refines HR hpc hrest hvals hfr hprog (la := la) (ra := ra) hnext (o := .err e) href
      (fun op a b ho => by cases ho)
  | defer op a b =>
    -- an offer is `defer ApplyType vl vr`
    have hund : Spec.castDefined vl.typeOf (castTarget vr) = false := by
      cases hd : Spec.castDefined vl.typeOf (castTarget vr) with
      | false => rfl
      | true =>
        have := C08Casts.cast_defined_not_deferred fo env vl vr hd
        rw [hc] at this; simp [Lemmas.isDefer] at this
    have hop := C08Casts.cast_undefined_deferred fo env vl vr hund
    rw [hc] at hop
    cases hop
    rw [hc] at href
    obtain ⟨s0, e0, hprot⟩ := href
    have hrest0 := decodesList_keeps e0.keeps hrest
    have hvals0 := decodesList_keeps e0.keeps hvals
    have hfr0 := framesRel_keeps e0.keeps hfr
    have hans := HRC la ra vl vr s0 (e0.dec dl) (e0.dec dr)
    unfold DeferProtocol at hprot
    simp only [pushOut, seqR]
    cases hh : host.defer .applyType vl vr with
    | some v =>
      rw [hh] at hans
      obtain ⟨x, s1, h1, d1, he⟩ := hans
      rw [h1] at hprot
      simp only [] at hprot ⊢
      refine ⟨none, s1, hprot, hnext, he.keeps.cur.trans e0.keeps.cur, ?_⟩
      refine ⟨⟨he.regs ▸ e0.regs ▸ .cons d1 (decodesList_keeps he.keeps hrest0),
        he.vals ▸ e0.vals ▸ decodesList_keeps he.keeps hvals0,
        he.frames ▸ e0.frames ▸ framesRel_keeps he.keeps hfr0,
        fun i => by rw [he.keeps.instr, e0.keeps.instr]; exact hprog.1 i,
        fun j => by rw [he.keeps.jump, e0.keeps.jump]; exact hprog.2.1 j,
        by rw [he.keeps.ilen, e0.keeps.ilen]; exact hprog.2.2⟩,
        (e0.keeps.trans he.keeps).dec⟩
    | none =>
      rw [hh] at hans
      obtain ⟨s1, h1, he⟩ := hans
      rw [h1] at hprot
      simp only [] at hprot ⊢
      obtain ⟨u, s2, h2, d2, e2⟩ := hprot
      refine ⟨none, s2, h2, hnext, e2.keeps.cur.trans (he.keeps.cur.trans e0.keeps.cur), ?_⟩
      have k12 := he.keeps.trans e2.keeps
      refine ⟨⟨e2.regs ▸ he.regs ▸ e0.regs ▸ .cons d2 (decodesList_keeps k12 hrest0),
        e2.vals ▸ he.vals ▸ e0.vals ▸ decodesList_keeps k12 hvals0,
        e2.frames ▸ he.frames ▸ e0.frames ▸ framesRel_keeps k12 hfr0,
        fun i => by rw [e2.keeps.instr, he.keeps.instr, e0.keeps.instr]; exact hprog.1 i,
        fun j => by rw [e2.keeps.jump, he.keeps.jump, e0.keeps.jump]; exact hprog.2.1 j,
        by rw [e2.keeps.ilen, he.keeps.ilen, e0.keeps.ilen]; exact hprog.2.2⟩,
        (e0.keeps.trans k12).dec⟩

/-- the `HandlerSim` instance for `ApplyType`: `type_cast` against `pushOut … (castOp …)` -/
theorem C01_refine_handler_applyType (L : StoreLawsC S C env) (HR : HostRefines S host)
    (HRC : HostRefinesCast S host) (fuel : Nat) {s : σ} {m : MState F} (hsim : Sim S P s m)
    {vr vl : Val F} {rs : List (Val F)} (hregs : m.regs = vr :: vl :: rs) (hdom : CastDomain fo env fuel vl vr) :
    HandlerSim S P s (typeCast fo S C fuel s)
      (seqR m (pushOut host { m with regs := rs } (castOp fo env vl vr))) := by
  obtain ⟨hpc, hd⟩ := hsim
  have hdr := hd.regs
  rw [hregs] at hdr
  obtain ⟨r, as1, e1, dr, t1⟩ := decodesList_cons_inv hdr
  obtain ⟨l, rest, e2, dl, t2⟩ := decodesList_cons_inv t1
  subst e2
  exact handlerSim_of_refinesCast fo HR HRC hpc t2 hd.vals hd.frames ⟨hd.instrs, hd.jumps, hd.ilen⟩ dl dr
    (C08_refine_type_cast fo L fuel e1 dl dr hdom)

/-- ONE STEP at an `ApplyType` instruction: `execute_current_instruction` with `type_cast` as the `typeCast` handler of
`OtherHandlers` simulates the machine step extended with `castOp` -/
theorem C01_refine_step_applyType (L : StoreLawsC S C env) (HR : HostRefines S host) (HRC : HostRefinesCast S host)
    (fuel : Nat) (H : OtherHandlers σ) (hH : H.typeCast = typeCast fo S C fuel) {s : σ} {m : MState F}
    (hsim : Sim S P s m) {operand : Option Nat} (hfetch : P.instrs[m.pc]? = some (.applyType, operand))
    (hok : ∀ vr vl rs, m.regs = vr :: vl :: rs → CastDomain fo env fuel vl vr) :
    match stepC fo env host P m with
    | .running m' => ∃ s', executeCurrentInstruction fo S fuel H s = .ok (.running, s') ∧ Sim S P s' m' ∧
        DecKept S s s'
    | .halted m' => ∃ s', executeCurrentInstruction fo S fuel H s = .ok (.end_, s') ∧
        SimD S P s' m'.regs m'.vals m'.frames ∧ DecKept S s s'
    | .err _ => True := by
  unfold stepC
  rw [hfetch]
  simp only []
  cases hr : m.regs with
  | nil => trivial
  | cons vr t =>
    cases t with
    | nil => trivial
    | cons vl rs =>
      simp only []
      rw [seqNext_eq]
      have hh := C01_refine_handler_applyType fo L HR HRC fuel hsim hr (hok vr vl rs hr)
      have hd : dispatch fo S fuel H .applyType operand s = typeCast fo S C fuel s := by
        show H.typeCast s = _; rw [hH]
      rw [← hd] at hh
      exact step_of_handler L.toStoreLaws fo fuel H hsim hfetch hh

end step

/-! ### non-vacuity: the reference store satisfies every hypothesis (`refStore_lawsC`), and the model runs -/

/-- the declining reference host answers an offered cast as the value-level declining host does -/
theorem refStore_hostRefinesCast : HostRefinesCast (refStore (fun _ => none : RefHost F)) Host.declining :=
  fun l r vl vr st _ _ =>
    ⟨{ st with trace := _ :: st.trace }, rfl, keeps_same _ rfl rfl rfl rfl rfl, rfl, rfl, rfl⟩

def simpleEnv : CastEnv F := ⟨.simple, fun _ => []⟩

/-- `0: 5   1: CharList (a Type value)   2: :sym   3: 2   4: 4   5: 2..4   6: List   7: "ab"` -/
def castCells : List (RCell F) :=
  [.num (.int 5), .type .charList, .sym 7, .num (.int 2), .num (.int 4), .range 3 4, .type .list, .chars [97, 98]]

/-- `5 ~# CharList` on the reference store (registers: target on top): the theorem applies — ONE new register
denoting the text "5", no host call … -/
example : RefinesCast (refStore (fun _ => none)) (RefState.init (castCells (F := F)) [1, 0, 9])
    (typeCast fo (refStore (fun _ => none)) (refCastOps simpleEnv) 0 (RefState.init castCells [1, 0, 9])) none [9] 0 1
    (castOp fo simpleEnv (.num (.int 5)) (.type .charList)) :=
  C08_refine_type_cast fo (refStore_lawsC _ simpleEnv) 0 rfl (.num rfl rfl) (.type rfl rfl) trivial

/-- … and `castOp` says which text -/
example : castOp fo (simpleEnv (F := F)) (.num (.int 5)) (.type .charList) = .val (.chars [53]) := by
  rw [C08Casts.cast_int_to_text fo _ _ _ rfl, show showInt 5 = [53] from by decide]

/-- `:sym ~# 5` is undefined: exactly one offer `defer_op(ApplyType, (Symbol, 2), (Number, 0))`, unit when declined -/
example : ∃ s0, Eff (refStore (fun _ => none)) (RefState.init (castCells (F := F)) [0, 2, 9]) s0 [9] [] ∧
    DeferProtocol (refStore (fun _ => none)) s0
      (typeCast fo (refStore (fun _ => none)) (refCastOps simpleEnv) 0 (RefState.init castCells [0, 2, 9])) none
      .applyType (.symbol, 2) (.number, 0) :=
  C08_refine_type_cast_undefined fo (refStore_lawsC _ simpleEnv) 0 (vl := .sym 7) (vr := .num (.int 5)) rfl
    (.sym rfl rfl) (.num rfl rfl) rfl

/-- `(2..4 as stored) ~# List` satisfies `CastDomain` with fuel 4 … -/
example : CastDomain fo (simpleEnv (F := F)) 4 (.range (.num (.int 2)) (.num (.int 4))) (.type .list) := by
  refine ⟨rfl, fun x y len h hlen => ?_⟩
  cases h
  rw [Lemmas.rangeLen_int fo 2 4 (by decide) (by decide)] at hlen
  cases hlen
  show (4 - 2 + 1 : Int).toNat + 1 ≤ 4
  decide

/-- the conversions that are not needed by a run are never called: a store without them -/
def noCastOps : CastOps (RefState Unit) :=
  ⟨fun _ => RM.fail .unsupported, fun _ => RM.fail .unsupported, fun _ => RM.fail .unsupported,
    fun _ => RM.fail .unsupported⟩

/-- registers and the items of the list cell at address `a` after a run (kernel-evaluable) -/
def castRun (a : Nat) (res : Outcome (Option Nat × RefState Unit)) :
    Option (Option Nat × List Nat × Option (List Nat) × List HostCall) :=
  match res with
  | .ok (r, s') => some (r, s'.regs, (refView s'.cells).listItems a, s'.trace)
  | _ => none

/-- … and the model run of `type_cast` (kernel): three new number cells 8, 9, 10 (2, 3, 4), the list cell 11 holding
them in order, one register, no host call -/
example : castRun 11 (typeCast noFloats (refStore (fun _ => none)) noCastOps 4 (RefState.init castCells [6, 5, 9]))
    = some (none, [11, 9], some [8, 9, 10], []) := by decide +kernel

/-- `"ab" ~# List`: the characters, in order -/
example : castRun 10 (typeCast noFloats (refStore (fun _ => none)) noCastOps 3 (RefState.init castCells [6, 7, 9]))
    = some (none, [10, 9], some [8, 9], []) := by decide +kernel

/-- `0: 1   1: 2   2: [0, 1]   3: 3   4: 2 <> 3   5: List   6: 1   7: 2   8: 1..2   9: (2 <> 3) sliced by 1..2` -/
def castCatCells : List (RCell Unit) :=
  [.num (.int 1), .num (.int 2), .list [0, 1], .num (.int 3), .concat 2 3 [0, 1, 3], .type .list,
   .num (.int 1), .num (.int 2), .range 6 7, .slice 4 8]

/-- `((1, 2) <> 3) ~# List`: the flat items, in order (the new list cell is 10), the borrowed registers given back -/
example : castRun 10 (typeCast noFloats (refStore (fun _ => none)) noCastOps 4 (RefState.init castCatCells [5, 4, 77]))
    = some (none, [10, 77], some [0, 1, 3], []) := by decide +kernel

/-- the slice `1..2` of it: items 1 and 2 of the flat sequence -/
example : castRun 10 (typeCast noFloats (refStore (fun _ => none)) noCastOps 4 (RefState.init castCatCells [5, 9, 77]))
    = some (none, [10, 77], some [1, 3], []) := by decide +kernel

/-- `:sym ~# 5` with the declining host: unit pushed, exactly one host call recorded -/
example : castRun 0 (typeCast noFloats (refStore (fun _ => none)) noCastOps 0 (RefState.init castCells [0, 2, 9]))
    = some (none, [8, 9], none, [.defer .applyType (.symbol, 2) (.number, 0)]) := by decide +kernel

/-- `ApplyType` as the program: the hypotheses of `C01_refine_step_applyType` hold on the reference store -/
def castProg : Prog F := { instrs := #[(.applyType, none)], jumps := #[], consts := #[] }

def castStore : RefState F :=
  { RefState.init castCells [1, 0] with instrs := [(.applyType, none)], instrLen := 1 }

def castMachine : MState F :=
  { pc := 0, regs := [.type .charList, .num (.int 5)], vals := [], frames := [], trace := [] }

theorem castSim0 : Sim (refStore (fun _ => none)) (castProg (F := F)) castStore castMachine :=
  ⟨rfl, .cons (.type rfl rfl) (.cons (.num rfl rfl) .nil), .nil, .nil,
    fun i => by simp [refStore, castStore, castProg], fun j => by simp [refStore, castStore, castProg, RefState.init],
    rfl⟩

example : match stepC fo simpleEnv Host.declining (castProg (F := F)) castMachine with
    | .running m' => ∃ s', executeCurrentInstruction fo (refStore (fun _ => none)) 0
        { noHandlers with typeCast := typeCast fo (refStore (fun _ => none)) (refCastOps simpleEnv) 0 } castStore =
          .ok (.running, s') ∧ Sim (refStore (fun _ => none)) castProg s' m' ∧ DecKept (refStore (fun _ => none)) castStore s'
    | .halted m' => ∃ s', executeCurrentInstruction fo (refStore (fun _ => none)) 0
        { noHandlers with typeCast := typeCast fo (refStore (fun _ => none)) (refCastOps simpleEnv) 0 } castStore =
          .ok (.end_, s') ∧ SimD (refStore (fun _ => none)) castProg s' m'.regs m'.vals m'.frames ∧
          DecKept (refStore (fun _ => none)) castStore s'
    | .err _ => True :=
  C01_refine_step_applyType fo (refStore_lawsC _ simpleEnv) refStore_hostRefines refStore_hostRefinesCast 0 _ rfl
    castSim0 (operand := none) rfl (by
      intro vr vl rs h
      cases h
      trivial)

end Garnish.Props.RuntimeRefine
