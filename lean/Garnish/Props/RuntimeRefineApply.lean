/-
Runtime refinement, part 4 (C17 / C08 anchors): runtime/src/runtime/apply.rs (Model/Runtime/Apply.lean) against Abs/Ops
`applyKind` and Abs/Machine `applyStep`, arm by arm (`applyArm` names the arm a type pair selects; the arms of the
model's `applyMatch` are in source order).

* `C17_refine_apply_external`: an `External` on the left ↦ both operands popped, the host's `apply` asked EXACTLY ONCE
  with (the external's value, the address of the argument) (`ApplyProtocol`, `C17_refine_apply_once`), unit pushed iff
  it declines, next instruction `cursor + 1`.
* `C08_refine_apply_defer`: a pair no arm lists ↦ the defer protocol with the instruction (`Apply` / `EmptyApply`).
* `C17_refine_apply_expression`, `C17_refine_apply_partial_expression`: entering an expression (`Entered`: input value
  pushed on the value stack — for a partial application the stored input, concatenated with the argument when
  `use_right` —, `push_frame(cursor + 1)`, continue at the jump-table entry; state error when there is none).
* the data arms: merge to a symbol list, slice creation, range narrowing, slice narrowing, look-up by integer / by
  symbol / along a symbol-list path (`accessPath`), partial over a non-expression (unit).
* `C17_refine_empty_apply`: `empty_apply` is `apply_internal(EmptyApply, false)` after one pushed unit;
  `C17_refine_reapply`.
Hypotheses: `StoreLaws S`, register shape, `Decodes`; for the look-up arms the domain of Props/RuntimeRefineAccess.
-/
import Garnish.Lemmas.RuntimeApply4
import Garnish.Lemmas.RuntimeRefStore
set_option linter.unusedSimpArgs false
set_option linter.unusedVariables false
namespace Garnish.Props.RuntimeRefine
open Garnish Gen Garnish.Abs Garnish.Model.Equality Garnish.Model.Runtime Garnish.Lemmas.Runtime

variable {F σ : Type} {S : RStore F σ} (fo : FloatOps F)

/-- the `External` arm: Abs/Ops says `.external n arg`, the handler runs the host protocol -/
theorem C17_refine_apply_external (L : StoreLaws S) (fuel : Nat) (instr : Instruction) (ur : Bool)
    {s : σ} {r l n : Nat} {vr : Val F} {rest : List Nat}
    (hregs : S.regs s = r :: l :: rest) (hl : Decodes (S.view s) l (.ext n)) (hr : Decodes (S.view s) r vr) :
    applyKind fo instr ur (.ext n) vr = .external n vr ∧
    ∃ s0, Eff S s s0 rest (S.vals s) ∧
      ApplyProtocol S s0 (applyInternal fo S fuel instr ur s) (some (S.cursor s + 1)) n r :=
  ⟨rfl, apply_external_spec fo L fuel instr ur hregs hl hr⟩

/-- "exactly once": the trace after an external application is the old trace plus the one call `apply n r` -/
theorem C17_refine_apply_once (L : StoreLaws S) {α : Type} {s0 : σ} {res : Outcome (α × σ)} {next : α} {n r : Nat}
    (h : ApplyProtocol S s0 res next n r) {x : α} {s' : σ} (hres : res = .ok (x, s')) :
    S.trace s' = .apply n r :: S.trace s0 := by
  unfold ApplyProtocol at h
  cases hd : S.apply n r s0 with
  | ok p =>
    obtain ⟨b, s1⟩ := p
    rw [hd] at h
    have ht := L.apply n r s0 b s1 hd
    cases b with
    | true => simp only [] at h; rw [h] at hres; cases hres; exact ht
    | false =>
      simp only [] at h
      obtain ⟨a, s2, h2, _, e2⟩ := h
      rw [h2] at hres; cases hres
      rw [e2.trace, ht]
  | err e => rw [hd] at h; simp only [] at h; rw [h] at hres; cases hres
  | panic p => rw [hd] at h; simp only [] at h; rw [h] at hres; cases hres
  | fuelOut => rw [hd] at h; simp only [] at h; rw [h] at hres; cases hres

/-- the catch-all arm: one offer to the host with the instruction `apply_internal` was called for -/
theorem C08_refine_apply_defer (L : StoreLaws S) (fuel : Nat) (instr : Instruction) (ur : Bool)
    {s : σ} {r l : Nat} {vr vl : Val F} {rest : List Nat}
    (hregs : S.regs s = r :: l :: rest) (hl : Decodes (S.view s) l vl) (hr : Decodes (S.view s) r vr)
    (harm : applyArm vl.typeOf vr.typeOf = .defer) :
    applyKind fo instr ur vl vr = .out (.defer instr vl vr) ∧
    RefinesOut S s (applyInternal fo S fuel instr ur s) (some (S.cursor s + 1)) rest l r (.defer instr vl vr) :=
  ⟨applyKind_defer fo instr ur vl vr harm, apply_defer_spec fo L fuel instr ur hregs hl hr harm⟩

/-- the `Expression` arm: Abs/Ops `.enter j r` -/
theorem C17_refine_apply_expression (L : StoreLaws S) (fuel : Nat) (instr : Instruction) (ur : Bool)
    {s : σ} {r l j : Nat} {vr : Val F} {rest : List Nat}
    (hregs : S.regs s = r :: l :: rest) (hl : Decodes (S.view s) l (.expr j)) (hr : Decodes (S.view s) r vr) :
    applyKind fo instr ur (.expr j) vr = .enter j vr ∧
    Entered S s (applyInternal fo S fuel instr ur s) rest j vr :=
  ⟨rfl, apply_expression_spec fo L fuel instr ur hregs hl hr⟩

/-- the `Partial` arm over an expression: Abs/Ops `.enter j (input <> r)` resp. `.enter j input` -/
theorem C17_refine_apply_partial_expression (L : StoreLaws S) (fuel : Nat) (instr : Instruction) (ur : Bool)
    {s : σ} {r l j : Nat} {vr input : Val F} {rest : List Nat}
    (hregs : S.regs s = r :: l :: rest) (hl : Decodes (S.view s) l (.part (.expr j) input))
    (hr : Decodes (S.view s) r vr) :
    applyKind fo instr ur (.part (.expr j) input) vr = .enter j (if ur then .concat input vr else input) ∧
    Entered S s (applyInternal fo S fuel instr ur s) rest j (if ur then .concat input vr else input) :=
  ⟨rfl, apply_partial_expression_spec fo L fuel instr ur hregs hl hr⟩

/-- the `Partial` arm over anything else: unit -/
theorem C17_refine_apply_partial_other (L : StoreLaws S) (fuel : Nat) (instr : Instruction) (ur : Bool)
    {s : σ} {r l : Nat} {vr vf input : Val F} {rest : List Nat}
    (hregs : S.regs s = r :: l :: rest) (hl : Decodes (S.view s) l (.part vf input))
    (hr : Decodes (S.view s) r vr) (hne : vf.typeOf ≠ .expression) :
    applyKind fo instr ur (.part vf input) vr = .out (.val .unit) ∧
    Pushed S s (applyInternal fo S fuel instr ur s) (some (S.cursor s + 1)) rest .unit :=
  apply_partial_other_spec fo L fuel instr ur hregs hl hr hne

/-- symbols / symbol lists merge -/
theorem C17_refine_apply_merge (L : StoreLaws S) (fuel : Nat) (instr : Instruction) (ur : Bool)
    {s : σ} {r l : Nat} {vr vl : Val F} {rest : List Nat}
    (hregs : S.regs s = r :: l :: rest) (hl : Decodes (S.view s) l vl) (hr : Decodes (S.view s) r vr)
    (harm : applyArm vl.typeOf vr.typeOf = .merge) :
    ∃ v, applyKind fo instr ur vl vr = .out (.val v) ∧
      Pushed S s (applyInternal fo S fuel instr ur s) (some (S.cursor s + 1)) rest v :=
  apply_merge_spec fo L fuel instr ur hregs hl hr harm

/-- list / concatenation / text / bytes / symbol list applied to a range: a slice -/
theorem C17_refine_apply_mk_slice (L : StoreLaws S) (fuel : Nat) (instr : Instruction) (ur : Bool)
    {s : σ} {r l : Nat} {vr vl : Val F} {rest : List Nat}
    (hregs : S.regs s = r :: l :: rest) (hl : Decodes (S.view s) l vl) (hr : Decodes (S.view s) r vr)
    (harm : applyArm vl.typeOf vr.typeOf = .mkSlice) :
    applyKind fo instr ur vl vr = .out (.val (.slice vl vr)) ∧
      Pushed S s (applyInternal fo S fuel instr ur s) (some (S.cursor s + 1)) rest (.slice vl vr) :=
  apply_mkSlice_spec fo L fuel instr ur hregs hl hr harm

/-- a range applied to a range: Abs/Ops `narrowRange` (two fresh numbers and a fresh range, or the state error) -/
theorem C17_refine_apply_narrow (L : StoreLaws S) (fuel : Nat) (instr : Instruction) (ur : Bool)
    {s : σ} {r l : Nat} {os oe bs be : Val F} {rest : List Nat}
    (hregs : S.regs s = r :: l :: rest) (hl : Decodes (S.view s) l (.range os oe))
    (hr : Decodes (S.view s) r (.range bs be)) :
    ∃ o, applyKind fo instr ur (.range os oe) (.range bs be) = .out o ∧
      RefinesOut S s (applyInternal fo S fuel instr ur s) (some (S.cursor s + 1)) rest l r o := by
  refine ⟨_, ?_, apply_narrow_spec fo L fuel instr ur hregs hl hr⟩
  simp only [applyKind]
  cases Abs.narrowRange fo (.range os oe) (.range bs be) <;> rfl

/-- a slice (over a range) applied to a range: the same value under the narrowed range -/
theorem C17_refine_apply_slice_narrow (L : StoreLaws S) (fuel : Nat) (instr : Instruction) (ur : Bool)
    {s : σ} {r l : Nat} {v os oe bs be : Val F} {rest : List Nat}
    (hregs : S.regs s = r :: l :: rest) (hl : Decodes (S.view s) l (.slice v (.range os oe)))
    (hr : Decodes (S.view s) r (.range bs be)) :
    ∃ o, applyKind fo instr ur (.slice v (.range os oe)) (.range bs be) = .out o ∧
      RefinesOut S s (applyInternal fo S fuel instr ur s) (some (S.cursor s + 1)) rest l r o := by
  refine ⟨_, ?_, apply_sliceNarrow_spec fo L fuel instr ur hregs hl hr⟩
  simp only [applyKind]
  cases Abs.narrowRange fo (.range os oe) (.range bs be) <;> rfl

/-- symbol list / list / pair applied to an integer: `accessInt`; its `UnsupportedOpTypes` is the instruction's error -/
theorem C17_refine_apply_access_integer (L : StoreLaws S) (fuel : Nat) (instr : Instruction) (ur : Bool)
    {s : σ} {r l : Nat} {vl : Val F} {i : Int} {rest : List Nat}
    (hregs : S.regs s = r :: l :: rest) (hl : Decodes (S.view s) l vl) (hr : Decodes (S.view s) r (.num (.int i)))
    (harm : applyArm vl.typeOf .number = .accInt) (hd : AccessDomain vl) :
    applyKind fo instr ur vl (.num (.int i)) = .out (accOut (accessInt fo (.int i) vl)) ∧
    RefinesOut S s (applyInternal fo S fuel instr ur s) (some (S.cursor s + 1)) rest l r
      (accOut (accessInt fo (.int i) vl)) :=
  apply_accInt_spec fo L fuel instr ur hregs hl hr harm hd

/-- pair / list applied to a symbol: `accessSym` -/
theorem C17_refine_apply_access_symbol (L : StoreLaws S) (fuel : Nat) (instr : Instruction) (ur : Bool)
    {s : σ} {r l y : Nat} {vl : Val F} {rest : List Nat}
    (hregs : S.regs s = r :: l :: rest) (hl : Decodes (S.view s) l vl) (hr : Decodes (S.view s) r (.sym y))
    (harm : applyArm vl.typeOf .symbol = .accSym) (hd : AccessDomain vl) :
    applyKind fo instr ur vl (.sym y) = .out (accOut (accessSym y vl)) ∧
    RefinesOut S s (applyInternal fo S fuel instr ur s) (some (S.cursor s + 1)) rest l r
      (accOut (accessSym y vl)) :=
  apply_accSym_spec fo L fuel instr ur hregs hl hr harm hd

/-- a list applied to a symbol list: the path of Abs/Ops `accessPath`; a step that finds nothing, or reaches a
value that cannot be looked into with this kind of key, ends the path with a fresh unit -/
theorem C17_refine_apply_path (L : StoreLaws S) (fuel : Nat) (instr : Instruction) (ur : Bool)
    {s : σ} {r l : Nat} {items : List (Val F)} {ps : List (SymPart F)} {rest : List Nat}
    (hregs : S.regs s = r :: l :: rest) (hl : Decodes (S.view s) l (.list items))
    (hr : Decodes (S.view s) r (.symList ps)) (hd : PathDomain fo fuel ps (.list items)) :
    applyKind fo instr ur (.list items) (.symList ps) = .out (accOut (accessPath fo ps (.list items))) ∧
    RefinesOut S s (applyInternal fo S fuel instr ur s) (some (S.cursor s + 1)) rest l r
      (accOut (accessPath fo ps (.list items))) :=
  apply_path_spec fo L fuel instr ur hregs hl hr hd

/-- `empty_apply` = one unit pushed, then `apply_internal(EmptyApply, false)` — Abs/Machine `.emptyApply` applies the
left operand to unit -/
theorem C17_refine_empty_apply (L : StoreLaws S) (fuel : Nat) (s : σ) :
    ∃ u s1, Decodes (S.view s1) u .unit ∧ Eff S s s1 (u :: S.regs s) (S.vals s) ∧
      emptyApply fo S fuel s = applyInternal fo S fuel .emptyApply false s1 := by
  obtain ⟨u, s1, h1, d1, e1⟩ := pushUnit_spec L s
  exact ⟨u, s1, d1, e1, by rw [emptyApply, bind_ok h1]⟩

/-- `reapply`: the top register replaces the current input value and execution continues at the jump-table entry
(Abs/Machine `.reapply`); state errors: no such entry, no input value -/
theorem C17_refine_reapply (L : StoreLaws S) (j : Nat) {s : σ} {v : Nat} {rest : List Nat}
    (hregs : S.regs s = v :: rest) :
    match S.jumpTable s j, S.vals s with
    | some t, _ :: vs => ∃ s', reapply S j s = .ok (some t, s') ∧ Eff S s s' rest (v :: vs)
    | _, _ => reapply S j s = .err .state := by
  obtain ⟨s0, h0, e0⟩ := nextRef_cons L hregs
  rw [reapply, bind_ok h0, bind_apply, jumpPoint_apply, e0.keeps.jump]
  cases hj : S.jumpTable s j with
  | none => rfl
  | some t =>
    simp only []
    cases hv : S.vals s with
    | nil =>
      obtain ⟨s1, h1, e1⟩ := L.popValueStackNil s0 (by rw [e0.vals, hv])
      simp only []
      rw [bind_ok h1]; rfl
    | cons x vs =>
      obtain ⟨s1, h1, e1⟩ := L.popValueStackCons s0 x vs (by rw [e0.vals, hv])
      obtain ⟨s2, h2, e2⟩ := L.pushValueStack v s1
      rw [e1.regs, e1.vals, e0.regs] at e2
      refine ⟨s2, ?_, (e0.trans e1).trans e2⟩
      rw [bind_ok h1]
      simp only []
      rw [bind_ok h2]; rfl

/-! ### non-vacuity -/

/-- `0: external 3   1: 5   2: "ab"   3: expression 0   4: partial (3, 1)` -/
def appCells : List (RCell F) := [.ext 3, .num (.int 5), .chars [97, 98], .expr 0, .part 3 1]

/-- `external ~ 5` on the reference store with a declining host: theorem instantiated … -/
example : ∃ s0, Eff (refStore (fun _ => none)) (RefState.init (appCells (F := F)) [1, 0, 9]) s0 [9] [] ∧
    ApplyProtocol (refStore (fun _ => none)) s0
      (Model.Runtime.apply fo (refStore (fun _ => none)) 5 (RefState.init appCells [1, 0, 9])) (some 1) 3 1 :=
  (C17_refine_apply_external fo (refStore_laws (fun _ => none)) 5 .apply true
    (s := RefState.init (appCells (F := F)) [1, 0, 9]) (vr := .num (.int 5)) rfl (.ext rfl rfl) (.num rfl rfl)).2

/-- … and the model run: one `apply 3 1` call, unit pushed, next instruction `cursor + 1 = 1` -/
example : ∃ s', Model.Runtime.apply fo (refStore (fun _ => none)) 5 (RefState.init (appCells (F := F)) [1, 0, 9])
      = .ok (some 1, s') ∧ s'.regs = [5, 9] ∧ s'.cells = appCells ++ [.unit] ∧ s'.trace = [.apply 3 1] :=
  ⟨_, rfl, rfl, rfl, rfl⟩

/-- `"ab" ~ 5`: no arm ↦ `defer Apply`; an accepting host: nothing pushed by the handler -/
example : ∃ s', Model.Runtime.apply fo (refStore (fun _ => some .tru)) 5 (RefState.init (appCells (F := F)) [1, 2, 9])
      = .ok (some 1, s') ∧ s'.regs = [5, 9] ∧ s'.cells = appCells ++ [.tru] ∧
        s'.trace = [.defer .apply (.charList, 2) (.number, 1)] := ⟨_, rfl, rfl, rfl, rfl⟩

/-- `partial(expression 0, 5) ~ "ab"` with jump table `[40]`: the input value is the new concatenation `5 <> "ab"`,
a frame returning to 1 is pushed, execution continues at 40 -/
example : ∃ s', Model.Runtime.apply fo (refStore (fun _ => none)) 5
      { RefState.init (appCells (F := F)) [2, 4, 9] with jumps := [40] } = .ok (some 40, s') ∧
    s'.regs = [9] ∧ s'.vals = [5] ∧ s'.cells = appCells ++ [.concat 1 2 [1, 2]] ∧ s'.frames = [(1, [9])] :=
  ⟨_, rfl, rfl, rfl, rfl, rfl⟩

end Garnish.Props.RuntimeRefine
