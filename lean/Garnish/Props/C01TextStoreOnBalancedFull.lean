/-
`C01_text_to_simple_store_balanced_full`: the source-text theorem on `SimpleGarnishData` for the WHOLE instruction set,
with the run-level side condition discharged as far as it can be statically: stack balance (`balancedB p`) gives the
depth conditions, the `NoCustom` invariant gives every "no custom" condition. Hypotheses left: the source-side ones;
`HitSound`, `HostRefinesI`, `HostNoCustom`; static checks of `compile p` (entry inside, constants leaves Simple
holds and custom-free); a custom-free leaf input; `DynOK` in the reachable states (Lemmas/NoCustom8.lean says what it demands); and
that calls enter bodies the analysis knows (`hcalls`).
-/
import Garnish.Props.RuntimeRefineNoCustom
set_option linter.unusedSimpArgs false
set_option linter.unusedVariables false
namespace Garnish.Props.C01TextStore
open Garnish Garnish.Gen Garnish.Spec Garnish.Abs Garnish.Abs.Tree Garnish.Abs.Source Garnish.Model Garnish.Model.Parser
open Garnish.Model.Lexer Garnish.Model.Literals Garnish.Model.Build Garnish.Props.C01Build Garnish.Props.C01Source
open Garnish.Props.C02Numbered Garnish.Props.C01Text
open Garnish.Model.Equality Garnish.Model.Runtime Garnish.Lemmas.Runtime Garnish.Props.RuntimeRefine
open Garnish.Lemmas.Runtime.On Garnish.Lemmas.Runtime.Simple Garnish.Props.SourceProps Garnish.Lemmas.NoCustom

variable {F : Type} (pf : List Char → Option F) (cc : CharClass)

theorem C01_text_to_simple_store_balanced_full {hit : List (SimCell F) → SimCell F → Option Nat} (hs : HitSound hit)
    (hh : SimHost F) (fo : FloatOps F) (host : Host F) (HR : HostRefinesI (simpleRStore hit hh) SInv host)
    (HN : HostNoCustom host) (loopFuel : Nat) (cast : RM (SimState F) (Option Nat)) (s : List Char)
    (toks : List LexerToken) (hlex : lex cc s = .ok toks) (hf : frag9' (toP toks) = true) (rt : RTree)
    (href : refParse Table.gen (toP toks) = .ok rt) (p : Program F) (hel : elaborate pf (toP toks) rt = some p)
    (hwf : C01.WFProgram p) (hbal : balancedB p = true) (input : Val F) (fuel : Nat) (v : Val F) (st : St F)
    (h : evalProgram fo host fuel p input = .ok (v, st))
    (hentry : (compile p).jumps[0]?.getD 0 < (compile p).instrs.size)
    (hleaf : (compile p).consts.toList.all isLeafS = true) (hin : isLeafS input = true)
    (hc : ConstsNC (compile p)) (hinc : nc input = true)
    (hdyn : ∀ m, C06.ReachK fo host (compile p) ((compile p).jumps[0]?.getD 0 :: C06.exprEntries (compile p))
      ⟨(compile p).jumps[0]?.getD 0, [], [input], [], []⟩ m → ∀ i o, (compile p).instrs[m.pc]? = some (i, o) →
      DynOK fo (simpleRStore hit hh) SInv (compile p) loopFuel m i o)
    (hcalls : ∀ m m', C06.ReachK fo host (compile p) ((compile p).jumps[0]?.getD 0 :: C06.exprEntries (compile p))
      ⟨(compile p).jumps[0]?.getD 0, [], [input], [], []⟩ m → Abs.step fo host (compile p) m = .running m' →
      m'.frames.length = m.frames.length + 1 →
      m'.pc ∈ (compile p).jumps[0]?.getD 0 :: C06.exprEntries (compile p)) :
    ∃ d n, buildText pf cc s = .ok (d, 0) ∧ progOf d = compile p ∧
      ∃ s' a, executeLoop fo (simpleRStore hit hh) loopFuel (fullHandlers fo (simpleRStore hit hh) loopFuel cast) n
          (loadSimple (reloc (progOf d)) ((progOf d).jumps[0]?.getD 0) input) = .ok ((.end_, n), s') ∧
        s'.values = [a] ∧ Decodes (simView s'.cells) a v ∧ (simpleRStore hit hh).regs s' = [] ∧
        (simpleRStore hit hh).frames s' = [] ∧ SInv s' := by
  have hwb := balancedB_sound hbal
  have hsrc : Src pf cc s p := ⟨toks, rt, hlex, hf, href, hel⟩
  obtain ⟨d0, hbt, hd⟩ := hsrc.built (C01.compile_complete p hwb.labels)
  obtain ⟨dep, hdep, _⟩ := C06.C06_compile_balanced_sound fo host p hwb
  obtain ⟨d, entry, n, hb, hrun⟩ :=
    C01_text_to_simple_store_full pf cc hs hh fo host HR loopFuel cast s toks hlex hf rt href p hel hwf input fuel v st h
  rw [hbt] at hb
  obtain ⟨rfl, rfl⟩ : d0 = d ∧ 0 = entry := by
    simp only [Outcome.ok.injEq, Prod.mk.injEq] at hb; exact hb
  refine ⟨d0, n, hbt, hd, ?_⟩
  rw [hd] at hrun ⊢
  refine hrun hleaf hin ?_
  refine runOKG_reloc (MachOKOn4 fo (simpleRStore hit hh) SInv (reloc (compile p)) loopFuel)
    (MachOKOn4 fo (simpleRStore hit hh) SInv (compile p) loopFuel) (fun m i o _ hk => machOKOn4_reloc hk) n _ ?_
  exact C01_runOKOn_full_of_balanced hdep hentry [input] [] loopFuel HN hc (by simp [ncL, hinc]) hdyn hcalls n

end Garnish.Props.C01TextStore
