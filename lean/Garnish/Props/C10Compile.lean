/-
C10 in context — conditionals and logic evaluate only what they must, for an occurrence ANYWHERE inside a well-formed
program (in the main line of any body, in an arm, in the right operand of another `&&`, …), stated on the machine run.

For `l && r` (resp. `l || r`, `c ?> t`) occurring in body `id` of `p` (`Sub (.and l r) b`, Lemmas/CompileOccur.lean) the
compiled program has the occurrence laid out (`Located`): `l`'s main line at `pc`, the instruction `And j` at
`pc + len l`, `r`'s code out of line at `tb = jumps[j]`. When the evaluation of `l` — in whatever state the machine
reaches `pc` with — gives a value that decides the outcome:
  * the machine reaches the `And` with that value on the operand stack,
  * ONE step later it is at `pc + len l + 1`, the continuation, with `$!` pushed,
  * and `pc + len l + 1 < tb`: neither the `And` nor the continuation belongs to `r`'s code, which begins at `tb` and
    is laid out after everything of the root that contains the `And` (`compile_branchFwd`, Lemmas/CompileForward.lean):
    between the decision and the continuation the pc does not enter `r`'s address range `[tb, tb + len r + 2)`.
What is NOT claimed: that no instruction of `r` is executed while `l` itself is being evaluated — `l` may call (apply)
an expression value that re-enters this very body with another input, and that activation may well evaluate its own `r`.
-/
import Garnish.Lemmas.CompileOccur
import Garnish.Lemmas.CompileForward
import Garnish.Props.C01Compile
namespace Garnish.Props.C10
open Garnish Gen Garnish.Abs Garnish.Spec

variable {F : Type} (fo : FloatOps F) (host : Host F)

/-- `l && r`, the left operand false: `$!` after one step from the `And`, `r`'s code (at `tb`) lies ahead of both -/
theorem C10_and_decides {P : Prog F} {bodies : List (Nat × Expr F)} (env : Env P bodies) (fwd : BranchFwd P)
    {root cur pc entry : Nat} {l r : Expr F}
    (hloc : Located P root cur pc (.and l r)) (hwf : wfC (.and l r) = true)
    (hj : P.jumps[cur]? = some entry) (hent : entry < P.instrs.size)
    {fuel : Nat} {st st1 : St F} {vl : Val F}
    (hl : evalFS fo host bodies cur fuel l st = .ok (.val vl, st1)) (hf : vl.truthy = false)
    (rs vs : List (Val F)) (fr : List (Frame F)) :
    ∃ j tb, P.instrs[pc + len l]? = some (.and, some j) ∧ P.jumps[j]? = some tb ∧ Located P j cur tb r ∧
      Reach fo host P ⟨pc, rs, st.inp :: vs, fr, st.trace⟩ ⟨pc + len l, vl :: rs, st1.inp :: vs, fr, st1.trace⟩ ∧
      step fo host P ⟨pc + len l, vl :: rs, st1.inp :: vs, fr, st1.trace⟩ =
        .running ⟨pc + len l + 1, .fls :: rs, st1.inp :: vs, fr, st1.trace⟩ ∧
      pc + len l + 1 < tb := by
  simp only [Located] at hloc
  obtain ⟨hll, j, join, tb, hi1, hjj, _, _, hlr, hterm⟩ := hloc
  simp only [wfC, Bool.and_eq_true] at hwf
  obtain ⟨t, ht, hlt1, hle, _⟩ := fwd (pc + len l) .and j hi1 rfl
  rw [hjj] at ht
  cases ht
  have hreach := ((sim_all fo host env fuel).1 l cur st (.val vl) st1 hl root pc rs vs fr entry hll hwf.1 hj hent
    (lt_size_of_get hi1))
  rw [termsAfter_tis] at hterm
  simp only [InstrsAt, and_true] at hterm
  have htb : tb < P.instrs.size := by have := lt_size_of_get hterm.1; have := len_pos r; omega
  have hstep := step_and (fo := fo) (host := host) (rs := rs) (vs := st1.inp :: vs) (fr := fr) (tr := st1.trace)
    (d := vl) hi1 hjj htb (by omega)
  simp only [hf, Bool.false_eq_true, if_false] at hstep
  exact ⟨j, tb, hi1, hjj, hlr, hreach, hstep, hlt1⟩

/-- `l || r`, the left operand true: `$?` after one step from the `Or`, `r`'s code lies ahead -/
theorem C10_or_decides {P : Prog F} {bodies : List (Nat × Expr F)} (env : Env P bodies) (fwd : BranchFwd P)
    {root cur pc entry : Nat} {l r : Expr F}
    (hloc : Located P root cur pc (.or l r)) (hwf : wfC (.or l r) = true)
    (hj : P.jumps[cur]? = some entry) (hent : entry < P.instrs.size)
    {fuel : Nat} {st st1 : St F} {vl : Val F}
    (hl : evalFS fo host bodies cur fuel l st = .ok (.val vl, st1)) (hf : vl.truthy = true)
    (rs vs : List (Val F)) (fr : List (Frame F)) :
    ∃ j tb, P.instrs[pc + len l]? = some (.or, some j) ∧ P.jumps[j]? = some tb ∧ Located P j cur tb r ∧
      Reach fo host P ⟨pc, rs, st.inp :: vs, fr, st.trace⟩ ⟨pc + len l, vl :: rs, st1.inp :: vs, fr, st1.trace⟩ ∧
      step fo host P ⟨pc + len l, vl :: rs, st1.inp :: vs, fr, st1.trace⟩ =
        .running ⟨pc + len l + 1, .tru :: rs, st1.inp :: vs, fr, st1.trace⟩ ∧
      pc + len l + 1 < tb := by
  simp only [Located] at hloc
  obtain ⟨hll, j, join, tb, hi1, hjj, _, _, hlr, hterm⟩ := hloc
  simp only [wfC, Bool.and_eq_true] at hwf
  obtain ⟨t, ht, hlt1, hle, _⟩ := fwd (pc + len l) .or j hi1 rfl
  rw [hjj] at ht
  cases ht
  have hreach := ((sim_all fo host env fuel).1 l cur st (.val vl) st1 hl root pc rs vs fr entry hll hwf.1 hj hent
    (lt_size_of_get hi1))
  rw [termsAfter_tis] at hterm
  simp only [InstrsAt, and_true] at hterm
  have htb : tb < P.instrs.size := by have := lt_size_of_get hterm.1; have := len_pos r; omega
  have hstep := step_or (fo := fo) (host := host) (rs := rs) (vs := st1.inp :: vs) (fr := fr) (tr := st1.trace)
    (d := vl) hi1 hjj htb (by omega)
  simp only [hf, if_true] at hstep
  exact ⟨j, tb, hi1, hjj, hlr, hreach, hstep, hlt1⟩

/-- `c ?> t` / `c !> t`, the test fails: the `JumpIf` falls through, `PutValue` pushes `$`, and the conditional is
complete at `pc + len c + 2` — two steps, all three addresses before `t`'s code -/
theorem C10_cond_skips {P : Prog F} {bodies : List (Nat × Expr F)} (env : Env P bodies) (fwd : BranchFwd P)
    {root cur pc entry : Nat} {onTrue : Bool} {c t : Expr F}
    (hloc : Located P root cur pc (.cond onTrue c t)) (hwf : wfC (.cond onTrue c t) = true)
    (hj : P.jumps[cur]? = some entry) (hent : entry < P.instrs.size) (hlt : pc + len (.cond onTrue c t) < P.instrs.size)
    {fuel : Nat} {st st1 : St F} {vc : Val F}
    (hc : evalFS fo host bodies cur fuel c st = .ok (.val vc, st1)) (hf : (vc.truthy == onTrue) = false)
    (rs vs : List (Val F)) (fr : List (Frame F)) :
    ∃ j tb, P.instrs[pc + len c]? = some (jumpIf onTrue, some j) ∧ P.jumps[j]? = some tb ∧ Located P j cur tb t ∧
      Reach fo host P ⟨pc, rs, st.inp :: vs, fr, st.trace⟩ ⟨pc + len c, vc :: rs, st1.inp :: vs, fr, st1.trace⟩ ∧
      step fo host P ⟨pc + len c, vc :: rs, st1.inp :: vs, fr, st1.trace⟩ =
        .running ⟨pc + len c + 1, rs, st1.inp :: vs, fr, st1.trace⟩ ∧
      step fo host P ⟨pc + len c + 1, rs, st1.inp :: vs, fr, st1.trace⟩ =
        .running ⟨pc + len c + 2, st1.inp :: rs, st1.inp :: vs, fr, st1.trace⟩ ∧
      pc + len c + 2 < tb := by
  simp only [Located] at hloc
  obtain ⟨hlc, j, join, tb, hi1, hi2, hjj, _, _, hlt', hterm⟩ := hloc
  simp only [wfC, Bool.and_eq_true] at hwf
  have hbr : isBranch (jumpIf onTrue) = true := isBranch_jumpIf onTrue
  obtain ⟨t', ht, hlt1, hle, hpv⟩ := fwd (pc + len c) (jumpIf onTrue) j hi1 hbr
  rw [hjj] at ht
  cases ht
  have hlt2 := hpv hi2
  have hend : pc + len (.cond onTrue c t) = pc + len c + 2 := by simp only [len]; omega
  rw [hend] at hlt
  have hreach := ((sim_all fo host env fuel).1 c cur st (.val vc) st1 hc root pc rs vs fr entry hlc hwf.1 hj hent
    (lt_size_of_get hi1))
  rw [termsAfter_jump] at hterm
  simp only [InstrsAt, and_true] at hterm
  have htb : tb < P.instrs.size := by have := lt_size_of_get hterm; have := len_pos t; omega
  have hstep := step_jumpIf (fo := fo) (host := host) (rs := rs) (vs := st1.inp :: vs) (fr := fr) (tr := st1.trace)
    (d := vc) hi1 hjj htb (by omega)
  simp only [hf, Bool.false_eq_true, if_false] at hstep
  exact ⟨j, tb, hi1, hjj, hlt', hreach, hstep, step_putValue hi2 (by omega), hlt2⟩

/-! ### … for every occurrence in a well-formed program -/

/-- in a compiled well-formed program branch targets lie ahead -/
theorem compile_fwd (p : Program F) (hwf : C01.WFProgramC p) : BranchFwd (compile p) :=
  compile_branchFwd Prog.empty p
    (fun i op j hx _ => by simp [Prog.empty] at hx) (C01.compile_complete p hwf.labels)

/-- the entry of a body of a compiled well-formed program -/
theorem body_entry (p : Program F) (hwf : C01.WFProgramC p) {id : Nat} {b : Expr F} (hb : lookupBody p.bodies id = some b) :
    ∃ entry, (compile p).jumps[id]? = some entry ∧ entry < (compile p).instrs.size := by
  obtain ⟨t, hjt, _, _, hend⟩ := (C01.compile_env p hwf).body id b hb
  exact ⟨t, hjt, by have := lt_size_of_get hend; omega⟩

/-- **C10 in context, `&&`**: for `l && r` occurring anywhere in body `id` of a well-formed program, in the compiled
program: the occurrence is laid out — `l` at `pc`, `And j` at `pc + len l`, `r` out of line at `tb = jumps[j]`, and
`pc + len l + 1 < tb` — and whenever the evaluation of `l` (in any state `st`, with any operands `rs`, input values `vs`
and frames `fr` around it) yields a false value, the machine started at `pc` reaches the `And` with that value and its
next step lands on the continuation `pc + len l + 1` with `$!` pushed: between the decision and the continuation no
instruction of `r` (addresses `≥ tb`) is executed. -/
theorem C10_short_circuit_in_context (p : Program F) (hwf : C01.WFProgramC p) {id : Nat} {b l r : Expr F}
    (hb : lookupBody p.bodies id = some b) (hs : Sub (.and l r) b) :
    ∃ root pc j tb, Located (compile p) root id pc (.and l r) ∧
      (compile p).instrs[pc + len l]? = some (.and, some j) ∧ (compile p).jumps[j]? = some tb ∧
      Located (compile p) j id tb r ∧ pc + len l + 1 < tb ∧
      ∀ (fuel : Nat) (st st1 : St F) (vl : Val F),
        evalFS fo host p.bodies id fuel l st = .ok (.val vl, st1) → vl.truthy = false →
        ∀ (rs vs : List (Val F)) (fr : List (Frame F)),
          Reach fo host (compile p) ⟨pc, rs, st.inp :: vs, fr, st.trace⟩ ⟨pc + len l, vl :: rs, st1.inp :: vs, fr, st1.trace⟩ ∧
          step fo host (compile p) ⟨pc + len l, vl :: rs, st1.inp :: vs, fr, st1.trace⟩ =
            .running ⟨pc + len l + 1, .fls :: rs, st1.inp :: vs, fr, st1.trace⟩ := by
  have env := C01.compile_env p hwf
  obtain ⟨root, pc, hloc, hw, _⟩ := Located_sub hs (Occ.ofEnv env hb)
  obtain ⟨entry, hj, hent⟩ := body_entry p hwf hb
  have hloc' := hloc
  simp only [Located] at hloc'
  obtain ⟨_, j, join, tb, hi1, hjj, _, _, hlr, _⟩ := hloc'
  obtain ⟨t, ht, hlt1, _, _⟩ := compile_fwd p hwf (pc + len l) .and j hi1 rfl
  rw [hjj] at ht; cases ht
  refine ⟨root, pc, j, tb, hloc, hi1, hjj, hlr, hlt1, fun fuel st st1 vl hl hf rs vs fr => ?_⟩
  obtain ⟨j', tb', hi1', _, _, hreach, hstep, _⟩ :=
    C10_and_decides fo host env (compile_fwd p hwf) hloc hw hj hent hl hf rs vs fr
  exact ⟨hreach, hstep⟩

/-- **C10 in context, `||`**: the same for `l || r` with a true left operand (`$?` is pushed) -/
theorem C10_short_circuit_in_context_or (p : Program F) (hwf : C01.WFProgramC p) {id : Nat} {b l r : Expr F}
    (hb : lookupBody p.bodies id = some b) (hs : Sub (.or l r) b) :
    ∃ root pc j tb, Located (compile p) root id pc (.or l r) ∧
      (compile p).instrs[pc + len l]? = some (.or, some j) ∧ (compile p).jumps[j]? = some tb ∧
      Located (compile p) j id tb r ∧ pc + len l + 1 < tb ∧
      ∀ (fuel : Nat) (st st1 : St F) (vl : Val F),
        evalFS fo host p.bodies id fuel l st = .ok (.val vl, st1) → vl.truthy = true →
        ∀ (rs vs : List (Val F)) (fr : List (Frame F)),
          Reach fo host (compile p) ⟨pc, rs, st.inp :: vs, fr, st.trace⟩ ⟨pc + len l, vl :: rs, st1.inp :: vs, fr, st1.trace⟩ ∧
          step fo host (compile p) ⟨pc + len l, vl :: rs, st1.inp :: vs, fr, st1.trace⟩ =
            .running ⟨pc + len l + 1, .tru :: rs, st1.inp :: vs, fr, st1.trace⟩ := by
  have env := C01.compile_env p hwf
  obtain ⟨root, pc, hloc, hw, _⟩ := Located_sub hs (Occ.ofEnv env hb)
  obtain ⟨entry, hj, hent⟩ := body_entry p hwf hb
  have hloc' := hloc
  simp only [Located] at hloc'
  obtain ⟨_, j, join, tb, hi1, hjj, _, _, hlr, _⟩ := hloc'
  obtain ⟨t, ht, hlt1, _, _⟩ := compile_fwd p hwf (pc + len l) .or j hi1 rfl
  rw [hjj] at ht; cases ht
  refine ⟨root, pc, j, tb, hloc, hi1, hjj, hlr, hlt1, fun fuel st st1 vl hl hf rs vs fr => ?_⟩
  obtain ⟨j', tb', hi1', _, _, hreach, hstep, _⟩ :=
    C10_or_decides fo host env (compile_fwd p hwf) hloc hw hj hent hl hf rs vs fr
  exact ⟨hreach, hstep⟩

/-- **C10 in context, conditionals**: for `c ?> t` / `c !> t` occurring anywhere (not as an arm of an else-chain: those
are `chain`s), when the test fails the two instructions after the test — the `JumpIf`, which falls through, and the
`PutValue` that pushes `$` — take the machine to `pc + len c + 2`, the end of the conditional; `t`'s code begins at
`tb > pc + len c + 2` and is not entered. -/
theorem C10_cond_in_context (p : Program F) (hwf : C01.WFProgramC p) {id : Nat} {b c t : Expr F} {onTrue : Bool}
    (hb : lookupBody p.bodies id = some b) (hs : Sub (.cond onTrue c t) b) :
    ∃ root pc j tb, Located (compile p) root id pc (.cond onTrue c t) ∧
      (compile p).instrs[pc + len c]? = some (jumpIf onTrue, some j) ∧ (compile p).jumps[j]? = some tb ∧
      Located (compile p) j id tb t ∧ pc + len c + 2 < tb ∧
      ∀ (fuel : Nat) (st st1 : St F) (vc : Val F),
        evalFS fo host p.bodies id fuel c st = .ok (.val vc, st1) → (vc.truthy == onTrue) = false →
        ∀ (rs vs : List (Val F)) (fr : List (Frame F)),
          Reach fo host (compile p) ⟨pc, rs, st.inp :: vs, fr, st.trace⟩ ⟨pc + len c, vc :: rs, st1.inp :: vs, fr, st1.trace⟩ ∧
          step fo host (compile p) ⟨pc + len c, vc :: rs, st1.inp :: vs, fr, st1.trace⟩ =
            .running ⟨pc + len c + 1, rs, st1.inp :: vs, fr, st1.trace⟩ ∧
          step fo host (compile p) ⟨pc + len c + 1, rs, st1.inp :: vs, fr, st1.trace⟩ =
            .running ⟨pc + len c + 2, st1.inp :: rs, st1.inp :: vs, fr, st1.trace⟩ := by
  have env := C01.compile_env p hwf
  obtain ⟨root, pc, hloc, hw, hlt⟩ := Located_sub hs (Occ.ofEnv env hb)
  obtain ⟨entry, hj, hent⟩ := body_entry p hwf hb
  have hloc' := hloc
  simp only [Located] at hloc'
  obtain ⟨_, j, join, tb, hi1, hi2, hjj, _, _, hlt', _⟩ := hloc'
  obtain ⟨t', ht, _, _, hpv⟩ := compile_fwd p hwf (pc + len c) (jumpIf onTrue) j hi1 (isBranch_jumpIf onTrue)
  rw [hjj] at ht; cases ht
  refine ⟨root, pc, j, tb, hloc, hi1, hjj, hlt', hpv hi2, fun fuel st st1 vc hc hf rs vs fr => ?_⟩
  obtain ⟨j', tb', _, _, _, hreach, hstep1, hstep2, _⟩ :=
    C10_cond_skips fo host env (compile_fwd p hwf) hloc hw hj hent hlt hc hf rs vs fr
  exact ⟨hreach, hstep1, hstep2⟩

/-! ### non-vacuity: `&&` inside the arm of a conditional inside a list -/

/-- `(1, $ ?> ($ && 7))`: the `&&` occurs in an out-of-line root of the top-level body -/
def exCtx : Program Float :=
  { main := .list [.lit (.num (.int 1)), .cond true .input (.and .input (.lit (.num (.int 7))))],
    bodies := [(0, .list [.lit (.num (.int 1)), .cond true .input (.and .input (.lit (.num (.int 7))))])] }

example : Sub (.and .input (.lit (.num (.int 7)))) exCtx.main :=
  .list (a := .cond true .input (.and .input (.lit (.num (.int 7))))) (by simp) (.condT _ _ (.refl _))

example : (compile exCtx).instrs =
    #[(.put, some 0), (.putValue, none), (.jumpIfTrue, some 1), (.putValue, none), (.makeList, some 2), (.endExpression, none),
      (.putValue, none), (.and, some 3), (.jumpTo, some 2), (.put, some 1), (.tis, none), (.jumpTo, some 4)] ∧
    (compile exCtx).jumps = #[0, 6, 4, 9, 8] := by
  constructor <;> decide

theorem exCtx_done : (compileState Prog.empty exCtx).done =
    [⟨.code (.lit (.num (.int 7))), 3, [(.tis, none), (.jumpTo, some 4)], 0⟩,
     ⟨.code (.and .input (.lit (.num (.int 7)))), 1, [(.jumpTo, some 2)], 0⟩,
     ⟨.ref 0, 0, [(.endExpression, none)], 0⟩] := by rfl

theorem exCtx_wf : C01.WFProgramC exCtx where
  main0 := rfl
  wf := by
    intro id b h
    simp only [exCtx, lookupBody] at h
    split at h
    · cases h; rfl
    · cases h
  tail := rfl
  labels := by
    intro r hr id hk
    rw [exCtx_done] at hr
    simp only [List.mem_cons, List.not_mem_nil, or_false] at hr
    rcases hr with rfl | rfl | rfl <;> first | (cases hk; rfl) | cases hk
  covered := by
    intro id b h
    simp only [exCtx, lookupBody] at h
    split at h
    · rename_i hid
      have h0 : (0 : Nat) = id := by simpa using hid
      subst h0
      exact ⟨⟨.ref 0, 0, [(.endExpression, none)], 0⟩, by rw [exCtx_done]; simp, rfl⟩
    · cases h

/-- the theorem applies to this occurrence: `And 3` sits at address 7, the right operand `7` at address 9 = `jumps[3]`,
and `7 + 1 < 9` -/
example (fo : FloatOps Float) (host : Host Float) :=
  C10_short_circuit_in_context fo host exCtx exCtx_wf (id := 0) rfl
    (.list (a := .cond true .input (.and .input (.lit (.num (.int 7))))) (by simp [exCtx]) (.condT _ _ (.refl _)))

end Garnish.Props.C10
