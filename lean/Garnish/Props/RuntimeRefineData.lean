/-
Runtime refinement, part 2c: range.rs (C08 anchors), pair.rs, concat.rs, partial.rs, put.rs, sideeffect.rs
(C06 anchors: the register / input-value effects of Abs/Machine `step`).

`C08_refine_make_range_internal`: for ALL operand values `make_range_internal` refines Abs/Ops `makeRange`
(two numbers ↦ a range of the — possibly incremented, freshly added — ends, the number error when an increment
overflows; anything else ↦ the defer protocol with the instruction Abs/Ops names). The other theorems state the
exact register / value-stack effect of each handler, with `Decodes` of whatever is pushed.
Hypotheses: `StoreLaws S`, the stack shapes, `Decodes` of the operands.
-/
import Garnish.Lemmas.RuntimeData
import Garnish.Lemmas.RuntimeCmp
import Garnish.Lemmas.RuntimeRefStore
import Garnish.Model.Runtime.Range
import Garnish.Model.Runtime.Pair
import Garnish.Model.Runtime.Put
set_option linter.unusedSimpArgs false
set_option linter.unusedVariables false
namespace Garnish.Props.RuntimeRefine
open Garnish Gen Garnish.Abs Garnish.Model.Equality Garnish.Model.Runtime Garnish.Lemmas.Runtime

variable {F σ : Type} {S : RStore F σ} (fo : FloatOps F)

/-- the instruction named to the host is the one of Abs/Ops -/
theorem C08_refine_range_instruction (a b : Bool) : rangeInstruction a b = rangeInstr a b := by
  cases a <;> cases b <;> rfl

/-- `make_range_internal` refines Abs/Ops `makeRange` -/
theorem C08_refine_make_range_internal (L : StoreLaws S) (startExcl endExcl : Bool)
    {s : σ} {r l : Nat} {vr vl : Val F} {rest : List Nat}
    (hregs : S.regs s = r :: l :: rest) (hl : Decodes (S.view s) l vl) (hr : Decodes (S.view s) r vr) :
    RefinesOut S s (makeRangeInternal fo S startExcl endExcl s) none rest l r
      (Abs.makeRange fo startExcl endExcl vl vr) := by
  obtain ⟨s0, h0, e0⟩ := nextTwoRawRef_cons L hregs
  have hl0 := e0.dec hl
  have hr0 := e0.dec hr
  rw [makeRangeInternal, bind_ok h0]
  simp only []
  rw [bind_ok (getDataType_of hl0), bind_ok (getDataType_of hr0)]
  by_cases hn : vl.typeOf = .number ∧ vr.typeOf = .number
  · obtain ⟨a, rfl⟩ := typeOf_number hn.1
    obtain ⟨b, rfl⟩ := typeOf_number hn.2
    simp only [Val.typeOf, Abs.makeRange]
    cases startExcl <;> cases endExcl <;> simp only [if_true, if_false, Bool.false_eq_true]
    · -- inclusive..inclusive: the right end is incremented
      rw [bind_ok (pure_apply l s0)]
      cases hi : Number.increment fo b with
      | none => simp only []; exact bind_err (addIncremented_none fo hr0 hi)
      | some y =>
        obtain ⟨ra, s1, h1, d1, e1⟩ := addIncremented_some fo L hr0 hi
        rw [e0.regs, e0.vals] at e1
        simp only []
        rw [bind_ok h1]
        exact rangeTail L (e0.trans e1) (e1.dec hl0) d1
    · rw [bind_ok (pure_apply l s0), bind_ok (pure_apply r s0)]
      exact rangeTail L e0 hl0 hr0
    · cases hi : Number.increment fo a with
      | none => simp only []; exact bind_err (addIncremented_none fo hl0 hi)
      | some x =>
        obtain ⟨la, s1, h1, d1, e1⟩ := addIncremented_some fo L hl0 hi
        rw [e0.regs, e0.vals] at e1
        rw [bind_ok h1]
        cases hj : Number.increment fo b with
        | none => simp only []; exact bind_err (addIncremented_none fo (e1.dec hr0) hj)
        | some y =>
          obtain ⟨ra, s2, h2, d2, e2⟩ := addIncremented_some fo L (e1.dec hr0) hj
          rw [e1.regs, e1.vals] at e2
          simp only []
          rw [bind_ok h2]
          exact rangeTail L ((e0.trans e1).trans e2) (e2.dec d1) d2
    · cases hi : Number.increment fo a with
      | none => simp only []; exact bind_err (addIncremented_none fo hl0 hi)
      | some x =>
        obtain ⟨la, s1, h1, d1, e1⟩ := addIncremented_some fo L hl0 hi
        rw [e0.regs, e0.vals] at e1
        simp only []
        rw [bind_ok h1, bind_ok (pure_apply r s1)]
        exact rangeTail L (e0.trans e1) d1 (e1.dec hr0)
  · have hd : Abs.makeRange fo startExcl endExcl vl vr = .defer (rangeInstr startExcl endExcl) vl vr := by
      unfold Abs.makeRange
      split
      · exact absurd ⟨rfl, rfl⟩ hn
      · rfl
    rw [hd, ← C08_refine_range_instruction]
    refine ⟨s0, e0, ?_⟩
    generalize vl.typeOf = tl at hn ⊢
    generalize vr.typeOf = tr at hn ⊢
    cases tl
    case number =>
      cases tr
      case number => exact absurd ⟨rfl, rfl⟩ hn
      all_goals exact deferOrUnit_spec L s0 _ _ _ none
    all_goals exact deferOrUnit_spec L s0 _ _ _ none

/-- `range_len` is Abs/Ops `rangeLen`; a `None` is the number error -/
theorem C08_refine_range_len (a b : Number F) (s0 : σ) :
    (Model.Runtime.rangeLen fo a b : RM σ (Number F)) s0 = match Abs.rangeLen fo a b with
      | some len => .ok (len, s0)
      | none => .err .number := rangeLen_rm fo a b s0

/-! ### pair.rs, concat.rs, partial.rs -/

/-- `make_pair` pops the LEFT component first: registers `l :: r :: rest` ↦ `(l = r)`, as Abs/Machine `.makePair` -/
theorem C06_refine_make_pair (L : StoreLaws S) {s : σ} {r l : Nat} {vr vl : Val F} {rest : List Nat}
    (hregs : S.regs s = l :: r :: rest) (hl : Decodes (S.view s) l vl) (hr : Decodes (S.view s) r vr) :
    Pushed S s (makePair S s) none rest (.pair vl vr) := by
  obtain ⟨s0, h0, e0⟩ := nextTwoRawRef_cons L hregs
  obtain ⟨a, s1, h1, d1, e1⟩ := pushPair_spec L (e0.dec hl) (e0.dec hr)
  rw [e0.regs, e0.vals] at e1
  refine ⟨a, s1, ?_, d1, e0.trans e1⟩
  rw [makePair, bind_ok h0]
  simp only []
  rw [bind_ok h1]; rfl

/-- `concat`: Abs/Ops `binaryOp .concat` -/
theorem C06_refine_concat (L : StoreLaws S) {s : σ} {r l : Nat} {vr vl : Val F} {rest : List Nat}
    (hregs : S.regs s = r :: l :: rest) (hl : Decodes (S.view s) l vl) (hr : Decodes (S.view s) r vr) :
    Pushed S s (Model.Runtime.concat S s) none rest (.concat vl vr) := by
  obtain ⟨s0, h0, e0⟩ := nextTwoRawRef_cons L hregs
  rw [Model.Runtime.concat, bind_ok h0]
  exact addPushTail L e0 (L.addConcatenation l r vl vr s0 (e0.dec hl) (e0.dec hr))

/-- `partial_apply`: Abs/Ops `binaryOp .partialApply` -/
theorem C06_refine_partial_apply (L : StoreLaws S) {s : σ} {r l : Nat} {vr vl : Val F} {rest : List Nat}
    (hregs : S.regs s = r :: l :: rest) (hl : Decodes (S.view s) l vl) (hr : Decodes (S.view s) r vr) :
    Pushed S s (partialApply S s) none rest (.part vl vr) := by
  obtain ⟨s0, h0, e0⟩ := nextTwoRawRef_cons L hregs
  rw [partialApply, bind_ok h0]
  exact addPushTail L e0 (L.addPartial l r vl vr s0 (e0.dec hl) (e0.dec hr))

/-! ### put.rs -/

/-- `put i`: the address itself is pushed when it lies inside the data, else the state error -/
theorem C06_refine_put (L : StoreLaws S) (i : Nat) (s : σ) :
    if i < S.dataLen s then ∃ s', put S i s = .ok (none, s') ∧ Eff S s s' (i :: S.regs s) (S.vals s)
    else put S i s = .err .state := by
  rw [put, bind_ok (read_apply S.dataLen s)]
  by_cases h : i < S.dataLen s
  · have hd : decide (i ≥ S.dataLen s) = false := by simp; omega
    obtain ⟨s1, h1, e1⟩ := L.pushRegister i s
    simp only [h, if_true, hd]
    exact ⟨s1, by rw [bind_ok h1]; rfl, e1⟩
  · have hd : decide (i ≥ S.dataLen s) = true := by simp; omega
    simp only [h, if_false, hd]; rfl

/-- `put_value`: the current input value, or a fresh unit when there is none (Abs/Machine `.putValue`) -/
theorem C06_refine_put_value (L : StoreLaws S) (s : σ) :
    match S.vals s with
    | [] => Pushed S s (putValue S s) none (S.regs s) .unit
    | v :: _ => ∃ s', putValue S s = .ok (none, s') ∧ Eff S s s' (v :: S.regs s) (S.vals s) := by
  have hg : getCurrentValue S s = .ok ((S.vals s).head?, s) := rfl
  rw [putValue, bind_ok hg]
  cases hv : S.vals s with
  | nil =>
    obtain ⟨a, s1, h1, d1, e1⟩ := pushUnit_spec L s
    exact ⟨a, s1, by simp only [List.head?_nil]; rw [bind_ok h1]; rfl, d1, e1⟩
  | cons v vs =>
    obtain ⟨s1, h1, e1⟩ := L.pushRegister v s
    exact ⟨s1, by simp only [List.head?_cons]; rw [bind_ok h1]; rfl, hv ▸ e1⟩

/-- `push_value`: the top register becomes the current input value -/
theorem C06_refine_push_value (L : StoreLaws S) {s : σ} {r : Nat} {rest : List Nat} (hregs : S.regs s = r :: rest) :
    ∃ s', pushValue S s = .ok (none, s') ∧ Eff S s s' rest (r :: S.vals s) := by
  obtain ⟨s0, h0, e0⟩ := nextRef_cons L hregs
  obtain ⟨s1, h1, e1⟩ := L.pushValueStack r s0
  rw [e0.regs, e0.vals] at e1
  exact ⟨s1, by rw [pushValue, bind_ok h0, bind_ok h1]; rfl, e0.trans e1⟩

/-- `update_value`: the top register replaces the current input value; the state error when there is none -/
theorem C06_refine_update_value (L : StoreLaws S) {s : σ} {r : Nat} {rest : List Nat} (hregs : S.regs s = r :: rest) :
    match S.vals s with
    | [] => updateValue S s = .err .state
    | _ :: vs => ∃ s', updateValue S s = .ok (none, s') ∧ Eff S s s' rest (r :: vs) := by
  obtain ⟨s0, h0, e0⟩ := nextRef_cons L hregs
  cases hv : S.vals s with
  | nil =>
    obtain ⟨s1, h1, e1⟩ := L.setCurrentNil r s0 (by rw [e0.vals, hv])
    simp only []
    rw [updateValue, bind_ok h0, bind_ok h1]; rfl
  | cons v vs =>
    obtain ⟨s1, h1, e1⟩ := L.setCurrentCons r s0 v vs (by rw [e0.vals, hv])
    rw [e0.regs] at e1
    refine ⟨s1, ?_, e0.trans e1⟩
    rw [updateValue, bind_ok h0, bind_ok h1]; rfl

/-! ### sideeffect.rs -/

/-- `start_side_effect`: the current input value is duplicated (a fresh unit when there is none) -/
theorem C06_refine_start_side_effect (L : StoreLaws S) (s : σ) :
    match S.vals s with
    | [] => ∃ a s', startSideEffect S s = .ok (none, s') ∧ Decodes (S.view s') a .unit ∧ Eff S s s' (S.regs s) [a]
    | v :: vs => ∃ s', startSideEffect S s = .ok (none, s') ∧ Eff S s s' (S.regs s) (v :: v :: vs) := by
  have hg : getCurrentValue S s = .ok ((S.vals s).head?, s) := rfl
  rw [startSideEffect, bind_ok hg]
  cases hv : S.vals s with
  | nil =>
    obtain ⟨a, s1, h1, d1, e1⟩ := L.addUnit s
    obtain ⟨s2, h2, e2⟩ := L.pushValueStack a s1
    rw [e1.regs, e1.vals, hv] at e2
    exact ⟨a, s2, by simp only [List.head?_nil]; rw [bind_ok h1, bind_ok h2]; rfl, e2.dec d1, e1.trans e2⟩
  | cons v vs =>
    obtain ⟨s1, h1, e1⟩ := L.pushValueStack v s
    rw [hv] at e1
    exact ⟨s1, by simp only [List.head?_cons]; rw [bind_ok h1]; rfl, e1⟩

/-- `end_side_effect`: one input value and one register are dropped (Abs/Machine `.endSideEffect`); the state
error when either is missing -/
theorem C06_refine_end_side_effect (L : StoreLaws S) (s : σ) :
    match S.vals s, S.regs s with
    | _ :: vs, _ :: rs => ∃ s', endSideEffect S s = .ok (none, s') ∧ Eff S s s' rs vs
    | _, _ => endSideEffect S s = .err .state := by
  cases hv : S.vals s with
  | nil =>
    obtain ⟨s1, h1, e1⟩ := L.popValueStackNil s hv
    simp only []
    rw [endSideEffect, bind_ok h1]; rfl
  | cons v vs =>
    obtain ⟨s1, h1, e1⟩ := L.popValueStackCons s v vs hv
    cases hr : S.regs s with
    | nil =>
      obtain ⟨s2, h2, e2⟩ := L.popRegisterNil s1 (by rw [e1.regs, hr])
      simp only []
      rw [endSideEffect, bind_ok h1]
      simp only []
      rw [bind_ok h2]; rfl
    | cons r rs =>
      obtain ⟨s2, h2, e2⟩ := L.popRegisterCons s1 r rs (by rw [e1.regs, hr])
      rw [e1.vals] at e2
      refine ⟨s2, ?_, e1.trans e2⟩
      rw [endSideEffect, bind_ok h1]
      simp only []
      rw [bind_ok h2]; rfl

/-! ### non-vacuity -/

/-- `0: 1   1: 5   2: ()` -/
def dataCells : List (RCell F) := [.num (.int 1), .num (.int 5), .unit]

/-- `1..5` (both ends inclusive): the theorem applies to the reference store … -/
example : Pushed (refStore (fun _ => none)) (RefState.init (dataCells (F := F)) [1, 0, 9])
    (makeRange fo (refStore (fun _ => none)) (RefState.init dataCells [1, 0, 9])) none [9]
    (.range (.num (.int 1)) (.num (.int 6))) := by
  have h := C08_refine_make_range_internal fo (refStore_laws (fun _ => none)) false false
    (s := RefState.init (dataCells (F := F)) [1, 0, 9]) (vl := .num (.int 1)) (vr := .num (.int 5)) rfl
    (.num rfl rfl) (.num rfl rfl)
  have e : Abs.makeRange fo false false (.num (.int 1)) (.num (.int 5) : Val F)
      = .val (.range (.num (.int 1)) (.num (.int 6))) := by
    simp [Abs.makeRange, Number.increment, Number.overflowingAdd, Lemmas.ovf_eq, InRange]
  rw [e] at h; exact h

/-- … and the model run: the end `6` is a new cell, the range cell points at the old start and the new end -/
example : ∃ s', makeRange fo (refStore (fun _ => none)) (RefState.init (dataCells (F := F)) [1, 0, 9]) = .ok (none, s') ∧
    s'.regs = [4, 9] ∧ s'.cells = dataCells ++ [.num (.int 6), .range 0 3] := ⟨_, rfl, rfl, rfl⟩

/-- `() .. 5`: offered to the host as `MakeRange`, unit pushed when it declines -/
example : ∃ s', makeRange fo (refStore (fun _ => none)) (RefState.init (dataCells (F := F)) [1, 2, 9]) = .ok (none, s') ∧
    s'.regs = [3, 9] ∧ s'.trace = [.defer .makeRange (.unit, 2) (.number, 1)] := ⟨_, rfl, rfl, rfl⟩

/-- `make_pair` with registers `l :: r :: rest` -/
example : ∃ s', makePair (refStore (fun _ => none)) (RefState.init (dataCells (F := F)) [0, 1, 9]) = .ok (none, s') ∧
    s'.regs = [3, 9] ∧ s'.cells = dataCells ++ [.pair 0 1] := ⟨_, rfl, rfl, rfl⟩

end Garnish.Props.RuntimeRefine
