/-
C01 from the source TEXT: characters → lexer → parser → builder → machine in one theorem.

  toP                 (Model/Tokens.lean) lexer tokens → parser tokens: same text and type, `col` = position in the list
  toP_numbered        `NumberedFrom 0 (toP toks)` for every token list
  buildText           the pipeline of the models: `lex`, `parse ∘ toP`, `build` on the empty data object
  C01_text_build      if the lexed source is in `frag9'` and its reference tree elaborates to `p`, `buildText` returns entry 0
                      and exactly the instructions, jump table and constants of `compile p`
  C01_text_correct    … and if `p` is well formed and means `(v, st)`, the built object run on the value-level machine halts
                      with `v` and the host-call trace of `st`.
Hypotheses that remain, all about the source and decidable on a concrete string: the lexer model accepts (`lex cc s = .ok`),
the token list is in the fragment `frag9'` of Props/C02Numbered.lean, its reference tree (`refParse`) elaborates
(`elaborate`, Lemmas/SourceRep.lean), the program is a `C01.WFProgram`.  `cc` = the character classes of the lexer (any).
-/
import Garnish.Model.Tokens
import Garnish.Props.C02Numbered
namespace Garnish.Props.C01Text
open Garnish Garnish.Gen Garnish.Spec Garnish.Abs Garnish.Abs.Tree Garnish.Abs.Source Garnish.Model Garnish.Model.Parser
open Garnish.Model.Lexer Garnish.Model.Literals Garnish.Model.Build Garnish.Props.C01Build Garnish.Props.C01Source
open Garnish.Props.C02Numbered

theorem toPFrom_numbered : ∀ (toks : List LexerToken) (k : Nat), NumberedFrom k (toPFrom k toks)
  | [], _ => trivial
  | _ :: rest, k => ⟨rfl, toPFrom_numbered rest (k + 1)⟩

/-- the parser's input carries the positions of its tokens -/
theorem toP_numbered (toks : List LexerToken) : NumberedFrom 0 (toP toks) := toPFrom_numbered toks 0

variable {F : Type} (pf : List Char → Option F) (cc : CharClass)

/-- **the pipeline of the models**: `build(parse(lex(source)))` on the empty data object -/
def buildText (s : List Char) : Outcome (BState F × Nat) :=
  Outcome.bind (lex cc s) fun toks =>
    Outcome.bind (parse (toP toks)) fun r => build pf (defaultFuel r.nodes.size) r.root r.nodes BState.empty

/-- **characters → builder** -/
theorem C01_text_build (s : List Char) (toks : List LexerToken) (hlex : lex cc s = .ok toks)
    (hf : frag9' (toP toks) = true) (rt : RTree) (href : refParse Table.gen (toP toks) = .ok rt)
    (p : Program F) (hel : elaborate pf (toP toks) rt = some p) (hcomplete : (compileState Prog.empty p).pending = []) :
    ∃ d, buildText pf cc s = .ok (d, 0) ∧
      d.instrs = (compile p).instrs ∧ d.jumps = (compile p).jumps ∧ d.consts = (compile p).consts := by
  obtain ⟨r, d, h1, h2, h3⟩ := C01_source_build pf (toP toks) hf (toP_numbered toks) rt href p hel hcomplete
  exact ⟨d, by simp only [buildText, hlex, Outcome.bind, h1, h2], h3⟩

/-- **characters → machine result**: one theorem from the source text to the value and host-call trace the machine
produces on the object that the (models of the) lexer, parser and builder make of it -/
theorem C01_text_correct (fo : FloatOps F) (host : Host F) (s : List Char) (toks : List LexerToken)
    (hlex : lex cc s = .ok toks) (hf : frag9' (toP toks) = true) (rt : RTree)
    (href : refParse Table.gen (toP toks) = .ok rt) (p : Program F) (hel : elaborate pf (toP toks) rt = some p)
    (hwf : C01.WFProgram p) (input : Val F) (fuel : Nat) (v : Val F) (st : St F)
    (h : evalProgram fo host fuel p input = .ok (v, st)) :
    ∃ d entry, buildText pf cc s = .ok (d, entry) ∧
      ∃ n m, run fo host (progOf d) n
          { pc := (progOf d).jumps[entry]?.getD 0, regs := [], vals := [input], frames := [], trace := [] } = (.halted m, n) ∧
        m.vals = [v] ∧ m.regs = [] ∧ m.frames = [] ∧ m.trace = st.trace := by
  obtain ⟨r, d, entry, h1, h2, h3⟩ :=
    C01_source_correct pf fo host (toP toks) hf (toP_numbered toks) rt href p hel hwf input fuel v st h
  exact ⟨d, entry, by simp only [buildText, hlex, Outcome.bind, h1, h2], h3⟩

/-! ### non-vacuity: source strings, everything by evaluation -/

/-- character classes for the examples (ASCII; the theorems hold for every `CharClass`) -/
def asciiCC : CharClass where
  isAlphanumeric := fun c => c.isAlphanum
  isNumeric := fun c => c.isDigit

def lexed (s : String) : List LexerToken :=
  match lex asciiCC s.toList with
  | .ok toks => toks
  | _ => []

/-- `"$ ?> 1 |> 2"`: the token list of Props/C01Source.lean `exCond` -/
theorem text_cond_lex : lex asciiCC "$ ?> 1 |> 2".toList = .ok (lexed "$ ?> 1 |> 2") := by rfl
theorem text_cond_toks : toP (lexed "$ ?> 1 |> 2") = exCond := by rfl

example : ∃ d, buildText noFloat asciiCC "$ ?> 1 |> 2".toList = .ok (d, 0) ∧
    d.instrs = (compile progCond).instrs ∧ d.jumps = (compile progCond).jumps ∧ d.consts = (compile progCond).consts :=
  C01_text_build noFloat asciiCC _ _ text_cond_lex (by rw [text_cond_toks]; exact exCond_frag') _
    (by rw [text_cond_toks]; exact exCond_ref) progCond (by rw [text_cond_toks]; exact exCond_elab) (by rfl)

/-- on input `true` the text `$ ?> 1 |> 2` means `1`, and that is what the machine computes on the object built from it -/
example (fo : FloatOps Float) (host : Host Float) :
    ∃ d entry, buildText noFloat asciiCC "$ ?> 1 |> 2".toList = .ok (d, entry) ∧
      ∃ n m, run fo host (progOf d) n
          { pc := (progOf d).jumps[entry]?.getD 0, regs := [], vals := [.tru], frames := [], trace := [] } = (.halted m, n) ∧
        m.vals = [.num (.int 1)] ∧ m.regs = [] ∧ m.frames = [] ∧ m.trace = [] :=
  C01_text_correct noFloat asciiCC fo host _ _ text_cond_lex (by rw [text_cond_toks]; exact exCond_frag') _
    (by rw [text_cond_toks]; exact exCond_ref) progCond (by rw [text_cond_toks]; exact exCond_elab) progCond_wf
    .tru 5 _ _ (progCond_meaning fo host)

/-- `"{ $ + 1 } <~ 5"` -/
theorem text_nested_lex : lex asciiCC "{ $ + 1 } <~ 5".toList = .ok (lexed "{ $ + 1 } <~ 5") := by rfl
theorem text_nested_toks : toP (lexed "{ $ + 1 } <~ 5") = exNested := by rfl

example : ∃ d, buildText noFloat asciiCC "{ $ + 1 } <~ 5".toList = .ok (d, 0) ∧
    d.instrs = (compile progNested).instrs ∧ d.jumps = (compile progNested).jumps ∧ d.consts = (compile progNested).consts :=
  C01_text_build noFloat asciiCC _ _ text_nested_lex (by rw [text_nested_toks]; exact exNested_frag') _
    (by rw [text_nested_toks]; exact exNested_ref) progNested (by rw [text_nested_toks]; exact exNested_elab) (by rfl)

/-- `"1, $ 3, (4,5)"` -/
theorem text_items_lex : lex asciiCC "1, $ 3, (4,5)".toList = .ok (lexed "1, $ 3, (4,5)") := by rfl
theorem text_items_toks : toP (lexed "1, $ 3, (4,5)") = exItems := by rfl

example : ∃ d, buildText noFloat asciiCC "1, $ 3, (4,5)".toList = .ok (d, 0) ∧
    d.instrs = (compile progItems).instrs ∧ d.jumps = (compile progItems).jumps ∧ d.consts = (compile progItems).consts :=
  C01_text_build noFloat asciiCC _ _ text_items_lex (by rw [text_items_toks]; exact exItems_frag') _
    (by rw [text_items_toks]; exact exItems_ref) progItems (by rw [text_items_toks]; exact exItems_elab) (by rfl)

end Garnish.Props.C01Text
