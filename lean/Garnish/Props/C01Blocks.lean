/-
C01 with side-effect blocks `v [ body ]`, from tokens and from the source text.

The chain itself covers them: `Rep.side` (Lemmas/CompileTree.lean), its simulation `sim_side` (Lemmas/CompileTree19.lean:
value node, `StartSideEffect`, body, `EndSideEffect`), hence `build_refines_compile` / `C01_build_correct`; `elabWith` reads
a value node over a `SideEffect` node as `.sideAfter v body` and `parse_rep` has the case; `C01_compile_correct` always
covered them (`wfE (.sideAfter x b) = wfE x && wfE b && noR b`: no `^~` out of a block).
What is different from Props/C01Text.lean: `[` is outside the reference grammar (`refParse` answers `unsupported`) and
outside `frag9'`, so the reference tree is the one read off the parser model's own result (`refTreeOf r t`), and of
`WellNumbered` only the two node-local parts hold for every token list (`C02_parse_linked`, `C02_parse_brackets`) —
  PARTIAL: `t.inorder = List.range r.nodes.size` (the nodes are numbered in in-order and all in the tree) is a hypothesis;
  it is decidable and checked by evaluation below.  MISSING: the numbering theorem of Props/C02Numbered.lean for token lists
  with blocks (parser-agent's `C02_parse_block_*` describe the node shapes of `[ body ]`, `v [ body ]`, `e op [ body ]` and
  `e op [ body ] v`, not the numbering).
Not elaborated (`none`), because the builder itself drops code there or there is no AST for it: `[b] v` (block before a value,
the LEFT child of the value node), `(e) [b]` and `v [b] [c]` (`handle_side_effect` never looks at the `left` of the node: the
group content / the first block is not compiled), `[ ]`.
Suite ELAB after this stage: no generated program is `none` (the programs with blocks are `same-p`: elaborated from the
parser model's tree).
-/
import Garnish.Props.C01Text
namespace Garnish.Props.C01Blocks
open Garnish Garnish.Gen Garnish.Spec Garnish.Abs Garnish.Abs.Tree Garnish.Abs.Source Garnish.Model Garnish.Model.Parser
open Garnish.Model.Lexer Garnish.Model.Literals Garnish.Model.Build Garnish.Props.C01Build Garnish.Props.C01Source
open Garnish.Props.C02Numbered Garnish.Props.C01Text

variable {F : Type} (pf : List Char → Option F) (cc : CharClass)

/-- for EVERY token list: the parser's result is well numbered as soon as its in-order walk is `0 … size-1` -/
theorem wellNumbered_of_inorder (toks : List PToken) (hnum : NumberedFrom 0 toks) (r : ParseResult) (t : Spec.Tree)
    (hp : parse toks = .ok r) (ht : toTree r = some t) (hin : t.inorder = List.range r.nodes.size) : WellNumbered toks r t :=
  ⟨hin, C02_parse_linked toks hnum r hp, C02_parse_brackets toks hnum r t hp ht⟩

/-- **tokens → builder, every token list** (blocks included) -/
theorem C01_tokens_build (toks : List PToken) (hnum : NumberedFrom 0 toks) (r : ParseResult) (t : Spec.Tree)
    (hp : parse toks = .ok r) (ht : toTree r = some t) (hin : t.inorder = List.range r.nodes.size)
    (p : Program F) (hel : elaborate pf toks (refTreeOf r t) = some p)
    (hcomplete : (compileState Prog.empty p).pending = []) :
    ∃ d, build pf (defaultFuel r.nodes.size) r.root r.nodes BState.empty = .ok (d, 0) ∧
      d.instrs = (compile p).instrs ∧ d.jumps = (compile p).jumps ∧ d.consts = (compile p).consts := by
  obtain ⟨κ, hk⟩ := elaborate_eq pf toks _ p hel
  exact C01_parse_build pf toks κ r t p ht (wellNumbered_of_inorder toks hnum r t hp ht hin) hk hcomplete

/-- **characters → machine result, every source text** whose parse result is numbered in in-order (blocks included) -/
theorem C01_text_correct_blocks (fo : FloatOps F) (host : Host F) (s : List Char) (toks : List LexerToken)
    (hlex : lex cc s = .ok toks) (r : ParseResult) (t : Spec.Tree) (hp : parse (toP toks) = .ok r) (ht : toTree r = some t)
    (hin : t.inorder = List.range r.nodes.size) (p : Program F) (hel : elaborate pf (toP toks) (refTreeOf r t) = some p)
    (hwf : C01.WFProgram p) (input : Val F) (fuel : Nat) (v : Val F) (st : St F)
    (h : evalProgram fo host fuel p input = .ok (v, st)) :
    ∃ d entry, buildText pf cc s = .ok (d, entry) ∧
      ∃ n m, run fo host (progOf d) n
          { pc := (progOf d).jumps[entry]?.getD 0, regs := [], vals := [input], frames := [], trace := [] } = (.halted m, n) ∧
        m.vals = [v] ∧ m.regs = [] ∧ m.frames = [] ∧ m.trace = st.trace := by
  obtain ⟨d, entry, h1, h2⟩ := C01_parse_correct pf fo host (toP toks) r t p input fuel v st ht
    (wellNumbered_of_inorder (toP toks) (toP_numbered toks) r t hp ht hin) hel hwf h
  exact ⟨d, entry, by simp only [buildText, hlex, Outcome.bind, hp, h1], h2⟩

/-! ### non-vacuity: `"5 [6], 1"` -/

def srcBlock : String := "5 [6], 1"
def mainBlock : Expr Float := .list [.sideAfter (int 5) (int 6), int 1]
def progBlock : Program Float := { main := mainBlock, bodies := [(0, mainBlock)] }

def toksBlock : List PToken := toP (lexed srcBlock)

theorem block_lex : lex asciiCC srcBlock.toList = .ok (lexed srcBlock) := by rfl
theorem block_parse : parse toksBlock = .ok (resultOf toksBlock) := by rfl
theorem block_tree : toTree (resultOf toksBlock) = some (treeOfResult toksBlock) := by rfl
theorem block_inorder : (treeOfResult toksBlock).inorder = List.range (resultOf toksBlock).nodes.size := by rfl
/-- the reference parser does not know blocks … -/
example : (match refParse Table.gen toksBlock with | .ok _ => true | _ => false) = false := by rfl
/-- … the tree of the parser model elaborates to the program -/
theorem block_elab : elaborate noFloat toksBlock (refTreeOf (resultOf toksBlock) (treeOfResult toksBlock)) = some progBlock := by
  rfl

theorem progBlock_done : (compileState Prog.empty progBlock).done = [⟨.ref 0, 0, [(.endExpression, none)], 0⟩] := by rfl

theorem progBlock_wf : C01.WFProgram progBlock where
  main0 := rfl
  wf := by
    intro id b h
    simp only [progBlock, lookupBody] at h
    split at h
    · cases h; rfl
    · cases h
  tail := rfl
  labels := by
    intro r hr id hk
    rw [progBlock_done] at hr
    simp only [List.mem_cons, List.not_mem_nil, or_false] at hr
    subst hr
    cases hk; rfl
  covered := by
    intro id b h
    rw [progBlock_done]
    simp only [progBlock, lookupBody] at h
    split at h
    · rename_i hid
      have h0 : (0 : Nat) = id := by simpa using hid
      subst h0
      exact ⟨⟨.ref 0, 0, [(.endExpression, none)], 0⟩, by simp, rfl⟩
    · cases h

example : ∃ d, build noFloat (defaultFuel (resultOf toksBlock).nodes.size) (resultOf toksBlock).root
      (resultOf toksBlock).nodes BState.empty = .ok (d, 0) ∧
    d.instrs = (compile progBlock).instrs ∧ d.jumps = (compile progBlock).jumps ∧ d.consts = (compile progBlock).consts :=
  C01_tokens_build noFloat toksBlock (toP_numbered _) _ _ block_parse block_tree block_inorder progBlock block_elab (by rfl)

example : (compile progBlock).instrs = #[(.put, some 0), (.startSideEffect, none), (.put, some 1), (.endSideEffect, none),
    (.put, some 2), (.makeList, some 2), (.endExpression, none)] := by decide

/-- the source means the list `5, 1` (the block's value is dropped), and that is what the machine computes on the object built from the
text -/
theorem progBlock_meaning (fo : FloatOps Float) (host : Host Float) :
    evalProgram fo host 6 progBlock .unit = .ok (.list [.num (.int 5), .num (.int 1)], ⟨.unit, []⟩) := by
  simp [evalProgram, evalBody, evalF, evalList, lookupBody, progBlock, mainBlock, int]

example (fo : FloatOps Float) (host : Host Float) :
    ∃ d entry, buildText noFloat asciiCC srcBlock.toList = .ok (d, entry) ∧
      ∃ n m, run fo host (progOf d) n
          { pc := (progOf d).jumps[entry]?.getD 0, regs := [], vals := [.unit], frames := [], trace := [] } = (.halted m, n) ∧
        m.vals = [.list [.num (.int 5), .num (.int 1)]] ∧ m.regs = [] ∧ m.frames = [] ∧ m.trace = [] :=
  C01_text_correct_blocks noFloat asciiCC fo host _ _ block_lex _ _ block_parse block_tree block_inorder progBlock block_elab
    progBlock_wf .unit 6 _ _ (progBlock_meaning fo host)

end Garnish.Props.C01Blocks
