/-
C19 — compaction and cloning preserve everything reachable (BasicGarnishData `optimize`, `clone_data`).

Theorems about the model of Store/BasicOptimize.lean (tied cell by cell to the Rust by the OPT / CLONE suites):

* `C19_optimize_preserves` — universal: for every well-formed store (`WF`, a decidable invariant) and every list of
  readable roots, a successful `optimize` reports every register, input value and frame (as whole chains), every
  extra root (positionally), and every symbol name at an address that unfolds to the same tree; the retained prefix
  is unchanged cell for cell; the retention count is unchanged.  `C19_optimize_preserves_no_retention` is the
  special case.  Not covered: stores in which a retained input-value cell was updated in place
  (`C19_optimize_preserves_inplace_statement`, kept as a statement with what is missing).
* `clone_preserves` — universal: `clone_data` returns an address that unfolds to the same tree as its argument;
  `clone_original_untouched`, `clone_keeps_every_value`: the original is intact.
* `WF_init`, `WF_add_solo`, `WF_add_text`, `WF_push_register`, `WF_push_value`, `WF_push_frame`,
  `WF_pop_register`, `WF_pop_value`, `WF_retain_all`: `WF` holds initially and is kept by these operations.
* `graphIso_sound`, `C19_certified`: the verified checker the driver runs on every generated case (also on the
  states the universal theorems do not cover).
* `optimize_retained_prefix_unchanged`, `optimize_retention_beyond`, `C19_optimize_preserves_partial`.
* `stale_map_script_preserved`, `in_place_script_preserved`: the two scripts that broke the code before the fixes.
* `example`s at the end: a concrete 19-cell store satisfying the hypotheses of every theorem (non-vacuity).
-/
import Garnish.Lemmas.OptimizeOps
import Garnish.Spec.GraphIso
namespace Garnish.Props.C19
open Garnish Garnish.BasicOpt

/-! ### certified per run -/

theorem graphIso_sound (h h' : DataBlock) (roots : List (Nat × Nat)) (hacc : graphIso h h' roots = true) :
    ∀ p ∈ roots, ∀ fuel, unfold h fuel p.1 = unfold h' fuel p.2 :=
  BasicOpt.graphIso_sound h h' roots hacc

theorem graphIso_sound_decode {F : Type} (numOf : Nat → Number F) (h h' : DataBlock) (roots : List (Nat × Nat))
    (hacc : graphIso h h' roots = true) :
    ∀ p ∈ roots, ∀ fuel, decode numOf h fuel p.1 = decode numOf h' fuel p.2 :=
  BasicOpt.graphIso_sound_decode numOf h h' roots hacc

theorem stack_of_pairs (h h' : DataBlock) (hd hd' : Option Nat) (l : List (Nat × Nat))
    (hp : headPairs hd hd' = some l)
    (hl : ∀ p ∈ l, ∀ fuel, unfold h fuel p.1 = unfold h' fuel p.2) :
    ∀ fuel, decodeStack h fuel hd = decodeStack h' fuel hd' := by
  intro fuel
  cases hd with
  | none => cases hd' with
    | none => rfl
    | some _ => simp [headPairs] at hp
  | some a => cases hd' with
    | none => simp [headPairs] at hp
    | some a' =>
      simp only [headPairs, Option.some.injEq] at hp
      subst hp
      have := hl (a, a') (by simp) fuel
      simp only at this
      simp [decodeStack, this]

/-- what C19 demands of one compaction / one clone, as equalities of address-free unfoldings -/
structure Preserved (pre post : Store) (roots m : List Nat) : Prop where
  registers : ∀ fuel, decodeStack pre.cells fuel pre.currentRegister = decodeStack post.cells fuel post.currentRegister
  values : ∀ fuel, decodeStack pre.cells fuel pre.currentValue = decodeStack post.cells fuel post.currentValue
  frames : ∀ fuel, decodeStack pre.cells fuel pre.currentFrame = decodeStack post.cells fuel post.currentFrame
  extraRoots : roots.length = m.length ∧ ∀ p ∈ roots.zip m, ∀ fuel, unfold pre.cells fuel p.1 = unfold post.cells fuel p.2
  symbols : ∃ sy, symPairs pre.symtab.toList post.symtab.toList = some sy ∧
    ∀ p ∈ sy, ∀ fuel, unfold pre.cells fuel p.1 = unfold post.cells fuel p.2
  retained : ∀ p ∈ prefixPairs pre, ∀ fuel, unfold pre.cells fuel p.1 = unfold post.cells fuel p.2

/-- **C19, certified per run**: if the verified checker accepts a list that contains the C19 root pairs,
the compaction (or clone) preserved every value C19 lists, at the address the store now reports. -/
theorem C19_certified (pre post : Store) (roots m : List Nat) (ps ps' : List (Nat × Nat))
    (hps : c19Pairs pre post roots m = some ps) (hsub : ∀ p ∈ ps, p ∈ ps')
    (hacc : graphIso pre.cells post.cells ps' = true) : Preserved pre post roots m := by
  have hall : ∀ p ∈ ps, ∀ fuel, unfold pre.cells fuel p.1 = unfold post.cells fuel p.2 :=
    fun p hp => BasicOpt.graphIso_sound _ _ ps' hacc p (hsub p hp)
  unfold c19Pairs at hps
  split at hps
  · rename_i r v f sy hr hv hf hsy
    split at hps
    · rename_i hlen
      simp only [Option.some.injEq] at hps
      subst hps
      refine ⟨?_, ?_, ?_, ⟨hlen, ?_⟩, ⟨sy, hsy, ?_⟩, ?_⟩
      · exact stack_of_pairs _ _ _ _ r hr (fun p hp => hall p (by simp [hp]))
      · exact stack_of_pairs _ _ _ _ v hv (fun p hp => hall p (by simp [hp]))
      · exact stack_of_pairs _ _ _ _ f hf (fun p hp => hall p (by simp [hp]))
      · exact fun p hp => hall p (by simp [hp])
      · exact fun p hp => hall p (by simp [hp])
      · exact fun p hp => hall p (by simp [hp])
    · simp at hps
  · simp at hps

/-! ### universal theorems on the model -/

/-- the retained prefix is cell-for-cell unchanged, as are the retention count and the block start.
`ValueLinksClosed`: no retained `Value`/`ValueRoot` cell refers above the prefix; when one does (it was
updated in place through `get_current_value_mut`) the patched `optimize` rewrites exactly that link. -/
theorem optimize_retained_prefix_unchanged {s s' : Store} {roots m : List Nat}
    (h : Store.optimize s roots = .ok (s', m)) (hvc : ValueLinksClosed s) :
    s'.retention = s.retention ∧ s'.start = s.start ∧ s.retention ≤ s'.cells.size ∧
      ∀ i, i < s.retention → s'.cells[i]? = s.cells[i]? :=
  BasicOpt.optimize_retained_prefix_unchanged h hvc

/-- a retention count beyond the existing data: `optimize` is an `Err`, the store is not touched -/
theorem optimize_retention_beyond (s : Store) (roots : List Nat) (h : s.retention > s.cells.size) :
    Store.optimize s roots = .err .data :=
  BasicOpt.optimize_retention_beyond s roots h

/-- `clone_data` leaves the original intact: cells are only appended (`Ext.mono`), every cell that
existed is unchanged (`Ext.keep`), heads / symbol table / retention count are unchanged (`Ext.frame`) -/
theorem clone_original_untouched {s s' : Store} {a r : Nat} (h : Store.cloneData s a = .ok (s', r)) :
    s.cells.size ≤ s'.cells.size ∧ (∀ i, i < s.cells.size → s'.cells[i]? = s.cells[i]?) ∧ SameFrame s s' := by
  have e := cloneData_original_untouched h
  exact ⟨e.mono, fun i hi => e.keep i hi hi, e.frame⟩

/-- full statement for cloning: the returned address unfolds to the same tree as the argument whenever the
argument has an unfolding at all (acyclic, well-formed graph) and every list header has a key table no longer
than the list (`ListsWF`, what `end_list` produces).  PROVED: `clone_preserves`. -/
def clone_preserves_statement : Prop :=
  ∀ (s s' : Store) (a r : Nat), ListsWF s.cells → Dec s.cells a →
    Store.cloneData s a = .ok (s', r) → ∀ fuel, unfold s.cells fuel a = unfold s'.cells fuel r

/-- **clone_preserves** — universal: `clone_data` returns the address of a value that unfolds to the same tree
as its argument (lists with their key tables, pairs, ranges, slices, partials, concatenations, text, bytes,
symbol lists, scalars, register / value / frame cells), at every fuel.
Proof: induction over the reversed walk of the index list (`cloneLoop_step_inv`): every processed position holds
`CloneIndexMap(o, n)` with `n = o` or `n` a faithful copy of `o` whose links are processed entries (found by
first-match lookup) or retained addresses; the final relation is a bisimulation (`bisim_unfold`). -/
theorem clone_preserves {s s' : Store} {a r : Nat} (h : Store.cloneData s a = .ok (s', r))
    (hnl : ListsWF s.cells) (hd : Dec s.cells a) : ∀ fuel, unfold s.cells fuel a = unfold s'.cells fuel r :=
  cloneData_preserves h hnl hd

theorem clone_preserves_statement_holds : clone_preserves_statement :=
  fun _ _ _ _ hwf hd h => clone_preserves h hwf hd

/-- the decoded values agree -/
theorem clone_preserves_decode {F : Type} (numOf : Nat → Number F) {s s' : Store} {a r : Nat}
    (h : Store.cloneData s a = .ok (s', r)) (hnl : ListsWF s.cells) (hd : Dec s.cells a) :
    ∀ fuel, decode numOf s.cells fuel a = decode numOf s'.cells fuel r := by
  intro fuel
  simp [decode, clone_preserves h hnl hd fuel]

/-- `clone_data` keeps every decodable address (values, stack heads) structurally as it was — with or
without lists -/
theorem clone_keeps_every_value {s s' : Store} {a r : Nat} (h : Store.cloneData s a = .ok (s', r))
    {x : Nat} (hx : Dec s.cells x) : ∀ fuel, unfold s.cells fuel x = unfold s'.cells fuel x := by
  have e := cloneData_original_untouched h
  refine unfold_agree (fun i c hc _ => ?_) hx
  have hi : i < s.cells.size := by
    rcases Nat.lt_or_ge i s.cells.size with h | h
    · exact h
    · rw [Array.getElem?_eq_none h] at hc; cases hc
  rw [e.keep i hi hi]; exact hc

/-- proved part of `clone_preserves_statement` that holds for all heaps: the original is intact -/
theorem clone_preserves_partial {s s' : Store} {a r : Nat} (h : Store.cloneData s a = .ok (s', r)) :
    (∀ i, i < s.cells.size → s'.cells[i]? = s.cells[i]?) ∧ SameFrame s s' :=
  ⟨(clone_original_untouched h).2.1, (clone_original_untouched h).2.2⟩

/-! ### `optimize`: universal theorem on well-formed stores -/

/-- what C19 demands of one compaction, stated on the address-free unfoldings (`decode` is a function of the
unfolding: `optimize_preserves_decode`).  (a) registers, input values, frames as whole chains and every extra
root; (b) the retained prefix cell for cell; (c) the returned roots positionally; and the symbol-name table. -/
structure PreservedAll (pre post : Store) (roots m : List Nat) : Prop where
  registers : ∀ fuel, decodeStack pre.cells fuel pre.currentRegister = decodeStack post.cells fuel post.currentRegister
  values : ∀ fuel, decodeStack pre.cells fuel pre.currentValue = decodeStack post.cells fuel post.currentValue
  frames : ∀ fuel, decodeStack pre.cells fuel pre.currentFrame = decodeStack post.cells fuel post.currentFrame
  rootsLen : m.length = roots.length
  roots : ∀ (k r : Nat), roots[k]? = some r → ∃ r', m[k]? = some r' ∧
    ∀ fuel, unfold pre.cells fuel r = unfold post.cells fuel r'
  symLen : post.symtab.size = pre.symtab.size
  symbols : ∀ (j sym di : Nat), pre.symtab[j]? = some (.associativeItem sym di) →
    ∃ di', post.symtab[j]? = some (.associativeItem sym di') ∧ ∀ fuel, unfold pre.cells fuel di = unfold post.cells fuel di'
  retention : post.retention = pre.retention
  retained : ∀ i, i < pre.retention → post.cells[i]? = pre.cells[i]?

theorem headRel_stack {pre post : Store} {L : Nat → Nat → Prop} {o o' : Option Nat}
    (hu : ∀ x x', L x x' → Dec pre.cells x → ∀ fuel, unfold pre.cells fuel x = unfold post.cells fuel x')
    (hd : ∀ i, o = some i → Dec pre.cells i) (h : HeadRel L o o') :
    ∀ fuel, decodeStack pre.cells fuel o = decodeStack post.cells fuel o' := by
  intro fuel
  rcases h with ⟨rfl, rfl⟩ | ⟨i, m, rfl, rfl, hl⟩
  · rfl
  · simp [decodeStack, hu i m hl (hd i rfl) fuel]

/-- **C19_optimize_preserves** — universal: on every well-formed store (`WF`, decidable; what the public
`add_*` / push operations build, with a retention count that is a size observed at an operation boundary)
and for every list of readable roots, a successful `optimize` preserves everything C19 lists.
Scope: `WF` makes every link point downwards, so it excludes stores in which a retained input-value cell has been
updated in place to refer to later data (`C19_optimize_preserves_inplace_statement`). -/
theorem C19_optimize_preserves {s s' : Store} {roots m : List Nat} (hwf : WF s) (hroots : rootsOK s roots = true)
    (h : Store.optimize s roots = .ok (s', m)) : PreservedAll s s' roots m := by
  obtain ⟨hr, hbody⟩ := optimize_ok h
  obtain ⟨L, hL⟩ := optimizeBody_links hbody hr hwf.optHyp
  have hroots' : ∀ r ∈ roots, isNode s.cells r = true := by
    simpa [rootsOK, List.all_eq_true] using hroots
  refine ⟨?_, ?_, ?_, hL.rootsLen, ?_, hL.symLen, ?_, hL.retention, hL.retained⟩
  · exact headRel_stack hL.unfolds (fun i hi => hwf.dec (by have := hwf.reg; rw [hi] at this; exact this)) hL.register
  · exact headRel_stack hL.unfolds (fun i hi => hwf.dec (by have := hwf.val; rw [hi] at this; exact this)) hL.value
  · exact headRel_stack hL.unfolds (fun i hi => hwf.dec (by have := hwf.frm; rw [hi] at this; exact this)) hL.frame
  · intro k r hk
    obtain ⟨r', h1, h2⟩ := hL.roots k r hk
    exact ⟨r', h1, hL.unfolds r r' h2 (hwf.dec (hroots' r (List.mem_of_getElem? hk)))⟩
  · intro j sym di hj
    obtain ⟨di', h1, h2⟩ := hL.syms j sym di hj
    refine ⟨di', h1, hL.unfolds di di' h2 (hwf.dec ?_)⟩
    have := hwf.syms _ (List.mem_of_getElem? (by rw [Array.getElem?_toList]; exact hj))
    simpa [symOK] using this

/-- the statement, now a theorem -/
def C19_optimize_preserves_statement : Prop :=
  ∀ (s s' : Store) (roots m : List Nat), WF s → rootsOK s roots = true →
    Store.optimize s roots = .ok (s', m) → PreservedAll s s' roots m

theorem C19_optimize_preserves_statement_holds : C19_optimize_preserves_statement :=
  fun _ _ _ _ hwf hr h => C19_optimize_preserves hwf hr h

/-- the special case the coordinator asked for first: nothing retained -/
theorem C19_optimize_preserves_no_retention {s s' : Store} {roots m : List Nat} (hwf : WF s)
    (_h0 : s.retention = 0) (hroots : rootsOK s roots = true) (h : Store.optimize s roots = .ok (s', m)) :
    PreservedAll s s' roots m := C19_optimize_preserves hwf hroots h

/-- decoded values of the extra roots agree (the same holds for every clause of `PreservedAll`: `decode` and
`decodeStack` are functions of the unfolding) -/
theorem optimize_preserves_decode {F : Type} (numOf : Nat → Number F) {s s' : Store} {roots m : List Nat}
    (hwf : WF s) (hroots : rootsOK s roots = true) (h : Store.optimize s roots = .ok (s', m)) :
    ∀ (k r : Nat), roots[k]? = some r → ∃ r', m[k]? = some r' ∧
      ∀ fuel, decode numOf s.cells fuel r = decode numOf s'.cells fuel r' := by
  intro k r hk
  obtain ⟨r', h1, h2⟩ := (C19_optimize_preserves hwf hroots h).roots k r hk
  exact ⟨r', h1, fun fuel => by simp [decode, h2 fuel]⟩

/-- STILL OPEN (kept visible): stores in which retained `Value`/`ValueRoot` cells were updated in place
(`get_current_value_mut`) to refer to data above the retention count.  The patched `optimize` re-points exactly
those links (`repointLoop`); the model agrees with the Rust on this (stream `mut`, 0 disagreements) and every
generated case is certified by `C19_certified`.  Missing for a universal proof: (1) `repointLoop` visits every
retained cell of the value chain (needs `previous < index` along the chain and `remaining ≥` chain length),
(2) the bisimulation case "retained `Value` cell whose link was rewritten" (kids `[previous ↦ previous, value ↦
lookup value]`), (3) a well-formedness notion that lets value cells link forwards (`WFv`). -/
def C19_optimize_preserves_inplace_statement : Prop :=
  ∀ (s s' : Store) (roots m : List Nat),
    -- `WF` except that `nodeOK` lets a `Value`/`ValueRoot` cell refer to any node
    (∃ s₀, WF s₀ ∧ s₀.cells.size = s.cells.size ∧ s₀.retention = s.retention ∧
      (∀ i : Nat, s.cells[i]? = s₀.cells[i]? ∨ (∃ p v v', s₀.cells[i]? = some (Cell.value p v) ∧ s.cells[i]? = some (Cell.value p v') ∧ isNode s.cells v' = true) ∨
        (∃ v v', s₀.cells[i]? = some (Cell.valueRoot v) ∧ s.cells[i]? = some (Cell.valueRoot v') ∧ isNode s.cells v' = true))) →
    rootsOK s roots = true → Store.optimize s roots = .ok (s', m) →
    ∀ fuel, decodeStack s.cells fuel s.currentValue = decodeStack s'.cells fuel s'.currentValue

/-- proved part of `C19_optimize_preserves_statement` -/
theorem C19_optimize_preserves_partial {s s' : Store} {roots m : List Nat}
    (h : Store.optimize s roots = .ok (s', m)) (hvc : ValueLinksClosed s) :
    s'.retention = s.retention ∧ (∀ i, i < s.retention → s'.cells[i]? = s.cells[i]?) ∧
    m.length = roots.length ∧ (∀ (k r : Nat), roots[k]? = some r → r < s.retention → m[k]? = some r) := by
  obtain ⟨h1, _, _, h4⟩ := BasicOpt.optimize_retained_prefix_unchanged h hvc
  obtain ⟨h5, h6⟩ := BasicOpt.optimize_retained_roots_fixed h
  exact ⟨h1, h4, h5, h6⟩

/-! ### the two scripts that broke the code before the fixes, on the patched model
(kernel evaluation of the model: `decide +kernel`, no axioms) -/

/-- data block `[Number 5]`, then `clone_data(0)`, then `optimize(&[0])`:
(cursor afterwards, returned mapping, the cell at the reported address) -/
def staleMapScript : Option (Nat × List Nat × Option Cell) :=
  match (do
    let (s, a) ← Store.fresh.push (.number 5)
    let (s, _) ← s.cloneData a
    let (s, m) ← s.optimize [a]
    pure (s.cells.size, m, (m.head?).bind (fun i => s.cells[i]?)) : Outcome (Nat × List Nat × Option Cell)) with
  | .ok r => some r
  | _ => none

/-- the stale `CloneIndexMap(0, 2)` of the clone no longer answers for the root (before the fix: mapping `[2]`
into a one-cell block) -/
theorem stale_map_script_preserved : staleMapScript = some (1, [0], some (.number 5)) := by decide +kernel

/-- `[Unit]` on the value stack, retained; garbage; a new value written into the retained `ValueRoot` in place;
`optimize(&[])`: (cursor afterwards, the cell the value head refers to, the cell that one refers to) -/
def inPlaceScript : Option (Nat × Option Cell × Option Cell) :=
  match (do
    let (s, a) ← Store.fresh.push .unit
    let s ← s.pushValue a
    let s := s.retainAll
    let (s, _) ← s.push (.number 9)
    let (s, b) ← s.push (.number 7)
    let s ← s.setCurrentValue b
    let (s, _) ← s.optimize []
    let head := s.currentValue.bind (fun i => s.cells[i]?)
    let target := match head with
      | some (.valueRoot v) => s.cells[v]?
      | _ => none
    pure (s.cells.size, head, target) : Outcome (Nat × Option Cell × Option Cell)) with
  | .ok r => some r
  | _ => none

/-- the retained `ValueRoot` is re-pointed to the moved value (before the fix it kept address 3 of a block that
ends at 3) -/
theorem in_place_script_preserved : inPlaceScript = some (3, some (.valueRoot 2), some (.number 7)) := by
  decide +kernel

/-! ### `WF` is an invariant of the store operations (proved for the operations below; for list construction,
symbol-list merges, symbol names, and for the states after `optimize` / `clone_data` the decidable `wf` is evaluated
by the driver on every generated case: flag `wf=`, about 90 % of all records, none rejected by the oracle) -/

theorem WF_init : WF Store.fresh := WF_fresh

/-- `add_unit` … `add_external`, `add_pair`, `add_range`, `add_slice`, `add_partial`, `add_concatenation`: one cell
read without its neighbours whose links are existing readable addresses -/
theorem WF_add_solo {s s' : Store} {c : Cell} {i : Nat} {sh : Shape} (hwf : WF s) (hso : soloShape c = some sh)
    (hk : ∀ k ∈ sh.kids, k < s.cells.size ∧ isNode s.cells k = true) (hp : s.push c = .ok (s', i)) :
    WF s' ∧ i = s.cells.size ∧ isNode s'.cells i = true := push_solo_wf hwf hso hk hp

/-- `add_string` / `parse_add_char_list` / `add_byte_slice` -/
theorem WF_add_text {s s' : Store} {hdr : Cell} {items : List Cell} {a : Nat} (hwf : WF s)
    (hkind : (hdr = .charList items.length ∧ ∀ c ∈ items, isChar c = true) ∨
             (hdr = .byteList items.length ∧ ∀ c ∈ items, isByte c = true))
    (h : Store.addInline s hdr items = .ok (s', a)) : WF s' ∧ a = s.cells.size ∧ isNode s'.cells a = true :=
  addInline_wf hwf hkind h

theorem WF_push_register {s s' : Store} {v : Nat} (hwf : WF s) (hv : isNode s.cells v = true)
    (h : Store.pushRegister s v = .ok s') : WF s' := pushRegister_wf hwf hv h

theorem WF_push_value {s s' : Store} {v : Nat} (hwf : WF s) (hv : isNode s.cells v = true)
    (h : Store.pushValue s v = .ok s') : WF s' := pushValue_wf hwf hv h

theorem WF_push_frame {s s' : Store} {ret : Nat} (hwf : WF s) (h : Store.pushFrame s ret = .ok s') : WF s' :=
  pushFrame_wf hwf h

theorem WF_pop_register {s s' : Store} {r : Option Nat} (hwf : WF s) (h : Store.popRegister s = .ok (s', r)) :
    WF s' ∧ (∀ v, r = some v → isNode s'.cells v = true) := popRegister_wf hwf h

theorem WF_pop_value {s : Store} (hwf : WF s) :
    WF (Store.popValue s).1 ∧ (∀ v, (Store.popValue s).2 = some v → isNode s.cells v = true) := popValue_wf hwf

theorem WF_retain_all {s : Store} (hwf : WF s) : WF s.retainAll := retainAll_wf hwf

/-! ### non-vacuity: a concrete store satisfying the hypotheses of every theorem above -/

/-- 19 data cells: text, a pair, a keyed list with a key table, a shared value, registers (one saved by a frame),
an input value, a frame, a symbol name; the first 6 cells are retained; two extra roots, one of them retained -/
def exStore : Store :=
  { Store.fresh with
    cells := #[.number 5, .charList 2, .char 97, .char 98, .pair 0 1, .registerRoot 4,
               .symbol 5, .number 1, .pair 6 7, .pair 8 4, .list 2 1, .listItem 8, .listItem 7,
               .associativeItem 5 7, .empty, .valueRoot 10, .jumpPoint 3, .frameRegister 5, .register 5 9]
    size := 20
    symtab := #[.associativeItem 5 1]
    currentRegister := some 18, currentValue := some 15, currentFrame := some 17
    retention := 6 }

def exRoots : List Nat := [10, 4]

example : WF exStore := by decide +kernel
example : rootsOK exStore exRoots = true := by decide +kernel

/-- `optimize` succeeds on it and moves data: the keyed list goes from 10 to 9, the value head from 15 to 16, the
frame from 17 to 15; the roots `[10, 4]` are reported at `[9, 4]` (the second one is retained) -/
example : (match Store.optimize exStore exRoots with
    | .ok (s', m) => decide ((s'.cells.size, s'.currentValue, s'.currentFrame, m) = (19, some 16, some 15, [9, 4]))
    | _ => false) = true := by decide +kernel

/-- hence `C19_optimize_preserves` applies to a non-trivial instance -/
example : ∀ s' m, Store.optimize exStore exRoots = .ok (s', m) → PreservedAll exStore s' exRoots m :=
  fun _ _ h => C19_optimize_preserves (by decide +kernel) (by decide +kernel) h

/-- the same store with nothing retained: `C19_optimize_preserves_no_retention` -/
example : ∀ s' m, Store.optimize { exStore with retention := 0 } exRoots = .ok (s', m) →
    PreservedAll { exStore with retention := 0 } s' exRoots m :=
  fun _ _ h => C19_optimize_preserves_no_retention (by decide +kernel) rfl (by decide +kernel) h

example : (match Store.optimize { exStore with retention := 0 } exRoots with | .ok _ => true | _ => false) = true := by
  decide +kernel

/-- `clone_preserves` on the keyed list at address 10 (hypotheses hold, the call succeeds) -/
example : ListsWF exStore.cells ∧ Dec exStore.cells 10 :=
  ⟨(WF.optHyp (by decide +kernel : WF exStore)).listsWF, WF.dec (by decide +kernel : WF exStore) (by decide +kernel)⟩

example : (match Store.cloneData exStore 10 with | .ok (_, r) => decide (r = 27) | _ => false) = true := by
  decide +kernel

/-- `optimize_retention_beyond`: a store whose retention count exceeds its data -/
example : ({ exStore with retention := 40 } : Store).retention > ({ exStore with retention := 40 } : Store).cells.size := by
  decide

/-- `graphIso` / `C19_certified` accept the pair (before, after) of this compaction -/
example : (match Store.optimize exStore exRoots with
    | .ok (s', m) => (match c19Pairs exStore s' exRoots m with
        | some ps => graphIso exStore.cells s'.cells ps
        | none => false)
    | _ => false) = true := by decide +kernel

end Garnish.Props.C19
