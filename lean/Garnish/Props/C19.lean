/-
C19 — compaction and cloning preserve everything reachable (BasicGarnishData `optimize`, `clone_data`).

What is proved here, on the model of Store/BasicOptimize.lean (tied cell by cell to the Rust by the
OPT / CLONE suites):

* `graphIso_sound` (Spec/GraphIso.lean) and `C19_certified`: whenever the verified checker accepts the
  root pairs of C19 (heads, extra roots through the returned mapping, symbol-name table, retained
  prefix) for (data block before, data block after), every one of them unfolds to the same tree —
  registers, input values and frames as whole chains, values including list key tables — at the address
  the store now reports.  The driver runs this checker on every generated case (certified per run).
* `optimize_retained_prefix_unchanged`, `optimize_retained_roots_fixed`: universal — the retained prefix is
  cell-for-cell unchanged, the retention count is unchanged, roots inside the prefix map to themselves.
* `clone_original_untouched`, `clone_keeps_every_value`: universal — `clone_data` only appends; every
  existing cell, the heads, the symbol table and the retention count are unchanged, every decodable address
  unfolds as before.
* `clone_preserves`: universal — the address returned by `clone_data` unfolds to the same tree as the argument
  (index-stack ordering invariant + first-match lookup + bisimulation), for every acyclic well-formed graph.

What is stated but not proved universally (`C19_optimize_preserves_statement`): that the relocated roots of
`optimize` unfold to the same tree (same invariant as for cloning, plus the offset arithmetic of the slide).  The witnesses below show why the hypotheses of the statement are needed:
the unchanged Rust violates C19 when they fail, through public methods only.
-/
import Garnish.Lemmas.OptimizeClone
import Garnish.Spec.GraphIso
namespace Garnish.Props.C19
open Garnish Garnish.BasicOpt

/-! ### certified per run -/

theorem graphIso_sound (h h' : DataBlock) (roots : List (Nat × Nat)) (hacc : graphIso h h' roots = true) :
    ∀ p ∈ roots, ∀ fuel, unfold h fuel p.1 = unfold h' fuel p.2 :=
  BasicOpt.graphIso_sound h h' roots hacc

theorem graphIso_sound_decode {F : Type} (numOf : Nat → Number F) (h h' : DataBlock) (roots : List (Nat × Nat))
    (hacc : graphIso h h' roots = true) :
    ∀ p ∈ roots, ∀ fuel, decode numOf h fuel p.1 = decode numOf h' fuel p.2 :=
  BasicOpt.graphIso_sound_decode numOf h h' roots hacc

theorem stack_of_pairs (h h' : DataBlock) (hd hd' : Option Nat) (l : List (Nat × Nat))
    (hp : headPairs hd hd' = some l)
    (hl : ∀ p ∈ l, ∀ fuel, unfold h fuel p.1 = unfold h' fuel p.2) :
    ∀ fuel, decodeStack h fuel hd = decodeStack h' fuel hd' := by
  intro fuel
  cases hd with
  | none => cases hd' with
    | none => rfl
    | some _ => simp [headPairs] at hp
  | some a => cases hd' with
    | none => simp [headPairs] at hp
    | some a' =>
      simp only [headPairs, Option.some.injEq] at hp
      subst hp
      have := hl (a, a') (by simp) fuel
      simp only at this
      simp [decodeStack, this]

/-- what C19 demands of one compaction / one clone, as equalities of address-free unfoldings -/
structure Preserved (pre post : Store) (roots m : List Nat) : Prop where
  registers : ∀ fuel, decodeStack pre.cells fuel pre.currentRegister = decodeStack post.cells fuel post.currentRegister
  values : ∀ fuel, decodeStack pre.cells fuel pre.currentValue = decodeStack post.cells fuel post.currentValue
  frames : ∀ fuel, decodeStack pre.cells fuel pre.currentFrame = decodeStack post.cells fuel post.currentFrame
  extraRoots : roots.length = m.length ∧ ∀ p ∈ roots.zip m, ∀ fuel, unfold pre.cells fuel p.1 = unfold post.cells fuel p.2
  symbols : ∃ sy, symPairs pre.symtab.toList post.symtab.toList = some sy ∧
    ∀ p ∈ sy, ∀ fuel, unfold pre.cells fuel p.1 = unfold post.cells fuel p.2
  retained : ∀ p ∈ prefixPairs pre, ∀ fuel, unfold pre.cells fuel p.1 = unfold post.cells fuel p.2

/-- **C19, certified per run**: if the verified checker accepts a list that contains the C19 root pairs,
the compaction (or clone) preserved every value C19 lists, at the address the store now reports. -/
theorem C19_certified (pre post : Store) (roots m : List Nat) (ps ps' : List (Nat × Nat))
    (hps : c19Pairs pre post roots m = some ps) (hsub : ∀ p ∈ ps, p ∈ ps')
    (hacc : graphIso pre.cells post.cells ps' = true) : Preserved pre post roots m := by
  have hall : ∀ p ∈ ps, ∀ fuel, unfold pre.cells fuel p.1 = unfold post.cells fuel p.2 :=
    fun p hp => BasicOpt.graphIso_sound _ _ ps' hacc p (hsub p hp)
  unfold c19Pairs at hps
  split at hps
  · rename_i r v f sy hr hv hf hsy
    split at hps
    · rename_i hlen
      simp only [Option.some.injEq] at hps
      subst hps
      refine ⟨?_, ?_, ?_, ⟨hlen, ?_⟩, ⟨sy, hsy, ?_⟩, ?_⟩
      · exact stack_of_pairs _ _ _ _ r hr (fun p hp => hall p (by simp [hp]))
      · exact stack_of_pairs _ _ _ _ v hv (fun p hp => hall p (by simp [hp]))
      · exact stack_of_pairs _ _ _ _ f hf (fun p hp => hall p (by simp [hp]))
      · exact fun p hp => hall p (by simp [hp])
      · exact fun p hp => hall p (by simp [hp])
      · exact fun p hp => hall p (by simp [hp])
    · simp at hps
  · simp at hps

/-! ### universal theorems on the model -/

/-- the retained prefix is cell-for-cell unchanged, as are the retention count and the block start.
`ValueLinksClosed`: no retained `Value`/`ValueRoot` cell refers above the prefix; when one does (it was
updated in place through `get_current_value_mut`) the patched `optimize` rewrites exactly that link. -/
theorem optimize_retained_prefix_unchanged {s s' : Store} {roots m : List Nat}
    (h : Store.optimize s roots = .ok (s', m)) (hvc : ValueLinksClosed s) :
    s'.retention = s.retention ∧ s'.start = s.start ∧ s.retention ≤ s'.cells.size ∧
      ∀ i, i < s.retention → s'.cells[i]? = s.cells[i]? :=
  BasicOpt.optimize_retained_prefix_unchanged h hvc

/-- a retention count beyond the existing data: `optimize` is an `Err`, the store is not touched -/
theorem optimize_retention_beyond (s : Store) (roots : List Nat) (h : s.retention > s.cells.size) :
    Store.optimize s roots = .err .data :=
  BasicOpt.optimize_retention_beyond s roots h

/-- `clone_data` leaves the original intact: cells are only appended (`Ext.mono`), every cell that
existed is unchanged (`Ext.keep`), heads / symbol table / retention count are unchanged (`Ext.frame`) -/
theorem clone_original_untouched {s s' : Store} {a r : Nat} (h : Store.cloneData s a = .ok (s', r)) :
    s.cells.size ≤ s'.cells.size ∧ (∀ i, i < s.cells.size → s'.cells[i]? = s.cells[i]?) ∧ SameFrame s s' := by
  have e := cloneData_original_untouched h
  exact ⟨e.mono, fun i hi => e.keep i hi hi, e.frame⟩

/-- full statement for cloning: the returned address unfolds to the same tree as the argument whenever the
argument has an unfolding at all (acyclic, well-formed graph) and every list header has a key table no longer
than the list (`ListsWF`, what `end_list` produces).  PROVED: `clone_preserves`. -/
def clone_preserves_statement : Prop :=
  ∀ (s s' : Store) (a r : Nat), ListsWF s.cells → Dec s.cells a →
    Store.cloneData s a = .ok (s', r) → ∀ fuel, unfold s.cells fuel a = unfold s'.cells fuel r

/-- **clone_preserves** — universal: `clone_data` returns the address of a value that unfolds to the same tree
as its argument (lists with their key tables, pairs, ranges, slices, partials, concatenations, text, bytes,
symbol lists, scalars, register / value / frame cells), at every fuel.
Proof: induction over the reversed walk of the index list (`cloneLoop_step_inv`): every processed position holds
`CloneIndexMap(o, n)` with `n = o` or `n` a faithful copy of `o` whose links are processed entries (found by
first-match lookup) or retained addresses; the final relation is a bisimulation (`bisim_unfold`). -/
theorem clone_preserves {s s' : Store} {a r : Nat} (h : Store.cloneData s a = .ok (s', r))
    (hnl : ListsWF s.cells) (hd : Dec s.cells a) : ∀ fuel, unfold s.cells fuel a = unfold s'.cells fuel r :=
  cloneData_preserves h hnl hd

theorem clone_preserves_statement_holds : clone_preserves_statement :=
  fun _ _ _ _ hwf hd h => clone_preserves h hwf hd

/-- the decoded values agree -/
theorem clone_preserves_decode {F : Type} (numOf : Nat → Number F) {s s' : Store} {a r : Nat}
    (h : Store.cloneData s a = .ok (s', r)) (hnl : ListsWF s.cells) (hd : Dec s.cells a) :
    ∀ fuel, decode numOf s.cells fuel a = decode numOf s'.cells fuel r := by
  intro fuel
  simp [decode, clone_preserves h hnl hd fuel]

/-- `clone_data` keeps every decodable address (values, stack heads) structurally as it was — with or
without lists -/
theorem clone_keeps_every_value {s s' : Store} {a r : Nat} (h : Store.cloneData s a = .ok (s', r))
    {x : Nat} (hx : Dec s.cells x) : ∀ fuel, unfold s.cells fuel x = unfold s'.cells fuel x := by
  have e := cloneData_original_untouched h
  refine unfold_agree (fun i c hc _ => ?_) hx
  have hi : i < s.cells.size := by
    rcases Nat.lt_or_ge i s.cells.size with h | h
    · exact h
    · rw [Array.getElem?_eq_none h] at hc; cases hc
  rw [e.keep i hi hi]; exact hc

/-- proved part of `clone_preserves_statement` that holds for all heaps: the original is intact -/
theorem clone_preserves_partial {s s' : Store} {a r : Nat} (h : Store.cloneData s a = .ok (s', r)) :
    (∀ i, i < s.cells.size → s'.cells[i]? = s.cells[i]?) ∧ SameFrame s s' :=
  ⟨(clone_original_untouched h).2.1, (clone_original_untouched h).2.2⟩

/-- an address field of a cell -/
def cellRefs : Cell → List Nat
  | .pair l r | .range l r | .slice l r | .partial_ l r | .concatenation l r => [l, r]
  | .listItem i | .associativeItem _ i => [i]
  | .value p v | .register p v | .frame p v => [p, v]
  | .valueRoot v | .registerRoot v | .instructionWithData _ v | .frameIndex v | .frameRegister v => [v]
  | _ => []

/-- the hypotheses under which C19 can hold for `optimize` -/
structure OptInv (s : Store) (roots : List Nat) : Prop where
  /-- the retention count is a size of the data block (above it `optimize` returns an error and changes
  nothing: `optimize_retention_beyond`) … -/
  retentionLe : s.retention ≤ s.cells.size
  /-- … below which no cell other than an input-value cell refers to a cell at or above it (false for a count
  that cuts through a multi-cell value or a list under construction; `Value`/`ValueRoot` cells are exempt
  since the fix that re-points them) -/
  prefixClosed : ∀ (i : Nat) (c : Cell), i < s.retention → s.cells[i]? = some c →
    (∀ p v, c ≠ .value p v) → (∀ v, c ≠ .valueRoot v) → ∀ a ∈ cellRefs c, a < s.retention
  /-- every root has an unfolding (acyclic, well-formed), within the clone limit -/
  rootsDecode : ∀ r ∈ roots, ∃ fuel t, unfold s.cells fuel r = some t

/-- full statement for compaction (stretch goal, NOT proved universally; certified per run) -/
def C19_optimize_preserves_statement : Prop :=
  ∀ (s s' : Store) (roots m : List Nat), OptInv s roots →
    Store.optimize s roots = .ok (s', m) → Preserved s s' roots m

/-- proved part of `C19_optimize_preserves_statement` -/
theorem C19_optimize_preserves_partial {s s' : Store} {roots m : List Nat}
    (h : Store.optimize s roots = .ok (s', m)) (hvc : ValueLinksClosed s) :
    s'.retention = s.retention ∧ (∀ i, i < s.retention → s'.cells[i]? = s.cells[i]?) ∧
    m.length = roots.length ∧ (∀ (k r : Nat), roots[k]? = some r → r < s.retention → m[k]? = some r) := by
  obtain ⟨h1, _, _, h4⟩ := BasicOpt.optimize_retained_prefix_unchanged h hvc
  obtain ⟨h5, h6⟩ := BasicOpt.optimize_retained_roots_fixed h
  exact ⟨h1, h4, h5, h6⟩

/-! ### the two scripts that broke the code before the fixes, on the patched model
(kernel evaluation of the model: `decide +kernel`, no axioms) -/

/-- data block `[Number 5]`, then `clone_data(0)`, then `optimize(&[0])`:
(cursor afterwards, returned mapping, the cell at the reported address) -/
def staleMapScript : Option (Nat × List Nat × Option Cell) :=
  match (do
    let (s, a) ← Store.fresh.push (.number 5)
    let (s, _) ← s.cloneData a
    let (s, m) ← s.optimize [a]
    pure (s.cells.size, m, (m.head?).bind (fun i => s.cells[i]?)) : Outcome (Nat × List Nat × Option Cell)) with
  | .ok r => some r
  | _ => none

/-- the stale `CloneIndexMap(0, 2)` of the clone no longer answers for the root (before the fix: mapping `[2]`
into a one-cell block) -/
theorem stale_map_script_preserved : staleMapScript = some (1, [0], some (.number 5)) := by decide +kernel

/-- `[Unit]` on the value stack, retained; garbage; a new value written into the retained `ValueRoot` in place;
`optimize(&[])`: (cursor afterwards, the cell the value head refers to, the cell that one refers to) -/
def inPlaceScript : Option (Nat × Option Cell × Option Cell) :=
  match (do
    let (s, a) ← Store.fresh.push .unit
    let s ← s.pushValue a
    let s := s.retainAll
    let (s, _) ← s.push (.number 9)
    let (s, b) ← s.push (.number 7)
    let s ← s.setCurrentValue b
    let (s, _) ← s.optimize []
    let head := s.currentValue.bind (fun i => s.cells[i]?)
    let target := match head with
      | some (.valueRoot v) => s.cells[v]?
      | _ => none
    pure (s.cells.size, head, target) : Outcome (Nat × Option Cell × Option Cell)) with
  | .ok r => some r
  | _ => none

/-- the retained `ValueRoot` is re-pointed to the moved value (before the fix it kept address 3 of a block that
ends at 3) -/
theorem in_place_script_preserved : inPlaceScript = some (3, some (.valueRoot 2), some (.number 7)) := by
  decide +kernel

end Garnish.Props.C19
