/-
C19 — compaction and cloning preserve everything reachable (BasicGarnishData `optimize`, `clone_data`).

Theorems about the model of Store/BasicOptimize.lean (tied cell by cell to the Rust by the OPT / CLONE suites):

* `C19_optimize_preserves` — for every well-formed store (`WF`, decidable) and readable roots, a successful `optimize`
  reports every register, input value, frame (whole chains), extra root (positionally) and symbol name at an address
  that unfolds to the same tree; the retained prefix is unchanged cell for cell.
* `C19_optimize_preserves_inplace` — the same for `WFv`: stores whose input-value cells were updated in place
  (`get_current_value_mut`) to refer to data anywhere, the retention count included; the retained cells of the
  input-value chain are re-pointed, everything else in the prefix is unchanged.
* `WF_reachable`, `C19_optimize_preserves_reachable`, `clone_preserves_reachable` — `WF` is an invariant of every
  store the script operations reach (`Reachable`: new, the `add_*` operations, text, lists with their sorted key
  table, symbol-list merges, symbol names, the stack pushes and pops, retention, `optimize`, `clone_data`), so the
  preservation theorems hold on every reachable store without any per-state check.
* `clone_preserves` — `clone_data` returns an address that unfolds to the same tree as its argument.
* `cloneLimit_iff` — F-C19-3 stated precisely: `create_index_stack` succeeds iff the TREE unfolding of the argument
  has at most `(data_block.size / 2)²` nodes.
* `graphIso_sound`, `C19_certified` — the verified checker the driver runs on every generated case.
* `example`s: concrete stores satisfying the hypotheses of every theorem (non-vacuity), the boundary case
  `value = retention count`, the 9-cell reproducer of F-C19-3.
-/
import Garnish.Lemmas.OptimizeOps
import Garnish.Lemmas.OptimizeWFv
import Garnish.Lemmas.OptimizeLimit
import Garnish.Lemmas.OptimizeResultWF2
import Garnish.Spec.GraphIso
namespace Garnish.Props.C19
open Garnish Garnish.BasicOpt

/-! ### certified per run -/

theorem graphIso_sound (h h' : DataBlock) (roots : List (Nat × Nat)) (hacc : graphIso h h' roots = true) :
    ∀ p ∈ roots, ∀ fuel, unfold h fuel p.1 = unfold h' fuel p.2 :=
  BasicOpt.graphIso_sound h h' roots hacc

theorem graphIso_sound_decode {F : Type} (numOf : Nat → Number F) (h h' : DataBlock) (roots : List (Nat × Nat))
    (hacc : graphIso h h' roots = true) :
    ∀ p ∈ roots, ∀ fuel, decode numOf h fuel p.1 = decode numOf h' fuel p.2 :=
  BasicOpt.graphIso_sound_decode numOf h h' roots hacc

theorem stack_of_pairs (h h' : DataBlock) (hd hd' : Option Nat) (l : List (Nat × Nat))
    (hp : headPairs hd hd' = some l)
    (hl : ∀ p ∈ l, ∀ fuel, unfold h fuel p.1 = unfold h' fuel p.2) :
    ∀ fuel, decodeStack h fuel hd = decodeStack h' fuel hd' := by
  intro fuel
  cases hd with
  | none => cases hd' with
    | none => rfl
    | some _ => simp [headPairs] at hp
  | some a => cases hd' with
    | none => simp [headPairs] at hp
    | some a' =>
      simp only [headPairs, Option.some.injEq] at hp
      subst hp
      have := hl (a, a') (by simp) fuel
      simp only at this
      simp [decodeStack, this]

/-- what C19 demands of one compaction / one clone, as equalities of address-free unfoldings -/
structure Preserved (pre post : Store) (roots m : List Nat) : Prop where
  registers : ∀ fuel, decodeStack pre.cells fuel pre.currentRegister = decodeStack post.cells fuel post.currentRegister
  values : ∀ fuel, decodeStack pre.cells fuel pre.currentValue = decodeStack post.cells fuel post.currentValue
  frames : ∀ fuel, decodeStack pre.cells fuel pre.currentFrame = decodeStack post.cells fuel post.currentFrame
  extraRoots : roots.length = m.length ∧ ∀ p ∈ roots.zip m, ∀ fuel, unfold pre.cells fuel p.1 = unfold post.cells fuel p.2
  symbols : ∃ sy, symPairs pre.symtab.toList post.symtab.toList = some sy ∧
    ∀ p ∈ sy, ∀ fuel, unfold pre.cells fuel p.1 = unfold post.cells fuel p.2
  retained : ∀ p ∈ prefixPairs pre, ∀ fuel, unfold pre.cells fuel p.1 = unfold post.cells fuel p.2

/-- **C19, certified per run**: if the verified checker accepts a list that contains the C19 root pairs,
the compaction (or clone) preserved every value C19 lists, at the address the store now reports. -/
theorem C19_certified (pre post : Store) (roots m : List Nat) (ps ps' : List (Nat × Nat))
    (hps : c19Pairs pre post roots m = some ps) (hsub : ∀ p ∈ ps, p ∈ ps')
    (hacc : graphIso pre.cells post.cells ps' = true) : Preserved pre post roots m := by
  have hall : ∀ p ∈ ps, ∀ fuel, unfold pre.cells fuel p.1 = unfold post.cells fuel p.2 :=
    fun p hp => BasicOpt.graphIso_sound _ _ ps' hacc p (hsub p hp)
  unfold c19Pairs at hps
  split at hps
  · rename_i r v f sy hr hv hf hsy
    split at hps
    · rename_i hlen
      simp only [Option.some.injEq] at hps
      subst hps
      refine ⟨?_, ?_, ?_, ⟨hlen, ?_⟩, ⟨sy, hsy, ?_⟩, ?_⟩
      · exact stack_of_pairs _ _ _ _ r hr (fun p hp => hall p (by simp [hp]))
      · exact stack_of_pairs _ _ _ _ v hv (fun p hp => hall p (by simp [hp]))
      · exact stack_of_pairs _ _ _ _ f hf (fun p hp => hall p (by simp [hp]))
      · exact fun p hp => hall p (by simp [hp])
      · exact fun p hp => hall p (by simp [hp])
      · exact fun p hp => hall p (by simp [hp])
    · simp at hps
  · simp at hps

/-! ### universal theorems on the model -/

/-- the retained prefix is cell-for-cell unchanged, as are the retention count and the block start.
`ValueLinksClosed`: no retained `Value`/`ValueRoot` cell refers above the prefix; when one does (it was
updated in place through `get_current_value_mut`) the patched `optimize` rewrites exactly that link. -/
theorem optimize_retained_prefix_unchanged {s s' : Store} {roots m : List Nat}
    (h : Store.optimize s roots = .ok (s', m)) (hvc : ValueLinksClosed s) :
    s'.retention = s.retention ∧ s'.start = s.start ∧ s.retention ≤ s'.cells.size ∧
      ∀ i, i < s.retention → s'.cells[i]? = s.cells[i]? :=
  BasicOpt.optimize_retained_prefix_unchanged h hvc

/-- a retention count beyond the existing data: `optimize` is an `Err`, the store is not touched -/
theorem optimize_retention_beyond (s : Store) (roots : List Nat) (h : s.retention > s.cells.size) :
    Store.optimize s roots = .err .data :=
  BasicOpt.optimize_retention_beyond s roots h

/-- `clone_data` leaves the original intact: cells are only appended (`Ext.mono`), every cell that
existed is unchanged (`Ext.keep`), heads / symbol table / retention count are unchanged (`Ext.frame`) -/
theorem clone_original_untouched {s s' : Store} {a r : Nat} (h : Store.cloneData s a = .ok (s', r)) :
    s.cells.size ≤ s'.cells.size ∧ (∀ i, i < s.cells.size → s'.cells[i]? = s.cells[i]?) ∧ SameFrame s s' := by
  have e := cloneData_original_untouched h
  exact ⟨e.mono, fun i hi => e.keep i hi hi, e.frame⟩

/-- full statement for cloning: the returned address unfolds to the same tree as the argument whenever the
argument has an unfolding at all (acyclic, well-formed graph) and every list header has a key table no longer
than the list (`ListsWF`, what `end_list` produces).  PROVED: `clone_preserves`. -/
def clone_preserves_statement : Prop :=
  ∀ (s s' : Store) (a r : Nat), ListsWF s.cells → Dec s.cells a →
    Store.cloneData s a = .ok (s', r) → ∀ fuel, unfold s.cells fuel a = unfold s'.cells fuel r

/-- **clone_preserves** — universal: `clone_data` returns the address of a value that unfolds to the same tree
as its argument (lists with their key tables, pairs, ranges, slices, partials, concatenations, text, bytes,
symbol lists, scalars, register / value / frame cells), at every fuel.
Proof: induction over the reversed walk of the index list (`cloneLoop_step_inv`): every processed position holds
`CloneIndexMap(o, n)` with `n = o` or `n` a faithful copy of `o` whose links are processed entries (found by
first-match lookup) or retained addresses; the final relation is a bisimulation (`bisim_unfold`). -/
theorem clone_preserves {s s' : Store} {a r : Nat} (h : Store.cloneData s a = .ok (s', r))
    (hnl : ListsWF s.cells) (hd : Dec s.cells a) : ∀ fuel, unfold s.cells fuel a = unfold s'.cells fuel r :=
  cloneData_preserves h hnl hd

theorem clone_preserves_statement_holds : clone_preserves_statement :=
  fun _ _ _ _ hwf hd h => clone_preserves h hwf hd

/-- the decoded values agree -/
theorem clone_preserves_decode {F : Type} (numOf : Nat → Number F) {s s' : Store} {a r : Nat}
    (h : Store.cloneData s a = .ok (s', r)) (hnl : ListsWF s.cells) (hd : Dec s.cells a) :
    ∀ fuel, decode numOf s.cells fuel a = decode numOf s'.cells fuel r := by
  intro fuel
  simp [decode, clone_preserves h hnl hd fuel]

/-- `clone_data` keeps every decodable address (values, stack heads) structurally as it was — with or
without lists -/
theorem clone_keeps_every_value {s s' : Store} {a r : Nat} (h : Store.cloneData s a = .ok (s', r))
    {x : Nat} (hx : Dec s.cells x) : ∀ fuel, unfold s.cells fuel x = unfold s'.cells fuel x := by
  have e := cloneData_original_untouched h
  refine unfold_agree (fun i c hc _ => ?_) hx
  have hi : i < s.cells.size := by
    rcases Nat.lt_or_ge i s.cells.size with h | h
    · exact h
    · rw [Array.getElem?_eq_none h] at hc; cases hc
  rw [e.keep i hi hi]; exact hc

/-- proved part of `clone_preserves_statement` that holds for all heaps: the original is intact -/
theorem clone_preserves_partial {s s' : Store} {a r : Nat} (h : Store.cloneData s a = .ok (s', r)) :
    (∀ i, i < s.cells.size → s'.cells[i]? = s.cells[i]?) ∧ SameFrame s s' :=
  ⟨(clone_original_untouched h).2.1, (clone_original_untouched h).2.2⟩

/-! ### `optimize`: universal theorem on well-formed stores -/

/-- what C19 demands of one compaction, stated on the address-free unfoldings (`decode` is a function of the
unfolding: `optimize_preserves_decode`).  (a) registers, input values, frames as whole chains and every extra
root; (b) the retained prefix cell for cell; (c) the returned roots positionally; and the symbol-name table. -/
structure PreservedAll (pre post : Store) (roots m : List Nat) : Prop where
  registers : ∀ fuel, decodeStack pre.cells fuel pre.currentRegister = decodeStack post.cells fuel post.currentRegister
  values : ∀ fuel, decodeStack pre.cells fuel pre.currentValue = decodeStack post.cells fuel post.currentValue
  frames : ∀ fuel, decodeStack pre.cells fuel pre.currentFrame = decodeStack post.cells fuel post.currentFrame
  rootsLen : m.length = roots.length
  roots : ∀ (k r : Nat), roots[k]? = some r → ∃ r', m[k]? = some r' ∧
    ∀ fuel, unfold pre.cells fuel r = unfold post.cells fuel r'
  symLen : post.symtab.size = pre.symtab.size
  symbols : ∀ (j sym di : Nat), pre.symtab[j]? = some (.associativeItem sym di) →
    ∃ di', post.symtab[j]? = some (.associativeItem sym di') ∧ ∀ fuel, unfold pre.cells fuel di = unfold post.cells fuel di'
  retention : post.retention = pre.retention
  retained : ∀ i, i < pre.retention → post.cells[i]? = pre.cells[i]?

theorem headRel_stack {pre post : Store} {L : Nat → Nat → Prop} {o o' : Option Nat}
    (hu : ∀ x x', L x x' → Dec pre.cells x → ∀ fuel, unfold pre.cells fuel x = unfold post.cells fuel x')
    (hd : ∀ i, o = some i → Dec pre.cells i) (h : HeadRel L o o') :
    ∀ fuel, decodeStack pre.cells fuel o = decodeStack post.cells fuel o' := by
  intro fuel
  rcases h with ⟨rfl, rfl⟩ | ⟨i, m, rfl, rfl, hl⟩
  · rfl
  · simp [decodeStack, hu i m hl (hd i rfl) fuel]

/-- **C19_optimize_preserves** — universal: on every well-formed store (`WF`, decidable; what the public
`add_*` / push operations build, with a retention count that is a size observed at an operation boundary)
and for every list of readable roots, a successful `optimize` preserves everything C19 lists.
Scope: `WF` makes every link point downwards, so it excludes stores in which a retained input-value cell has been
updated in place to refer to later data (`C19_optimize_preserves_inplace_statement`). -/
theorem C19_optimize_preserves {s s' : Store} {roots m : List Nat} (hwf : WF s) (hroots : rootsOK s roots = true)
    (h : Store.optimize s roots = .ok (s', m)) : PreservedAll s s' roots m := by
  obtain ⟨hr, hbody⟩ := optimize_ok h
  obtain ⟨L, hL⟩ := optimizeBody_links hbody hr hwf.optHyp
  have hroots' : ∀ r ∈ roots, isNode s.cells r = true := by
    simpa [rootsOK, List.all_eq_true] using hroots
  refine ⟨?_, ?_, ?_, hL.rootsLen, ?_, hL.symLen, ?_, hL.retention, hL.retained⟩
  · exact headRel_stack hL.unfolds (fun i hi => hwf.dec (by have := hwf.reg; rw [hi] at this; exact this)) hL.register
  · exact headRel_stack hL.unfolds (fun i hi => hwf.dec (by have := hwf.val; rw [hi] at this; exact this)) hL.value
  · exact headRel_stack hL.unfolds (fun i hi => hwf.dec (by have := hwf.frm; rw [hi] at this; exact this)) hL.frame
  · intro k r hk
    obtain ⟨r', h1, h2⟩ := hL.roots k r hk
    exact ⟨r', h1, hL.unfolds r r' h2 (hwf.dec (hroots' r (List.mem_of_getElem? hk)))⟩
  · intro j sym di hj
    obtain ⟨di', h1, h2⟩ := hL.syms j sym di hj
    refine ⟨di', h1, hL.unfolds di di' h2 (hwf.dec ?_)⟩
    have := hwf.syms _ (List.mem_of_getElem? (by rw [Array.getElem?_toList]; exact hj))
    simpa [symOK] using this

/-- the statement, now a theorem -/
def C19_optimize_preserves_statement : Prop :=
  ∀ (s s' : Store) (roots m : List Nat), WF s → rootsOK s roots = true →
    Store.optimize s roots = .ok (s', m) → PreservedAll s s' roots m

theorem C19_optimize_preserves_statement_holds : C19_optimize_preserves_statement :=
  fun _ _ _ _ hwf hr h => C19_optimize_preserves hwf hr h

/-- the special case the coordinator asked for first: nothing retained -/
theorem C19_optimize_preserves_no_retention {s s' : Store} {roots m : List Nat} (hwf : WF s)
    (_h0 : s.retention = 0) (hroots : rootsOK s roots = true) (h : Store.optimize s roots = .ok (s', m)) :
    PreservedAll s s' roots m := C19_optimize_preserves hwf hroots h

/-- decoded values of the extra roots agree (the same holds for every clause of `PreservedAll`: `decode` and
`decodeStack` are functions of the unfolding) -/
theorem optimize_preserves_decode {F : Type} (numOf : Nat → Number F) {s s' : Store} {roots m : List Nat}
    (hwf : WF s) (hroots : rootsOK s roots = true) (h : Store.optimize s roots = .ok (s', m)) :
    ∀ (k r : Nat), roots[k]? = some r → ∃ r', m[k]? = some r' ∧
      ∀ fuel, decode numOf s.cells fuel r = decode numOf s'.cells fuel r' := by
  intro k r hk
  obtain ⟨r', h1, h2⟩ := (C19_optimize_preserves hwf hroots h).roots k r hk
  exact ⟨r', h1, fun fuel => by simp [decode, h2 fuel]⟩

/-! ### `optimize` on stores whose retained input-value cells were updated in place -/

/-- `PreservedAll` when cells of the input-value chain inside the retained prefix may be re-pointed: they keep their
kind and `previous`, and the value they refer to afterwards unfolds to the same tree as the one before -/
structure PreservedAllV (pre post : Store) (roots m : List Nat) : Prop where
  registers : ∀ fuel, decodeStack pre.cells fuel pre.currentRegister = decodeStack post.cells fuel post.currentRegister
  values : ∀ fuel, decodeStack pre.cells fuel pre.currentValue = decodeStack post.cells fuel post.currentValue
  frames : ∀ fuel, decodeStack pre.cells fuel pre.currentFrame = decodeStack post.cells fuel post.currentFrame
  rootsLen : m.length = roots.length
  roots : ∀ (k r : Nat), roots[k]? = some r → ∃ r', m[k]? = some r' ∧
    ∀ fuel, unfold pre.cells fuel r = unfold post.cells fuel r'
  symLen : post.symtab.size = pre.symtab.size
  symbols : ∀ (j sym di : Nat), pre.symtab[j]? = some (.associativeItem sym di) →
    ∃ di', post.symtab[j]? = some (.associativeItem sym di') ∧ ∀ fuel, unfold pre.cells fuel di = unfold post.cells fuel di'
  retention : post.retention = pre.retention
  retained : ∀ i, i < pre.retention → ¬ OnHead pre.cells pre.currentValue i → post.cells[i]? = pre.cells[i]?
  repointed : ∀ i, i < pre.retention → OnHead pre.cells pre.currentValue i →
    (∃ p v v', pre.cells[i]? = some (.value p v) ∧ post.cells[i]? = some (.value p v') ∧
      ∀ fuel, unfold pre.cells fuel v = unfold post.cells fuel v') ∨
    (∃ v v', pre.cells[i]? = some (.valueRoot v) ∧ post.cells[i]? = some (.valueRoot v') ∧
      ∀ fuel, unfold pre.cells fuel v = unfold post.cells fuel v')

/-- **C19_optimize_preserves_inplace** — universal: `WFv` (decidable) lets the `value` link of every input-value cell
point to data ANYWHERE in the block — below, at, or above the retention count — which is what a store looks like after
`get_current_value_mut` was used (`update_value`, reapply, the top-level `end_expression`) once a retention count was
taken.  A successful `optimize` preserves everything C19 lists; the retained cells of the input-value chain are
re-pointed (`value ≥ retention count`, the boundary included: `repointStep`), all other retained cells are unchanged. -/
theorem C19_optimize_preserves_inplace {s s' : Store} {roots m : List Nat} (hwf : WFv s)
    (hroots : rootsOKv s roots = true) (h : Store.optimize s roots = .ok (s', m)) : PreservedAllV s s' roots m := by
  obtain ⟨hr, hbody⟩ := optimize_ok h
  obtain ⟨L, hL⟩ := optimizeBody_links_v hbody hr hwf.optHypV (hwf.headsV hroots)
  have hrootsD : ∀ r ∈ roots, isNode s.cells r = true := by
    intro r hrm
    simp only [rootsOKv, List.all_eq_true] at hroots
    exact (isData_iff.mp (hroots r hrm)).1
  have hhy := hwf.optHypV
  refine ⟨?_, ?_, ?_, hL.rootsLen, ?_, hL.symLen, ?_, hL.retention, hL.retained, ?_⟩
  · exact headRel_stack hL.unfolds (fun i hi => hwf.dec (by
      have := hwf.reg; rw [hi] at this; exact (isData_iff.mp this).1)) hL.register
  · exact headRel_stack hL.unfolds (fun i hi => hwf.dec (by
      have := hwf.val; rw [hi] at this; exact sv_isNode this)) hL.value
  · exact headRel_stack hL.unfolds (fun i hi => hwf.dec (by
      have := hwf.frm; rw [hi] at this; exact (isData_iff.mp this).1)) hL.frame
  · intro k r hk
    obtain ⟨r', h1, h2⟩ := hL.roots k r hk
    exact ⟨r', h1, hL.unfolds r r' h2 (hwf.dec (hrootsD r (List.mem_of_getElem? hk)))⟩
  · intro j sym di hj
    obtain ⟨di', h1, h2⟩ := hL.syms j sym di hj
    refine ⟨di', h1, hL.unfolds di di' h2 (hwf.dec ?_)⟩
    have := hwf.syms _ (List.mem_of_getElem? (by rw [Array.getElem?_toList]; exact hj))
    exact (isData_iff.mp (by simpa [symOKv] using this)).1
  · intro i hi hon
    rcases hL.repointed i hi hon with ⟨p, v, v', h1, h2, h3⟩ | ⟨v, v', h1, h2, h3⟩
    · have hsh : shape s.cells i = some ⟨.value 0 0, [], [p, v]⟩ := shape_of_solo h1 rfl
      have hv := (isData_iff.mp ((hwf.kids hsh).2.1 p v h1).2.2).1
      exact Or.inl ⟨p, v, v', h1, h2, hL.unfolds v v' h3 (hwf.dec hv)⟩
    · have hsh : shape s.cells i = some ⟨.valueRoot 0, [], [v]⟩ := shape_of_solo h1 rfl
      have hv := (isData_iff.mp ((hwf.kids hsh).2.2 v h1)).1
      exact Or.inr ⟨v, v', h1, h2, hL.unfolds v v' h3 (hwf.dec hv)⟩

/-- the statement that was open, now a theorem -/
def C19_optimize_preserves_inplace_statement : Prop :=
  ∀ (s s' : Store) (roots m : List Nat), WFv s → rootsOKv s roots = true →
    Store.optimize s roots = .ok (s', m) → PreservedAllV s s' roots m

theorem C19_optimize_preserves_inplace_statement_holds : C19_optimize_preserves_inplace_statement :=
  fun _ _ _ _ hwf hr h => C19_optimize_preserves_inplace hwf hr h

/-- proved part of `C19_optimize_preserves_statement` -/
theorem C19_optimize_preserves_partial {s s' : Store} {roots m : List Nat}
    (h : Store.optimize s roots = .ok (s', m)) (hvc : ValueLinksClosed s) :
    s'.retention = s.retention ∧ (∀ i, i < s.retention → s'.cells[i]? = s.cells[i]?) ∧
    m.length = roots.length ∧ (∀ (k r : Nat), roots[k]? = some r → r < s.retention → m[k]? = some r) := by
  obtain ⟨h1, _, _, h4⟩ := BasicOpt.optimize_retained_prefix_unchanged h hvc
  obtain ⟨h5, h6⟩ := BasicOpt.optimize_retained_roots_fixed h
  exact ⟨h1, h4, h5, h6⟩

/-! ### the two scripts that broke the code before the fixes, on the patched model
(kernel evaluation of the model: `decide +kernel`, no axioms) -/

/-- data block `[Number 5]`, then `clone_data(0)`, then `optimize(&[0])`:
(cursor afterwards, returned mapping, the cell at the reported address) -/
def staleMapScript : Option (Nat × List Nat × Option Cell) :=
  match (do
    let (s, a) ← Store.fresh.push (.number 5)
    let (s, _) ← s.cloneData a
    let (s, m) ← s.optimize [a]
    pure (s.cells.size, m, (m.head?).bind (fun i => s.cells[i]?)) : Outcome (Nat × List Nat × Option Cell)) with
  | .ok r => some r
  | _ => none

/-- the stale `CloneIndexMap(0, 2)` of the clone no longer answers for the root (before the fix: mapping `[2]`
into a one-cell block) -/
theorem stale_map_script_preserved : staleMapScript = some (1, [0], some (.number 5)) := by decide +kernel

/-- `[Unit]` on the value stack, retained; garbage; a new value written into the retained `ValueRoot` in place;
`optimize(&[])`: (cursor afterwards, the cell the value head refers to, the cell that one refers to) -/
def inPlaceScript : Option (Nat × Option Cell × Option Cell) :=
  match (do
    let (s, a) ← Store.fresh.push .unit
    let s ← s.pushValue a
    let s := s.retainAll
    let (s, _) ← s.push (.number 9)
    let (s, b) ← s.push (.number 7)
    let s ← s.setCurrentValue b
    let (s, _) ← s.optimize []
    let head := s.currentValue.bind (fun i => s.cells[i]?)
    let target := match head with
      | some (.valueRoot v) => s.cells[v]?
      | _ => none
    pure (s.cells.size, head, target) : Outcome (Nat × Option Cell × Option Cell)) with
  | .ok r => some r
  | _ => none

/-- the retained `ValueRoot` is re-pointed to the moved value (before the fix it kept address 3 of a block that
ends at 3) -/
theorem in_place_script_preserved : inPlaceScript = some (3, some (.valueRoot 2), some (.number 7)) := by
  decide +kernel

/-! ### `WF` is an invariant of the store operations (proved for the operations below; for list construction,
symbol-list merges, symbol names, and for the states after `optimize` / `clone_data` the decidable `wf` is evaluated
by the driver on every generated case: flag `wf=`, about 90 % of all records, none rejected by the oracle) -/

theorem WF_init : WF Store.fresh := WF_fresh

/-- `add_unit` … `add_external`, `add_pair`, `add_range`, `add_slice`, `add_partial`, `add_concatenation`: one cell
read without its neighbours whose links are existing readable addresses -/
theorem WF_add_solo {s s' : Store} {c : Cell} {i : Nat} {sh : Shape} (hwf : WF s) (hso : soloShape c = some sh)
    (hk : ∀ k ∈ sh.kids, k < s.cells.size ∧ isNode s.cells k = true) (hp : s.push c = .ok (s', i)) :
    WF s' ∧ i = s.cells.size ∧ isNode s'.cells i = true := push_solo_wf hwf hso hk hp

/-- `add_string` / `parse_add_char_list` / `add_byte_slice` -/
theorem WF_add_text {s s' : Store} {hdr : Cell} {items : List Cell} {a : Nat} (hwf : WF s)
    (hkind : (hdr = .charList items.length ∧ ∀ c ∈ items, isChar c = true) ∨
             (hdr = .byteList items.length ∧ ∀ c ∈ items, isByte c = true))
    (h : Store.addInline s hdr items = .ok (s', a)) : WF s' ∧ a = s.cells.size ∧ isNode s'.cells a = true :=
  addInline_wf hwf hkind h

theorem WF_push_register {s s' : Store} {v : Nat} (hwf : WF s) (hv : isNode s.cells v = true)
    (h : Store.pushRegister s v = .ok s') : WF s' := pushRegister_wf hwf hv h

theorem WF_push_value {s s' : Store} {v : Nat} (hwf : WF s) (hv : isNode s.cells v = true)
    (h : Store.pushValue s v = .ok s') : WF s' := pushValue_wf hwf hv h

theorem WF_push_frame {s s' : Store} {ret : Nat} (hwf : WF s) (h : Store.pushFrame s ret = .ok s') : WF s' :=
  pushFrame_wf hwf h

theorem WF_pop_register {s s' : Store} {r : Option Nat} (hwf : WF s) (h : Store.popRegister s = .ok (s', r)) :
    WF s' ∧ (∀ v, r = some v → isNode s'.cells v = true) := popRegister_wf hwf h

theorem WF_pop_value {s : Store} (hwf : WF s) :
    WF (Store.popValue s).1 ∧ (∀ v, (Store.popValue s).2 = some v → isNode s.cells v = true) := popValue_wf hwf

theorem WF_retain_all {s : Store} (hwf : WF s) : WF s.retainAll := retainAll_wf hwf

/-! ### `WF` is an invariant of every store the script operations can reach -/

theorem WF_pop_frame {s s' : Store} {r : Option Nat} (hwf : WF s) (h : Store.popFrame s = .ok (s', r)) : WF s' :=
  popFrame_wf hwf h

theorem WF_add_symbol {s s' : Store} {sym : Nat} {name : List Nat} {a : Nat} (hwf : WF s)
    (h : Store.parseAddSymbol s sym name = .ok (s', a)) : WF s' ∧ isNode s'.cells a = true := parseAddSymbol_wf hwf h

theorem WF_merge_symbol_list {s s' : Store} {first second i : Nat} (hwf : WF s)
    (hn1 : isNode s.cells first = true) (hn2 : isNode s.cells second = true)
    (h : Store.mergeToSymbolList s first second = .ok (s', i)) : WF s' ∧ isNode s'.cells i = true :=
  mergeToSymbolList_wf hwf hn1 hn2 h

/-- `start_list`, `add_to_list` for every item, `end_list` (sorted key table) -/
theorem WF_build_list {s s' : Store} {items : List Nat} {li : Nat} (hwf : WF s)
    (hitems : ∀ a ∈ items, isNode s.cells a = true) (h : Store.buildList s items = .ok (s', li)) :
    WF s' ∧ li = s.cells.size ∧ isNode s'.cells li = true := buildList_wf hwf hitems h

theorem WF_clone_data {s s' : Store} {a r : Nat} (hwf : WF s) (ha : isNode s.cells a = true)
    (h : Store.cloneData s a = .ok (s', r)) : WF s' ∧ isNode s'.cells r = true := cloneData_wf hwf ha h

theorem WF_optimize {s s' : Store} {roots m : List Nat} (hwf : WF s) (hroots : rootsOK s roots = true)
    (h : Store.optimize s roots = .ok (s', m)) : WF s' ∧ rootsOK s' m = true := optimize_wf hwf hroots h

theorem WF_set_retention {s : Store} {n : Nat} (hwf : WF s) (hn : n ≤ s.cells.size)
    (hext : ∀ i, i < n → extentOK s.cells n i = true) : WF (s.setRetention n) :=
  ⟨hn, hwf.nodes, hwf.lists, hwf.headers, hext, hwf.reg, hwf.val, hwf.frm, hwf.syms⟩

/-- the stores the OPT / CLONE script operations can reach from `BasicGarnishData::new`, with the arguments the
scripts hand them: readable addresses (results of earlier operations), retention counts that do not cut through a
value (`retain_all_current_data`, or a size observed at an operation boundary).  Not included: in-place updates of
the input value (`get_current_value_mut`) — those stores are covered by `C19_optimize_preserves_inplace`. -/
inductive Reachable : Store → Prop where
  | init : Reachable Store.fresh
  | addSolo {s s' : Store} {c : Cell} {i : Nat} {sh : Shape} : Reachable s → soloShape c = some sh →
      (∀ k ∈ sh.kids, k < s.cells.size ∧ isNode s.cells k = true) → s.push c = .ok (s', i) → Reachable s'
  | addText {s s' : Store} {hdr : Cell} {items : List Cell} {a : Nat} : Reachable s →
      ((hdr = .charList items.length ∧ ∀ c ∈ items, isChar c = true) ∨
       (hdr = .byteList items.length ∧ ∀ c ∈ items, isByte c = true)) →
      Store.addInline s hdr items = .ok (s', a) → Reachable s'
  | buildList {s s' : Store} {items : List Nat} {li : Nat} : Reachable s → (∀ a ∈ items, isNode s.cells a = true) →
      Store.buildList s items = .ok (s', li) → Reachable s'
  | mergeSymbolList {s s' : Store} {first second i : Nat} : Reachable s → isNode s.cells first = true →
      isNode s.cells second = true → Store.mergeToSymbolList s first second = .ok (s', i) → Reachable s'
  | addSymbol {s s' : Store} {sym : Nat} {name : List Nat} {a : Nat} : Reachable s →
      Store.parseAddSymbol s sym name = .ok (s', a) → Reachable s'
  | pushRegister {s s' : Store} {v : Nat} : Reachable s → isNode s.cells v = true →
      Store.pushRegister s v = .ok s' → Reachable s'
  | pushValue {s s' : Store} {v : Nat} : Reachable s → isNode s.cells v = true →
      Store.pushValue s v = .ok s' → Reachable s'
  | pushFrame {s s' : Store} {ret : Nat} : Reachable s → Store.pushFrame s ret = .ok s' → Reachable s'
  | popRegister {s s' : Store} {r : Option Nat} : Reachable s → Store.popRegister s = .ok (s', r) → Reachable s'
  | popValue {s : Store} : Reachable s → Reachable (Store.popValue s).1
  | popFrame {s s' : Store} {r : Option Nat} : Reachable s → Store.popFrame s = .ok (s', r) → Reachable s'
  | retainAll {s : Store} : Reachable s → Reachable s.retainAll
  | setRetention {s : Store} {n : Nat} : Reachable s → n ≤ s.cells.size →
      (∀ i, i < n → extentOK s.cells n i = true) → Reachable (s.setRetention n)
  | optimize {s s' : Store} {roots m : List Nat} : Reachable s → rootsOK s roots = true →
      Store.optimize s roots = .ok (s', m) → Reachable s'
  | cloneData {s s' : Store} {a r : Nat} : Reachable s → isNode s.cells a = true →
      Store.cloneData s a = .ok (s', r) → Reachable s'

/-- **WF_reachable**: every reachable store is well formed -/
theorem WF_reachable {s : Store} (h : Reachable s) : WF s := by
  induction h with
  | init => exact WF_fresh
  | addSolo _ hso hk hp ih => exact (push_solo_wf ih hso hk hp).1
  | addText _ hkind h ih => exact (addInline_wf ih hkind h).1
  | buildList _ hitems h ih => exact (buildList_wf ih hitems h).1
  | mergeSymbolList _ h1 h2 h ih => exact (mergeToSymbolList_wf ih h1 h2 h).1
  | addSymbol _ h ih => exact (parseAddSymbol_wf ih h).1
  | pushRegister _ hv h ih => exact pushRegister_wf ih hv h
  | pushValue _ hv h ih => exact pushValue_wf ih hv h
  | pushFrame _ h ih => exact pushFrame_wf ih h
  | popRegister _ h ih => exact (popRegister_wf ih h).1
  | popValue _ ih => exact (popValue_wf ih).1
  | popFrame _ h ih => exact popFrame_wf ih h
  | retainAll _ ih => exact retainAll_wf ih
  | setRetention _ hn hext ih => exact WF_set_retention ih hn hext
  | optimize _ hr h ih => exact (optimize_wf ih hr h).1
  | cloneData _ ha h ih => exact (cloneData_wf ih ha h).1

/-- **C19 for every reachable store**: no per-state check needed — on any store the script operations can build,
also after earlier compactions and clones, a successful `optimize` with readable roots preserves everything C19
lists, and the result is reachable (hence well formed) again -/
theorem C19_optimize_preserves_reachable {s s' : Store} {roots m : List Nat} (hs : Reachable s)
    (hroots : rootsOK s roots = true) (h : Store.optimize s roots = .ok (s', m)) :
    PreservedAll s s' roots m ∧ Reachable s' ∧ rootsOK s' m = true :=
  ⟨C19_optimize_preserves (WF_reachable hs) hroots h, .optimize hs hroots h,
    (optimize_wf (WF_reachable hs) hroots h).2⟩

/-- `clone_data` on every reachable store -/
theorem clone_preserves_reachable {s s' : Store} {a r : Nat} (hs : Reachable s) (ha : isNode s.cells a = true)
    (h : Store.cloneData s a = .ok (s', r)) :
    (∀ fuel, unfold s.cells fuel a = unfold s'.cells fuel r) ∧ Reachable s' ∧ isNode s'.cells r = true :=
  ⟨clone_preserves h (WF_reachable hs).optHyp.listsWF ((WF_reachable hs).dec ha), .cloneData hs ha h,
    (cloneData_wf (WF_reachable hs) ha h).2⟩

/-! ### the clone limit (known finding F-C19-3), stated precisely -/

/-- **cloneLimit_iff**: `create_index_stack` lists a value once per path to it; for an argument whose TREE unfolding
(along the links the index loop follows) has `T` nodes it succeeds iff `T ≤ (data_block.size / 2)²`, and otherwise
fails with `CloneLimitReached` — acyclic graphs with sharing included (their tree size is exponential in the depth
of sharing).  `Fits`: cursor within the allocated size, positive growth step. -/
theorem cloneLimit_iff {s : Store} {a T : Nat} (hf : Fits s) (hT : TreeCount s.cells a T) :
    (∃ s' st, Store.createIndexStack s a = .ok (s', st)) ↔ T ≤ cloneLimit s :=
  createIndexStack_ok_iff hf hT

theorem cloneLimit_exceeded {s : Store} {a T : Nat} (hf : Fits s) (hT : TreeCount s.cells a T)
    (h : cloneLimit s < T) : Store.createIndexStack s a = .err .data ∧ Store.cloneData s a = .err .data :=
  ⟨(createIndexStack_limit hf hT).2 h, cloneData_limit hf hT h⟩

/-- the shortest reproducer of F-C19-3: `add (i 1); add (p @0 @0); add (p @1 @1); add (p @2 @2); add (l @3 @3)`:
9 cells in a block of 10, an acyclic graph; its tree unfolding has 31 nodes, the limit is 25 -/
def exDag : Store :=
  { Store.fresh with
    cells := #[.number 1, .pair 0 0, .pair 1 1, .pair 2 2, .list 2 0, .listItem 3, .listItem 3, .empty, .empty] }

example : Fits exDag := by decide
example : treeCount exDag.cells 10 4 = some 31 := by decide +kernel
example : cloneLimit exDag = 25 := by decide
example : WF exDag := by decide +kernel
example : Store.createIndexStack exDag 4 = .err .data ∧ Store.cloneData exDag 4 = .err .data :=
  cloneLimit_exceeded (by decide) (treeCount_sound 10 4 31 (by decide +kernel)) (by decide)
/-- one level less of sharing fits: 15 ≤ 25 -/
example : ∃ s' st, Store.createIndexStack exDag 3 = .ok (s', st) :=
  (cloneLimit_iff (by decide) (treeCount_sound 10 3 15 (by decide +kernel))).mpr (by decide)

/-! ### non-vacuity: a concrete store satisfying the hypotheses of every theorem above -/

/-- 19 data cells: text, a pair, a keyed list with a key table, a shared value, registers (one saved by a frame),
an input value, a frame, a symbol name; the first 6 cells are retained; two extra roots, one of them retained -/
def exStore : Store :=
  { Store.fresh with
    cells := #[.number 5, .charList 2, .char 97, .char 98, .pair 0 1, .registerRoot 4,
               .symbol 5, .number 1, .pair 6 7, .pair 8 4, .list 2 1, .listItem 8, .listItem 7,
               .associativeItem 5 7, .empty, .valueRoot 10, .jumpPoint 3, .frameRegister 5, .register 5 9]
    size := 20
    symtab := #[.associativeItem 5 1]
    currentRegister := some 18, currentValue := some 15, currentFrame := some 17
    retention := 6 }

def exRoots : List Nat := [10, 4]

example : WF exStore := by decide +kernel
example : rootsOK exStore exRoots = true := by decide +kernel

/-- `optimize` succeeds on it and moves data: the keyed list goes from 10 to 9, the value head from 15 to 16, the
frame from 17 to 15; the roots `[10, 4]` are reported at `[9, 4]` (the second one is retained) -/
example : (match Store.optimize exStore exRoots with
    | .ok (s', m) => decide ((s'.cells.size, s'.currentValue, s'.currentFrame, m) = (19, some 16, some 15, [9, 4]))
    | _ => false) = true := by decide +kernel

/-- hence `C19_optimize_preserves` applies to a non-trivial instance -/
example : ∀ s' m, Store.optimize exStore exRoots = .ok (s', m) → PreservedAll exStore s' exRoots m :=
  fun _ _ h => C19_optimize_preserves (by decide +kernel) (by decide +kernel) h

/-- the same store with nothing retained: `C19_optimize_preserves_no_retention` -/
example : ∀ s' m, Store.optimize { exStore with retention := 0 } exRoots = .ok (s', m) →
    PreservedAll { exStore with retention := 0 } s' exRoots m :=
  fun _ _ h => C19_optimize_preserves_no_retention (by decide +kernel) rfl (by decide +kernel) h

example : (match Store.optimize { exStore with retention := 0 } exRoots with | .ok _ => true | _ => false) = true := by
  decide +kernel

/-- `clone_preserves` on the keyed list at address 10 (hypotheses hold, the call succeeds) -/
example : ListsWF exStore.cells ∧ Dec exStore.cells 10 :=
  ⟨(WF.optHyp (by decide +kernel : WF exStore)).listsWF, WF.dec (by decide +kernel : WF exStore) (by decide +kernel)⟩

example : (match Store.cloneData exStore 10 with | .ok (_, r) => decide (r = 27) | _ => false) = true := by
  decide +kernel

/-- `optimize_retention_beyond`: a store whose retention count exceeds its data -/
example : ({ exStore with retention := 40 } : Store).retention > ({ exStore with retention := 40 } : Store).cells.size := by
  decide

/-- `graphIso` / `C19_certified` accept the pair (before, after) of this compaction -/
example : (match Store.optimize exStore exRoots with
    | .ok (s', m) => (match c19Pairs exStore s' exRoots m with
        | some ps => graphIso exStore.cells s'.cells ps
        | none => false)
    | _ => false) = true := by decide +kernel

/-- non-vacuity of `C19_optimize_preserves_inplace`, at the boundary: the retained `ValueRoot` at 1 was updated in
place to the value at address 2 = the retention count; an extra root is cloned first, so that value moves to 3 and the
retained cell has to be re-pointed (with `value > retention count` instead of `≥` it would keep naming address 2) -/
def exInPlace : Store :=
  { Store.fresh with
    cells := #[.unit, .valueRoot 2, .number 7, .number 9]
    currentValue := some 1
    retention := 2 }

example : WFv exInPlace := by decide +kernel
example : rootsOKv exInPlace [3] = true := by decide +kernel
example : (match Store.optimize exInPlace [3] with
    | .ok (s', m) => decide ((s'.cells.toList, s'.currentValue, m) =
        ([.unit, .valueRoot 3, .number 9, .number 7], some 1, [2]))
    | _ => false) = true := by decide +kernel
example : ∀ s' m, Store.optimize exInPlace [3] = .ok (s', m) → PreservedAllV exInPlace s' [3] m :=
  fun _ _ h => C19_optimize_preserves_inplace (by decide +kernel) (by decide +kernel) h

/-- `Reachable` is inhabited beyond the initial store: one `add_number`, then `retain_all_current_data` -/
example : ∃ s' i, Store.fresh.push (.number 5) = .ok (s', i) ∧ Reachable s'.retainAll := by
  obtain ⟨s', h, _⟩ := push_total (s := Store.fresh) (.number 5) (by decide)
  exact ⟨s', _, h, .retainAll (.addSolo .init (sh := ⟨.number 5, [], []⟩) rfl (by intro k hk; simp at hk) h)⟩

end Garnish.Props.C19
