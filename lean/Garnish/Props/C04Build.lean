/-
C04, builder half — "an accepted program accounts for every token, in order": what `build` guarantees about the
parse nodes it was given (model Garnish.Model.Build = build.rs with the commits 467354e `validate_parse_tree` and
85b4b67 `allScheduled`, which exist for this property).

Proved, for EVERY node vector, root index, fuel and start state (helpers: Garnish/Lemmas/BuildAttr*.lean):
  * `C04_build_attributes_every_node` — after a successful `build` every node of the vector whose definition is
    `attributable` has at least one instruction, appended by this build, whose metadata names it.
    `attributable d` = `d ∉ {Group, ElseJump, List, CommaList, Subexpression}` — exactly `STRUCTURAL` of tools/treesuite.py:
      Group      `handle_parse_node` only forwards to the right child, no instruction;
      ElseJump   both visits only schedule (children; later the recorded arms), no instruction;
      List / CommaList  emit `MakeList` only when the enclosing list is of another kind: a forwarded list node adds its
                 items to the enclosing list and emits nothing (a non-forwarded one IS attributed, not claimed here);
      Subexpression  the only definition `validate_parse_tree` and `allScheduled` allow to stay outside the tree (the parser
                 unlinks redundant separators); a Subexpression node that is in the tree does get its `UpdateValue`.
    Every other definition is attributed by its handler: value-like nodes (Unit, True, False, Number, CharList, ByteList,
    Symbol, Value, Identifier, Property, ExpressionTerminator) by their `Put`/`PutValue`/`Resolve`/`EndExpression`; unary,
    binary, pair, apply-to by their operator; And/Or and JumpIfTrue/JumpIfFalse by the jump instruction; SideEffect by
    `StartSideEffect` and `EndSideEffect`; NestedExpression by its `Put`; Reapply by `UpdateValue` and `JumpTo`;
    ExpressionSeparator by `UpdateValue`; Prefix/Suffix/InfixApply by `Apply`.  (`Drop` makes `build` fail.)
    Proof idea: every visit of a node either pushes the node back on `stack` or emits an instruction naming it; a node
    with a build node is therefore on `stack`, on `root_stack` or attributed (`AInv`); both work lists are empty at the
    end and `allScheduled` says every non-Subexpression node has a build node.
  * `C04_build_validated` — a successful `build` of a non-empty vector means `validate_parse_tree` accepted it: there is a
    set `G` of nodes containing the root, closed under `left`/`right` with in-range links and matching parent links,
    distinct children, and every node outside `G` is a `Subexpression` (`Validated`).  So "every node in the validated
    tree" = every node of the vector except unlinked `Subexpression`s, which is what the first theorem quantifies over.
  * `C04_metadata_names_nodes` — conversely every metadata record appended by the build names an existing node or none
    (from C05).
Order (helpers: Garnish/Lemmas/BuildOrder*.lean), again for EVERY node vector, root index, fuel and start state:
  * `C04_sibling_order` — for a node `p` with `inlineBinary p.definition = some swapped` (the binary operators whose
    handler schedules both operands in one visit; `swapped` for Pair / ApplyTo) and operands `l`, `r`: every instruction
    attributed to `l`, or to a node below `l` through inline nodes (`InlineDesc`), precedes every instruction attributed
    to `r` or below it — reversed when `swapped` — and both precede every instruction attributed to `p`.
  * `C04_list_items_in_order` — the same for `List` / `CommaList`: left before right before the node's own `MakeList`;
    with `InlineDesc` through nested list nodes this is "the items of a list are emitted left to right".
  * `C04_inline_child_before_parent` — any single operand of an inline node comes before the node's own instruction.
  * `C04_sibling_order_statement_proved` — the statement registered earlier is the `x = l`, `z = r` instance.
    Proof idea: ghost phases of Lemmas/BuildTotal* (`Inv`) plus `OInv`: a node in its first or second visit is on
    `stack`; a scheduled operand of an inline node lies above the node, the operand that is emitted first above the
    other; only the node on top of `stack` gets instructions attributed; a finished inline node has finished operands.
    `prec_key`: while `x` is being visited nothing that has to follow `x` has been attributed yet.
The other node kinds and the out-of-line parts: Props/C04Order.lean (`C04_sibling_order_rest`, `C04_children_in_order`, …) and
Props/C04Eval.lean (`C04_evaluation_order`).
-/
import Garnish.Lemmas.BuildAttr5
import Garnish.Lemmas.BuildOrder9
import Garnish.Props.C05
namespace Garnish.Props.C04Build
open Garnish Garnish.Gen Garnish.Model.Parser Garnish.Model.Build Garnish.Lemmas.Build Garnish.Lemmas.BuildAttr Garnish.Spec

variable {F : Type}

/-- the structural definitions of tools/treesuite.py -/
theorem attributable_iff (d : Definition) :
    attributable d = true ↔ d ≠ .group ∧ d ≠ .elseJump ∧ d ≠ .list ∧ d ≠ .commaList ∧ d ≠ .subexpression := by
  cases d <;> simp [attributable, emits]

/-- C04, builder half: every attributable node of the vector has an instruction of this build attributed to it -/
theorem C04_build_attributes_every_node (parseFloat : List Char → Option F) (fuel root : Nat) (nodes : Array ParseNode)
    (d d' : BState F) (entry : Nat) (h : build parseFloat fuel root nodes d = .ok (d', entry))
    (i : Nat) (pn : ParseNode) (hi : nodes[i]? = some pn) (hd : attributable pn.definition = true) :
    ∃ k, d.metadata.size ≤ k ∧ d'.metadata[k]? = some (some i) := by
  have := build_attr (tree := nodes) parseFloat fuel root d
  rw [h] at this
  exact this i pn hi hd

/-- a successful build of a non-empty vector went through the validation -/
theorem C04_build_validated (parseFloat : List Char → Option F) (fuel root : Nat) (nodes : Array ParseNode)
    (d d' : BState F) (entry : Nat) (h : build parseFloat fuel root nodes d = .ok (d', entry)) (hne : nodes.size ≠ 0) :
    ∃ G : Nat → Prop, Validated root nodes G := by
  unfold build at h
  split at h
  · rename_i hempty
    have : nodes.size = 0 := by simpa [Array.isEmpty] using hempty
    exact absurd this hne
  · cases hv : validateParseTree root nodes with
    | ok u => cases u; exact validateParseTree_ok hv
    | err e => rw [hv] at h; cases h
    | panic s => rw [hv] at h; cases h
    | fuelOut => rw [hv] at h; cases h

/-- every attributable node is inside the validated tree -/
theorem C04_attributable_in_tree {root : Nat} {nodes : Array ParseNode} {G : Nat → Prop} (V : Validated root nodes G)
    (i : Nat) (pn : ParseNode) (hi : nodes[i]? = some pn) (hd : attributable pn.definition = true) : G i := by
  rcases Classical.em (G i) with h | h
  · exact h
  · have := V.rest i pn hi h
    rw [this] at hd
    cases hd

/-- conversely: a metadata record appended by the build names an existing node, or none -/
theorem C04_metadata_names_nodes (parseFloat : List Char → Option F) (fuel root : Nat) (nodes : Array ParseNode)
    (d d' : BState F) (entry : Nat) (h : build parseFloat fuel root nodes d = .ok (d', entry)) (hd : WFState d)
    (k i : Nat) (hk : d.metadata.size ≤ k) (hm : d'.metadata[k]? = some (some i)) : ∃ pn, nodes[i]? = some pn := by
  have hwf := Garnish.Props.C05.C05_build_WFProg parseFloat fuel root nodes d d' entry h hd
  have := hwf.metaNodes k (some i) hk hm
  simp only [metaOk, decide_eq_true_eq] at this
  exact ⟨nodes[i], by simp [this]⟩

/-! ### order -/

/-- definitions whose handler schedules both operands on `stack` in one visit and emits its own instruction last, and
whether the right operand is emitted first (`Pair`, `ApplyTo`) — the definition lives with the invariant,
`Garnish.Lemmas.BuildOrder.inlineBinary`:
`some true` for Pair and ApplyTo; `some false` for Addition, Subtraction, MultiplicationSign, Division, Access, the four
ranges, ExponentialSign, Remainder, IntegerDivision, the bitwise operators and shifts, Xor, TypeEqual, TypeCast, the six
comparisons, Apply, PartialApply, Concatenation, InfixApply; `none` otherwise -/
abbrev inlineBinary (d : Definition) : Option Bool := Garnish.Lemmas.BuildOrder.inlineBinary d

/-- `x` is `a` or is reached from `a` by going down through inline nodes only — inline binary operators and
List / CommaList nodes — one `left`/`right` link at a time (`Garnish.Lemmas.BuildOrder.Desc`).  These are the nodes whose
instructions are emitted in line with `a`'s: going down stops at a node of any other kind (its own instructions are still
covered, the parts it emits out of line are not). -/
abbrev InlineDesc (nodes : Array ParseNode) (a x : Nat) : Prop := Garnish.Lemmas.BuildOrder.Desc nodes a x

theorem InlineDesc.refl (nodes : Array ParseNode) (a : Nat) : InlineDesc nodes a a := Garnish.Lemmas.BuildOrder.Desc.refl a

/-- one step down: `w` is an inline node (inline binary operator or list) and `x` is its left or right child -/
theorem InlineDesc.step {nodes : Array ParseNode} {a w x : Nat} {pw : ParseNode} (h : InlineDesc nodes a w)
    (hw : nodes[w]? = some pw)
    (hd : (inlineBinary pw.definition).isSome = true ∨ pw.definition = .list ∨ pw.definition = .commaList)
    (hc : pw.left = some x ∨ pw.right = some x) : InlineDesc nodes a x := by
  refine Garnish.Lemmas.BuildOrder.Desc.step h ⟨pw, hw, ?_, hc⟩
  unfold Garnish.Lemmas.BuildOrder.isB
  rcases hd with h1 | h1 | h1
  · simp [inlineBinary] at h1; simp [h1]
  · simp [h1]
  · simp [h1]

/-- the order of everything attributed to the two operand sides of an inline node `p` (first, second) and to `p` -/
theorem sibling_order_core (parseFloat : List Char → Option F) (fuel root : Nat) (nodes : Array ParseNode) (d d' : BState F)
    (entry : Nat) (h : build parseFloat fuel root nodes d = .ok (d', entry))
    (p a b : Nat) (ho : Garnish.Lemmas.BuildOrder.Ordered nodes p a b)
    (x z : Nat) (hx : InlineDesc nodes a x) (hz : InlineDesc nodes b z)
    (kx kz kp : Nat) (hkx : d.metadata.size ≤ kx) (hkz : d.metadata.size ≤ kz) (hkp : d.metadata.size ≤ kp)
    (hmx : d'.metadata[kx]? = some (some x)) (hmz : d'.metadata[kz]? = some (some z))
    (hmp : d'.metadata[kp]? = some (some p)) : kx < kz ∧ kx < kp ∧ kz < kp := by
  have key := Garnish.Lemmas.BuildOrder.build_ord (tree := nodes) parseFloat fuel root d
  rw [h] at key
  exact ⟨key x z (Or.inl ⟨p, a, b, ho, hx, hz⟩) kx kz hkx hkz hmx hmz,
    key x p (Or.inr ⟨p, a, ho.left, hx, rfl⟩) kx kp hkx hkp hmx hmp,
    key z p (Or.inr ⟨p, b, ho.right, hz, rfl⟩) kz kp hkz hkp hmz hmp⟩

/-- C04, builder half, order of operands — inline binary operators.  For EVERY node vector, root, fuel and start state:
after a successful `build`, for a node `p` with `inlineBinary p.definition = some swapped` and operands `l`, `r`, every
instruction of this build attributed to `l` — or to a node reached from `l` through inline nodes — lies before every
instruction attributed to `r` (or to a node reached from `r` through inline nodes); the other way round when `swapped`
(Pair, ApplyTo: right operand first); and both lie before every instruction attributed to `p` itself. -/
theorem C04_sibling_order (parseFloat : List Char → Option F) (fuel root : Nat) (nodes : Array ParseNode) (d d' : BState F)
    (entry : Nat) (h : build parseFloat fuel root nodes d = .ok (d', entry))
    (p l r : Nat) (pn : ParseNode) (swapped : Bool) (hp : nodes[p]? = some pn) (hl : pn.left = some l) (hr : pn.right = some r)
    (hib : inlineBinary pn.definition = some swapped)
    (x z : Nat) (hx : InlineDesc nodes l x) (hz : InlineDesc nodes r z)
    (kx kz kp : Nat) (hkx : d.metadata.size ≤ kx) (hkz : d.metadata.size ≤ kz) (hkp : d.metadata.size ≤ kp)
    (hmx : d'.metadata[kx]? = some (some x)) (hmz : d'.metadata[kz]? = some (some z))
    (hmp : d'.metadata[kp]? = some (some p)) :
    (if swapped then kz < kx else kx < kz) ∧ kx < kp ∧ kz < kp := by
  have hB : Garnish.Lemmas.BuildOrder.isB pn.definition = true := by
    unfold Garnish.Lemmas.BuildOrder.isB
    have : Garnish.Lemmas.BuildOrder.inlineBinary pn.definition = some swapped := hib
    simp [this]
  cases swapped with
  | true =>
    have ho : Garnish.Lemmas.BuildOrder.Ordered nodes p r l := ⟨pn, hp, hB, Or.inl ⟨hib, hr, hl⟩⟩
    obtain ⟨h1, h2, h3⟩ := sibling_order_core parseFloat fuel root nodes d d' entry h p r l ho z x hz hx kz kx kp hkz hkx hkp hmz hmx hmp
    exact ⟨h1, h3, h2⟩
  | false =>
    have hne : Garnish.Lemmas.BuildOrder.inlineBinary pn.definition ≠ some true := by
      have : Garnish.Lemmas.BuildOrder.inlineBinary pn.definition = some false := hib
      rw [this]; intro h'; cases h'
    have ho : Garnish.Lemmas.BuildOrder.Ordered nodes p l r := ⟨pn, hp, hB, Or.inr ⟨hne, hl, hr⟩⟩
    exact sibling_order_core parseFloat fuel root nodes d d' entry h p l r ho x z hx hz kx kz kp hkx hkz hkp hmx hmz hmp

/-- C04, builder half, order of operands — lists.  After a successful `build`, for a `List` / `CommaList` node `p` with
children `l`, `r`: everything attributed to `l` or below it through inline nodes (in particular through nested list nodes
of the same kind, which is how `a b c` is represented: the items of one list) lies before everything attributed to `r`
or below it — the items are emitted left to right — and both lie before `p`'s own `MakeList`, if it emits one. -/
theorem C04_list_items_in_order (parseFloat : List Char → Option F) (fuel root : Nat) (nodes : Array ParseNode) (d d' : BState F)
    (entry : Nat) (h : build parseFloat fuel root nodes d = .ok (d', entry))
    (p l r : Nat) (pn : ParseNode) (hp : nodes[p]? = some pn) (hl : pn.left = some l) (hr : pn.right = some r)
    (hdef : pn.definition = .list ∨ pn.definition = .commaList)
    (x z : Nat) (hx : InlineDesc nodes l x) (hz : InlineDesc nodes r z)
    (kx kz kp : Nat) (hkx : d.metadata.size ≤ kx) (hkz : d.metadata.size ≤ kz) (hkp : d.metadata.size ≤ kp)
    (hmx : d'.metadata[kx]? = some (some x)) (hmz : d'.metadata[kz]? = some (some z))
    (hmp : d'.metadata[kp]? = some (some p)) : kx < kz ∧ kx < kp ∧ kz < kp := by
  have hB : Garnish.Lemmas.BuildOrder.isB pn.definition = true := by
    rcases hdef with h1 | h1 <;> rw [h1] <;> rfl
  have hne : Garnish.Lemmas.BuildOrder.inlineBinary pn.definition ≠ some true := by
    rcases hdef with h1 | h1 <;> rw [h1] <;> intro h' <;> cases h'
  have ho : Garnish.Lemmas.BuildOrder.Ordered nodes p l r := ⟨pn, hp, hB, Or.inr ⟨hne, hl, hr⟩⟩
  exact sibling_order_core parseFloat fuel root nodes d d' entry h p l r ho x z hx hz kx kz kp hkx hkz hkp hmx hmz hmp

/-- the operand of a list node that has only one child comes before the list's own `MakeList` -/
theorem C04_inline_child_before_parent (parseFloat : List Char → Option F) (fuel root : Nat) (nodes : Array ParseNode)
    (d d' : BState F) (entry : Nat) (h : build parseFloat fuel root nodes d = .ok (d', entry))
    (p c : Nat) (pn : ParseNode) (hp : nodes[p]? = some pn) (hc : pn.left = some c ∨ pn.right = some c)
    (hd : (inlineBinary pn.definition).isSome = true ∨ pn.definition = .list ∨ pn.definition = .commaList)
    (x : Nat) (hx : InlineDesc nodes c x) (kx kp : Nat) (hkx : d.metadata.size ≤ kx) (hkp : d.metadata.size ≤ kp)
    (hmx : d'.metadata[kx]? = some (some x)) (hmp : d'.metadata[kp]? = some (some p)) : kx < kp := by
  have key := Garnish.Lemmas.BuildOrder.build_ord (tree := nodes) parseFloat fuel root d
  rw [h] at key
  have hB : Garnish.Lemmas.BuildOrder.isB pn.definition = true := by
    unfold Garnish.Lemmas.BuildOrder.isB
    rcases hd with h1 | h1 | h1
    · simp [inlineBinary] at h1; simp [h1]
    · simp [h1]
    · simp [h1]
  exact key x p (Or.inr ⟨p, c, ⟨pn, hp, hB, hc⟩, hx, rfl⟩) kx kp hkx hkp hmx hmp

/-- The statement registered in the previous round — the order of the instructions attributed to the two operands of an
inline binary operator and to the operator — now a corollary of `C04_sibling_order` (`x = l`, `z = r`). -/
def C04_sibling_order_statement (F : Type) : Prop :=
  ∀ (parseFloat : List Char → Option F) (fuel root : Nat) (nodes : Array ParseNode) (d d' : BState F) (entry : Nat),
    build parseFloat fuel root nodes d = .ok (d', entry) →
    ∀ (p l r : Nat) (pn : ParseNode) (swapped : Bool), nodes[p]? = some pn → pn.left = some l → pn.right = some r →
      inlineBinary pn.definition = some swapped →
      ∀ kl kr kp : Nat, d.metadata.size ≤ kl → d.metadata.size ≤ kr → d.metadata.size ≤ kp →
        d'.metadata[kl]? = some (some l) → d'.metadata[kr]? = some (some r) → d'.metadata[kp]? = some (some p) →
        (if swapped then kr < kl else kl < kr) ∧ kl < kp ∧ kr < kp

theorem C04_sibling_order_statement_proved (F : Type) : C04_sibling_order_statement F := by
  intro parseFloat fuel root nodes d d' entry h p l r pn swapped hp hl hr hib kl kr kp hkl hkr hkp hml hmr hmp
  exact C04_sibling_order parseFloat fuel root nodes d d' entry h p l r pn swapped hp hl hr hib l r
    (InlineDesc.refl nodes l) (InlineDesc.refl nodes r) kl kr kp hkl hkr hkp hml hmr hmp

/-! The remaining in-line cases (ElseJump, Subexpression / ExpressionSeparator, value-like nodes with side-effect blocks,
one-operand nodes, SideEffect brackets) and the out-of-line parts are proved in Props/C04Order.lean / Props/C04Eval.lean with
the general invariant of Lemmas/BuildSeq*.lean: `C04Order.C04_sibling_order_rest` proves the statement that was registered
here as `C04_sibling_order_rest_statement` — with one correction: for a `Subexpression` node the node has to be reachable
from the root (the validation lets `Subexpression` nodes stay outside the tree; the stale links of such a node say nothing
about the order, so the statement as registered was false for them). -/

/-! ### non-vacuity -/

/-- `5 + 5` as a node vector -/
def exampleTree : Array ParseNode := #[
  ⟨.number, .value, some 1, none, none, ⟨['5'], .number, 0, 0⟩⟩,
  ⟨.addition, .binaryLeftToRight, none, some 0, some 2, ⟨['+'], .plusSign, 0, 0⟩⟩,
  ⟨.number, .value, some 1, none, none, ⟨['5'], .number, 0, 1⟩⟩]

/-- the build succeeds and attributes an instruction to each of the three nodes, operands before the operator -/
example : (match build (F := Unit) (fun _ => none) (defaultFuel 3) 1 exampleTree BState.empty with
    | .ok (d', _) => d'.metadata.toList
    | _ => []) = [some 0, some 2, some 1, none] := by decide

example (d' : BState Unit) (entry : Nat)
    (h : build (fun _ => none) (defaultFuel 3) 1 exampleTree BState.empty = .ok (d', entry)) :
    ∃ k : Nat, d'.metadata[k]? = some (some 1) := by
  obtain ⟨k, _, hk⟩ := C04_build_attributes_every_node (fun _ => none) _ 1 exampleTree BState.empty d' entry h 1 _ rfl rfl
  exact ⟨k, hk⟩

/-- the order theorem applied to `5 + 5`: left operand, right operand, operator -/
example (d' : BState Unit) (entry : Nat)
    (h : build (fun _ => none) (defaultFuel 3) 1 exampleTree BState.empty = .ok (d', entry))
    (kl kr kp : Nat) (hl : d'.metadata[kl]? = some (some 0)) (hr : d'.metadata[kr]? = some (some 2))
    (hp : d'.metadata[kp]? = some (some 1)) : kl < kr ∧ kl < kp ∧ kr < kp := by
  have := C04_sibling_order (fun _ => none) _ 1 exampleTree BState.empty d' entry h 1 0 2 _ false rfl rfl rfl rfl 0 2
    (InlineDesc.refl _ _) (InlineDesc.refl _ _) kl kr kp (Nat.zero_le _) (Nat.zero_le _) (Nat.zero_le _) hl hr hp
  simpa using this

/-- `1 = 2` (Pair): the right operand is emitted first -/
def examplePair : Array ParseNode := #[
  ⟨.number, .value, some 1, none, none, ⟨['1'], .number, 0, 0⟩⟩,
  ⟨.pair, .binaryLeftToRight, none, some 0, some 2, ⟨['='], .pair, 0, 0⟩⟩,
  ⟨.number, .value, some 1, none, none, ⟨['2'], .number, 0, 1⟩⟩]

example : (match build (F := Unit) (fun _ => none) (defaultFuel 3) 1 examplePair BState.empty with
    | .ok (d', _) => d'.metadata.toList
    | _ => []) = [some 2, some 0, some 1, none] := by decide

example (d' : BState Unit) (entry : Nat)
    (h : build (fun _ => none) (defaultFuel 3) 1 examplePair BState.empty = .ok (d', entry))
    (kl kr kp : Nat) (hl : d'.metadata[kl]? = some (some 0)) (hr : d'.metadata[kr]? = some (some 2))
    (hp : d'.metadata[kp]? = some (some 1)) : kr < kl ∧ kl < kp ∧ kr < kp := by
  have := C04_sibling_order (fun _ => none) _ 1 examplePair BState.empty d' entry h 1 0 2 _ true rfl rfl rfl rfl 0 2
    (InlineDesc.refl _ _) (InlineDesc.refl _ _) kl kr kp (Nat.zero_le _) (Nat.zero_le _) (Nat.zero_le _) hl hr hp
  simpa using this

/-- `1 2 3` : `List(List(1, 2), 3)`, root 3; the inner list node forwards its items to the outer one -/
def exampleList : Array ParseNode := #[
  ⟨.number, .value, some 1, none, none, ⟨['1'], .number, 0, 0⟩⟩,
  ⟨.list, .binaryLeftToRight, some 3, some 0, some 2, ⟨[' '], .whitespace, 0, 1⟩⟩,
  ⟨.number, .value, some 1, none, none, ⟨['2'], .number, 0, 2⟩⟩,
  ⟨.list, .binaryLeftToRight, none, some 1, some 4, ⟨[' '], .whitespace, 0, 3⟩⟩,
  ⟨.number, .value, some 3, none, none, ⟨['3'], .number, 0, 4⟩⟩]

example : (match build (F := Unit) (fun _ => none) (defaultFuel 5) 3 exampleList BState.empty with
    | .ok (d', _) => d'.metadata.toList
    | _ => []) = [some 0, some 2, some 4, some 3, none] := by decide

/-- the second item (node 2, below the inner list node 1) comes before the third item (node 4) and before `MakeList` -/
example (d' : BState Unit) (entry : Nat)
    (h : build (fun _ => none) (defaultFuel 5) 3 exampleList BState.empty = .ok (d', entry))
    (k2 k4 kp : Nat) (h2 : d'.metadata[k2]? = some (some 2)) (h4 : d'.metadata[k4]? = some (some 4))
    (hp : d'.metadata[kp]? = some (some 3)) : k2 < k4 ∧ k2 < kp ∧ k4 < kp :=
  C04_list_items_in_order (fun _ => none) _ 3 exampleList BState.empty d' entry h 3 1 4 _ rfl rfl rfl (Or.inl rfl) 2 4
    (InlineDesc.step (pw := exampleList[1]) (InlineDesc.refl _ _) rfl (Or.inr (Or.inl rfl)) (Or.inr rfl)) (InlineDesc.refl _ _)
    k2 k4 kp (Nat.zero_le _) (Nat.zero_le _) (Nat.zero_le _) h2 h4 hp

end Garnish.Props.C04Build
