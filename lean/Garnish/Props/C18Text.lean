/-
Property C18, TEXT level: rewrites of the source characters, transferred through the lexer model to the token-level
theorems of Props/C18Parse.lean and to the source-to-machine theorem of Props/C01Text.lean.

Proved here for `TextAddSpace` (spaces/tabs inserted into, or removed from, a run of spaces/tabs that the lexer reads as
whitespace): `lex` of the rewritten text succeeds iff `lex` of the original does, the token lists differ in the TEXT of one
whitespace token only (`C18_text_addSpace_lex`), hence the parser's inputs have the same types and numbering, the
reference parser returns the SAME tree for every input (`C18_text_addSpace_refParse`), the real parser returns the same
tree up to stored positions on `frag9` (`C18_text_addSpace`), the elaborated program is the same
(`C18_text_addSpace_elaborate`, under `TextNodesOnTokens`) and so is the machine result on `frag9'`
(`C18_text_addSpace_result`).
The other text rewrites (`TextTrailing`, `TextPadOperator`, `TextAnnotation`) are DEFINED here with their guards; their
lexer-level transfer is not proved (see the comments at the definitions); witnesses show that the guards are needed.
-/
import Garnish.Lemmas.LexRewrite
import Garnish.Lemmas.LexRewriteElab
import Garnish.Props.C18Lex
import Garnish.Props.C18Parse
import Garnish.Props.C01Text
namespace Garnish.Props.C18Text
open Garnish Garnish.Gen Garnish.Spec Garnish.Model Garnish.Model.Lexer Garnish.Model.Parser
open Garnish.Abs Garnish.Abs.Source Garnish.Props.C02Parse Garnish.Props.C18Parse
open Garnish.Abs.Tree Garnish.Model.Literals Garnish.Model.Build Garnish.Props.C01Build Garnish.Props.C01Source
open Garnish.Props.C02Numbered

/-! ### the text rewrites -/

/-- a run of spaces/tabs -/
def Blanks (r : List Char) : Prop := ∀ c ∈ r, c = ' ' ∨ c = '\t'

/-- **adding / removing spaces and tabs where whitespace already is**: `Lexer.TextAddSpace cc s s'` —
`s = p ++ r ++ b`, `s' = p ++ r' ++ b`, `r`, `r'` runs of spaces/tabs, and after `p` the lexer is inside a Whitespace
token (`InWsAfter`, decided by `inWsAfterB`; a blank inside a char list is not whitespace). One blank inserted next to an
existing blank is the case `r' = c :: r` or `r = []`, `r' = [c]`. -/
abbrev TextAddSpace := @Lexer.TextAddSpace

/-- **trailing whitespace**: spaces/tabs appended at the very end of the input. Transfer to `TrailingSpace (toP t) (toP t')`
NOT proved: it needs "a blank ends the pending token exactly as the end-of-input sentinel does" for the Number / Float /
Identifier / Operator / Annotation states. (When the input already ends in whitespace this is `TextAddSpace` with `b = []`.) -/
def TextTrailing (s s' : List Char) : Prop := ∃ w, w ≠ [] ∧ Blanks w ∧ s' = s ++ w

/-- **padding an operator**: one blank inserted directly after the token that ends at offset `p.length`, where no
whitespace was. Guards (each needed, see the witnesses below): the token before the blank does not block floats
(`blocksFloat`: after Value, CharList, ByteList, Identifier, Period, Number a following `.5` is an access, after whitespace
it is a float); the next character `d` does not continue a spelling of the operator table with the token's text
(`C13_longest_match`: otherwise `- -` and `--` differ), and `d` is not a blank / newline. Transfer NOT proved. -/
def TextPadOperator (cc : CharClass) (s s' : List Char) : Prop :=
  ∃ p d b c toks t, (c = ' ' ∨ c = '\t') ∧ s = p ++ d :: b ∧ s' = p ++ c :: d :: b ∧
    lex cc p = .ok (toks ++ [t]) ∧ isOpType t.tokenType = true ∧ blocksFloat (some t.tokenType) = false ∧
    walkOperator theTree (t.text ++ [d]) = none ∧ d ≠ ' ' ∧ d ≠ '\t' ∧ d ≠ '\n'

/-- **inserting an annotation where whitespace is**: ` @name` inserted inside a whitespace run (`name` alphanumeric /
underscore, followed by the rest of the run, which must be non-empty so that the annotation ends). Transfer NOT proved. -/
def TextAnnotation (cc : CharClass) (s s' : List Char) : Prop :=
  ∃ p cs name c b, InWsAfter cc p cs ∧ (∀ x ∈ name, cc.isAlphanumeric x = true ∨ x = '_') ∧ (c = ' ' ∨ c = '\t') ∧
    s = p ++ c :: b ∧ s' = p ++ ('@' :: name) ++ c :: b

/-! ### `TextAddSpace`: through the lexer -/

/-- the rewritten text lexes, to the same tokens except for the text of ONE whitespace token (rows / columns behind it
shift); hypothesis on the tables: `cc.Sane` -/
theorem C18_text_addSpace_lex (cc : CharClass) (hcc : cc.Sane) (s s' : List Char) (t : List LexerToken)
    (hl : lex cc s = .ok t) (h : TextAddSpace cc s s') : ∃ t', lex cc s' = .ok t' ∧ OneWsChanged t t' :=
  lex_textAddSpace cc hcc hl h

/-- the parser's inputs: numbered by position, same token types (parser-agent's closure condition `SameTypes`), equal
except for the text of one token of whitespace type -/
theorem C18_text_addSpace_tokens (t t' : List LexerToken) (h : OneWsChanged t t') :
    NumberedFrom 0 (toP t) ∧ NumberedFrom 0 (toP t') ∧ SameTypes (toP t) (toP t') ∧
    ∃ pre x x' rest, toP t = pre ++ x :: rest ∧ toP t' = pre ++ x' :: rest ∧ x.type = x'.type ∧
      (x.type = .whitespace ∨ x.type = .subexpression) :=
  ⟨toP_numbered t, toP_numbered t', h.sameTypes,
    let ⟨pre, x, x', rest, h1, h2, h3, _, h5⟩ := h.parserInput; ⟨pre, x, x', rest, h1, h2, h3, h5⟩⟩

/-- **every input**: the reference parser returns the same tree (positions included) for the two texts -/
theorem C18_text_addSpace_refParse (cc : CharClass) (hcc : cc.Sane) (s s' : List Char) (t : List LexerToken)
    (hl : lex cc s = .ok t) (h : TextAddSpace cc s s') :
    ∃ t', lex cc s' = .ok t' ∧ refParse Table.gen (toP t') = refParse Table.gen (toP t) := by
  obtain ⟨t', hl', hc⟩ := C18_text_addSpace_lex cc hcc s s' t hl h
  exact ⟨t', hl', (refParse_types Table.gen hc.sameTypes).symm⟩

/-- **the real parser on `frag9`**: both token lists parse, to proper trees that are equal up to the positions stored in
the nodes (`TreeEqTrivia`); in fact the two reference trees are identical -/
theorem C18_text_addSpace (cc : CharClass) (hcc : cc.Sane) (s s' : List Char) (t : List LexerToken)
    (hl : lex cc s = .ok t) (h : TextAddSpace cc s s') (hf : frag9 (toP t) = true)
    (hf' : ∀ t', lex cc s' = .ok t' → frag9 (toP t') = true) :
    ∃ t' r tr r' tr', lex cc s' = .ok t' ∧ parse (toP t) = .ok r ∧ toTree r = some tr ∧ parse (toP t') = .ok r' ∧
      toTree r' = some tr' ∧ treeToRG r tr = treeToRG r' tr' ∧ TreeEqTrivia (treeToRG r tr) (treeToRG r' tr') := by
  obtain ⟨t', hl', href⟩ := C18_text_addSpace_refParse cc hcc s s' t hl h
  obtain ⟨r, tr, h1, h2, h3⟩ := C02_parse_correct_fragment_optional (toP t) hf (toP_numbered t)
  obtain ⟨r', tr', h1', h2', h3'⟩ := C02_parse_correct_fragment_optional (toP t') (hf' t' hl') (toP_numbered t')
  rw [h3, h3'] at href
  have heq : treeToRG r tr = treeToRG r' tr' := by injection href with h; exact h.symm
  exact ⟨t', r, tr, r', tr', hl', h1, h2, h1', h2', heq, by rw [TreeEqTrivia, heq]⟩

/-! ### `TextAddSpace`: elaboration and machine result -/

/-- the nodes whose elaboration reads the token text (literals, identifiers, properties, backtick applications) sit on
tokens that are not Whitespace / Subexpression tokens -/
def TextNodesOnTokens (toks : List PToken) (rt : RTree) : Prop :=
  ∀ d k, (d, k) ∈ nodeDefs rt → readsText d = true →
    ∀ tok, toks[k]? = some tok → tok.type ≠ .whitespace ∧ tok.type ≠ .subexpression

theorem textAt_oneChanged {pre rest : List PToken} {x x' : PToken} (k : Nat) (hk : k ≠ pre.length) :
    textAt (pre ++ x :: rest) k = textAt (pre ++ x' :: rest) k := by
  unfold textAt
  rcases Nat.lt_or_ge k pre.length with hlt | hge
  · rw [List.getElem?_append_left hlt, List.getElem?_append_left hlt]
  · rw [List.getElem?_append_right hge, List.getElem?_append_right hge]
    have : k - pre.length ≠ 0 := by omega
    cases hkk : k - pre.length with
    | zero => exact absurd hkk this
    | succ n => simp

/-- the elaborated program is the same (the elaboration reads token texts only at text-reading nodes, `elaborate_congr`,
and those are not the changed whitespace token) -/
theorem C18_text_addSpace_elaborate {F : Type} (pf : List Char → Option F) (t t' : List LexerToken)
    (h : OneWsChanged t t') (rt : RTree) (hn : TextNodesOnTokens (toP t) rt) :
    elaborate pf (toP t') rt = elaborate pf (toP t) rt := by
  obtain ⟨pre, x, x', rest, h1, h2, _, _, hws⟩ := h.parserInput
  apply elaborate_congr
  intro d k hm hr
  rw [h1, h2]
  by_cases hk : k = pre.length
  · exfalso
    have := hn d k hm hr x (by rw [h1, hk]; simp)
    rcases hws with hw | hw
    · exact this.1 hw
    · exact this.2 hw
  · exact (textAt_oneChanged k hk).symm

/-- **result half on `frag9'`**: if the original text lexes, is in the fragment, has the reference tree `rt`, elaborates to
a well-formed program `p` and `p` evaluates to `v` with trace `st.trace`, then BOTH texts are built into objects on which
the machine halts with exactly that value and host-call trace -/
theorem C18_text_addSpace_result {F : Type} (pf : List Char → Option F) (cc : CharClass) (hcc : cc.Sane)
    (fo : FloatOps F) (host : Host F) (s s' : List Char) (t : List LexerToken) (hl : lex cc s = .ok t)
    (h : TextAddSpace cc s s') (hf : frag9' (toP t) = true) (hf' : ∀ t', lex cc s' = .ok t' → frag9' (toP t') = true)
    (rt : RTree) (href : refParse Table.gen (toP t) = .ok rt) (hn : TextNodesOnTokens (toP t) rt)
    (p : Program F) (hel : elaborate pf (toP t) rt = some p) (hwf : C01.WFProgram p)
    (input : Val F) (fuel : Nat) (v : Val F) (st : St F) (he : evalProgram fo host fuel p input = .ok (v, st)) :
    ∀ src ∈ [s, s'], ∃ d entry, C01Text.buildText pf cc src = .ok (d, entry) ∧
      ∃ n m, run fo host (progOf d) n
          { pc := (progOf d).jumps[entry]?.getD 0, regs := [], vals := [input], frames := [], trace := [] } = (.halted m, n) ∧
        m.vals = [v] ∧ m.regs = [] ∧ m.frames = [] ∧ m.trace = st.trace := by
  obtain ⟨t', hl', hc⟩ := C18_text_addSpace_lex cc hcc s s' t hl h
  have href' : refParse Table.gen (toP t') = .ok rt := by
    rw [← refParse_types Table.gen hc.sameTypes]; exact href
  have hel' : elaborate pf (toP t') rt = some p := by rw [C18_text_addSpace_elaborate pf t t' hc rt hn]; exact hel
  intro src hsrc
  simp only [List.mem_cons, List.mem_nil_iff, or_false] at hsrc
  rcases hsrc with rfl | rfl
  · exact C01Text.C01_text_correct pf cc fo host _ t hl hf rt href p hel hwf input fuel v st he
  · exact C01Text.C01_text_correct pf cc fo host _ t' hl' (hf' t' hl') rt href' p hel' hwf input fuel v st he

/-! ### non-vacuity and witnesses (Rust tables) -/

deriving instance DecidableEq for Outcome

/-- `x + y` -/
def exS : List Char := ['x', ' ', '+', ' ', 'y']
/-- `x  \t+ y`: two blanks inserted into the first whitespace run -/
def exS' : List Char := ['x', ' ', ' ', '\t', '+', ' ', 'y']

def exT : List LexerToken :=
  [⟨['x'], .identifier, 0, 0⟩, ⟨[' '], .whitespace, 0, 1⟩, ⟨['+'], .plusSign, 0, 2⟩, ⟨[' '], .whitespace, 0, 3⟩,
   ⟨['y'], .identifier, 0, 4⟩]
def exT' : List LexerToken :=
  [⟨['x'], .identifier, 0, 0⟩, ⟨[' ', ' ', '\t'], .whitespace, 0, 1⟩, ⟨['+'], .plusSign, 0, 4⟩, ⟨[' '], .whitespace, 0, 5⟩,
   ⟨['y'], .identifier, 0, 6⟩]

theorem exS_lex : lex rustTables exS = .ok exT ∧ lex rustTables exS' = .ok exT' := by decide +kernel

/-- the rewrite is licensed: after `x ` the lexer is inside a Whitespace token -/
theorem exS_add : TextAddSpace rustTables exS exS' :=
  ⟨['x', ' '], [' '], [], [' ', '\t'], ['+', ' ', 'y'], inWsAfter_of_check (by decide +kernel), by simp, by simp, rfl, rfl⟩

theorem exS_frag : frag9 (toP exT) = true ∧ frag9 (toP exT') = true := by decide +kernel

/-- the composed theorem applies: both texts parse, to the same tree -/
example : ∃ t' r tr r' tr', lex rustTables exS' = .ok t' ∧ parse (toP exT) = .ok r ∧ toTree r = some tr ∧
    parse (toP t') = .ok r' ∧ toTree r' = some tr' ∧ treeToRG r tr = treeToRG r' tr' ∧
    TreeEqTrivia (treeToRG r tr) (treeToRG r' tr') :=
  C18_text_addSpace rustTables rustTables_sane2.toSane exS exS' exT exS_lex.1 exS_add exS_frag.1
    (fun t' h => by
      have e : (Outcome.ok t' : Outcome (List LexerToken)) = .ok exT' := h.symm.trans exS_lex.2
      cases e
      exact exS_frag.2)

/-- a blank inside a char list is not whitespace: the guard fails for `"a b"` at the blank -/
example : inWsAfterB rustTables ['"', 'a', ' '] [' '] = false := by decide +kernel

/-- **not licensed: a space where none was** (guard of `TextPadOperator`: the token before blocks floats) —
`a.5` is Identifier, Period, Number, but `a .5` is Identifier, Whitespace, Number `.5`; likewise `"s"1.5` / `"s" 1.5` -/
theorem C18_text_space_before_float_differs :
    C18Lex.typesTexts (lex rustTables ['a', '.', '5']) = [(.identifier, ['a']), (.period, ['.']), (.number, ['5'])] ∧
    C18Lex.typesTexts (lex rustTables ['a', ' ', '.', '5']) =
      [(.identifier, ['a']), (.whitespace, [' ']), (.number, ['.', '5'])] ∧
    C18Lex.typesTexts (lex rustTables ['"', 's', '"', '1', '.', '5']) =
      [(.charList, ['"', 's', '"']), (.number, ['1']), (.period, ['.']), (.number, ['5'])] ∧
    C18Lex.typesTexts (lex rustTables ['"', 's', '"', ' ', '1', '.', '5']) =
      [(.charList, ['"', 's', '"']), (.whitespace, [' ']), (.number, ['1', '.', '5'])] := by
  decide +kernel

/-- **not licensed: removing the space between two operator characters that form a longer spelling** (guard of
`TextPadOperator`: `walkOperator theTree (text ++ [d]) = none`) — `- -` is Subtraction, Whitespace, Subtraction but `--` is
one Opposite token; `< <` / `<<` likewise -/
theorem C18_text_operator_merge_differs :
    C18Lex.typesTexts (lex rustTables ['-', ' ', '-']) = [(.subtraction, ['-']), (.whitespace, [' ']), (.subtraction, ['-'])] ∧
    C18Lex.typesTexts (lex rustTables ['-', '-']) = [(.opposite, ['-', '-'])] ∧
    C18Lex.typesTexts (lex rustTables ['<', ' ', '<']) = [(.lessThan, ['<']), (.whitespace, [' ']), (.lessThan, ['<'])] ∧
    C18Lex.typesTexts (lex rustTables ['<', '<']) = [(.bitwiseLeftShift, ['<', '<'])] := by
  decide +kernel

end Garnish.Props.C18Text
