/-
C02 / C04 / C18 for the statement-level model of the real parser (`Garnish.Model.Parser.parse`), on an operator fragment,
for ALL token lists of the fragment (no length bound).

Fragment (decidable recogniser `Spec.frag4`):   value (trivia* binop trivia* value)*
  value  = a token of class Value / Identifier whose definition has priority 10 (numbers, identifiers, symbols, unit, `$`,
           char / byte lists, true / false, ...; not `;;`, not Unknown)
  binop  = any BinaryLeftToRight / BinaryRightToLeft token: all binary operators of every priority, the conditionals,
           apply forms, access `.`, ranges, ..., and the right-to-left pair `=`
  trivia = Whitespace, Annotation, LineAnnotation tokens, any number of them, between any two tokens
`Spec.frag1` is the sub-fragment without trivia.

Proved (proofs in Garnish/Lemmas/ParserTree, ParserSim, ParserSteps, ParserTrivia, ParserFrag .. ParserFrag5):
  whenever the model of `parse` accepts such a list, its node array is a proper tree (`toTree r = some t`) and this tree
  IS the tree the reference parser returns — hence it satisfies the precedence condition of the table, its in-order walk
  is exactly the significant tokens in source order, and (uniqueness) it is the only such tree;
  and the result of `parse` does not depend on the trivia at all.
Token positions: the theorems assume that token `i` of the list carries `i` in its `col` field (`NumberedFrom 0 toks`,
what the harness' `!tokidx` mode and `numbered` do), because the tree records the positions of its tokens.
Acceptance (`parse` returns `Ok` on every list of the fragment) is `C02_parse_accepts_fragment`; `C02_modelParse_binary`
is the unconditional form.  Stage 2 (prefix operators in operand position, fragment `Spec.frag2`) is
`C02_parse_correct_fragment_prefix`, stage 3 (suffix operators, fragment `Spec.frag3`) is
`C02_parse_correct_fragment_suffix`; both unconditional as well.  Stage 5 (groups `( .. )` and nested expressions
`{ .. }` as operands, to any depth, fragment `Spec.frag5`) is `C02_parse_correct_fragment_groups`; side-effect blocks
`[ body ]` and `v [ body ]` with a body of that fragment are `C02_parse_block_body` / `C02_parse_block_body_after_value`
(the subtree under the SideEffect node is the reference tree of the body).  Stage 6a (implicit space lists `a b`,
`f (x) y`, `a -- b`, fragment `Spec.frag6`) is `C02_parse_correct_fragment_lists`; stage 6b (`,` and infix identifiers
between two operands, fragment `Spec.frag7`) is `C02_parse_correct_fragment_commas`.  Not done: commas with a missing
operand (leading / trailing comma), separators (blank lines, `;`).
-/
import Garnish.Lemmas.ParserFrag5
import Garnish.Lemmas.ParserAccept2
import Garnish.Lemmas.ParserPrefix5
import Garnish.Lemmas.ParserSuffix5
import Garnish.Lemmas.ParserB14
import Garnish.Lemmas.RefParseShift
import Garnish.Lemmas.RefParseInorder
import Garnish.Lemmas.RefParseUnique
import Garnish.Props.C02
namespace Garnish.Props.C02Parse
open Garnish Garnish.Gen Garnish.Model.Parser Garnish.Spec

/-- the reference-tree image used in the statements is `Props.C02.treeToR` -/
theorem C02_toRd_eq_treeToR (r : ParseResult) : ∀ t : Tree, toRd (dfOf r.nodes) t = Garnish.Props.C02.treeToR r t
  | .nil => rfl
  | .node l i k rt => by
    simp only [toRd, Garnish.Props.C02.treeToR, C02_toRd_eq_treeToR r l, C02_toRd_eq_treeToR r rt]
    rfl

/-- **stage 1** — `value (binop value)*`: the model of `parse` computes the reference tree -/
theorem C02_parse_correct_frag1 (toks : List PToken) (hf : frag1 toks = true) (hnum : NumberedFrom 0 toks)
    (r : ParseResult) (h : parse toks = .ok r) :
    ∃ t, toTree r = some t ∧ refParse Table.gen toks = .ok (Garnish.Props.C02.treeToR r t) := by
  obtain ⟨t, h1, h2⟩ := parse_frag1 toks hf hnum r h
  exact ⟨t, h1, by rw [← C02_toRd_eq_treeToR]; exact h2⟩

/-- **stage 1 + 4** — `value (trivia* binop trivia* value)*`: the model of `parse` computes the reference tree -/
theorem C02_parse_correct_fragment (toks : List PToken) (hf : frag4 toks = true) (hnum : NumberedFrom 0 toks)
    (r : ParseResult) (h : parse toks = .ok r) :
    ∃ t, toTree r = some t ∧ refParse Table.gen toks = .ok (Garnish.Props.C02.treeToR r t) := by
  obtain ⟨t, h1, h2⟩ := parse_frag4 toks hf hnum r h
  exact ⟨t, h1, by rw [← C02_toRd_eq_treeToR]; exact h2⟩

/-- the same with the committed language table -/
theorem C02_parse_correct_fragment_spec (toks : List PToken) (hf : frag4 toks = true) (hnum : NumberedFrom 0 toks)
    (r : ParseResult) (h : parse toks = .ok r) :
    ∃ t, toTree r = some t ∧ refParse Table.spec toks = .ok (Garnish.Props.C02.treeToR r t) := by
  rw [← Garnish.Props.C02.C02_bridge_table]; exact C02_parse_correct_fragment toks hf hnum r h

/-- consequences in the declarative vocabulary: proper tree, precedence condition, in-order = significant tokens -/
theorem C02_parse_fragment_precOK_inorder (toks : List PToken) (hf : frag4 toks = true) (hnum : NumberedFrom 0 toks)
    (r : ParseResult) (h : parse toks = .ok r) :
    ∃ t, toTree r = some t ∧ ProperTree r ∧ PrecOK Table.gen Table.gen.rtl (Garnish.Props.C02.treeToR r t) ∧
      (Garnish.Props.C02.treeToR r t).inorderSig = significant toks := by
  obtain ⟨t, h1, h2⟩ := C02_parse_correct_fragment toks hf hnum r h
  refine ⟨t, h1, ⟨t, (toTree_some_iff r t).mp h1⟩, ?_, ?_⟩
  · exact Garnish.Props.C02.C02_refParse_precOK_gen toks _ h2
  · exact refParse_inorder toks _ h2

/-- C04 on the fragment: an accepted list yields a proper tree -/
theorem C04_parse_proper_fragment (toks : List PToken) (hf : frag4 toks = true) (hnum : NumberedFrom 0 toks)
    (r : ParseResult) (h : parse toks = .ok r) : properTree r = true := by
  obtain ⟨t, h1, _⟩ := parse_frag4 toks hf hnum r h
  simp [properTree, h1]

/-- **C18 on the fragment**: Whitespace / Annotation / LineAnnotation tokens between the tokens do not change the result
    of `parse` in any way (same `Ok` with the same root and node array, or the same `Err`) -/
theorem C18_parse_whitespace_insensitive_fragment (toks : List PToken) (hf : frag4 toks = true) :
    parse toks = parse (stripTrivia toks) :=
  parse_frag4_strip toks hf

/-- two lists of the fragment with the same non-trivia tokens parse to the same result -/
theorem C18_parse_same_tokens_same_result (toks toks' : List PToken) (hf : frag4 toks = true) (hf' : frag4 toks' = true)
    (hs : stripTrivia toks = stripTrivia toks') : parse toks = parse toks' := by
  rw [parse_frag4_strip toks hf, parse_frag4_strip toks' hf', hs]

/-- **acceptance**: the model of `parse` returns `Ok` for EVERY token list of the fragment -/
theorem C02_parse_accepts_fragment (toks : List PToken) (hf : frag4 toks = true) : ∃ r, parse toks = .ok r :=
  parse_frag4_ok toks hf

/-- **unconditional form** (what `Props.C02.C02_modelParse_binary_partial` asked for, on the larger fragment with trivia):
    for every token list `value (trivia* binop trivia* value)*` whose tokens carry their positions, the model of `parse`
    accepts, the result is a proper tree, and that tree is the reference tree -/
theorem C02_modelParse_binary (toks : List PToken) (hf : frag4 toks = true) (hnum : NumberedFrom 0 toks) :
    ∃ r t, parse toks = .ok r ∧ toTree r = some t ∧ refParse Table.gen toks = .ok (Garnish.Props.C02.treeToR r t) := by
  obtain ⟨r, hr⟩ := parse_frag4_ok toks hf
  obtain ⟨t, h1, h2⟩ := C02_parse_correct_fragment toks hf hnum r hr
  exact ⟨r, t, hr, h1, h2⟩

/-! ### non-vacuity: concrete lists of the fragment that the model accepts -/

def tk (t : TokenType) (s : String) (k : Nat) : PToken := { text := s.toList, type := t, row := 0, col := k }

/-- `a + 2 * 3 = b = 4 == 5` (five operators, four priorities, right-to-left `=`) -/
def ex1 : List PToken :=
  [tk .identifier "a" 0, tk .plusSign "+" 1, tk .number "2" 2, tk .multiplicationSign "*" 3, tk .number "3" 4,
   tk .pair "=" 5, tk .identifier "b" 6, tk .pair "=" 7, tk .number "4" 8, tk .equality "==" 9, tk .number "5" 10]

/-- `a  + 2*3 @x ** b .c  ?> 4` with whitespace / annotation tokens in all positions -/
def ex2 : List PToken :=
  [tk .identifier "a" 0, tk .whitespace "  " 1, tk .plusSign "+" 2, tk .whitespace " " 3, tk .number "2" 4,
   tk .multiplicationSign "*" 5, tk .number "3" 6, tk .whitespace " " 7, tk .annotation "@x" 8, tk .whitespace " " 9,
   tk .exponentialSign "**" 10, tk .whitespace " " 11, tk .identifier "b" 12, tk .whitespace " " 13, tk .period "." 14,
   tk .identifier "c" 15, tk .whitespace "  " 16, tk .jumpIfTrue "?>" 17, tk .whitespace " " 18, tk .number "4" 19]

theorem ex1_in_fragment : frag1 ex1 = true ∧ frag4 ex1 = true := by decide
theorem ex1_numbered : NumberedFrom 0 ex1 := by simp [ex1, NumberedFrom, tk]
theorem ex1_accepted : (parse ex1).isOk = true := by decide
theorem ex2_in_fragment : frag4 ex2 = true := by decide
theorem ex2_numbered : NumberedFrom 0 ex2 := by simp [ex2, NumberedFrom, tk]
theorem ex2_accepted : (parse ex2).isOk = true := by decide

/-! ### stage 2: prefix operators

Fragment `Spec.frag2` (decidable):   (prefix* value) (trivia* binop trivia* prefix* value)*
with prefix = any UnaryPrefix token (`--`, `++`, `!`, `!!`, `??`, `#`, `_.`, `^~`, prefix identifiers). -/

/-- **stage 2, unconditional**: for every token list of the fragment whose tokens carry their positions, the model of `parse`
    accepts, its node array is a proper tree, and that tree is the reference tree.  In particular the equal-priority tie
    between the prefix operators Not / Tis (priority 400) and `==` `!=` `#=` (priority 400, left-to-right) is resolved as
    the table says: `!! a == b` is `(!! a) == b`, see `ex3`. -/
theorem C02_parse_correct_fragment_prefix (toks : List PToken) (hf : frag2 toks = true) (hnum : NumberedFrom 0 toks) :
    ∃ r t, parse toks = .ok r ∧ toTree r = some t ∧ refParse Table.gen toks = .ok (Garnish.Props.C02.treeToR r t) := by
  obtain ⟨r, t, h1, h2, h3⟩ := parse_frag2 toks hf hnum
  exact ⟨r, t, h1, h2, by rw [← C02_toRd_eq_treeToR]; exact h3⟩

theorem C02_parse_accepts_fragment_prefix (toks : List PToken) (hf : frag2 toks = true) (hnum : NumberedFrom 0 toks) :
    ∃ r, parse toks = .ok r := by
  obtain ⟨r, _, h1, _⟩ := parse_frag2 toks hf hnum
  exact ⟨r, h1⟩

theorem C02_parse_fragment_prefix_precOK_inorder (toks : List PToken) (hf : frag2 toks = true) (hnum : NumberedFrom 0 toks) :
    ∃ r t, parse toks = .ok r ∧ toTree r = some t ∧ ProperTree r ∧
      PrecOK Table.gen Table.gen.rtl (Garnish.Props.C02.treeToR r t) ∧
      (Garnish.Props.C02.treeToR r t).inorderSig = significant toks := by
  obtain ⟨r, t, h0, h1, h2⟩ := C02_parse_correct_fragment_prefix toks hf hnum
  exact ⟨r, t, h0, h1, ⟨t, (toTree_some_iff r t).mp h1⟩, Garnish.Props.C02.C02_refParse_precOK_gen toks _ h2,
    refParse_inorder toks _ h2⟩

/-- `!!a == b + --c * 2 ** ?? d`: four binary operators of four priorities, three prefix operators, and the tie
    Not (400) against Equality (400) -/
def ex3 : List PToken :=
  [tk .not "!!" 0, tk .identifier "a" 1, tk .whitespace " " 2, tk .equality "==" 3, tk .whitespace " " 4,
   tk .identifier "b" 5, tk .whitespace " " 6, tk .plusSign "+" 7, tk .whitespace " " 8, tk .opposite "--" 9,
   tk .identifier "c" 10, tk .whitespace " " 11, tk .multiplicationSign "*" 12, tk .whitespace " " 13, tk .number "2" 14,
   tk .whitespace " " 15, tk .exponentialSign "**" 16, tk .whitespace " " 17, tk .tis "??" 18, tk .identifier "d" 19]

theorem ex3_in_fragment : frag2 ex3 = true := by decide
theorem ex3_numbered : NumberedFrom 0 ex3 := by simp [ex3, NumberedFrom, tk]
theorem ex3_accepted : (parse ex3).isOk = true := by decide

/-- the tie `!! a == b`: the reference tree (hence, by `C02_parse_correct_fragment_prefix`, the tree of the model) is
    `(!! a) == b` -/
def exTie : List PToken := [tk .not "!!" 0, tk .identifier "a" 1, tk .equality "==" 2, tk .identifier "b" 3]
theorem exTie_in_fragment : frag2 exTie = true := by decide
theorem exTie_tree : refParse Table.gen exTie =
    .ok (.node (.node .nil .not 0 (.node .nil .identifier 1 .nil)) .equality 2 (.node .nil .identifier 3 .nil)) := by
  rfl

/-! ### stage 3: suffix operators

Fragment `Spec.frag3` (decidable):   (prefix* value suffix*) (trivia* binop trivia* prefix* value suffix*)*
with suffix = any UnarySuffix token (`~~`, `._`, `.|`, suffix identifiers).  The node at the bottom of the right spine can
now be a suffix operator, which may stop the next operator (`a ~~ . b`: Access 30 < EmptyApply 40): then `parse_token`
takes its `parent == true_left` branch and the new operator gets no left operand — the reference parser does the same. -/

/-- **stage 3, unconditional** -/
theorem C02_parse_correct_fragment_suffix (toks : List PToken) (hf : frag3 toks = true) (hnum : NumberedFrom 0 toks) :
    ∃ r t, parse toks = .ok r ∧ toTree r = some t ∧ refParse Table.gen toks = .ok (Garnish.Props.C02.treeToR r t) := by
  obtain ⟨r, t, h1, h2, h3⟩ := parse_frag3 toks hf hnum
  exact ⟨r, t, h1, h2, by rw [← C02_toRd_eq_treeToR]; exact h3⟩

theorem C02_parse_fragment_suffix_precOK_inorder (toks : List PToken) (hf : frag3 toks = true) (hnum : NumberedFrom 0 toks) :
    ∃ r t, parse toks = .ok r ∧ toTree r = some t ∧ ProperTree r ∧
      PrecOK Table.gen Table.gen.rtl (Garnish.Props.C02.treeToR r t) ∧
      (Garnish.Props.C02.treeToR r t).inorderSig = significant toks := by
  obtain ⟨r, t, h0, h1, h2⟩ := C02_parse_correct_fragment_suffix toks hf hnum
  exact ⟨r, t, h0, h1, ⟨t, (toTree_some_iff r t).mp h1⟩, Garnish.Props.C02.C02_refParse_precOK_gen toks _ h2,
    refParse_inorder toks _ h2⟩

/-- `a~~ + b._ * --c.| == !!d~~ . e`: four binary operators of four priorities, two prefix and four suffix operators, the
    tie Not (400) / Equality (400), and a suffix node that stops the next operator (`~~` 40 against `.` 30) -/
def ex4 : List PToken :=
  [tk .identifier "a" 0, tk .emptyApply "~~" 1, tk .whitespace " " 2, tk .plusSign "+" 3, tk .whitespace " " 4,
   tk .identifier "b" 5, tk .rightInternal "._" 6, tk .whitespace " " 7, tk .multiplicationSign "*" 8, tk .whitespace " " 9,
   tk .opposite "--" 10, tk .identifier "c" 11, tk .lengthInternal ".|" 12, tk .whitespace " " 13, tk .equality "==" 14,
   tk .whitespace " " 15, tk .not "!!" 16, tk .identifier "d" 17, tk .emptyApply "~~" 18, tk .whitespace " " 19,
   tk .period "." 20, tk .whitespace " " 21, tk .identifier "e" 22]

theorem ex4_in_fragment : frag3 ex4 = true := by decide
theorem ex4_numbered : NumberedFrom 0 ex4 := by simp [ex4, NumberedFrom, tk]
theorem ex4_accepted : (parse ex4).isOk = true := by decide

/-! ### stage 5: groups and nested expressions

Fragment `Spec.frag5` (decidable; syntax trees `Spec.Ex`):
  operand ::= prefix* value | prefix* `(` trivia* expr trivia* `)` | prefix* `{` trivia* expr trivia* `}`
  expr    ::= operand | expr trivia* binop trivia* operand | expr suffix
to any nesting depth.  The reference parser returns a closed bracket as an opaque `group` node, so the implementation-side
tree is read the same way (`treeToRG`: a node whose definition is Group / NestedExpression becomes `group d k content`).
Proofs: Garnish/Lemmas/ParserB1 .. ParserB12 — one partial tree per open bracket (`NInv` / `UInv`: the frame of the
innermost open bracket; the outer frames are only known to be untouched), the parent walk stopping at the open bracket
(`walkLoop_chain_grp`, `is_our_group`), the walk starting at a closed bracket (`walk_insertC`), the opening bracket
(`step_openB`: pushed like a prefix operator with a dangling `right`, becomes `next_parent` and the current group),
the closing bracket (`step_closeU`: group stack popped, list flag restored, `last_left` := the bracket node), and the
induction over the syntax (`ex_ok`). -/

/-- implementation-side tree as a reference tree, closed brackets as `group` nodes -/
def treeToRG (r : ParseResult) : Tree → RTree
  | .nil => .nil
  | .node l i k rt =>
    if isBracketDef ((r.nodes[i]?).map (·.definition) |>.getD .drop) then
      .group ((r.nodes[i]?).map (·.definition) |>.getD .drop) k (treeToRG r rt)
    else .node (treeToRG r l) ((r.nodes[i]?).map (·.definition) |>.getD .drop) k (treeToRG r rt)

theorem C02_toRG_eq_treeToRG (r : ParseResult) : ∀ t : Tree, toRG (dfOf r.nodes) t = treeToRG r t
  | .nil => rfl
  | .node l i k rt => by
    simp only [toRG, treeToRG, C02_toRG_eq_treeToRG r l, C02_toRG_eq_treeToRG r rt]
    rfl

/-- without brackets `treeToRG` is `treeToR` -/
theorem C02_treeToRG_eq_treeToR (r : ParseResult) (t : Tree)
    (h : ∀ i ∈ t.inorder, isBracketDef (dfOf r.nodes i) = false) : treeToRG r t = Garnish.Props.C02.treeToR r t := by
  rw [← C02_toRG_eq_treeToRG, ← C02_toRd_eq_treeToR, toRG_eq_toRd _ _ h]

/-- **stage 5, unconditional**: for every token list of the fragment with groups and nested expressions whose tokens
    carry their positions, the model of `parse` accepts, its node array is a proper tree, and that tree is the reference
    tree -/
theorem C02_parse_correct_fragment_groups (toks : List PToken) (hf : frag5 toks = true) (hnum : NumberedFrom 0 toks) :
    ∃ r t, parse toks = .ok r ∧ toTree r = some t ∧ refParse Table.gen toks = .ok (treeToRG r t) := by
  obtain ⟨r, t, h1, h2, h3⟩ := parse_frag5 toks hf hnum
  exact ⟨r, t, h1, h2, by rw [← C02_toRG_eq_treeToRG]; exact h3⟩

theorem C02_parse_fragment_groups_precOK_inorder (toks : List PToken) (hf : frag5 toks = true)
    (hnum : NumberedFrom 0 toks) :
    ∃ r t, parse toks = .ok r ∧ toTree r = some t ∧ ProperTree r ∧ PrecOK Table.gen Table.gen.rtl (treeToRG r t) ∧
      (treeToRG r t).inorderSig = significant toks := by
  obtain ⟨r, t, h0, h1, h2⟩ := C02_parse_correct_fragment_groups toks hf hnum
  exact ⟨r, t, h0, h1, ⟨t, (toTree_some_iff r t).mp h1⟩, Garnish.Props.C02.C02_refParse_precOK_gen toks _ h2,
    refParse_inorder toks _ h2⟩

/-- `( a + 2 ) * --{ b**(c-1)~~ } == !!(d) . e`: five binary operators of five priorities, two prefix operators in front of
    brackets, a suffix operator after a closed bracket, brackets nested three deep, trivia next to the brackets, and the
    tie Not (400) / Equality (400) with a bracket as the operand of `!!` -/
def ex5 : List PToken :=
  [tk .startGroup "(" 0, tk .identifier "a" 1, tk .whitespace " " 2, tk .plusSign "+" 3, tk .whitespace " " 4,
   tk .number "2" 5, tk .endGroup ")" 6, tk .whitespace " " 7, tk .multiplicationSign "*" 8, tk .whitespace " " 9,
   tk .opposite "--" 10, tk .startExpression "{" 11, tk .whitespace " " 12, tk .identifier "b" 13,
   tk .exponentialSign "**" 14, tk .startGroup "(" 15, tk .identifier "c" 16, tk .subtraction "-" 17, tk .number "1" 18,
   tk .endGroup ")" 19, tk .emptyApply "~~" 20, tk .whitespace " " 21, tk .endExpression "}" 22, tk .whitespace " " 23,
   tk .equality "==" 24, tk .whitespace " " 25, tk .not "!!" 26, tk .startGroup "(" 27, tk .identifier "d" 28,
   tk .endGroup ")" 29, tk .period "." 30, tk .identifier "e" 31]

theorem ex5_in_fragment : frag5 ex5 = true := by decide
theorem ex5_numbered : NumberedFrom 0 ex5 := by simp [ex5, NumberedFrom, tk]
theorem ex5_accepted : (parse ex5).isOk = true := by decide
/-- the earlier fragments are part of this one -/
theorem ex4_in_frag5 : frag5 ex4 = true ∧ frag5 ex3 = true ∧ frag5 ex2 = true ∧ frag5 ex1 = true := by decide

/-- the tie with a bracket: `!! ( a ) == b` is `(!! (a)) == b`, and a suffix operator takes the closed bracket as its
    operand: `( a ) ~~` -/
def exTieG : List PToken :=
  [tk .not "!!" 0, tk .startGroup "(" 1, tk .identifier "a" 2, tk .endGroup ")" 3, tk .equality "==" 4,
   tk .identifier "b" 5]
theorem exTieG_in_fragment : frag5 exTieG = true := by decide
theorem exTieG_tree : refParse Table.gen exTieG =
    .ok (.node (.node .nil .not 0 (.group .group 1 (.node .nil .identifier 2 .nil))) .equality 4
      (.node .nil .identifier 5 .nil)) := by
  rfl

/-! ### side-effect blocks

`[ body ]` and `v [ body ]` are outside of the reference grammar, but the body is an expression like any other: the subtree
the parser builds under the SideEffect node is the reference tree of the body.  The reference parser is run on the body
tokens alone, counting positions from where the body starts in the program (`refLoop Table.gen Frame.top [] k body`; for
`k = 0` this is `refParse` of the body) — this is what the block-body check of tools/props/c02.py compares per input.
`[` goes through `parse_token` with priority 5 (`step_sideOpen`); its `next_parent = Some(current_id)` is what makes the
first token of the body the child of the SideEffect node (`openB_stepSE`: `next_parent = last_left`); `]` restores the list
flag saved on the group stack (`side_body`: `check_for_list` after the block = before the block). -/

/-- **`[ body ]`** with a body of the fragment (`fragL L C`: frag5 = `fragL false false`, frag6 = `fragL true false`,
    frag7 = `fragL true true`): accepted, the root is the SideEffect node (token 0) without left child,
    and the subtree under it is the reference tree of the body -/
theorem C02_parse_block_body (o c : PToken) (wsA wsB body : List PToken) (ho : o.type = .startSideEffect)
    (hc : c.type = .endSideEffect) {L C : Bool} (hbody : fragL L C body = true) (hwA : ∀ w ∈ wsA, isTriviaTok w = true)
    (hwB : ∀ w ∈ wsB, isTriviaTok w = true) (hnum : NumberedFrom 0 (o :: (wsA ++ (body ++ (wsB ++ [c]))))) :
    ∃ r t, parse (o :: (wsA ++ (body ++ (wsB ++ [c])))) = .ok r ∧ toTree r = some (.node .nil 0 o.col t) ∧
      dfOf r.nodes 0 = .sideEffect ∧
      refLoop Table.gen Frame.top [] (1 + wsA.length) body = .ok (treeToRG r t) := by
  obtain ⟨e, hok, rfl⟩ := fragL_sound hbody
  obtain ⟨r, t, h1, h2, h3, h4⟩ := parse_block o c wsA wsB e ho hc hok hwA hwB hnum
  exact ⟨r, t, h1, h2, h3, by rw [← C02_toRG_eq_treeToRG]; exact h4⟩

/-- **`v [ body ]`** (a value, optional trivia, a block): accepted, the root is the value node (token 0), its right child is
    the SideEffect node (node 1) without left child, and the subtree under that is the reference tree of the body -/
theorem C02_parse_block_body_after_value (v o c : PToken) (ws wsA wsB body : List PToken) (hv : isAtom10 v = true)
    (ho : o.type = .startSideEffect) (hc : c.type = .endSideEffect) {L C : Bool} (hbody : fragL L C body = true)
    (hws : ∀ w ∈ ws, isTriviaTok w = true) (hwA : ∀ w ∈ wsA, isTriviaTok w = true)
    (hwB : ∀ w ∈ wsB, isTriviaTok w = true)
    (hnum : NumberedFrom 0 (v :: (ws ++ (o :: (wsA ++ (body ++ (wsB ++ [c]))))))) :
    ∃ r t, parse (v :: (ws ++ (o :: (wsA ++ (body ++ (wsB ++ [c])))))) = .ok r ∧
      toTree r = some (.node .nil 0 v.col (.node .nil 1 o.col t)) ∧ dfOf r.nodes 1 = .sideEffect ∧
      refLoop Table.gen Frame.top [] (1 + ws.length + 1 + wsA.length) body = .ok (treeToRG r t) := by
  obtain ⟨e, hok, rfl⟩ := fragL_sound hbody
  obtain ⟨r, t, h1, h2, h3, h4⟩ := parse_value_block v o c ws wsA wsB e hv ho hc hok hws hwA hwB hnum
  exact ⟨r, t, h1, h2, h3, by rw [← C02_toRG_eq_treeToRG]; exact h4⟩

/-- the same against `refParse` of the body: the subtree under the SideEffect node is the reference tree of the body with
    all positions shifted by the offset of the body in the program (the `shift` of the block-body check) -/
theorem C02_parse_block_body_refParse (o c : PToken) (wsA wsB body : List PToken) (ho : o.type = .startSideEffect)
    (hc : c.type = .endSideEffect) {L C : Bool} (hbody : fragL L C body = true) (hwA : ∀ w ∈ wsA, isTriviaTok w = true)
    (hwB : ∀ w ∈ wsB, isTriviaTok w = true) (hnum : NumberedFrom 0 (o :: (wsA ++ (body ++ (wsB ++ [c]))))) :
    ∃ r t rt, parse (o :: (wsA ++ (body ++ (wsB ++ [c])))) = .ok r ∧ toTree r = some (.node .nil 0 o.col t) ∧
      dfOf r.nodes 0 = .sideEffect ∧ refParse Table.gen body = .ok rt ∧ treeToRG r t = rt.shift (1 + wsA.length) := by
  obtain ⟨r, t, h1, h2, h3, h4⟩ := C02_parse_block_body o c wsA wsB body ho hc hbody hwA hwB hnum
  obtain ⟨e, hok, rfl⟩ := fragL_sound hbody
  rw [refLoop_top_shift, ← refParse_ex e hok] at h4
  cases hr : refParse Table.gen e.toks with
  | ok rt =>
    rw [hr] at h4
    simp only [Outcome.mapT, Outcome.ok.injEq] at h4
    exact ⟨r, t, rt, h1, h2, h3, rfl, h4.symm⟩
  | err _ => rw [hr] at h4; cases h4
  | panic _ => rw [hr] at h4; cases h4
  | fuelOut => rw [hr] at h4; cases h4

theorem C02_parse_block_body_after_value_refParse (v o c : PToken) (ws wsA wsB body : List PToken)
    (hv : isAtom10 v = true) (ho : o.type = .startSideEffect) (hc : c.type = .endSideEffect) {L C : Bool}
    (hbody : fragL L C body = true) (hws : ∀ w ∈ ws, isTriviaTok w = true) (hwA : ∀ w ∈ wsA, isTriviaTok w = true)
    (hwB : ∀ w ∈ wsB, isTriviaTok w = true)
    (hnum : NumberedFrom 0 (v :: (ws ++ (o :: (wsA ++ (body ++ (wsB ++ [c]))))))) :
    ∃ r t rt, parse (v :: (ws ++ (o :: (wsA ++ (body ++ (wsB ++ [c])))))) = .ok r ∧
      toTree r = some (.node .nil 0 v.col (.node .nil 1 o.col t)) ∧ dfOf r.nodes 1 = .sideEffect ∧
      refParse Table.gen body = .ok rt ∧ treeToRG r t = rt.shift (1 + ws.length + 1 + wsA.length) := by
  obtain ⟨r, t, h1, h2, h3, h4⟩ := C02_parse_block_body_after_value v o c ws wsA wsB body hv ho hc hbody hws hwA hwB hnum
  obtain ⟨e, hok, rfl⟩ := fragL_sound hbody
  rw [refLoop_top_shift, ← refParse_ex e hok] at h4
  cases hr : refParse Table.gen e.toks with
  | ok rt =>
    rw [hr] at h4
    simp only [Outcome.mapT, Outcome.ok.injEq] at h4
    exact ⟨r, t, rt, h1, h2, h3, rfl, h4.symm⟩
  | err _ => rw [hr] at h4; cases h4
  | panic _ => rw [hr] at h4; cases h4
  | fuelOut => rw [hr] at h4; cases h4

/-- `[ a + (b) * 2 ]` and `7 [ a + (b) * 2 ]` (the two shapes the block-body check wraps every expression in) -/
def exBody : List PToken :=
  [tk .identifier "a" 1, tk .whitespace " " 2, tk .plusSign "+" 3, tk .whitespace " " 4, tk .startGroup "(" 5,
   tk .identifier "b" 6, tk .endGroup ")" 7, tk .multiplicationSign "*" 8, tk .number "2" 9]
def exBlock : List PToken := tk .startSideEffect "[" 0 :: ([] ++ (exBody ++ ([] ++ [tk .endSideEffect "]" 10])))
theorem exBody_in_fragment : frag5 exBody = true := by decide
theorem exBlock_numbered : NumberedFrom 0 exBlock := by simp [exBlock, exBody, NumberedFrom, tk]
theorem exBlock_accepted : (parse exBlock).isOk = true := by decide
theorem exBlock_body_tree : refLoop Table.gen Frame.top [] 1 exBody =
    .ok (.node (.node .nil .identifier 1 .nil) .addition 3
      (.node (.group .group 5 (.node .nil .identifier 6 .nil)) .multiplicationSign 8 (.node .nil .number 9 .nil))) := by
  rfl

/-! ### stage 6a: implicit space lists

Fragment `Spec.frag6` (decidable) = frag5 plus
  expr ::= expr trivia+ operand        (the trivia contains at least one Whitespace token; expr ends with an operand)
at every nesting depth.  Whitespace after a value or a closed bracket sets `check_for_list` (`step_triviaU_ready`); the first
token of the next operand — value, prefix operator or opening bracket, the three places where parser.rs repeats its
"List flag is set, creating list node before current node" block — inserts a `List` node (priority 220, token = the token
just before) through `parse_token` exactly like a binary operator and is then processed as if that operator had just been
read (`step_list_value`, `step_list_prefix`, `step_list_open`: the list-mode step = the ordinary step from `listState`).
The reference parser does the same in `beforeOperand` (`ref_list_head`).  Proofs: Lemmas/ParserB15 .. ParserB18. -/

/-- **stage 6a, unconditional**: groups, nested expressions and implicit space lists -/
theorem C02_parse_correct_fragment_lists (toks : List PToken) (hf : frag6 toks = true) (hnum : NumberedFrom 0 toks) :
    ∃ r t, parse toks = .ok r ∧ toTree r = some t ∧ refParse Table.gen toks = .ok (treeToRG r t) := by
  obtain ⟨r, t, h1, h2, h3⟩ := parse_frag6 toks hf hnum
  exact ⟨r, t, h1, h2, by rw [← C02_toRG_eq_treeToRG]; exact h3⟩

theorem C02_parse_fragment_lists_precOK_inorder (toks : List PToken) (hf : frag6 toks = true)
    (hnum : NumberedFrom 0 toks) :
    ∃ r t, parse toks = .ok r ∧ toTree r = some t ∧ ProperTree r ∧ PrecOK Table.gen Table.gen.rtl (treeToRG r t) ∧
      (treeToRG r t).inorderSig = significant toks := by
  obtain ⟨r, t, h0, h1, h2⟩ := C02_parse_correct_fragment_lists toks hf hnum
  exact ⟨r, t, h0, h1, ⟨t, (toTree_some_iff r t).mp h1⟩, Garnish.Props.C02.C02_refParse_precOK_gen toks _ h2,
    refParse_inorder toks _ h2⟩

/-- `f (x + 1) --y z = a b * 2`: list items that start with an opening bracket, a prefix operator and a value; the list
    (priority 220) binds looser than `*` (90) and tighter than nothing here but `=` (210, right-to-left): the tie-free
    mix List 220 / Pair 210 / MultiplicationSign 90 / Addition 100 -/
def ex6 : List PToken :=
  [tk .identifier "f" 0, tk .whitespace " " 1, tk .startGroup "(" 2, tk .identifier "x" 3, tk .whitespace " " 4,
   tk .plusSign "+" 5, tk .whitespace " " 6, tk .number "1" 7, tk .endGroup ")" 8, tk .whitespace " " 9,
   tk .opposite "--" 10, tk .identifier "y" 11, tk .annotation "@n" 12, tk .whitespace " " 13, tk .identifier "z" 14,
   tk .whitespace " " 15, tk .pair "=" 16, tk .whitespace " " 17, tk .identifier "a" 18, tk .whitespace " " 19,
   tk .identifier "b" 20, tk .whitespace " " 21, tk .multiplicationSign "*" 22, tk .whitespace " " 23, tk .number "2" 24]

theorem ex6_in_fragment : frag6 ex6 = true ∧ frag5 ex6 = false := by decide
theorem ex6_numbered : NumberedFrom 0 ex6 := by simp [ex6, NumberedFrom, tk]
theorem ex6_accepted : (parse ex6).isOk = true := by decide
theorem ex5_in_frag6 : frag6 ex5 = true := by decide

/-- `a b * 2`: the list is looser than `*`: `a (b * 2)`; the List node carries the position of the whitespace token -/
def exList : List PToken :=
  [tk .identifier "a" 0, tk .whitespace " " 1, tk .identifier "b" 2, tk .multiplicationSign "*" 3, tk .number "2" 4]
theorem exList_in_fragment : frag6 exList = true := by decide
theorem exList_tree : refParse Table.gen exList =
    .ok (.node (.node .nil .identifier 0 .nil) .list 1
      (.node (.node .nil .identifier 2 .nil) .multiplicationSign 3 (.node .nil .number 4 .nil))) := by
  rfl

/-! ### stage 6b: `,` and infix identifiers between two operands

Fragment `Spec.frag7` (decidable) = frag6 plus the tokens of class OptionalBinaryLeftToRight (`,` → CommaList, priority 900;
infix identifiers → InfixApply, priority 152) in binary-operator position with BOTH operands present.  The parser handles
them in the same arm as left-to-right binary operators; the reference parser remembers `optOp` instead of `op`
(`lastAfter`), which makes no difference when an operand follows.  A missing operand (leading / trailing comma, the
`is_optional` reset in the EndGrouping arm) is outside this fragment. -/

/-- **stage 6b, unconditional** -/
theorem C02_parse_correct_fragment_commas (toks : List PToken) (hf : frag7 toks = true) (hnum : NumberedFrom 0 toks) :
    ∃ r t, parse toks = .ok r ∧ toTree r = some t ∧ refParse Table.gen toks = .ok (treeToRG r t) := by
  obtain ⟨r, t, h1, h2, h3⟩ := parse_frag7 toks hf hnum
  exact ⟨r, t, h1, h2, by rw [← C02_toRG_eq_treeToRG]; exact h3⟩

theorem C02_parse_fragment_commas_precOK_inorder (toks : List PToken) (hf : frag7 toks = true)
    (hnum : NumberedFrom 0 toks) :
    ∃ r t, parse toks = .ok r ∧ toTree r = some t ∧ ProperTree r ∧ PrecOK Table.gen Table.gen.rtl (treeToRG r t) ∧
      (treeToRG r t).inorderSig = significant toks := by
  obtain ⟨r, t, h0, h1, h2⟩ := C02_parse_correct_fragment_commas toks hf hnum
  exact ⟨r, t, h0, h1, ⟨t, (toTree_some_iff r t).mp h1⟩, Garnish.Props.C02.C02_refParse_precOK_gen toks _ h2,
    refParse_inorder toks _ h2⟩

/-- `(a b, c + 1, --d) `f` {x, y} == z`: commas (900) inside brackets with a space list (220), `+` (100) and a prefix
    operator as items, an infix identifier (152) between two brackets, and `==` (400) -/
def ex7 : List PToken :=
  [tk .startGroup "(" 0, tk .identifier "a" 1, tk .whitespace " " 2, tk .identifier "b" 3, tk .comma "," 4,
   tk .whitespace " " 5, tk .identifier "c" 6, tk .whitespace " " 7, tk .plusSign "+" 8, tk .whitespace " " 9,
   tk .number "1" 10, tk .comma "," 11, tk .whitespace " " 12, tk .opposite "--" 13, tk .identifier "d" 14,
   tk .endGroup ")" 15, tk .whitespace " " 16, tk .infixIdentifier "`f`" 17, tk .whitespace " " 18,
   tk .startExpression "{" 19, tk .identifier "x" 20, tk .comma "," 21, tk .whitespace " " 22, tk .identifier "y" 23,
   tk .endExpression "}" 24, tk .whitespace " " 25, tk .equality "==" 26, tk .whitespace " " 27, tk .identifier "z" 28]

theorem ex7_in_fragment : frag7 ex7 = true ∧ frag6 ex7 = false := by decide
theorem ex7_numbered : NumberedFrom 0 ex7 := by simp [ex7, NumberedFrom, tk]
theorem ex7_accepted : (parse ex7).isOk = true := by decide
theorem ex6_in_frag7 : frag7 ex6 = true ∧ frag7 ex5 = true := by decide

end Garnish.Props.C02Parse
