/-
C02 / C04 / C18 for the statement-level model of the real parser (`Garnish.Model.Parser.parse`), on an operator fragment,
for ALL token lists of the fragment (no length bound).

Fragment (decidable recogniser `Spec.frag4`):   value (trivia* binop trivia* value)*
  value  = a token of class Value / Identifier whose definition has priority 10 (numbers, identifiers, symbols, unit, `$`,
           char / byte lists, true / false, ...; not `;;`, not Unknown)
  binop  = any BinaryLeftToRight / BinaryRightToLeft token: all binary operators of every priority, the conditionals,
           apply forms, access `.`, ranges, ..., and the right-to-left pair `=`
  trivia = Whitespace, Annotation, LineAnnotation tokens, any number of them, between any two tokens
`Spec.frag1` is the sub-fragment without trivia.

Proved (proofs in Garnish/Lemmas/ParserTree, ParserSim, ParserSteps, ParserTrivia, ParserFrag .. ParserFrag5):
  whenever the model of `parse` accepts such a list, its node array is a proper tree (`toTree r = some t`) and this tree
  IS the tree the reference parser returns — hence it satisfies the precedence condition of the table, its in-order walk
  is exactly the significant tokens in source order, and (uniqueness) it is the only such tree;
  and the result of `parse` does not depend on the trivia at all.
Token positions: the theorems assume that token `i` of the list carries `i` in its `col` field (`NumberedFrom 0 toks`,
what the harness' `!tokidx` mode and `numbered` do), because the tree records the positions of its tokens.
Acceptance (`parse` returns `Ok` on every list of the fragment) is `C02_parse_accepts_fragment`; `C02_modelParse_binary`
is the unconditional form.  Stage 2 (prefix operators in operand position, fragment `Spec.frag2`) is
`C02_parse_correct_fragment_prefix`, stage 3 (suffix operators, fragment `Spec.frag3`) is
`C02_parse_correct_fragment_suffix`; both unconditional as well.  Stage 5 (groups `( .. )` and nested expressions
`{ .. }` as operands, to any depth, fragment `Spec.frag5`) is `C02_parse_correct_fragment_groups`; side-effect blocks
`[ body ]` and `v [ body ]` with a body of that fragment are `C02_parse_block_body` / `C02_parse_block_body_after_value`
(the subtree under the SideEffect node is the reference tree of the body).  Stage 6a (implicit space lists `a b`,
`f (x) y`, `a -- b`, fragment `Spec.frag6`) is `C02_parse_correct_fragment_lists`; stage 6b (`,` and infix identifiers
between two operands, fragment `Spec.frag7`) is `C02_parse_correct_fragment_commas`; stage 7 (separators, fragment
`Spec.frag8`) is `C02_parse_correct_fragment_separators`; stage 8 (commas / infix identifiers with a missing operand,
`Spec.frag9`) is `C02_parse_correct_fragment_optional`; `C04_parse_proper_refgrammar` / `C04_parse_proper_refgrammar9`
are the C04 parser half on the final fragment.  Side-effect blocks as the right operand of an operator:
`C02_parse_block_as_operand` (`e op [ body ]`) and `C02_parse_block_then_value` (`e op [ body ] v`, the `last_left` jump:
the block ends up as the LEFT child of `v`).
-/
import Garnish.Lemmas.ParserFrag5
import Garnish.Lemmas.ParserAccept2
import Garnish.Lemmas.ParserPrefix5
import Garnish.Lemmas.ParserSuffix5
import Garnish.Lemmas.ParserB14
import Garnish.Lemmas.RefParseShift
import Garnish.Lemmas.ParserB28
import Garnish.Lemmas.ParserB29
import Garnish.Lemmas.ParserB30
import Garnish.Lemmas.RefParseInorder
import Garnish.Lemmas.RefParseUnique
import Garnish.Props.C02
namespace Garnish.Props.C02Parse
open Garnish Garnish.Gen Garnish.Model.Parser Garnish.Spec

/-- the reference-tree image used in the statements is `Props.C02.treeToR` -/
theorem C02_toRd_eq_treeToR (r : ParseResult) : ∀ t : Tree, toRd (dfOf r.nodes) t = Garnish.Props.C02.treeToR r t
  | .nil => rfl
  | .node l i k rt => by
    simp only [toRd, Garnish.Props.C02.treeToR, C02_toRd_eq_treeToR r l, C02_toRd_eq_treeToR r rt]
    rfl

/-- **stage 1** — `value (binop value)*`: the model of `parse` computes the reference tree -/
theorem C02_parse_correct_frag1 (toks : List PToken) (hf : frag1 toks = true) (hnum : NumberedFrom 0 toks)
    (r : ParseResult) (h : parse toks = .ok r) :
    ∃ t, toTree r = some t ∧ refParse Table.gen toks = .ok (Garnish.Props.C02.treeToR r t) := by
  obtain ⟨t, h1, h2⟩ := parse_frag1 toks hf hnum r h
  exact ⟨t, h1, by rw [← C02_toRd_eq_treeToR]; exact h2⟩

/-- **stage 1 + 4** — `value (trivia* binop trivia* value)*`: the model of `parse` computes the reference tree -/
theorem C02_parse_correct_fragment (toks : List PToken) (hf : frag4 toks = true) (hnum : NumberedFrom 0 toks)
    (r : ParseResult) (h : parse toks = .ok r) :
    ∃ t, toTree r = some t ∧ refParse Table.gen toks = .ok (Garnish.Props.C02.treeToR r t) := by
  obtain ⟨t, h1, h2⟩ := parse_frag4 toks hf hnum r h
  exact ⟨t, h1, by rw [← C02_toRd_eq_treeToR]; exact h2⟩

/-- the same with the committed language table -/
theorem C02_parse_correct_fragment_spec (toks : List PToken) (hf : frag4 toks = true) (hnum : NumberedFrom 0 toks)
    (r : ParseResult) (h : parse toks = .ok r) :
    ∃ t, toTree r = some t ∧ refParse Table.spec toks = .ok (Garnish.Props.C02.treeToR r t) := by
  rw [← Garnish.Props.C02.C02_bridge_table]; exact C02_parse_correct_fragment toks hf hnum r h

/-- consequences in the declarative vocabulary: proper tree, precedence condition, in-order = significant tokens -/
theorem C02_parse_fragment_precOK_inorder (toks : List PToken) (hf : frag4 toks = true) (hnum : NumberedFrom 0 toks)
    (r : ParseResult) (h : parse toks = .ok r) :
    ∃ t, toTree r = some t ∧ ProperTree r ∧ PrecOK Table.gen Table.gen.rtl (Garnish.Props.C02.treeToR r t) ∧
      (Garnish.Props.C02.treeToR r t).inorderSig = significant toks := by
  obtain ⟨t, h1, h2⟩ := C02_parse_correct_fragment toks hf hnum r h
  refine ⟨t, h1, ⟨t, (toTree_some_iff r t).mp h1⟩, ?_, ?_⟩
  · exact Garnish.Props.C02.C02_refParse_precOK_gen toks _ h2
  · exact refParse_inorder toks _ h2

/-- C04 on the fragment: an accepted list yields a proper tree -/
theorem C04_parse_proper_fragment (toks : List PToken) (hf : frag4 toks = true) (hnum : NumberedFrom 0 toks)
    (r : ParseResult) (h : parse toks = .ok r) : properTree r = true := by
  obtain ⟨t, h1, _⟩ := parse_frag4 toks hf hnum r h
  simp [properTree, h1]

/-- **C18 on the fragment**: Whitespace / Annotation / LineAnnotation tokens between the tokens do not change the result
    of `parse` in any way (same `Ok` with the same root and node array, or the same `Err`) -/
theorem C18_parse_whitespace_insensitive_fragment (toks : List PToken) (hf : frag4 toks = true) :
    parse toks = parse (stripTrivia toks) :=
  parse_frag4_strip toks hf

/-- two lists of the fragment with the same non-trivia tokens parse to the same result -/
theorem C18_parse_same_tokens_same_result (toks toks' : List PToken) (hf : frag4 toks = true) (hf' : frag4 toks' = true)
    (hs : stripTrivia toks = stripTrivia toks') : parse toks = parse toks' := by
  rw [parse_frag4_strip toks hf, parse_frag4_strip toks' hf', hs]

/-- **acceptance**: the model of `parse` returns `Ok` for EVERY token list of the fragment -/
theorem C02_parse_accepts_fragment (toks : List PToken) (hf : frag4 toks = true) : ∃ r, parse toks = .ok r :=
  parse_frag4_ok toks hf

/-- **unconditional form** (what `Props.C02.C02_modelParse_binary_partial` asked for, on the larger fragment with trivia):
    for every token list `value (trivia* binop trivia* value)*` whose tokens carry their positions, the model of `parse`
    accepts, the result is a proper tree, and that tree is the reference tree -/
theorem C02_modelParse_binary (toks : List PToken) (hf : frag4 toks = true) (hnum : NumberedFrom 0 toks) :
    ∃ r t, parse toks = .ok r ∧ toTree r = some t ∧ refParse Table.gen toks = .ok (Garnish.Props.C02.treeToR r t) := by
  obtain ⟨r, hr⟩ := parse_frag4_ok toks hf
  obtain ⟨t, h1, h2⟩ := C02_parse_correct_fragment toks hf hnum r hr
  exact ⟨r, t, hr, h1, h2⟩

/-! ### non-vacuity: concrete lists of the fragment that the model accepts -/

def tk (t : TokenType) (s : String) (k : Nat) : PToken := { text := s.toList, type := t, row := 0, col := k }

/-- `a + 2 * 3 = b = 4 == 5` (five operators, four priorities, right-to-left `=`) -/
def ex1 : List PToken :=
  [tk .identifier "a" 0, tk .plusSign "+" 1, tk .number "2" 2, tk .multiplicationSign "*" 3, tk .number "3" 4,
   tk .pair "=" 5, tk .identifier "b" 6, tk .pair "=" 7, tk .number "4" 8, tk .equality "==" 9, tk .number "5" 10]

/-- `a  + 2*3 @x ** b .c  ?> 4` with whitespace / annotation tokens in all positions -/
def ex2 : List PToken :=
  [tk .identifier "a" 0, tk .whitespace "  " 1, tk .plusSign "+" 2, tk .whitespace " " 3, tk .number "2" 4,
   tk .multiplicationSign "*" 5, tk .number "3" 6, tk .whitespace " " 7, tk .annotation "@x" 8, tk .whitespace " " 9,
   tk .exponentialSign "**" 10, tk .whitespace " " 11, tk .identifier "b" 12, tk .whitespace " " 13, tk .period "." 14,
   tk .identifier "c" 15, tk .whitespace "  " 16, tk .jumpIfTrue "?>" 17, tk .whitespace " " 18, tk .number "4" 19]

theorem ex1_in_fragment : frag1 ex1 = true ∧ frag4 ex1 = true := by decide
theorem ex1_numbered : NumberedFrom 0 ex1 := by simp [ex1, NumberedFrom, tk]
theorem ex1_accepted : (parse ex1).isOk = true := by decide
theorem ex2_in_fragment : frag4 ex2 = true := by decide
theorem ex2_numbered : NumberedFrom 0 ex2 := by simp [ex2, NumberedFrom, tk]
theorem ex2_accepted : (parse ex2).isOk = true := by decide

/-! ### stage 2: prefix operators

Fragment `Spec.frag2` (decidable):   (prefix* value) (trivia* binop trivia* prefix* value)*
with prefix = any UnaryPrefix token (`--`, `++`, `!`, `!!`, `??`, `#`, `_.`, `^~`, prefix identifiers). -/

/-- **stage 2, unconditional**: for every token list of the fragment whose tokens carry their positions, the model of `parse`
    accepts, its node array is a proper tree, and that tree is the reference tree.  In particular the equal-priority tie
    between the prefix operators Not / Tis (priority 400) and `==` `!=` `#=` (priority 400, left-to-right) is resolved as
    the table says: `!! a == b` is `(!! a) == b`, see `ex3`. -/
theorem C02_parse_correct_fragment_prefix (toks : List PToken) (hf : frag2 toks = true) (hnum : NumberedFrom 0 toks) :
    ∃ r t, parse toks = .ok r ∧ toTree r = some t ∧ refParse Table.gen toks = .ok (Garnish.Props.C02.treeToR r t) := by
  obtain ⟨r, t, h1, h2, h3⟩ := parse_frag2 toks hf hnum
  exact ⟨r, t, h1, h2, by rw [← C02_toRd_eq_treeToR]; exact h3⟩

theorem C02_parse_accepts_fragment_prefix (toks : List PToken) (hf : frag2 toks = true) (hnum : NumberedFrom 0 toks) :
    ∃ r, parse toks = .ok r := by
  obtain ⟨r, _, h1, _⟩ := parse_frag2 toks hf hnum
  exact ⟨r, h1⟩

theorem C02_parse_fragment_prefix_precOK_inorder (toks : List PToken) (hf : frag2 toks = true) (hnum : NumberedFrom 0 toks) :
    ∃ r t, parse toks = .ok r ∧ toTree r = some t ∧ ProperTree r ∧
      PrecOK Table.gen Table.gen.rtl (Garnish.Props.C02.treeToR r t) ∧
      (Garnish.Props.C02.treeToR r t).inorderSig = significant toks := by
  obtain ⟨r, t, h0, h1, h2⟩ := C02_parse_correct_fragment_prefix toks hf hnum
  exact ⟨r, t, h0, h1, ⟨t, (toTree_some_iff r t).mp h1⟩, Garnish.Props.C02.C02_refParse_precOK_gen toks _ h2,
    refParse_inorder toks _ h2⟩

/-- `!!a == b + --c * 2 ** ?? d`: four binary operators of four priorities, three prefix operators, and the tie
    Not (400) against Equality (400) -/
def ex3 : List PToken :=
  [tk .not "!!" 0, tk .identifier "a" 1, tk .whitespace " " 2, tk .equality "==" 3, tk .whitespace " " 4,
   tk .identifier "b" 5, tk .whitespace " " 6, tk .plusSign "+" 7, tk .whitespace " " 8, tk .opposite "--" 9,
   tk .identifier "c" 10, tk .whitespace " " 11, tk .multiplicationSign "*" 12, tk .whitespace " " 13, tk .number "2" 14,
   tk .whitespace " " 15, tk .exponentialSign "**" 16, tk .whitespace " " 17, tk .tis "??" 18, tk .identifier "d" 19]

theorem ex3_in_fragment : frag2 ex3 = true := by decide
theorem ex3_numbered : NumberedFrom 0 ex3 := by simp [ex3, NumberedFrom, tk]
theorem ex3_accepted : (parse ex3).isOk = true := by decide

/-- the tie `!! a == b`: the reference tree (hence, by `C02_parse_correct_fragment_prefix`, the tree of the model) is
    `(!! a) == b` -/
def exTie : List PToken := [tk .not "!!" 0, tk .identifier "a" 1, tk .equality "==" 2, tk .identifier "b" 3]
theorem exTie_in_fragment : frag2 exTie = true := by decide
theorem exTie_tree : refParse Table.gen exTie =
    .ok (.node (.node .nil .not 0 (.node .nil .identifier 1 .nil)) .equality 2 (.node .nil .identifier 3 .nil)) := by
  rfl

/-! ### stage 3: suffix operators

Fragment `Spec.frag3` (decidable):   (prefix* value suffix*) (trivia* binop trivia* prefix* value suffix*)*
with suffix = any UnarySuffix token (`~~`, `._`, `.|`, suffix identifiers).  The node at the bottom of the right spine can
now be a suffix operator, which may stop the next operator (`a ~~ . b`: Access 30 < EmptyApply 40): then `parse_token`
takes its `parent == true_left` branch and the new operator gets no left operand — the reference parser does the same. -/

/-- **stage 3, unconditional** -/
theorem C02_parse_correct_fragment_suffix (toks : List PToken) (hf : frag3 toks = true) (hnum : NumberedFrom 0 toks) :
    ∃ r t, parse toks = .ok r ∧ toTree r = some t ∧ refParse Table.gen toks = .ok (Garnish.Props.C02.treeToR r t) := by
  obtain ⟨r, t, h1, h2, h3⟩ := parse_frag3 toks hf hnum
  exact ⟨r, t, h1, h2, by rw [← C02_toRd_eq_treeToR]; exact h3⟩

theorem C02_parse_fragment_suffix_precOK_inorder (toks : List PToken) (hf : frag3 toks = true) (hnum : NumberedFrom 0 toks) :
    ∃ r t, parse toks = .ok r ∧ toTree r = some t ∧ ProperTree r ∧
      PrecOK Table.gen Table.gen.rtl (Garnish.Props.C02.treeToR r t) ∧
      (Garnish.Props.C02.treeToR r t).inorderSig = significant toks := by
  obtain ⟨r, t, h0, h1, h2⟩ := C02_parse_correct_fragment_suffix toks hf hnum
  exact ⟨r, t, h0, h1, ⟨t, (toTree_some_iff r t).mp h1⟩, Garnish.Props.C02.C02_refParse_precOK_gen toks _ h2,
    refParse_inorder toks _ h2⟩

/-- `a~~ + b._ * --c.| == !!d~~ . e`: four binary operators of four priorities, two prefix and four suffix operators, the
    tie Not (400) / Equality (400), and a suffix node that stops the next operator (`~~` 40 against `.` 30) -/
def ex4 : List PToken :=
  [tk .identifier "a" 0, tk .emptyApply "~~" 1, tk .whitespace " " 2, tk .plusSign "+" 3, tk .whitespace " " 4,
   tk .identifier "b" 5, tk .rightInternal "._" 6, tk .whitespace " " 7, tk .multiplicationSign "*" 8, tk .whitespace " " 9,
   tk .opposite "--" 10, tk .identifier "c" 11, tk .lengthInternal ".|" 12, tk .whitespace " " 13, tk .equality "==" 14,
   tk .whitespace " " 15, tk .not "!!" 16, tk .identifier "d" 17, tk .emptyApply "~~" 18, tk .whitespace " " 19,
   tk .period "." 20, tk .whitespace " " 21, tk .identifier "e" 22]

theorem ex4_in_fragment : frag3 ex4 = true := by decide
theorem ex4_numbered : NumberedFrom 0 ex4 := by simp [ex4, NumberedFrom, tk]
theorem ex4_accepted : (parse ex4).isOk = true := by decide

/-! ### stage 5: groups and nested expressions

Fragment `Spec.frag5` (decidable; syntax trees `Spec.Ex`):
  operand ::= prefix* value | prefix* `(` trivia* expr trivia* `)` | prefix* `{` trivia* expr trivia* `}`
  expr    ::= operand | expr trivia* binop trivia* operand | expr suffix
to any nesting depth.  The reference parser returns a closed bracket as an opaque `group` node, so the implementation-side
tree is read the same way (`treeToRG`: a node whose definition is Group / NestedExpression becomes `group d k content`).
Proofs: Garnish/Lemmas/ParserB1 .. ParserB12 — one partial tree per open bracket (`NInv` / `UInv`: the frame of the
innermost open bracket; the outer frames are only known to be untouched), the parent walk stopping at the open bracket
(`walkLoop_chain_grp`, `is_our_group`), the walk starting at a closed bracket (`walk_insertC`), the opening bracket
(`step_openB`: pushed like a prefix operator with a dangling `right`, becomes `next_parent` and the current group),
the closing bracket (`step_closeU`: group stack popped, list flag restored, `last_left` := the bracket node), and the
induction over the syntax (`ex_ok`). -/

/-- implementation-side tree as a reference tree, closed brackets as `group` nodes -/
def treeToRG (r : ParseResult) : Tree → RTree
  | .nil => .nil
  | .node l i k rt =>
    if isBracketDef ((r.nodes[i]?).map (·.definition) |>.getD .drop) then
      .group ((r.nodes[i]?).map (·.definition) |>.getD .drop) k (treeToRG r rt)
    else .node (treeToRG r l) ((r.nodes[i]?).map (·.definition) |>.getD .drop) k (treeToRG r rt)

theorem C02_toRG_eq_treeToRG (r : ParseResult) : ∀ t : Tree, toRG (dfOf r.nodes) t = treeToRG r t
  | .nil => rfl
  | .node l i k rt => by
    simp only [toRG, treeToRG, C02_toRG_eq_treeToRG r l, C02_toRG_eq_treeToRG r rt]
    rfl

/-- without brackets `treeToRG` is `treeToR` -/
theorem C02_treeToRG_eq_treeToR (r : ParseResult) (t : Tree)
    (h : ∀ i ∈ t.inorder, isBracketDef (dfOf r.nodes i) = false) : treeToRG r t = Garnish.Props.C02.treeToR r t := by
  rw [← C02_toRG_eq_treeToRG, ← C02_toRd_eq_treeToR, toRG_eq_toRd _ _ h]

/-- **stage 5, unconditional**: for every token list of the fragment with groups and nested expressions whose tokens
    carry their positions, the model of `parse` accepts, its node array is a proper tree, and that tree is the reference
    tree -/
theorem C02_parse_correct_fragment_groups (toks : List PToken) (hf : frag5 toks = true) (hnum : NumberedFrom 0 toks) :
    ∃ r t, parse toks = .ok r ∧ toTree r = some t ∧ refParse Table.gen toks = .ok (treeToRG r t) := by
  obtain ⟨r, t, h1, h2, h3⟩ := parse_fragF toks hf hnum
  exact ⟨r, t, h1, h2, by rw [← C02_toRG_eq_treeToRG]; exact h3⟩

theorem C02_parse_fragment_groups_precOK_inorder (toks : List PToken) (hf : frag5 toks = true)
    (hnum : NumberedFrom 0 toks) :
    ∃ r t, parse toks = .ok r ∧ toTree r = some t ∧ ProperTree r ∧ PrecOK Table.gen Table.gen.rtl (treeToRG r t) ∧
      (treeToRG r t).inorderSig = significant toks := by
  obtain ⟨r, t, h0, h1, h2⟩ := C02_parse_correct_fragment_groups toks hf hnum
  exact ⟨r, t, h0, h1, ⟨t, (toTree_some_iff r t).mp h1⟩, Garnish.Props.C02.C02_refParse_precOK_gen toks _ h2,
    refParse_inorder toks _ h2⟩

/-- `( a + 2 ) * --{ b**(c-1)~~ } == !!(d) . e`: five binary operators of five priorities, two prefix operators in front of
    brackets, a suffix operator after a closed bracket, brackets nested three deep, trivia next to the brackets, and the
    tie Not (400) / Equality (400) with a bracket as the operand of `!!` -/
def ex5 : List PToken :=
  [tk .startGroup "(" 0, tk .identifier "a" 1, tk .whitespace " " 2, tk .plusSign "+" 3, tk .whitespace " " 4,
   tk .number "2" 5, tk .endGroup ")" 6, tk .whitespace " " 7, tk .multiplicationSign "*" 8, tk .whitespace " " 9,
   tk .opposite "--" 10, tk .startExpression "{" 11, tk .whitespace " " 12, tk .identifier "b" 13,
   tk .exponentialSign "**" 14, tk .startGroup "(" 15, tk .identifier "c" 16, tk .subtraction "-" 17, tk .number "1" 18,
   tk .endGroup ")" 19, tk .emptyApply "~~" 20, tk .whitespace " " 21, tk .endExpression "}" 22, tk .whitespace " " 23,
   tk .equality "==" 24, tk .whitespace " " 25, tk .not "!!" 26, tk .startGroup "(" 27, tk .identifier "d" 28,
   tk .endGroup ")" 29, tk .period "." 30, tk .identifier "e" 31]

theorem ex5_in_fragment : frag5 ex5 = true := by decide
theorem ex5_numbered : NumberedFrom 0 ex5 := by simp [ex5, NumberedFrom, tk]
theorem ex5_accepted : (parse ex5).isOk = true := by decide
/-- the earlier fragments are part of this one -/
theorem ex4_in_frag5 : frag5 ex4 = true ∧ frag5 ex3 = true ∧ frag5 ex2 = true ∧ frag5 ex1 = true := by decide

/-- the tie with a bracket: `!! ( a ) == b` is `(!! (a)) == b`, and a suffix operator takes the closed bracket as its
    operand: `( a ) ~~` -/
def exTieG : List PToken :=
  [tk .not "!!" 0, tk .startGroup "(" 1, tk .identifier "a" 2, tk .endGroup ")" 3, tk .equality "==" 4,
   tk .identifier "b" 5]
theorem exTieG_in_fragment : frag5 exTieG = true := by decide
theorem exTieG_tree : refParse Table.gen exTieG =
    .ok (.node (.node .nil .not 0 (.group .group 1 (.node .nil .identifier 2 .nil))) .equality 4
      (.node .nil .identifier 5 .nil)) := by
  rfl

/-! ### side-effect blocks

`[ body ]` and `v [ body ]` are outside of the reference grammar, but the body is an expression like any other: the subtree
the parser builds under the SideEffect node is the reference tree of the body.  The reference parser is run on the body
tokens alone, counting positions from where the body starts in the program (`refLoop Table.gen Frame.top [] k body`; for
`k = 0` this is `refParse` of the body) — this is what the block-body check of tools/props/c02.py compares per input.
`[` goes through `parse_token` with priority 5 (`step_sideOpen`); its `next_parent = Some(current_id)` is what makes the
first token of the body the child of the SideEffect node (`openB_stepSE`: `next_parent = last_left`); `]` restores the list
flag saved on the group stack (`side_body`: `check_for_list` after the block = before the block). -/

/-- **`[ body ]`** with a body of the fragment (`fragF F` for any feature set `F`: frag5 .. frag8): accepted, the root is the SideEffect node (token 0) without left child,
    and the subtree under it is the reference tree of the body -/
theorem C02_parse_block_body (o c : PToken) (wsA wsB body : List PToken) (ho : o.type = .startSideEffect)
    (hc : c.type = .endSideEffect) {F : Fl} (hbody : fragF F body = true) (hwA : ∀ w ∈ wsA, isTriviaTok w = true)
    (hwB : ∀ w ∈ wsB, isTriviaTok w = true) (hnum : NumberedFrom 0 (o :: (wsA ++ (body ++ (wsB ++ [c]))))) :
    ∃ r t, parse (o :: (wsA ++ (body ++ (wsB ++ [c])))) = .ok r ∧ toTree r = some (.node .nil 0 o.col t) ∧
      dfOf r.nodes 0 = .sideEffect ∧
      refLoop Table.gen Frame.top [] (1 + wsA.length) body = .ok (treeToRG r t) := by
  obtain ⟨e, hok, rfl⟩ := fragF_sound hbody
  obtain ⟨r, t, h1, h2, h3, h4⟩ := parse_block o c wsA wsB e ho hc hok hwA hwB hnum
  exact ⟨r, t, h1, h2, h3, by rw [← C02_toRG_eq_treeToRG]; exact h4⟩

/-- **`v [ body ]`** (a value, optional trivia, a block): accepted, the root is the value node (token 0), its right child is
    the SideEffect node (node 1) without left child, and the subtree under that is the reference tree of the body -/
theorem C02_parse_block_body_after_value (v o c : PToken) (ws wsA wsB body : List PToken) (hv : isAtom10 v = true)
    (ho : o.type = .startSideEffect) (hc : c.type = .endSideEffect) {F : Fl} (hbody : fragF F body = true)
    (hws : ∀ w ∈ ws, isTriviaTok w = true) (hwA : ∀ w ∈ wsA, isTriviaTok w = true)
    (hwB : ∀ w ∈ wsB, isTriviaTok w = true)
    (hnum : NumberedFrom 0 (v :: (ws ++ (o :: (wsA ++ (body ++ (wsB ++ [c]))))))) :
    ∃ r t, parse (v :: (ws ++ (o :: (wsA ++ (body ++ (wsB ++ [c])))))) = .ok r ∧
      toTree r = some (.node .nil 0 v.col (.node .nil 1 o.col t)) ∧ dfOf r.nodes 1 = .sideEffect ∧
      refLoop Table.gen Frame.top [] (1 + ws.length + 1 + wsA.length) body = .ok (treeToRG r t) := by
  obtain ⟨e, hok, rfl⟩ := fragF_sound hbody
  obtain ⟨r, t, h1, h2, h3, h4⟩ := parse_value_block v o c ws wsA wsB e hv ho hc hok hws hwA hwB hnum
  exact ⟨r, t, h1, h2, h3, by rw [← C02_toRG_eq_treeToRG]; exact h4⟩

/-- the same against `refParse` of the body: the subtree under the SideEffect node is the reference tree of the body with
    all positions shifted by the offset of the body in the program (the `shift` of the block-body check) -/
theorem C02_parse_block_body_refParse (o c : PToken) (wsA wsB body : List PToken) (ho : o.type = .startSideEffect)
    (hc : c.type = .endSideEffect) {F : Fl} (hbody : fragF F body = true) (hwA : ∀ w ∈ wsA, isTriviaTok w = true)
    (hwB : ∀ w ∈ wsB, isTriviaTok w = true) (hnum : NumberedFrom 0 (o :: (wsA ++ (body ++ (wsB ++ [c]))))) :
    ∃ r t rt, parse (o :: (wsA ++ (body ++ (wsB ++ [c])))) = .ok r ∧ toTree r = some (.node .nil 0 o.col t) ∧
      dfOf r.nodes 0 = .sideEffect ∧ refParse Table.gen body = .ok rt ∧ treeToRG r t = rt.shift (1 + wsA.length) := by
  obtain ⟨r, t, h1, h2, h3, h4⟩ := C02_parse_block_body o c wsA wsB body ho hc hbody hwA hwB hnum
  obtain ⟨e, hok, rfl⟩ := fragF_sound hbody
  rw [refLoop_top_shift, ← refParse_ex e hok] at h4
  cases hr : refParse Table.gen e.toks with
  | ok rt =>
    rw [hr] at h4
    simp only [Outcome.mapT, Outcome.ok.injEq] at h4
    exact ⟨r, t, rt, h1, h2, h3, rfl, h4.symm⟩
  | err _ => rw [hr] at h4; cases h4
  | panic _ => rw [hr] at h4; cases h4
  | fuelOut => rw [hr] at h4; cases h4

theorem C02_parse_block_body_after_value_refParse (v o c : PToken) (ws wsA wsB body : List PToken)
    (hv : isAtom10 v = true) (ho : o.type = .startSideEffect) (hc : c.type = .endSideEffect) {F : Fl}
    (hbody : fragF F body = true) (hws : ∀ w ∈ ws, isTriviaTok w = true) (hwA : ∀ w ∈ wsA, isTriviaTok w = true)
    (hwB : ∀ w ∈ wsB, isTriviaTok w = true)
    (hnum : NumberedFrom 0 (v :: (ws ++ (o :: (wsA ++ (body ++ (wsB ++ [c]))))))) :
    ∃ r t rt, parse (v :: (ws ++ (o :: (wsA ++ (body ++ (wsB ++ [c])))))) = .ok r ∧
      toTree r = some (.node .nil 0 v.col (.node .nil 1 o.col t)) ∧ dfOf r.nodes 1 = .sideEffect ∧
      refParse Table.gen body = .ok rt ∧ treeToRG r t = rt.shift (1 + ws.length + 1 + wsA.length) := by
  obtain ⟨r, t, h1, h2, h3, h4⟩ := C02_parse_block_body_after_value v o c ws wsA wsB body hv ho hc hbody hws hwA hwB hnum
  obtain ⟨e, hok, rfl⟩ := fragF_sound hbody
  rw [refLoop_top_shift, ← refParse_ex e hok] at h4
  cases hr : refParse Table.gen e.toks with
  | ok rt =>
    rw [hr] at h4
    simp only [Outcome.mapT, Outcome.ok.injEq] at h4
    exact ⟨r, t, rt, h1, h2, h3, rfl, h4.symm⟩
  | err _ => rw [hr] at h4; cases h4
  | panic _ => rw [hr] at h4; cases h4
  | fuelOut => rw [hr] at h4; cases h4

/-- `[ a + (b) * 2 ]` and `7 [ a + (b) * 2 ]` (the two shapes the block-body check wraps every expression in) -/
def exBody : List PToken :=
  [tk .identifier "a" 1, tk .whitespace " " 2, tk .plusSign "+" 3, tk .whitespace " " 4, tk .startGroup "(" 5,
   tk .identifier "b" 6, tk .endGroup ")" 7, tk .multiplicationSign "*" 8, tk .number "2" 9]
def exBlock : List PToken := tk .startSideEffect "[" 0 :: ([] ++ (exBody ++ ([] ++ [tk .endSideEffect "]" 10])))
theorem exBody_in_fragment : frag5 exBody = true := by decide
theorem exBlock_numbered : NumberedFrom 0 exBlock := by simp [exBlock, exBody, NumberedFrom, tk]
theorem exBlock_accepted : (parse exBlock).isOk = true := by decide
theorem exBlock_body_tree : refLoop Table.gen Frame.top [] 1 exBody =
    .ok (.node (.node .nil .identifier 1 .nil) .addition 3
      (.node (.group .group 5 (.node .nil .identifier 6 .nil)) .multiplicationSign 8 (.node .nil .number 9 .nil))) := by
  rfl

/-! ### stage 6a: implicit space lists

Fragment `Spec.frag6` (decidable) = frag5 plus
  expr ::= expr trivia+ operand        (the trivia contains at least one Whitespace token; expr ends with an operand)
at every nesting depth.  Whitespace after a value or a closed bracket sets `check_for_list` (`step_triviaU_ready`); the first
token of the next operand — value, prefix operator or opening bracket, the three places where parser.rs repeats its
"List flag is set, creating list node before current node" block — inserts a `List` node (priority 220, token = the token
just before) through `parse_token` exactly like a binary operator and is then processed as if that operator had just been
read (`step_list_value`, `step_list_prefix`, `step_list_open`: the list-mode step = the ordinary step from `listState`).
The reference parser does the same in `beforeOperand` (`ref_list_head`).  Proofs: Lemmas/ParserB15 .. ParserB18. -/

/-- **stage 6a, unconditional**: groups, nested expressions and implicit space lists -/
theorem C02_parse_correct_fragment_lists (toks : List PToken) (hf : frag6 toks = true) (hnum : NumberedFrom 0 toks) :
    ∃ r t, parse toks = .ok r ∧ toTree r = some t ∧ refParse Table.gen toks = .ok (treeToRG r t) := by
  obtain ⟨r, t, h1, h2, h3⟩ := parse_fragF toks hf hnum
  exact ⟨r, t, h1, h2, by rw [← C02_toRG_eq_treeToRG]; exact h3⟩

theorem C02_parse_fragment_lists_precOK_inorder (toks : List PToken) (hf : frag6 toks = true)
    (hnum : NumberedFrom 0 toks) :
    ∃ r t, parse toks = .ok r ∧ toTree r = some t ∧ ProperTree r ∧ PrecOK Table.gen Table.gen.rtl (treeToRG r t) ∧
      (treeToRG r t).inorderSig = significant toks := by
  obtain ⟨r, t, h0, h1, h2⟩ := C02_parse_correct_fragment_lists toks hf hnum
  exact ⟨r, t, h0, h1, ⟨t, (toTree_some_iff r t).mp h1⟩, Garnish.Props.C02.C02_refParse_precOK_gen toks _ h2,
    refParse_inorder toks _ h2⟩

/-- `f (x + 1) --y z = a b * 2`: list items that start with an opening bracket, a prefix operator and a value; the list
    (priority 220) binds looser than `*` (90) and tighter than nothing here but `=` (210, right-to-left): the tie-free
    mix List 220 / Pair 210 / MultiplicationSign 90 / Addition 100 -/
def ex6 : List PToken :=
  [tk .identifier "f" 0, tk .whitespace " " 1, tk .startGroup "(" 2, tk .identifier "x" 3, tk .whitespace " " 4,
   tk .plusSign "+" 5, tk .whitespace " " 6, tk .number "1" 7, tk .endGroup ")" 8, tk .whitespace " " 9,
   tk .opposite "--" 10, tk .identifier "y" 11, tk .annotation "@n" 12, tk .whitespace " " 13, tk .identifier "z" 14,
   tk .whitespace " " 15, tk .pair "=" 16, tk .whitespace " " 17, tk .identifier "a" 18, tk .whitespace " " 19,
   tk .identifier "b" 20, tk .whitespace " " 21, tk .multiplicationSign "*" 22, tk .whitespace " " 23, tk .number "2" 24]

theorem ex6_in_fragment : frag6 ex6 = true ∧ frag5 ex6 = false := by decide
theorem ex6_numbered : NumberedFrom 0 ex6 := by simp [ex6, NumberedFrom, tk]
theorem ex6_accepted : (parse ex6).isOk = true := by decide
theorem ex5_in_frag6 : frag6 ex5 = true := by decide

/-- `a b * 2`: the list is looser than `*`: `a (b * 2)`; the List node carries the position of the whitespace token -/
def exList : List PToken :=
  [tk .identifier "a" 0, tk .whitespace " " 1, tk .identifier "b" 2, tk .multiplicationSign "*" 3, tk .number "2" 4]
theorem exList_in_fragment : frag6 exList = true := by decide
theorem exList_tree : refParse Table.gen exList =
    .ok (.node (.node .nil .identifier 0 .nil) .list 1
      (.node (.node .nil .identifier 2 .nil) .multiplicationSign 3 (.node .nil .number 4 .nil))) := by
  rfl

/-! ### stage 6b: `,` and infix identifiers between two operands

Fragment `Spec.frag7` (decidable) = frag6 plus the tokens of class OptionalBinaryLeftToRight (`,` → CommaList, priority 900;
infix identifiers → InfixApply, priority 152) in binary-operator position with BOTH operands present.  The parser handles
them in the same arm as left-to-right binary operators; the reference parser remembers `optOp` instead of `op`
(`lastAfter`), which makes no difference when an operand follows.  A missing operand (leading / trailing comma, the
`is_optional` reset in the EndGrouping arm) is outside this fragment. -/

/-- **stage 6b, unconditional** -/
theorem C02_parse_correct_fragment_commas (toks : List PToken) (hf : frag7 toks = true) (hnum : NumberedFrom 0 toks) :
    ∃ r t, parse toks = .ok r ∧ toTree r = some t ∧ refParse Table.gen toks = .ok (treeToRG r t) := by
  obtain ⟨r, t, h1, h2, h3⟩ := parse_fragF toks hf hnum
  exact ⟨r, t, h1, h2, by rw [← C02_toRG_eq_treeToRG]; exact h3⟩

theorem C02_parse_fragment_commas_precOK_inorder (toks : List PToken) (hf : frag7 toks = true)
    (hnum : NumberedFrom 0 toks) :
    ∃ r t, parse toks = .ok r ∧ toTree r = some t ∧ ProperTree r ∧ PrecOK Table.gen Table.gen.rtl (treeToRG r t) ∧
      (treeToRG r t).inorderSig = significant toks := by
  obtain ⟨r, t, h0, h1, h2⟩ := C02_parse_correct_fragment_commas toks hf hnum
  exact ⟨r, t, h0, h1, ⟨t, (toTree_some_iff r t).mp h1⟩, Garnish.Props.C02.C02_refParse_precOK_gen toks _ h2,
    refParse_inorder toks _ h2⟩

/-- `(a b, c + 1, --d) `f` {x, y} == z`: commas (900) inside brackets with a space list (220), `+` (100) and a prefix
    operator as items, an infix identifier (152) between two brackets, and `==` (400) -/
def ex7 : List PToken :=
  [tk .startGroup "(" 0, tk .identifier "a" 1, tk .whitespace " " 2, tk .identifier "b" 3, tk .comma "," 4,
   tk .whitespace " " 5, tk .identifier "c" 6, tk .whitespace " " 7, tk .plusSign "+" 8, tk .whitespace " " 9,
   tk .number "1" 10, tk .comma "," 11, tk .whitespace " " 12, tk .opposite "--" 13, tk .identifier "d" 14,
   tk .endGroup ")" 15, tk .whitespace " " 16, tk .infixIdentifier "`f`" 17, tk .whitespace " " 18,
   tk .startExpression "{" 19, tk .identifier "x" 20, tk .comma "," 21, tk .whitespace " " 22, tk .identifier "y" 23,
   tk .endExpression "}" 24, tk .whitespace " " 25, tk .equality "==" 26, tk .whitespace " " 27, tk .identifier "z" 28]

theorem ex7_in_fragment : frag7 ex7 = true ∧ frag6 ex7 = false := by decide
theorem ex7_numbered : NumberedFrom 0 ex7 := by simp [ex7, NumberedFrom, tk]
theorem ex7_accepted : (parse ex7).isOk = true := by decide
theorem ex6_in_frag7 : frag7 ex6 = true ∧ frag7 ex5 = true := by decide

/-! ### stage 7: separators

Fragment `Spec.frag8` (decidable) = frag7 plus blank-line `Subexpression` tokens and `;`:
  * between two expressions at top level and inside `{ }`:  `expr trivia* separator (trivia | separator)* operand ..` — the
    first separator is a binary operator of priority 1000 / 990 (`step_sep_op`), further separators are dropped
    (`step_sep_skipB`: `last_left` is a separator node);
  * directly after `{`: dropped (`last_left` is the bracket that opened the frame), directly after `(`: whitespace;
  * inside `( )`: whitespace — `setup_space_list_check(.., under_group)`: after an operand it starts an implicit list,
    before `)` it does nothing (`step_fillU`, `fill_runU`);
  * a blank line before `}`: the separator node is inserted and unlinked again by the EndGrouping arm
    (`step_close_unlink`; the node stays in the array, unreachable — the invariants tolerate such ids, `SortedIn`).
The reference parser has all of this (`ref_sep_stepK`, `ref_sep_skipK`, `ref_sep_trailK`).  Trailing `;` before a closer
or at the end, separators after an operator, and separators inside `[ ]` directly after `[` are outside the reference
grammar.  Proofs: Lemmas/ParserB19 .. ParserB24. -/

/-- **stage 7, unconditional** -/
theorem C02_parse_correct_fragment_separators (toks : List PToken) (hf : frag8 toks = true)
    (hnum : NumberedFrom 0 toks) :
    ∃ r t, parse toks = .ok r ∧ toTree r = some t ∧ refParse Table.gen toks = .ok (treeToRG r t) := by
  obtain ⟨r, t, h1, h2, h3⟩ := parse_fragF toks hf hnum
  exact ⟨r, t, h1, h2, by rw [← C02_toRG_eq_treeToRG]; exact h3⟩

theorem C02_parse_fragment_separators_precOK_inorder (toks : List PToken) (hf : frag8 toks = true)
    (hnum : NumberedFrom 0 toks) :
    ∃ r t, parse toks = .ok r ∧ toTree r = some t ∧ ProperTree r ∧ PrecOK Table.gen Table.gen.rtl (treeToRG r t) ∧
      (treeToRG r t).inorderSig = significant toks := by
  obtain ⟨r, t, h0, h1, h2⟩ := C02_parse_correct_fragment_separators toks hf hnum
  exact ⟨r, t, h0, h1, ⟨t, (toTree_some_iff r t).mp h1⟩, Garnish.Props.C02.C02_refParse_precOK_gen toks _ h2,
    refParse_inorder toks _ h2⟩

/-- **C04, parser half, for every token list of the final fragment** (a corollary of the stage theorems): `parse` returns
    a proper tree whose in-order walk is exactly the significant tokens in source order -/
theorem C04_parse_proper_refgrammar (toks : List PToken) (hf : frag8 toks = true) (hnum : NumberedFrom 0 toks) :
    ∃ r t, parse toks = .ok r ∧ properTree r = true ∧ ProperTree r ∧ toTree r = some t ∧
      (treeToRG r t).inorderSig = significant toks := by
  obtain ⟨r, t, h0, h1, h2, _, h4⟩ := C02_parse_fragment_separators_precOK_inorder toks hf hnum
  exact ⟨r, t, h0, by simp [properTree, h1], h2, h1, h4⟩

/-- two expressions and a nested expression with leading, doubled and trailing separators, a group with a line break used
    as list whitespace, `;` against blank line (990 / 1000):

      a + 1 <blank> b = { <blank> x <blank> <blank> y ; z <blank> } ; (f <blank> 2) -/
def ex8 : List PToken :=
  [tk .identifier "a" 0, tk .plusSign "+" 1, tk .number "1" 2, tk .subexpression "\n\n" 3, tk .identifier "b" 4,
   tk .whitespace " " 5, tk .pair "=" 6, tk .whitespace " " 7, tk .startExpression "{" 8, tk .subexpression "\n\n" 9,
   tk .identifier "x" 10, tk .subexpression "\n\n" 11, tk .subexpression "\n\n" 12, tk .identifier "y" 13,
   tk .whitespace " " 14, tk .expressionSeparator ";" 15, tk .whitespace " " 16, tk .identifier "z" 17,
   tk .subexpression "\n\n" 18, tk .endExpression "}" 19, tk .whitespace " " 20, tk .expressionSeparator ";" 21,
   tk .whitespace " " 22, tk .startGroup "(" 23, tk .identifier "f" 24, tk .subexpression "\n\n" 25, tk .number "2" 26,
   tk .endGroup ")" 27]

theorem ex8_in_fragment : frag8 ex8 = true ∧ frag7 ex8 = false := by decide
theorem ex8_numbered : NumberedFrom 0 ex8 := by simp [ex8, NumberedFrom, tk]
theorem ex8_accepted : (parse ex8).isOk = true := by decide
theorem ex7_in_frag8 : frag8 ex7 = true ∧ frag8 ex6 = true ∧ frag8 ex5 = true := by decide

/-- `{ a <blank> }`: the trailing blank line leaves no node in the tree, `a <blank> b`: the blank line is the root -/
def exTrail : List PToken :=
  [tk .startExpression "{" 0, tk .identifier "a" 1, tk .subexpression "\n\n" 2, tk .endExpression "}" 3]
theorem exTrail_in_fragment : frag8 exTrail = true := by decide
theorem exTrail_tree : refParse Table.gen exTrail = .ok (.group .nestedExpression 0 (.node .nil .identifier 1 .nil)) := by
  rfl

/-! ### stage 8: `,` and infix identifiers with a missing operand

`Spec.frag9 toks` = `frag8 toks` (which now also contains the two bracket-level forms) or `expr trivia* ,` at the very end:
  * **leading** `,` / infix identifier as the first token of a frame's expression (top level, after `(` / `{` and the
    trivia / separators that may follow it): `parse_token` starts at the bracket that opened the frame, stops there at
    once (`is_our_group`), `parent == true_left` unsets the left operand — the node is pushed like a prefix operator
    (`expr_lead`);
  * **trailing** `,` before `)` / `}`: the comma is processed like a binary operator, its `right` points to the next id;
    the EndGrouping arm finds `last_left` to be `is_optional` and resets `right` (`step_close_opt`, `opd_bracket_comma`);
  * **trailing** `,` as the very last token: `assumed_right = None` (`parse_ex_comma`).
An infix identifier without right operand is NOT in the fragment: it is not `is_optional`, so its `right` stays dangling
(the reference grammar accepts it; this is outside what `parse` handles properly).  Comma directly before a separator
and a leading comma after a separator are not covered.  Proofs: Lemmas/ParserB25 .. ParserB28. -/

/-- the final fragment -/
def frag9 (toks : List PToken) : Bool := frag8 toks || fragTC ⟨true, true, true⟩ toks

/-- **stage 8, unconditional** -/
theorem C02_parse_correct_fragment_optional (toks : List PToken) (hf : frag9 toks = true) (hnum : NumberedFrom 0 toks) :
    ∃ r t, parse toks = .ok r ∧ toTree r = some t ∧ refParse Table.gen toks = .ok (treeToRG r t) := by
  unfold frag9 at hf
  rcases Bool.or_eq_true _ _ |>.mp hf with h | h
  · exact C02_parse_correct_fragment_separators toks h hnum
  · obtain ⟨e, ws1, k, hok, hw1, hk, rfl⟩ := fragTC_sound h
    obtain ⟨r, t, h1, h2, h3⟩ := parse_ex_comma e hok ws1 k hw1 hk hnum
    exact ⟨r, t, h1, h2, by rw [← C02_toRG_eq_treeToRG]; exact h3⟩

theorem C02_parse_fragment_optional_precOK_inorder (toks : List PToken) (hf : frag9 toks = true)
    (hnum : NumberedFrom 0 toks) :
    ∃ r t, parse toks = .ok r ∧ toTree r = some t ∧ ProperTree r ∧ PrecOK Table.gen Table.gen.rtl (treeToRG r t) ∧
      (treeToRG r t).inorderSig = significant toks := by
  obtain ⟨r, t, h0, h1, h2⟩ := C02_parse_correct_fragment_optional toks hf hnum
  exact ⟨r, t, h0, h1, ⟨t, (toTree_some_iff r t).mp h1⟩, Garnish.Props.C02.C02_refParse_precOK_gen toks _ h2,
    refParse_inorder toks _ h2⟩

/-- **C04, parser half, on the final fragment** -/
theorem C04_parse_proper_refgrammar9 (toks : List PToken) (hf : frag9 toks = true) (hnum : NumberedFrom 0 toks) :
    ∃ r t, parse toks = .ok r ∧ properTree r = true ∧ ProperTree r ∧ toTree r = some t ∧
      (treeToRG r t).inorderSig = significant toks := by
  obtain ⟨r, t, h0, h1, h2, _, h4⟩ := C02_parse_fragment_optional_precOK_inorder toks hf hnum
  exact ⟨r, t, h0, by simp [properTree, h1], h2, h1, h4⟩

/-- `(, a b, c,) + {`f` x} ,`: a leading comma, a trailing comma before `)`, a leading infix identifier, and a trailing
    comma at the very end -/
def ex9 : List PToken :=
  [tk .startGroup "(" 0, tk .comma "," 1, tk .whitespace " " 2, tk .identifier "a" 3, tk .whitespace " " 4,
   tk .identifier "b" 5, tk .comma "," 6, tk .whitespace " " 7, tk .identifier "c" 8, tk .comma "," 9, tk .endGroup ")" 10,
   tk .whitespace " " 11, tk .plusSign "+" 12, tk .whitespace " " 13, tk .startExpression "{" 14,
   tk .infixIdentifier "`f`" 15, tk .whitespace " " 16, tk .identifier "x" 17, tk .endExpression "}" 18,
   tk .whitespace " " 19, tk .comma "," 20]

theorem ex9_in_fragment : frag9 ex9 = true ∧ frag8 ex9 = false := by decide
theorem ex9_numbered : NumberedFrom 0 ex9 := by simp [ex9, NumberedFrom, tk]
theorem ex9_accepted : (parse ex9).isOk = true := by decide
theorem ex8_in_frag9 : frag9 ex8 = true := by decide

/-- `( a , )`: the comma has a left operand only -/
def exTrailComma : List PToken :=
  [tk .startGroup "(" 0, tk .identifier "a" 1, tk .whitespace " " 2, tk .comma "," 3, tk .whitespace " " 4,
   tk .endGroup ")" 5]
theorem exTrailComma_in_fragment : frag8 exTrailComma = true := by decide
theorem exTrailComma_tree : refParse Table.gen exTrailComma =
    .ok (.group .group 0 (.node (.node .nil .identifier 1 .nil) .commaList 3 .nil)) := by
  rfl

/-! ### side-effect blocks in operand position

`e op [ body ]`: the block is the right operand of a binary operator.  `[` goes through `parse_token` with priority 5
and `left = last_left` = the operator node; every operator binds looser than 5, so the walk stops at once: the
SideEffect node becomes the operator's right child and has no left operand (`parse_op_block`).  Side effects are outside
the reference grammar, so the statement composes the reference trees of `e` and of the body: the result is
`attach op (tree of e)` with the block `(SideEffect k - body)` plugged in as the operand. -/

theorem C02_parse_block_as_operand {F : Fl} (etoks body : List PToken) (op o c : PToken)
    (ws1 ws2 wsA wsB : List PToken) (he : fragF F etoks = true) (hb : fragF F body = true) (hop : isBin3Tok op = true)
    (ho : o.type = .startSideEffect) (hc : c.type = .endSideEffect) (hw1 : ∀ w ∈ ws1, isTriviaTok w = true)
    (hw2 : ∀ w ∈ ws2, isTriviaTok w = true) (hwA : ∀ w ∈ wsA, isTriviaTok w = true)
    (hwB : ∀ w ∈ wsB, isTriviaTok w = true)
    (hnum : NumberedFrom 0 (etoks ++ (ws1 ++ (op :: (ws2 ++ (o :: (wsA ++ (body ++ (wsB ++ [c]))))))))) :
    ∃ r t te tb q, parse (etoks ++ (ws1 ++ (op :: (ws2 ++ (o :: (wsA ++ (body ++ (wsB ++ [c])))))))) = .ok r ∧
      toTree r = some t ∧ refParse Table.gen etoks = .ok te ∧ refParse Table.gen body = .ok tb ∧
      priority (getDefinition op.type).1 = some q ∧
      treeToRG r t =
        plug (attach Table.gen q ((getDefinition op.type).2 == .binaryRightToLeft) (getDefinition op.type).1
            (etoks.length + ws1.length) te)
          (.node .nil .sideEffect (etoks.length + ws1.length + 1 + ws2.length)
            (tb.shift (etoks.length + ws1.length + 1 + ws2.length + 1 + wsA.length))) := by
  obtain ⟨e, hok, rfl⟩ := fragF_sound he
  obtain ⟨bd, hbok, rfl⟩ := fragF_sound hb
  obtain ⟨r, t, te, tb, q, h1, h2, h3, h4, h5, h6⟩ := parse_op_block e bd op o c ws1 ws2 wsA wsB hok hbok hop ho hc hw1 hw2
    hwA hwB hnum
  exact ⟨r, t, te, tb, q, h1, h2, h3, h4, h5, by rw [← C02_toRG_eq_treeToRG]; exact h6⟩

/-- `a * 2 + [b c]` -/
def exOpBlock : List PToken :=
  [tk .identifier "a" 0, tk .multiplicationSign "*" 1, tk .number "2" 2] ++
    ([tk .whitespace " " 3] ++ (tk .plusSign "+" 4 :: ([tk .whitespace " " 5] ++ (tk .startSideEffect "[" 6 ::
      ([] ++ ([tk .identifier "b" 7, tk .whitespace " " 8, tk .identifier "c" 9] ++ ([] ++ [tk .endSideEffect "]" 10])))))))
theorem exOpBlock_parts : frag8 [tk .identifier "a" 0, tk .multiplicationSign "*" 1, tk .number "2" 2] = true ∧
    frag8 [tk .identifier "b" 7, tk .whitespace " " 8, tk .identifier "c" 9] = true := by decide
theorem exOpBlock_numbered : NumberedFrom 0 exOpBlock := by simp [exOpBlock, NumberedFrom, tk]
theorem exOpBlock_accepted : (parse exOpBlock).isOk = true := by decide

/-! ### `e op [ body ] v` — the `last_left` jump

After `]` the parser's `last_left` is the SideEffect node; on the next token it jumps to that node's parent (the
operator).  The value `v` is then attached as the operator's right child and the block — the operator's previous right
child — is handed to `v` as its LEFT operand.  Statement: the tree is `attach op (tree of e)` with the operand
`v`-node-with-left-child-block plugged in; `dv` is the definition stored for `v` (Property after `.`). -/

theorem C02_parse_block_then_value {F : Fl} (etoks body : List PToken) (op o c v : PToken)
    (ws1 ws2 wsA wsB ws3 : List PToken) (he : fragF F etoks = true) (hb : fragF F body = true)
    (hop : isBin3Tok op = true) (ho : o.type = .startSideEffect) (hc : c.type = .endSideEffect)
    (hv : isAtom10 v = true) (hw1 : ∀ w ∈ ws1, isTriviaTok w = true)
    (hw2 : ∀ w ∈ ws2, isTriviaTok w = true) (hwA : ∀ w ∈ wsA, isTriviaTok w = true)
    (hwB : ∀ w ∈ wsB, isTriviaTok w = true) (hw3 : ∀ w ∈ ws3, isTriviaTok w = true)
    (hnum : NumberedFrom 0
      (etoks ++ (ws1 ++ (op :: (ws2 ++ (o :: (wsA ++ (body ++ (wsB ++ (c :: (ws3 ++ [v]))))))))))) :
    ∃ r t te tb q,
      parse (etoks ++ (ws1 ++ (op :: (ws2 ++ (o :: (wsA ++ (body ++ (wsB ++ (c :: (ws3 ++ [v])))))))))) = .ok r ∧
      toTree r = some t ∧ refParse Table.gen etoks = .ok te ∧ refParse Table.gen body = .ok tb ∧
      priority (getDefinition op.type).1 = some q ∧
      treeToRG r t =
        plug (attach Table.gen q ((getDefinition op.type).2 == .binaryRightToLeft) (getDefinition op.type).1
            (etoks.length + ws1.length) te)
          (.node
            (.node .nil .sideEffect (etoks.length + ws1.length + 1 + ws2.length)
              (tb.shift (etoks.length + ws1.length + 1 + ws2.length + 1 + wsA.length)))
            (underDef (getDefinition op.type).1 (getDefinition v.type).1)
            (etoks.length + ws1.length + 1 + ws2.length + 1 + wsA.length + body.length + wsB.length + 1 + ws3.length)
            .nil) := by
  obtain ⟨e, hok, rfl⟩ := fragF_sound he
  obtain ⟨bd, hbok, rfl⟩ := fragF_sound hb
  obtain ⟨r, t, te, tb, q, dv, h1, h2, h3, h4, h5, h6, h7⟩ := parse_op_block_value e bd op o c v ws1 ws2 wsA wsB ws3 hok
    hbok hop ho hc hv hw1 hw2 hwA hwB hw3 hnum
  subst h7
  exact ⟨r, t, te, tb, q, h1, h2, h3, h4, h5, by rw [← C02_toRG_eq_treeToRG]; exact h6⟩

/-- `a + [b c] d` -/
def exBlockVal : List PToken :=
  [tk .identifier "a" 0] ++
    ([tk .whitespace " " 1] ++ (tk .plusSign "+" 2 :: ([tk .whitespace " " 3] ++ (tk .startSideEffect "[" 4 ::
      ([] ++ ([tk .identifier "b" 5, tk .whitespace " " 6, tk .identifier "c" 7] ++ ([] ++ (tk .endSideEffect "]" 8 ::
        ([tk .whitespace " " 9] ++ [tk .identifier "d" 10])))))))))
theorem exBlockVal_parts : frag8 [tk .identifier "a" 0] = true ∧
    frag8 [tk .identifier "b" 5, tk .whitespace " " 6, tk .identifier "c" 7] = true ∧
    isBin3Tok (tk .plusSign "+" 2) = true ∧ isAtom10 (tk .identifier "d" 10) = true := by decide
theorem exBlockVal_numbered : NumberedFrom 0 exBlockVal := by simp [exBlockVal, NumberedFrom, tk]
theorem exBlockVal_accepted : (parse exBlockVal).isOk = true := by decide
/-- node ids (trivia make no nodes): `a`=0, `+`=1, `[`=2, `b`=3, list=4, `c`=5, `d`=6.  The value `d` is the right child of
    `+` and the SideEffect node is the LEFT child of `d`. -/
theorem exBlockVal_shape :
    (match parse exBlockVal with
     | .ok r => (r.nodes[1]?.map (fun (n : ParseNode) => n.right),
                 r.nodes[6]?.map (fun (n : ParseNode) => (n.parent, n.left)),
                 r.nodes[2]?.map (fun (n : ParseNode) => (n.definition, n.parent)))
     | _ => (none, none, none)) =
    (some (some 6), some (some 1, some 2), some (Definition.sideEffect, some 6)) := by decide

end Garnish.Props.C02Parse
