/-
C02 / C04 / C18 for the statement-level model of the real parser (`Garnish.Model.Parser.parse`), on an operator fragment,
for ALL token lists of the fragment (no length bound).

Fragment (decidable recogniser `Spec.frag4`):   value (trivia* binop trivia* value)*
  value  = a token of class Value / Identifier whose definition has priority 10 (numbers, identifiers, symbols, unit, `$`,
           char / byte lists, true / false, ...; not `;;`, not Unknown)
  binop  = any BinaryLeftToRight / BinaryRightToLeft token: all binary operators of every priority, the conditionals,
           apply forms, access `.`, ranges, ..., and the right-to-left pair `=`
  trivia = Whitespace, Annotation, LineAnnotation tokens, any number of them, between any two tokens
`Spec.frag1` is the sub-fragment without trivia.

Proved (proofs in Garnish/Lemmas/ParserTree, ParserSim, ParserSteps, ParserTrivia, ParserFrag .. ParserFrag5):
  whenever the model of `parse` accepts such a list, its node array is a proper tree (`toTree r = some t`) and this tree
  IS the tree the reference parser returns — hence it satisfies the precedence condition of the table, its in-order walk
  is exactly the significant tokens in source order, and (uniqueness) it is the only such tree;
  and the result of `parse` does not depend on the trivia at all.
Token positions: the theorems assume that token `i` of the list carries `i` in its `col` field (`NumberedFrom 0 toks`,
what the harness' `!tokidx` mode and `numbered` do), because the tree records the positions of its tokens.
Acceptance (`parse` returns `Ok` on every list of the fragment) is `C02_parse_accepts_fragment`; `C02_modelParse_binary`
is the unconditional form.  Stage 2 (prefix operators in operand position, fragment `Spec.frag2`) is
`C02_parse_correct_fragment_prefix`, stage 3 (suffix operators, fragment `Spec.frag3`) is
`C02_parse_correct_fragment_suffix`; both unconditional as well.  Not done: brackets / side-effect blocks, lists.
-/
import Garnish.Lemmas.ParserFrag5
import Garnish.Lemmas.ParserAccept2
import Garnish.Lemmas.ParserPrefix5
import Garnish.Lemmas.ParserSuffix5
import Garnish.Lemmas.RefParseInorder
import Garnish.Lemmas.RefParseUnique
import Garnish.Props.C02
namespace Garnish.Props.C02Parse
open Garnish Garnish.Gen Garnish.Model.Parser Garnish.Spec

/-- the reference-tree image used in the statements is `Props.C02.treeToR` -/
theorem C02_toRd_eq_treeToR (r : ParseResult) : ∀ t : Tree, toRd (dfOf r.nodes) t = Garnish.Props.C02.treeToR r t
  | .nil => rfl
  | .node l i k rt => by
    simp only [toRd, Garnish.Props.C02.treeToR, C02_toRd_eq_treeToR r l, C02_toRd_eq_treeToR r rt]
    rfl

/-- **stage 1** — `value (binop value)*`: the model of `parse` computes the reference tree -/
theorem C02_parse_correct_frag1 (toks : List PToken) (hf : frag1 toks = true) (hnum : NumberedFrom 0 toks)
    (r : ParseResult) (h : parse toks = .ok r) :
    ∃ t, toTree r = some t ∧ refParse Table.gen toks = .ok (Garnish.Props.C02.treeToR r t) := by
  obtain ⟨t, h1, h2⟩ := parse_frag1 toks hf hnum r h
  exact ⟨t, h1, by rw [← C02_toRd_eq_treeToR]; exact h2⟩

/-- **stage 1 + 4** — `value (trivia* binop trivia* value)*`: the model of `parse` computes the reference tree -/
theorem C02_parse_correct_fragment (toks : List PToken) (hf : frag4 toks = true) (hnum : NumberedFrom 0 toks)
    (r : ParseResult) (h : parse toks = .ok r) :
    ∃ t, toTree r = some t ∧ refParse Table.gen toks = .ok (Garnish.Props.C02.treeToR r t) := by
  obtain ⟨t, h1, h2⟩ := parse_frag4 toks hf hnum r h
  exact ⟨t, h1, by rw [← C02_toRd_eq_treeToR]; exact h2⟩

/-- the same with the committed language table -/
theorem C02_parse_correct_fragment_spec (toks : List PToken) (hf : frag4 toks = true) (hnum : NumberedFrom 0 toks)
    (r : ParseResult) (h : parse toks = .ok r) :
    ∃ t, toTree r = some t ∧ refParse Table.spec toks = .ok (Garnish.Props.C02.treeToR r t) := by
  rw [← Garnish.Props.C02.C02_bridge_table]; exact C02_parse_correct_fragment toks hf hnum r h

/-- consequences in the declarative vocabulary: proper tree, precedence condition, in-order = significant tokens -/
theorem C02_parse_fragment_precOK_inorder (toks : List PToken) (hf : frag4 toks = true) (hnum : NumberedFrom 0 toks)
    (r : ParseResult) (h : parse toks = .ok r) :
    ∃ t, toTree r = some t ∧ ProperTree r ∧ PrecOK Table.gen Table.gen.rtl (Garnish.Props.C02.treeToR r t) ∧
      (Garnish.Props.C02.treeToR r t).inorderSig = significant toks := by
  obtain ⟨t, h1, h2⟩ := C02_parse_correct_fragment toks hf hnum r h
  refine ⟨t, h1, ⟨t, (toTree_some_iff r t).mp h1⟩, ?_, ?_⟩
  · exact Garnish.Props.C02.C02_refParse_precOK_gen toks _ h2
  · exact refParse_inorder toks _ h2

/-- C04 on the fragment: an accepted list yields a proper tree -/
theorem C04_parse_proper_fragment (toks : List PToken) (hf : frag4 toks = true) (hnum : NumberedFrom 0 toks)
    (r : ParseResult) (h : parse toks = .ok r) : properTree r = true := by
  obtain ⟨t, h1, _⟩ := parse_frag4 toks hf hnum r h
  simp [properTree, h1]

/-- **C18 on the fragment**: Whitespace / Annotation / LineAnnotation tokens between the tokens do not change the result
    of `parse` in any way (same `Ok` with the same root and node array, or the same `Err`) -/
theorem C18_parse_whitespace_insensitive_fragment (toks : List PToken) (hf : frag4 toks = true) :
    parse toks = parse (stripTrivia toks) :=
  parse_frag4_strip toks hf

/-- two lists of the fragment with the same non-trivia tokens parse to the same result -/
theorem C18_parse_same_tokens_same_result (toks toks' : List PToken) (hf : frag4 toks = true) (hf' : frag4 toks' = true)
    (hs : stripTrivia toks = stripTrivia toks') : parse toks = parse toks' := by
  rw [parse_frag4_strip toks hf, parse_frag4_strip toks' hf', hs]

/-- **acceptance**: the model of `parse` returns `Ok` for EVERY token list of the fragment -/
theorem C02_parse_accepts_fragment (toks : List PToken) (hf : frag4 toks = true) : ∃ r, parse toks = .ok r :=
  parse_frag4_ok toks hf

/-- **unconditional form** (what `Props.C02.C02_modelParse_binary_partial` asked for, on the larger fragment with trivia):
    for every token list `value (trivia* binop trivia* value)*` whose tokens carry their positions, the model of `parse`
    accepts, the result is a proper tree, and that tree is the reference tree -/
theorem C02_modelParse_binary (toks : List PToken) (hf : frag4 toks = true) (hnum : NumberedFrom 0 toks) :
    ∃ r t, parse toks = .ok r ∧ toTree r = some t ∧ refParse Table.gen toks = .ok (Garnish.Props.C02.treeToR r t) := by
  obtain ⟨r, hr⟩ := parse_frag4_ok toks hf
  obtain ⟨t, h1, h2⟩ := C02_parse_correct_fragment toks hf hnum r hr
  exact ⟨r, t, hr, h1, h2⟩

/-! ### non-vacuity: concrete lists of the fragment that the model accepts -/

def tk (t : TokenType) (s : String) (k : Nat) : PToken := { text := s.toList, type := t, row := 0, col := k }

/-- `a + 2 * 3 = b = 4 == 5` (five operators, four priorities, right-to-left `=`) -/
def ex1 : List PToken :=
  [tk .identifier "a" 0, tk .plusSign "+" 1, tk .number "2" 2, tk .multiplicationSign "*" 3, tk .number "3" 4,
   tk .pair "=" 5, tk .identifier "b" 6, tk .pair "=" 7, tk .number "4" 8, tk .equality "==" 9, tk .number "5" 10]

/-- `a  + 2*3 @x ** b .c  ?> 4` with whitespace / annotation tokens in all positions -/
def ex2 : List PToken :=
  [tk .identifier "a" 0, tk .whitespace "  " 1, tk .plusSign "+" 2, tk .whitespace " " 3, tk .number "2" 4,
   tk .multiplicationSign "*" 5, tk .number "3" 6, tk .whitespace " " 7, tk .annotation "@x" 8, tk .whitespace " " 9,
   tk .exponentialSign "**" 10, tk .whitespace " " 11, tk .identifier "b" 12, tk .whitespace " " 13, tk .period "." 14,
   tk .identifier "c" 15, tk .whitespace "  " 16, tk .jumpIfTrue "?>" 17, tk .whitespace " " 18, tk .number "4" 19]

theorem ex1_in_fragment : frag1 ex1 = true ∧ frag4 ex1 = true := by decide
theorem ex1_numbered : NumberedFrom 0 ex1 := by simp [ex1, NumberedFrom, tk]
theorem ex1_accepted : (parse ex1).isOk = true := by decide
theorem ex2_in_fragment : frag4 ex2 = true := by decide
theorem ex2_numbered : NumberedFrom 0 ex2 := by simp [ex2, NumberedFrom, tk]
theorem ex2_accepted : (parse ex2).isOk = true := by decide

/-! ### stage 2: prefix operators

Fragment `Spec.frag2` (decidable):   (prefix* value) (trivia* binop trivia* prefix* value)*
with prefix = any UnaryPrefix token (`--`, `++`, `!`, `!!`, `??`, `#`, `_.`, `^~`, prefix identifiers). -/

/-- **stage 2, unconditional**: for every token list of the fragment whose tokens carry their positions, the model of `parse`
    accepts, its node array is a proper tree, and that tree is the reference tree.  In particular the equal-priority tie
    between the prefix operators Not / Tis (priority 400) and `==` `!=` `#=` (priority 400, left-to-right) is resolved as
    the table says: `!! a == b` is `(!! a) == b`, see `ex3`. -/
theorem C02_parse_correct_fragment_prefix (toks : List PToken) (hf : frag2 toks = true) (hnum : NumberedFrom 0 toks) :
    ∃ r t, parse toks = .ok r ∧ toTree r = some t ∧ refParse Table.gen toks = .ok (Garnish.Props.C02.treeToR r t) := by
  obtain ⟨r, t, h1, h2, h3⟩ := parse_frag2 toks hf hnum
  exact ⟨r, t, h1, h2, by rw [← C02_toRd_eq_treeToR]; exact h3⟩

theorem C02_parse_accepts_fragment_prefix (toks : List PToken) (hf : frag2 toks = true) (hnum : NumberedFrom 0 toks) :
    ∃ r, parse toks = .ok r := by
  obtain ⟨r, _, h1, _⟩ := parse_frag2 toks hf hnum
  exact ⟨r, h1⟩

theorem C02_parse_fragment_prefix_precOK_inorder (toks : List PToken) (hf : frag2 toks = true) (hnum : NumberedFrom 0 toks) :
    ∃ r t, parse toks = .ok r ∧ toTree r = some t ∧ ProperTree r ∧
      PrecOK Table.gen Table.gen.rtl (Garnish.Props.C02.treeToR r t) ∧
      (Garnish.Props.C02.treeToR r t).inorderSig = significant toks := by
  obtain ⟨r, t, h0, h1, h2⟩ := C02_parse_correct_fragment_prefix toks hf hnum
  exact ⟨r, t, h0, h1, ⟨t, (toTree_some_iff r t).mp h1⟩, Garnish.Props.C02.C02_refParse_precOK_gen toks _ h2,
    refParse_inorder toks _ h2⟩

/-- `!!a == b + --c * 2 ** ?? d`: four binary operators of four priorities, three prefix operators, and the tie
    Not (400) against Equality (400) -/
def ex3 : List PToken :=
  [tk .not "!!" 0, tk .identifier "a" 1, tk .whitespace " " 2, tk .equality "==" 3, tk .whitespace " " 4,
   tk .identifier "b" 5, tk .whitespace " " 6, tk .plusSign "+" 7, tk .whitespace " " 8, tk .opposite "--" 9,
   tk .identifier "c" 10, tk .whitespace " " 11, tk .multiplicationSign "*" 12, tk .whitespace " " 13, tk .number "2" 14,
   tk .whitespace " " 15, tk .exponentialSign "**" 16, tk .whitespace " " 17, tk .tis "??" 18, tk .identifier "d" 19]

theorem ex3_in_fragment : frag2 ex3 = true := by decide
theorem ex3_numbered : NumberedFrom 0 ex3 := by simp [ex3, NumberedFrom, tk]
theorem ex3_accepted : (parse ex3).isOk = true := by decide

/-- the tie `!! a == b`: the reference tree (hence, by `C02_parse_correct_fragment_prefix`, the tree of the model) is
    `(!! a) == b` -/
def exTie : List PToken := [tk .not "!!" 0, tk .identifier "a" 1, tk .equality "==" 2, tk .identifier "b" 3]
theorem exTie_in_fragment : frag2 exTie = true := by decide
theorem exTie_tree : refParse Table.gen exTie =
    .ok (.node (.node .nil .not 0 (.node .nil .identifier 1 .nil)) .equality 2 (.node .nil .identifier 3 .nil)) := by
  rfl

/-! ### stage 3: suffix operators

Fragment `Spec.frag3` (decidable):   (prefix* value suffix*) (trivia* binop trivia* prefix* value suffix*)*
with suffix = any UnarySuffix token (`~~`, `._`, `.|`, suffix identifiers).  The node at the bottom of the right spine can
now be a suffix operator, which may stop the next operator (`a ~~ . b`: Access 30 < EmptyApply 40): then `parse_token`
takes its `parent == true_left` branch and the new operator gets no left operand — the reference parser does the same. -/

/-- **stage 3, unconditional** -/
theorem C02_parse_correct_fragment_suffix (toks : List PToken) (hf : frag3 toks = true) (hnum : NumberedFrom 0 toks) :
    ∃ r t, parse toks = .ok r ∧ toTree r = some t ∧ refParse Table.gen toks = .ok (Garnish.Props.C02.treeToR r t) := by
  obtain ⟨r, t, h1, h2, h3⟩ := parse_frag3 toks hf hnum
  exact ⟨r, t, h1, h2, by rw [← C02_toRd_eq_treeToR]; exact h3⟩

theorem C02_parse_fragment_suffix_precOK_inorder (toks : List PToken) (hf : frag3 toks = true) (hnum : NumberedFrom 0 toks) :
    ∃ r t, parse toks = .ok r ∧ toTree r = some t ∧ ProperTree r ∧
      PrecOK Table.gen Table.gen.rtl (Garnish.Props.C02.treeToR r t) ∧
      (Garnish.Props.C02.treeToR r t).inorderSig = significant toks := by
  obtain ⟨r, t, h0, h1, h2⟩ := C02_parse_correct_fragment_suffix toks hf hnum
  exact ⟨r, t, h0, h1, ⟨t, (toTree_some_iff r t).mp h1⟩, Garnish.Props.C02.C02_refParse_precOK_gen toks _ h2,
    refParse_inorder toks _ h2⟩

/-- `a~~ + b._ * --c.| == !!d~~ . e`: four binary operators of four priorities, two prefix and four suffix operators, the
    tie Not (400) / Equality (400), and a suffix node that stops the next operator (`~~` 40 against `.` 30) -/
def ex4 : List PToken :=
  [tk .identifier "a" 0, tk .emptyApply "~~" 1, tk .whitespace " " 2, tk .plusSign "+" 3, tk .whitespace " " 4,
   tk .identifier "b" 5, tk .rightInternal "._" 6, tk .whitespace " " 7, tk .multiplicationSign "*" 8, tk .whitespace " " 9,
   tk .opposite "--" 10, tk .identifier "c" 11, tk .lengthInternal ".|" 12, tk .whitespace " " 13, tk .equality "==" 14,
   tk .whitespace " " 15, tk .not "!!" 16, tk .identifier "d" 17, tk .emptyApply "~~" 18, tk .whitespace " " 19,
   tk .period "." 20, tk .whitespace " " 21, tk .identifier "e" 22]

theorem ex4_in_fragment : frag3 ex4 = true := by decide
theorem ex4_numbered : NumberedFrom 0 ex4 := by simp [ex4, NumberedFrom, tk]
theorem ex4_accepted : (parse ex4).isOk = true := by decide

end Garnish.Props.C02Parse
