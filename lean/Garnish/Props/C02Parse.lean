/-
C02 / C04 / C18 for the statement-level model of the real parser (`Garnish.Model.Parser.parse`), on an operator fragment,
for ALL token lists of the fragment (no length bound).

Fragment (decidable recogniser `Spec.frag4`):   value (trivia* binop trivia* value)*
  value  = a token of class Value / Identifier whose definition has priority 10 (numbers, identifiers, symbols, unit, `$`,
           char / byte lists, true / false, ...; not `;;`, not Unknown)
  binop  = any BinaryLeftToRight / BinaryRightToLeft token: all binary operators of every priority, the conditionals,
           apply forms, access `.`, ranges, ..., and the right-to-left pair `=`
  trivia = Whitespace, Annotation, LineAnnotation tokens, any number of them, between any two tokens
`Spec.frag1` is the sub-fragment without trivia.

Proved (proofs in Garnish/Lemmas/ParserTree, ParserSim, ParserSteps, ParserTrivia, ParserFrag .. ParserFrag5):
  whenever the model of `parse` accepts such a list, its node array is a proper tree (`toTree r = some t`) and this tree
  IS the tree the reference parser returns — hence it satisfies the precedence condition of the table, its in-order walk
  is exactly the significant tokens in source order, and (uniqueness) it is the only such tree;
  and the result of `parse` does not depend on the trivia at all.
Token positions: the theorems assume that token `i` of the list carries `i` in its `col` field (`NumberedFrom 0 toks`,
what the harness' `!tokidx` mode and `numbered` do), because the tree records the positions of its tokens.
Not proved: that `parse` accepts every list of the fragment (the theorems are conditional on `parse toks = .ok r`; the
examples below and the PARSE suite show non-vacuity), and the stages prefix / suffix operators, brackets, lists.
-/
import Garnish.Lemmas.ParserFrag5
import Garnish.Lemmas.RefParseInorder
import Garnish.Lemmas.RefParseUnique
import Garnish.Props.C02
namespace Garnish.Props.C02Parse
open Garnish Garnish.Gen Garnish.Model.Parser Garnish.Spec

/-- the reference-tree image used in the statements is `Props.C02.treeToR` -/
theorem C02_toRd_eq_treeToR (r : ParseResult) : ∀ t : Tree, toRd (dfOf r.nodes) t = Garnish.Props.C02.treeToR r t
  | .nil => rfl
  | .node l i k rt => by
    simp only [toRd, Garnish.Props.C02.treeToR, C02_toRd_eq_treeToR r l, C02_toRd_eq_treeToR r rt]
    rfl

/-- **stage 1** — `value (binop value)*`: the model of `parse` computes the reference tree -/
theorem C02_parse_correct_frag1 (toks : List PToken) (hf : frag1 toks = true) (hnum : NumberedFrom 0 toks)
    (r : ParseResult) (h : parse toks = .ok r) :
    ∃ t, toTree r = some t ∧ refParse Table.gen toks = .ok (Garnish.Props.C02.treeToR r t) := by
  obtain ⟨t, h1, h2⟩ := parse_frag1 toks hf hnum r h
  exact ⟨t, h1, by rw [← C02_toRd_eq_treeToR]; exact h2⟩

/-- **stage 1 + 4** — `value (trivia* binop trivia* value)*`: the model of `parse` computes the reference tree -/
theorem C02_parse_correct_fragment (toks : List PToken) (hf : frag4 toks = true) (hnum : NumberedFrom 0 toks)
    (r : ParseResult) (h : parse toks = .ok r) :
    ∃ t, toTree r = some t ∧ refParse Table.gen toks = .ok (Garnish.Props.C02.treeToR r t) := by
  obtain ⟨t, h1, h2⟩ := parse_frag4 toks hf hnum r h
  exact ⟨t, h1, by rw [← C02_toRd_eq_treeToR]; exact h2⟩

/-- the same with the committed language table -/
theorem C02_parse_correct_fragment_spec (toks : List PToken) (hf : frag4 toks = true) (hnum : NumberedFrom 0 toks)
    (r : ParseResult) (h : parse toks = .ok r) :
    ∃ t, toTree r = some t ∧ refParse Table.spec toks = .ok (Garnish.Props.C02.treeToR r t) := by
  rw [← Garnish.Props.C02.C02_bridge_table]; exact C02_parse_correct_fragment toks hf hnum r h

/-- consequences in the declarative vocabulary: proper tree, precedence condition, in-order = significant tokens -/
theorem C02_parse_fragment_precOK_inorder (toks : List PToken) (hf : frag4 toks = true) (hnum : NumberedFrom 0 toks)
    (r : ParseResult) (h : parse toks = .ok r) :
    ∃ t, toTree r = some t ∧ ProperTree r ∧ PrecOK Table.gen Table.gen.rtl (Garnish.Props.C02.treeToR r t) ∧
      (Garnish.Props.C02.treeToR r t).inorderSig = significant toks := by
  obtain ⟨t, h1, h2⟩ := C02_parse_correct_fragment toks hf hnum r h
  refine ⟨t, h1, ⟨t, (toTree_some_iff r t).mp h1⟩, ?_, ?_⟩
  · exact Garnish.Props.C02.C02_refParse_precOK_gen toks _ h2
  · exact refParse_inorder toks _ h2

/-- C04 on the fragment: an accepted list yields a proper tree -/
theorem C04_parse_proper_fragment (toks : List PToken) (hf : frag4 toks = true) (hnum : NumberedFrom 0 toks)
    (r : ParseResult) (h : parse toks = .ok r) : properTree r = true := by
  obtain ⟨t, h1, _⟩ := parse_frag4 toks hf hnum r h
  simp [properTree, h1]

/-- **C18 on the fragment**: Whitespace / Annotation / LineAnnotation tokens between the tokens do not change the result
    of `parse` in any way (same `Ok` with the same root and node array, or the same `Err`) -/
theorem C18_parse_whitespace_insensitive_fragment (toks : List PToken) (hf : frag4 toks = true) :
    parse toks = parse (stripTrivia toks) :=
  parse_frag4_strip toks hf

/-- two lists of the fragment with the same non-trivia tokens parse to the same result -/
theorem C18_parse_same_tokens_same_result (toks toks' : List PToken) (hf : frag4 toks = true) (hf' : frag4 toks' = true)
    (hs : stripTrivia toks = stripTrivia toks') : parse toks = parse toks' := by
  rw [parse_frag4_strip toks hf, parse_frag4_strip toks' hf', hs]

/-! ### non-vacuity: concrete lists of the fragment that the model accepts -/

def tk (t : TokenType) (s : String) (k : Nat) : PToken := { text := s.toList, type := t, row := 0, col := k }

/-- `a + 2 * 3 = b = 4 == 5` (five operators, four priorities, right-to-left `=`) -/
def ex1 : List PToken :=
  [tk .identifier "a" 0, tk .plusSign "+" 1, tk .number "2" 2, tk .multiplicationSign "*" 3, tk .number "3" 4,
   tk .pair "=" 5, tk .identifier "b" 6, tk .pair "=" 7, tk .number "4" 8, tk .equality "==" 9, tk .number "5" 10]

/-- `a  + 2*3 @x ** b .c  ?> 4` with whitespace / annotation tokens in all positions -/
def ex2 : List PToken :=
  [tk .identifier "a" 0, tk .whitespace "  " 1, tk .plusSign "+" 2, tk .whitespace " " 3, tk .number "2" 4,
   tk .multiplicationSign "*" 5, tk .number "3" 6, tk .whitespace " " 7, tk .annotation "@x" 8, tk .whitespace " " 9,
   tk .exponentialSign "**" 10, tk .whitespace " " 11, tk .identifier "b" 12, tk .whitespace " " 13, tk .period "." 14,
   tk .identifier "c" 15, tk .whitespace "  " 16, tk .jumpIfTrue "?>" 17, tk .whitespace " " 18, tk .number "4" 19]

theorem ex1_in_fragment : frag1 ex1 = true ∧ frag4 ex1 = true := by decide
theorem ex1_numbered : NumberedFrom 0 ex1 := by simp [ex1, NumberedFrom, tk]
theorem ex1_accepted : (parse ex1).isOk = true := by decide
theorem ex2_in_fragment : frag4 ex2 = true := by decide
theorem ex2_numbered : NumberedFrom 0 ex2 := by simp [ex2, NumberedFrom, tk]
theorem ex2_accepted : (parse ex2).isOk = true := by decide

end Garnish.Props.C02Parse
