/-
C01 over the relativised contract, coverage group 3: `Apply`, `EmptyApply`, `Reapply` (frames: this is where `Deep` /
`MDeepN` matter — the callee's pops must stay above the registers the frame saved) and `StartSideEffect` /
`EndSideEffect`. Side conditions of the new instructions (`MachOKOn3`): `MDeepN`; `ApplyDomain` as in `C01_refine_step`
plus `ApplyDomainOn`: the argument that becomes the input value / the value a look-up arm pushes is not `custom`; a symbol
look-up into a LIST needs the store's `ListSymOn` (Simple: not available, so that arm is excluded there); the
concatenation `input <> argument` of a partial application has no slice operand; `Reapply` / `StartSideEffect`: the value
moved to the value stack is not `custom`.
Covered now: 9 + 20 + 12 + 5 = 46 instructions.
-/
import Garnish.Props.RuntimeRefineOn2
import Garnish.Lemmas.RuntimeOnG3
namespace Garnish.Props.RuntimeRefine
open Garnish Gen Garnish.Abs Garnish.Model.Equality Garnish.Model.Runtime Garnish.Lemmas.Runtime
open Garnish.Lemmas.Runtime.On

variable {F σ : Type} {S : RStore F σ} {Inv : σ → Prop} {Rd : σ → Nat → Prop} {P : Prog F} {host : Host F}
  (fo : FloatOps F)

theorem C01_refine_step_on3 (L : StoreLawsOn S Inv Rd) (HR : HostRefinesI S Inv host) (fuel : Nat)
    (H : OtherHandlers σ) {s : σ} {m : MState F} (hsim : Sim S P s m) (hi : Inv s) (hl : Loaded S P s)
    {instr : Instruction} {operand : Option Nat} (hfetch : P.instrs[m.pc]? = some (instr, operand))
    (hok : MachOKOn3 fo S Inv P fuel m instr operand) : StepSimOn fo host S Inv P fuel H s m :=
  refine_step_on3 fo L HR fuel H hsim hi hl hfetch hok

theorem C01_refine_run_on3 (L : StoreLawsOn S Inv Rd) (HR : HostRefinesI S Inv host) (fuel : Nat)
    (H : OtherHandlers σ) (n : Nat) {s : σ} {m : MState F} (hsim : Sim S P s m) (hi : Inv s) (hl : Loaded S P s)
    (hok : RunOKG fo (MachOKOn3 fo S Inv P fuel) host P n m) {m' : MState F} {k : Nat}
    (hrun : Abs.run fo host P n m = (.halted m', k)) :
    ∃ s', executeLoop fo S fuel H n s = .ok ((.end_, k), s') ∧ SimD S P s' m'.regs m'.vals m'.frames ∧
      DecKept S s s' ∧ Inv s' :=
  executeLoop_spec_gen fo (MachOKOn3 fo S Inv P fuel) fuel H
    (fun s m instr operand hs hi hl hf hk => refine_step_on3 fo L HR fuel H hs hi hl hf hk) n s m hsim hi hl hok m' k hrun

end Garnish.Props.RuntimeRefine

namespace Garnish.Props.C01TextStore
open Garnish Garnish.Gen Garnish.Spec Garnish.Abs Garnish.Abs.Tree Garnish.Abs.Source Garnish.Model Garnish.Model.Parser
open Garnish.Model.Lexer Garnish.Model.Literals Garnish.Model.Build Garnish.Props.C01Build Garnish.Props.C01Source
open Garnish.Props.C02Numbered Garnish.Props.C01Text
open Garnish.Model.Equality Garnish.Model.Runtime Garnish.Lemmas.Runtime Garnish.Props.RuntimeRefine
open Garnish.Lemmas.Runtime.On Garnish.Lemmas.Runtime.Simple

variable {F : Type} (pf : List Char → Option F) (cc : CharClass)

/-- **characters → `SimpleGarnishData`**, coverage groups 1–3 -/
theorem C01_text_to_simple_store3 {hit : List (SimCell F) → SimCell F → Option Nat} (hs : HitSound hit)
    (hh : SimHost F) (fo : FloatOps F) (host : Host F) (HR : HostRefinesI (simpleRStore hit hh) SInv host)
    (loopFuel : Nat) (H : OtherHandlers (SimState F)) (s : List Char) (toks : List LexerToken)
    (hlex : lex cc s = .ok toks) (hf : frag9' (toP toks) = true) (rt : RTree)
    (href : refParse Table.gen (toP toks) = .ok rt) (p : Program F) (hel : elaborate pf (toP toks) rt = some p)
    (hwf : C01.WFProgram p) (input : Val F) (fuel : Nat) (v : Val F) (st : St F)
    (h : evalProgram fo host fuel p input = .ok (v, st)) :
    ∃ d entry n, buildText pf cc s = .ok (d, entry) ∧
      ((progOf d).consts.toList.all isLeafS = true → isLeafS input = true →
        RunOKG fo (MachOKOn3 fo (simpleRStore hit hh) SInv (reloc (progOf d)) loopFuel) host (reloc (progOf d)) n
          { pc := (progOf d).jumps[entry]?.getD 0, regs := [], vals := [input], frames := [], trace := [] } →
        ∃ s' a, executeLoop fo (simpleRStore hit hh) loopFuel H n
            (loadSimple (reloc (progOf d)) ((progOf d).jumps[entry]?.getD 0) input) = .ok ((.end_, n), s') ∧
          s'.values = [a] ∧ Decodes (simView s'.cells) a v ∧ (simpleRStore hit hh).regs s' = [] ∧
          (simpleRStore hit hh).frames s' = [] ∧ SInv s') :=
  C01_text_to_simple_store_of pf cc hh fo host loopFuel H (fun P => MachOKOn3 fo (simpleRStore hit hh) SInv P loopFuel)
    (fun P s m instr operand hsim hi hl hf hk =>
      refine_step_on3 fo (C01_simpleStore_lawsOn hs) HR loopFuel H hsim hi hl hf hk)
    s toks hlex hf rt href p hel hwf input fuel v st h

end Garnish.Props.C01TextStore
