/-
Runtime refinement, part 6: the remaining handlers (Model/Runtime/Internals.lean) — `type_of` (casting.rs),
`type_equal` (equality.rs), internals.rs (`access_left_internal`, `access_right_internal`, `access_length_internal`,
`concatenation_len`) — and the `equal` / `not_equal` handlers obtained by wrapping the read-only model of
`perform_equality_check` (Model/Equality.lean, `C11_equal_refines_fuel`): run on the current view and registers, pop the
two registers it consumed, `push_boolean`. No new store law is needed for "registers can be set back": the verdict
comes with the registers `rest` below the operands, and popping `|regs| − |rest|` registers with the existing
`pop_register` contract restores exactly them.
Hypotheses: `StoreLaws`, register shape, `Decodes`; `Equal`: C11's `NoSlice` and `eqFuel`; `AccessLengthInternal`:
`LengthDomain` (lengths ≤ `i32::MAX`, a slice holds a range value) and `accessFuel`.
-/
import Garnish.Lemmas.RuntimeInternals
import Garnish.Lemmas.RuntimeRefStore
set_option linter.unusedSimpArgs false
set_option linter.unusedVariables false
namespace Garnish.Props.RuntimeRefine
open Garnish Gen Garnish.Abs Garnish.Model.Equality Garnish.Model.Runtime Garnish.Lemmas.Runtime

variable {F σ : Type} {S : RStore F σ} (fo : FloatOps F)

/-- `type_of`: Abs/Ops `unaryOp .typeOf` -/
theorem C08_refine_type_of (L : StoreLaws S) {s : σ} {a : Nat} {v : Val F} {rest : List Nat}
    (hregs : S.regs s = a :: rest) (h : Decodes (S.view s) a v) :
    Pushed S s (typeOfH S s) none rest (.type v.typeOf) := typeOfH_spec L hregs h

/-- `type_equal`: Abs/Ops `typeEqual` (a type VALUE on the right is compared by the type it names) -/
theorem C08_refine_type_equal (L : StoreLaws S) {s : σ} {r l : Nat} {vr vl : Val F} {rest : List Nat}
    (hregs : S.regs s = r :: l :: rest) (hl : Decodes (S.view s) l vl) (hr : Decodes (S.view s) r vr) :
    Pushed S s (typeEqualH S s) none rest (Abs.typeEqual vl vr) := typeEqualH_spec L hregs hl hr

/-- `equal` as a handler: Abs/Ops `binaryOp .equal` = structural equality of the decoded operands -/
theorem C11_refine_equal_handler (L : StoreLaws S) (fuel : Nat) {s : σ} {r l : Nat} {vr vl : Val F}
    {rest : List Nat} (hregs : S.regs s = r :: l :: rest) (hl : Decodes (S.view s) l vl)
    (hr : Decodes (S.view s) r vr) (nl : NoSlice vl) (nr : NoSlice vr) (hf : eqFuel vl vr ≤ fuel) :
    Pushed S s (equalH fo S fuel false s) none rest (Val.ofBool (valEq fo vl vr)) :=
  equalH_spec fo L fuel false hregs hl hr nl nr hf

/-- `not_equal` as a handler -/
theorem C11_refine_not_equal_handler (L : StoreLaws S) (fuel : Nat) {s : σ} {r l : Nat} {vr vl : Val F}
    {rest : List Nat} (hregs : S.regs s = r :: l :: rest) (hl : Decodes (S.view s) l vl)
    (hr : Decodes (S.view s) r vr) (nl : NoSlice vl) (nr : NoSlice vr) (hf : eqFuel vl vr ≤ fuel) :
    Pushed S s (equalH fo S fuel true s) none rest (Val.ofBool (!valEq fo vl vr)) :=
  equalH_spec fo L fuel true hregs hl hr nl nr hf

/-- `access_left_internal` / `access_right_internal`: the component's OWN address, or the defer protocol with the
filler `(Unit, 0)` -/
theorem C08_refine_access_left_internal (L : StoreLaws S) {s : σ} {a : Nat} {v : Val F} {rest : List Nat}
    (hregs : S.regs s = a :: rest) (h : Decodes (S.view s) a v) :
    RefinesOut S s (accessLeftInternalH S s) none rest a 0 (Abs.accessLeftInternal v) :=
  accessLeftInternalH_spec L hregs h

theorem C08_refine_access_right_internal (L : StoreLaws S) {s : σ} {a : Nat} {v : Val F} {rest : List Nat}
    (hregs : S.regs s = a :: rest) (h : Decodes (S.view s) a v) :
    RefinesOut S s (accessRightInternalH S s) none rest a 0 (Abs.accessRightInternal v) :=
  accessRightInternalH_spec L hregs h

/-- `concatenation_len`: the number of flattened items; every borrowed register is given back -/
theorem C16_refine_concatenation_len (L : StoreLaws S) (fuel : Nat) {s : σ} {addr : Nat} {vl vr : Val F}
    (h : Decodes (S.view s) addr (.concat vl vr)) (hf : nodes vl + nodes vr + 1 ≤ fuel)
    (hb : (flatItems vl ++ flatItems vr).length ≤ 2147483647) :
    ∃ s', concatenationLen fo S fuel addr s = .ok ((flatItems vl ++ flatItems vr).length, s') ∧
      Eff S s s' (S.regs s) (S.vals s) := concatenationLen_spec fo L fuel h hf hb

/-- `access_length_internal` -/
theorem C08_refine_access_length_internal (L : StoreLaws S) (fuel : Nat) {s : σ} {a : Nat} {v : Val F}
    {rest : List Nat} (hregs : S.regs s = a :: rest) (h : Decodes (S.view s) a v) (hd : LengthDomain v)
    (hf : accessFuel v ≤ fuel) :
    RefinesOut S s (accessLengthInternalH fo S fuel s) none rest a 0 (Abs.accessLengthInternal fo v) :=
  accessLengthInternalH_spec fo L fuel hregs h hd hf

/-! ### non-vacuity -/

/-- `0: 1   1: 2   2: (1 = 2)   3: 1 (another cell)   4: (1 = 2) again   5: 2 <> 2 … -/
def intCells : List (RCell F) :=
  [.num (.int 1), .num (.int 2), .pair 0 1, .num (.int 1), .pair 3 1]

/-- two pairs at different addresses, with equal components at different addresses, are equal: theorem instantiated -/
example : Pushed (refStore (fun _ => none)) (RefState.init (intCells (F := F)) [4, 2, 9])
    (equalH fo (refStore (fun _ => none)) 10 false (RefState.init intCells [4, 2, 9])) none [9]
    (Val.ofBool (valEq fo (.pair (.num (.int 1)) (.num (.int 2))) (.pair (.num (.int 1)) (.num (.int 2))))) :=
  C11_refine_equal_handler fo (refStore_laws _) 10 rfl (.pair rfl rfl (.num rfl rfl) (.num rfl rfl))
    (.pair rfl rfl (.num rfl rfl) (.num rfl rfl)) rfl rfl (by simp [eqFuel, vsize])

/-- `access_left_internal` of the pair pushes the component's own address -/
example : ∃ s', accessLeftInternalH (refStore (fun _ => none)) (RefState.init (intCells (F := F)) [2, 9]) = .ok (none, s') ∧
    s'.regs = [0, 9] := ⟨_, rfl, rfl⟩

end Garnish.Props.RuntimeRefine
