/-
Non-vacuity of `C01_text_to_simple_store_scalar_declining`: the source text `{ $ + 1 } <~ 5` — a CALL (`Apply` pushes a
`StackFrame` on Simple's register `Vec`, `EndExpression` pops it) — is in the class `staticOKScalar` (checked by
evaluation), so on the payload model of `SimpleGarnishData` (cache that never hits, declining host, loop fuel 3) the loop
ends with ONE input-value address that decodes to `6`, with no run-time hypothesis at all. Also `$ ?> 1 |> 2` is in this
class.
-/
import Garnish.Props.C01TextStoreScalar
import Garnish.Props.C01TextStoreOnEx3
set_option linter.unusedSimpArgs false
set_option linter.unusedVariables false
namespace Garnish.Props.C01TextStore
open Garnish Garnish.Gen Garnish.Spec Garnish.Abs Garnish.Abs.Tree Garnish.Abs.Source Garnish.Model Garnish.Model.Parser
open Garnish.Model.Lexer Garnish.Model.Literals Garnish.Model.Build Garnish.Props.C01Build Garnish.Props.C01Source
open Garnish.Props.C02Numbered Garnish.Props.C01Text
open Garnish.Model.Equality Garnish.Model.Runtime Garnish.Lemmas.Runtime Garnish.Props.RuntimeRefine
open Garnish.Lemmas.Runtime.On Garnish.Lemmas.Runtime.Simple

theorem nested_static : staticOKScalar progNested (.unit : Val Float) = true := by rfl

theorem cond_static_scalar : staticOKScalar progCond (.tru : Val Float) = true := by rfl

example (fo : FloatOps Float) :
    ∃ d n, buildText noFloat asciiCC "{ $ + 1 } <~ 5".toList = .ok (d, 0) ∧ progOf d = compile progNested ∧
      ∃ s' a, executeLoop fo (simpleRStore (fun _ _ => none) (fun _ st => (false, st))) 3
          (fullHandlers fo (simpleRStore (fun _ _ => none) (fun _ st => (false, st))) 3 (RM.fail .unsupported)) n
          (loadSimple (reloc (progOf d)) ((progOf d).jumps[0]?.getD 0) .unit) = .ok ((.end_, n), s') ∧
        s'.values = [a] ∧ Decodes (simView s'.cells) a (.num (.int 6)) ∧
        (simpleRStore (fun _ _ => none) (fun _ st => (false, st))).regs s' = [] ∧
        (simpleRStore (fun _ _ => none) (fun _ st => (false, st))).frames s' = [] ∧ SInv s' :=
  C01_text_to_simple_store_scalar_declining (hit := fun _ _ => none) noFloat asciiCC C15_hitSound_never fo 3
    (Nat.le_refl _) (RM.fail .unsupported) _ _ text_nested_lex (by rw [text_nested_toks]; exact exNested_frag') _
    (by rw [text_nested_toks]; exact exNested_ref) (by rw [text_nested_toks]; exact exNested_elab) progNested_wf .unit
    nested_static 10 _ _ (progNested_meaning fo Host.declining)

end Garnish.Props.C01TextStore
