/-
`C01_text_to_simple_store_of` (Props/C01TextStoreOnG.lean) for an ARBITRARY address map: the built program relocated
along any `ρ` into any data list `C` that agrees with its constants (`ConstsAgree`), starts with Unit, False, True and
holds leaves only — the shape of what the real builder leaves in a `SimpleGarnishData`, equal constants shared and
`()` / `$!` / `$?` at 0 / 1 / 2 (Props/C01BuilderAddresses.lean). `reloc` is the instance `ρ k = k + 3`.
-/
import Garnish.Props.C01TextStoreOnG
import Garnish.Lemmas.RuntimeRelocBy
set_option linter.unusedSimpArgs false
set_option linter.unusedVariables false
namespace Garnish.Props.C01TextStore
open Garnish Garnish.Gen Garnish.Spec Garnish.Abs Garnish.Abs.Tree Garnish.Abs.Source Garnish.Model Garnish.Model.Parser
open Garnish.Model.Lexer Garnish.Model.Literals Garnish.Model.Build Garnish.Props.C01Build Garnish.Props.C01Source
open Garnish.Props.C02Numbered Garnish.Props.C01Text
open Garnish.Model.Equality Garnish.Model.Runtime Garnish.Lemmas.Runtime Garnish.Props.RuntimeRefine
open Garnish.Lemmas.Runtime.On Garnish.Lemmas.Runtime.Simple

variable {F : Type}
variable (pf : List Char → Option F) (cc : CharClass)

theorem C01_text_to_simple_store_by {hit : List (SimCell F) → SimCell F → Option Nat} (hh : SimHost F)
    (fo : FloatOps F) (host : Host F) (loopFuel : Nat) (H : OtherHandlers (SimState F))
    (ok : Prog F → MState F → Instruction → Option Nat → Prop)
    (hstep : ∀ (P : Prog F) (s : SimState F) (m : MState F) instr operand, Sim (simpleRStore hit hh) P s m → SInv s →
      Loaded (simpleRStore hit hh) P s → P.instrs[m.pc]? = some (instr, operand) → ok P m instr operand →
      StepSimOn fo host (simpleRStore hit hh) SInv P loopFuel H s m)
    (s : List Char) (toks : List LexerToken)
    (hlex : lex cc s = .ok toks) (hf : frag9' (toP toks) = true) (rt : RTree)
    (href : refParse Table.gen (toP toks) = .ok rt) (p : Program F) (hel : elaborate pf (toP toks) rt = some p)
    (hwf : C01.WFProgram p) (input : Val F) (fuel : Nat) (v : Val F) (st : St F)
    (h : evalProgram fo host fuel p input = .ok (v, st)) :
    ∃ d entry n, buildText pf cc s = .ok (d, entry) ∧
      ∀ (ρ : Nat → Nat) (C : Array (Val F)), ConstsAgree ρ C (progOf d) →
        C[0]? = some .unit → C[1]? = some .fls → C[2]? = some .tru → C.toList.all isLeafS = true →
        isLeafS input = true →
        RunOKG fo (ok (relocBy ρ C (progOf d))) host (relocBy ρ C (progOf d)) n
          { pc := (progOf d).jumps[entry]?.getD 0, regs := [], vals := [input], frames := [], trace := [] } →
        ∃ s' a, executeLoop fo (simpleRStore hit hh) loopFuel H n
            (loadSimple (relocBy ρ C (progOf d)) ((progOf d).jumps[entry]?.getD 0) input) = .ok ((.end_, n), s') ∧
          s'.values = [a] ∧ Decodes (simView s'.cells) a v ∧ (simpleRStore hit hh).regs s' = [] ∧
          (simpleRStore hit hh).frames s' = [] ∧ SInv s' := by
  obtain ⟨d, entry, hb, n, m, hrun, hv, hr, hfr, _⟩ :=
    C01_text_correct pf cc fo host s toks hlex hf rt href p hel hwf input fuel v st h
  refine ⟨d, entry, n, hb, fun ρ C hag h0 h1 h2 hleaf hin hok => ?_⟩
  have hload := C01_loadSimple_loaded hit hh (relocBy ρ C (progOf d)) ((progOf d).jumps[entry]?.getD 0) input hleaf hin
  have hinv : SInv (loadSimple (relocBy ρ C (progOf d)) ((progOf d).jumps[entry]?.getD 0) input) :=
    C01_loadSimple_inv _ _ _ h0 h1 h2
  rw [← run_relocBy fo host hag] at hrun
  exact refine_run_value_gen (S := simpleRStore hit hh) fo host (ok (relocBy ρ C (progOf d))) loopFuel H
    (hstep (relocBy ρ C (progOf d))) n hload.sim hinv hload.consts hok hrun hv hr hfr

end Garnish.Props.C01TextStore
