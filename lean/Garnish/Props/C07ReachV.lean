/-
C07 on stores on which programs have RUN: `C07_reachable_no_panic` (Props/C07Reach.lean) extended by the in-place
update of the input value — `*get_current_value_mut() = v`, what the runtime's `update_value`, `end_expression` and
reapply do.  After such an update an input-value cell may refer to data at a HIGHER address, so the invariant `WF`
of Props/C19.lean no longer holds; `WFq` (Lemmas/MutWF.lean) lets input-value cells link anywhere, keeps the
input-value stack a chain, and is proved to be kept by every operation:

* appending constructors, stacks, retention, symbol names: Lemmas/MutOps*.lean, MutList.lean
* `set_current_value`: Lemmas/MutSet.lean
* `clone_data`: Lemmas/MutClone.lean (with the provenance invariant of the reversed walk, Lemmas/MutProv.lean)
* `optimize`: Lemmas/MutOptimize.lean — the retained cells of the chain are re-pointed by the re-pointing loop.
  One side condition (`noStale`, decidable, part of the guard of the `optimize` step): a retained input-value cell that
  refers to data behind the retention count is still on the current chain.  A cell that was updated in place, then
  popped, keeps a stale address which the implementation never reads; the heap stays well formed for the accessors
  (observed by the REACH tie) but the proof does not follow such cells.

`OpV` = `Op` + `setCurrentValue`; `runV` from the empty store; `C07_reachable_no_panic_mut`.
Stores without in-place updates satisfy `noStale` (`noStale_of_wf`), so `runV` extends `run`: `run_runV`.
-/
import Garnish.Props.C07Reach
import Garnish.Lemmas.MutStale
import Garnish.Lemmas.MutList
import Garnish.Lemmas.MutClone
namespace Garnish.Props.C07ReachV
open Garnish Garnish.Access Garnish.Access.Runtime Garnish.BasicOpt Garnish.Props.C19 Garnish.Props.C07Access
open Garnish.Props.C07Reach

/-- a store-constructor operation or the in-place update of the current input value -/
inductive OpV where
  | op (o : Op)
  | setCurrentValue (v : Nat)
deriving Repr

/-- the operation on the store model; `optimize` additionally checks `noStale` -/
def stepV (s : Store) : OpV → Outcome Store
  | .op (.optimize roots) => guard (rootsOK s roots && noStale s) ((s.optimize roots).bind fun p => .ok p.1)
  | .op o => step s o
  | .setCurrentValue v => guard (isNode s.cells v) (s.setCurrentValue v)

def runV : List OpV → Store → Outcome Store
  | [], s => .ok s
  | op :: ops, s => (stepV s op).bind (runV ops)

theorem publicValue_nsv {c : Cell} (h : publicValue c = true) : isSV c = false := by
  cases c <;> simp [publicValue] at h <;> rfl

/-- **every operation keeps `WFq`** -/
theorem stepV_wfq {s s' : Store} {op : OpV} (hs : WFq s) (h : stepV s op = .ok s') : WFq s' := by
  cases op with
  | setCurrentValue v =>
    obtain ⟨hb, hk⟩ := guard_ok h
    exact setCurrentValue_wfq hs hb hk
  | op o =>
    cases o with
    | addValue c =>
      simp only [stepV, step] at h
      cases hso : soloShape c with
      | none => rw [hso] at h; simp at h
      | some sh =>
        rw [hso] at h
        obtain ⟨hb, hk⟩ := guard_ok h
        obtain ⟨i, hp⟩ := bind_fst_ok hk
        simp only [Bool.and_eq_true, List.all_eq_true, decide_eq_true_eq] at hb
        exact (push_solo_wfq hs hso (publicValue_nsv hb.1) (fun k hkm => hb.2 k hkm) hp).1
    | addChars cs =>
      obtain ⟨a, hp⟩ := bind_fst_ok h
      exact (addInline_wfq hs (Or.inl ⟨rfl, by
        intro c hc; simp only [List.mem_map] at hc; obtain ⟨x, _, rfl⟩ := hc; rfl⟩) hp).1
    | addBytes bs =>
      obtain ⟨a, hp⟩ := bind_fst_ok h
      exact (addInline_wfq hs (Or.inr ⟨rfl, by
        intro c hc; simp only [List.mem_map] at hc; obtain ⟨x, _, rfl⟩ := hc; rfl⟩) hp).1
    | buildList items =>
      obtain ⟨hb, hk⟩ := guard_ok h
      obtain ⟨li, hp⟩ := bind_fst_ok hk
      simp only [List.all_eq_true] at hb
      exact (buildList_wfq hs hb hp).1
    | mergeSymbolList a b =>
      obtain ⟨hb, hk⟩ := guard_ok h
      obtain ⟨i, hp⟩ := bind_fst_ok hk
      simp only [Bool.and_eq_true] at hb
      exact (mergeToSymbolList_wfq hs hb.1 hb.2 hp).1
    | addSymbol sym name =>
      obtain ⟨a, hp⟩ := bind_fst_ok h
      exact (parseAddSymbol_wfq hs hp).1
    | pushRegister v => obtain ⟨hb, hk⟩ := guard_ok h; exact pushRegister_wfq hs hb hk
    | pushValue v => obtain ⟨hb, hk⟩ := guard_ok h; exact pushValue_wfq hs hb hk
    | pushFrame ret => exact pushFrame_wfq hs h
    | popRegister => obtain ⟨r, hp⟩ := bind_fst_ok h; exact (popRegister_wfq hs hp).1
    | popValue =>
      simp only [stepV, step, Outcome.ok.injEq] at h
      rw [← h]; exact (popValue_wfq hs).1
    | popFrame => obtain ⟨r, hp⟩ := bind_fst_ok h; exact popFrame_wfq hs hp
    | retainAll =>
      simp only [stepV, step, Outcome.ok.injEq] at h
      rw [← h]; exact retainAll_wfq hs
    | setRetention n =>
      obtain ⟨hb, hk⟩ := guard_ok h
      simp only [Outcome.ok.injEq] at hk
      simp only [Bool.and_eq_true, decide_eq_true_eq, List.all_eq_true, List.mem_range] at hb
      rw [← hk]; exact setRetention_wfq hs hb.1 hb.2
    | optimize roots =>
      obtain ⟨hb, hk⟩ := guard_ok h
      obtain ⟨m, hp⟩ := bind_fst_ok hk
      simp only [Bool.and_eq_true] at hb
      exact (optimize_wfq hs hb.1 (noStale_sound hb.2) hp).1
    | cloneData a =>
      obtain ⟨hb, hk⟩ := guard_ok h
      obtain ⟨r, hp⟩ := bind_fst_ok hk
      exact (cloneData_wfq hs hb hp).1

theorem runV_wfq : ∀ (ops : List OpV) {s s' : Store}, WFq s → runV ops s = .ok s' → WFq s'
  | [], s, s', hs, h => by simp only [runV, Outcome.ok.injEq] at h; rw [← h]; exact hs
  | op :: ops, s, s', hs, h => by
    simp only [runV] at h
    cases hst : stepV s op with
    | ok s1 => rw [hst] at h; exact runV_wfq ops (stepV_wfq hs hst) h
    | err e => rw [hst] at h; simp [Outcome.bind] at h
    | panic m => rw [hst] at h; simp [Outcome.bind] at h
    | fuelOut => rw [hst] at h; simp [Outcome.bind] at h

/-- the stores reachable by constructor operations and in-place updates of the input value -/
def ReachableV (s : Store) : Prop := ∃ ops, runV ops Store.fresh = .ok s

theorem WFq_reachableV {s : Store} (h : ReachableV s) : WFq s := by
  obtain ⟨ops, hrun⟩ := h
  exact runV_wfq ops WFq_fresh hrun

/-- **C07_reachable_no_panic_mut**: after any sequence of store-constructor operations AND in-place updates of the
current input value from the empty store, on every heap that represents the resulting store, every accessor /
iterator constructor / slicing conversion — any address, any index, any extent — answers `Ok` / `Err`, never panics -/
theorem C07_reachable_no_panic_mut {ops : List OpV} {s : Store} {h : Heap} (hrun : runV ops Store.fresh = .ok s)
    (hr : Represents s h) : AccessSafe h :=
  accessSafe_of_wf (wfq_implies_accessWF (runV_wfq ops WFq_fresh hrun) hr)

/-- on the stores of Props/C07Reach.lean the extended step is the old step -/
theorem step_stepV {s s' : Store} {o : Op} (hs : Reachable s) (h : step s o = .ok s') : stepV s (.op o) = .ok s' := by
  cases o with
  | optimize roots =>
    obtain ⟨hb, hk⟩ := guard_ok h
    simp only [stepV, C07Reach.guard, hb, noStale_of_wf (WF_reachable hs), Bool.and_self, if_true]
    exact hk
  | _ => exact h

/-- `runV` extends `run`: every op sequence of `C07_reachable_no_panic` is an op sequence of the new theorem -/
theorem run_runV : ∀ (ops : List Op) {s s' : Store}, Reachable s → run ops s = .ok s' →
    runV (ops.map .op) s = .ok s'
  | [], _, _, _, h => h
  | o :: ops, s, s', hs, h => by
    simp only [run] at h
    simp only [List.map_cons, runV]
    cases hst : step s o with
    | ok s1 =>
      rw [hst] at h
      rw [step_stepV hs hst]
      exact run_runV ops (step_reachable hs hst) h
    | err e => rw [hst] at h; simp [Outcome.bind] at h
    | panic m => rw [hst] at h; simp [Outcome.bind] at h
    | fuelOut => rw [hst] at h; simp [Outcome.bind] at h

/-! ### non-vacuity: a run-time update to data created later, compaction, then out-of-range extents -/

/-- `runV` with the fuelled sort (see `stepK`) -/
def stepVK (s : Store) : OpV → Outcome Store
  | .op (.optimize roots) => guard (rootsOK s roots && noStale s) ((s.optimize roots).bind fun p => .ok p.1)
  | .op o => stepK s o
  | .setCurrentValue v => guard (isNode s.cells v) (s.setCurrentValue v)

def runVK : List OpV → Store → Outcome Store
  | [], s => .ok s
  | op :: ops, s => (stepVK s op).bind (runVK ops)

theorem stepV_eq (s : Store) (op : OpV) : stepV s op = stepVK s op := by
  cases op with
  | setCurrentValue v => rfl
  | op o => cases o <;> first | rfl | (simp only [stepV, stepVK]; exact step_eq s _)

theorem runV_eq : ∀ (ops : List OpV) (s : Store), runV ops s = runVK ops s
  | [], _ => rfl
  | op :: ops, s => by
    simp only [runV, runVK, stepV_eq]
    congr 1
    funext s1
    exact runV_eq ops s1

/-- `"ab"`, `1`, an input value `1` (cell 4), retain; then — at run time — a cell that becomes garbage, `"cd"`, the
list `("ab", "cd")` at 9, the input value updated in place to that list (9 > 4), compaction -/
def exOpsV : List OpV :=
  [.op (.addChars [97, 98]), .op (.addValue (.number 1)), .op (.pushValue 3), .op .retainAll,
   .op (.addValue (.number 7)), .op (.addChars [99, 100]), .op (.buildList [0, 6]), .setCurrentValue 9,
   .op (.optimize [])]

/-- before the compaction the input-value cell links upwards: `WF` fails, `WFq` holds -/
example : (match runV (exOpsV.take 8) Store.fresh with
    | .ok s => decide (s.cells[4]? = some (.valueRoot 9) ∧ s.cells.size = 14) && !decide (WF s) && decide (WFq s)
    | _ => false) = true := by rw [runV_eq]; decide +kernel

/-- the compaction drops the garbage cell, moves the list from 9 to 8 and re-points the retained input-value cell;
the result is `WFq` and its heap view is well formed for the accessors -/
example : (match runV exOpsV Store.fresh with
    | .ok s => decide (s.cells[4]? = some (.valueRoot 8) ∧ s.cells[8]? = some (.list 2 0) ∧ s.cells.size = 13) &&
        decide (WFq s) && decide (toAccessHeap s).WF
    | _ => false) = true := by rw [runV_eq]; decide +kernel

/-- accessors on it with out-of-range extents -/
example : (match runV exOpsV Store.fresh with
    | .ok s =>
      (match getListItemIter (toAccessHeap s) 8 (.int (-5)) (.int 2147483647),
             getCharListIter (toAccessHeap s) 5 (.int 1) (.int 100) with
        | .ok l1, .ok l2 => decide (l1 = [0, 5] ∧ l2 = [100])
        | _, _ => false)
    | _ => false) = true := by rw [runV_eq]; decide +kernel

example : ∀ s, runV exOpsV Store.fresh = .ok s →
    s.start + s.cells.size + (s.size - s.cells.size + s.custom.size) ≤ USIZE_MAX → AccessSafe (toAccessHeap s) :=
  fun s hrun hsz => C07_reachable_no_panic_mut hrun (toAccessHeap_represents s hsz)

end Garnish.Props.C07ReachV
