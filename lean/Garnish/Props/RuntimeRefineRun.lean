/-
Runtime refinement, part 8 (C01 anchor): THE RUN. The address-level loop `executeLoop` (repeat
`execute_current_instruction` until `End`, Model/Runtime/Run.lean) follows `Abs.Machine.run`:

`C01_refine_run`: for any store with `StoreLawsRun` (the trait contract plus "a decodable address lies inside the
data"), any host refined by the store's extension points (`HostRefines`), related start states (`Sim`), the program's
constants stored at their own addresses (`Loaded`: static — every step keeps it, `DecKept`) and the machine-only side
conditions along the machine's run (`RunOK`): if the machine halts in `m'` after `k` steps, the loop answers `End` after
the SAME `k` steps in a state whose registers, input values and frames decode to those of `m'`.
`C01_refine_run_value`: in particular, when the machine ends with the single input value `v`, the store ends with a
single input-value address, and it decodes to `v`.
`C01_runOK_of_static`: `RunOK` holds for every run of a program that contains none of Resolve, the comparisons, Access,
Apply, EmptyApply, Equal, NotEqual, AccessLengthInternal (the instructions with a dynamic side condition); for other
programs `RunOK` is the hypothesis that remains (sizes ≤ i32::MAX, loop fuel, integer keys, no slices in look-ups,
agreement of the slice comparison — see Model/Runtime/StepDomain*.lean).
-/
import Garnish.Lemmas.RuntimeRun
import Garnish.Lemmas.RuntimeRefStore
set_option linter.unusedSimpArgs false
set_option linter.unusedVariables false
namespace Garnish.Props.RuntimeRefine
open Garnish Gen Garnish.Abs Garnish.Model.Equality Garnish.Model.Runtime Garnish.Lemmas.Runtime

variable {F σ : Type} {S : RStore F σ} {P : Prog F} {host : Host F} (fo : FloatOps F)

theorem C01_refine_run (L : StoreLawsRun S) (HR : HostRefines S host) (fuel : Nat) (cast : RM σ (Option Nat))
    (n : Nat) {s : σ} {m : MState F} (hsim : Sim S P s m) (hl : Loaded S P s) (hok : RunOK fo host P fuel n m)
    {m' : MState F} {k : Nat} (hrun : Abs.run fo host P n m = (.halted m', k)) :
    ∃ s', executeLoop fo S fuel (fullHandlers fo S fuel cast) n s = .ok ((.end_, k), s') ∧
      SimD S P s' m'.regs m'.vals m'.frames ∧ DecKept S s s' :=
  executeLoop_spec fo L HR fuel cast n s m hsim hl hok m' k hrun

/-- the final value: the machine's result is what the address left on the input-value stack denotes -/
theorem C01_refine_run_value (L : StoreLawsRun S) (HR : HostRefines S host) (fuel : Nat) (cast : RM σ (Option Nat))
    (n : Nat) {s : σ} {m : MState F} (hsim : Sim S P s m) (hl : Loaded S P s) (hok : RunOK fo host P fuel n m)
    {m' : MState F} {k : Nat} (hrun : Abs.run fo host P n m = (.halted m', k)) {v : Val F}
    (hv : m'.vals = [v]) (hr : m'.regs = []) (hf : m'.frames = []) :
    ∃ s' a, executeLoop fo S fuel (fullHandlers fo S fuel cast) n s = .ok ((.end_, k), s') ∧
      S.vals s' = [a] ∧ Decodes (S.view s') a v ∧ S.regs s' = [] ∧ S.frames s' = [] := by
  obtain ⟨s', h1, hd, _⟩ := C01_refine_run fo L HR fuel cast n hsim hl hok hrun
  have hvals := hd.vals
  rw [hv] at hvals
  obtain ⟨a, as, e1, da, t⟩ := decodesList_cons_inv hvals
  have has : as = [] := by cases t; rfl
  have hregs := hd.regs
  rw [hr] at hregs
  have hfr := hd.frames
  rw [hf] at hfr
  refine ⟨s', a, h1, by rw [e1, has], da, ?_, ?_⟩
  · generalize S.regs s' = rs at hregs; cases hregs; rfl
  · generalize S.frames s' = fs at hfr; cases hfr; rfl

/-- programs without instructions that have a dynamic side condition -/
theorem C01_runOK_of_static (fuel : Nat) (hs : StaticOK P) (n : Nat) (m : MState F) : RunOK fo host P fuel n m :=
  runOK_of_static fo fuel hs n m

/-- every step keeps the constants loaded -/
theorem C01_loaded_kept {s s' : σ} (hl : Loaded S P s) (hk : DecKept S s s') : Loaded S P s' := loaded_kept hl hk

/-- the reference store satisfies the extended contract -/
theorem refStore_lawsRun (h : RefHost F) : StoreLawsRun (refStore h) where
  toStoreLaws := refStore_laws h
  dataBound st a v hd := by
    have ht := Garnish.Lemmas.EqualityRefine.decodes_typeOf hd
    change (refView st.cells).typeOf a = _ at ht
    rw [rv_typeOf] at ht
    show a < st.cells.length
    cases hc : st.cells[a]? with
    | none => rw [hc] at ht; cases ht
    | some c =>
      apply Nat.lt_of_not_le
      intro hle
      rw [List.getElem?_eq_none hle] at hc
      cases hc

end Garnish.Props.RuntimeRefine
