/-
C09 — number arithmetic is exact or unit, never wrapped.
Property theorems only; helper lemmas are in Garnish/Lemmas/Num.lean.
-/
import Garnish.Spec.Num
import Garnish.Lemmas.Num
namespace Garnish.Props.C09
open Garnish Garnish.Number

variable {F : Type} (fo : FloatOps F)

/-! ### integers: every operation equals the exact specification, for all i32 operands -/

theorem C09_int_plus (a b : Int) (ha : InRange a) (hb : InRange b) :
    plus fo (.int a) (.int b) = (Spec.add a b).map .int := Lemmas.plus_int fo a b ha hb
theorem C09_int_subtract (a b : Int) (ha : InRange a) (hb : InRange b) :
    subtract fo (.int a) (.int b) = (Spec.sub a b).map .int := Lemmas.subtract_int fo a b ha hb
theorem C09_int_multiply (a b : Int) (ha : InRange a) (hb : InRange b) :
    multiply fo (.int a) (.int b) = (Spec.mul a b).map .int := Lemmas.multiply_int fo a b ha hb
theorem C09_int_divide (a b : Int) (ha : InRange a) (hb : InRange b) :
    divide fo (.int a) (.int b) = (Spec.div a b).map .int := Lemmas.divide_int fo a b ha hb
theorem C09_int_integerDivide (a b : Int) (ha : InRange a) (hb : InRange b) :
    integerDivide fo (.int a) (.int b) = (Spec.div a b).map .int := Lemmas.integerDivide_int fo a b ha hb
theorem C09_int_remainder (a b : Int) (ha : InRange a) (hb : InRange b) :
    remainder fo (.int a) (.int b) = (Spec.rem a b).map .int := Lemmas.remainder_int fo a b ha hb
theorem C09_int_power (a b : Int) (ha : InRange a) (hb : InRange b) :
    power fo (.int a) (.int b) = (Spec.pow a b).map .int := Lemmas.power_int fo a b ha hb
theorem C09_int_opposite (a : Int) (ha : InRange a) :
    opposite fo (.int a) = (Spec.neg a).map .int := Lemmas.opposite_int fo a ha
theorem C09_int_absoluteValue (a : Int) (ha : InRange a) :
    absoluteValue fo (.int a) = (Spec.abs a).map .int := Lemmas.absoluteValue_int fo a ha
theorem C09_int_increment (a : Int) (ha : InRange a) :
    increment fo (.int a) = (Spec.inc a).map .int := Lemmas.increment_int fo a ha
theorem C09_int_decrement (a : Int) (ha : InRange a) :
    decrement fo (.int a) = (Spec.dec a).map .int := Lemmas.decrement_int fo a ha
theorem C09_int_shl (a b : Int) (ha : InRange a) (hb : InRange b) :
    bitwiseShiftLeft (F := F) (.int a) (.int b) = (Spec.shl a b).map .int := Lemmas.shl_int a b ha hb
theorem C09_int_shr (a b : Int) (ha : InRange a) (hb : InRange b) :
    bitwiseShiftRight (F := F) (.int a) (.int b) = (Spec.shr a b).map .int := Lemmas.shr_int a b ha hb

/-- and / or / xor / not: the result is an i32 whose every bit is the bit operation of the operands' bits -/
theorem C09_int_bitwiseAnd (a b : Int) :
    ∃ r, bitwiseAnd (F := F) (.int a) (.int b) = some (.int r) ∧ InRange r ∧
      ∀ i, Spec.bit r i = (Spec.bit a i && Spec.bit b i) := Lemmas.and_int a b
theorem C09_int_bitwiseOr (a b : Int) :
    ∃ r, bitwiseOr (F := F) (.int a) (.int b) = some (.int r) ∧ InRange r ∧
      ∀ i, Spec.bit r i = (Spec.bit a i || Spec.bit b i) := Lemmas.or_int a b
theorem C09_int_bitwiseXor (a b : Int) :
    ∃ r, bitwiseXor (F := F) (.int a) (.int b) = some (.int r) ∧ InRange r ∧
      ∀ i, Spec.bit r i = (Spec.bit a i ^^ Spec.bit b i) := Lemmas.xor_int a b
theorem C09_int_bitwiseNot (a : Int) :
    ∃ r, bitwiseNot (F := F) (.int a) = some (.int r) ∧ InRange r ∧
      ∀ i, i < 32 → Spec.bit r i = !Spec.bit a i := Lemmas.not_int a

/-- every integer result is representable: nothing wrapped ever escapes -/
theorem C09_int_results_in_range (op : NumOp) (a b r : Int) (ha : InRange a) (hb : InRange b)
    (h : Number.apply fo op (.int a) (.int b) = some (.int r)) : InRange r :=
  Lemmas.results_in_range fo op a b r ha hb h

/-- integer operands never produce a float -/
theorem C09_int_closed (op : NumOp) (a b : Int) (f : F) :
    Number.apply fo op (.int a) (.int b) ≠ some (.float f) := Lemmas.int_closed fo op a b f

/-! ### floats and mixed operands: decision logic over an abstract IEEE type -/

/-- the binary arithmetic operations on at least one float return the float result when it is finite
and none otherwise (NaN and infinities alike), with the integer operand promoted by `ofInt` -/
theorem C09_float_logic (l r : Number F) (hmixed : ¬ (∃ a b, l = .int a ∧ r = .int b)) :
    let lf := match l with | .int a => fo.ofInt a | .float x => x
    let rf := match r with | .int b => fo.ofInt b | .float y => y
    let fin := fun (f : F) => if fo.isFinite f then some (Number.float f) else none
    plus fo l r = fin (fo.add lf rf) ∧ subtract fo l r = fin (fo.sub lf rf) ∧
    multiply fo l r = fin (fo.mul lf rf) ∧
    divide fo l r = (if isZeroNum fo r then none else fin (fo.div lf rf)) ∧
    remainder fo l r = (if isZeroNum fo r then none else fin (fo.rem lf rf)) :=
  Lemmas.float_logic fo l r hmixed

/-- a float result is never non-finite -/
theorem C09_float_results_finite (op : NumOp) (l r : Number F) (f : F)
    (hop : op = .plus ∨ op = .subtract ∨ op = .multiply ∨ op = .divide ∨ op = .remainder ∨ op = .power)
    (h : Number.apply fo op l r = some (.float f)) : fo.isFinite f = true :=
  Lemmas.float_results_finite fo op l r f hop h

/-- bitwise operations on a float operand have no result -/
theorem C09_bitwise_float_none (op : NumOp) (l r : Number F)
    (hop : op = .bitwiseAnd ∨ op = .bitwiseOr ∨ op = .bitwiseXor ∨ op = .bitwiseShiftLeft ∨ op = .bitwiseShiftRight)
    (hf : (∃ x, l = .float x) ∨ (∃ y, r = .float y)) : Number.apply fo op l r = none :=
  Lemmas.bitwise_float_none fo op l r hop hf

theorem C09_bitwiseNot_float_none (x : F) : bitwiseNot (.float x) = none := rfl

/-- negative exponents have no result, whatever the representation -/
theorem C09_power_negative_exponent (l : Number F) (b : Int) (hb : b < 0) :
    power fo l (.int b) = none := Lemmas.power_neg fo l b hb

/-- What C09 asks of `//` with a float operand: the truncated quotient when it is an i32, none otherwise.
    NOT proved — it is false of the code: `as i32` saturates (`1e300 // 1.0` is 2147483647), and the
    repository's own test `integer_division_overflow` pins that behaviour, so it is recorded as
    known finding F-C09-1 instead of being repaired. What is proved is the `_partial` statement below. -/
def C09_integerDivide_float_full_statement : Prop :=
  ∀ (l r : Number F), ¬ (∃ a b, l = .int a ∧ r = .int b) →
    let lf := match l with | .int a => fo.ofInt a | .float x => x
    let rf := match r with | .int b => fo.ofInt b | .float y => y
    integerDivide fo l r = (if isZeroNum fo r then none else (fo.toI32? (fo.div lf rf)).map .int)

/-- `//` with a float operand: zero divisor has no result; otherwise the code returns the *saturating*
    conversion of the quotient, which is the exact truncated quotient whenever that is an i32
    (hypothesis `hsat`, the defining law of Rust's `as i32`). -/
theorem C09_integerDivide_float_partial (l r : Number F) (hmixed : ¬ (∃ a b, l = .int a ∧ r = .int b))
    (hsat : ∀ q v, fo.toI32? q = some v → fo.toI32Sat q = v) :
    let lf := match l with | .int a => fo.ofInt a | .float x => x
    let rf := match r with | .int b => fo.ofInt b | .float y => y
    (isZeroNum fo r = true → integerDivide fo l r = none) ∧
    (isZeroNum fo r = false → ∀ v, fo.toI32? (fo.div lf rf) = some v → integerDivide fo l r = some (.int v)) :=
  Lemmas.integerDivide_float fo l r hmixed hsat

/-! ### non-vacuity -/
example : InRange 2147483647 ∧ InRange (-2147483648) := by decide
example : Spec.add 2147483647 1 = none ∧ Spec.add 2147483646 1 = some 2147483647 := by decide
example : Spec.rem (-2147483648) (-1) = none ∧ Spec.div 7 (-2) = some (-3) ∧ Spec.rem (-7) 2 = some (-1) := by decide

end Garnish.Props.C09
