/-
The symbol look-up contract of list access (`ListSymOn`, Model/Runtime/StoreOn.lean) on `SimpleGarnishData`.

The payload model `simpleRStore` leaves `get_list_item_with_symbol` unmodelled (`err`), which is why the refinement
theorems over `StoreLawsOn` exclude the arm "symbol key into a LIST" for Simple or take `ListSymOn` as a hypothesis.
Here the getter is modelled (`simpleRStoreA`: the association table `end_list` fills by modulo placement is a function
of the items and is never written again, so the look-up is `Store.Lists.lookupSimple` on the recomputed table — the
transliteration property C16 is about, tied to the code by the LIST suite) and the contract is decided:

* `ListSym_simple_lawsOn`: the store with the getter still meets `StoreLawsOn` (the contract does not mention it).
* `ListSym_simple_distinct`: for EVERY state, every list cell built by `start_list` / `add_to_list` / `end_list` whose
  items decode to values with pairwise different symbol keys, and every symbol, the look-up returns the value of the
  item keyed by it, or "absent" — never an error (`ListSymDistinctOn`).
* `ListSym_simple_not_general`: `ListSymOn` itself is FALSE of Simple — two items keyed by the same symbol are found in
  probe order, not in list order — so the hypothesis cannot be dropped as it stands; it can be replaced:
* `ListSym_access_distinct` / `ListSym_getAccess_distinct`: the two lemmas of the refinement chain that consume
  `ListSymOn`, from `ListSymDistinctOn` plus "the list looked into has distinct keys".
-/
import Garnish.Lemmas.SimpleListSym3
namespace Garnish.Props.ListSymSimple
open Garnish Gen Garnish.Abs Garnish.Model.Equality Garnish.Model.Runtime
open Garnish.Lemmas.Runtime Garnish.Lemmas.Runtime.On Garnish.Lemmas.Runtime.Simple Garnish.Lemmas.Runtime.SimpleSym
open Garnish.Props.RuntimeRefine

variable {F σ : Type} {hit : List (SimCell F) → SimCell F → Option Nat} {h : SimHost F}

theorem ListSym_simple_lawsOn (hs : HitSound hit) : StoreLawsOn (simpleRStoreA hit h) SInv SReadable :=
  simpleA_lawsOn hs

theorem ListSym_simple_distinct (Inv : SimState F → Prop) : ListSymDistinctOn (simpleRStoreA hit h) Inv :=
  simpleA_listSymDistinct Inv

/-- the same, spelled out on the cells -/
theorem ListSym_simple_lookup {cells : List (SimCell F)} {a : Nat} {items : List Nat} {vs : List (Val F)} (sym : Nat)
    (hi : (simView cells).listItems a = some items) (hd : DecodesList (simView cells) items vs)
    (hk : DistinctKeys vs) :
    match Abs.lookupSym sym vs with
    | some v => ∃ r, simListSym cells a sym = .ok (some r) ∧ Decodes (simView cells) r v
    | none => simListSym cells a sym = .ok none :=
  simListSym_spec sym hi hd hk

theorem ListSym_simple_not_general : ¬ ListSymOn (simpleRStoreA hit h) SInv := simpleA_not_listSymOn

theorem ListSym_general_implies_distinct {S : RStore F σ} {Inv : σ → Prop} (hl : ListSymOn S Inv) :
    ListSymDistinctOn S Inv := ListSymOn.distinct hl

theorem ListSym_access_distinct {S : RStore F σ} {Inv : σ → Prop} {Rd : σ → Nat → Prop} (fo : FloatOps F)
    (L : StoreLawsOn S Inv Rd) (LS : ListSymDistinctOn S Inv) (fuel : Nat) {s : σ} {a : Nat} {v : Val F} (sym : Nat)
    (hd0 : Decodes (S.view s) a v) (hd : AccessDomain v) (hf : accessFuel v ≤ fuel) (hnc : ncConcat v)
    (hk : ∀ vs, v = .list vs → DistinctKeys vs) (hinv : Inv s) (hdp : Deep S s (S.regs s)) :
    AccOutI S Inv s (accessWithSymbol fo S fuel sym a s) (accessSym sym v) :=
  accessWithSymbol_spec_distinct fo L LS fuel sym hd0 hd hf hnc hk hinv hdp

theorem ListSym_getAccess_distinct {S : RStore F σ} {Inv : σ → Prop} {Rd : σ → Nat → Prop} (fo : FloatOps F)
    (L : StoreLawsOn S Inv Rd) (LS : ListSymDistinctOn S Inv) (fuel : Nat) {s : σ} {ka a : Nat} {key v : Val F}
    (hk : Decodes (S.view s) ka key) (hd0 : Decodes (S.view s) a v) (hd : AccessDomain v)
    (hkey : ∀ n, key = .num n → (∃ i, n = .int i) ∧ RangeOrdered fo n v) (hf : accessFuel v ≤ fuel)
    (hnc : ncConcat v) (hdk : ∀ y, key = .sym y → ∀ vs, v = .list vs → DistinctKeys vs)
    (hinv : Inv s) (hdp : Deep S s (S.regs s)) :
    AccOutI S Inv s (getAccessAddr fo S fuel ka a s) (getAccess fo key v) :=
  getAccessAddr_spec_distinct fo L LS fuel hk hd0 hd hkey hf hnc hdk hinv hdp

/-- non-vacuity: a list with two different keys is looked up as the contract says -/
example : simListSym ([.unit, .fls, .tru, .sym 5, .sym 6, .pair 3 0, .pair 4 2, .list [5, 6]] : List (SimCell Unit)) 7 6
    = .ok (some 2) := by rfl

end Garnish.Props.ListSymSimple
