/-
`SimpleGarnishData` (the payload model `simpleRStore hit h`, Model/Runtime/SimpleStore.lean) is an instance of the
relativised store contract `StoreLawsOn` (Model/Runtime/StoreOn.lean), with the invariant `SInv` and
`Readable` = "a data address that is no `StackFrame`" — given a cache that confirms its hits (`HitSound`).
`TopOpen` (what `pop_register` needs) follows from the contract's premise `Deep` / from "no frame".
-/
import Garnish.Props.RuntimeRefineSimple
import Garnish.Model.Runtime.StoreOn
namespace Garnish.Props.RuntimeRefine
open Garnish Gen Garnish.Model.Equality Garnish.Model.Runtime Garnish.Lemmas.Runtime.Simple

variable {F : Type} {hit : List (SimCell F) → SimCell F → Option Nat} {h : SimHost F}

/-- what may be pushed on Simple's stacks -/
def SReadable (st : SimState F) (a : Nat) : Prop := a < st.cells.length ∧ isFrame st.cells a = false

theorem topOpen_of_frames_nil {st : SimState F} (hf : (simpleRStore hit h).frames st = []) : TopOpen st := by
  unfold TopOpen
  cases hr : st.register with
  | nil => trivial
  | cons x xs =>
    simp only
    have hf' : framesOf st.cells (x :: xs) = [] := by rw [← hr]; exact hf
    rw [framesOf] at hf'
    unfold isFrame
    cases hc : st.cells[x]? with
    | none => rfl
    | some c =>
      rw [hc] at hf'
      cases c <;> first | rfl | cases hf'

theorem topOpen_of_deep {st : SimState F} {a : Nat} {rest : List Nat}
    (hr : (simpleRStore hit h).regs st = a :: rest) (hd : Deep (simpleRStore hit h) st rest) : TopOpen st := by
  unfold TopOpen
  cases hreg : st.register with
  | nil => trivial
  | cons x xs =>
    simp only
    cases hx : isFrame st.cells x with
    | false => rfl
    | true =>
      exfalso
      have hflat : flatRegs st.cells xs = a :: rest := by
        have : flatRegs st.cells st.register = a :: rest := hr
        rw [hreg, flatRegs_cons_frame hx] at this; exact this
      have hfr : ∃ ret, (simpleRStore hit h).frames st = (ret, flatRegs st.cells xs) :: framesOf st.cells xs := by
        show ∃ ret, framesOf st.cells st.register = _
        rw [hreg, framesOf]
        unfold isFrame at hx
        cases hc : st.cells[x]? with
        | none => rw [hc] at hx; cases hx
        | some c =>
          rw [hc] at hx
          cases c <;> first | (cases hx; done) | exact ⟨_, rfl⟩
      obtain ⟨ret, hfr⟩ := hfr
      have := hd ret _ _ hfr
      rw [hflat] at this
      simp at this
      omega

theorem addsOn_of {m : RM (SimState F) Nat} {s : SimState F} {v : Val F} (ha : AddsS (simpleRStore hit h) m s v) :
    AddsOn (simpleRStore hit h) SInv m s v := by
  obtain ⟨a, s', h1, h2, h3, h4, _⟩ := ha; exact ⟨a, s', h1, h2, h3, h4⟩

/-- **simpleStore_lawsOn**: with a cache that confirms its hits, `SimpleGarnishData` meets the relativised contract -/
theorem C01_simpleStore_lawsOn (hs : HitSound hit) : StoreLawsOn (simpleRStore hit h) SInv SReadable := by
  have L := C01_simpleStore_laws_core (h := h) hs
  exact {
    rangeTyped := L.rangeTyped, listIdx := L.listIdx, charIdx := L.charIdx, byteIdx := L.byteIdx, symIdx := L.symIdx
    addUnit := fun s hi => addsOn_of (L.addUnit s hi)
    addTrue := fun s hi => addsOn_of (L.addTrue s hi)
    addFalse := fun s hi => addsOn_of (L.addFalse s hi)
    addNumber := fun n s hi => addsOn_of (L.addNumber n s hi)
    addType := fun t s hi => addsOn_of (L.addType t s hi)
    addChar := fun c s hi => addsOn_of (L.addChar c s hi)
    addByte := fun b s hi => addsOn_of (L.addByte b s hi)
    addSymbol := fun y s hi => addsOn_of (L.addSymbol y s hi)
    addPair := fun l r vl vr s hi hl hr => addsOn_of (L.addPair l r vl vr s hi hl hr)
    addConcatenation := fun l r vl vr s hi hl hr nl nr => addsOn_of (L.addConcatenation l r vl vr s hi hl hr nl nr)
    addRange := fun l r vl vr s hi hl hr => addsOn_of (L.addRange l r vl vr s hi hl hr)
    addSlice := fun l r vl vr s hi hl hr => addsOn_of (L.addSlice l r vl vr s hi hl hr)
    addPartial := fun l r vl vr s hi hl hr => addsOn_of (L.addPartial l r vl vr s hi hl hr)
    mergeSome := fun l r vl vr v s hi hl hr hm nl nr => addsOn_of (L.mergeSome l r vl vr v s hi hl hr hm nl nr)
    startList := fun n s hi => L.startList n s hi
    addToList := fun t items a s hi hb => L.addToList t items a s hi hb
    endList := fun t items vs s hi hb hd => addsOn_of (L.endList t items vs s hi hb hd)
    popRegisterBuilding := L.popRegisterBuilding
    readable := fun s a v _ hd hv => L.readable s a v hd hv
    pushRegister := fun a s hi hr => by
      obtain ⟨s', h1, h2, h3, _⟩ := L.pushRegister a s hi hr.1 hr.2; exact ⟨s', h1, h2, h3⟩
    popRegisterNil := fun s hi hr hf => by
      obtain ⟨s', h1, h2, h3⟩ := L.popRegisterNil s (topOpen_of_frames_nil hf) hr
      exact ⟨s', h1, h2, h3 ▸ hi⟩
    popRegisterCons := fun s a rest hi hr hd => L.popRegisterCons s a rest hi (topOpen_of_deep hr hd) hr
    pushValueStack := fun a s hi _ => by
      obtain ⟨s', h1, h2, h3⟩ := L.pushValueStack a s; exact ⟨s', h1, h2, h3 hi⟩
    popValueStackNil := fun s hi hv => by
      obtain ⟨s', h1, h2, h3⟩ := L.popValueStackNil s hv; exact ⟨s', h1, h2, h3 ▸ hi⟩
    popValueStackCons := fun s a rest hi hv => by
      obtain ⟨s', h1, h2, h3⟩ := L.popValueStackCons s a rest hv; exact ⟨s', h1, h2, h3 hi⟩
    setCurrentNil := fun r s hi hv => by
      obtain ⟨s', h1, h2, h3⟩ := L.setCurrentNil r s hv; exact ⟨s', h1, h2, h3 ▸ hi⟩
    setCurrentCons := fun r s a rest hi _ hv => by
      obtain ⟨s', h1, h2, h3⟩ := L.setCurrentCons r s a rest hv; exact ⟨s', h1, h2, h3 hi⟩
    pushFrame := L.pushFrame
    popFrameNil := fun s hi hf => by
      refine ⟨{ s with register := [] }, [], popFrame_drains hi hf,
        ⟨keeps_same rfl rfl rfl rfl, rfl, rfl, rfl, hf.symm⟩, .inr rfl, ⟨hi.seeded, fun _ hb => by cases hb⟩⟩
    popFrameCons := L.popFrameCons
    setCursor := fun n s => by
      refine ⟨{ s with cursor := n }, rfl, rfl, fun _ _ hd => hd, rfl, rfl, rfl, rfl, rfl, rfl, rfl, rfl,
        fun hi => ⟨hi.seeded, hi.regs⟩⟩
    deferOp := L.deferOp, resolve := L.resolve, apply := L.apply
    dataBound := L.dataBound }

end Garnish.Props.RuntimeRefine
