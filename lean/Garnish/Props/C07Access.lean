/-
C07 — executing a built program never panics the host: the index / extent arithmetic.

The models (Model/Access.lean, Model/AccessSimple.lean, Model/AccessRuntime.lean) transliterate, statement by
statement, every place where the two data objects and the runtime's access path compute an index, cast a number to
`usize`, slice the heap `Vec` by a computed range, index a `Vec`, or `unwrap` — with each Rust panic condition
(out-of-bounds index, reversed or overlong slice range, `usize` / `i64` overflow under overflow-checks, `unwrap` on
`Err`, `unimplemented!`) as an explicit `Outcome.panic`.  The theorems say that `panic` is unreachable, for EVERY
`i32` or float index, EVERY extent (negative, reversed, beyond the end, `i32::MIN` / `i32::MAX`, NaN, ±∞) and EVERY
well-formed heap (`Heap.WF`, decidable: Spec/AccessWF.lean), and give the results the accessors compute.
`Safe o` = `o` is `ok _` or `err _`; `NoPanic o` = `o` is not `panic _` (a fuel-bounded model loop may answer
`fuelOut`).  Tie to the code: the ACCESS suite (harness/src/access.rs, Driver/AccessDrv.lean, tools/gen/accessgen.py)
runs the real accessors and these models on the same boundary-heavy cases in `./check C07`.
-/
import Garnish.Lemmas.AccessRuntime3
namespace Garnish.Props.C07Access
open Garnish Garnish.Access Garnish.Access.Runtime
open Garnish.BasicOpt (Cell)

/-! ## BasicGarnishData, data level -/

/-- `get_from_data_block_ensure_index`: `Err` from the cursor on, the cell below it; the `Vec` index cannot be out of bounds -/
theorem C07_ensure_index_total {h : Heap} (wf : h.WF) (i : Nat) :
    (h.cursor ≤ i ∧ h.getData i = .err .data) ∨ (i < h.cursor ∧ ∃ c, h.cell i = some c ∧ h.getData i = .ok c) :=
  getData_cases wf i

/-- the four item getters return `Ok` or `Err` for every address, every integer index and every float index -/
theorem C07_item_getters_total {h : Heap} (wf : h.WF) (la : Nat) (ix : Num) :
    Safe (getListItem h la ix) ∧ Safe (getCharListItem h la ix) ∧ Safe (getByteListItem h la ix) ∧
    Safe (getSymbolListItem h la ix) := by
  refine ⟨(getListItem_spec wf la ix).1, ?_, ?_, ?_⟩
  · rw [getCharListItem_eq]; exact (genItem_spec wf (fits_chars wf) (fun _ _ => asChar_of) la ix).1
  · rw [getByteListItem_eq]; exact (genItem_spec wf (fits_bytes wf) (fun _ _ => asByte_of) la ix).1
  · rw [getSymbolListItem_eq]; exact (genItem_spec wf (fits_parts wf) (fun _ _ => asPart_of) la ix).1

/-- `get_list_item` on a list of `n` items: no item for a negative index, `Err(InvalidListItemIndex)` from `n` on, the
item's address in between — for every index, `i32::MIN` and `i32::MAX` and floats included -/
theorem C07_list_item_exact {h : Heap} (wf : h.WF) {la n k : Nat} (hla : la < h.cursor)
    (hc : h.cell la = some (.list n k)) (ix : Num) :
    ∃ items, collectItems (h.cellsAt (la + 1) n) = .ok items ∧ items.length = n ∧
      getListItem h la ix =
        if ix.ltZero then .ok none else if usizeFrom ix ≥ n then .err .data else .ok items[usizeFrom ix]? :=
  (getListItem_spec wf la ix).2 n k hla hc

/-- `get_char_list_item` on a text of `n` characters: the `max(index, 0)`-th character, `None` from `n` on -/
theorem C07_char_list_item_exact {h : Heap} (wf : h.WF) {la n : Nat} (hla : la < h.cursor)
    (hc : h.cell la = some (.charList n)) (ix : Num) :
    ∃ cs, unwrapChars (h.cellsAt (la + 1) n) = .ok cs ∧ cs.length = n ∧ getCharListItem h la ix = .ok cs[usizeFrom ix]? := by
  rw [getCharListItem_eq]
  exact (genItem_spec wf (fits_chars wf) (fun _ _ => asChar_of) la ix).2 _ n hla hc rfl

theorem C07_byte_list_item_exact {h : Heap} (wf : h.WF) {la n : Nat} (hla : la < h.cursor)
    (hc : h.cell la = some (.byteList n)) (ix : Num) :
    ∃ bs, unwrapBytes (h.cellsAt (la + 1) n) = .ok bs ∧ bs.length = n ∧ getByteListItem h la ix = .ok bs[usizeFrom ix]? := by
  rw [getByteListItem_eq]
  exact (genItem_spec wf (fits_bytes wf) (fun _ _ => asByte_of) la ix).2 _ n hla hc rfl

theorem C07_symbol_list_item_exact {h : Heap} (wf : h.WF) {la n : Nat} (hla : la < h.cursor)
    (hc : h.cell la = some (.symbolList n)) (ix : Num) :
    ∃ ps, collectParts (h.cellsAt (la + 1) n) = .ok ps ∧ ps.length = n ∧ getSymbolListItem h la ix = .ok ps[usizeFrom ix]? := by
  rw [getSymbolListItem_eq]
  exact (genItem_spec wf (fits_parts wf) (fun _ _ => asPart_of) la ix).2 _ n hla hc rfl

/-- `extents_to_start_end` overflows `usize` only if the announced cells themselves lie beyond `usize::MAX`: the cast
extents are `min`-ed with the length before anything is added, so no extent — however large — can overflow it -/
theorem C07_extents_overflow_iff (s e : Num) (base len : Nat) :
    (∃ m, extentsToStartEnd s e base len = .panic m) ↔
      USIZE_MAX < base + 1 + max (min (usizeFrom s) len) (min (usizeFrom e) len) :=
  extentsToStartEnd_panics_iff s e base len

/-- slicing the heap panics exactly for a reversed range or one that ends past the allocation (what the guards must,
and do, exclude) -/
theorem C07_raw_slice_panics_iff (h : Heap) (a b : Nat) (site : String) :
    (∃ m, h.rawSlice a b site = .panic m) ↔ (b < a ∨ h.heap.size < b) :=
  rawSlice_panics_iff h a b site

/-- the four iterator constructors of the data block return `Ok` or `Err` for every address and every extent -/
theorem C07_iterators_total {h : Heap} (wf : h.WF) (li : Nat) (s e : Num) :
    Safe (getListItemIter h li s e) ∧ Safe (getCharListIter h li s e) ∧ Safe (getByteListIter h li s e) ∧
    Safe (getSymbolListIter h li s e) := by
  refine ⟨getListItemIter_safe wf li s e, ?_, ?_, ?_⟩
  · rw [getCharListIter_eq]; exact (genIter_spec wf (bad_panic _) (fits_chars wf) _ li s e).1
  · rw [getByteListIter_eq]; exact (genIter_spec wf (bad_panic _) (fits_bytes wf) _ li s e).1
  · rw [getSymbolListIter_eq]; exact (genIter_spec wf (bad_err _) (fits_parts wf) _ li s e).1

/-- `get_char_list_iter` yields exactly the characters from `min(start, n)` up to `min(end, n)` -/
theorem C07_char_list_iter_yields {h : Heap} (wf : h.WF) {li n : Nat} (hli : li < h.cursor)
    (hc : h.cell li = some (.charList n)) (s e : Num) :
    ∃ cs, unwrapChars (h.cellsAt (li + 1) n) = .ok cs ∧ cs.length = n ∧
      getCharListIter h li s e = .ok (cs.extract (extentLo s n) (extentHi s e n)) := by
  rw [getCharListIter_eq]
  exact (genIter_spec wf (bad_panic _) (fits_chars wf) _ li s e).2 _ n hli hc rfl

theorem C07_byte_list_iter_yields {h : Heap} (wf : h.WF) {li n : Nat} (hli : li < h.cursor)
    (hc : h.cell li = some (.byteList n)) (s e : Num) :
    ∃ bs, unwrapBytes (h.cellsAt (li + 1) n) = .ok bs ∧ bs.length = n ∧
      getByteListIter h li s e = .ok (bs.extract (extentLo s n) (extentHi s e n)) := by
  rw [getByteListIter_eq]
  exact (genIter_spec wf (bad_panic _) (fits_bytes wf) _ li s e).2 _ n hli hc rfl

theorem C07_symbol_list_iter_yields {h : Heap} (wf : h.WF) {li n : Nat} (hli : li < h.cursor)
    (hc : h.cell li = some (.symbolList n)) (s e : Num) :
    ∃ ps, collectParts (h.cellsAt (li + 1) n) = .ok ps ∧ ps.length = n ∧
      getSymbolListIter h li s e = .ok (ps.extract (extentLo s n) (extentHi s e n)) := by
  rw [getSymbolListIter_eq]
  exact (genIter_spec wf (bad_err _) (fits_parts wf) _ li s e).2 _ n hli hc rfl

theorem C07_list_item_iter_yields {h : Heap} (wf : h.WF) {li n k : Nat} (hli : li < h.cursor)
    (hc : h.cell li = some (.list n k)) (s e : Num) :
    ∃ items, collectItems (h.cellsAt (li + 1) n) = .ok items ∧ items.length = n ∧
      getListItemIter h li s e = .ok (items.extract (extentLo s n) (extentHi s e n)) := by
  rw [getListItemIter_eq]
  exact (genIter_spec wf (bad_err _) (fits_items wf) _ li s e).2 _ n hli hc (by simp [asListLen, asList])

/-- a descending extent (after clamping) selects nothing, in every sequence -/
theorem C07_descending_extent_empty {α} (xs : List α) (s e : Num) (n : Nat)
    (h : min (usizeFrom e) n ≤ min (usizeFrom s) n) : xs.extract (extentLo s n) (extentHi s e n) = [] :=
  extract_descending xs s e n h

/-- the bounds an extent is clamped to: `start ≤ end ≤ len` whatever the two numbers are -/
theorem C07_extent_bounds (s e : Num) (n : Nat) : extentLo s n ≤ extentHi s e n ∧ extentHi s e n ≤ n :=
  ⟨extentLo_le_hi s e n, extentHi_le_len s e n⟩

/-- `get_concatenation_iter`: no panic whatever the model's fuel; with fuel `3^index` (the loop's potential: a
concatenation refers to two earlier cells) it returns `Ok` or `Err`, and what it yields is the clamped slice of the
flattened items -/
theorem C07_concatenation_iter_total {h : Heap} (wf : h.WF) (fuel index : Nat) (s e : Num) :
    NoPanic (getConcatenationIter h fuel index s e) ∧
    (3 ^ index ≤ fuel → Safe (getConcatenationIter h fuel index s e)) ∧
    (3 ^ index ≤ fuel → ∀ items, concatLoop h fuel [index] [] = .ok items →
      (∃ l r, h.cell index = some (.concatenation l r)) → index < h.cursor →
      getConcatenationIter h fuel index s e = .ok (items.extract (extentLo s items.length) (extentHi s e items.length))) :=
  ⟨getConcatenationIter_noPanic wf fuel index s e,
   fun hf => (getConcatenationIter_safe wf hf s e).1,
   fun hf => (getConcatenationIter_safe wf hf s e).2⟩

/-- the association slice of `get_list_item_with_symbol` and the conversions that slice by a computed range
(`conversions/bytes.rs` — which forgets the block base —, the `for i in from+1..from+1+len` loops, the index into
`[0; 4]` of `conversions/number.rs`, `end - 1` of `conversions/string.rs`) never panic -/
theorem C07_slicing_conversions_total {h : Heap} (wf : h.WF) (a : Nat) :
    Safe (getAssociationSlice h a) ∧ Safe (convertBytesSlice h a) ∧
    (∀ n, a + n < h.cursor → Safe (inlineCellsAt h a n)) ∧
    (∀ bytes, Safe (bytesToI32 bytes)) ∧
    (∀ len i, a + 1 + len ≤ USIZE_MAX → Safe (separatorAfter a len i)) :=
  ⟨getAssociationSlice_safe wf a, convertBytesSlice_safe wf a, inlineCellsAt_safe wf a,
   bytesToI32_safe, fun _ i hb => separatorAfter_safe i hb⟩

/-! ## SimpleGarnishData -/

/-- every item getter answers `Ok` or `Err` for every index (`item_index as usize` of a negative index is a huge
index, `Vec::get` / `nth` answer `None`); the flat iterator constructors never fail -/
theorem C07_simple_accessors_total (d : Simple.SData) (a : Nat) (ix : Num) :
    Safe (Simple.getListItem d a ix) ∧ Safe (Simple.getCharListItem d a ix) ∧ Safe (Simple.getByteListItem d a ix) ∧
    Safe (Simple.getSymbolListItem d a ix) ∧
    (∃ xs, Simple.getCharListIter d a = .ok xs) ∧ (∃ xs, Simple.getByteListIter d a = .ok xs) ∧
    (∃ xs, Simple.getSymbolListIter d a = .ok xs) ∧ (∃ xs, Simple.getListItemIter d a = .ok xs) :=
  ⟨Simple.getListItem_safe d a ix, Simple.getCharListItem_safe d a ix, Simple.getByteListItem_safe d a ix,
   Simple.getSymbolListItem_safe d a ix, Simple.flatIters_ok d a⟩

/-- the item count of a slice of a concatenation inside a concatenation (`collect_concatenation_indices`, after fix
fbec859): a value for ALL `i32` bounds — 0 for a descending extent, `end - start + 1` otherwise -/
theorem C07_simple_slice_count_total {s e : Int} (hs : InRange s) (he : InRange e) :
    Simple.sliceCount s e = .ok (if e < s then 0 else (e - s + 1).toNat) :=
  Simple.sliceCount_ok hs he

/-- the expression it replaced, `(end - start) as usize + 1`, panicked exactly when `end - start = -1` or the
difference left `i32` (the finding: `(((1 <> 2) <~ (5..3)) <> 3) == (4 <> 5)` on SimpleGarnishData) -/
theorem C07_simple_old_slice_count_panics_iff {s e : Int} (hs : InRange s) (he : InRange e) :
    (∃ m, Simple.sliceCountOld s e = .panic m) ↔ (e - s = -1 ∨ ¬ InRange (e - s)) :=
  Simple.sliceCountOld_panics_iff hs he

/-- `get_concatenation_iter` / `collect_concatenation_indices` never panics: any nesting, any ranges stored in the
slices it meets, any fuel of the model -/
theorem C07_simple_concatenation_no_panic {d : Simple.SData} (wf : Simple.WF d) (fuel a : Nat) :
    NoPanic (Simple.getConcatenationIter d fuel a) :=
  Simple.getConcatenationIter_noPanic wf fuel a

/-! ## the runtime's arithmetic on `Data::Number` -/

/-- `range_len` fails (with a number error, not a panic) exactly when `end - start` or `end - start + 1` leaves `i32` -/
theorem C07_range_len (s e : Int) :
    rangeLen s e = if InRange (e - s) ∧ InRange (e - s + 1) then .ok (e - s + 1) else .err .number :=
  rangeLen_eq s e

/-- the index of a slice access, `start.plus(index).or_num_err()?`: a number error exactly on `i32` overflow -/
theorem C07_slice_index (start ix : Int) :
    numPlus start ix = if InRange (start + ix) then .ok (start + ix) else .err .number :=
  numPlus_eq start ix

/-- `access_with_integer` over BasicGarnishData: no panic for every value, every `i32` index, every range stored in a
slice; `fuel` bounds the concatenation walk of the model and `fuel * cursor ≤ usize::MAX` keeps its running index a
`usize`; the data block has fewer than `2^31` cells (so that `size_to_number` is exact — with more, the `unimplemented!`
of `iterate_concatenation_mut` would be reachable) -/
theorem C07_access_with_integer_basic {h : Heap} (wf : h.WF) (intOf : Nat → Option Int)
    (hint : ∀ n v, intOf n = some v → InRange v) (hsmall : h.cursor ≤ 2147483647) (hpos : 1 ≤ h.cursor)
    {fuel : Nat} (hf : fuel * h.cursor ≤ USIZE_MAX) (ix : Int) (value : Nat) :
    NoPanic (accessWithInteger (basicIface h intOf) fuel ix value) :=
  accessWithInteger_noPanic (basicIface_ok wf intOf hint) (basic_listsTotal wf intOf hsmall) hpos
    (basic_listLen_le wf intOf) hf ix value

/-- the same over SimpleGarnishData (lists shorter than `2^31`, bound `M` on their lengths) -/
theorem C07_access_with_integer_simple {d : Simple.SData} (wf : Simple.WF d) (hs : Simple.ShortLists d)
    {M : Nat} (hM1 : 1 ≤ M) (hM : ∀ r len, (simpleIface d).listLen r = .ok len → len ≤ M)
    {fuel : Nat} (hf : fuel * M ≤ USIZE_MAX) (ix : Int) (value : Nat) :
    NoPanic (accessWithInteger (simpleIface d) fuel ix value) :=
  accessWithInteger_noPanic (simpleIface_ok wf) (simple_listsTotal hs) hM1 hM hf ix value

/-- `index_list` over a Basic list answers `Ok` for every `i32` index: the guard `index < 0 || index >= len` keeps
`get_list_item`'s own `Err(InvalidListItemIndex)` unreachable -/
theorem C07_index_list_basic_exact {h : Heap} (wf : h.WF) (intOf : Nat → Option Int) {list n k : Nat}
    (hl : list < h.cursor) (hc : h.cell list = some (.list n k)) (ix : Int) :
    ∃ items, collectItems (h.cellsAt (list + 1) n) = .ok items ∧
      indexList (basicIface h intOf) list ix =
        .ok (if ix < 0 ∨ ix ≥ sizeToNumber n then .none
             else match items[ix.toNat]? with | some a => .addr a | none => .unit) :=
  indexList_basic wf intOf hl hc ix

/-- the slice scan of `access_with_symbol` (`while i <= end`, end clamped below the length): over any total data
object it ends with `Ok` or `Err` — the increment cannot fail, the clamped end being below `i32::MAX` -/
theorem C07_slice_scan_total {d : Iface} (ok : d.OK) (value range sym : Nat) :
    Safe (accessSliceListSymbol d value range sym) :=
  accessSliceListSymbol_safe ok value range sym

/-- … and it performs exactly one iteration per index from `start` to the clamped end: with that much fuel it
finishes, and a run that finishes has used at least that much.  For `start` near `i32::MIN` that is 2·10⁹ iterations
inside ONE step (`(((:a = 1), 2) <~ (0 - 2000000000 .. 1)) . :a`: 134 s in the harness build) — slow, not a panic;
recorded next to F-C07-range-cast-unbounded -/
theorem C07_slice_scan_steps {d : Iface} (ok : d.OK) (value sym : Nat) {start end_ : Int} (hs : InRange start)
    (he : end_ < 2147483647) (item : Option Nat) :
    Safe (sliceScan d value sym end_ (sliceScanSteps start end_) start item) ∧
    ∀ fuel r, sliceScan d value sym end_ fuel start item = .ok r → sliceScanSteps start end_ ≤ fuel :=
  ⟨sliceScan_safe ok value sym he _ _ _ hs (Nat.le_refl _), fun fuel r h => sliceScan_ok_fuel value sym end_ fuel start item r h⟩

/-! ## non-vacuity -/

/-- a well-formed heap with a text, a list, a concatenation, a symbol list and an empty byte list (data block at
offset 2 of the allocation) -/
def exHeap : Heap :=
  { heap := #[.empty, .empty,
              .charList 2, .char 104, .char 233,
              .number 7,
              .list 2 0, .listItem 3, .listItem 0, .empty, .empty,
              .concatenation 4 3,
              .symbolList 2, .symbol 5, .number 9,
              .byteList 0,
              .empty, .empty],
    dstart := 2, cursor := 14 }

example : exHeap.WF := by decide
example : getCharListIter exHeap 0 (.int (-3)) Num.maxValue = .ok [104, 233] := by rfl
example : getCharListIter exHeap 0 (.int 2147483647) (.int (-2147483648)) = .ok [] := by rfl
example : getListItem exHeap 4 (.int 1) = .ok (some 0) := by rfl
example : getConcatenationIter exHeap (3 ^ 9) 9 (.int 1) (.int 2147483647) = .ok [0, 3] := by rfl

/-- the hypothesis is needed, and the model's panics are real: a header that announces five characters with two cells
behind it makes the iterator constructor slice past the allocation -/
def badHeap : Heap := { heap := #[.charList 5, .char 104, .char 233], dstart := 0, cursor := 3 }
def isPanic {α : Type} : Outcome α → Bool | .panic _ => true | _ => false
example : ¬ badHeap.WF := by decide
example : isPanic (getCharListIter badHeap 0 (.int 0) (.int 9)) = true := by decide

/-- a SimpleGarnishData with a slice of a concatenation inside a concatenation whose stored extent is `(5, 4)` -/
def exSimple : Simple.SData :=
  #[.leaf .unit, .leaf .false, .leaf .true, .int 1, .int 2, .concat 3 4, .int 5, .int 4, .range 6 7, .slice 5 8, .int 3, .concat 9 10]

example : Simple.WF exSimple := by decide
example : Simple.ShortLists exSimple := by decide
example : Simple.getConcatenationIter exSimple 100 11 = .ok [10] := by rfl
/-- the witness of the finding, on the previous expression -/
example : isPanic (Simple.sliceCountOld 5 4) = true := by decide
example : isPanic (Simple.sliceCountOld (-2147483647) 2147483646) = true := by decide
example : Simple.sliceCount 5 4 = .ok 0 := by rfl

end Garnish.Props.C07Access
